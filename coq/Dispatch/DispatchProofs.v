(* Proofs about Dispatch.serve_http, for an arbitrary matcher [lookup], an
   arbitrary pooled context and arbitrary recorded parameter slices. *)
From FoxBase Require Import Bytes.
From FoxDispatch Require Import Dispatch DispatchSpec.
Open Scope char_scope.

Lemma bytes_eqb_false a b : bytes_eqb a b = false <-> a <> b.
Proof. destruct (bytes_eqb_spec a b); split; congruence. Qed.

Lemma nonempty_true {A} (l : list A) : nonempty l = true <-> l <> [].
Proof. destruct l; simpl; split; congruence. Qed.

Lemma nonempty_false {A} (l : list A) : nonempty l = false <-> l = [].
Proof. destruct l; simpl; split; congruence. Qed.

Lemma in_map_fst_filter (f : root -> bool) (roots : list root) m :
  In m (map fst (filter f roots)) <-> exists b, In (m, b) roots /\ f (m, b) = true.
Proof.
  rewrite in_map_iff. split.
  - intros [[k b] [Hk Hin]]. simpl in Hk. subst k. apply filter_In in Hin. exists b. exact Hin.
  - intros [b [Hin Hf]]. exists (m, b). split; [reflexivity|]. apply filter_In. split; assumption.
Qed.

Section Proofs.
  Context {R : Type}.
  Variable ignoreTS redirectTS : R -> bool.
  Variable cleanfn : bytes -> cres.
  Variable opts : options.
  Variable roots : list root.
  Variable lookup : bytes -> option (R * bool).

  Notation special := (special ignoreTS opts roots lookup).
  Notation serve_http := (serve_http ignoreTS redirectTS cleanfn opts roots lookup).
  Notation allowed := (allowed ignoreTS lookup).
  Notation serves := (serves ignoreTS lookup).

  (* the matcher only finds routes under existing method roots (roots.lookup:
     methodIndex(method) < 0 => nil) *)
  Definition roots_cover : Prop := forall m, lookup m <> None -> In m (map fst roots).

  Lemma allowed_serves m : allowed m = true <-> serves m.
  Proof.
    unfold Dispatch.allowed, DispatchSpec.serves. split.
    - destruct (lookup m) as [[r tsr]|] eqn:E; [|discriminate].
      intros H. exists r, tsr. split; [reflexivity|].
      apply orb_true_iff in H. destruct H as [H|H]; [left|right; exact H].
      destruct tsr; [discriminate|reflexivity].
    - intros [r [tsr [E H]]]. rewrite E. apply orb_true_iff.
      destruct H as [->|H]; [left; reflexivity|right; exact H].
  Qed.

  Lemma allowed_in_roots : roots_cover -> forall m, allowed m = true -> exists b, In (m, b) roots.
  Proof.
    intros Hc m H. assert (Hn : lookup m <> None).
    { unfold Dispatch.allowed in H. destruct (lookup m); [discriminate|discriminate H]. }
    apply Hc in Hn. apply in_map_iff in Hn. destruct Hn as [[k b] [Hk Hin]]. simpl in Hk. subst k.
    exists b. exact Hin.
  Qed.

  (* ---- the three lists the Allow loops build, read as sets *)

  Lemma options_list_exact : roots_cover -> forall m,
    In m (map fst (filter (fun rt : root => allowed (fst rt)) roots)) <-> serves m.
  Proof.
    intros Hc m. rewrite in_map_fst_filter. simpl. rewrite <- allowed_serves. split.
    - intros [b [_ H]]. exact H.
    - intros H. destruct (allowed_in_roots Hc m H) as [b Hb]. exists b. split; assumption.
  Qed.

  Lemma star_list_exact m :
    In m (map fst (filter (fun rt : root => negb (bytes_eqb (fst rt) mOPTIONS) && snd rt) roots)) <->
    In (m, true) roots /\ m <> mOPTIONS.
  Proof.
    rewrite in_map_fst_filter. simpl. split.
    - intros [b [Hin H]]. apply andb_true_iff in H. destruct H as [H1 H2]. subst b.
      split; [exact Hin|]. apply negb_true_iff in H1. apply bytes_eqb_false. exact H1.
    - intros [Hin Hne]. exists true. split; [exact Hin|]. apply andb_true_iff. split; [|reflexivity].
      apply negb_true_iff. apply bytes_eqb_false. exact Hne.
  Qed.

  Lemma other_list_exact meth : roots_cover -> forall m,
    In m (map fst (filter (fun rt : root => negb (bytes_eqb (fst rt) meth) && allowed (fst rt)) roots)) <->
    serves m /\ m <> meth.
  Proof.
    intros Hc m. rewrite in_map_fst_filter. simpl. rewrite <- allowed_serves. split.
    - intros [b [_ H]]. apply andb_true_iff in H. destruct H as [H1 H2]. split; [exact H2|].
      apply negb_true_iff in H1. apply bytes_eqb_false. exact H1.
    - intros [H Hne]. destruct (allowed_in_roots Hc m H) as [b Hb]. exists b. split; [exact Hb|].
      apply andb_true_iff. split; [|exact H]. apply negb_true_iff. apply bytes_eqb_false. exact Hne.
  Qed.

  Lemma existsb_options (l : list bytes) : existsb (fun k => bytes_eqb k mOPTIONS) l = true <-> In mOPTIONS l.
  Proof.
    rewrite existsb_exists. split.
    - intros [x [Hin Hx]]. apply bytes_eqb_eq in Hx. subst x. exact Hin.
    - intros H. exists mOPTIONS. split; [exact H|apply bytes_eqb_refl].
  Qed.

  (* ---- the answer to an unserved request (fox.go:578-652) *)

  Variable has_routes : bytes -> bool.
  Definition has_routes_def : Prop := forall m, has_routes m = true <-> In (m, true) roots.

  Notation unserved_spec := (unserved_spec ignoreTS opts has_routes lookup).
  Notation options_set := (options_set ignoreTS has_routes lookup).
  Notation other_set := (other_set ignoreTS lookup).

  Lemma scrubbed_special (c : ctx R) h s a :
    scrubbed (observe {| o_handler := h; o_ctx := set_scope (scrub c) s; o_allow := a |}) s.
  Proof. unfold scrubbed, observe, ctx_params. simpl. auto. Qed.

  Lemma no_route_answers (c : ctx R) :
    exists o, no_route (scrub c) = Done o /\ answers_no_route (observe o).
  Proof.
    eexists. split; [reflexivity|]. unfold answers_no_route. split; [reflexivity|]. split; [|reflexivity].
    apply scrubbed_special.
  Qed.

  Lemma options_flag rq :
    bytes_eqb (r_method rq) mOPTIONS && handleOptions opts = true <-> (is_options rq /\ handleOptions opts = true).
  Proof. unfold is_options. rewrite andb_true_iff, bytes_eqb_eq. reflexivity. Qed.

  Lemma nonempty_in {A} (l : list A) : nonempty l = true -> exists x, In x l.
  Proof. destruct l as [|x l]; [discriminate|]. intros _. exists x. left. reflexivity. Qed.

  Theorem special_correct : roots_cover -> has_routes_def -> forall rq c,
    exists o, special rq c = Done o /\ unserved_spec rq (observe o).
  Proof.
    intros Hc Hh rq c. unfold has_routes_def in Hh. unfold Dispatch.special.
    destruct (bytes_eqb (r_method rq) mOPTIONS && handleOptions opts) eqn:Eo.
    - (* OPTIONS with automatic replies *)
      pose proof (proj1 (options_flag rq) Eo) as Ho.
      set (l := if bytes_eqb (req_path rq) star
                then map fst (filter (fun rt : root => negb (bytes_eqb (fst rt) mOPTIONS) && snd rt) roots)
                else map fst (filter (fun rt : root => allowed (fst rt)) roots)).
      assert (Hl : forall m, In m l <-> options_set rq m).
      { intros m. unfold l, DispatchSpec.options_set, is_star.
        destruct (bytes_eqb (req_path rq) star) eqn:Es.
        - apply bytes_eqb_eq in Es. rewrite star_list_exact, <- Hh. split.
          + intros [H1 H2]. left. auto.
          + intros [[_ [H1 H2]]|[Hn _]]; [auto|contradiction].
        - apply bytes_eqb_false in Es. rewrite (options_list_exact Hc). split.
          + intros H. right. auto.
          + intros [[H _]|[_ H]]; [contradiction|exact H]. }
      destruct (nonempty l) eqn:En.
      + eexists. split; [reflexivity|]. unfold DispatchSpec.unserved_spec. split; [|split].
        * intros _. split.
          -- intros _. split; [reflexivity|]. split; [apply scrubbed_special|].
             exists (l ++ [mOPTIONS]). split; [reflexivity|]. intros m. rewrite in_app_iff, Hl. simpl.
             split; (intros [H|H]; [left; exact H|right]); [destruct H as [H|[]]; auto|left; auto].
          -- intros Hnone. destruct (nonempty_in l En) as [x Hx]. apply Hl in Hx. elim (Hnone x Hx).
        * intros Hn. elim (Hn Ho).
        * intros Hn. elim (Hn Ho).
      + apply nonempty_false in En. destruct (no_route_answers c) as [o [Eq Ha]]. exists o. split; [exact Eq|].
        unfold DispatchSpec.unserved_spec. split; [|split].
        * intros _. split.
          -- intros [m Hm]. apply Hl in Hm. rewrite En in Hm. destruct Hm.
          -- intros _. exact Ha.
        * intros Hn. elim (Hn Ho).
        * intros Hn. elim (Hn Ho).
    - assert (Hno : ~ (is_options rq /\ handleOptions opts = true)).
      { intros H. apply options_flag in H. congruence. }
      destruct (handleMethodNotAllowed opts) eqn:Em.
      + set (l := map fst (filter (fun rt : root => negb (bytes_eqb (fst rt) (r_method rq)) && allowed (fst rt)) roots)).
        assert (Hl : forall m, In m l <-> other_set rq m).
        { intros m. unfold l, DispatchSpec.other_set. apply (other_list_exact (r_method rq) Hc). }
        destruct (nonempty l) eqn:En.
        * eexists. split; [reflexivity|]. unfold DispatchSpec.unserved_spec. split; [|split].
          -- intros H. elim (Hno H).
          -- intros _ _. split.
             ++ intros _. split; [reflexivity|]. split; [apply scrubbed_special|].
                eexists. split; [reflexivity|]. intros m.
                destruct (handleOptions opts) eqn:Eh; simpl.
                ** destruct (existsb (fun k => bytes_eqb k mOPTIONS) l) eqn:Ee; simpl.
                   --- apply existsb_options in Ee. rewrite Hl. split; [intros H; left; exact H|].
                       intros [H|[_ H]]; [exact H|]. subst m. apply Hl. exact Ee.
                   --- rewrite in_app_iff, Hl. simpl. split.
                       +++ intros [H|[H|[]]]; [left; exact H|right; auto].
                       +++ intros [H|[_ H]]; [left; exact H|right; left; auto].
                ** rewrite Hl. split; [intros H; left; exact H|]. intros [H|[H _]]; [exact H|discriminate].
             ++ intros Hnone. destruct (nonempty_in l En) as [x Hx]. apply Hl in Hx. elim (Hnone x Hx).
          -- intros _ H. congruence.
        * apply nonempty_false in En. destruct (no_route_answers c) as [o [Eq Ha]]. exists o. split; [exact Eq|].
          unfold DispatchSpec.unserved_spec. split; [|split].
          -- intros H. elim (Hno H).
          -- intros _ _. split.
             ++ intros [m Hm]. apply Hl in Hm. rewrite En in Hm. destruct Hm.
             ++ intros _. exact Ha.
          -- intros _ H. congruence.
      + destruct (no_route_answers c) as [o [Eq Ha]]. exists o. split; [exact Eq|].
        unfold DispatchSpec.unserved_spec. split; [|split].
        * intros H. elim (Hno H).
        * intros _ H. congruence.
        * intros _ _. exact Ha.
  Qed.

  (* ---- the whole of ServeHTTP *)

  Variable clean : bytes -> bytes.
  (* C17: CleanPath computes the canonical form (cleanpath_correct, with clean := clean_spec) *)
  Definition cleanfn_correct : Prop := forall p, cleanfn p = COk (clean p).

  Notation dispatch_spec := (dispatch_spec ignoreTS redirectTS clean opts has_routes lookup).

  Definition match_params_of (rq : request) (recp rect : list param) : list param :=
    match lookup (r_method rq) with Some (_, true) => rect | _ => recp end.

  Lemma tsr_guard rq :
    negb (bytes_eqb (r_method rq) mCONNECT) && negb (bytes_eqb (r_urlpath rq) slash) = true <-> tsr_applicable rq.
  Proof.
    unfold tsr_applicable. rewrite andb_true_iff, !negb_true_iff, !bytes_eqb_false. reflexivity.
  Qed.

  Theorem dispatch_correct : roots_cover -> has_routes_def -> cleanfn_correct ->
    forall rq c0 recp rect,
    exists o, serve_http rq c0 recp rect = Done o /\
              dispatch_spec rq (match_params_of rq recp rect) (observe o).
  Proof.
    intros Hc Hh Hcl rq c0 recp rect.
    unfold Dispatch.serve_http, DispatchSpec.dispatch_spec, match_params_of.
    set (c := {| c_route := c_route c0; c_tsr := c_tsr c0; c_params := recp; c_tsrParams := rect; c_scope := RouteHandler |}).
    destruct (lookup (r_method rq)) as [[r [|]]|] eqn:El.
    - (* a slash-adjusted match *)
      destruct (negb (bytes_eqb (r_method rq) mCONNECT) && negb (bytes_eqb (r_urlpath rq) slash)) eqn:Eg.
      + pose proof (proj1 (tsr_guard rq) Eg) as Ha.
        destruct (ignoreTS r) eqn:Ei.
        * eexists. split; [reflexivity|]. split; [|split].
          -- intros _. unfold served_by, observe, ctx_params. simpl. auto.
          -- intros [_ [H _]]. discriminate.
          -- intros [H|[H _]]; [elim (H Ha)|discriminate].
        * destruct (redirectTS r) eqn:Er.
          -- rewrite Hcl. destruct (bytes_eqb (req_path rq) (clean (req_path rq))) eqn:Ec.
             ++ apply bytes_eqb_eq in Ec. eexists. split; [reflexivity|]. split; [|split].
                ** intros [_ H]. discriminate.
                ** intros _. unfold redirected. split; [reflexivity|]. split; [apply scrubbed_special|reflexivity].
                ** intros [H|[_ [H|H]]]; [elim (H Ha)|discriminate|congruence].
             ++ apply bytes_eqb_false in Ec. destruct (special_correct Hc Hh rq c) as [o [Eq Hs]].
                exists o. split; [exact Eq|]. split; [|split].
                ** intros [_ H]. discriminate.
                ** intros [_ [_ [_ H]]]. congruence.
                ** intros _. exact Hs.
          -- destruct (special_correct Hc Hh rq c) as [o [Eq Hs]].
             exists o. split; [exact Eq|]. split; [|split].
             ++ intros [_ H]. discriminate.
             ++ intros [_ [_ [H _]]]. discriminate.
             ++ intros _. exact Hs.
      + assert (Hna : ~ tsr_applicable rq).
        { intros H. apply tsr_guard in H. congruence. }
        destruct (special_correct Hc Hh rq c) as [o [Eq Hs]].
        exists o. split; [exact Eq|]. split; [|split].
        * intros [H _]. elim (Hna H).
        * intros [H _]. elim (Hna H).
        * intros _. exact Hs.
    - (* a direct match *)
      eexists. split; [reflexivity|]. unfold served_by, observe, ctx_params. simpl. auto.
    - (* no match *)
      apply (special_correct Hc Hh rq c).
  Qed.

  (* ---- the exact shape of the answer to an unserved request, from the code *)

  Definition mk_special (h : handler R) (c : ctx R) (s : scope) (a : option (list bytes)) : outcome R :=
    {| o_handler := h; o_ctx := set_scope (scrub c) s; o_allow := a |}.

  Lemma special_cases : roots_cover -> has_routes_def -> forall rq c,
    (is_options rq /\ handleOptions opts = true /\
       ((exists l, l <> [] /\ (forall m, In m l <-> options_set rq m) /\
                   special rq c = Done (mk_special HOptions c OptionsHandler (Some (l ++ [mOPTIONS]))))
        \/ ((forall m, ~ options_set rq m) /\ special rq c = Done (mk_special HNoRoute c NoRouteHandler None))))
    \/ (~ (is_options rq /\ handleOptions opts = true) /\ handleMethodNotAllowed opts = true /\
       ((exists l l', l <> [] /\ (forall m, In m l <-> other_set rq m) /\
                      (forall m, In m l' <-> In m l \/ (handleOptions opts = true /\ m = mOPTIONS)) /\
                      special rq c = Done (mk_special HNoMethod c NoMethodHandler (Some l')))
        \/ ((forall m, ~ other_set rq m) /\ special rq c = Done (mk_special HNoRoute c NoRouteHandler None))))
    \/ (~ (is_options rq /\ handleOptions opts = true) /\ handleMethodNotAllowed opts = false /\
        special rq c = Done (mk_special HNoRoute c NoRouteHandler None)).
  Proof.
    intros Hc Hh rq c. unfold has_routes_def in Hh. unfold Dispatch.special.
    destruct (bytes_eqb (r_method rq) mOPTIONS && handleOptions opts) eqn:Eo.
    - left. destruct (proj1 (options_flag rq) Eo) as [Ho1 Ho2]. split; [exact Ho1|]. split; [exact Ho2|].
      set (l := if bytes_eqb (req_path rq) star
                then map fst (filter (fun rt : root => negb (bytes_eqb (fst rt) mOPTIONS) && snd rt) roots)
                else map fst (filter (fun rt : root => allowed (fst rt)) roots)).
      assert (Hl : forall m, In m l <-> options_set rq m).
      { intros m. unfold l, DispatchSpec.options_set, is_star.
        destruct (bytes_eqb (req_path rq) star) eqn:Es.
        - apply bytes_eqb_eq in Es. rewrite star_list_exact, <- Hh. split.
          + intros [H1 H2]. left. auto.
          + intros [[_ [H1 H2]]|[Hn _]]; [auto|contradiction].
        - apply bytes_eqb_false in Es. rewrite (options_list_exact Hc). split.
          + intros H. right. auto.
          + intros [[H _]|[_ H]]; [contradiction|exact H]. }
      destruct (nonempty l) eqn:En.
      + left. exists l. split; [apply nonempty_true; exact En|]. split; [exact Hl|reflexivity].
      + right. apply nonempty_false in En. split; [|reflexivity].
        intros m Hm. apply Hl in Hm. rewrite En in Hm. destruct Hm.
    - right. assert (Hno : ~ (is_options rq /\ handleOptions opts = true)).
      { intros H. apply options_flag in H. congruence. }
      destruct (handleMethodNotAllowed opts) eqn:Em.
      + left. split; [exact Hno|]. split; [reflexivity|].
        set (l := map fst (filter (fun rt : root => negb (bytes_eqb (fst rt) (r_method rq)) && allowed (fst rt)) roots)).
        assert (Hl : forall m, In m l <-> other_set rq m).
        { intros m. unfold l, DispatchSpec.other_set. apply (other_list_exact (r_method rq) Hc). }
        destruct (nonempty l) eqn:En.
        * left. eexists l, _. split; [apply nonempty_true; exact En|]. split; [exact Hl|]. split; [|reflexivity].
          intros m. destruct (handleOptions opts) eqn:Eh; simpl.
          -- destruct (existsb (fun k => bytes_eqb k mOPTIONS) l) eqn:Ee; simpl.
             ++ apply existsb_options in Ee. split; [intros H; left; exact H|].
                intros [H|[_ H]]; [exact H|]. subst m. exact Ee.
             ++ rewrite in_app_iff. simpl. split.
                ** intros [H|[H|[]]]; [left; exact H|right; auto].
                ** intros [H|[_ H]]; [left; exact H|right; left; auto].
          -- split; [intros H; left; exact H|]. intros [H|[H _]]; [exact H|discriminate].
        * right. apply nonempty_false in En. split; [|reflexivity].
          intros m Hm. apply Hl in Hm. rewrite En in Hm. destruct Hm.
      + right. split; [exact Hno|]. split; reflexivity.
  Qed.

  (* ---- the shape of ServeHTTP itself *)

  Definition start_ctx (c0 : ctx R) (recp rect : list param) : ctx R :=
    {| c_route := c_route c0; c_tsr := c_tsr c0; c_params := recp; c_tsrParams := rect; c_scope := RouteHandler |}.

  Lemma serve_cases rq c0 recp rect :
    let c := start_ctx c0 recp rect in
    (exists r tsr, lookup (r_method rq) = Some (r, tsr) /\
        (tsr = false \/ (tsr_applicable rq /\ ignoreTS r = true)) /\
        serve_http rq c0 recp rect = Done {| o_handler := HRoute r; o_ctx := set_route c (Some r) tsr; o_allow := None |})
    \/ (exists r, lookup (r_method rq) = Some (r, true) /\ tsr_applicable rq /\ ignoreTS r = false /\
          redirectTS r = true /\ cleanfn (req_path rq) = COk (req_path rq) /\
          serve_http rq c0 recp rect = Done (mk_special HRedirect c RedirectHandler None))
    \/ (serve_http rq c0 recp rect = special rq c /\
          match lookup (r_method rq) with
          | Some (r, false) => False
          | Some (r, true) => ~ tsr_applicable rq \/
                (ignoreTS r = false /\ (redirectTS r = false \/ exists o, cleanfn (req_path rq) = COk o /\ o <> req_path rq))
          | None => True
          end)
    \/ (serve_http rq c0 recp rect = DPanic /\ cleanfn (req_path rq) = CPanic)
    \/ (serve_http rq c0 recp rect = DOutOfFuel /\ cleanfn (req_path rq) = CFuel).
  Proof.
    intros c. unfold Dispatch.serve_http. fold (start_ctx c0 recp rect). fold c.
    destruct (lookup (r_method rq)) as [[r [|]]|] eqn:El.
    - destruct (negb (bytes_eqb (r_method rq) mCONNECT) && negb (bytes_eqb (r_urlpath rq) slash)) eqn:Eg.
      + pose proof (proj1 (tsr_guard rq) Eg) as Ha.
        destruct (ignoreTS r) eqn:Ei.
        * left. exists r, true. auto.
        * destruct (redirectTS r) eqn:Er.
          -- destruct (cleanfn (req_path rq)) as [o| |] eqn:Ec.
             ++ destruct (bytes_eqb (req_path rq) o) eqn:Eb.
                ** apply bytes_eqb_eq in Eb. subst o. right. left. exists r. auto 10.
                ** apply bytes_eqb_false in Eb. right. right. left. split; [reflexivity|].
                   right. split; [reflexivity|]. right. exists o. split; [reflexivity|]. congruence.
             ++ right. right. right. left. auto.
             ++ right. right. right. right. auto.
          -- right. right. left. split; [reflexivity|]. right. auto.
      + right. right. left. split; [reflexivity|]. left. intros H. apply tsr_guard in H. congruence.
    - left. exists r, false. auto.
    - right. right. left. auto.
  Qed.

  (* C17 "a trailing-slash redirect is only ever issued for request paths already in this form" *)
  Theorem redirect_only_if_clean rq c0 recp rect o :
    serve_http rq c0 recp rect = Done o -> o_handler o = HRedirect ->
    cleanfn (req_path rq) = COk (req_path rq) /\
    r_method rq <> mCONNECT /\ r_urlpath rq <> slash /\
    exists r, lookup (r_method rq) = Some (r, true) /\ ignoreTS r = false /\ redirectTS r = true.
  Proof.
    intros Hs Hh.
    destruct (serve_cases rq c0 recp rect) as [[r [tsr [_ [_ E]]]]|[[r [El [[Ha1 Ha2] [Ei [Er [Ec E]]]]]]|[[E _]|[[E _]|[E _]]]]];
      rewrite E in Hs.
    - inversion Hs. subst o. discriminate.
    - split; [exact Ec|]. split; [exact Ha1|]. split; [exact Ha2|]. exists r. auto.
    - exfalso. revert Hs Hh. unfold Dispatch.special, no_route.
      repeat match goal with |- context [if ?b then _ else _] => destruct b end;
        intros Hs Hh; inversion Hs; subst o; discriminate.
    - discriminate.
    - discriminate.
  Qed.

  (* ServeHTTP itself never panics: only CleanPath could (C17: it does not) *)
  Theorem serve_total rq c0 recp rect :
    (forall p, exists o, cleanfn p = COk o) -> exists o, serve_http rq c0 recp rect = Done o.
  Proof.
    intros Ht.
    destruct (serve_cases rq c0 recp rect) as [[r [tsr [_ [_ E]]]]|[[r [_ [_ [_ [_ [_ E]]]]]]|[[E _]|[[_ E]|[_ E]]]]].
    - eexists. exact E.
    - eexists. exact E.
    - rewrite E. unfold Dispatch.special, no_route.
      repeat match goal with |- context [if ?b then _ else _] => destruct b end; eexists; reflexivity.
    - destruct (Ht (req_path rq)) as [o Ho]. congruence.
    - destruct (Ht (req_path rq)) as [o Ho]. congruence.
  Qed.

  Definition scope_of (h : handler R) : scope :=
    match h with
    | HRoute _ => RouteHandler | HRedirect => RedirectHandler | HOptions => OptionsHandler
    | HNoMethod => NoMethodHandler | HNoRoute => NoRouteHandler
    end.

  (* C11: "In these handlers, as in the redirect handler, the context exposes no
     route, pattern or parameters and reports the corresponding scope" -- whatever
     the pooled context held and whatever the failed match recorded *)
  Theorem special_ctx_scrubbed rq c0 recp rect o :
    serve_http rq c0 recp rect = Done o ->
    (forall r, o_handler o <> HRoute r) ->
    c_route (o_ctx o) = None /\ ctx_params (o_ctx o) = [] /\ c_tsr (o_ctx o) = false /\
    c_scope (o_ctx o) = scope_of (o_handler o) /\ scrubbed (observe o) (scope_of (o_handler o)).
  Proof.
    intros Hs Hh.
    assert (Hk : forall h c a, let o' := mk_special h c (scope_of h) a in
                 c_route (o_ctx o') = None /\ ctx_params (o_ctx o') = [] /\ c_tsr (o_ctx o') = false /\
                 c_scope (o_ctx o') = scope_of (o_handler o') /\ scrubbed (observe o') (scope_of (o_handler o'))).
    { intros h c a. unfold mk_special, scrubbed, observe, ctx_params. simpl. auto 10. }
    destruct (serve_cases rq c0 recp rect) as [[r [tsr [_ [_ E]]]]|[[r [_ [_ [_ [_ [_ E]]]]]]|[[E _]|[[E _]|[E _]]]]];
      rewrite E in Hs.
    - inversion Hs. subst o. elim (Hh r). reflexivity.
    - inversion Hs. subst o. exact (Hk HRedirect _ _).
    - revert Hs. unfold Dispatch.special, no_route.
      repeat match goal with |- context [if ?b then _ else _] => destruct b end;
        intros Hs; inversion Hs; subst o.
      all: first [exact (Hk HOptions _ _) | exact (Hk HNoMethod _ _) | exact (Hk HNoRoute _ _)].
    - discriminate.
    - discriminate.
  Qed.

  (* C11: the Allow header lists exactly the demanded set *)
  Theorem allow_exact : roots_cover -> has_routes_def -> forall rq c0 recp rect o,
    serve_http rq c0 recp rect = Done o ->
    (o_handler o = HOptions ->
       is_options rq /\ handleOptions opts = true /\
       exists l, o_allow o = Some l /\ lists_exactly l (fun m => options_set rq m \/ m = mOPTIONS)) /\
    (o_handler o = HNoMethod ->
       ~ (is_options rq /\ handleOptions opts = true) /\ handleMethodNotAllowed opts = true /\
       exists l, o_allow o = Some l /\
         lists_exactly l (fun m => other_set rq m \/ (handleOptions opts = true /\ m = mOPTIONS))) /\
    (o_handler o <> HOptions -> o_handler o <> HNoMethod -> o_allow o = None).
  Proof.
    intros Hc Hh rq c0 recp rect o Hs.
    destruct (serve_cases rq c0 recp rect) as [[r [tsr [_ [_ E]]]]|[[r [_ [_ [_ [_ [_ E]]]]]]|[[E _]|[[E _]|[E _]]]]];
      rewrite E in Hs; try discriminate.
    - inversion Hs. subst o. simpl. repeat split; try discriminate. 
    - inversion Hs. subst o. simpl. repeat split; try discriminate. 
    - destruct (special_cases Hc Hh rq (start_ctx c0 recp rect))
        as [[Ho1 [Ho2 [[l [Hne [Hl Es]]]|[Hnone Es]]]]|[[Hno [Em [[l [l' [Hne [Hl [Hl' Es]]]]]|[Hnone Es]]]]|[Hno [Em Es]]]];
        rewrite Es in Hs; inversion Hs; subst o; simpl; (split; [|split]); try discriminate; try congruence.
      + intros _. split; [exact Ho1|]. split; [exact Ho2|]. exists (l ++ [mOPTIONS]). split; [reflexivity|].
        intros m. rewrite in_app_iff, Hl. simpl. split.
        * intros [H|[H|[]]]; auto.
        * intros [H|H]; auto.
      + intros _. split; [exact Hno|]. split; [exact Em|]. exists l'. split; [reflexivity|].
        intros m. rewrite Hl', Hl. reflexivity.
  Qed.

  (* ---- views obtained from the context: Clone / CloneWith copies show what the context shows *)

  Lemma clone_with_view (c pooled : ctx R) :
    c_route (clone_with c pooled) = c_route c /\ ctx_params (clone_with c pooled) = ctx_params c /\
    c_scope (clone_with c pooled) = c_scope c.
  Proof. unfold clone_with, ctx_params. simpl. destruct (c_tsr c); auto. Qed.

  Lemma clone_view (c : ctx R) :
    c_route (clone c) = c_route c /\ ctx_params (clone c) = ctx_params c /\ c_scope (clone c) = c_scope c.
  Proof. unfold clone, ctx_params. simpl. destruct (c_tsr c); auto. Qed.

  (* C11: the copies a special handler (or a middleware on its scope) takes of the context are scrubbed
     too, whatever the pooled context they are built on held before *)
  Theorem special_clones_scrubbed rq c0 recp rect o pooled :
    serve_http rq c0 recp rect = Done o ->
    (forall r, o_handler o <> HRoute r) ->
    (c_route (clone_with (o_ctx o) pooled) = None /\ ctx_params (clone_with (o_ctx o) pooled) = [] /\
     c_scope (clone_with (o_ctx o) pooled) = scope_of (o_handler o)) /\
    (c_route (clone (o_ctx o)) = None /\ ctx_params (clone (o_ctx o)) = [] /\
     c_scope (clone (o_ctx o)) = scope_of (o_handler o)).
  Proof.
    intros Hs Hh. destruct (special_ctx_scrubbed rq c0 recp rect o Hs Hh) as [H1 [H2 [_ [H4 _]]]].
    destruct (clone_with_view (o_ctx o) pooled) as [A1 [A2 A3]]. destruct (clone_view (o_ctx o)) as [B1 [B2 B3]].
    rewrite A1, A2, A3, B1, B2, B3. auto.
  Qed.

End Proofs.
