(* Model of defaultRedirectTrailingSlashHandler (fox.go:506-527), localRedirect
   (fox.go:884-907: the Location header and the status only), hexEscapeNonASCII
   (fox.go:909-938), FixTrailingSlash (path.go:160-165) and Go's path.Base.

   Two variants of the handler are modelled:
     LocAsIs   the pinned code: the last element of the DECODED path (or of
               RawPath) is copied into the relative reference unchanged;
     LocFixed  the repair in proposed_fixes/C08_location.patch: the element is
               taken from req.URL.EscapedPath() and prefixed with "./" when it
               contains ':' and would otherwise start the reference.
   The harness observes which one the tree under test implements (it replays
   the witness /{x}/ |- /https:evil.com) and selects the variant in the case
   files; everything else is identical. *)
From FoxBase Require Import Bytes.
From FoxDispatch Require Import Dispatch.
Open Scope char_scope.

Inductive variant := LocAsIs | LocFixed.

(* ---- path.go:160  FixTrailingSlash *)
Definition last_is_slash (p : bytes) : bool :=
  match rev p with c :: _ => Ascii.eqb c "/" | [] => false end.

Definition fix_trailing_slash (p : bytes) : bytes :=
  if Nat.ltb 1 (List.length p) && last_is_slash p then removelast p else p ++ ["/"].

(* ---- Go path.Base
     if path == "" { return "." }
     strip trailing slashes; keep what follows the last '/'; "" -> "/"  *)
Fixpoint drop_slashes (r : bytes) : bytes :=      (* on the reversed string *)
  match r with
  | c :: t => if Ascii.eqb c "/" then drop_slashes t else r
  | [] => []
  end.

Fixpoint take_to_slash (r : bytes) : bytes :=     (* on the reversed string *)
  match r with
  | c :: t => if Ascii.eqb c "/" then [] else c :: take_to_slash t
  | [] => []
  end.

Definition path_base (p : bytes) : bytes :=
  match p with
  | [] => ["."]
  | _ => match rev (take_to_slash (drop_slashes (rev p))) with
         | [] => ["/"]
         | b => b
         end
  end.

(* ---- hexEscapeNonASCII: bytes >= 0x80 become %xx, lower-case hex
        (strconv.AppendInt(b, int64(s[i]), 16): two digits for 128..255) *)
Definition hex_lower (n : N) : ascii :=
  if (n <? 10)%N then ascii_of_N (48 + n) else ascii_of_N (87 + n).

Definition hex_escape_byte (c : ascii) : bytes :=
  let n := N_of_ascii c in
  if (128 <=? n)%N then ["%"; hex_lower (n / 16); hex_lower (n mod 16)] else [c].

Definition hex_escape_non_ascii (s : bytes) : bytes := flat_map hex_escape_byte s.

(* ---- the redirect status *)
Definition redirect_code (method : bytes) : Z :=
  if bytes_eqb method mGET then 301%Z else 308%Z.

Inductive rres := ROk (code : Z) (location : bytes) | RPanic.

Definition has_colon (s : bytes) : bool := existsb (fun c => Ascii.eqb c ":") s.

(* url[len(url)-1]: index expression, panics on the empty string *)
Definition redirect_with (v : variant) (method url query : bytes) : rres :=
  match rev url with
  | [] => RPanic
  | c :: _ =>
      let base := path_base url in
      let ref :=
        if Ascii.eqb c "/" then
          match v with
          | LocAsIs => base ++ ["/"]
          | LocFixed => (if has_colon base then [".";"/"] else []) ++ base ++ ["/"]
          end
        else [".";".";"/"] ++ base in
      (* localRedirect: if q := r.URL.RawQuery; q != "" { path += "?" + q } *)
      let ref := if nonempty query then ref ++ ["?"] ++ query else ref in
      ROk (redirect_code method) (hex_escape_non_ascii ref)
  end.

(* the handler: [escaped] is req.URL.EscapedPath() (net/url; only read by the
   fixed variant), the other arguments are fields of the request *)
Definition redirect_handler (v : variant) (method urlpath rawpath escaped query : bytes) : rres :=
  let url :=
    match v with
    | LocAsIs => if nonempty rawpath then fix_trailing_slash rawpath else fix_trailing_slash urlpath
    | LocFixed => fix_trailing_slash escaped
    end in
  redirect_with v method url query.
