(* Specification of request dispatch, written from the statements of C11 and of
   the dispatch half of C08 in /verif/properties.jsonl.  It talks about what a
   handler can observe, not about how ServeHTTP computes it.

   Inputs of the specification (per request):
     lookup m      the matcher's answer for method m on the request's host and
                   path: Some (r, false) = route r matches directly,
                   Some (r, true) = r matches once a trailing slash is added or
                   removed, None = nothing;
     match_params  the parameters of that (direct or adjusted) match for the
                   request's own method;
     has_routes m  method m has at least one registered route;
     clean         the canonical-path function of C17 (clean_spec);
     the two router options, the per-route trailing-slash options, the
     request method, URL.Path and the path used for matching. *)
From FoxBase Require Import Bytes.
From FoxDispatch Require Import Dispatch.
Open Scope char_scope.

Section Spec.
  Context {R : Type}.
  Variable ignoreTS redirectTS : R -> bool.
  Variable clean : bytes -> bytes.
  Variable opts : options.
  Variable has_routes : bytes -> bool.
  Variable lookup : bytes -> option (R * bool).
  Variable rq : request.
  Variable match_params : list param.

  (* what is visible from inside the handler that runs, and on the response *)
  Record obs := {
    ob_handler : handler R;          (* which handler ran *)
    ob_route : option R;             (* Context.Route() / Pattern() *)
    ob_params : list param;          (* Context.Params() *)
    ob_scope : scope;                (* Context.Scope() *)
    ob_allow : option (list bytes)   (* the Allow header, as a list of method names *)
  }.

  (* C11: "a route serving that host and path (directly or by ignoring a trailing slash)" *)
  Definition serves (m : bytes) : Prop :=
    exists r tsr, lookup m = Some (r, tsr) /\ (tsr = false \/ ignoreTS r = true).

  Definition is_options : Prop := r_method rq = mOPTIONS.
  Definition is_star : Prop := req_path rq = star.

  (* a list read as a set *)
  Definition lists_exactly (l : list bytes) (S : bytes -> Prop) : Prop := forall m, In m l <-> S m.

  (* "the context exposes no route, pattern or parameters and reports the corresponding scope" *)
  Definition scrubbed (o : obs) (s : scope) : Prop :=
    ob_route o = None /\ ob_params o = [] /\ ob_scope o = s.

  Definition answers_no_route (o : obs) : Prop :=
    ob_handler o = HNoRoute /\ scrubbed o NoRouteHandler /\ ob_allow o = None.

  (* the methods an automatic OPTIONS reply has to list, besides OPTIONS itself *)
  Definition options_set (m : bytes) : Prop :=
    (is_star /\ has_routes m = true /\ m <> mOPTIONS) \/ (~ is_star /\ serves m).

  (* "the other such methods" *)
  Definition other_set (m : bytes) : Prop := serves m /\ m <> r_method rq.

  (* C11: the answer to a request that no route serves *)
  Definition unserved_spec (o : obs) : Prop :=
    (is_options /\ handleOptions opts = true ->
       ((exists m, options_set m) ->
          ob_handler o = HOptions /\ scrubbed o OptionsHandler /\
          exists l, ob_allow o = Some l /\ lists_exactly l (fun m => options_set m \/ m = mOPTIONS)) /\
       ((forall m, ~ options_set m) -> answers_no_route o)) /\
    (~ (is_options /\ handleOptions opts = true) -> handleMethodNotAllowed opts = true ->
       ((exists m, other_set m) ->
          ob_handler o = HNoMethod /\ scrubbed o NoMethodHandler /\
          exists l, ob_allow o = Some l /\
            lists_exactly l (fun m => other_set m \/ (handleOptions opts = true /\ m = mOPTIONS))) /\
       ((forall m, ~ other_set m) -> answers_no_route o)) /\
    (~ (is_options /\ handleOptions opts = true) -> handleMethodNotAllowed opts = false ->
       answers_no_route o).

  Definition served_by (o : obs) (r : R) : Prop :=
    ob_handler o = HRoute r /\ ob_route o = Some r /\ ob_params o = match_params /\
    ob_scope o = RouteHandler /\ ob_allow o = None.

  (* C08: a trailing-slash action is possible at all *)
  Definition tsr_applicable : Prop := r_method rq <> mCONNECT /\ r_urlpath rq <> slash.

  Definition redirected (o : obs) : Prop :=
    ob_handler o = HRedirect /\ scrubbed o RedirectHandler /\ ob_allow o = None.

  (* C08 (dispatch half) + C11 *)
  Definition dispatch_spec (o : obs) : Prop :=
    match lookup (r_method rq) with
    | Some (r, false) => served_by o r
    | Some (r, true) =>
        (tsr_applicable /\ ignoreTS r = true -> served_by o r) /\
        (tsr_applicable /\ ignoreTS r = false /\ redirectTS r = true /\ clean (req_path rq) = req_path rq ->
           redirected o) /\
        (~ tsr_applicable \/ (ignoreTS r = false /\ (redirectTS r = false \/ clean (req_path rq) <> req_path rq)) ->
           unserved_spec o)
    | None => unserved_spec o
    end.

End Spec.

Arguments obs : clear implicits.

(* what the specification sees of a model outcome *)
Definition observe {R} (o : outcome R) : obs R :=
  {| ob_handler := o_handler o;
     ob_route := c_route (o_ctx o);
     ob_params := ctx_params (o_ctx o);
     ob_scope := c_scope (o_ctx o);
     ob_allow := o_allow o |}.
