(* C08 — dispatch / redirect half: property theorems (statements closed by [exact]).
   The two C17 statements that Dispatch_C08.v takes as hypotheses are discharged here with
   the theorems proved in coq/C17 (cleanpath_correct, clean_spec_canonical). *)
From FoxBase Require Import Bytes.
From FoxC17 Require Model Spec Proofs ProofsModel.
From FoxDispatch Require Import Dispatch Redirect DispatchSpec Uri UriProofs DispatchProofs RedirectProofs Corr Dispatch_C08.

Lemma c17a : cleanpath_correct_statement.
Proof. exact ProofsModel.cleanpath_correct. Qed.
Lemma c17b : clean_spec_canonical_statement.
Proof. exact Proofs.clean_spec_canonical. Qed.

(* which handler runs for a trailing-slash recommendation, over an arbitrary lookup function *)
Theorem C08_dispatch_case_analysis :
  forall (R : Type) (ignoreTS redirectTS : R -> bool) (cleanfn : bytes -> cres) (opts : options) (roots : list root)
         (lookup : bytes -> option (R * bool)) (has_routes : bytes -> bool) (clean : bytes -> bytes),
  roots_cover roots lookup -> has_routes_def roots has_routes -> cleanfn_correct cleanfn clean ->
  forall rq c0 recp rect,
  exists o, serve_http ignoreTS redirectTS cleanfn opts roots lookup rq c0 recp rect = Done o /\
            dispatch_spec ignoreTS redirectTS clean opts has_routes lookup rq
              (match_params_of lookup rq recp rect) (observe o).
Proof. exact C08_dispatch_correct. Qed.
Print Assumptions C08_dispatch_case_analysis.

(* a trailing-slash redirect is only ever issued for canonical request paths (C17 discharged) *)
Theorem C08_redirect_only_for_canonical_paths :
  ltac:(let t := type of (C08_redirect_only_if_canonical c17a c17b) in exact t).
Proof. exact (C08_redirect_only_if_canonical c17a c17b). Qed.
Check C08_redirect_only_for_canonical_paths.
Print Assumptions C08_redirect_only_for_canonical_paths.

(* 301 for GET and 308 otherwise with a Location that resolves (RFC 3986 5.2) to the adjusted
   path and keeps the query string — for the repaired handler (fix 3c3e3b0), from what ServeHTTP
   sees of the request *)
Theorem C08_redirect_location_resolves :
  ltac:(let t := type of (C08_redirect_end_to_end_fixed c17a c17b) in exact t).
Proof. exact (C08_redirect_end_to_end_fixed c17a c17b). Qed.
Check C08_redirect_location_resolves.
Print Assumptions C08_redirect_location_resolves.

Theorem C08_location_resolves_fixed : location_resolves_statement LocFixed.
Proof. exact location_resolves_fixed. Qed.
Print Assumptions C08_location_resolves_fixed.

(* the handler before the repair did not satisfy it: kept as the regression witness *)
Theorem C08_location_resolves_refuted_before_fix : ~ location_resolves_statement LocAsIs.
Proof. exact location_resolves_refuted. Qed.
Print Assumptions C08_location_resolves_refuted_before_fix.

Theorem C08_redirect_status_code : forall v m urlpath rawpath escaped q,
  exists loc, redirect_handler v m urlpath rawpath escaped q = ROk (if bytes_eqb m mGET then 301%Z else 308%Z) loc.
Proof. exact C08_redirect_code. Qed.
Print Assumptions C08_redirect_status_code.

Theorem C08_tsr_ignore_is_served :
  forall (R : Type) (ignoreTS redirectTS : R -> bool) cleanfn opts roots (lookup : bytes -> option (R * bool)) rq c0 recp rect r,
  lookup (r_method rq) = Some (r, true) -> r_method rq <> mCONNECT -> r_urlpath rq <> slash -> ignoreTS r = true ->
  exists o, serve_http ignoreTS redirectTS cleanfn opts roots lookup rq c0 recp rect = Done o /\ o_handler o = HRoute r /\
            c_route (o_ctx o) = Some r /\ ctx_params (o_ctx o) = rect /\ c_scope (o_ctx o) = RouteHandler /\ o_allow o = None.
Proof. exact C08_tsr_ignore_served. Qed.
Print Assumptions C08_tsr_ignore_is_served.
