(* C08, dispatch / redirect half.  To be imported by Props_C08.v.

   Stable names provided by this file (all closed, no axioms; the ones marked
   [C17] take the two C17 statements as explicit hypotheses):

     C08_dispatch_correct            the full case analysis of ServeHTTP (= C11_dispatch_correct)
     C08_direct_match_served         a direct match is served by that route, whatever the options
     C08_tsr_ignore_served           tsr + ignore  => served by that route with the adjusted-match params
     C08_tsr_redirect                tsr + redirect + clean path => the redirect handler, scrubbed context
     C08_tsr_otherwise_unmatched     every other tsr case, CONNECT and URL.Path = "/" => the C11 answer
     C08_redirect_only_if_clean      a redirect implies CleanPath(path) = path, not CONNECT, URL.Path <> "/"
     C08_redirect_only_if_canonical  [C17] ... hence only for canonical paths
     C08_redirect_code               301 iff GET, else 308; the handler never panics
     location_resolves_statement     the Location clause, full strength (Prop, FALSE of the pinned handler)
     location_resolves_refuted       witness /https:evil.com (and /a%3Fb, /a%23b)
     location_resolves_partial       holds when the last path element is unreserved
     location_resolves_fixed         holds for every conformant request with the handler of
                                     proposed_fixes/C08_location.patch
     C08_redirect_end_to_end_partial / _fixed   the same, from what ServeHTTP sees of the request
     c17_canonical_bridge            FoxC17.Spec.canonical p = true -> Uri.canonical_path p = true
     C08_example_*                   non-vacuity examples *)
From FoxBase Require Import Bytes.
From FoxC17 Require Model Spec.
From FoxDispatch Require Import Dispatch Redirect DispatchSpec Uri UriProofs DispatchProofs RedirectProofs Corr.
Open Scope char_scope.

(* ------------------------------------------------------------- dispatch *)

Theorem C08_dispatch_correct :
  forall (R : Type) (ignoreTS redirectTS : R -> bool) (cleanfn : bytes -> cres) (opts : options) (roots : list root)
         (lookup : bytes -> option (R * bool)) (has_routes : bytes -> bool) (clean : bytes -> bytes),
  roots_cover roots lookup -> has_routes_def roots has_routes -> cleanfn_correct cleanfn clean ->
  forall rq c0 recp rect,
  exists o, serve_http ignoreTS redirectTS cleanfn opts roots lookup rq c0 recp rect = Done o /\
            dispatch_spec ignoreTS redirectTS clean opts has_routes lookup rq
              (match_params_of lookup rq recp rect) (observe o).
Proof. exact (@dispatch_correct). Qed.

Section Cases.
  Context {R : Type}.
  Variable ignoreTS redirectTS : R -> bool.
  Variable cleanfn : bytes -> cres.
  Variable opts : options.
  Variable roots : list root.
  Variable lookup : bytes -> option (R * bool).
  Notation serve := (serve_http ignoreTS redirectTS cleanfn opts roots lookup).

  Lemma direct_match_served rq c0 recp rect r :
    lookup (r_method rq) = Some (r, false) ->
    exists o, serve rq c0 recp rect = Done o /\ o_handler o = HRoute r /\ c_route (o_ctx o) = Some r /\
              ctx_params (o_ctx o) = recp /\ c_scope (o_ctx o) = RouteHandler /\ o_allow o = None.
  Proof. intros E. unfold serve_http. rewrite E. eexists. split; [reflexivity|]. simpl. unfold ctx_params. simpl. auto. Qed.

  Lemma tsr_ignore_served rq c0 recp rect r :
    lookup (r_method rq) = Some (r, true) -> r_method rq <> mCONNECT -> r_urlpath rq <> slash -> ignoreTS r = true ->
    exists o, serve rq c0 recp rect = Done o /\ o_handler o = HRoute r /\ c_route (o_ctx o) = Some r /\
              ctx_params (o_ctx o) = rect /\ c_scope (o_ctx o) = RouteHandler /\ o_allow o = None.
  Proof.
    intros E Hc Hp Hi. unfold serve_http. rewrite E.
    assert (G : negb (bytes_eqb (r_method rq) mCONNECT) && negb (bytes_eqb (r_urlpath rq) slash) = true)
      by (apply tsr_guard; split; assumption).
    rewrite G, Hi. eexists. split; [reflexivity|]. simpl. unfold ctx_params. simpl. auto.
  Qed.

  Lemma tsr_redirect rq c0 recp rect r :
    lookup (r_method rq) = Some (r, true) -> r_method rq <> mCONNECT -> r_urlpath rq <> slash ->
    ignoreTS r = false -> redirectTS r = true -> cleanfn (req_path rq) = COk (req_path rq) ->
    exists o, serve rq c0 recp rect = Done o /\ o_handler o = HRedirect /\ c_route (o_ctx o) = None /\
              ctx_params (o_ctx o) = [] /\ c_scope (o_ctx o) = RedirectHandler /\ o_allow o = None.
  Proof.
    intros E Hc Hp Hi Hr Hcl. unfold serve_http. rewrite E.
    assert (G : negb (bytes_eqb (r_method rq) mCONNECT) && negb (bytes_eqb (r_urlpath rq) slash) = true)
      by (apply tsr_guard; split; assumption).
    rewrite G, Hi, Hr, Hcl, bytes_eqb_refl. eexists. split; [reflexivity|]. simpl. unfold ctx_params. simpl. auto.
  Qed.

  (* CONNECT, URL.Path = "/", a route with neither option, an unclean path: the
     request is answered exactly as if the matcher had found nothing *)
  Lemma tsr_otherwise_unmatched rq c0 recp rect r :
    lookup (r_method rq) = Some (r, true) ->
    (r_method rq = mCONNECT \/ r_urlpath rq = slash \/
     (ignoreTS r = false /\ (redirectTS r = false \/ exists o, cleanfn (req_path rq) = COk o /\ o <> req_path rq))) ->
    serve rq c0 recp rect = special ignoreTS opts roots lookup rq (start_ctx c0 recp rect).
  Proof.
    intros E H. unfold serve_http. rewrite E. fold (start_ctx c0 recp rect).
    destruct (negb (bytes_eqb (r_method rq) mCONNECT) && negb (bytes_eqb (r_urlpath rq) slash)) eqn:G; [|reflexivity].
    apply tsr_guard in G. destruct G as [G1 G2].
    destruct H as [H|[H|[Hi [Hr|[o [Ho Hne]]]]]]; try contradiction.
    - rewrite Hi, Hr. reflexivity.
    - rewrite Hi, Ho. destruct (redirectTS r); [|reflexivity].
      assert (Eb : bytes_eqb (req_path rq) o = false) by (apply bytes_eqb_false; congruence). rewrite Eb. reflexivity.
  Qed.
End Cases.

Theorem C08_direct_match_served :
  forall (R : Type) (ignoreTS redirectTS : R -> bool) cleanfn opts roots (lookup : bytes -> option (R * bool)) rq c0 recp rect r,
  lookup (r_method rq) = Some (r, false) ->
  exists o, serve_http ignoreTS redirectTS cleanfn opts roots lookup rq c0 recp rect = Done o /\
            o_handler o = HRoute r /\ c_route (o_ctx o) = Some r /\
            ctx_params (o_ctx o) = recp /\ c_scope (o_ctx o) = RouteHandler /\ o_allow o = None.
Proof. exact (@direct_match_served). Qed.

Theorem C08_tsr_ignore_served :
  forall (R : Type) (ignoreTS redirectTS : R -> bool) cleanfn opts roots (lookup : bytes -> option (R * bool)) rq c0 recp rect r,
  lookup (r_method rq) = Some (r, true) -> r_method rq <> mCONNECT -> r_urlpath rq <> slash -> ignoreTS r = true ->
  exists o, serve_http ignoreTS redirectTS cleanfn opts roots lookup rq c0 recp rect = Done o /\
            o_handler o = HRoute r /\ c_route (o_ctx o) = Some r /\
            ctx_params (o_ctx o) = rect /\ c_scope (o_ctx o) = RouteHandler /\ o_allow o = None.
Proof. exact (@tsr_ignore_served). Qed.

Theorem C08_tsr_redirect :
  forall (R : Type) (ignoreTS redirectTS : R -> bool) cleanfn opts roots (lookup : bytes -> option (R * bool)) rq c0 recp rect r,
  lookup (r_method rq) = Some (r, true) -> r_method rq <> mCONNECT -> r_urlpath rq <> slash ->
  ignoreTS r = false -> redirectTS r = true -> cleanfn (req_path rq) = COk (req_path rq) ->
  exists o, serve_http ignoreTS redirectTS cleanfn opts roots lookup rq c0 recp rect = Done o /\
            o_handler o = HRedirect /\ c_route (o_ctx o) = None /\
            ctx_params (o_ctx o) = [] /\ c_scope (o_ctx o) = RedirectHandler /\ o_allow o = None.
Proof. exact (@tsr_redirect). Qed.

Theorem C08_tsr_otherwise_unmatched :
  forall (R : Type) (ignoreTS redirectTS : R -> bool) cleanfn opts roots (lookup : bytes -> option (R * bool)) rq c0 recp rect r,
  lookup (r_method rq) = Some (r, true) ->
  (r_method rq = mCONNECT \/ r_urlpath rq = slash \/
   (ignoreTS r = false /\ (redirectTS r = false \/ exists o, cleanfn (req_path rq) = COk o /\ o <> req_path rq))) ->
  serve_http ignoreTS redirectTS cleanfn opts roots lookup rq c0 recp rect =
  special ignoreTS opts roots lookup rq (start_ctx c0 recp rect).
Proof. exact (@tsr_otherwise_unmatched). Qed.

Theorem C08_redirect_only_if_clean :
  forall (R : Type) (ignoreTS redirectTS : R -> bool) cleanfn opts roots (lookup : bytes -> option (R * bool)) rq c0 recp rect o,
  serve_http ignoreTS redirectTS cleanfn opts roots lookup rq c0 recp rect = Done o -> o_handler o = HRedirect ->
  cleanfn (req_path rq) = COk (req_path rq) /\ r_method rq <> mCONNECT /\ r_urlpath rq <> slash /\
  exists r, lookup (r_method rq) = Some (r, true) /\ ignoreTS r = false /\ redirectTS r = true.
Proof. exact (@redirect_only_if_clean). Qed.

Theorem C08_redirect_code : forall v m urlpath rawpath escaped q,
  exists loc, redirect_handler v m urlpath rawpath escaped q = ROk (if bytes_eqb m mGET then 301%Z else 308%Z) loc.
Proof. exact redirect_total_code. Qed.

(* ------------------------------------------------------------- with C17 *)

Lemma split_slash_seg s : forall cur, Spec.split_slash s cur = split_seg s cur.
Proof. induction s as [|c s IH]; intros cur; simpl; [reflexivity|]. rewrite !IH. reflexivity. Qed.

Lemma real_elem_seg e : Spec.real_elem e = real_seg e.
Proof.
  unfold Spec.real_elem, real_seg.
  change (Spec.is_dot e) with (seg_dot e). change (Spec.is_dotdot e) with (seg_dotdot e).
  destruct e; simpl; [reflexivity|]. rewrite andb_true_r. reflexivity.
Qed.

Theorem c17_canonical_bridge p : Spec.canonical p = true -> canonical_path p = true.
Proof.
  destruct p as [|c rest]; [discriminate|]. unfold Spec.canonical, canonical_path.
  intros H. apply andb_true_iff in H. destruct H as [Hc H]. rewrite Hc. simpl andb.
  destruct rest as [|a r]; [reflexivity|]. set (t := a :: r) in *. cbv zeta in H.
  rewrite split_slash_seg in H. cbv zeta.
  apply andb_true_iff in H. destruct H as [Hb Hl]. apply andb_true_iff. split.
  - rewrite forallb_forall in *. intros x Hx. rewrite <- real_elem_seg. apply Hb. exact Hx.
  - rewrite <- real_elem_seg. apply orb_true_iff in Hl. apply orb_true_iff.
    destruct Hl as [Hl|Hl]; [left; exact Hl|right].
    apply andb_true_iff in Hl. destruct Hl as [H1 H2]. apply andb_true_iff. split.
    + destruct (last (split_seg t []) []); [reflexivity|discriminate].
    + destruct (removelast (split_seg t [])); [discriminate|reflexivity].
Qed.

(* the two C17 statements this half of C08 relies on (proved in coq/C17) *)
Definition cleanpath_correct_statement : Prop := forall p, Model.cleanpath p = Model.Ok (Spec.clean_spec p).
Definition clean_spec_canonical_statement : Prop := forall p, Spec.canonical (Spec.clean_spec p) = true.

Lemma cleanfn_clean_canonical : cleanpath_correct_statement -> clean_spec_canonical_statement ->
  forall p, cleanfn p = COk p -> canonical_path p = true.
Proof.
  intros H1 H2 p Hp. unfold cleanfn in Hp. rewrite H1 in Hp. injection Hp as Hp.
  apply c17_canonical_bridge. rewrite <- Hp at 1. apply H2.
Qed.

Theorem C08_redirect_only_if_canonical : cleanpath_correct_statement -> clean_spec_canonical_statement ->
  forall (R : Type) (ignoreTS redirectTS : R -> bool) opts roots (lookup : bytes -> option (R * bool)) rq c0 recp rect o,
  serve_http ignoreTS redirectTS cleanfn opts roots lookup rq c0 recp rect = Done o -> o_handler o = HRedirect ->
  canonical_path (req_path rq) = true.
Proof.
  intros H1 H2 R ign red opts roots lookup rq c0 recp rect o Hs Hh.
  destruct (redirect_only_if_clean ign red cleanfn opts roots lookup rq c0 recp rect o Hs Hh) as [Hc _].
  apply (cleanfn_clean_canonical H1 H2). exact Hc.
Qed.

(* ------------------------------------------------------------- Location *)

(* C08: "a Location that resolves to the adjusted path and keeps the query
   string", for every request a conformant client can send (w: the path on the
   wire, q: the query) that ServeHTTP may redirect (canonical, not "/") *)
Definition location_resolves_statement (v : variant) : Prop :=
  forall m w q urlpath rawpath escaped,
  url_view w = Some (urlpath, rawpath) -> escaped = w ->
  canonical_path w = true -> w <> ["/"] -> wire_path_ok w = true -> wire_query_ok q = true ->
  exists loc, redirect_handler v m urlpath rawpath escaped q = ROk (redirect_code m) loc /\
              location_ok w q loc = true.

Definition evil : bytes := S2B "/https:evil.com".

Theorem location_resolves_refuted : ~ location_resolves_statement LocAsIs.
Proof.
  intros H. destruct (H mGET evil [] evil [] evil eq_refl eq_refl eq_refl) as [loc [E L]];
    try reflexivity; try discriminate.
  vm_compute in E. injection E as <-. vm_compute in L. discriminate L.
Qed.

(* the same witness, spelled out: the client is sent to another origin *)
Example location_witness_evil :
  redirect_handler LocAsIs mGET evil [] evil [] = ROk 301%Z (S2B "https:evil.com/") /\
  u_scheme (parse_ref (S2B "https:evil.com/")) = Some (S2B "https") /\
  location_ok evil [] (S2B "https:evil.com/") = false.
Proof. vm_compute. auto. Qed.

(* decoded '?' and '#' of the last element cut the reference short *)
Example location_witness_query :
  url_view (S2B "/a%3Fb") = Some (S2B "/a?b", []) /\
  redirect_handler LocAsIs mGET (S2B "/a?b") [] (S2B "/a%3Fb") (S2B "q=1") = ROk 301%Z (S2B "a?b/?q=1") /\
  location_ok (S2B "/a%3Fb") (S2B "q=1") (S2B "a?b/?q=1") = false.
Proof. vm_compute. auto. Qed.

Example location_witness_fragment :
  url_view (S2B "/a%23b") = Some (S2B "/a#b", []) /\
  redirect_handler LocAsIs mGET (S2B "/a#b") [] (S2B "/a%23b") [] = ROk 301%Z (S2B "a#b/") /\
  location_ok (S2B "/a%23b") [] (S2B "a#b/") = false.
Proof. vm_compute. auto. Qed.

Theorem location_resolves_partial :
  forall m w q urlpath rawpath escaped,
  url_view w = Some (urlpath, rawpath) ->
  canonical_path w = true -> w <> ["/"] -> forallb unreserved (last_elem w) = true -> wire_query_ok q = true ->
  exists loc, redirect_handler LocAsIs m urlpath rawpath escaped q = ROk (redirect_code m) loc /\
              location_ok w q loc = true.
Proof. exact location_resolves_partial_proof. Qed.

Theorem location_resolves_fixed : location_resolves_statement LocFixed.
Proof.
  intros m w q urlpath rawpath escaped _ -> Hc Hne Hw Hq.
  exact (location_resolves_fixed_proof m urlpath rawpath w q Hc Hne Hw Hq).
Qed.

(* ---------------------------------------- from what ServeHTTP sees: end to end *)

Section EndToEnd.
  Context {R : Type}.
  Variable ignoreTS redirectTS : R -> bool.
  Variable opts : options.
  Variable roots : list root.
  Variable lookup : bytes -> option (R * bool).
  Hypothesis c17a : cleanpath_correct_statement.
  Hypothesis c17b : clean_spec_canonical_statement.

  Lemma redirected_wire_canonical w rq c0 recp rect o :
    url_view w = Some (r_urlpath rq, r_rawpath rq) ->
    serve_http ignoreTS redirectTS cleanfn opts roots lookup rq c0 recp rect = Done o -> o_handler o = HRedirect ->
    canonical_path w = true /\ w <> ["/"].
  Proof.
    intros Hv Hs Hh.
    pose proof (C08_redirect_only_if_canonical c17a c17b R ignoreTS redirectTS opts roots lookup rq c0 recp rect o Hs Hh) as Hc.
    destruct (redirect_only_if_clean ignoreTS redirectTS cleanfn opts roots lookup rq c0 recp rect o Hs Hh) as [_ [_ [Hp _]]].
    split.
    - apply (canonical_wire w _ _ Hv). exact Hc.
    - intros ->. apply url_view_root in Hv. apply Hp. exact Hv.
  Qed.

  Lemma end_to_end_partial w q escaped rq c0 recp rect o :
    url_view w = Some (r_urlpath rq, r_rawpath rq) ->
    serve_http ignoreTS redirectTS cleanfn opts roots lookup rq c0 recp rect = Done o -> o_handler o = HRedirect ->
    forallb unreserved (last_elem w) = true -> wire_query_ok q = true ->
    exists loc, redirect_handler LocAsIs (r_method rq) (r_urlpath rq) (r_rawpath rq) escaped q =
                  ROk (redirect_code (r_method rq)) loc /\ location_ok w q loc = true.
  Proof.
    intros Hv Hs Hh Hu Hq. destruct (redirected_wire_canonical w rq c0 recp rect o Hv Hs Hh) as [Hc Hne].
    apply (location_resolves_partial_proof _ w); assumption.
  Qed.

  Lemma end_to_end_fixed w q rq c0 recp rect o :
    url_view w = Some (r_urlpath rq, r_rawpath rq) ->
    serve_http ignoreTS redirectTS cleanfn opts roots lookup rq c0 recp rect = Done o -> o_handler o = HRedirect ->
    wire_path_ok w = true -> wire_query_ok q = true ->
    exists loc, redirect_handler LocFixed (r_method rq) (r_urlpath rq) (r_rawpath rq) w q =
                  ROk (redirect_code (r_method rq)) loc /\ location_ok w q loc = true.
  Proof.
    intros Hv Hs Hh Hw Hq. destruct (redirected_wire_canonical w rq c0 recp rect o Hv Hs Hh) as [Hc Hne].
    apply location_resolves_fixed_proof; assumption.
  Qed.
End EndToEnd.

Theorem C08_redirect_end_to_end_partial : cleanpath_correct_statement -> clean_spec_canonical_statement ->
  forall (R : Type) (ignoreTS redirectTS : R -> bool) opts roots (lookup : bytes -> option (R * bool))
         w q escaped rq c0 recp rect o,
  url_view w = Some (r_urlpath rq, r_rawpath rq) ->
  serve_http ignoreTS redirectTS cleanfn opts roots lookup rq c0 recp rect = Done o -> o_handler o = HRedirect ->
  forallb unreserved (last_elem w) = true -> wire_query_ok q = true ->
  exists loc, redirect_handler LocAsIs (r_method rq) (r_urlpath rq) (r_rawpath rq) escaped q =
                ROk (redirect_code (r_method rq)) loc /\ location_ok w q loc = true.
Proof. intros a b R i r o ro l. exact (end_to_end_partial i r o ro l a b). Qed.

Theorem C08_redirect_end_to_end_fixed : cleanpath_correct_statement -> clean_spec_canonical_statement ->
  forall (R : Type) (ignoreTS redirectTS : R -> bool) opts roots (lookup : bytes -> option (R * bool))
         w q rq c0 recp rect o,
  url_view w = Some (r_urlpath rq, r_rawpath rq) ->
  serve_http ignoreTS redirectTS cleanfn opts roots lookup rq c0 recp rect = Done o -> o_handler o = HRedirect ->
  wire_path_ok w = true -> wire_query_ok q = true ->
  exists loc, redirect_handler LocFixed (r_method rq) (r_urlpath rq) (r_rawpath rq) w q =
                ROk (redirect_code (r_method rq)) loc /\ location_ok w q loc = true.
Proof. intros a b R i r o ro l. exact (end_to_end_fixed i r o ro l a b). Qed.

(* ------------------------------------------------------- non-vacuity *)

(* a request satisfying the hypotheses of location_resolves_partial / _fixed *)
Example C08_example_partial :
  url_view (S2B "/foo/bar") = Some (S2B "/foo/bar", []) /\ canonical_path (S2B "/foo/bar") = true /\
  forallb unreserved (last_elem (S2B "/foo/bar")) = true /\ wire_query_ok (S2B "a=b") = true /\
  redirect_handler LocAsIs mGET (S2B "/foo/bar") [] (S2B "/foo/bar") (S2B "a=b") = ROk 301%Z (S2B "bar/?a=b").
Proof. vm_compute. auto 10. Qed.

Example C08_example_fixed :
  canonical_path evil = true /\ wire_path_ok evil = true /\
  redirect_handler LocFixed (S2B "POST") evil [] evil [] = ROk 308%Z (S2B "./https:evil.com/") /\
  location_ok evil [] (S2B "./https:evil.com/") = true.
Proof. vm_compute. auto. Qed.

Example C08_example_encoded :
  url_view (S2B "/foo/bar%2Fbaz") = Some (S2B "/foo/bar/baz", S2B "/foo/bar%2Fbaz") /\
  redirect_handler LocFixed mGET (S2B "/foo/bar/baz") (S2B "/foo/bar%2Fbaz") (S2B "/foo/bar%2Fbaz") [] =
    ROk 301%Z (S2B "bar%2Fbaz/") /\
  location_ok (S2B "/foo/bar%2Fbaz") [] (S2B "bar%2Fbaz/") = true.
Proof. vm_compute. auto. Qed.
