(* C11 property theorems: statements only, each closed by [exact]. (in progress) *)
From FoxBase Require Import Bytes.
From FoxDispatch Require Import Dispatch Redirect DispatchSpec Uri.
