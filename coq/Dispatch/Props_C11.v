(* C11 property theorems: statements only, each closed by [exact].

   Everything is stated for an ARBITRARY matcher [lookup] (any function from
   methods to "route + tsr flag"), an arbitrary route type with arbitrary
   per-route trailing-slash options, an arbitrary pooled context [c0] and
   arbitrary parameter slices left behind by the failed match.  The only
   hypotheses are
     roots_cover      the matcher finds routes only under existing method roots,
     has_routes_def   "method m has routes" is read off tree.root,
     cleanfn_correct  (dispatch_correct only) CleanPath computes the canonical
                      form [clean] -- C17's cleanpath_correct. *)
From FoxBase Require Import Bytes.
From FoxDispatch Require Import Dispatch Redirect DispatchSpec DispatchProofs DispatchTheorems Corr SpecSound Examples.

(* "the options handler runs with Allow listing exactly the methods that have a
   route serving that host and path ... plus OPTIONS - for the target '*', every
   method that has routes"; "the no-method handler runs with Allow listing
   exactly the other such methods"; no Allow header otherwise *)
Theorem C11_allow_exact :
  forall (R : Type) (ignoreTS redirectTS : R -> bool) (cleanfn : bytes -> cres) (opts : options) (roots : list root)
         (lookup : bytes -> option (R * bool)) (has_routes : bytes -> bool),
  roots_cover roots lookup -> has_routes_def roots has_routes ->
  forall rq c0 recp rect o,
  serve_http ignoreTS redirectTS cleanfn opts roots lookup rq c0 recp rect = Done o ->
  (o_handler o = HOptions ->
     is_options rq /\ handleOptions opts = true /\
     exists l, o_allow o = Some l /\
       lists_exactly l (fun m => options_set ignoreTS has_routes lookup rq m \/ m = mOPTIONS)) /\
  (o_handler o = HNoMethod ->
     ~ (is_options rq /\ handleOptions opts = true) /\ handleMethodNotAllowed opts = true /\
     exists l, o_allow o = Some l /\
       lists_exactly l (fun m => other_set ignoreTS lookup rq m \/ (handleOptions opts = true /\ m = mOPTIONS))) /\
  (o_handler o <> HOptions -> o_handler o <> HNoMethod -> o_allow o = None).
Proof. exact (@allow_exact). Qed.
Print Assumptions C11_allow_exact.

(* "In these handlers, as in the redirect handler, the context exposes no route,
   pattern or parameters and reports the corresponding scope" *)
Theorem C11_special_ctx_scrubbed :
  forall (R : Type) (ignoreTS redirectTS : R -> bool) (cleanfn : bytes -> cres) (opts : options) (roots : list root)
         (lookup : bytes -> option (R * bool)) rq c0 recp rect o,
  serve_http ignoreTS redirectTS cleanfn opts roots lookup rq c0 recp rect = Done o ->
  (forall r, o_handler o <> HRoute r) ->
  c_route (o_ctx o) = None /\ ctx_params (o_ctx o) = [] /\ c_tsr (o_ctx o) = false /\
  c_scope (o_ctx o) = scope_of (o_handler o) /\ scrubbed (observe o) (scope_of (o_handler o)).
Proof. exact (@special_ctx_scrubbed). Qed.
Print Assumptions C11_special_ctx_scrubbed.

(* ... and so do the views obtained from it: Context.Clone() and Context.CloneWith() copies, whatever the
   pooled context a CloneWith copy is built on held before *)
Theorem C11_special_clones_scrubbed :
  forall (R : Type) (ignoreTS redirectTS : R -> bool) (cleanfn : bytes -> cres) (opts : options) (roots : list root)
         (lookup : bytes -> option (R * bool)) rq c0 recp rect o (pooled : ctx R),
  serve_http ignoreTS redirectTS cleanfn opts roots lookup rq c0 recp rect = Done o ->
  (forall r, o_handler o <> HRoute r) ->
  (c_route (clone_with (o_ctx o) pooled) = None /\ ctx_params (clone_with (o_ctx o) pooled) = [] /\
   c_scope (clone_with (o_ctx o) pooled) = scope_of (o_handler o)) /\
  (c_route (clone (o_ctx o)) = None /\ ctx_params (clone (o_ctx o)) = [] /\
   c_scope (clone (o_ctx o)) = scope_of (o_handler o)).
Proof. exact (@special_clones_scrubbed). Qed.
Print Assumptions C11_special_clones_scrubbed.

(* "When no route serves a request, the answer depends only on the router options" *)
Theorem C11_dispatch_depends_only_on_options :
  forall (R1 R2 : Type) (ign1 red1 : R1 -> bool) (ign2 red2 : R2 -> bool) (clean1 clean2 : bytes -> cres)
         (opts : options) (has_routes : bytes -> bool)
         (roots1 roots2 : list root) (lookup1 : bytes -> option (R1 * bool)) (lookup2 : bytes -> option (R2 * bool))
         (rq1 rq2 : request) (c1 : ctx R1) (c2 : ctx R2) (rp1 rt1 rp2 rt2 : list param)
         (o1 : outcome R1) (o2 : outcome R2),
  roots_cover roots1 lookup1 -> roots_cover roots2 lookup2 ->
  has_routes_def roots1 has_routes -> has_routes_def roots2 has_routes ->
  r_method rq1 = r_method rq2 -> (is_star rq1 <-> is_star rq2) ->
  (forall m, serves ign1 lookup1 m <-> serves ign2 lookup2 m) ->
  serve_http ign1 red1 clean1 opts roots1 lookup1 rq1 c1 rp1 rt1 = Done o1 ->
  serve_http ign2 red2 clean2 opts roots2 lookup2 rq2 c2 rp2 rt2 = Done o2 ->
  (forall r, o_handler o1 <> HRoute r) -> o_handler o1 <> HRedirect ->
  (forall r, o_handler o2 <> HRoute r) -> o_handler o2 <> HRedirect ->
  scope_of (o_handler o1) = scope_of (o_handler o2) /\
  scrubbed (observe o1) (scope_of (o_handler o1)) /\ scrubbed (observe o2) (scope_of (o_handler o2)) /\
  same_allow (o_allow o1) (o_allow o2).
Proof. exact dispatch_depends_only_on_options. Qed.
Print Assumptions C11_dispatch_depends_only_on_options.

(* the answer to an unserved request is the one the property prescribes *)
Theorem C11_unserved_answer :
  forall (R : Type) (ignoreTS : R -> bool) (opts : options) (roots : list root)
         (lookup : bytes -> option (R * bool)) (has_routes : bytes -> bool),
  roots_cover roots lookup -> has_routes_def roots has_routes ->
  forall rq c, exists o, special ignoreTS opts roots lookup rq c = Done o /\
                         unserved_spec ignoreTS opts has_routes lookup rq (observe o).
Proof. exact (@special_correct). Qed.
Print Assumptions C11_unserved_answer.

(* the full case analysis of ServeHTTP (C11 + dispatch half of C08) *)
Theorem C11_dispatch_correct :
  forall (R : Type) (ignoreTS redirectTS : R -> bool) (cleanfn : bytes -> cres) (opts : options) (roots : list root)
         (lookup : bytes -> option (R * bool)) (has_routes : bytes -> bool) (clean : bytes -> bytes),
  roots_cover roots lookup -> has_routes_def roots has_routes -> cleanfn_correct cleanfn clean ->
  forall rq c0 recp rect,
  exists o, serve_http ignoreTS redirectTS cleanfn opts roots lookup rq c0 recp rect = Done o /\
            dispatch_spec ignoreTS redirectTS clean opts has_routes lookup rq
              (match_params_of lookup rq recp rect) (observe o).
Proof. exact (@dispatch_correct). Qed.
Print Assumptions C11_dispatch_correct.

(* ServeHTTP's own code never panics (only CleanPath could; C17 shows it does not) *)
Theorem C11_serve_total :
  forall (R : Type) (ignoreTS redirectTS : R -> bool) (cleanfn : bytes -> cres) (opts : options) (roots : list root)
         (lookup : bytes -> option (R * bool)) rq c0 recp rect,
  (forall p, exists o, cleanfn p = COk o) ->
  exists o, serve_http ignoreTS redirectTS cleanfn opts roots lookup rq c0 recp rect = Done o.
Proof. exact (@serve_total). Qed.
Print Assumptions C11_serve_total.

(* the check's executable oracle for unserved requests (Corr.unserved_ok, evaluated on
   every harness case) implies the specification above: accepted cases do satisfy it *)
Theorem C11_oracle_sound :
  forall (k : kase) (x : observed),
  unserved_ok k x = true ->
  unserved_spec rt_ign (k_opts k) (fun m => mem m (k_registered k)) (k_lookup k) (k_request k) (obs_of x).
Proof. exact unserved_ok_sound. Qed.
Print Assumptions C11_oracle_sound.

(* non-vacuity: a concrete state meets every hypothesis above and reaches the
   405, OPTIONS (path and "*"), redirect, ignore and 404 answers *)
Example C11_example_nonvacuous :
  roots_cover ex_roots ex_lookup /\ has_routes_def ex_roots ex_has_routes /\ cleanfn_correct ex_clean (fun p => p) /\
  (exists o, serve_http ex_ign ex_red ex_clean ex_opts ex_roots ex_lookup (ex_req mDELETE (S2B "/a")) ex_c0 ex_garbage ex_garbage = Done o /\ o_handler o = HNoMethod) /\
  (exists o, serve_http ex_ign ex_red ex_clean ex_opts ex_roots ex_lookup (ex_req mOPTIONS (S2B "/a")) ex_c0 ex_garbage ex_garbage = Done o /\ o_handler o = HOptions) /\
  (exists o, serve_http ex_ign ex_red ex_clean ex_opts ex_roots ex_lookup (ex_req mDELETE (S2B "/zzz")) ex_c0 ex_garbage ex_garbage = Done o /\ o_handler o = HNoMethod) /\
  (exists o, serve_http ex_ign ex_red ex_clean {| handleMethodNotAllowed := false; handleOptions := false |} ex_roots ex_lookup (ex_req mDELETE (S2B "/a")) ex_c0 ex_garbage ex_garbage = Done o /\ o_handler o = HNoRoute).
Proof. exact ex_nonvacuous. Qed.
Print Assumptions C11_example_nonvacuous.

Example C11_example_no_method_allow :
  serve_http ex_ign ex_red ex_clean ex_opts ex_roots ex_lookup (ex_req mDELETE (S2B "/a")) ex_c0 ex_garbage ex_garbage =
  Done {| o_handler := HNoMethod;
          o_ctx := {| c_route := None; c_tsr := false; c_params := []; c_tsrParams := ex_garbage; c_scope := NoMethodHandler |};
          o_allow := Some [mGET; mPOST; mFOO; mOPTIONS] |}.
Proof. exact ex_no_method. Qed.
Print Assumptions C11_example_no_method_allow.

Example C11_example_options_star :
  serve_http ex_ign ex_red ex_clean ex_opts ex_roots ex_lookup (ex_req mOPTIONS (S2B "*")) ex_c0 ex_garbage ex_garbage =
  Done {| o_handler := HOptions;
          o_ctx := {| c_route := None; c_tsr := false; c_params := []; c_tsrParams := ex_garbage; c_scope := OptionsHandler |};
          o_allow := Some [mGET; mPOST; mPUT; mFOO; mOPTIONS] |}.
Proof. exact ex_options_star. Qed.
Print Assumptions C11_example_options_star.
