(* The executable oracle of Corr.v (the part that decides C11: Corr.unserved_ok)
   implies the Prop specification DispatchSpec.unserved_spec.  So a case the
   check accepts as "spec ok" does satisfy the specification the theorems are
   about; the finite universe of methods the oracle quantifies over is enough
   because a method outside it neither serves the request nor has routes. *)
From FoxBase Require Import Bytes.
From FoxDispatch Require Import Dispatch Redirect DispatchSpec Uri DispatchProofs Corr.
Open Scope char_scope.

(* how a harness observation is read as a specification observation *)
Definition obs_of (x : observed) : obs rt :=
  {| ob_handler := match x_kind x with
                   | KRoute m p => HRoute {| rt_method := m; rt_pattern := p; rt_ign := false; rt_red := false |}
                   | KRedirect => HRedirect | KOptions => HOptions | KNoMethod => HNoMethod
                   | KNoRoute => HNoRoute
                   | KNone => HRoute stale_rt
                   end;
     ob_route := match x_route x with
                 | Some (m, p) => Some {| rt_method := m; rt_pattern := p; rt_ign := false; rt_red := false |}
                 | None => None
                 end;
     ob_params := x_params x;
     ob_scope := x_scope x;
     ob_allow := match x_allow_hdr x with Some _ => Some (x_allow x) | None => None end |}.

Lemma mem_in m l : mem m l = true <-> In m l.
Proof.
  unfold mem. rewrite existsb_exists. split.
  - intros [y [Hy E]]. apply bytes_eqb_eq in E. subst y. exact Hy.
  - intros H. exists m. split; [exact H|apply bytes_eqb_refl].
Qed.

Lemma assoc_in m t v : assoc m t = Some v -> In m (map fst t).
Proof.
  induction t as [|[k w] t IH]; simpl; [discriminate|].
  destruct (bytes_eqb k m) eqn:E.
  - apply bytes_eqb_eq in E. auto.
  - intros H. right. apply IH. exact H.
Qed.

Lemma scope_eqb_eq a b : scope_eqb a b = true -> a = b.
Proof. destruct a, b; simpl; congruence. Qed.

Section Sound.
  Variable k : kase.
  Variable x : observed.
  Let u := universe k x.
  Let hr := fun m => mem m (k_registered k).

  Lemma servesb_serves m : servesb k m = true <-> serves rt_ign (k_lookup k) m.
  Proof.
    unfold servesb, serves. split.
    - destruct (k_lookup k m) as [[r tsr]|]; [|discriminate]. intros H. exists r, tsr. split; [reflexivity|].
      apply orb_true_iff in H. destruct H as [H|H]; [left; destruct tsr; [discriminate|reflexivity]|right; exact H].
    - intros [r [tsr [E H]]]. rewrite E. apply orb_true_iff. destruct H as [->|H]; [left; reflexivity|right; exact H].
  Qed.

  Lemma servesb_in_u m : servesb k m = true -> In m u.
  Proof.
    unfold servesb, k_lookup. destruct (assoc m (k_table k)) as [[[r tsr] ps]|] eqn:E; [|discriminate].
    intros _. unfold u, universe. apply in_or_app. left. eapply assoc_in. exact E.
  Qed.

  Lemma hr_in_u m : hr m = true -> In m u.
  Proof. unfold hr. rewrite mem_in. intros H. unfold u, universe. apply in_or_app. right. apply in_or_app. left. exact H. Qed.

  Lemma options_in_u : In mOPTIONS u.
  Proof. unfold u, universe. apply in_or_app. right. apply in_or_app. right. left. reflexivity. Qed.

  Lemma set_exactly_sound l (S : bytes -> bool) :
    (forall m, S m = true -> In m u) -> set_exactly u l S = true -> forall m, In m l <-> S m = true.
  Proof.
    intros Hu H m. unfold set_exactly in H. apply andb_true_iff in H. destruct H as [H1 H2].
    rewrite forallb_forall in H1, H2. split.
    - apply H1.
    - intros Hm. specialize (H2 m (Hu m Hm)). rewrite Hm in H2. simpl in H2. apply mem_in. exact H2.
  Qed.

  Lemma existsb_u (S : bytes -> bool) : (forall m, S m = true -> In m u) ->
    (existsb S u = true <-> exists m, S m = true).
  Proof.
    intros Hu. rewrite existsb_exists. split.
    - intros [m [_ H]]. exists m. exact H.
    - intros [m H]. exists m. split; [apply Hu; exact H|exact H].
  Qed.

  Lemma scrubbedb_sound s : scrubbedb x s = true -> scrubbed (obs_of x) s.
  Proof.
    unfold scrubbedb, scrubbed, obs_of. simpl. intros H.
    apply andb_true_iff in H. destruct H as [H Hs]. apply andb_true_iff in H. destruct H as [H Hp].
    apply andb_true_iff in H. destruct H as [Hr _].
    split; [|split].
    - destruct (x_route x); [discriminate|reflexivity].
    - destruct (x_params x); [reflexivity|discriminate].
    - apply scope_eqb_eq. exact Hs.
  Qed.

  Lemma no_route_ok_sound : no_route_ok x = true -> answers_no_route (obs_of x).
  Proof.
    unfold no_route_ok, answers_no_route. intros H.
    repeat (apply andb_true_iff in H; destruct H as [H ?]).
    split; [|split].
    - unfold obs_of. simpl. destruct (x_kind x); try discriminate. reflexivity.
    - apply scrubbedb_sound. assumption.
    - unfold obs_of. simpl. unfold no_allow in *. destruct (x_allow_hdr x); [discriminate|reflexivity].
  Qed.

  Lemma kind_options : kind_eqb (x_kind x) KOptions = true -> ob_handler (obs_of x) = HOptions.
  Proof. unfold obs_of. simpl. destruct (x_kind x); try discriminate. reflexivity. Qed.
  Lemma kind_nomethod : kind_eqb (x_kind x) KNoMethod = true -> ob_handler (obs_of x) = HNoMethod.
  Proof. unfold obs_of. simpl. destruct (x_kind x); try discriminate. reflexivity. Qed.

  Lemma allow_some : negb (no_allow x) = true -> ob_allow (obs_of x) = Some (x_allow x).
  Proof. unfold no_allow, obs_of. simpl. destruct (x_allow_hdr x); [reflexivity|discriminate]. Qed.

  Theorem unserved_ok_sound :
    unserved_ok k x = true ->
    unserved_spec rt_ign (k_opts k) hr (k_lookup k) (k_request k) (obs_of x).
  Proof.
    unfold unserved_ok. fold u. intros H.
    assert (Hflag : bytes_eqb (k_method k) mOPTIONS && handleOptions (k_opts k) = true <->
                    (is_options (k_request k) /\ handleOptions (k_opts k) = true)).
    { unfold is_options. simpl. rewrite andb_true_iff, bytes_eqb_eq. reflexivity. }
    destruct (bytes_eqb (k_method k) mOPTIONS && handleOptions (k_opts k)) eqn:Eo.
    - pose proof (proj1 Hflag eq_refl) as Ho.
      set (S := if bytes_eqb (req_path (k_request k)) star
                then (fun m => mem m (k_registered k) && negb (bytes_eqb m mOPTIONS))
                else servesb k) in *.
      assert (HS : forall m, S m = true <-> options_set rt_ign hr (k_lookup k) (k_request k) m).
      { intros m. unfold S, options_set, is_star.
        destruct (bytes_eqb (req_path (k_request k)) star) eqn:Es.
        - apply bytes_eqb_eq in Es. rewrite andb_true_iff, negb_true_iff, bytes_eqb_false. split.
          + intros [H1 H2]. left. auto.
          + intros [[_ [H1 H2]]|[Hn _]]; [auto|contradiction].
        - apply bytes_eqb_false in Es. rewrite servesb_serves. split.
          + intros Hs. right. auto.
          + intros [[He _]|[_ Hs]]; [contradiction|exact Hs]. }
      assert (HSu : forall m, S m = true -> In m u).
      { intros m. unfold S. destruct (bytes_eqb (req_path (k_request k)) star).
        - intros Hm. apply andb_true_iff in Hm. destruct Hm as [Hm _]. apply hr_in_u. exact Hm.
        - apply servesb_in_u. }
      unfold unserved_spec. split; [|split]; [|intros Hn; elim (Hn Ho)|intros Hn; elim (Hn Ho)].
      intros _. destruct (existsb S u) eqn:Ee.
      + split.
        * intros _. repeat (apply andb_true_iff in H; destruct H as [H ?]).
          split; [apply kind_options; assumption|]. split; [apply scrubbedb_sound; assumption|].
          exists (x_allow x). split; [apply allow_some; assumption|].
          intros m. rewrite (set_exactly_sound (x_allow x) (fun m => S m || bytes_eqb m mOPTIONS)); [| |eassumption].
          -- rewrite orb_true_iff, HS, bytes_eqb_eq. reflexivity.
          -- intros m' Hm'. apply orb_true_iff in Hm'. destruct Hm' as [Hm'|Hm']; [apply HSu; exact Hm'|].
             apply bytes_eqb_eq in Hm'. subst m'. apply options_in_u.
        * intros Hnone. apply (existsb_u S HSu) in Ee. destruct Ee as [m Hm]. apply HS in Hm. elim (Hnone m Hm).
      + split.
        * intros [m Hm]. apply HS in Hm. assert (Hex : existsb S u = true) by (apply (existsb_u S HSu); exists m; exact Hm).
          congruence.
        * intros _. apply no_route_ok_sound. exact H.
    - assert (Hno : ~ (is_options (k_request k) /\ handleOptions (k_opts k) = true)).
      { intros Hc. apply Hflag in Hc. discriminate. }
      unfold unserved_spec. split; [intros Hc; elim (Hno Hc)|].
      destruct (handleMethodNotAllowed (k_opts k)) eqn:Em.
      + set (S := fun m => servesb k m && negb (bytes_eqb m (k_method k))) in *.
        assert (HS : forall m, S m = true <-> other_set rt_ign (k_lookup k) (k_request k) m).
        { intros m. unfold S, other_set. simpl. rewrite andb_true_iff, negb_true_iff, bytes_eqb_false, servesb_serves. reflexivity. }
        assert (HSu : forall m, S m = true -> In m u).
        { intros m Hm. unfold S in Hm. apply andb_true_iff in Hm. destruct Hm as [Hm _]. apply servesb_in_u. exact Hm. }
        split; [|intros _ Hc; discriminate].
        intros _ _. destruct (existsb S u) eqn:Ee.
        * split.
          -- intros _. repeat (apply andb_true_iff in H; destruct H as [H ?]).
             split; [apply kind_nomethod; assumption|]. split; [apply scrubbedb_sound; assumption|].
             exists (x_allow x). split; [apply allow_some; assumption|].
             intros m. rewrite (set_exactly_sound (x_allow x) (fun m => S m || (handleOptions (k_opts k) && bytes_eqb m mOPTIONS))); [| |eassumption].
             ++ rewrite orb_true_iff, andb_true_iff, HS, bytes_eqb_eq. reflexivity.
             ++ intros m' Hm'. apply orb_true_iff in Hm'. destruct Hm' as [Hm'|Hm']; [apply HSu; exact Hm'|].
                apply andb_true_iff in Hm'. destruct Hm' as [_ Hm']. apply bytes_eqb_eq in Hm'. subst m'. apply options_in_u.
          -- intros Hnone. apply (existsb_u S HSu) in Ee. destruct Ee as [m Hm]. apply HS in Hm. elim (Hnone m Hm).
        * split.
          -- intros [m Hm]. apply HS in Hm. assert (Hex : existsb S u = true) by (apply (existsb_u S HSu); exists m; exact Hm).
             congruence.
          -- intros _. apply no_route_ok_sound. exact H.
      + split; [intros _ Hc; discriminate|]. intros _ _. apply no_route_ok_sound. exact H.
  Qed.
End Sound.
