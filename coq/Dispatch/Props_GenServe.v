(* Tie A for the dispatch half of C08 / C11 and the redirect clause of C17: property theorems about
   GenServe.v, the translation of the body of Router.ServeHTTP (fox.go) that harness/cmd/dispgen
   regenerates from the source on every run.  Statements only, each closed by [exact]; proofs in
   BridgeServe.v.  See docs/GenServe.md. *)
From FoxBase Require Import Bytes.
From FoxC17 Require Model Spec.
From FoxDispatch Require Import Dispatch Redirect DispatchSpec DispatchProofs Corr Examples ServeSem GenServe BridgeServe.

(* the generated code IS the hand-written model, for every route type, option set, root list, matcher,
   request, pooled context and recorded parameter slices *)
Theorem gen_serve_http_eq_model :
  forall (R : Type) (ignoreTS redirectTS : R -> bool) (cleanfn : bytes -> cres) (opts : options) (roots : list root)
         (lookup : bytes -> option (R * bool)) rq c0 rec_params rec_tsr_params,
  gen_serve_http ignoreTS redirectTS cleanfn opts roots lookup rq c0 rec_params rec_tsr_params =
  serve_http ignoreTS redirectTS cleanfn opts roots lookup rq c0 rec_params rec_tsr_params.
Proof. exact (@serve_eq). Qed.
Print Assumptions gen_serve_http_eq_model.

(* cTx.reset (context.go), translated the same way: what Dispatch.v's header says of it *)
Theorem gen_ctx_reset_eq :
  forall (R : Type) (c : ctx R),
  gen_ctx_reset c =
  {| c_route := c_route c; c_tsr := c_tsr c; c_params := []; c_tsrParams := c_tsrParams c; c_scope := RouteHandler |}.
Proof. exact (@reset_eq). Qed.
Print Assumptions gen_ctx_reset_eq.

(* every tree.lookup of one ServeHTTP is made with the request path (RawPath if not empty, else Path):
   the generated code with a path-dependent matcher equals itself with the path fixed to req_path *)
Theorem gen_lookup_path_is_request_path :
  forall (R : Type) (ignoreTS redirectTS : R -> bool) (cleanfn : bytes -> cres) (opts : options) (roots : list root)
         (lookup_at : bytes -> bytes -> option (R * bool)) rq c0 recp rect,
  gen_serve_http_at ignoreTS redirectTS cleanfn opts roots lookup_at rq c0 recp rect =
  gen_serve_http_at ignoreTS redirectTS cleanfn opts roots (fun _ m => lookup_at (req_path rq) m) rq c0 recp rect.
Proof. exact (@lookup_path). Qed.
Print Assumptions gen_lookup_path_is_request_path.

(* C08 / C17: the redirect handler runs only if CleanPath(path) = path, never for CONNECT, never for URL.Path "/" *)
Theorem gen_redirect_only_if_clean :
  forall (R : Type) (ignoreTS redirectTS : R -> bool) (cleanfn : bytes -> cres) (opts : options) (roots : list root)
         (lookup : bytes -> option (R * bool)) rq c0 recp rect o,
  gen_serve_http ignoreTS redirectTS cleanfn opts roots lookup rq c0 recp rect = Done o -> o_handler o = HRedirect ->
  cleanfn (req_path rq) = COk (req_path rq) /\ r_method rq <> mCONNECT /\ r_urlpath rq <> slash /\
  exists r, lookup (r_method rq) = Some (r, true) /\ ignoreTS r = false /\ redirectTS r = true.
Proof. exact (@redirect_only_if_clean_gen). Qed.
Print Assumptions gen_redirect_only_if_clean.

(* ... with CleanPath := C17's model: only for canonical paths (C17 cleanpath_fixed_iff) *)
Theorem gen_redirect_only_if_canonical :
  forall (R : Type) (ignoreTS redirectTS : R -> bool) (opts : options) (roots : list root)
         (lookup : bytes -> option (R * bool)) rq c0 recp rect o,
  gen_serve_http ignoreTS redirectTS Corr.cleanfn opts roots lookup rq c0 recp rect = Done o -> o_handler o = HRedirect ->
  Spec.canonical (req_path rq) = true /\ r_method rq <> mCONNECT /\ r_urlpath rq <> slash.
Proof. exact (@redirect_only_if_canonical_gen). Qed.
Print Assumptions gen_redirect_only_if_canonical.

(* C11: in the OPTIONS / 405 / 404 / redirect outcomes the context has no route, tsr = false, no parameters
   and the corresponding scope *)
Theorem gen_special_ctx_scrubbed :
  forall (R : Type) (ignoreTS redirectTS : R -> bool) (cleanfn : bytes -> cres) (opts : options) (roots : list root)
         (lookup : bytes -> option (R * bool)) rq c0 recp rect o,
  gen_serve_http ignoreTS redirectTS cleanfn opts roots lookup rq c0 recp rect = Done o ->
  (forall r, o_handler o <> HRoute r) ->
  c_route (o_ctx o) = None /\ ctx_params (o_ctx o) = [] /\ c_tsr (o_ctx o) = false /\
  c_scope (o_ctx o) = scope_of (o_handler o) /\ scrubbed (observe o) (scope_of (o_handler o)).
Proof. exact (@special_ctx_scrubbed_gen). Qed.
Print Assumptions gen_special_ctx_scrubbed.

(* C11 + dispatch half of C08: the full case analysis, of the generated code *)
Theorem gen_dispatch_correct :
  forall (R : Type) (ignoreTS redirectTS : R -> bool) (cleanfn : bytes -> cres) (opts : options) (roots : list root)
         (lookup : bytes -> option (R * bool)) (has_routes : bytes -> bool) (clean : bytes -> bytes),
  roots_cover roots lookup -> has_routes_def roots has_routes -> cleanfn_correct cleanfn clean ->
  forall rq c0 recp rect,
  exists o, gen_serve_http ignoreTS redirectTS cleanfn opts roots lookup rq c0 recp rect = Done o /\
            dispatch_spec ignoreTS redirectTS clean opts has_routes lookup rq
              (match_params_of lookup rq recp rect) (observe o).
Proof. exact (@dispatch_correct_gen). Qed.
Print Assumptions gen_dispatch_correct.

(* ServeHTTP's own code never panics (no nil dereference of n: every n.route is read under n != nil or tsr) *)
Theorem gen_serve_total :
  forall (R : Type) (ignoreTS redirectTS : R -> bool) (cleanfn : bytes -> cres) (opts : options) (roots : list root)
         (lookup : bytes -> option (R * bool)) rq c0 recp rect,
  (forall p, exists o, cleanfn p = COk o) ->
  exists o, gen_serve_http ignoreTS redirectTS cleanfn opts roots lookup rq c0 recp rect = Done o.
Proof. exact (@serve_total_gen). Qed.
Print Assumptions gen_serve_total.

(* non-vacuity: the generated function evaluated on the state of Examples.v reaches the 405 answer with its
   Allow list, the redirect, both OPTIONS answers, the ignore-trailing-slash route, a direct match and 404 *)
Example gen_example_no_method_allow :
  gen_serve_http ex_ign ex_red ex_clean ex_opts ex_roots ex_lookup (ex_req mDELETE (S2B "/a")) ex_c0 ex_garbage ex_garbage =
  Done {| o_handler := HNoMethod;
          o_ctx := {| c_route := None; c_tsr := false; c_params := []; c_tsrParams := ex_garbage; c_scope := NoMethodHandler |};
          o_allow := Some [mGET; mPOST; mFOO; mOPTIONS] |}.
Proof. exact gen_ex_no_method. Qed.
Print Assumptions gen_example_no_method_allow.

Example gen_example_redirect :
  gen_serve_http ex_ign ex_red ex_clean ex_opts ex_roots ex_lookup (ex_req mPUT (S2B "/a")) ex_c0 ex_garbage ex_garbage =
  Done {| o_handler := HRedirect;
          o_ctx := {| c_route := None; c_tsr := false; c_params := []; c_tsrParams := ex_garbage; c_scope := RedirectHandler |};
          o_allow := None |}.
Proof. exact gen_ex_redirect. Qed.
Print Assumptions gen_example_redirect.

Example gen_example_other_answers : ltac:(let t := type of gen_ex_all in exact t).
Proof. exact gen_ex_all. Qed.
Print Assumptions gen_example_other_answers.
