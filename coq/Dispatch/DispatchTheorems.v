(* "the answer depends only on the router options" (C11): two routers with the
   same two options -- different route types, route options, method trees,
   matchers, pooled contexts, recorded parameters, even different paths --
   answer an unserved request of the same method identically (same handler,
   same scrubbed context, same Allow set) as soon as the same methods serve it
   and the same methods have routes. *)
From FoxBase Require Import Bytes.
From FoxDispatch Require Import Dispatch DispatchSpec DispatchProofs.
Open Scope char_scope.

Definition same_allow (a b : option (list bytes)) : Prop :=
  match a, b with
  | Some l1, Some l2 => forall m, In m l1 <-> In m l2
  | None, None => True
  | _, _ => False
  end.

Section Summary.
  Context {R : Type}.
  Variable ignoreTS redirectTS : R -> bool.
  Variable cleanfn : bytes -> cres.
  Variable opts : options.
  Variable roots : list root.
  Variable lookup : bytes -> option (R * bool).
  Variable has_routes : bytes -> bool.

  Notation options_set := (options_set ignoreTS has_routes lookup).
  Notation other_set := (other_set ignoreTS lookup).

  Inductive summary (rq : request) (o : outcome R) : Prop :=
  | SumOptions : is_options rq -> handleOptions opts = true -> (exists m, options_set rq m) ->
      o_handler o = HOptions ->
      (exists l, o_allow o = Some l /\ lists_exactly l (fun m => options_set rq m \/ m = mOPTIONS)) -> summary rq o
  | SumOptionsNone : is_options rq -> handleOptions opts = true -> (forall m, ~ options_set rq m) ->
      o_handler o = HNoRoute -> o_allow o = None -> summary rq o
  | SumNoMethod : ~ (is_options rq /\ handleOptions opts = true) -> handleMethodNotAllowed opts = true ->
      (exists m, other_set rq m) -> o_handler o = HNoMethod ->
      (exists l, o_allow o = Some l /\
         lists_exactly l (fun m => other_set rq m \/ (handleOptions opts = true /\ m = mOPTIONS))) -> summary rq o
  | SumNoMethodNone : ~ (is_options rq /\ handleOptions opts = true) -> handleMethodNotAllowed opts = true ->
      (forall m, ~ other_set rq m) -> o_handler o = HNoRoute -> o_allow o = None -> summary rq o
  | SumNoRoute : ~ (is_options rq /\ handleOptions opts = true) -> handleMethodNotAllowed opts = false ->
      o_handler o = HNoRoute -> o_allow o = None -> summary rq o.

  Lemma nonempty_ex {A} (l : list A) : l <> [] -> exists x, In x l.
  Proof. destruct l as [|x l]; [congruence|]. intros _. exists x. left. reflexivity. Qed.

  Lemma unserved_summary : roots_cover roots lookup -> has_routes_def roots has_routes ->
    forall rq c0 recp rect o,
    serve_http ignoreTS redirectTS cleanfn opts roots lookup rq c0 recp rect = Done o ->
    (forall r, o_handler o <> HRoute r) -> o_handler o <> HRedirect ->
    summary rq o.
  Proof.
    intros Hc Hh rq c0 recp rect o Hs Hnr Hnd.
    destruct (serve_cases ignoreTS redirectTS cleanfn opts roots lookup rq c0 recp rect)
      as [[r [tsr [_ [_ E]]]]|[[r [_ [_ [_ [_ [_ E]]]]]]|[[E _]|[[E _]|[E _]]]]];
      rewrite E in Hs; try discriminate.
    - inversion Hs. subst o. elim (Hnr r). reflexivity.
    - inversion Hs. subst o. elim Hnd. reflexivity.
    - destruct (special_cases ignoreTS opts roots lookup has_routes Hc Hh rq (start_ctx c0 recp rect))
        as [[Ho1 [Ho2 [[l [Hne [Hl Es]]]|[Hnone Es]]]]|[[Hno [Em [[l [l' [Hne [Hl [Hl' Es]]]]]|[Hnone Es]]]]|[Hno [Em Es]]]];
        rewrite Es in Hs; inversion Hs; subst o.
      + apply SumOptions; auto.
        * destruct (nonempty_ex l Hne) as [x Hx]. exists x. apply Hl. exact Hx.
        * exists (l ++ [mOPTIONS]). split; [reflexivity|]. intros m. rewrite in_app_iff, Hl. simpl. split.
          -- intros [H|[H|[]]]; auto.
          -- intros [H|H]; auto.
      + apply SumOptionsNone; auto.
      + apply SumNoMethod; auto.
        * destruct (nonempty_ex l Hne) as [x Hx]. exists x. apply Hl. exact Hx.
        * exists l'. split; [reflexivity|]. intros m. rewrite Hl', Hl. reflexivity.
      + apply SumNoMethodNone; auto.
      + apply SumNoRoute; auto.
  Qed.
End Summary.

Theorem dispatch_depends_only_on_options :
  forall (R1 R2 : Type) (ign1 red1 : R1 -> bool) (ign2 red2 : R2 -> bool) (clean1 clean2 : bytes -> cres)
         (opts : options) (has_routes : bytes -> bool)
         (roots1 roots2 : list root) (lookup1 : bytes -> option (R1 * bool)) (lookup2 : bytes -> option (R2 * bool))
         (rq1 rq2 : request) (c1 : ctx R1) (c2 : ctx R2) (rp1 rt1 rp2 rt2 : list param)
         (o1 : outcome R1) (o2 : outcome R2),
  roots_cover roots1 lookup1 -> roots_cover roots2 lookup2 ->
  has_routes_def roots1 has_routes -> has_routes_def roots2 has_routes ->
  r_method rq1 = r_method rq2 -> (is_star rq1 <-> is_star rq2) ->
  (forall m, serves ign1 lookup1 m <-> serves ign2 lookup2 m) ->
  serve_http ign1 red1 clean1 opts roots1 lookup1 rq1 c1 rp1 rt1 = Done o1 ->
  serve_http ign2 red2 clean2 opts roots2 lookup2 rq2 c2 rp2 rt2 = Done o2 ->
  (forall r, o_handler o1 <> HRoute r) -> o_handler o1 <> HRedirect ->
  (forall r, o_handler o2 <> HRoute r) -> o_handler o2 <> HRedirect ->
  scope_of (o_handler o1) = scope_of (o_handler o2) /\
  scrubbed (observe o1) (scope_of (o_handler o1)) /\ scrubbed (observe o2) (scope_of (o_handler o2)) /\
  same_allow (o_allow o1) (o_allow o2).
Proof.
  intros R1 R2 ign1 red1 ign2 red2 clean1 clean2 opts hr roots1 roots2 lookup1 lookup2 rq1 rq2 c1 c2 rp1 rt1 rp2 rt2 o1 o2
         Hc1 Hc2 Hh1 Hh2 Hm Hstar Hserves Hs1 Hs2 Hr1 Hd1 Hr2 Hd2.
  assert (Hopt : is_options rq1 <-> is_options rq2) by (unfold is_options; rewrite Hm; reflexivity).
  assert (Hos : forall m, options_set ign1 hr lookup1 rq1 m <-> options_set ign2 hr lookup2 rq2 m).
  { intros m. unfold options_set. rewrite Hstar, Hserves. reflexivity. }
  assert (Hot : forall m, other_set ign1 lookup1 rq1 m <-> other_set ign2 lookup2 rq2 m).
  { intros m. unfold other_set. rewrite Hserves, Hm. reflexivity. }
  split; [|split; [|split]].
  2: { apply (special_ctx_scrubbed ign1 red1 clean1 opts roots1 lookup1 rq1 c1 rp1 rt1 o1 Hs1 Hr1). }
  2: { apply (special_ctx_scrubbed ign2 red2 clean2 opts roots2 lookup2 rq2 c2 rp2 rt2 o2 Hs2 Hr2). }
  all: pose proof (unserved_summary ign1 red1 clean1 opts roots1 lookup1 hr Hc1 Hh1 rq1 c1 rp1 rt1 o1 Hs1 Hr1 Hd1) as S1;
       pose proof (unserved_summary ign2 red2 clean2 opts roots2 lookup2 hr Hc2 Hh2 rq2 c2 rp2 rt2 o2 Hs2 Hr2 Hd2) as S2.
  all: destruct S1 as [A1 B1 [x1 X1] H1 [l1 [L1 E1]]|A1 B1 N1 H1 L1|A1 B1 [x1 X1] H1 [l1 [L1 E1]]|A1 B1 N1 H1 L1|A1 B1 H1 L1];
       destruct S2 as [A2 B2 [x2 X2] H2 [l2 [L2 E2]]|A2 B2 N2 H2 L2|A2 B2 [x2 X2] H2 [l2 [L2 E2]]|A2 B2 N2 H2 L2|A2 B2 H2 L2].
  all: try (exfalso; apply Hopt in A1; tauto).
  all: try (exfalso; apply Hopt in A2; tauto).
  all: try (exfalso; congruence).
  all: try (exfalso; apply Hos in X1; eapply N2; eassumption).
  all: try (exfalso; apply Hos in X2; eapply N1; eassumption).
  all: try (exfalso; apply Hot in X1; eapply N2; eassumption).
  all: try (exfalso; apply Hot in X2; eapply N1; eassumption).
  all: rewrite ?H1, ?H2, ?L1, ?L2; try reflexivity; simpl; auto.
  - intros m. rewrite (E1 m), (E2 m), Hos. reflexivity.
  - intros m. rewrite (E1 m), (E2 m), Hot. reflexivity.
Qed.
