(* What "a Location that resolves to the adjusted path and keeps the query
   string" (C08) means: RFC 3986 reference parsing (Appendix B) and relative
   resolution (section 5.2), as a client applies them to the Location header,
   against the path and query it sent.  Independent of fox.

   Also here: the small part of net/url that relates the path a client puts on
   the wire (W) to the two fields ServeHTTP reads (URL.Path, URL.RawPath):
   unescape / escape in encodePath mode and URL.setPath (go1.24 net/url).  This
   is a model of external code; the harness checks it against net/http's own
   request parser on every generated request (Corr.url_view_agrees). *)
From FoxBase Require Import Bytes.
Open Scope char_scope.

(* ------------------------------------------------------------------ parsing *)

(* cut c s = (before the first c, Some (after it)) or (s, None) *)
Fixpoint cut (c : ascii) (s : bytes) : bytes * option bytes :=
  match s with
  | [] => ([], None)
  | x :: t => if Ascii.eqb x c then ([], Some t)
              else let (a, b) := cut c t in (x :: a, b)
  end.

Record uriref := {
  u_scheme : option bytes;
  u_authority : option bytes;
  u_path : bytes;
  u_query : option bytes;
  u_fragment : option bytes
}.

(* Appendix B:  ^(([^:/?#]+):)?  -- applied after '?' and '#' were cut off:
   a non-empty run without ':' and '/' followed by ':' is a scheme *)
Fixpoint scheme_split (acc s : bytes) : option (bytes * bytes) :=
  match s with
  | [] => None
  | c :: t =>
      if Ascii.eqb c ":" then match acc with [] => None | _ => Some (rev acc, t) end
      else if Ascii.eqb c "/" then None
      else scheme_split (c :: acc) t
  end.

Definition parse_ref (s : bytes) : uriref :=
  let (s1, frag) := cut "#" s in
  let (s2, query) := cut "?" s1 in
  let (sch, rest) := match scheme_split [] s2 with
                     | Some (a, b) => (Some a, b)
                     | None => (None, s2)
                     end in
  match rest with
  | "/" :: "/" :: r =>
      let (auth, p) := cut "/" r in
      {| u_scheme := sch; u_authority := Some auth;
         u_path := match p with Some p' => "/" :: p' | None => [] end;
         u_query := query; u_fragment := frag |}
  | _ => {| u_scheme := sch; u_authority := None; u_path := rest; u_query := query; u_fragment := frag |}
  end.

(* --------------------------------------------------------------- resolution *)

Fixpoint split_seg (s cur : bytes) : list bytes :=
  match s with
  | [] => [rev cur]
  | c :: r => if Ascii.eqb c "/" then rev cur :: split_seg r [] else split_seg r (c :: cur)
  end.

Fixpoint join_seg (l : list bytes) : bytes :=
  match l with
  | [] => []
  | [s] => s
  | s :: r => s ++ "/" :: join_seg r
  end.

Definition seg_dot (s : bytes) : bool := match s with ["."] => true | _ => false end.
Definition seg_dotdot (s : bytes) : bool := match s with ["."; "."] => true | _ => false end.

(* 5.2.4 remove_dot_segments on the segments of a rooted path ([st] is the
   output so far, reversed): "." is dropped, ".." removes the last output
   segment; when either is the LAST segment the output ends with "/" *)
Fixpoint rds (segs st : list bytes) : list bytes :=
  match segs with
  | [] => rev st
  | [s] => if seg_dot s then rev ([] :: st)
           else if seg_dotdot s then rev ([] :: tl st)
           else rev (s :: st)
  | s :: r => if seg_dot s then rds r st
              else if seg_dotdot s then rds r (tl st)
              else rds r (s :: st)
  end.

(* only rooted paths are ever produced by 5.2.3 merge with a rooted base *)
Definition remove_dot_segments (p : bytes) : bytes :=
  match p with
  | "/" :: t => "/" :: join_seg (rds (split_seg t []) [])
  | _ => p
  end.

(* 5.2.3: the base path up to and including its last "/" *)
Definition dir_of (p : bytes) : bytes :=
  match split_seg p [] with
  | [] => []
  | l => flat_map (fun s => s ++ ["/"]) (removelast l)
  end.

Definition merge (base ref : bytes) : bytes :=
  match base with
  | [] => "/" :: ref
  | _ => dir_of base ++ ref
  end.

(* 5.2.2 for a base that is an http URL with path [bpath] and query [bquery];
   None = the reference leaves the origin (has a scheme or an authority).
   Result: path and query of the target. *)
Definition resolve (bpath : bytes) (bquery : option bytes) (r : uriref) : option (bytes * option bytes) :=
  match u_scheme r, u_authority r with
  | Some _, _ => None
  | None, Some _ => None
  | None, None =>
      match u_path r with
      | [] => Some (bpath, match u_query r with Some q => Some q | None => bquery end)
      | c :: _ => if Ascii.eqb c "/" then Some (remove_dot_segments (u_path r), u_query r)
                  else Some (remove_dot_segments (merge bpath (u_path r)), u_query r)
      end
  end.

(* a canonical ("clean", C17) path: rooted, every element non-empty and neither
   "." nor "..", except that the last one may be empty (trailing slash) when it
   is not the only one *)
Definition nonempty_b {A} (s : list A) : bool := match s with [] => false | _ => true end.
Definition real_seg (s : bytes) : bool := negb (seg_dot s) && negb (seg_dotdot s) && nonempty_b s.

Definition canonical_path (w : bytes) : bool :=
  match w with
  | c :: t =>
      Ascii.eqb c "/" &&
      match t with
      | [] => true
      | _ => let els := split_seg t [] in
             forallb real_seg (removelast els) &&
             (real_seg (last els []) || (negb (nonempty_b (last els [])) && nonempty_b (removelast els)))
      end
  | [] => false
  end.

(* the path a trailing-slash action leads to *)
Definition slash_adjusted (w : bytes) : bytes :=
  match rev w with
  | "/" :: r => rev r
  | _ => w ++ ["/"]
  end.

Definition oq (q : bytes) : option bytes := match q with [] => None | _ => Some q end.
Definition qo (q : option bytes) : bytes := match q with Some q => q | None => [] end.

(* C08: "a Location that resolves to the adjusted path and keeps the query string":
   a client that sent path [w] and query [q] and follows [loc] asks the same
   origin for the slash-adjusted path with the same query *)
Definition location_ok (w q loc : bytes) : bool :=
  let r := parse_ref loc in
  match resolve w (oq q) r, u_fragment r with
  | Some (p, q'), None => bytes_eqb p (slash_adjusted w) && bytes_eqb (qo q') q
  | _, _ => false
  end.

(* ------------------------------------------------------- net/url (go1.24) *)

Definition is_hex (c : ascii) : bool :=
  let n := N_of_ascii c in
  ((48 <=? n) && (n <=? 57) || (97 <=? n) && (n <=? 102) || (65 <=? n) && (n <=? 70))%N.

Definition unhex (c : ascii) : N :=
  let n := N_of_ascii c in
  if ((48 <=? n) && (n <=? 57))%N then n - 48
  else if ((97 <=? n) && (n <=? 102))%N then n - 87
  else n - 55.

(* unescape(s, encodePath): None = EscapeError *)
Fixpoint unescape (s : bytes) : option bytes :=
  match s with
  | [] => Some []
  | c :: t =>
      if Ascii.eqb c "%" then
        match t with
        | h :: l :: t' =>
            if is_hex h && is_hex l then
              match unescape t' with
              | Some u => Some (ascii_of_N (unhex h * 16 + unhex l) :: u)
              | None => None
              end
            else None
        | _ => None
        end
      else match unescape t with Some u => Some (c :: u) | None => None end
  end.

(* shouldEscape(c, encodePath) *)
Definition is_alnum (c : ascii) : bool :=
  let n := N_of_ascii c in
  ((97 <=? n) && (n <=? 122) || (65 <=? n) && (n <=? 90) || (48 <=? n) && (n <=? 57))%N.

Definition in_bytes (c : ascii) (s : bytes) : bool := existsb (Ascii.eqb c) s.

Definition should_escape (c : ascii) : bool :=
  if is_alnum c then false
  else if in_bytes c (S2B "-_.~") then false
  else if in_bytes c (S2B "$&+,/:;=@") then false    (* '?' is the only reserved byte escaped in a path *)
  else true.

Definition hex_upper (n : N) : ascii :=
  if (n <? 10)%N then ascii_of_N (48 + n) else ascii_of_N (55 + n).

Definition escape_byte (c : ascii) : bytes :=
  if should_escape c then let n := N_of_ascii c in ["%"; hex_upper (n / 16); hex_upper (n mod 16)] else [c].

(* escape(s, encodePath) *)
Definition escape (s : bytes) : bytes := flat_map escape_byte s.

(* url.ParseRequestURI on the path part of a request target (URL.setPath; "*" is
   special-cased): the pair (URL.Path, URL.RawPath) *)
Definition url_view (w : bytes) : option (bytes * bytes) :=
  match w with
  | ["*"] => Some (["*"], [])
  | _ => match unescape w with
         | Some p => Some (p, if bytes_eqb (escape p) w then [] else w)
         | None => None
         end
  end.

(* RFC 3986 2.3 unreserved *)
Definition unreserved (c : ascii) : bool := is_alnum c || in_bytes c (S2B "-_.~").

(* bytes a conforming client can put in a request path / query without changing
   how the reference parser above reads them back: ASCII, no '?' (path) / '#' *)
Definition is_ascii (c : ascii) : bool := (N_of_ascii c <? 128)%N.
Definition wire_path_ok (w : bytes) : bool :=
  forallb (fun c => is_ascii c && negb (Ascii.eqb c "?") && negb (Ascii.eqb c "#")) w.
Definition wire_query_ok (q : bytes) : bool :=
  forallb (fun c => is_ascii c && negb (Ascii.eqb c "#")) q.

(* the last path segment *)
Definition last_seg (w : bytes) : bytes := last (split_seg w []) [].

(* the last non-empty element: the segment before a trailing slash, if any *)
Definition last_elem (w : bytes) : bytes :=
  last_seg (match rev w with "/" :: r => rev r | _ => w end).
