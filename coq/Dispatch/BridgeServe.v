(* Tie A for the dispatch model: the definition that harness/cmd/dispgen regenerates from the body of
   Router.ServeHTTP on every run (GenServe.v) is EQUAL, for all arguments, to the hand-written model
   Dispatch.serve_http.  Every theorem of DispatchProofs / Dispatch_C08 therefore holds of the generated
   code (corollaries at the end).

   Robustness: the proofs do not follow the shape of the generated term (join points, variable names);
   they rewrite the three Allow loops into the model's filter/map (loop_collect, loop_collect_flag: the
   loop body, whatever its text, must equal "append the key iff the model's predicate holds") and then
   split on the atomic conditions that both sides test.  Lemma names are what checks/DispTie.py reports:
     reset_eq          cTx.reset
     lookup_path       every lookup uses the request path
     serve_eq          the whole function; its failure messages name the part that no longer matches:
                       loop_star / loop_options / loop_no_method (the three Allow loops),
                       case_direct / case_tsr / case_no_match (the outcome of the first lookup) *)
From Coq Require Import Bool List.
From FoxBase Require Import Bytes.
From FoxC17 Require Model Spec ProofsModel.
From FoxDispatch Require Import Dispatch Redirect DispatchSpec DispatchProofs Corr ServeSem GenServe.
Import ListNotations.
Open Scope char_scope.

Local Arguments bytes_eqb : simpl never.
Local Arguments S2B : simpl never.

(* destruct the innermost scrutinee of some match of the goal *)
Ltac break_match :=
  match goal with
  | |- context [match ?x with _ => _ end] =>
      lazymatch x with
      | context [match _ with _ => _ end] => fail
      | _ => destruct x eqn:?
      end
  end.

(* ------------------------------------------------------------------ loops over tree.root *)

Lemma loop_collect (p : root -> bool) (body : list bytes -> root -> outc (list bytes)) :
  (forall s rt, body s rt = Val (if p rt then s ++ [fst rt] else s)) ->
  forall roots s0, loop_roots body roots s0 = Val (s0 ++ map fst (filter p roots)).
Proof.
  intros Hb roots. unfold loop_roots.
  induction roots as [|rt roots IH]; intros s0; cbn [fold_left filter map].
  - rewrite app_nil_r. reflexivity.
  - rewrite Hb. destruct (p rt); cbn [map].
    + rewrite IH, <- app_assoc. reflexivity.
    + apply IH.
Qed.

Lemma loop_collect_flag (p : root -> bool) (q : bytes -> bool)
      (body : list bytes * bool -> root -> outc (list bytes * bool)) :
  (forall s h rt, body (s, h) rt = Val (if p rt then (s ++ [fst rt], h || q (fst rt)) else (s, h))) ->
  forall roots s0 h0, loop_roots body roots (s0, h0) =
                      Val (s0 ++ map fst (filter p roots), h0 || existsb q (map fst (filter p roots))).
Proof.
  intros Hb roots. unfold loop_roots.
  induction roots as [|rt roots IH]; intros s0 h0; cbn [fold_left filter map existsb].
  - rewrite app_nil_r, orb_false_r. reflexivity.
  - rewrite Hb. destruct (p rt); cbn [map existsb].
    + rewrite IH, <- app_assoc, orb_assoc. reflexivity.
    + apply IH.
Qed.

Section Bridge.
  Context {R : Type}.
  Variable ignoreTS redirectTS : R -> bool.
  Variable cleanfn : bytes -> cres.
  Variable opts : options.
  Variable roots : list root.

  (* cTx.reset: scope = RouteHandler, c.params truncated, nothing else of the model's state *)
  Lemma reset_eq (c : ctx R) :
    gen_ctx_reset c =
    {| c_route := c_route c; c_tsr := c_tsr c; c_params := []; c_tsrParams := c_tsrParams c; c_scope := RouteHandler |}.
  Proof. reflexivity. Qed.

  (* whatever tree.lookup does with its path argument, ServeHTTP only ever passes the request path
     (URL.RawPath when not empty, else URL.Path): this is what lets Dispatch.v drop the argument *)
  Lemma lookup_path (lookup_at : bytes -> bytes -> option (R * bool)) rq c0 recp rect :
    gen_serve_http_at ignoreTS redirectTS cleanfn opts roots lookup_at rq c0 recp rect =
    gen_serve_http_at ignoreTS redirectTS cleanfn opts roots (fun _ m => lookup_at (req_path rq) m) rq c0 recp rect.
  Proof.
    destruct rq as [m up rp]. unfold gen_serve_http_at, req_path. cbn [r_method r_urlpath r_rawpath].
    destruct rp; reflexivity.
  Qed.

  Variable lookup : bytes -> option (R * bool).

  Let p_star : root -> bool := fun rt => negb (bytes_eqb (fst rt) mOPTIONS) && snd rt.
  Let p_options : root -> bool := fun rt => allowed ignoreTS lookup (fst rt).
  Let p_no_method (m : bytes) : root -> bool :=
    fun rt => negb (bytes_eqb (fst rt) m) && allowed ignoreTS lookup (fst rt).

  Ltac body_tac :=
    intros; cbv beta iota zeta delta [if_out b_and b_or b_not node_flag lookup_pair is_some allowed fst snd];
    repeat (break_match; try discriminate; cbn [negb andb orb] in *);
    repeat match goal with H : (_, _) = (_, _) |- _ => injection H as ? ?; subst end;
    repeat match goal with H : Some _ = Some _ |- _ => injection H as ?; subst end;
    try discriminate; try congruence;
    repeat rewrite ?orb_true_r, ?orb_false_r, ?andb_true_r, ?andb_false_r; try reflexivity; try congruence.

  Theorem serve_eq rq c0 recp rect :
    gen_serve_http ignoreTS redirectTS cleanfn opts roots lookup rq c0 recp rect =
    serve_http ignoreTS redirectTS cleanfn opts roots lookup rq c0 recp rect.
  Proof.
    destruct rq as [m up rp].
    unfold gen_serve_http, gen_serve_http_at. cbv beta zeta. cbn [r_method r_urlpath r_rawpath].
    (* the three Allow loops *)
    assert (loop_star : forall b s0,
      (forall s rt, b s rt = Val (if p_star rt then s ++ [fst rt] else s)) ->
      loop_roots b roots s0 = Val (s0 ++ map fst (filter p_star roots))) by (intros; apply loop_collect; assumption).
    assert (loop_options : forall b s0,
      (forall s rt, b s rt = Val (if p_options rt then s ++ [fst rt] else s)) ->
      loop_roots b roots s0 = Val (s0 ++ map fst (filter p_options roots))) by (intros; apply loop_collect; assumption).
    assert (loop_no_method : forall b s0 h0,
      (forall s h rt, b (s, h) rt = Val (if p_no_method m rt then (s ++ [fst rt], h || bytes_eqb (fst rt) mOPTIONS) else (s, h))) ->
      loop_roots b roots (s0, h0) =
      Val (s0 ++ map fst (filter (p_no_method m) roots),
           h0 || existsb (fun k => bytes_eqb k mOPTIONS) (map fst (filter (p_no_method m) roots))))
      by (intros; apply (loop_collect_flag (p_no_method m) (fun k => bytes_eqb k mOPTIONS)); assumption).
    first [ match goal with |- context [loop_roots ?b roots ?s] => rewrite (loop_star b s) by (unfold p_star; body_tac) end
          | fail 1 "loop_star: no loop of the generated code appends tree.root[i].key exactly when key != OPTIONS && len(children) > 0" ].
    first [ match goal with |- context [loop_roots ?b roots ?s] => rewrite (loop_options b s) by (unfold p_options; body_tac) end
          | fail 1 "loop_options: no loop of the generated code appends tree.root[i].key exactly when Dispatch.allowed holds (n != nil && (!tsr || ignoreTrailingSlash))" ].
    first [ match goal with |- context [loop_roots ?b roots (?s1, ?h1)] => rewrite (loop_no_method b s1 h1) by (unfold p_no_method; body_tac) end
          | fail 1 "loop_no_method: no loop of the generated code appends tree.root[i].key exactly when key != r.Method && Dispatch.allowed, recording hasOptions" ].
    lazymatch goal with |- context [loop_roots] => fail "loops: a loop over tree.root that the model does not have" | _ => idtac end.
    clear loop_star loop_options loop_no_method.
    unfold serve_http, special, no_route, req_path, p_star, p_options, p_no_method.
    cbv beta iota zeta delta [if_res b_and b_or b_not node_flag clean_cmp lookup_pair is_some gen_ctx_reset
                              set_c_route set_c_tsr set_c_params set_c_tsrParams set_c_scope ctx_record
                              set_route scrub set_scope nonempty app
                              r_method r_urlpath r_rawpath c_route c_tsr c_params c_tsrParams c_scope].
    destruct rp as [|a rp]; destruct (lookup m) as [[r [|]]|].
    (* goals 1-3: URL.RawPath empty; 4-6: not empty.  In each group: tsr match, direct match, no match *)
    2, 5: first [ reflexivity | fail 1 "case_direct: on a direct match (n != nil, !tsr) the generated code does not invoke the route with c.route = n.route, c.tsr = false and the recorded parameters" ].
    2, 4: first [ solve [ repeat (break_match; try discriminate; try reflexivity; cbn [negb andb orb] in * ); congruence ]
                | fail 1 "case_no_match: after a failed match (n == nil) the generated code differs from Dispatch.special (scrubbing, OPTIONS / 405 / 404 selection, Allow, scopes)" ].
    all: first [ solve [ repeat (break_match; try discriminate; try reflexivity; cbn [negb andb orb] in * ); congruence ]
               | fail 1 "case_tsr: on a trailing-slash recommendation the generated code differs from Dispatch.serve_http (CONNECT / URL.Path guard, ignore, redirect only if path == CleanPath(path), scrubbing, else Dispatch.special)" ].
  Qed.

  (* ---------------------------------------------------------------- corollaries: the theorems of
     DispatchProofs.v, now about the code regenerated from the source *)

  Let gen := gen_serve_http ignoreTS redirectTS cleanfn opts roots lookup.

  Corollary redirect_only_if_clean_gen rq c0 recp rect o :
    gen rq c0 recp rect = Done o -> o_handler o = HRedirect ->
    cleanfn (req_path rq) = COk (req_path rq) /\ r_method rq <> mCONNECT /\ r_urlpath rq <> slash /\
    exists r, lookup (r_method rq) = Some (r, true) /\ ignoreTS r = false /\ redirectTS r = true.
  Proof. unfold gen. rewrite serve_eq. apply redirect_only_if_clean. Qed.

  Corollary special_ctx_scrubbed_gen rq c0 recp rect o :
    gen rq c0 recp rect = Done o -> (forall r, o_handler o <> HRoute r) ->
    c_route (o_ctx o) = None /\ ctx_params (o_ctx o) = [] /\ c_tsr (o_ctx o) = false /\
    c_scope (o_ctx o) = scope_of (o_handler o) /\ scrubbed (observe o) (scope_of (o_handler o)).
  Proof. unfold gen. rewrite serve_eq. apply special_ctx_scrubbed. Qed.

  Corollary dispatch_correct_gen (has_routes : bytes -> bool) (clean : bytes -> bytes) :
    roots_cover roots lookup -> has_routes_def roots has_routes -> cleanfn_correct cleanfn clean ->
    forall rq c0 recp rect,
    exists o, gen rq c0 recp rect = Done o /\
              dispatch_spec ignoreTS redirectTS clean opts has_routes lookup rq
                (match_params_of lookup rq recp rect) (observe o).
  Proof. intros H1 H2 H3 rq c0 recp rect. unfold gen. rewrite serve_eq. apply dispatch_correct; assumption. Qed.

  Corollary serve_total_gen rq c0 recp rect :
    (forall p, exists o, cleanfn p = COk o) -> exists o, gen rq c0 recp rect = Done o.
  Proof. unfold gen. rewrite serve_eq. apply serve_total. Qed.

End Bridge.

(* with CleanPath := C17's model (Corr.cleanfn): a redirect is only issued for paths that are canonical in
   the sense of C17's specification (cleanpath_fixed_iff) *)
Corollary redirect_only_if_canonical_gen {R} (ignoreTS redirectTS : R -> bool) opts roots lookup rq c0 recp rect o :
  gen_serve_http ignoreTS redirectTS Corr.cleanfn opts roots lookup rq c0 recp rect = Done o ->
  o_handler o = HRedirect ->
  Spec.canonical (req_path rq) = true /\ r_method rq <> mCONNECT /\ r_urlpath rq <> slash.
Proof.
  intros Hs Hh.
  destruct (redirect_only_if_clean_gen _ _ _ _ _ _ _ _ _ _ _ Hs Hh) as [Hc [Hm [Hu _]]].
  split; [|split; assumption].
  apply ProofsModel.cleanpath_fixed_iff. unfold Corr.cleanfn in Hc.
  destruct (Model.cleanpath (req_path rq)); congruence.
Qed.

(* non-vacuity: the generated function on the concrete state of Examples.v *)
From FoxDispatch Require Import Examples.

Example gen_ex_no_method :
  gen_serve_http ex_ign ex_red ex_clean ex_opts ex_roots ex_lookup (ex_req mDELETE (S2B "/a")) ex_c0 ex_garbage ex_garbage =
  Done {| o_handler := HNoMethod;
          o_ctx := {| c_route := None; c_tsr := false; c_params := []; c_tsrParams := ex_garbage; c_scope := NoMethodHandler |};
          o_allow := Some [mGET; mPOST; mFOO; mOPTIONS] |}.
Proof. vm_compute. reflexivity. Qed.

Example gen_ex_redirect :
  gen_serve_http ex_ign ex_red ex_clean ex_opts ex_roots ex_lookup (ex_req mPUT (S2B "/a")) ex_c0 ex_garbage ex_garbage =
  Done {| o_handler := HRedirect;
          o_ctx := {| c_route := None; c_tsr := false; c_params := []; c_tsrParams := ex_garbage; c_scope := RedirectHandler |};
          o_allow := None |}.
Proof. vm_compute. reflexivity. Qed.

Example gen_ex_all :
  gen_serve_http ex_ign ex_red ex_clean ex_opts ex_roots ex_lookup (ex_req mOPTIONS (S2B "*")) ex_c0 ex_garbage ex_garbage =
  Done {| o_handler := HOptions;
          o_ctx := {| c_route := None; c_tsr := false; c_params := []; c_tsrParams := ex_garbage; c_scope := OptionsHandler |};
          o_allow := Some [mGET; mPOST; mPUT; mFOO; mOPTIONS] |} /\
  gen_serve_http ex_ign ex_red ex_clean ex_opts ex_roots ex_lookup (ex_req mOPTIONS (S2B "/a")) ex_c0 ex_garbage ex_garbage =
  Done {| o_handler := HOptions;
          o_ctx := {| c_route := None; c_tsr := false; c_params := []; c_tsrParams := ex_garbage; c_scope := OptionsHandler |};
          o_allow := Some [mGET; mPOST; mFOO; mOPTIONS] |} /\
  gen_serve_http ex_ign ex_red ex_clean ex_opts ex_roots ex_lookup (ex_req mPOST (S2B "/a")) ex_c0 ex_garbage [(S2B "k", S2B "v")] =
  Done {| o_handler := HRoute 2;
          o_ctx := {| c_route := Some 2; c_tsr := true; c_params := ex_garbage; c_tsrParams := [(S2B "k", S2B "v")]; c_scope := RouteHandler |};
          o_allow := None |} /\
  gen_serve_http ex_ign ex_red ex_clean ex_opts ex_roots ex_lookup (ex_req mGET (S2B "/a")) ex_c0 ex_garbage ex_garbage =
  Done {| o_handler := HRoute 1;
          o_ctx := {| c_route := Some 1; c_tsr := false; c_params := ex_garbage; c_tsrParams := ex_garbage; c_scope := RouteHandler |};
          o_allow := None |} /\
  (exists o, gen_serve_http ex_ign ex_red ex_clean {| handleMethodNotAllowed := false; handleOptions := false |} ex_roots ex_lookup
               (ex_req mDELETE (S2B "/a")) ex_c0 ex_garbage ex_garbage = Done o /\ o_handler o = HNoRoute).
Proof. vm_compute. repeat split. eexists. split; reflexivity. Qed.
