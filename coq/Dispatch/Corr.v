(* C11 / C08-dispatch correspondence: functions evaluated by the case files that
   harness/cmd/c11 writes.  One case = one request served by a real router,
   together with the matcher's answers for that request (the lookup table, one
   entry per method root, obtained through Router.Lookup / Router.Reverse) and
   everything observed from inside the handler that ran and on the response.

     model_agrees  implementation = Dispatch.serve_http + Redirect.redirect_handler
                   run on the recorded lookup table            (list mism)
     spec_ok       implementation satisfies DispatchSpec / Uri.location_ok,
                   evaluated by an executable rendering of the specification
                   (sets as lists over the finite universe of recorded methods;
                   SpecSound.v proves it implies the Prop specification) (list viol)
     known_loc     spec failures attributable to the listed finding
                   C08_location (fox.go:522-526)                (list known_C08_location) *)
From FoxBase Require Import Bytes.
From FoxC17 Require Model Spec.
From FoxDispatch Require Import Dispatch Redirect DispatchSpec Uri.
Open Scope char_scope.

(* a route: identity (method tree, pattern) and its two trailing-slash options *)
Record rt := { rt_method : bytes; rt_pattern : bytes; rt_ign : bool; rt_red : bool }.

Definition rt_eqb (a b : rt) : bool :=
  bytes_eqb (rt_method a) (rt_method b) && bytes_eqb (rt_pattern a) (rt_pattern b) &&
  Bool.eqb (rt_ign a) (rt_ign b) && Bool.eqb (rt_red a) (rt_red b).

Definition param_eqb (a b : param) : bool := bytes_eqb (fst a) (fst b) && bytes_eqb (snd a) (snd b).

Definition scope_eqb (a b : scope) : bool :=
  match a, b with
  | RouteHandler, RouteHandler | NoRouteHandler, NoRouteHandler | NoMethodHandler, NoMethodHandler
  | RedirectHandler, RedirectHandler | OptionsHandler, OptionsHandler => true
  | _, _ => false
  end.

(* which handler the harness saw running *)
Inductive kind := KRoute (method pattern : bytes) | KRedirect | KOptions | KNoMethod | KNoRoute | KNone.

Record observed := {
  x_kind : kind;
  x_route : option (bytes * bytes);   (* Context.Route(): (method, pattern) of the registered route, None = nil *)
  x_pattern : bytes;                  (* Context.Pattern() *)
  x_params : list param;              (* Context.Params() *)
  x_scope : scope;                    (* Context.Scope() *)
  x_status : Z;
  x_allow_hdr : option bytes;         (* the Allow header verbatim *)
  x_allow : list bytes;               (* the same, split on ',' and trimmed *)
  x_location : option bytes;
  (* what copies taken inside the handler show: Context.Clone() and Context.CloneWith(c.Writer(), c.Request()),
     each as (Route(), Pattern(), Params(), Scope()) *)
  x_views : list (option (bytes * bytes) * bytes * list param * scope * list (bytes * bytes));
  (* Context.Param(name) for every parameter name of every route registered on the router: (name, value);
     the last component of a view is the same for the copy *)
  x_named : list (bytes * bytes)
}.

(* lookup table entry: method, and (route, tsr, params of that match) or None *)
Definition entry := (bytes * option (rt * bool * list param))%type.

Record kase := {
  k_opts : options;
  k_roots : list root;                (* tree.root in order: key, len(children) > 0 *)
  k_registered : list bytes;          (* methods with at least one registered route (harness bookkeeping) *)
  k_table : list entry;
  k_method : bytes;
  k_wire : option bytes;              (* the request path as sent on the wire, when the request was parsed by net/http *)
  k_urlpath : bytes;
  k_rawpath : bytes;
  k_escaped : bytes;                  (* URL.EscapedPath() *)
  k_query : bytes;                    (* URL.RawQuery *)
  k_rec_params : list param;          (* c.params after the non-lazy lookup for the request's method (verif export) *)
  k_rec_tsr : list param;             (* c.tsrParams after it *)
  k_obs : option observed             (* None = ServeHTTP panicked *)
}.

Fixpoint assoc (m : bytes) (t : list entry) : option (rt * bool * list param) :=
  match t with
  | [] => None
  | (k, v) :: r => if bytes_eqb k m then v else assoc m r
  end.

Definition k_lookup (k : kase) (m : bytes) : option (rt * bool) :=
  match assoc m (k_table k) with Some (r, tsr, _) => Some (r, tsr) | None => None end.

Definition k_request (k : kase) : request :=
  {| r_method := k_method k; r_urlpath := k_urlpath k; r_rawpath := k_rawpath k |}.

Definition cleanfn (p : bytes) : cres :=
  match Model.cleanpath p with Model.Ok o => COk o | Model.Panic => CPanic | Model.OutOfFuel => CFuel end.

(* contents of the pooled context: arbitrary; a sentinel makes any leak visible *)
Definition sentinel : list param := [(S2B "<stale>", S2B "<stale>")].
Definition stale_rt : rt := {| rt_method := S2B "<stale>"; rt_pattern := S2B "<stale>"; rt_ign := false; rt_red := false |}.
Definition c0 : ctx rt :=
  {| c_route := Some stale_rt; c_tsr := true; c_params := sentinel; c_tsrParams := sentinel; c_scope := OptionsHandler |}.

Definition run_model (k : kase) : result rt :=
  serve_http rt_ign rt_red cleanfn (k_opts k) (k_roots k) (k_lookup k) (k_request k) c0
             (k_rec_params k) (k_rec_tsr k).

Fixpoint join_comma (l : list bytes) : bytes :=
  match l with
  | [] => []
  | [s] => s
  | s :: r => s ++ "," :: " " :: join_comma r
  end.

Definition kind_matches (h : handler rt) (x : kind) : bool :=
  match h, x with
  | HRoute r, KRoute m p => bytes_eqb (rt_method r) m && bytes_eqb (rt_pattern r) p
  | HRedirect, KRedirect | HOptions, KOptions | HNoMethod, KNoMethod | HNoRoute, KNoRoute => true
  | _, _ => false
  end.

Definition route_matches (r : option rt) (x : observed) : bool :=
  match r, x_route x with
  | Some r, Some (m, p) => bytes_eqb (rt_method r) m && bytes_eqb (rt_pattern r) p && bytes_eqb (x_pattern x) p
  | None, None => bytes_eqb (x_pattern x) []
  | _, _ => false
  end.

Definition default_status (h : handler rt) : Z :=
  match h with
  | HRoute _ => 200 | HOptions => 200 | HNoMethod => 405 | HNoRoute => 404 | HRedirect => 0
  end%Z.

Definition response_matches (v : variant) (k : kase) (o : outcome rt) (x : observed) : bool :=
  match o_handler o with
  | HRedirect =>
      match redirect_handler v (k_method k) (k_urlpath k) (k_rawpath k) (k_escaped k) (k_query k) with
      | ROk code loc => Z.eqb (x_status x) code && opt_eqb bytes_eqb (x_location x) (Some loc)
      | RPanic => false
      end
  | h => Z.eqb (x_status x) (default_status h) && opt_eqb bytes_eqb (x_location x) None
  end.

Definition allow_matches (o : outcome rt) (x : observed) : bool :=
  match o_allow o with
  | Some l => opt_eqb bytes_eqb (x_allow_hdr x) (Some (join_comma l)) && list_eqb bytes_eqb (x_allow x) l
  | None => opt_eqb bytes_eqb (x_allow_hdr x) None
  end.

(* the model of net/url used by the Location theorems agrees with net/http's parser *)
Definition url_view_agrees (k : kase) : bool :=
  match k_wire k with
  | Some w => match url_view w with
              | Some (p, rp) => bytes_eqb p (k_urlpath k) && bytes_eqb rp (k_rawpath k)
              | None => false
              end
  | None => true
  end.

(* Clone / CloneWith copies must show exactly what the context itself shows (Dispatch.clone,
   Dispatch.clone_with: DispatchProofs.clone_view / clone_with_view); the context's own view is compared
   with the model and the specification below, so this carries both over to the copies *)
(* Context.Param(name): the value of the first parameter of that name, "" if there is none *)
Fixpoint first_param (n : bytes) (ps : list param) : bytes :=
  match ps with
  | [] => []
  | (k, v) :: r => if bytes_eqb k n then v else first_param n r
  end.

Definition named_agree (ps : list param) (named : list (bytes * bytes)) : bool :=
  forallb (fun nv => bytes_eqb (snd nv) (first_param (fst nv) ps)) named.

Definition view_agrees (x : observed)
    (vw : option (bytes * bytes) * bytes * list param * scope * list (bytes * bytes)) : bool :=
  let '(r, p, ps, sc, named) := vw in
  opt_eqb (fun a b => bytes_eqb (fst a) (fst b) && bytes_eqb (snd a) (snd b)) r (x_route x) &&
  bytes_eqb p (x_pattern x) && list_eqb param_eqb ps (x_params x) && scope_eqb sc (x_scope x) &&
  named_agree (x_params x) named.

Definition views_agree (x : observed) : bool :=
  named_agree (x_params x) (x_named x) && forallb (view_agrees x) (x_views x).

Definition model_agrees (v : variant) (k : kase) : bool :=
  url_view_agrees k &&
  match run_model k, k_obs k with
  | Done o, Some x =>
      views_agree x &&
      kind_matches (o_handler o) (x_kind x) &&
      route_matches (c_route (o_ctx o)) x &&
      list_eqb param_eqb (ctx_params (o_ctx o)) (x_params x) &&
      scope_eqb (c_scope (o_ctx o)) (x_scope x) &&
      allow_matches o x && response_matches v k o x
  | DPanic, None => true
  | _, _ => false
  end.

Definition out_of_fuel (k : kase) : bool :=
  match run_model k with DOutOfFuel => true | _ => false end.

(* ------------------------------------------------------------ the oracle *)

Definition mem (m : bytes) (l : list bytes) : bool := existsb (bytes_eqb m) l.

(* every method the answer could mention: the recorded table's keys, the
   registered methods, OPTIONS, and whatever the response listed *)
Definition universe (k : kase) (x : observed) : list bytes :=
  map fst (k_table k) ++ k_registered k ++ [mOPTIONS] ++ x_allow x.

Definition servesb (k : kase) (m : bytes) : bool :=
  match k_lookup k m with Some (r, tsr) => negb tsr || rt_ign r | None => false end.

(* l, read as a set, is exactly { m in universe | S m } *)
Definition set_exactly (u l : list bytes) (S : bytes -> bool) : bool :=
  forallb S l && forallb (fun m => implb (S m) (mem m l)) u.

Definition scrubbedb (x : observed) (s : scope) : bool :=
  opt_eqb (fun _ _ => false) (x_route x) None && bytes_eqb (x_pattern x) [] &&
  match x_params x with [] => true | _ => false end && scope_eqb (x_scope x) s.

Definition kind_eqb (a b : kind) : bool :=
  match a, b with
  | KRoute m p, KRoute m' p' => bytes_eqb m m' && bytes_eqb p p'
  | KRedirect, KRedirect | KOptions, KOptions | KNoMethod, KNoMethod | KNoRoute, KNoRoute | KNone, KNone => true
  | _, _ => false
  end.

Definition no_allow (x : observed) : bool := opt_eqb bytes_eqb (x_allow_hdr x) None.
Definition no_location (x : observed) : bool := opt_eqb bytes_eqb (x_location x) None.

Definition no_route_ok (x : observed) : bool :=
  kind_eqb (x_kind x) KNoRoute && scrubbedb x NoRouteHandler && no_allow x && Z.eqb (x_status x) 404 && no_location x.

Definition unserved_ok (k : kase) (x : observed) : bool :=
  let u := universe k x in
  let path := req_path (k_request k) in
  if bytes_eqb (k_method k) mOPTIONS && handleOptions (k_opts k) then
    let S := if bytes_eqb path star
             then (fun m => mem m (k_registered k) && negb (bytes_eqb m mOPTIONS))
             else servesb k in
    if existsb S u then
      kind_eqb (x_kind x) KOptions && scrubbedb x OptionsHandler && Z.eqb (x_status x) 200 && no_location x &&
      negb (no_allow x) && set_exactly u (x_allow x) (fun m => S m || bytes_eqb m mOPTIONS)
    else no_route_ok x
  else if handleMethodNotAllowed (k_opts k) then
    let S := fun m => servesb k m && negb (bytes_eqb m (k_method k)) in
    if existsb S u then
      kind_eqb (x_kind x) KNoMethod && scrubbedb x NoMethodHandler && Z.eqb (x_status x) 405 && no_location x &&
      negb (no_allow x) &&
      set_exactly u (x_allow x) (fun m => S m || (handleOptions (k_opts k) && bytes_eqb m mOPTIONS))
    else no_route_ok x
  else no_route_ok x.

Definition served_ok (r : rt) (ps : list param) (x : observed) : bool :=
  kind_eqb (x_kind x) (KRoute (rt_method r) (rt_pattern r)) &&
  opt_eqb (fun a b => bytes_eqb (fst a) (fst b) && bytes_eqb (snd a) (snd b)) (x_route x) (Some (rt_method r, rt_pattern r)) &&
  bytes_eqb (x_pattern x) (rt_pattern r) && list_eqb param_eqb (x_params x) ps &&
  scope_eqb (x_scope x) RouteHandler && no_allow x && Z.eqb (x_status x) 200 && no_location x.

(* the part of the redirect answer that is about dispatch: handler, context, status *)
Definition redirect_dispatch_ok (k : kase) (x : observed) : bool :=
  kind_eqb (x_kind x) KRedirect && scrubbedb x RedirectHandler && no_allow x &&
  Z.eqb (x_status x) (if bytes_eqb (k_method k) mGET then 301 else 308).

(* the Location clause applies to requests whose wire path and query are
   RFC 3986 conformant in the sense of Uri.wire_path_ok / wire_query_ok *)
Definition location_applicable (k : kase) : bool :=
  match k_wire k with Some w => wire_path_ok w && wire_query_ok (k_query k) | None => false end.

Definition location_part_ok (k : kase) (x : observed) : bool :=
  match k_wire k, x_location x with
  | Some w, Some loc => implb (location_applicable k) (location_ok w (k_query k) loc)
  | None, Some _ => true
  | _, None => false
  end.

Definition is_clean (p : bytes) : bool := bytes_eqb (Spec.clean_spec p) p.

(* what the property demands for this request: which of the four answers *)
Inductive expect := ExServed (r : rt) (ps : list param) | ExRedirect | ExUnserved.

Definition expected (k : kase) : expect :=
  match assoc (k_method k) (k_table k) with
  | Some (r, false, ps) => ExServed r ps
  | Some (r, true, ps) =>
      if negb (bytes_eqb (k_method k) mCONNECT) && negb (bytes_eqb (k_urlpath k) slash) then
        if rt_ign r then ExServed r ps
        else if rt_red r && is_clean (req_path (k_request k)) then ExRedirect
        else ExUnserved
      else ExUnserved
  | None => ExUnserved
  end.

Definition dispatch_ok (k : kase) : bool :=
  match k_obs k with
  | None => false                       (* ServeHTTP must not panic *)
  | Some x =>
      views_agree x &&
      match expected k with
      | ExServed r ps => served_ok r ps x
      | ExRedirect => redirect_dispatch_ok k x
      | ExUnserved => unserved_ok k x
      end
  end.

Definition location_clause_ok (k : kase) : bool :=
  match k_obs k, expected k with
  | Some x, ExRedirect => location_part_ok k x
  | _, _ => true
  end.

Definition spec_ok (k : kase) : bool := dispatch_ok k && location_clause_ok k.

(* finding C08_location (fox.go:522-526): the pinned handler copies the last
   element of the decoded path (or of RawPath) into the relative reference
   unescaped.  A spec failure is attributed to it iff the tree implements the
   pinned variant, only the Location clause fails, and the last element of the
   wire path contains a byte outside the RFC 3986 unreserved set
   (location_resolves_partial proves the clause holds otherwise). *)
Definition known_loc (v : variant) (k : kase) : bool :=
  match v with
  | LocAsIs =>
      dispatch_ok k && negb (location_clause_ok k) &&
      match k_wire k with
      | Some w => negb (forallb unreserved (last_elem w))
      | None => false
      end
  | LocFixed => false
  end.

Definition mismatches (v : variant) (cs : list kase) : list nat := true_idx (map (fun c => negb (model_agrees v c)) cs).
Definition spec_violations (cs : list kase) : list nat := true_idx (map (fun c => negb (spec_ok c)) cs).
Definition known_location (v : variant) (cs : list kase) : list nat := true_idx (map (known_loc v) cs).
Definition fuel_outs (cs : list kase) : list nat := true_idx (map out_of_fuel cs).
