(* C06 — a small protocol model of readers and writers over lock objects.

   A thread is a role and the list of instructions it still has to execute.  Instructions are
   abstract: IAcq l / IRel l (acquire / release lock object l), IStep (anything that never waits:
   the atomic load of the root, the atomic store at commit, tree work, sync.Pool get/put).
   What the two call-graph theorems establish about the code is exactly the well-formedness
   assumed of programs here:
     - a Reader program never acquires the writer lock mu   (reads_never_take_writer_lock),
     - a Writer program acquires no lock other than mu      (write_lock_set / lock_sets_disjoint).
   A parked writer is simply a writer thread that holds mu and is never scheduled again.
   No proofs here. *)
From Coq Require Import List Bool Arith NArith.
Import ListNotations.

Inductive role := Reader | Writer.
Inductive instr := IAcq (l : N) | IRel (l : N) | IStep.

Record thread := mkthread { t_role : role; t_prog : list instr }.

(* held locks: (lock object, index of the holding thread) *)
Record sys := mksys { s_locks : list (N * nat); s_threads : list thread }.

Fixpoint holder (l : N) (ls : list (N * nat)) : option nat :=
  match ls with
  | [] => None
  | (l', i) :: r => if N.eqb l l' then Some i else holder l r
  end.

Fixpoint release (l : N) (i : nat) (ls : list (N * nat)) : list (N * nat) :=
  match ls with
  | [] => []
  | (l', j) :: r => if N.eqb l l' && Nat.eqb i j then release l i r else (l', j) :: release l i r
  end.

Fixpoint set_nth {A} (n : nat) (x : A) (l : list A) : list A :=
  match l, n with
  | [], _ => []
  | _ :: r, 0 => x :: r
  | y :: r, S n' => y :: set_nth n' x r
  end.

(* is the next instruction of thread i enabled? (a finished / absent thread has nothing to do:
   counted as enabled, its step is a no-op) *)
Definition enabled (s : sys) (i : nat) : bool :=
  match nth_error (s_threads s) i with
  | Some (mkthread _ (IAcq l :: _)) => match holder l (s_locks s) with None => true | Some _ => false end
  | _ => true
  end.

(* one step of thread i; a disabled step leaves the system unchanged (the thread waits) *)
Definition step (s : sys) (i : nat) : sys :=
  match nth_error (s_threads s) i with
  | Some (mkthread r (ins :: rest)) =>
      match ins with
      | IAcq l =>
          match holder l (s_locks s) with
          | None => mksys ((l, i) :: s_locks s) (set_nth i (mkthread r rest) (s_threads s))
          | Some _ => s
          end
      | IRel l => mksys (release l i (s_locks s)) (set_nth i (mkthread r rest) (s_threads s))
      | IStep => mksys (s_locks s) (set_nth i (mkthread r rest) (s_threads s))
      end
  | _ => s
  end.

Fixpoint run (sched : list nat) (s : sys) : sys :=
  match sched with
  | [] => s
  | i :: r => run r (step s i)
  end.

Definition remaining (s : sys) (i : nat) : nat :=
  match nth_error (s_threads s) i with Some t => length (t_prog t) | None => 0 end.

Definition role_at (s : sys) (i : nat) : option role := option_map t_role (nth_error (s_threads s) i).

(* well-formed programs, relative to the writer lock mu *)
Definition wf_thread (mu : N) (t : thread) : Prop :=
  forall l, In (IAcq l) (t_prog t) ->
    match t_role t with Reader => l <> mu | Writer => l = mu end.

(* invariant: programs are well formed; mu is held only by writers, other locks only by readers *)
Definition Wf (mu : N) (s : sys) : Prop :=
  (forall t, In t (s_threads s) -> wf_thread mu t) /\
  (forall l i, In (l, i) (s_locks s) ->
     match role_at s i with
     | Some Writer => l = mu
     | Some Reader => l <> mu
     | None => False
     end).

Definition lock_free_prog (p : list instr) : Prop := forall l, ~ In (IAcq l) p.
