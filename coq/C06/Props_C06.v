(* C06 — Reads never wait for writers: the statements. Each is closed by `exact`. *)
From Coq Require Import List Bool Arith NArith.
From FoxC06 Require Import Graph Reach GenCallGraph Entries Skeleton GraphProofs Protocol ProtocolProofs.
Import ListNotations.

(* ===== 1. the reachability procedure is correct, for ANY finite graph ===== *)

Theorem reach_sound_complete : forall (g : Graph.graph) (es : list state),
  exists V, reach g es = Some V /\
            forall s, In s V <-> exists e, In e es /\ Reachable g e s.
Proof. exact reach_sound_complete_multi. Qed.
Print Assumptions reach_sound_complete.

Theorem reach_fuel_sufficient : forall (g : Graph.graph) (es : list state), reach g es <> None.
Proof. exact reach_total. Qed.
Print Assumptions reach_fuel_sufficient.

Example reach_nonvacuous :
  reach tiny [(0%N, [Some false])]
  = Some [(3%N, []); (1%N, [None; Some true]); (0%N, [None]); (2%N, []);
          (1%N, [Some false; Some true]); (0%N, [Some false])]
  /\ reaches (fun l => match l with Acquire _ => true | _ => false end) tiny [(3%N, [])] = false
  /\ reaches (fun l => match l with Acquire _ => true | _ => false end) tiny [(0%N, [Some false])] = true.
Proof. exact tiny_reach. Qed.
Print Assumptions reach_nonvacuous.

(* ===== 2. the entry-point classification covers the source ===== *)

Theorem every_exported_method_classified : forall m v,
  In m exported_methods -> In v (bool_vectors (nslots m)) ->
  In (m, v) read_methods \/ In (m, v) write_methods.
Proof. exact all_classified_In. Qed.
Print Assumptions every_exported_method_classified.

Example generated_tables_consistent :
  graph_wf_b = true /\ entries_wf_b = true /\ slot_meaning_b = true /\ classes_disjoint_b = true.
Proof. exact (conj graph_wf (conj entries_wf (conj slot_meaning classes_disjoint))). Qed.
Print Assumptions generated_tables_consistent.

(* ===== 3. on the generated call graph of fox ===== *)

(* the computation (one run of `reach` per read entry point) ... *)
Theorem reads_check_computed :
  forallb (fun e => negb (reaches writer_blocking graph [e])) read_entries = true.
Proof. exact reads_check. Qed.
Print Assumptions reads_check_computed.

(* ... and what it means: from no read entry point (ServeHTTP, Lookup, Reverse, Has, Route, Len,
   Iter and the iterators it returns, Txn(false), View, every method of a read-only Txn, the
   Context and Route methods) is there a path in the guarded call graph to an acquisition of
   Router.mu, a channel operation, a select, a Cond.Wait or a WaitGroup.Wait *)
Theorem reads_never_take_writer_lock : forall e, In e read_entries ->
  ~ exists s l, Reachable graph e s /\ In l (leaves_at graph s) /\
                (l = Acquire lock_Router_mu \/ l = ChanOp \/ l = Select \/ l = CondWait \/ l = WaitGroupWait \/
                 l = Sleep \/ l = SpinLoad).
Proof. exact GraphProofs.reads_never_take_writer_lock. Qed.
Print Assumptions reads_never_take_writer_lock.

(* the lock objects acquirable from the write entry points are exactly {Router.mu} ... *)
Theorem write_lock_set_is_router_mu : forall k,
  (exists e, In e write_entries /\ CanBlockOn graph (fun l => l = Acquire k) e) <-> k = lock_Router_mu.
Proof. exact write_lock_set. Qed.
Print Assumptions write_lock_set_is_router_mu.

(* ... and no lock object is acquirable both from a write and from a read entry point *)
Theorem lock_sets_disjoint : forall k,
  ~ ((exists e, In e write_entries /\ CanBlockOn graph (fun l => l = Acquire k) e) /\
     (exists e, In e read_entries /\ CanBlockOn graph (fun l => l = Acquire k) e)).
Proof. exact GraphProofs.lock_sets_disjoint. Qed.
Print Assumptions lock_sets_disjoint.

(* the shared-state skeleton extracted from the source is the pinned one: the inventory of
   synchronisation objects, the fields through which readers and writers meet, the loop / atomic
   shape of every Router and Txn method (a new flag polled by readers, a new loop in ServeHTTP,
   a new counter maintained by txnWith re-open this obligation) *)
Example skeleton_pinned :
  sync_inventory = expected_sync_inventory /\
  map fname shared_now = expected_shared /\
  shapes_eqb shape_table expected_shapes = true /\
  flag_sites = expected_flag_sites.
Proof. exact (conj (strs_eqb_eq _ _ (proj1 skeleton_check))
             (conj (strs_eqb_eq _ _ (proj1 (proj2 skeleton_check)))
             (conj (proj1 (proj2 (proj2 skeleton_check))) (strs_eqb_eq _ _ (proj2 (proj2 (proj2 skeleton_check))))))). Qed.
Print Assumptions skeleton_pinned.

Theorem readers_and_writers_meet_only_on_pinned_fields : forall k,
  (exists e s f, In e write_entries /\ Reachable graph e s /\ lookup graph (fst s) = Some f /\ In k (f_writes f)) ->
  (exists e s f, In e read_entries /\ Reachable graph e s /\ lookup graph (fst s) = Some f /\ In k (f_reads f)) ->
  In (fname k) expected_shared.
Proof. exact shared_state_is_pinned. Qed.
Print Assumptions readers_and_writers_meet_only_on_pinned_fields.

(* the writer mutex is touched only by write transactions: in the whole graph Router.mu is acquired only
   by txnWith in a state where its `write` argument is not false, and released only by Txn.Commit /
   Txn.Abort in a state where the transaction's `write` field is not false; together with
   skeleton_pinned (Txn.write gets a value only in txnWith — its own `write` argument — and in Snapshot —
   false) the lock is released only by a transaction that took it *)
Theorem writer_lock_touched_only_by_write_transactions : forall s l, In l (leaves_at graph s) ->
  (l = Acquire lock_Router_mu -> fst s = f_Router_txnWith /\ nth 0 (snd s) None <> Some false) /\
  (l = Release lock_Router_mu -> (fst s = f_Txn_Commit \/ fst s = f_Txn_Abort) /\ nth 0 (snd s) None <> Some false).
Proof. exact writer_lock_discipline. Qed.
Print Assumptions writer_lock_touched_only_by_write_transactions.

(* non-vacuity: the graph sees the writer lock; the guards are what separates Txn(false) from Txn(true) *)
Theorem writers_take_writer_lock : forall e, In e locking_write_entries ->
  CanBlockOn graph (fun l => l = Acquire lock_Router_mu) e.
Proof. exact GraphProofs.writers_take_writer_lock. Qed.
Print Assumptions writers_take_writer_lock.

Example txn_guard_is_needed :
  reaches is_router_mu graph [(f_Router_Txn, [None])] = true /\
  reaches is_router_mu graph [(f_Router_Txn, [Some false])] = false /\
  reaches is_router_mu graph [(f_Router_Txn, [Some true])] = true.
Proof. exact guard_is_needed. Qed.
Print Assumptions txn_guard_is_needed.

(* ===== 4. the protocol model ===== *)

Theorem protocol_invariant : forall mu sched s, Wf mu s -> Wf mu (run sched s).
Proof. exact run_preserves_Wf. Qed.
Print Assumptions protocol_invariant.

(* every step of a reader that takes no lock is enabled in every state, whatever any lock holds,
   and under every schedule it has finished after |program| steps of its own — e.g. while a writer
   holds mu and is never scheduled again *)
Theorem reader_wait_free : forall sched s i p,
  nth_error (s_threads s) i = Some (mkthread Reader p) -> lock_free_prog p ->
  enabled s i = true /\
  enabled (run sched s) i = true /\
  remaining (run sched s) i = length p - count_occ Nat.eq_dec sched i.
Proof. exact ProtocolProofs.reader_wait_free. Qed.
Print Assumptions reader_wait_free.

(* a reader that does wait (it may take the log-writer lock) waits for another reader, never for a writer *)
Theorem reader_never_waits_for_writer : forall mu s i, Wf mu s ->
  role_at s i = Some Reader -> enabled s i = false ->
  exists l j, l <> mu /\ holder l (s_locks s) = Some j /\ role_at s j = Some Reader.
Proof. exact ProtocolProofs.reader_never_waits_for_writer. Qed.
Print Assumptions reader_never_waits_for_writer.

(* Lock is the only step that can be disabled; a waiting writer waits for mu held by another writer *)
Theorem only_lock_can_be_disabled : forall s i, enabled s i = false ->
  exists r l rest j, nth_error (s_threads s) i = Some (mkthread r (IAcq l :: rest)) /\ holder l (s_locks s) = Some j.
Proof. exact only_acquire_can_wait. Qed.
Print Assumptions only_lock_can_be_disabled.

Theorem writers_wait_only_for_writers : forall mu s i, Wf mu s ->
  role_at s i = Some Writer -> enabled s i = false ->
  exists rest j, nth_error (s_threads s) i = Some (mkthread Writer (IAcq mu :: rest)) /\
                 holder mu (s_locks s) = Some j /\ role_at s j = Some Writer.
Proof. exact ProtocolProofs.writers_wait_only_for_writers. Qed.
Print Assumptions writers_wait_only_for_writers.

Example protocol_nonvacuous :
  Wf mu0 demo /\
  let s1 := run [0; 0] demo in
  holder mu0 (s_locks s1) = Some 0 /\
  enabled s1 3 = false /\ step s1 3 = s1 /\
  enabled s1 1 = true /\ enabled s1 2 = true /\
  remaining (run [1; 3; 2; 1; 2; 3; 2; 1; 2; 2] s1) 1 = 0 /\
  remaining (run [1; 3; 2; 1; 2; 3; 2; 1; 2; 2] s1) 2 = 0 /\
  remaining (run [1; 3; 2; 1; 2; 3; 2; 1; 2; 2] s1) 3 = 3 /\
  remaining (run [0; 0; 3] (run [1; 3; 2; 1; 2; 3; 2; 1; 2; 2] s1)) 3 = 2.
Proof. exact (conj demo_wf demo_parked_writer). Qed.
Print Assumptions protocol_nonvacuous.
