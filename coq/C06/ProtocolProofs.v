(* C06 — proofs about the protocol model (Protocol.v). *)
From Coq Require Import List Bool Arith NArith Lia.
From FoxC06 Require Import Protocol.
Import ListNotations.

(* ---------- lists ---------- *)

Lemma nth_error_set_nth_same {A} : forall (l : list A) i x y,
  nth_error l i = Some y -> nth_error (set_nth i x l) i = Some x.
Proof.
  induction l as [|a l IH]; intros [|i] x y H; cbn in *; try discriminate; [reflexivity|].
  eapply IH. exact H.
Qed.

Lemma nth_error_set_nth_other {A} : forall (l : list A) i j x,
  i <> j -> nth_error (set_nth i x l) j = nth_error l j.
Proof.
  induction l as [|a l IH]; intros [|i] [|j] x H; cbn; try reflexivity.
  - exfalso. apply H. reflexivity.
  - apply IH. intro E. apply H. rewrite E. reflexivity.
Qed.

Lemma In_set_nth {A} : forall (l : list A) i x t, In t (set_nth i x l) -> t = x \/ In t l.
Proof.
  induction l as [|a l IH]; intros [|i] x t H; cbn in *; try tauto.
  - destruct H as [H|H]; auto.
  - destruct H as [H|H]; auto. destruct (IH _ _ _ H); auto.
Qed.

Lemma holder_In : forall l ls i, holder l ls = Some i -> In (l, i) ls.
Proof.
  induction ls as [|[l' j] ls IH]; intros i H; cbn in *; [discriminate|].
  destruct (N.eqb l l') eqn:E.
  - apply N.eqb_eq in E. injection H as H. subst. left. reflexivity.
  - right. apply IH. exact H.
Qed.

Lemma In_release : forall l i ls p, In p (release l i ls) -> In p ls.
Proof.
  induction ls as [|[l' j] ls IH]; intros p H; cbn in *; [exact H|].
  destruct (N.eqb l l' && Nat.eqb i j).
  - right. apply IH. exact H.
  - destruct H as [H|H]; [left; exact H | right; apply IH; exact H].
Qed.

(* ---------- a step changes only the stepping thread's program ---------- *)

Lemma step_other : forall s i j, i <> j ->
  nth_error (s_threads (step s i)) j = nth_error (s_threads s) j.
Proof.
  intros s i j H. unfold step.
  destruct (nth_error (s_threads s) i) as [[r [|ins rest]]|] eqn:E; try reflexivity.
  destruct ins as [l|l|]; cbn [s_threads].
  - destruct (holder l (s_locks s)); [reflexivity|]. cbn [s_threads]. apply nth_error_set_nth_other. exact H.
  - apply nth_error_set_nth_other. exact H.
  - apply nth_error_set_nth_other. exact H.
Qed.

Lemma step_role : forall s i j, role_at (step s i) j = role_at s j.
Proof.
  intros s i j. unfold role_at. destruct (Nat.eq_dec i j) as [E|E]; [subst j | rewrite step_other by exact E; reflexivity].
  unfold step. destruct (nth_error (s_threads s) i) as [[r [|ins rest]]|] eqn:Ei; try (rewrite Ei; reflexivity).
  destruct ins as [l|l|]; cbn [s_threads].
  - destruct (holder l (s_locks s)); [rewrite Ei; reflexivity|]. cbn [s_threads].
    rewrite (nth_error_set_nth_same _ _ _ _ Ei). reflexivity.
  - rewrite (nth_error_set_nth_same _ _ _ _ Ei). reflexivity.
  - rewrite (nth_error_set_nth_same _ _ _ _ Ei). reflexivity.
Qed.

Lemma step_self_pop : forall s i r ins rest,
  nth_error (s_threads s) i = Some (mkthread r (ins :: rest)) ->
  (forall l, ins <> IAcq l) ->
  nth_error (s_threads (step s i)) i = Some (mkthread r rest).
Proof.
  intros s i r ins rest E Hn. unfold step. rewrite E.
  destruct ins as [l|l|]; cbn [s_threads].
  - exfalso. apply (Hn l). reflexivity.
  - eapply nth_error_set_nth_same. exact E.
  - eapply nth_error_set_nth_same. exact E.
Qed.

(* ---------- the invariant ---------- *)

Lemma Wf_init : forall mu ts, (forall t, In t ts -> wf_thread mu t) -> Wf mu (mksys [] ts).
Proof. intros mu ts H. split; [exact H|]. intros l i []. Qed.

Lemma wf_thread_tail : forall mu r ins rest, wf_thread mu (mkthread r (ins :: rest)) -> wf_thread mu (mkthread r rest).
Proof. intros mu r ins rest H l Hl. apply (H l). right. exact Hl. Qed.

Theorem step_preserves_Wf : forall mu s i, Wf mu s -> Wf mu (step s i).
Proof.
  intros mu s i [Ht Hl].
  assert (Hroles : forall j, role_at (step s i) j = role_at s j) by (intro j; apply step_role).
  unfold Wf. setoid_rewrite Hroles. clear Hroles.
  unfold step. destruct (nth_error (s_threads s) i) as [[r [|ins rest]]|] eqn:E; try (split; assumption).
  assert (Hin : In (mkthread r (ins :: rest)) (s_threads s)) by (eapply nth_error_In; exact E).
  assert (Hthreads : forall t, In t (set_nth i (mkthread r rest) (s_threads s)) -> wf_thread mu t).
  { intros t H. apply In_set_nth in H. destruct H as [H|H]; [|apply Ht; exact H].
    subst t. eapply wf_thread_tail. apply Ht. exact Hin. }
  destruct ins as [l|l|]; cbn [s_locks s_threads].
  - destruct (holder l (s_locks s)) eqn:Eh; [split; assumption|]. cbn [s_locks s_threads].
    split; [exact Hthreads|]. intros l' j [H|H]; [|apply Hl; exact H].
    injection H as H1 H2. subst l' j. unfold role_at. rewrite E. cbn [option_map t_role].
    pose proof (Ht _ Hin l (or_introl eq_refl)) as Hw. cbn [t_role] in Hw. destruct r; exact Hw.
  - split; [exact Hthreads|]. intros l' j H. apply Hl. eapply In_release. exact H.
  - split; [exact Hthreads|]. exact Hl.
Qed.

Theorem run_preserves_Wf : forall mu sched s, Wf mu s -> Wf mu (run sched s).
Proof.
  intros mu sched. induction sched as [|i r IH]; intros s H; cbn [run]; [exact H|].
  apply IH. apply step_preserves_Wf. exact H.
Qed.

(* ---------- who can wait, and for whom ---------- *)

(* acquiring a lock is the only step that can be disabled *)
Theorem only_acquire_can_wait : forall s i, enabled s i = false ->
  exists r l rest j, nth_error (s_threads s) i = Some (mkthread r (IAcq l :: rest)) /\ holder l (s_locks s) = Some j.
Proof.
  intros s i H. unfold enabled in H.
  destruct (nth_error (s_threads s) i) as [[r [|[l|l|] rest]]|] eqn:E; try discriminate H.
  destruct (holder l (s_locks s)) as [j|] eqn:Eh; [|discriminate H].
  exists r, l, rest, j. split; [reflexivity | exact Eh].
Qed.

Lemma step_disabled : forall s i, enabled s i = false -> step s i = s.
Proof.
  intros s i H. destruct (only_acquire_can_wait s i H) as [r [l [rest [j [E Eh]]]]].
  unfold step. rewrite E, Eh. reflexivity.
Qed.

(* a reader that waits waits for another READER (on a lock that is not the writer lock) *)
Theorem reader_never_waits_for_writer : forall mu s i, Wf mu s ->
  role_at s i = Some Reader -> enabled s i = false ->
  exists l j, l <> mu /\ holder l (s_locks s) = Some j /\ role_at s j = Some Reader.
Proof.
  intros mu s i [Ht Hl] Hr H. destruct (only_acquire_can_wait s i H) as [r [l [rest [j [E Eh]]]]].
  unfold role_at in Hr. rewrite E in Hr. cbn in Hr. injection Hr as Hr. subst r.
  assert (Hne : l <> mu).
  { apply (Ht _ (nth_error_In _ _ E) l). left. reflexivity. }
  exists l, j. split; [exact Hne|]. split; [exact Eh|].
  pose proof (Hl l j (holder_In _ _ _ Eh)) as Hj.
  destruct (role_at s j) as [[|]|]; [reflexivity | exfalso; exact (Hne Hj) | destruct Hj].
Qed.

(* a writer that waits waits for the writer lock, held by another WRITER *)
Theorem writers_wait_only_for_writers : forall mu s i, Wf mu s ->
  role_at s i = Some Writer -> enabled s i = false ->
  exists rest j, nth_error (s_threads s) i = Some (mkthread Writer (IAcq mu :: rest)) /\
                 holder mu (s_locks s) = Some j /\ role_at s j = Some Writer.
Proof.
  intros mu s i [Ht Hl] Hr H. destruct (only_acquire_can_wait s i H) as [r [l [rest [j [E Eh]]]]].
  unfold role_at in Hr. rewrite E in Hr. cbn in Hr. injection Hr as Hr. subst r.
  assert (He : l = mu).
  { apply (Ht _ (nth_error_In _ _ E) l). left. reflexivity. }
  subst l. exists rest, j. split; [exact E|]. split; [exact Eh|].
  pose proof (Hl mu j (holder_In _ _ _ Eh)) as Hj.
  destruct (role_at s j) as [[|]|]; [exfalso; apply Hj; reflexivity | reflexivity | destruct Hj].
Qed.

(* ---------- wait-freedom of lock-free readers ---------- *)

Lemma lock_free_enabled : forall s i r p,
  nth_error (s_threads s) i = Some (mkthread r p) -> lock_free_prog p -> enabled s i = true.
Proof.
  intros s i r p E Hp. unfold enabled. rewrite E.
  destruct p as [|[l|l|] rest]; try reflexivity. exfalso. apply (Hp l). left. reflexivity.
Qed.

(* A reader whose program acquires no lock: whatever the other threads do or hold (in
   particular a writer holding mu and never scheduled again), under EVERY schedule each of
   its steps is enabled, and it has finished after |program| of its own steps. *)
Theorem reader_wait_free : forall sched s i p,
  nth_error (s_threads s) i = Some (mkthread Reader p) -> lock_free_prog p ->
  enabled s i = true /\
  enabled (run sched s) i = true /\
  remaining (run sched s) i = length p - count_occ Nat.eq_dec sched i.
Proof.
  induction sched as [|j sched IH]; intros s i p E Hp.
  - cbn [run count_occ]. pose proof (lock_free_enabled _ _ _ _ E Hp) as He.
    split; [exact He|]. split; [exact He|]. unfold remaining. rewrite E. cbn [t_prog]. lia.
  - split; [exact (lock_free_enabled _ _ _ _ E Hp)|]. cbn [run count_occ].
    destruct (Nat.eq_dec j i) as [Eji|Eji].
    + subst j. destruct p as [|ins rest].
      * assert (Hs : step s i = s) by (unfold step; rewrite E; reflexivity).
        rewrite Hs. destruct (IH s i [] E Hp) as [_ [H1 H2]]. split; [exact H1|]. rewrite H2. cbn [length]. lia.
      * assert (Hn : forall l, ins <> IAcq l).
        { intros l Hl. apply (Hp l). left. exact Hl. }
        assert (Hp' : lock_free_prog rest) by (intros l Hl; apply (Hp l); right; exact Hl).
        pose proof (step_self_pop s i Reader ins rest E Hn) as E'.
        destruct (IH (step s i) i rest E' Hp') as [_ [H1 H2]]. split; [exact H1|]. rewrite H2. cbn [length]. lia.
    + assert (E' : nth_error (s_threads (step s j)) i = Some (mkthread Reader p)) by (rewrite step_other by exact Eji; exact E).
      destruct (IH (step s j) i p E' Hp) as [_ [H1 H2]]. split; [exact H1 | exact H2].
Qed.

Corollary reader_finishes : forall sched s i p,
  nth_error (s_threads s) i = Some (mkthread Reader p) -> lock_free_prog p ->
  length p <= count_occ Nat.eq_dec sched i -> remaining (run sched s) i = 0.
Proof.
  intros sched s i p E Hp Hc. destruct (reader_wait_free sched s i p E Hp) as [_ [_ H]]. rewrite H. lia.
Qed.

(* ---------- a concrete system: non-vacuity ---------- *)

Definition mu0 : N := 1%N.
Definition logl : N := 0%N.

Definition demo : sys := mksys []
  [ mkthread Writer [IAcq mu0; IStep; IStep; IRel mu0];              (* 0: a write transaction *)
    mkthread Reader [IStep; IStep; IStep];                           (* 1: Lookup-like reader *)
    mkthread Reader [IStep; IAcq logl; IStep; IRel logl; IStep];     (* 2: ServeHTTP through the Logger *)
    mkthread Writer [IAcq mu0; IStep; IRel mu0] ].                   (* 3: a second writer *)

Example demo_wf : Wf mu0 demo.
Proof.
  apply Wf_init. intros t Ht l Hl. cbn in Ht.
  destruct Ht as [Ht|[Ht|[Ht|[Ht|[]]]]]; subst t; cbn in Hl |- *;
    repeat (destruct Hl as [Hl|Hl]; [try discriminate Hl; injection Hl as Hl; subst l; try reflexivity; intro Hc; discriminate Hc|]); destruct Hl.
Qed.

(* writer 0 opens its transaction, does one step and is parked for ever (never scheduled again);
   the second writer is then disabled, both readers run to completion *)
Example demo_parked_writer :
  let s1 := run [0; 0] demo in
  holder mu0 (s_locks s1) = Some 0 /\
  enabled s1 3 = false /\ step s1 3 = s1 /\
  enabled s1 1 = true /\ enabled s1 2 = true /\
  remaining (run [1; 3; 2; 1; 2; 3; 2; 1; 2; 2] s1) 1 = 0 /\
  remaining (run [1; 3; 2; 1; 2; 3; 2; 1; 2; 2] s1) 2 = 0 /\
  remaining (run [1; 3; 2; 1; 2; 3; 2; 1; 2; 2] s1) 3 = 3 /\
  remaining (run [0; 0; 3] (run [1; 3; 2; 1; 2; 3; 2; 1; 2; 2] s1)) 3 = 2.
Proof. vm_compute. repeat split; reflexivity. Qed.
