(* C06 — the shared-state skeleton of the router, PINNED BY HAND against what the generator
   extracts from the source.  "Reads never wait for writers" is more than "readers never take the
   writer lock": a reader could also poll a flag that writers maintain.  Besides the leaves
   Sleep / SpinLoad (Entries.writer_blocking), three tables are therefore pinned here; any change of
   one of them re-opens an obligation (GraphProofs.skeleton_pinned) until somebody has looked at the
   new way in which readers and writers can meet and has updated this file:

   1. expected_sync_inventory — every struct field / package variable of the analysed packages that
      is a synchronisation or communication object (sync.*, sync/atomic.*, channels).
        Router.mu        the writer lock (write transactions only: reads_never_take_writer_lock)
        Router.tree      the one publication point: atomic pointer to the immutable tree
        iTree.ctx, copyBufPool, logBufPool   sync.Pool (never waits)
        lockedWriter.Mutex   log writer, readers only (lock_sets_disjoint)
   2. expected_shared — fields of Router / Txn / iTree and package variables that are written by a
      function reachable from a WRITE entry point and read by a function reachable from a READ entry
      point.  Router.tree is the real one.  The Router option fields are written by option closures
      (construction time; reached from NewRoute only through signature matching of option closures),
      Txn.rootTxn is per transaction (a Txn is not shared between goroutines), iTree.ctx is set while
      a new tree is built, before it is published.
   3. expected_shapes — for every method of Router and Txn the number of for/range statements and of
      calls into sync/atomic (function literals included): a new loop in ServeHTTP, or a new atomic
      operation in txnWith / Commit, shows up here.
   No proofs here. *)
From Coq Require Import List Bool Arith NArith String.
From FoxC06 Require Import Graph GenCallGraph Entries.
Import ListNotations.
Open Scope string_scope.

Definition expected_sync_inventory : list string := [
  "fox.Router.mu : sync.Mutex";
  "fox.Router.tree : atomic.Pointer";
  "fox.iTree.ctx : sync.Pool";
  "slogpretty.lockedWriter.Mutex : sync.Mutex";
  "var fox.copyBufPool : sync.Pool";
  "var slogpretty.logBufPool : sync.Pool"
].

Definition expected_shared : list string := [
  "fox.Router.autoOptions"; "fox.Router.clientip"; "fox.Router.handleMethodNotAllowed";
  "fox.Router.handleOptions"; "fox.Router.ignoreTrailingSlash"; "fox.Router.maxParamKeyBytes";
  "fox.Router.maxParams"; "fox.Router.mws"; "fox.Router.noMethod"; "fox.Router.noRouteBase";
  "fox.Router.redirectTrailingSlash";
  "fox.Router.tree";
  "fox.Txn.rootTxn";
  "fox.iTree.ctx"
].

(* 4. expected_flag_sites — what the bool fields of Router / Txn / iTree are initialised with in every
      composite literal.  Txn.write decides whether Commit/Abort touch the writer lock; it is never
      assigned (checked: it is a slot), so these sites are the only places where it gets a value:
      txnWith passes its own `write` argument (and has locked under that same guard), a Snapshot is
      read-only.  A new site, or a snapshot that inherits `write`, re-opens the obligation. *)
Definition expected_flag_sites : list string := [
  "fox.Txn.write := default false in Txn.Snapshot";
  "fox.Txn.write := slot write in Router.txnWith"
].

Definition expected_shapes : list (string * (nat * nat)) := [
  ("Router.MustHandle", (0, 0));
  ("Router.Handle", (0, 0));
  ("Router.HandleRoute", (0, 0));
  ("Router.Update", (0, 0));
  ("Router.UpdateRoute", (0, 0));
  ("Router.Delete", (0, 0));
  ("Router.Has", (0, 0));
  ("Router.Route", (0, 0));
  ("Router.Reverse", (0, 0));
  ("Router.Lookup", (0, 0));
  ("Router.NewRoute", (1, 0));
  ("Router.HandleNoRoute", (0, 0));
  ("Router.Len", (0, 0));
  ("Router.Iter", (0, 0));
  ("Router.Updates", (0, 0));
  ("Router.View", (0, 0));
  ("Router.Stats", (0, 0));
  ("Router.Txn", (0, 0));
  ("Router.txnWith", (0, 0));
  ("Router.newTree", (1, 0));
  ("Router.getRoot", (0, 1));
  ("Router.ServeHTTP", (3, 0));
  ("Router.parseRoute", (1, 0));
  ("Txn.Handle", (0, 0));
  ("Txn.HandleRoute", (0, 0));
  ("Txn.Update", (0, 0));
  ("Txn.UpdateRoute", (0, 0));
  ("Txn.Delete", (0, 0));
  ("Txn.Truncate", (0, 0));
  ("Txn.Has", (0, 0));
  ("Txn.Route", (0, 0));
  ("Txn.Reverse", (0, 0));
  ("Txn.Lookup", (0, 0));
  ("Txn.Iter", (0, 0));
  ("Txn.Len", (0, 0));
  ("Txn.Commit", (0, 1));
  ("Txn.Abort", (0, 0));
  ("Txn.Snapshot", (0, 0))
].

Definition fname (k : N) : string := nth (N.to_nat k) field_names "?".
Definition all_fields : list N := map N.of_nat (seq 0 (List.length field_names)).
Definition opt_list (o : option (list N)) : list N := match o with Some l => l | None => all_fields end.
Definition written_by_writers : list N := opt_list (fields_from f_writes graph write_entries).
Definition read_by_readers : list N := opt_list (fields_from f_reads graph read_entries).
Definition shared_now : list N :=
  filter (fun k => memN k written_by_writers && memN k read_by_readers) all_fields.

Fixpoint shapes_eqb (a b : list (string * (nat * nat))) : bool :=
  match a, b with
  | [], [] => true
  | (n, (l, t)) :: a', (n', (l', t')) :: b' =>
      String.eqb n n' && Nat.eqb l l' && Nat.eqb t t' && shapes_eqb a' b'
  | _, _ => false
  end.

Definition sync_inventory_b : bool := strs_eqb sync_inventory expected_sync_inventory.
Definition shared_b : bool := strs_eqb (map fname shared_now) expected_shared.
Definition shapes_b : bool := shapes_eqb shape_table expected_shapes.
Definition flag_sites_b : bool := strs_eqb flag_sites expected_flag_sites.

(* lock discipline, checked on every leaf site of the graph: Router.mu is acquired only in txnWith under
   the guard write = true, and released only in Txn.Commit / Txn.Abort under the guard recv.write = true *)
Definition has_lit (gd : guard) (i : nat) (b : bool) : bool :=
  existsb (fun l => Nat.eqb (fst l) i && Bool.eqb (snd l) b) gd.

Definition site_ok (fid : N) (f : fn) : bool :=
  forallb (fun l =>
    match l_leaf l with
    | Acquire k => negb (N.eqb k lock_Router_mu)
                   || (N.eqb fid f_Router_txnWith && has_lit (l_guard l) 0 true)
    | Release k => negb (N.eqb k lock_Router_mu)
                   || ((N.eqb fid f_Txn_Commit || N.eqb fid f_Txn_Abort) && has_lit (l_guard l) 0 true)
    | _ => true
    end) (f_leaves f).

Fixpoint disc_from (i : N) (g : Graph.graph) : bool :=
  match g with
  | [] => true
  | f :: r => site_ok i f && disc_from (N.succ i) r
  end.

Definition lock_discipline_b : bool :=
  disc_from 0%N graph
  && match slots_of f_Router_txnWith with s :: _ => String.eqb s "write" | [] => false end.

(* field ids mentioned in the graph exist in the field table *)
Definition fields_wf_b : bool :=
  forallb (fun f => forallb (fun k => N.ltb k (N.of_nat (List.length field_names))) (f_reads f ++ f_writes f)) graph.

Definition mem_str (s : string) (l : list string) : bool := existsb (String.eqb s) l.

(* every field written by writers and read by readers has a pinned name *)
Definition shared_pinned_b : bool :=
  forallb (fun k => negb (memN k read_by_readers) || mem_str (fname k) expected_shared) written_by_writers.
