(* C06 — guarded call graphs: the data the generator (harness/cmd/cggen) emits, and what
   "reachable" means on it.  No proofs here.

   A node is a function; its *slots* are the boolean inputs the generator tracks (bool
   parameters, and for methods the never-reassigned bool fields of the receiver, e.g.
   Txn.write).  An abstract state (f, ks) stands for "f is running and slot i has value b
   whenever ks[i] = Some b" (None = unknown).  A call site is an edge carrying
     - a guard: a conjunction of (slot, value) literals collected from the enclosing
       `if slot` / `if !slot` conditions; the site can execute only if no literal
       contradicts what is known,
     - the callee,
     - for each callee slot what the caller passes: a constant, one of its own slots, or
       something unknown.
   Blocking operations are leaves, guarded the same way. *)
From Coq Require Import List Bool Arith NArith.
Import ListNotations.

Inductive leafk :=
| Acquire (lock : N)     (* sync.Mutex/RWMutex Lock/RLock (and TryLock) on the named lock object *)
| Release (lock : N)     (* Unlock/RUnlock of the named lock object: never waits, but touches the lock *)
| ChanOp                 (* channel send / receive / range *)
| Select
| CondWait
| WaitGroupWait
| Sleep                  (* time.Sleep / runtime.Gosched: waiting for time to pass or for somebody else *)
| SpinLoad.              (* an atomic Load / CompareAndSwap executed from inside a loop (directly, or by a
                            function called from inside the loop): the loop observes shared state *)

Inductive arg := AConst (b : bool) | AParam (i : nat) | AUnk.

Definition guard := list (nat * bool).

Record edge := mkedge { e_guard : guard; e_callee : N; e_args : list arg }.
Record leafsite := mkleaf { l_guard : guard; l_leaf : leafk }.
(* f_reads / f_writes: the fields of the shared structures (Router, Txn, iTree) and the
   package-level variables the function reads / writes (ids into GenCallGraph.field_names) *)
Record fn := mkfn { f_nslots : nat; f_edges : list edge; f_leaves : list leafsite;
                    f_reads : list N; f_writes : list N }.

(* function ids are positions in the list *)
Definition graph := list fn.

Definition known := list (option bool).
Definition state := (N * known)%type.

Definition lookup (g : graph) (f : N) : option fn := nth_error g (N.to_nat f).

Definition lit_ok (ks : known) (l : nat * bool) : bool :=
  match nth (fst l) ks None with
  | Some b => Bool.eqb b (snd l)
  | None => true
  end.

Definition guard_ok (ks : known) (gd : guard) : bool := forallb (lit_ok ks) gd.

Definition eval_arg (ks : known) (a : arg) : option bool :=
  match a with
  | AConst b => Some b
  | AParam i => nth i ks None
  | AUnk => None
  end.

Definition succ_of (ks : known) (e : edge) : state := (e_callee e, map (eval_arg ks) (e_args e)).

Definition succs (g : graph) (s : state) : list state :=
  match lookup g (fst s) with
  | None => []
  | Some f => map (succ_of (snd s)) (filter (fun e => guard_ok (snd s) (e_guard e)) (f_edges f))
  end.

Definition leaves_at (g : graph) (s : state) : list leafk :=
  match lookup g (fst s) with
  | None => []
  | Some f => map l_leaf (filter (fun l => guard_ok (snd s) (l_guard l)) (f_leaves f))
  end.

(* the specification of reachability: reflexive-transitive closure of succs *)
Inductive Reachable (g : graph) (e : state) : state -> Prop :=
| R_refl : Reachable g e e
| R_step : forall s s', Reachable g e s -> In s' (succs g s) -> Reachable g e s'.

(* entry e can get to an execution of a blocking operation satisfying P *)
Definition CanBlockOn (g : graph) (P : leafk -> Prop) (e : state) : Prop :=
  exists s l, Reachable g e s /\ In l (leaves_at g s) /\ P l.

(* ---------- executable reachability ---------- *)

Fixpoint known_eqb (a b : known) : bool :=
  match a, b with
  | [], [] => true
  | None :: a', None :: b' => known_eqb a' b'
  | Some x :: a', Some y :: b' => Bool.eqb x y && known_eqb a' b'
  | _, _ => false
  end.

Definition state_eqb (a b : state) : bool := N.eqb (fst a) (fst b) && known_eqb (snd a) (snd b).

Fixpoint memb (s : state) (l : list state) : bool :=
  match l with
  | [] => false
  | x :: r => state_eqb s x || memb s r
  end.

Fixpoint dedup (l : list state) : list state :=
  match l with
  | [] => []
  | x :: r => if memb x r then dedup r else x :: dedup r
  end.

(* worklist: every popped state is new (successors are filtered against visited and todo
   before being pushed), so the number of iterations is bounded by the number of states *)
Fixpoint reach_aux (fuel : nat) (g : graph) (visited todo : list state) : option (list state) :=
  match todo with
  | [] => Some visited
  | s :: todo' =>
      match fuel with
      | 0 => None
      | S fuel' =>
          let new := filter (fun x => negb (memb x (s :: visited)) && negb (memb x todo'))
                            (dedup (succs g s)) in
          reach_aux fuel' g (s :: visited) (new ++ todo')
      end
  end.

(* the finite universe of abstract states: the entries, and for every edge its callee with
   every possible knowledge vector of the edge's arity *)
Fixpoint all_known (n : nat) : list known :=
  match n with
  | 0 => [[]]
  | S n' => flat_map (fun k => [None :: k; Some true :: k; Some false :: k]) (all_known n')
  end.

Definition universe (g : graph) (es : list state) : list state :=
  es ++ flat_map (fun f => flat_map (fun e => map (fun k => (e_callee e, k)) (all_known (length (e_args e))))
                                    (f_edges f)) g.

(* None = out of fuel (proved impossible: Reach.reach_total) *)
Definition reach (g : graph) (es : list state) : option (list state) :=
  reach_aux (length (universe g es)) g [] (dedup es).

(* does some state reachable from the entries execute a leaf satisfying p?
   out of fuel counts as "yes" (conservative) *)
Definition reaches (p : leafk -> bool) (g : graph) (es : list state) : bool :=
  match reach g es with
  | Some V => existsb (fun s => existsb p (leaves_at g s)) V
  | None => true
  end.

(* the lock objects acquirable from the entries *)
Fixpoint memN (x : N) (l : list N) : bool :=
  match l with [] => false | y :: r => N.eqb x y || memN x r end.

Fixpoint dedupN (l : list N) : list N :=
  match l with [] => [] | x :: r => if memN x r then dedupN r else x :: dedupN r end.

Definition lock_of (l : leafk) : list N := match l with Acquire k => [k] | _ => [] end.

Definition locks_from (g : graph) (es : list state) : option (list N) :=
  match reach g es with
  | Some V => Some (dedupN (flat_map (fun s => flat_map lock_of (leaves_at g s)) V))
  | None => None
  end.

(* the shared fields / package variables touched (per `sel`: read or written) by the functions
   reachable from the entries *)
Definition fields_from (sel : fn -> list N) (g : graph) (es : list state) : option (list N) :=
  match reach g es with
  | Some V => Some (dedupN (flat_map (fun s => match lookup g (fst s) with Some f => sel f | None => [] end) V))
  | None => None
  end.
