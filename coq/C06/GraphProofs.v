(* C06 — theorems about the GENERATED call graph (re-proved on every run: the domain is the
   finite, completely enumerated list of entry points; `reach` is proved correct in Reach.v). *)
From Coq Require Import List Bool Arith NArith Lia.
From FoxC06 Require Import Graph Reach GenCallGraph Entries Skeleton.
Import ListNotations.

(* ---------- the generated tables are consistent, every exported method is classified ---------- *)

Lemma graph_wf : graph_wf_b = true.
Proof. vm_compute. reflexivity. Qed.

Lemma all_classified : all_classified_b = true.
Proof. vm_compute. reflexivity. Qed.

Lemma classes_disjoint : classes_disjoint_b = true.
Proof. vm_compute. reflexivity. Qed.

Lemma entries_wf : entries_wf_b = true.
Proof. vm_compute. reflexivity. Qed.

Lemma slot_meaning : slot_meaning_b = true.
Proof. vm_compute. reflexivity. Qed.

(* stated on the lists: every exported method of Router/Txn/Iter/Route/cTx, for every value of
   its boolean slots, is a read or a write entry point *)
Lemma all_classified_In : forall m v,
  In m exported_methods -> In v (bool_vectors (nslots m)) ->
  In (m, v) read_methods \/ In (m, v) write_methods.
Proof.
  intros m v Hm Hv. pose proof all_classified as H. unfold all_classified_b in H.
  rewrite forallb_forall in H. specialize (H m Hm). rewrite forallb_forall in H. specialize (H v Hv).
  apply memb_In in H. apply in_app_or in H. exact H.
Qed.

(* ---------- reads never wait for writers ---------- *)

Definition WriterBlocking (l : leafk) : Prop :=
  l = Acquire lock_Router_mu \/ l = ChanOp \/ l = Select \/ l = CondWait \/ l = WaitGroupWait \/
  l = Sleep \/ l = SpinLoad.

Lemma writer_blocking_spec : forall l, WriterBlocking l -> writer_blocking l = true.
Proof.
  intros l [H|[H|[H|[H|[H|[H|H]]]]]]; subst l; cbn [writer_blocking]; reflexivity.
Qed.

(* the computation, in the form of the design: one reachability run per entry point *)
Lemma reads_check : forallb (fun e => negb (reaches writer_blocking graph [e])) read_entries = true.
Proof. vm_compute. reflexivity. Qed.

Theorem reads_never_take_writer_lock : forall e, In e read_entries -> ~ CanBlockOn graph WriterBlocking e.
Proof.
  intros e He Hb. pose proof reads_check as H. rewrite forallb_forall in H. specialize (H e He).
  apply negb_true_iff in H.
  apply (reaches_false_sound writer_blocking graph [e] H e (or_introl eq_refl)).
  destruct Hb as [s [l [Hr [Hl Hp]]]]. exists s, l. split; [exact Hr|]. split; [exact Hl|].
  apply writer_blocking_spec. exact Hp.
Qed.

(* ---------- lock sets ---------- *)

Definition AcquirableFrom (es : list state) (k : N) : Prop :=
  exists e, In e es /\ CanBlockOn graph (fun l => l = Acquire k) e.

Lemma write_locks_check : locks_from graph write_entries = Some [lock_Router_mu].
Proof. vm_compute. reflexivity. Qed.

Theorem write_lock_set : forall k, AcquirableFrom write_entries k <-> k = lock_Router_mu.
Proof.
  intro k. unfold AcquirableFrom. rewrite <- (locks_from_spec graph write_entries _ write_locks_check k).
  cbn [In]. split; [intros [H|[]]; symmetry; exact H | intro H; left; symmetry; exact H].
Qed.

(* general form, computed from both sets (does not depend on what the two sets are) *)
Lemma lock_sets_disjoint_check :
  match locks_from graph write_entries, locks_from graph read_entries with
  | Some W, Some R => forallb (fun k => negb (memN k R)) W
  | _, _ => false
  end = true.
Proof. vm_compute. reflexivity. Qed.

Theorem lock_sets_disjoint : forall k, ~ (AcquirableFrom write_entries k /\ AcquirableFrom read_entries k).
Proof.
  intros k [Hw Hr]. pose proof lock_sets_disjoint_check as H.
  destruct (locks_from graph write_entries) as [W|] eqn:EW; [|discriminate H].
  destruct (locks_from graph read_entries) as [R|] eqn:ER; [|discriminate H].
  rewrite forallb_forall in H.
  apply (locks_from_spec graph write_entries W EW k) in Hw.
  apply (locks_from_spec graph read_entries R ER k) in Hr.
  specialize (H k Hw). apply negb_true_iff in H. apply memN_In in Hr. rewrite Hr in H. discriminate H.
Qed.

(* non-vacuity: the graph does see the writer lock — every entry point that opens a write
   transaction reaches its acquisition *)
Lemma writers_check : forallb (fun e => reaches is_router_mu graph [e]) locking_write_entries = true.
Proof. vm_compute. reflexivity. Qed.

Theorem writers_take_writer_lock : forall e, In e locking_write_entries ->
  CanBlockOn graph (fun l => l = Acquire lock_Router_mu) e.
Proof.
  intros e He. pose proof writers_check as H. rewrite forallb_forall in H. specialize (H e He).
  apply reaches_true_complete in H. destruct H as [e' [[He'|[]] [s [l [Hr [Hl Hp]]]]]]. subst e'.
  exists s, l. split; [exact Hr|]. split; [exact Hl|].
  destruct l; cbn [is_router_mu] in Hp; try discriminate Hp. apply N.eqb_eq in Hp. subst. reflexivity.
Qed.

(* the guards matter: with the `write` argument unknown Txn may lock, with write=false it cannot *)
Example guard_is_needed :
  reaches is_router_mu graph [(f_Router_Txn, [None])] = true /\
  reaches is_router_mu graph [(f_Router_Txn, [Some false])] = false /\
  reaches is_router_mu graph [(f_Router_Txn, [Some true])] = true.
Proof. vm_compute. repeat split; reflexivity. Qed.

(* ---------- the shared-state skeleton is the pinned one ---------- *)

Lemma skeleton_check : sync_inventory_b = true /\ shared_b = true /\ shapes_b = true /\ flag_sites_b = true.
Proof. vm_compute. repeat split; reflexivity. Qed.

Lemma written_by_writers_eq : fields_from f_writes graph write_entries = Some written_by_writers.
Proof. vm_compute. reflexivity. Qed.

Lemma read_by_readers_eq : fields_from f_reads graph read_entries = Some read_by_readers.
Proof. vm_compute. reflexivity. Qed.

Definition Touches (sel : fn -> list N) (es : list state) (k : N) : Prop :=
  exists e s f, In e es /\ Reachable graph e s /\ lookup graph (fst s) = Some f /\ In k (sel f).

Lemma strs_eqb_eq : forall a b, strs_eqb a b = true -> a = b.
Proof.
  induction a as [|x a IH]; destruct b as [|y b]; cbn [strs_eqb]; intro H; try discriminate H; [reflexivity|].
  apply andb_true_iff in H. destruct H as [H1 H2]. apply String.eqb_eq in H1. subst. f_equal. apply IH. exact H2.
Qed.

Lemma shared_pinned_check : shared_pinned_b = true.
Proof. vm_compute. reflexivity. Qed.

(* a field / package variable that a function reachable from a write entry writes and a function
   reachable from a read entry reads is one of the pinned ones *)
Theorem shared_state_is_pinned : forall k,
  Touches f_writes write_entries k -> Touches f_reads read_entries k -> In (fname k) expected_shared.
Proof.
  intros k Hw Hr.
  apply (fields_from_spec f_writes graph write_entries _ written_by_writers_eq k) in Hw.
  apply (fields_from_spec f_reads graph read_entries _ read_by_readers_eq k) in Hr.
  pose proof shared_pinned_check as H. unfold shared_pinned_b in H.
  rewrite forallb_forall in H. specialize (H k Hw).
  apply memN_In in Hr. rewrite Hr in H. cbn [negb orb] in H.
  unfold mem_str in H. apply existsb_exists in H. destruct H as [x [Hx He]].
  apply String.eqb_eq in He. rewrite He. exact Hx.
Qed.

(* ---------- lock discipline: who touches Router.mu ---------- *)

Lemma lock_discipline_check : lock_discipline_b = true.
Proof. vm_compute. reflexivity. Qed.

Lemma disc_from_nth : forall g i n f,
  disc_from i g = true -> nth_error g n = Some f -> site_ok (i + N.of_nat n) f = true.
Proof.
  induction g as [|x g IH]; intros i n f H E.
  - destruct n; discriminate E.
  - cbn [disc_from] in H. apply andb_true_iff in H. destruct H as [H1 H2]. destruct n as [|n].
    + cbn in E. injection E as E. subst x. rewrite N.add_0_r. exact H1.
    + cbn [nth_error] in E. specialize (IH (N.succ i) n f H2 E).
      replace (i + N.of_nat (S n))%N with (N.succ i + N.of_nat n)%N by lia. exact IH.
Qed.

Lemma has_lit_guard : forall ks gd, guard_ok ks gd = true -> has_lit gd 0 true = true -> nth 0 ks None <> Some false.
Proof.
  intros ks gd Hg Hl. unfold has_lit in Hl. apply existsb_exists in Hl. destruct Hl as [[i b] [Hin Hib]].
  cbn [fst snd] in Hib. apply andb_true_iff in Hib. destruct Hib as [Hi Hb].
  apply Nat.eqb_eq in Hi. apply Bool.eqb_prop in Hb. subst i b.
  unfold guard_ok in Hg. rewrite forallb_forall in Hg. specialize (Hg _ Hin). unfold lit_ok in Hg. cbn [fst snd] in Hg.
  intro E. rewrite E in Hg. discriminate Hg.
Qed.

(* Router.mu is acquired only by txnWith when its `write` argument is not false, and released only by
   Txn.Commit / Txn.Abort of a transaction whose `write` field is not false *)
Theorem writer_lock_discipline : forall s l, In l (leaves_at graph s) ->
  (l = Acquire lock_Router_mu -> fst s = f_Router_txnWith /\ nth 0 (snd s) None <> Some false) /\
  (l = Release lock_Router_mu -> (fst s = f_Txn_Commit \/ fst s = f_Txn_Abort) /\ nth 0 (snd s) None <> Some false).
Proof.
  intros [fid ks] l Hl. unfold leaves_at in Hl. cbn [fst snd] in *.
  destruct (lookup graph fid) as [f|] eqn:El; [|destruct Hl].
  apply in_map_iff in Hl. destruct Hl as [site [Hs Hin]]. apply filter_In in Hin. destruct Hin as [Hin Hg].
  pose proof lock_discipline_check as H. unfold lock_discipline_b in H. apply andb_true_iff in H. destruct H as [H _].
  unfold lookup in El. pose proof (disc_from_nth graph 0%N (N.to_nat fid) f H El) as Hok.
  rewrite N.add_0_l, N2Nat.id in Hok. unfold site_ok in Hok. rewrite forallb_forall in Hok. specialize (Hok site Hin).
  rewrite Hs in Hok. split; intro E; rewrite E in Hok; cbv beta iota in Hok.
  - rewrite N.eqb_refl in Hok. cbn [negb orb] in Hok. apply andb_true_iff in Hok. destruct Hok as [Hf Hlit].
    apply N.eqb_eq in Hf. split; [exact Hf | exact (has_lit_guard ks _ Hg Hlit)].
  - rewrite N.eqb_refl in Hok. cbn [negb orb] in Hok. apply andb_true_iff in Hok. destruct Hok as [Hf Hlit].
    apply orb_true_iff in Hf. split; [|exact (has_lit_guard ks _ Hg Hlit)].
    destruct Hf as [Hf|Hf]; apply N.eqb_eq in Hf; [left|right]; exact Hf.
Qed.

(* ---------- non-vacuity of reach_sound_complete: a small graph with a guarded lock ---------- *)

Definition tiny : Graph.graph :=
  [ mkfn 1 [mkedge [] 1%N [AParam 0; AConst true]] [] [] [];                 (* 0: Txn(write) -> txnWith(write, true) *)
    mkfn 2 [mkedge [(1, true)] 2%N []; mkedge [(0, false)] 3%N []]
           [mkleaf [(0, true)] (Acquire 7%N)] [] [];                        (* 1: txnWith: if write { Lock } *)
    mkfn 0 [mkedge [] 0%N [AUnk]] [mkleaf [] ChanOp] [] [];                   (* 2: calls Txn(?) again; chan op *)
    mkfn 0 [] [] [] [] ].                                                     (* 3 *)

Example tiny_reach :
  reach tiny [(0%N, [Some false])]
  = Some [(3%N, []); (1%N, [None; Some true]); (0%N, [None]); (2%N, []);
          (1%N, [Some false; Some true]); (0%N, [Some false])]
  /\ reaches (fun l => match l with Acquire _ => true | _ => false end) tiny [(3%N, [])] = false
  /\ reaches (fun l => match l with Acquire _ => true | _ => false end) tiny [(0%N, [Some false])] = true.
Proof. vm_compute. repeat split; reflexivity. Qed.
