(* C06 — the executable reachability `reach` is correct for ANY graph:
   it never runs out of fuel and returns exactly the set of states reachable from the
   entries (soundness + completeness w.r.t. the inductive relation Reachable). *)
From Coq Require Import List Bool Arith NArith Lia.
From FoxC06 Require Import Graph.
Import ListNotations.

(* ---------- boolean equality ---------- *)

Lemma known_eqb_eq : forall a b, known_eqb a b = true <-> a = b.
Proof.
  induction a as [|x a IH]; destruct b as [|y b]; cbn [known_eqb].
  - split; reflexivity.
  - split; intro H; discriminate H.
  - destruct x; split; intro H; discriminate H.
  - destruct x as [x|], y as [y|].
    + rewrite andb_true_iff, IH, Bool.eqb_true_iff. split.
      * intros [H1 H2]. subst. reflexivity.
      * intro H. injection H as H1 H2. split; assumption.
    + split; intro H; discriminate H.
    + split; intro H; discriminate H.
    + rewrite IH. split.
      * intro H. subst. reflexivity.
      * intro H. injection H as H. assumption.
Qed.

Lemma state_eqb_eq : forall a b, state_eqb a b = true <-> a = b.
Proof.
  intros [f k] [f' k']. unfold state_eqb. cbn [fst snd].
  rewrite andb_true_iff, N.eqb_eq, known_eqb_eq. split.
  - intros [H1 H2]. subst. reflexivity.
  - intro H. injection H as H1 H2. split; assumption.
Qed.

Lemma memb_In : forall s l, memb s l = true <-> In s l.
Proof.
  induction l as [|x l IH]; cbn [memb In].
  - split; [discriminate | tauto].
  - rewrite orb_true_iff, state_eqb_eq, IH. split; intros [H|H]; auto.
Qed.

Lemma memb_false : forall s l, memb s l = false <-> ~ In s l.
Proof.
  intros s l. rewrite <- memb_In. destruct (memb s l) eqn:E.
  - split; intro H; [discriminate H | exfalso; apply H; reflexivity].
  - split; intro H; [intro H'; discriminate H' | reflexivity].
Qed.

Lemma dedup_In : forall s l, In s (dedup l) <-> In s l.
Proof.
  induction l as [|x l IH]; cbn [dedup]; [tauto|].
  destruct (memb x l) eqn:Hm.
  - rewrite IH. cbn [In]. split; [auto|]. intros [H|H]; [subst; apply memb_In; exact Hm | exact H].
  - cbn [In]. rewrite IH. tauto.
Qed.

Lemma dedup_NoDup : forall l, NoDup (dedup l).
Proof.
  induction l as [|x l IH]; cbn [dedup]; [constructor|].
  destruct (memb x l) eqn:Hm; [exact IH|].
  constructor; [|exact IH]. rewrite dedup_In. apply memb_false. exact Hm.
Qed.

(* ---------- NoDup of an append ---------- *)

Lemma NoDup_app_intro {A} (a b : list A) :
  NoDup a -> NoDup b -> (forall x, In x a -> ~ In x b) -> NoDup (a ++ b).
Proof.
  induction a as [|x a IH]; intros Ha Hb Hd; cbn [app]; [exact Hb|].
  inversion Ha as [|? ? Hx Ha']; subst. constructor.
  - rewrite in_app_iff. intros [H|H]; [exact (Hx H)|]. exact (Hd x (or_introl eq_refl) H).
  - apply IH; [exact Ha' | exact Hb |]. intros y Hy. apply Hd. right. exact Hy.
Qed.

Lemma NoDup_filter {A} (p : A -> bool) (l : list A) : NoDup l -> NoDup (filter p l).
Proof.
  induction l as [|x l IH]; intro H; cbn [filter]; [constructor|].
  inversion H as [|? ? Hx Hl]; subst.
  destruct (p x); [|exact (IH Hl)].
  constructor; [|exact (IH Hl)]. rewrite filter_In. intros [Hin _]. exact (Hx Hin).
Qed.

(* ---------- the universe contains every successor ---------- *)

Lemma all_known_complete : forall k : known, In k (all_known (length k)).
Proof.
  induction k as [|x k IH]; cbn [length all_known]; [left; reflexivity|].
  apply in_flat_map. exists k. split; [exact IH|].
  destruct x as [[|]|]; cbn [In]; auto.
Qed.

Lemma succs_in_universe : forall g es s s', In s' (succs g s) -> In s' (universe g es).
Proof.
  intros g es s s' H. unfold succs in H.
  destruct (lookup g (fst s)) as [f|] eqn:Hl; [|destruct H].
  apply in_map_iff in H. destruct H as [e [He Hin]]. apply filter_In in Hin. destruct Hin as [Hin _].
  unfold universe. apply in_or_app. right.
  apply in_flat_map. exists f. split; [unfold lookup in Hl; eapply nth_error_In; exact Hl|].
  apply in_flat_map. exists e. split; [exact Hin|].
  apply in_map_iff. exists (map (eval_arg (snd s)) (e_args e)). split.
  - rewrite <- He. reflexivity.
  - replace (length (e_args e)) with (length (map (eval_arg (snd s)) (e_args e))) by apply map_length.
    apply all_known_complete.
Qed.

(* ---------- the worklist invariant ---------- *)

Definition ReachableFrom (g : graph) (es : list state) (s : state) : Prop :=
  exists e, In e es /\ Reachable g e s.

Record Inv (g : graph) (es visited todo : list state) : Prop := {
  inv_nd_v : NoDup visited;
  inv_nd_t : NoDup todo;
  inv_disj : forall x, In x visited -> ~ In x todo;
  inv_univ : forall x, In x visited \/ In x todo -> In x (universe g es);
  inv_closed : forall s s', In s visited -> In s' (succs g s) -> In s' visited \/ In s' todo;
  inv_sound : forall x, In x visited \/ In x todo -> ReachableFrom g es x;
  inv_entries : forall e, In e es -> In e visited \/ In e todo
}.

Lemma inv_init : forall g es, Inv g es [] (dedup es).
Proof.
  intros g es. constructor.
  - constructor.
  - apply dedup_NoDup.
  - intros x H. destruct H.
  - intros x [H|H]; [destruct H|]. rewrite dedup_In in H. unfold universe. apply in_or_app. left. exact H.
  - intros s s' H. destruct H.
  - intros x [H|H]; [destruct H|]. rewrite dedup_In in H. exists x. split; [exact H | constructor].
  - intros e H. right. apply dedup_In. exact H.
Qed.

Definition new_of (g : graph) (s : state) (visited todo' : list state) : list state :=
  filter (fun x => negb (memb x (s :: visited)) && negb (memb x todo')) (dedup (succs g s)).

Lemma new_of_spec : forall g s visited todo' x,
  In x (new_of g s visited todo') <-> In x (succs g s) /\ ~ In x (s :: visited) /\ ~ In x todo'.
Proof.
  intros. unfold new_of. rewrite filter_In, dedup_In, andb_true_iff, !negb_true_iff, !memb_false. tauto.
Qed.

Lemma inv_step : forall g es visited s todo',
  Inv g es visited (s :: todo') -> Inv g es (s :: visited) (new_of g s visited todo' ++ todo').
Proof.
  intros g es visited s todo' I. destruct I as [Hv Ht Hd Hu Hc Hs He].
  inversion Ht as [|? ? Hst Ht']; subst.
  assert (Hsv : ~ In s visited) by (intro H; exact (Hd s H (or_introl eq_refl))).
  constructor.
  - constructor; assumption.
  - apply NoDup_app_intro; [apply NoDup_filter, dedup_NoDup | exact Ht' |].
    intros x Hx. rewrite new_of_spec in Hx. tauto.
  - intros x [Hx|Hx] Hin; apply in_app_or in Hin; destruct Hin as [Hin|Hin].
    + subst x. rewrite new_of_spec in Hin. apply (proj1 (proj2 Hin)). left. reflexivity.
    + subst x. exact (Hst Hin).
    + rewrite new_of_spec in Hin. apply (proj1 (proj2 Hin)). right. exact Hx.
    + exact (Hd x Hx (or_intror Hin)).
  - intros x [[Hx|Hx]|Hx].
    + subst x. apply Hu. right. left. reflexivity.
    + apply Hu. left. exact Hx.
    + apply in_app_or in Hx. destruct Hx as [Hx|Hx].
      * rewrite new_of_spec in Hx. eapply succs_in_universe. exact (proj1 Hx).
      * apply Hu. right. right. exact Hx.
  - intros a a' [Ha|Ha] Hsucc.
    + subst a.
      destruct (memb a' (s :: visited)) eqn:M1.
      * left. apply memb_In. exact M1.
      * destruct (memb a' todo') eqn:M2.
        -- right. apply in_or_app. right. apply memb_In. exact M2.
        -- right. apply in_or_app. left. apply new_of_spec.
           apply memb_false in M1. apply memb_false in M2. tauto.
    + destruct (Hc a a' Ha Hsucc) as [H|[H|H]].
      * left. right. exact H.
      * subst a'. left. left. reflexivity.
      * right. apply in_or_app. right. exact H.
  - intros x [[Hx|Hx]|Hx].
    + subst x. apply Hs. right. left. reflexivity.
    + apply Hs. left. exact Hx.
    + apply in_app_or in Hx. destruct Hx as [Hx|Hx].
      * rewrite new_of_spec in Hx. destruct Hx as [Hx _].
        destruct (Hs s (or_intror (or_introl eq_refl))) as [e [Hin Hr]].
        exists e. split; [exact Hin|]. eapply R_step; [exact Hr | exact Hx].
      * apply Hs. right. right. exact Hx.
  - intros e Hin. destruct (He e Hin) as [H|[H|H]].
    + left. right. exact H.
    + subst e. left. left. reflexivity.
    + right. apply in_or_app. right. exact H.
Qed.

Lemma inv_length : forall g es visited todo,
  Inv g es visited todo -> length visited + length todo <= length (universe g es).
Proof.
  intros g es visited todo I. rewrite <- app_length.
  apply NoDup_incl_length.
  - apply NoDup_app_intro; [apply (inv_nd_v _ _ _ _ I) | apply (inv_nd_t _ _ _ _ I) | apply (inv_disj _ _ _ _ I)].
  - intros x Hx. apply in_app_or in Hx. apply (inv_univ _ _ _ _ I). exact Hx.
Qed.

Lemma inv_final : forall g es visited,
  Inv g es visited [] -> forall s, In s visited <-> ReachableFrom g es s.
Proof.
  intros g es visited I s. split.
  - intro H. apply (inv_sound _ _ _ _ I). left. exact H.
  - intros [e [Hin Hr]]. induction Hr as [|a a' Hr IH Hsucc].
    + destruct (inv_entries _ _ _ _ I e Hin) as [H|H]; [exact H | destruct H].
    + destruct (inv_closed _ _ _ _ I a a' IH Hsucc) as [H|H]; [exact H | destruct H].
Qed.

Lemma reach_aux_spec : forall g es fuel visited todo,
  Inv g es visited todo ->
  length (universe g es) <= fuel + length visited ->
  exists V, reach_aux fuel g visited todo = Some V /\ forall s, In s V <-> ReachableFrom g es s.
Proof.
  intros g es fuel. induction fuel as [|fuel IH]; intros visited todo I Hf.
  - destruct todo as [|s todo'].
    + exists visited. split; [reflexivity | apply inv_final; exact I].
    + pose proof (inv_length _ _ _ _ I) as Hl. cbn [length] in Hl. lia.
  - destruct todo as [|s todo'].
    + exists visited. split; [reflexivity | apply inv_final; exact I].
    + cbn [reach_aux]. fold (new_of g s visited todo').
      apply IH; [apply inv_step; exact I | cbn [length]; lia].
Qed.

(* ---------- the theorems ---------- *)

Theorem reach_sound_complete_multi : forall g es,
  exists V, reach g es = Some V /\ forall s, In s V <-> exists e, In e es /\ Reachable g e s.
Proof.
  intros g es. unfold reach. apply reach_aux_spec; [apply inv_init | cbn [length]; lia].
Qed.

Theorem reach_total : forall g es, reach g es <> None.
Proof.
  intros g es. destruct (reach_sound_complete_multi g es) as [V [H _]]. rewrite H. discriminate.
Qed.

(* lifting: a computed `reaches p g es = false` says that no entry can block on p *)
Theorem reaches_false_sound : forall p g es,
  reaches p g es = false ->
  forall e, In e es -> ~ CanBlockOn g (fun l => p l = true) e.
Proof.
  intros p g es H e He [s [l [Hr [Hl Hp]]]].
  unfold reaches in H. destruct (reach_sound_complete_multi g es) as [V [HV Hspec]].
  rewrite HV in H.
  assert (Hin : In s V) by (apply Hspec; exists e; split; assumption).
  assert (Ht : existsb (fun s => existsb p (leaves_at g s)) V = true).
  { apply existsb_exists. exists s. split; [exact Hin|]. apply existsb_exists. exists l. split; assumption. }
  rewrite Ht in H. discriminate H.
Qed.

Theorem reaches_true_complete : forall p g es,
  reaches p g es = true -> exists e, In e es /\ CanBlockOn g (fun l => p l = true) e.
Proof.
  intros p g es H. unfold reaches in H. destruct (reach_sound_complete_multi g es) as [V [HV Hspec]].
  rewrite HV in H. apply existsb_exists in H. destruct H as [s [Hin Hl]].
  apply existsb_exists in Hl. destruct Hl as [l [Hl Hp]].
  apply Hspec in Hin. destruct Hin as [e [He Hr]].
  exists e. split; [exact He|]. exists s, l. tauto.
Qed.

Lemma memN_In : forall x l, memN x l = true <-> In x l.
Proof.
  induction l as [|y l IH]; cbn [memN In]; [split; [discriminate|tauto]|].
  rewrite orb_true_iff, N.eqb_eq, IH. split; intros [H|H]; auto.
Qed.

Lemma dedupN_In : forall x l, In x (dedupN l) <-> In x l.
Proof.
  induction l as [|y l IH]; cbn [dedupN]; [tauto|].
  destruct (memN y l) eqn:Hm.
  - rewrite IH. cbn [In]. split; [auto|]. intros [H|H]; [subst; apply memN_In; exact Hm | exact H].
  - cbn [In]. rewrite IH. tauto.
Qed.

(* the computed lock set is exactly the set of lock objects acquirable from the entries *)
Theorem locks_from_spec : forall g es L,
  locks_from g es = Some L ->
  forall k, In k L <-> exists e, In e es /\ CanBlockOn g (fun l => l = Acquire k) e.
Proof.
  intros g es L H k. unfold locks_from in H.
  destruct (reach_sound_complete_multi g es) as [V [HV Hspec]]. rewrite HV in H.
  injection H as H. subst L. rewrite dedupN_In, in_flat_map. split.
  - intros [s [Hin Hk]]. apply in_flat_map in Hk. destruct Hk as [l [Hl Hk]].
    apply Hspec in Hin. destruct Hin as [e [He Hr]].
    exists e. split; [exact He|]. exists s, l. split; [exact Hr|]. split; [exact Hl|].
    destruct l; cbn [lock_of In] in Hk; try tauto. destruct Hk as [Hk|[]]. subst. reflexivity.
  - intros [e [He [s [l [Hr [Hl Hk]]]]]]. subst l.
    exists s. split; [apply Hspec; exists e; split; assumption|].
    apply in_flat_map. exists (Acquire k). split; [exact Hl | left; reflexivity].
Qed.

(* the computed field set is exactly the set of fields touched by some reachable function *)
Theorem fields_from_spec : forall sel g es L,
  fields_from sel g es = Some L ->
  forall k, In k L <-> exists e s f, In e es /\ Reachable g e s /\ lookup g (fst s) = Some f /\ In k (sel f).
Proof.
  intros sel g es L H k. unfold fields_from in H.
  destruct (reach_sound_complete_multi g es) as [V [HV Hspec]]. rewrite HV in H.
  injection H as H. subst L. rewrite dedupN_In, in_flat_map. split.
  - intros [s [Hin Hk]]. apply Hspec in Hin. destruct Hin as [e [He Hr]].
    destruct (lookup g (fst s)) as [f|] eqn:El; [|destruct Hk].
    exists e, s, f. repeat split; assumption.
  - intros [e [s [f [He [Hr [El Hk]]]]]]. exists s. split; [apply Hspec; exists e; split; assumption|].
    rewrite El. exact Hk.
Qed.
