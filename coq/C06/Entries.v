(* C06 — the entry points of the router, classified BY HAND into read and write entry points.
   The generator emits `exported_methods` (every exported method of Router, Txn, Iter, Route and
   of cTx, the implementation of Context) from the source; `all_classified` (GraphProofs) checks
   that each of them, under every value of its boolean slots, is covered by one of the two lists,
   so a NEW exported method breaks the obligation until somebody classifies it here.
   A removed / renamed method breaks this file (unknown constant).  No proofs here. *)
From Coq Require Import List Bool NArith String.
From FoxC06 Require Import Graph GenCallGraph.
Import ListNotations.

Definition entry := state.

Definition plain (l : list N) : list entry := map (fun f => (f, [])) l.
Definition txn_methods : list N :=
  [f_Txn_Handle; f_Txn_HandleRoute; f_Txn_Update; f_Txn_UpdateRoute; f_Txn_Delete; f_Txn_Truncate;
   f_Txn_Has; f_Txn_Route; f_Txn_Reverse; f_Txn_Lookup; f_Txn_Iter; f_Txn_Len;
   f_Txn_Commit; f_Txn_Abort; f_Txn_Snapshot].

(* read entry points: must never wait for a writer *)
Definition read_methods : list entry :=
  plain [ f_Router_ServeHTTP; f_Router_Lookup; f_Router_Reverse; f_Router_Has; f_Router_Route;
          f_Router_Len; f_Router_Iter; f_Router_View; f_Router_NewRoute; f_Router_HandleNoRoute;
          f_Router_Stats ]
  ++ [ (f_Router_Txn, [Some false]) ]                                  (* Txn(false) *)
  ++ map (fun f => (f, [Some false])) txn_methods                      (* methods of a read-only Txn *)
  ++ plain [ f_Iter_Methods; f_Iter_Routes; f_Iter_Reverse; f_Iter_Prefix; f_Iter_All ]
  ++ plain [ f_Route_Handle; f_Route_HandleMiddleware; f_Route_Pattern; f_Route_Hostname; f_Route_Path;
             f_Route_Annotation; f_Route_RedirectTrailingSlashEnabled; f_Route_IgnoreTrailingSlashEnabled;
             f_Route_ClientIPResolver; f_Route_ParamsLen ]
  ++ plain [ f_cTx_Request; f_cTx_SetRequest; f_cTx_Writer; f_cTx_SetWriter; f_cTx_RemoteIP; f_cTx_ClientIP;
             f_cTx_Params; f_cTx_Param; f_cTx_Method; f_cTx_Path; f_cTx_Host; f_cTx_QueryParams;
             f_cTx_QueryParam; f_cTx_SetHeader; f_cTx_AddHeader; f_cTx_Header; f_cTx_Pattern; f_cTx_Route;
             f_cTx_String; f_cTx_Blob; f_cTx_Stream; f_cTx_Redirect; f_cTx_Fox; f_cTx_Clone; f_cTx_CloneWith;
             f_cTx_Scope; f_cTx_Close ].

(* write entry points that open a write transaction themselves: they take Router.mu *)
Definition locking_write_methods : list entry :=
  plain [ f_Router_Handle; f_Router_MustHandle; f_Router_HandleRoute; f_Router_Update;
          f_Router_UpdateRoute; f_Router_Delete; f_Router_Updates ]
  ++ [ (f_Router_Txn, [Some true]) ].                                  (* Txn(true) *)

Definition write_methods : list entry :=
  locking_write_methods ++ map (fun f => (f, [Some true])) txn_methods. (* methods of a write Txn *)

(* the function values an entry point hands back to its caller (iter.Seq...) are run by the caller:
   the generator gives each a synthetic node "<method>$result" *)
Definition with_results (e : entry) : list entry :=
  e :: map (fun r => (snd r, [])) (filter (fun r => N.eqb (fst r) (fst e)) result_nodes).

Definition read_entries : list entry := flat_map with_results read_methods.
Definition write_entries : list entry := flat_map with_results write_methods.
Definition locking_write_entries : list entry := locking_write_methods.

(* ---- checks of the classification against the generated tables (evaluated in GraphProofs) ---- *)

Definition nslots (f : N) : nat := match lookup graph f with Some fn => f_nslots fn | None => 0 end.

Fixpoint bool_vectors (n : nat) : list known :=
  match n with
  | 0 => [[]]
  | S n' => flat_map (fun k => [Some true :: k; Some false :: k]) (bool_vectors n')
  end.

(* every exported method, under every value of its slots, is a listed read or write entry *)
Definition all_classified_b : bool :=
  forallb (fun m => forallb (fun v => memb (m, v) (read_methods ++ write_methods)) (bool_vectors (nslots m)))
          exported_methods.

(* nothing is both a read and a write entry *)
Definition classes_disjoint_b : bool := forallb (fun e => negb (memb e write_entries)) read_entries.

(* every entry mentions an existing function with the right number of slots *)
Definition entries_wf_b : bool :=
  forallb (fun e => match lookup graph (fst e) with
                    | Some fn => Nat.eqb (f_nslots fn) (List.length (snd e))
                    | None => false end) (read_entries ++ write_entries).

(* the slots mean what this file assumes *)
Definition slots_of (f : N) : list string :=
  match find (fun p => N.eqb (fst p) f) slot_names with Some p => snd p | None => [] end.

Fixpoint strs_eqb (a b : list string) : bool :=
  match a, b with
  | [], [] => true
  | x :: a', y :: b' => String.eqb x y && strs_eqb a' b'
  | _, _ => false
  end.

Definition slot_meaning_b : bool :=
  strs_eqb (slots_of f_Router_Txn) ["write"%string]
  && forallb (fun f => strs_eqb (slots_of f) ["recv.write"%string]) txn_methods.

(* the generated graph is well formed: callees exist, argument vectors have the callee's arity,
   guards and pass-through arguments mention existing slots *)
Definition graph_wf_b : bool :=
  forallb (fun fn =>
    forallb (fun e =>
      match lookup graph (e_callee e) with
      | Some c => Nat.eqb (f_nslots c) (List.length (e_args e))
      | None => false end
      && forallb (fun l => Nat.ltb (fst l) (f_nslots fn)) (e_guard e)
      && forallb (fun a => match a with AParam i => Nat.ltb i (f_nslots fn) | _ => true end) (e_args e))
      (f_edges fn)
    && forallb (fun l => forallb (fun t => Nat.ltb (fst t) (f_nslots fn)) (l_guard l)) (f_leaves fn))
  graph.

(* what a reader must never reach: the writer lock, or an operation that waits for another goroutine *)
Definition writer_blocking (l : leafk) : bool :=
  match l with
  | Acquire k => N.eqb k lock_Router_mu
  | Release _ => false
  | ChanOp | Select | CondWait | WaitGroupWait | Sleep | SpinLoad => true
  end.

Definition is_router_mu (l : leafk) : bool :=
  match l with Acquire k => N.eqb k lock_Router_mu | _ => false end.
