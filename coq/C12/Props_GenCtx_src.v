(* C12, tie A — the context life-cycle methods of context.go, REGENERATED from the
   source tree under test on every run (GenCtx.v, harness/cmd/ctxgen), equal the
   hand-written model (Context.v) for all arguments; hence the clauses of C12
   (Props_C12.v) hold of the model in which those methods ARE the generated ones.
   Statements only; proofs in SrcCtx.v.  Second half of the tie-A statements (the bridge
   equalities are in Props_GenCtx.v; two files so that they are re-checked in parallel).

   gen_X            : the Go function X of context.go / response_writer.go, statement by statement
   serve_src etc.   : serve / lookup_api / step / exec / session of the model with
                      reset, resetWithWriter, resetNil, CloneWith replaced by gen_* (SrcCtx.v)

   Each equality fixes exactly which fields a method assigns: a field the Go text
   stops (or starts) assigning makes the two sides differ on a stale object. *)
From FoxBase Require Import Bytes.
From FoxC12 Require Import Types Context CtxSem GenCtx Ops Spec Corr ProofsBasic ProofsView ProofsNI ProofsParam
  ProofsNext ProofsStable ProofsClone Witness BridgeCtx SrcCtx.
From Coq Require Import ZArith List.
Open Scope list_scope.

(* ================= C12's clauses as facts about the generated methods ================= *)

(* reset: every ServeHTTP branch entered through the generated reset shows the current request ... *)
Theorem serve_shows_current_request_src :
  forall H c w r l f, pool_ok H c -> lk_wf l ->
  exists H', serve_src H c w r l f = Ok (H', branch_of l f) /\
             observe H' c = Ok (expected (serve_env H c w r) (shape_of (branch_of l f) l f)) /\
             pool_ok H' c.
Proof. exact serve_src_correct. Qed.
Print Assumptions serve_shows_current_request_src.

(* ... the state it and the matcher leave in the pooled object, whatever it held ... *)
Theorem gen_reset_entry_state_src :
  forall H c w r l, pool_ok H c ->
  exists H2 sp st,
    (do H1 <- gen_reset H c w r; lookup_effect H1 c l) = Ok H2 /\
    ctxs H2 c = entered_ctx (ctxs H c) r sp st (lk_skip l) /\
    slice_read H2 sp = lk_params l /\
    recs H2 = upd (recs H) (c_rec (ctxs H c)) (rec_reset w).
Proof. exact gen_reset_entry_state. Qed.
Print Assumptions gen_reset_entry_state_src.

(* ... reset + resetWithWriter: NON-INTERFERENCE over all stale states, for sessions
   that enter through the generated reset (ServeHTTP) or resetWithWriter (Lookup) *)
Theorem ctx_noninterference_src :
  forall (H1 H2 : heap) (c1 c2 w1 w2 r1 r2 : addr) (e : entry) (acts : list act),
    pool_ok H1 c1 -> pool_ok H2 c2 ->
    c_fox (ctxs H1 c1) = c_fox (ctxs H2 c2) ->
    lk_wf (entry_lk e) -> Forall act_ok acts ->
    same_request e H1 w1 r1 H2 w2 r2 ->
    session_src H1 c1 w1 r1 e acts = session_src H2 c2 w2 r2 e acts.
Proof. exact noninterference_src. Qed.
Print Assumptions ctx_noninterference_src.

(* resetWithWriter: Router.Lookup / Txn.Lookup *)
Theorem lookup_shows_current_request_src :
  forall H c w r l wv, pool_ok H c -> lk_wf l -> ext_live H w -> writer_view H w = Ok wv ->
  exists H', lookup_api_src H c w r l = Ok (H', match lk_route l with Some _ => true | None => false end) /\
             (lk_route l <> None ->
              observe H' c = Ok (expected (mkEnv (reqs H r) wv (c_fox (ctxs H c)))
                                          (ShLookup (lk_rid l) (if lk_tsr l then lk_tsr_params l else lk_params l))) /\
              pool_ok H' c).
Proof. exact lookup_src_correct. Qed.
Print Assumptions lookup_shows_current_request_src.

(* resetNil (and every generated entry point): CLONE_STABLE over later histories
   whose ServeHTTP / Lookup / resetNil / CloneWith steps run the generated methods *)
Theorem clone_stable_src_histories :
  forall (H : heap) (c : addr) (H' : heap) (cl : addr) (later : list op) (H'' : heap),
    wf_heap H ->
    clone_gen true H c = Ok (H', cl) ->
    (forall o, In o later -> forall a, In a (op_addrs o) -> ~ (next H <= a < next H + 5)%nat) ->
    exec_src true later H' = Some H'' ->
    observe H'' cl = observe H' cl /\ raw_of H'' cl = raw_of H' cl.
Proof. exact clone_stable_src. Qed.
Print Assumptions clone_stable_src_histories.

Theorem clone_survives_resetNil_src :
  forall (H : heap) (c : addr) (H' : heap) (cl : addr) (c0 : addr) (H'' : heap),
    wf_heap H ->
    clone_gen true H c = Ok (H', cl) ->
    ~ (next H <= c0 < next H + 5)%nat ->
    gen_resetNil H' c0 = Ok H'' ->
    observe H'' cl = observe H' cl /\ raw_of H'' cl = raw_of H' cl.
Proof. exact clone_survives_gen_resetNil. Qed.
Print Assumptions clone_survives_resetNil_src.

(* CloneWith *)
Theorem clone_with_shows_current_request_src :
  forall H c cp w r H' pv wv,
  observe H c = Ok pv -> pool_ok H cp -> sep H c cp ->
  c_fox (ctxs H cp) = c_fox (ctxs H c) -> writer_view H w = Ok wv ->
  gen_CloneWith H c cp w r = Ok H' ->
  observe H' cp = Ok (expected_clone_with pv (reqs H r) wv) /\ observe H' c = Ok pv.
Proof. exact gen_CloneWith_correct. Qed.
Print Assumptions clone_with_shows_current_request_src.

Theorem ctx_noninterference_clonewith_src :
  forall (H1 H2 : heap) (c1 c2 cp1 cp2 w1 w2 r1 r2 : addr) (pv : view) (wv : wview) (acts : list act),
    observe H1 c1 = Ok pv -> observe H2 c2 = Ok pv ->
    pool_ok H1 cp1 -> pool_ok H2 cp2 -> sep H1 c1 cp1 -> sep H2 c2 cp2 ->
    c_fox (ctxs H1 cp1) = c_fox (ctxs H1 c1) -> c_fox (ctxs H2 cp2) = c_fox (ctxs H2 c2) ->
    c_tree (ctxs H1 c1) <> None -> c_tree (ctxs H2 c2) <> None ->
    ext_live H1 w1 -> ext_live H2 w2 -> writer_view H1 w1 = Ok wv -> writer_view H2 w2 = Ok wv ->
    reqs H1 r1 = reqs H2 r2 -> Forall act_ok acts ->
    clone_with_session_src H1 c1 cp1 w1 r1 acts = clone_with_session_src H2 c2 cp2 w2 r2 acts.
Proof. exact noninterference_clonewith_src. Qed.
Print Assumptions ctx_noninterference_clonewith_src.

(* CloneWith linked with the generated copyWithResize, on well-formed slices *)
Theorem clone_with_linked_shows_current_request_src :
  forall H c cp w r pv wv,
  observe H c = Ok pv -> pool_ok H cp -> sep H c cp ->
  c_fox (ctxs H cp) = c_fox (ctxs H c) -> writer_view H w = Ok wv ->
  c_tree (ctxs H c) <> None -> ext_live H w -> clone_with_slices_wf H c cp ->
  exists H', gen_CloneWith_linked H c cp w r = Ok H' /\
             observe H' cp = Ok (expected_clone_with pv (reqs H r) wv) /\ observe H' c = Ok pv.
Proof. exact gen_CloneWith_linked_correct. Qed.
Print Assumptions clone_with_linked_shows_current_request_src.

(* Param / Params *)
Theorem param_agrees_with_view_src :
  forall H c v name, observe H c = Ok v -> gen_Param H c name = Ok (expected_param v name).
Proof. exact gen_Param_of_observe. Qed.
Print Assumptions param_agrees_with_view_src.

Theorem serve_param_current_request_src :
  forall H c w r l f name, pool_ok H c -> lk_wf l ->
  exists H', serve_src H c w r l f = Ok (H', branch_of l f) /\
             gen_Param H' c name =
             Ok (expected_param (expected (serve_env H c w r) (shape_of (branch_of l f) l f)) name).
Proof. exact serve_src_param. Qed.
Print Assumptions serve_param_current_request_src.

Theorem clone_with_param_current_request_src :
  forall H c cp w r H' pv wv name,
  observe H c = Ok pv -> pool_ok H cp -> sep H c cp ->
  c_fox (ctxs H cp) = c_fox (ctxs H c) -> writer_view H w = Ok wv ->
  gen_CloneWith H c cp w r = Ok H' ->
  gen_Param H' cp name = Ok (expected_param pv name).
Proof. exact gen_CloneWith_param. Qed.
Print Assumptions clone_with_param_current_request_src.

Theorem params_agree_with_view_src :
  forall H c v yield, observe H c = Ok v -> gen_Params H c yield = Ok (fst (yielded yield (v_params v))).
Proof. exact gen_Params_of_observe. Qed.
Print Assumptions params_agree_with_view_src.

Theorem params_all_agree_with_view_src :
  forall H c v, observe H c = Ok v -> gen_Params H c (fun _ => true) = Ok (v_params v).
Proof. exact gen_Params_all_of_observe. Qed.
Print Assumptions params_all_agree_with_view_src.

(* copyWithResize: the destination reads what the source read; nothing else is touched *)
Theorem copyWithResize_copies_src :
  forall H dst src fresh, slice_wf H dst -> slice_wf H src -> s_arr src <> fresh ->
  exists H' d', gen_copyWithResize H dst src fresh = Ok (H', d') /\
                slice_read H' d' = slice_read H src /\
                (s_arr d' = s_arr dst \/ s_arr d' = fresh) /\
                (forall a, a <> s_arr dst -> a <> fresh -> arrs H' a = arrs H a) /\
                (forall a, ctxs H' a = ctxs H a) /\ next H' = next H.
Proof. exact gen_copyWithResize_copies. Qed.
Print Assumptions copyWithResize_copies_src.

(* Clone: CLONE_STABLE part 1, part 2 and non-interference, about the generated Clone *)
Theorem clone_equals_original_src :
  forall H c pv nu w,
  observe H c = Ok pv -> query_coherent H c ->
  c_w (ctxs H c) = Some (nu, w) -> (nu = true -> wv_hij (v_w pv) = false) ->
  clone_slices_wf H c ->
  exists H', gen_Clone H c = Ok (H', (next H + 4)%nat) /\
             observe H' (next H + 4)%nat = Ok pv /\
             next H' = (next H + 5)%nat /\ frame_below (next H) H H'.
Proof. exact gen_Clone_equals_original. Qed.
Print Assumptions clone_equals_original_src.

Theorem clone_stable_of_gen_Clone_src :
  forall (H : heap) (c : addr) (H' : heap) (cl : addr) (later : list op) (H'' : heap),
    wf_heap H -> clone_slices_wf H c ->
    gen_Clone H c = Ok (H', cl) ->
    (forall o, In o later -> forall a, In a (op_addrs o) -> ~ (next H <= a < next H + 5)%nat) ->
    exec_src true later H' = Some H'' ->
    observe H'' cl = observe H' cl /\ raw_of H'' cl = raw_of H' cl.
Proof. exact gen_Clone_stable. Qed.
Print Assumptions clone_stable_of_gen_Clone_src.

Theorem ctx_noninterference_clone_src :
  forall (H1 H2 : heap) (c1 c2 : addr) (pv : view),
    observe H1 c1 = Ok pv -> observe H2 c2 = Ok pv ->
    query_coherent H1 c1 -> query_coherent H2 c2 ->
    (exists w, c_w (ctxs H1 c1) = Some (false, w)) -> (exists w, c_w (ctxs H2 c2) = Some (false, w)) ->
    clone_slices_wf H1 c1 -> clone_slices_wf H2 c2 ->
    exists H1' H2' cl1 cl2,
      gen_Clone H1 c1 = Ok (H1', cl1) /\ gen_Clone H2 c2 = Ok (H2', cl2) /\
      observe H1' cl1 = Ok pv /\ observe H2' cl2 = Ok pv.
Proof. exact gen_Clone_noninterference. Qed.
Print Assumptions ctx_noninterference_clone_src.

(* ================= non-vacuity ================= *)

(* the hypotheses of the *_src corollaries are those of Props_C12.v (same states):
   hypotheses_satisfiable_noninterference, hypotheses_satisfiable_lookup_clonewith,
   hypotheses_satisfiable_clone_stable, hypotheses_satisfiable_param there; here the
   session that enters through the generated reset is non-trivial and as specified *)
Example src_session_satisfiable :
  pool_ok (heap_with staleA) 1 /\ pool_ok (heap_with staleB) 1 /\
  raw_of (heap_with staleA) 1 <> raw_of (heap_with staleB) 1 /\
  session_src (heap_with staleA) 1 6 5 (EServe lkT flags0) [ASetHeader (S2B "X-Resp") (S2B "r")] =
    [Ok (expected (mkEnv reqA (fresh_writer [(S2B "X-Pre", S2B "pre")]) 1%N) (ShIgnoreTsr 3%N [(S2B "a", S2B "TOK")]));
     Ok (vsteps [ASetHeader (S2B "X-Resp") (S2B "r")]
           (expected (mkEnv reqA (fresh_writer [(S2B "X-Pre", S2B "pre")]) 1%N) (ShIgnoreTsr 3%N [(S2B "a", S2B "TOK")])))].
Proof. exact src_session_nonvacuous. Qed.
Print Assumptions src_session_satisfiable.
