(* C12: the regression witness of finding c12-clone-stale-recorder, and
   concrete states showing that the hypotheses of the theorems are satisfiable
   (non-vacuity). *)
From FoxBase Require Import Bytes.
From FoxC12 Require Import Types Context Ops Spec Corr ProofsBasic ProofsView ProofsNI ProofsParam ProofsClone.
From Coq Require Import ZArith Lia.
Open Scope nat_scope.
Open Scope list_scope.

Definition reqA : request := mkReq (S2B "GET") (S2B "a.test") (S2B "/a") [] [(S2B "X-Tok", S2B "A")] (S2B "192.0.2.1:1").
Definition reqB : request := mkReq (S2B "GET") (S2B "b.test") (S2B "/b/2") [(S2B "q", S2B "B")] [(S2B "X-Tok", S2B "B")] (S2B "192.0.2.1:2").
Definition flags0 : sflags := mkFl false false true false false true None [].
Definition lkA : lk := mkLk (Some (mkRi 1%N false false)) false [] None [].
Definition lkB : lk := mkLk (Some (mkRi 2%N false false)) false [(S2B "id", S2B "2")] None [].

(* request A is served (handler sets a header, writes 418 and 12 bytes); then
   request B is looked up manually with its own fresh writer and the returned
   context is cloned *)
Definition witness_ops : list op :=
  [ OAllocCtx 1%N 1%N 1;                         (* ctx 1, embedded recorder 2, arrays 3 4 *)
    ONewReq reqA; ONewHW [];                 (* 5, 6 *)
    OServe 1 6 5 lkA flags0;                 (* 7 8 *)
    OSetHeader 1 (S2B "X-Secret") (S2B "request-A");
    OWriteHeader 1 418%Z; OWrite 1 12%Z;
    ONewReq reqB; ONewHW []; ONewRec 10;     (* 9, 10, 11 *)
    OLookup 1 11 9 lkB;                      (* 12 13 *)
    OObserve 1;
    OClone 1;                                (* 14 .. 18, the clone is 18 *)
    OObserve 18 ].

(* the same without the first request: the pooled context never served *)
Definition witness2_ops : list op :=
  [ OAllocCtx 1%N 1%N 1; ONewReq reqB; ONewHW []; ONewRec 6; OLookup 1 7 5 lkB; OObserve 1; OClone 1; OObserve 14 ].

Definition two_views (outs : list out) : option (view * view) :=
  match obs_views outs with
  | [Ok a; Ok b] => Some (a, b)
  | _ => None
  end.

(* BEFORE 036e194: the clone of the Lookup context shows request A's status,
   size and response headers *)
Lemma clone_of_lookup_refuted_proof :
  exists a b, two_views (run false witness_ops empty_heap) = Some (a, b) /\
              view_eqb (norm_view a) (norm_view b) = false /\
              wv_status (v_w a) = 200%Z /\ wv_status (v_w b) = 418%Z /\
              hget (S2B "X-Secret") (wv_hdr (v_w b)) = Some (S2B "request-A") /\
              has_panic (run false witness2_ops empty_heap) = true.
Proof. eexists. eexists. vm_compute. repeat split; reflexivity. Qed.

(* AFTER 036e194: same histories, the clone shows what the Lookup context shows; no panic *)
Lemma clone_of_lookup_fixed_proof :
  (exists a b, two_views (run true witness_ops empty_heap) = Some (a, b) /\ a = b /\
               wv_status (v_w b) = 200%Z /\ hget (S2B "X-Secret") (wv_hdr (v_w b)) = None) /\
  (exists a b, two_views (run true witness2_ops empty_heap) = Some (a, b) /\ a = b).
Proof. split; eexists; eexists; vm_compute; repeat split; reflexivity. Qed.

(* ---------- non-vacuity ---------- *)

Definition staleA : stale :=
  mkStale (Some (false, 2%nat)) (Some 5%nat) [(S2B "a", S2B "STALE1"); (S2B "b", S2B "STALE2")] 2
          [(S2B "a", S2B "STALE3")] 1 [7%N] (Some 9%N) (Some [(S2B "q", S2B "STALEQ")])
          (mkRec (Some (false, 6%nat)) 1234%Z 503%Z true) 16%N true.
Definition staleB : stale :=
  mkStale None None [] 0 [(S2B "z", S2B "OTHER")] 1 [] None None (mkRec None (-1)%Z 0%Z false) 64%N false.

Definition heap_with (s : stale) : heap :=
  match exec true [OAllocCtx 1%N 1%N 3; ONewReq reqA; ONewHW [(S2B "X-Pre", S2B "pre")]; OPlant 1 s;
                   ONewReq reqB; ONewHW []; ONewRec 8; OAllocCtx 1%N 1%N 3] empty_heap with
  | Some H => H
  | None => empty_heap
  end.
(* ctx 1 (rec 2, arrays 3 4), reqA 5, writer 6, reqB 7, writer 8, external recorder 9, ctx 10 (rec 11, arrays 12 13) *)

Lemma pool_ok_heap_with s :
  (List.length (st_params s) <= 3)%nat -> (List.length (st_tsrp s) <= 3)%nat -> pool_ok (heap_with s) 1.
Proof.
  intros L1 L2. exists (mkSlice 3 (st_plen s)), (mkSlice 4 (st_tlen s)).
  unfold heap_with. simpl. repeat split; try lia; try reflexivity.
Qed.

Definition lkT : lk := mkLk (Some (mkRi 3%N true false)) true [(S2B "a", S2B "dropped")] (Some [(S2B "a", S2B "TOK")]) [].

Lemma lkT_wf : lk_wf lkT.
Proof. intros _. split; [eexists; reflexivity|discriminate]. Qed.

(* two different stale states, one request: the sessions are non-trivial and equal *)
Example noninterference_nonvacuous :
  pool_ok (heap_with staleA) 1 /\ pool_ok (heap_with staleB) 1 /\
  raw_of (heap_with staleA) 1 <> raw_of (heap_with staleB) 1 /\
  same_request (EServe lkT flags0) (heap_with staleA) 6 5 (heap_with staleB) 6 5 /\
  session (heap_with staleA) 1 6 5 (EServe lkT flags0) [ASetHeader (S2B "X-Resp") (S2B "r"); AWrite 3%Z] =
    [Ok (expected (mkEnv reqA (fresh_writer [(S2B "X-Pre", S2B "pre")]) 1%N) (ShIgnoreTsr 3%N [(S2B "a", S2B "TOK")]));
     Ok (vsteps [ASetHeader (S2B "X-Resp") (S2B "r")]
           (expected (mkEnv reqA (fresh_writer [(S2B "X-Pre", S2B "pre")]) 1%N) (ShIgnoreTsr 3%N [(S2B "a", S2B "TOK")])));
     Ok (vsteps [ASetHeader (S2B "X-Resp") (S2B "r"); AWrite 3%Z]
           (expected (mkEnv reqA (fresh_writer [(S2B "X-Pre", S2B "pre")]) 1%N) (ShIgnoreTsr 3%N [(S2B "a", S2B "TOK")])))].
Proof.
  split; [apply pool_ok_heap_with; simpl; lia|].
  split; [apply pool_ok_heap_with; simpl; lia|].
  split; [vm_compute; discriminate|].
  split; [split; reflexivity|].
  vm_compute. reflexivity.
Qed.

(* Lookup with an external writer, CloneWith into a second pooled object, Clone: hypotheses hold *)
Example lookup_clonewith_nonvacuous :
  ext_live (heap_with staleA) 9 /\
  (exists H', lookup_api (heap_with staleA) 1 9 7 lkB = Ok (H', true) /\
     (exists pv, observe H' 1 = Ok pv /\ v_params pv = [(S2B "id", S2B "2")]) /\
     pool_ok H' 10 /\ sep H' 1 10 /\ c_tree (ctxs H' 1) <> None /\
     c_fox (ctxs H' 10) = c_fox (ctxs H' 1) /\
     (exists w, c_w (ctxs H' 1) = Some (false, w)) /\ query_coherent H' 1).
Proof.
  split.
  - exists 8%nat. vm_compute. split; [reflexivity|discriminate].
  - eexists. split; [vm_compute; reflexivity|].
    split; [eexists; split; vm_compute; reflexivity|].
    split; [exists (mkSlice 12 0), (mkSlice 13 0); vm_compute; repeat split; try lia; reflexivity|].
    split.
    { split; [discriminate|]. intros a Ha. vm_compute in Ha.
      destruct Ha as [<-|[<-|[]]]; (split; [vm_compute; intros [E|[E|[]]]; discriminate | vm_compute; lia]). }
    split; [vm_compute; discriminate|].
    split; [reflexivity|].
    split; [eexists; vm_compute; reflexivity|].
    vm_compute. exact Logic.I.
Qed.

(* a reachable heap and a later history that reuses the original: clone_stable's hypotheses hold *)
Definition later_ops : list op :=
  [ OPlant 1 staleB; ONewReq reqA; ONewHW []; OServe 1 20 19 lkT flags0; OSetHeader 1 (S2B "X-Later") (S2B "l");
    OWriteHeader 1 500%Z; OReqSetHeader 1 (S2B "X-Mut") (S2B "m"); OClone 1 ].

Example clone_stable_nonvacuous :
  valid true (firstn 12 witness_ops) empty_heap /\
  exists H Hc cl H'',
    exec true (firstn 12 witness_ops) empty_heap = Some H /\
    clone_gen true H 1 = Ok (Hc, cl) /\
    (forall o, In o later_ops -> forall a, In a (op_addrs o) -> ~ (next H <= a < next H + 5)%nat) /\
    exec true later_ops Hc = Some H'' /\
    observe H'' 1 <> observe Hc 1.     (* the original has moved on *)
Proof.
  split.
  - vm_compute. repeat split; intros a Ha; repeat (destruct Ha as [<-|Ha]; [lia|]); destruct Ha.
  - eexists. eexists. eexists. eexists.
    split; [vm_compute; reflexivity|].
    split; [vm_compute; reflexivity|].
    split.
    + intros o Ho a Ha. vm_compute in Ho.
      repeat (destruct Ho as [<-|Ho]; [vm_compute in Ha; repeat (destruct Ha as [<-|Ha]; [vm_compute; lia|]); destruct Ha|]).
      destruct Ho.
    + split; [vm_compute; reflexivity|]. vm_compute. discriminate.
Qed.

(* Param(name) on a CloneWith copy of a context matched through an ignored
   trailing slash: the copy's own params slice still holds what an earlier user
   of the pooled object left there (tenant=acme, not touched by CloneWith in
   tsr mode); the getters show the current request's parameter only, and
   Param of the leftover's name is empty. *)
Definition staleP : stale :=
  mkStale None None [(S2B "tenant", S2B "acme")] 1 [] 0 [] None None (mkRec None 0%Z 0%Z false) 128%N false.
Definition param_ops : list op :=
  [ OServe 1 6 5 lkT flags0; OPlant 10 staleP; OCloneWith 1 10 2 5 ].

Example param_nonvacuous :
  exists H', exec true param_ops (heap_with staleA) = Some H' /\
    c_tsr (ctxs H' 10) = true /\
    rw_params (raw_of H' 10) = Some [(S2B "tenant", S2B "acme")] /\
    (exists pv, observe H' 10 = Ok pv /\ v_params pv = [(S2B "a", S2B "TOK")]) /\
    ctx_param H' (ctxs H' 10) (S2B "a") = Ok (S2B "TOK") /\
    ctx_param H' (ctxs H' 10) (S2B "tenant") = Ok [].
Proof.
  eexists. split; [vm_compute; reflexivity|].
  split; [reflexivity|]. split; [vm_compute; reflexivity|].
  split; [eexists; split; vm_compute; reflexivity|].
  split; vm_compute; reflexivity.
Qed.
