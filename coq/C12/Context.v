(* C12 model: the request context cTx of /repo/context.go, its three reset
   variants, the per-branch assignments of ServeHTTP / Lookup (fox.go), the
   getters, Clone, CloneWith, copyWithResize, and the embedded recorder
   (response_writer.go), over an explicit heap so that aliasing (pooled objects,
   shared backing arrays, header maps, request objects) is part of the model.

   Heap: one store per kind of Go object, all addressed by [addr]; one
   allocation counter.  Stores are total functions (an unallocated address holds
   arbitrary garbage, which is exactly what "stale" means for the theorems).

     arrs  backing arrays of Params slices       (capacity = length of the list)
     hdrs  http.Header maps                      (response headers; key -> value)
     reqs  *http.Request objects
     recs  fox recorders (pointer to recorder): embedded in a cTx (c_rec) or external
     ctxs  *cTx objects (pooled, or returned by Clone)

   External behaviour is explicit input: the matcher's result and its writes to
   the context ([lk]), which pooled object sync.Pool hands out (the [c]/[cp]
   address arguments), the decisions of ServeHTTP that belong to other
   properties ([sflags]). *)
From FoxBase Require Import Bytes.
From FoxC12 Require Export Types.
From Coq Require Import ZArith.
Open Scope Z_scope.
Open Scope list_scope.

Definition addr := nat.

Inductive res (A : Type) := Ok (a : A) | Panic.
Arguments Ok {A} a.
Arguments Panic {A}.
Definition bind {A B} (r : res A) (f : A -> res B) : res B :=
  match r with Ok a => f a | Panic => Panic end.
Notation "'do' x <- r ; k" := (bind r (fun x => k)) (at level 200, x pattern, r at level 100, k at level 200).


(* recorder (response_writer.go:84): the embedded http.ResponseWriter is nil,
   a real writer or a noopWriter, identified by the header map it returns *)
Record recorder := mkRec {
  r_under : option (bool * addr);   (* None = nil; (is_noopWriter, header map) *)
  r_size : Z;                       (* notWritten = -1 *)
  r_status : Z;
  r_hij : bool }.

Record slice := mkSlice { s_arr : addr; s_len : nat }.

(* cTx (context.go:101), every field.  Pointers that can be nil are options.
   c_w = Some (noUnwrap?, recorder address).  c_rec is the address of the
   embedded recorder (fixed for the life of the object). *)
Record ctx := mkCtx {
  c_w : option (bool * addr);
  c_req : option addr;
  c_params : option slice;
  c_tsrp : option slice;
  c_skip : option (list N);         (* skipNds: opaque leftovers *)
  c_route : option N;               (* *Route identity *)
  c_tree : option N;
  c_fox : N;
  c_cq : option qvals;              (* cachedQuery *)
  c_rec : addr;
  c_scope : N;                      (* HandlerScope (uint8) *)
  c_tsr : bool }.

Record heap := mkHeap {
  arrs : addr -> list param;
  hdrs : addr -> hmap;
  reqs : addr -> request;
  recs : addr -> recorder;
  ctxs : addr -> ctx;
  next : addr }.

Definition upd {A} (m : addr -> A) (a : addr) (v : A) : addr -> A :=
  fun x => if Nat.eqb x a then v else m x.

Definition set_arrs H f := mkHeap f (hdrs H) (reqs H) (recs H) (ctxs H) (next H).
Definition set_hdrs H f := mkHeap (arrs H) f (reqs H) (recs H) (ctxs H) (next H).
Definition set_reqs H f := mkHeap (arrs H) (hdrs H) f (recs H) (ctxs H) (next H).
Definition set_recs H f := mkHeap (arrs H) (hdrs H) (reqs H) f (ctxs H) (next H).
Definition set_ctxs H f := mkHeap (arrs H) (hdrs H) (reqs H) (recs H) f (next H).
Definition bump H n := mkHeap (arrs H) (hdrs H) (reqs H) (recs H) (ctxs H) (next H + n)%nat.

Definition put_ctx H c v := set_ctxs H (upd (ctxs H) c v).
Definition put_rec H a v := set_recs H (upd (recs H) a v).
Definition put_arr H a v := set_arrs H (upd (arrs H) a v).
Definition put_hdr H a v := set_hdrs H (upd (hdrs H) a v).
Definition put_req H a v := set_reqs H (upd (reqs H) a v).

(* field setters for ctx *)
Definition cset_w x v := mkCtx v (c_req x) (c_params x) (c_tsrp x) (c_skip x) (c_route x) (c_tree x) (c_fox x) (c_cq x) (c_rec x) (c_scope x) (c_tsr x).
Definition cset_req x v := mkCtx (c_w x) v (c_params x) (c_tsrp x) (c_skip x) (c_route x) (c_tree x) (c_fox x) (c_cq x) (c_rec x) (c_scope x) (c_tsr x).
Definition cset_params x v := mkCtx (c_w x) (c_req x) v (c_tsrp x) (c_skip x) (c_route x) (c_tree x) (c_fox x) (c_cq x) (c_rec x) (c_scope x) (c_tsr x).
Definition cset_tsrp x v := mkCtx (c_w x) (c_req x) (c_params x) v (c_skip x) (c_route x) (c_tree x) (c_fox x) (c_cq x) (c_rec x) (c_scope x) (c_tsr x).
Definition cset_skip x v := mkCtx (c_w x) (c_req x) (c_params x) (c_tsrp x) v (c_route x) (c_tree x) (c_fox x) (c_cq x) (c_rec x) (c_scope x) (c_tsr x).
Definition cset_route x v := mkCtx (c_w x) (c_req x) (c_params x) (c_tsrp x) (c_skip x) v (c_tree x) (c_fox x) (c_cq x) (c_rec x) (c_scope x) (c_tsr x).
Definition cset_cq x v := mkCtx (c_w x) (c_req x) (c_params x) (c_tsrp x) (c_skip x) (c_route x) (c_tree x) (c_fox x) v (c_rec x) (c_scope x) (c_tsr x).
Definition cset_scope x v := mkCtx (c_w x) (c_req x) (c_params x) (c_tsrp x) (c_skip x) (c_route x) (c_tree x) (c_fox x) (c_cq x) (c_rec x) v (c_tsr x).
Definition cset_tsr x v := mkCtx (c_w x) (c_req x) (c_params x) (c_tsrp x) (c_skip x) (c_route x) (c_tree x) (c_fox x) (c_cq x) (c_rec x) (c_scope x) v.

Definition notWritten : Z := -1.
Definition StatusOK : Z := 200.

(* ---------- slices ---------- *)

Definition slice_read (H : heap) (s : slice) : list param := firstn (s_len s) (arrs H (s_arr s)).

(* s = append(s[:0], vals...): in place when cap suffices, else a new array at
   the address [fresh] (the counter is bumped by the caller, unconditionally) *)
Definition slice_assign (H : heap) (s : slice) (vals : list param) (fresh : addr) : heap * slice :=
  let old := arrs H (s_arr s) in
  if Nat.leb (List.length vals) (List.length old)
  then (put_arr H (s_arr s) (vals ++ skipn (List.length vals) old), mkSlice (s_arr s) (List.length vals))
  else (put_arr H fresh vals, mkSlice fresh (List.length vals)).

(* c.params is truncated to length 0 (nil pointer dereference if c.params is nil) *)
Definition trunc_params (x : ctx) : res ctx :=
  match c_params x with
  | Some s => Ok (cset_params x (Some (mkSlice (s_arr s) 0)))
  | None => Panic
  end.

(* ---------- recorder ---------- *)

(* recorder.reset (response_writer.go:91) *)
Definition rec_reset (w : addr) : recorder := mkRec (Some (false, w)) notWritten StatusOK false.

(* ---------- reset variants (context.go:120-146) ---------- *)

Definition reset (H : heap) (c : addr) (w r : addr) : res heap :=
  let x := ctxs H c in
  let H := put_rec H (c_rec x) (rec_reset w) in
  let x := cset_req x (Some r) in
  let x := cset_w x (Some (false, c_rec x)) in
  let x := cset_cq x None in
  let x := cset_scope x RouteHandler in
  do x <- trunc_params x;
  Ok (put_ctx H c x).

Definition resetNil (H : heap) (c : addr) : res heap :=
  let x := ctxs H c in
  let x := cset_req x None in
  let x := cset_w x None in
  let x := cset_cq x None in
  let x := cset_route x None in
  do x <- trunc_params x;
  Ok (put_ctx H c x).

Definition resetWithWriter (H : heap) (c : addr) (w r : addr) : res heap :=
  let x := ctxs H c in
  let x := cset_req x (Some r) in
  let x := cset_w x (Some (false, w)) in
  let x := cset_tsr x false in
  let x := cset_cq x None in
  let x := cset_route x None in
  let x := cset_scope x RouteHandler in
  do x <- trunc_params x;
  Ok (put_ctx H c x).

(* ---------- the matcher, as an input ---------- *)

Record rinfo := mkRi { ri_id : N; ri_ignore_ts : bool; ri_redirect_ts : bool }.

(* result of tree.lookup(method, host, path, c, lazy=false) and what it wrote
   into c: params are appended to *c.params; tsrParams is overwritten only when
   the matcher recorded a trailing-slash candidate (lk_tsrw = Some _); skipNds
   holds leftovers. *)
Record lk := mkLk {
  lk_route : option rinfo; lk_tsr : bool;
  lk_params : list param; lk_tsrw : option (list param); lk_skip : list N }.

(* consumes two addresses: next, next+1 *)
Definition lookup_effect (H : heap) (c : addr) (l : lk) : res heap :=
  let x := ctxs H c in
  let a := next H in
  let H := bump H 2 in
  match c_params x, c_tsrp x with
  | Some sp, Some st =>
      let '(H, sp') := slice_assign H sp (slice_read H sp ++ lk_params l) a in
      let '(H, st') := match lk_tsrw l with
                       | Some tp => slice_assign H st tp (S a)
                       | None => (H, st) end in
      let x := cset_params x (Some sp') in
      let x := cset_tsrp x (Some st') in
      let x := cset_skip x (Some (lk_skip l)) in
      Ok (put_ctx H c x)
  | _, _ => Panic
  end.

(* lazy lookups (Route/Reverse/Has, the Allow loops): only skipNds is written *)
Definition lookup_lazy_effect (H : heap) (c : addr) (sk : list N) : heap :=
  put_ctx H c (cset_skip (ctxs H c) (Some sk)).

(* ---------- ServeHTTP (fox.go:531-653) ---------- *)

Record sflags := mkFl {
  f_connect : bool;       (* r.Method == CONNECT *)
  f_root : bool;          (* r.URL.Path == "/" *)
  f_clean : bool;         (* path == CleanPath(path) *)
  f_options : bool;       (* r.Method == OPTIONS *)
  f_handle_opts : bool;   (* fox.handleOptions *)
  f_handle_405 : bool;    (* fox.handleMethodNotAllowed *)
  f_allow : option bytes; (* Some v: the Allow loop produced the non-empty value v *)
  f_skip2 : list N }.     (* skipNds after the lazy lookups of the Allow loop *)

Inductive branch := BDirect | BIgnoreTsr | BRedirect | BOptions | BNoMethod | BNoRoute.


Definition set_route_tsr (H : heap) (c : addr) (ro : option N) (t : bool) : heap :=
  put_ctx H c (cset_tsr (cset_route (ctxs H c) ro) t).

(* state of the heap when the handler chain is entered, and which one *)
Definition serve (H : heap) (c : addr) (w r : addr) (l : lk) (f : sflags) : res (heap * branch) :=
  do H <- reset H c w r;
  do H <- lookup_effect H c l;
  let fallthrough (H : heap) : res (heap * branch) :=
    do x <- trunc_params (ctxs H c);
    let H := put_ctx H c x in
    let H := set_route_tsr H c None false in
    let noroute (H : heap) := Ok (put_ctx H c (cset_scope (ctxs H c) NoRouteHandler), BNoRoute) in
    if f_options f && f_handle_opts f then
      let H := lookup_lazy_effect H c (f_skip2 f) in
      match f_allow f with
      | Some a =>
          let H := put_hdr H w (hset HeaderAllow a (hdrs H w)) in
          Ok (put_ctx H c (cset_scope (ctxs H c) OptionsHandler), BOptions)
      | None => noroute H
      end
    else if f_handle_405 f then
      let H := lookup_lazy_effect H c (f_skip2 f) in
      match f_allow f with
      | Some a =>
          let H := put_hdr H w (hset HeaderAllow a (hdrs H w)) in
          Ok (put_ctx H c (cset_scope (ctxs H c) NoMethodHandler), BNoMethod)
      | None => noroute H
      end
    else noroute H in
  match lk_route l, lk_tsr l with
  | Some ri, false => Ok (set_route_tsr H c (Some (ri_id ri)) false, BDirect)
  | ro, t =>
      if negb (f_connect f) && negb (f_root f) && t then
        match ro with
        | None => Panic                                  (* n.route on a nil node *)
        | Some ri =>
            if ri_ignore_ts ri then Ok (set_route_tsr H c (Some (ri_id ri)) t, BIgnoreTsr)
            else if ri_redirect_ts ri && f_clean f then
              do x <- trunc_params (ctxs H c);
              let H := put_ctx H c x in
              let H := set_route_tsr H c None false in
              Ok (put_ctx H c (cset_scope (ctxs H c) RedirectHandler), BRedirect)
            else fallthrough H
        end
      else fallthrough H
  end.

(* ---------- Router.Lookup / Txn.Lookup (fox.go:313-332, txn.go:245-267) ---------- *)

(* Some c: a ContextCloser is returned; None: the context went back to the pool *)
Definition lookup_api (H : heap) (c : addr) (w r : addr) (l : lk) : res (heap * bool) :=
  do H <- resetWithWriter H c w r;
  do H <- lookup_effect H c l;
  match lk_route l with
  | Some ri => Ok (set_route_tsr H c (Some (ri_id ri)) (lk_tsr l), true)
  | None => Ok (H, false)
  end.

(* ---------- copyWithResize (context.go:384) ---------- *)

Definition copy_with_resize (H : heap) (dst src : slice) (fresh : addr) : heap * slice :=
  let vals := slice_read H src in
  let old := arrs H (s_arr dst) in
  if Nat.leb (List.length vals) (List.length old)
  then (put_arr H (s_arr dst) (vals ++ skipn (List.length vals) old), mkSlice (s_arr dst) (List.length vals))
  else (* slices.Grow keeps the first len(dst) elements, copy overwrites them all *)
       (put_arr H fresh vals, mkSlice fresh (List.length vals)).

(* ---------- CloneWith (context.go:366); cp is the object the pool of c.tree hands out;
   consumes one address ---------- *)

Definition clone_with (H : heap) (c cp : addr) (w r : addr) : res heap :=
  let x := ctxs H c in
  match c_tree x with
  | None => Panic
  | Some _ =>
    let a := next H in
    let H := bump H 1 in
    let y := ctxs H cp in
    let y := cset_req y (Some r) in
    let y := cset_w y (Some (false, w)) in
    let y := cset_route y (c_route x) in
    let y := cset_scope y (c_scope x) in
    let y := cset_cq y None in
    let y := cset_tsr y (c_tsr x) in
    if negb (c_tsr x) then
      match c_params y, c_params x with
      | Some d, Some s =>
          let '(H, d') := copy_with_resize H d s a in
          Ok (put_ctx H cp (cset_params y (Some d')))
      | _, _ => Panic
      end
    else
      match c_tsrp y, c_tsrp x with
      | Some d, Some s =>
          let '(H, d') := copy_with_resize H d s a in
          Ok (put_ctx H cp (cset_tsrp y (Some d')))
      | _, _ => Panic
      end
  end.

(* ---------- Clone (context.go:336).  [fx] = true: the code after commit
   036e194 (snapshot of the writer in use, c.w); false: the code before it
   (copy of the embedded recorder c.rec).  Allocates next .. next+4:
   request, header map, recorder, params array, ctx. ---------- *)

Definition rec_size_getter (r : recorder) : Z := if r_size r <? 0 then 0 else r_size r.
Definition rec_written (r : recorder) : bool := negb (r_size r =? notWritten).

Definition clone_gen (fx : bool) (H : heap) (c : addr) : res (heap * addr) :=
  let x := ctxs H c in
  match c_req x with
  | None => Panic
  | Some r =>
    let a := next H in
    let ar := a in let ah := S a in let ac := S (S a) in let aa := S (S (S a)) in let ax := S (S (S (S a))) in
    let H := bump H 5 in
    let H := put_req H ar (reqs H r) in
    do rc <-
      (if fx then
         match c_w x with
         | None => Panic
         | Some (nu, w) =>
             let rw := recs H w in
             match r_under rw with
             | None => Panic
             | Some (_, h) =>
                 Ok (hdrs H h,
                     mkRec (Some (true, ah))
                           (if rec_written rw then rec_size_getter rw else notWritten)
                           (r_status rw)
                           (if nu then false else r_hij rw))
             end
         end
       else
         let rw := recs H (c_rec x) in
         match r_under rw with
         | None => Panic
         | Some (_, h) => Ok (hdrs H h, mkRec (Some (true, ah)) (r_size rw) (r_status rw) (r_hij rw))
         end);
    let '(hm, nr) := rc in
    let H := put_hdr H ah hm in
    let H := put_rec H ac nr in
    do ps <-
      (if negb (c_tsr x) then
         match c_params x with
         | Some s => Ok (Some (mkSlice aa (s_len s)), None, slice_read H s)
         | None => Panic
         end
       else
         match c_tsrp x with
         | Some s => Ok (None, Some (mkSlice aa (s_len s)), slice_read H s)
         | None => Panic
         end);
    let '(p, tp, vals) := ps in
    (* make(Params, len): reading past cap would panic; firstn pads nothing, so
       keep the length the slice header claims *)
    let H := put_arr H aa vals in
    let y := mkCtx (Some (true, ac)) (Some ar) p tp None (c_route x) None (c_fox x) None ac (c_scope x) (c_tsr x) in
    Ok (put_ctx H ax y, ax)
  end.

(* ---------- what a handler can do with its writer / request ---------- *)

Definition writer_of (H : heap) (c : addr) : res addr :=
  match c_w (ctxs H c) with Some (_, w) => Ok w | None => Panic end.

(* c.SetHeader(k, v): c.w.Header().Set *)
Definition set_header (H : heap) (c : addr) (k v : bytes) : res heap :=
  do w <- writer_of H c;
  match r_under (recs H w) with
  | Some (_, h) => Ok (put_hdr H h (hset k v (hdrs H h)))
  | None => Panic
  end.

(* c.Writer().WriteHeader(code) for a non-informational code (response_writer.go:121) *)
Definition write_header (H : heap) (c : addr) (code : Z) : res heap :=
  do w <- writer_of H c;
  let rw := recs H w in
  if r_hij rw then Ok H
  else if negb (r_size rw =? notWritten) then Ok H
  else match r_under rw with
       | Some (true, _) => Panic                    (* noopWriter *)
       | Some (false, _) => Ok (put_rec H w (mkRec (r_under rw) 0 code (r_hij rw)))
       | None => Panic
       end.

(* c.Writer().Write(buf) with len(buf) = n, fully written (response_writer.go:149) *)
Definition write_body (H : heap) (c : addr) (n : Z) : res heap :=
  do w <- writer_of H c;
  let rw := recs H w in
  if r_hij rw then Ok H
  else match r_under rw with
       | Some (true, _) => Panic
       | Some (false, _) =>
           let sz := if r_size rw =? notWritten then 0 else r_size rw in
           Ok (put_rec H w (mkRec (r_under rw) (sz + n) (r_status rw) (r_hij rw)))
       | None => Panic
       end.

(* c.QueryParams(): getQueries caches (context.go:406) *)
Definition get_queries (H : heap) (c : addr) : heap * qvals :=
  let x := ctxs H c in
  match c_cq x with
  | Some q => (H, q)
  | None =>
      let q := match c_req x with Some r => q_query (reqs H r) | None => [] end in
      (put_ctx H c (cset_cq x (Some q)), q)
  end.

(* c.Request().Header.Set(k, v) *)
Definition req_set_header (H : heap) (c : addr) (k v : bytes) : res heap :=
  match c_req (ctxs H c) with
  | Some r =>
      let q := reqs H r in
      Ok (put_req H r (mkReq (q_method q) (q_host q) (q_path q) (q_query q) (hset k v (q_hdr q)) (q_remote q)))
  | None => Panic
  end.

(* ---------- observation: everything the getters return ---------- *)


Definition writer_view (H : heap) (w : addr) : res wview :=
  let rw := recs H w in
  match r_under rw with
  | Some (_, h) => Ok (mkWv (r_status rw) (rec_size_getter rw) (rec_written rw) (hdrs H h) (r_hij rw))
  | None => Panic
  end.

Definition ctx_params (H : heap) (x : ctx) : res (list param) :=
  if c_tsr x then match c_tsrp x with Some s => Ok (slice_read H s) | None => Panic end
  else match c_params x with Some s => Ok (slice_read H s) | None => Panic end.

(* c.Param(name) (context.go:222-239): the loop over one Params slice ... *)
Fixpoint find_param (ps : list param) (name : bytes) : bytes :=
  match ps with
  | [] => []
  | (k, v) :: r => if bytes_eqb k name then v else find_param r name
  end.
(* ... which is *c.tsrParams when c.tsr, and then `return ""` WITHOUT looking
   at *c.params; else *c.params.  Dereferencing a nil *Params panics. *)
Definition ctx_param (H : heap) (x : ctx) (name : bytes) : res bytes :=
  if c_tsr x then match c_tsrp x with Some s => Ok (find_param (slice_read H s) name) | None => Panic end
  else match c_params x with Some s => Ok (find_param (slice_read H s) name) | None => Panic end.

Definition observe (H : heap) (c : addr) : res view :=
  let x := ctxs H c in
  do ps <- ctx_params H x;
  match c_req x, c_w x with
  | Some r, Some (_, w) =>
      do wv <- writer_view H w;
      let rq := reqs H r in
      Ok (mkView ps (c_route x) rq (match c_cq x with Some q => q | None => q_query rq end) wv (c_scope x) (c_fox x))
  | _, _ => Panic
  end.

(* ---------- allocation of the objects the environment creates ---------- *)

(* tree.allocateContext (tree.go:704): ctx, embedded recorder, two arrays;
   consumes next .. next+3 *)
Definition zero_rec : recorder := mkRec None 0 0 false.
Definition alloc_ctx (H : heap) (tree fox : N) (cap : nat) : heap * addr :=
  let a := next H in
  let H := bump H 4 in
  let H := put_rec H (S a) zero_rec in
  let H := put_arr H (S (S a)) (repeat ([], []) cap) in
  let H := put_arr H (S (S (S a))) (repeat ([], []) cap) in
  (put_ctx H a (mkCtx None None (Some (mkSlice (S (S a)) 0)) (Some (mkSlice (S (S (S a))) 0)) (Some [])
                      None (Some tree) fox None (S a) 0%N false), a).

Definition alloc_req (H : heap) (q : request) : heap * addr :=
  let a := next H in (put_req (bump H 1) a q, a).
(* an http.ResponseWriter with the given initial header map *)
Definition alloc_hw (H : heap) (m : hmap) : heap * addr :=
  let a := next H in (put_hdr (bump H 1) a m, a).
(* newResponseWriter(w) (helpers.go:71): an external fox.ResponseWriter *)
Definition alloc_rec (H : heap) (hw : addr) : heap * addr :=
  let a := next H in (put_rec (bump H 1) a (rec_reset hw), a).

Definition empty_req : request := mkReq [] [] [] [] [] [].
Definition empty_ctx : ctx := mkCtx None None None None None None None 0%N None 0%nat 0%N false.
Definition empty_heap : heap :=
  mkHeap (fun _ => []) (fun _ => []) (fun _ => empty_req) (fun _ => zero_rec) (fun _ => empty_ctx) 1%nat.
