(* C12 proofs, part 2: what a handler sees on every entry path is the view the
   specification derives from the current request, whatever the pooled object
   held before. *)
From FoxBase Require Import Bytes.
From FoxC12 Require Import Types Context Spec ProofsBasic.
From Coq Require Import ZArith Lia.
Open Scope list_scope.

(* ---------- the matcher's writes ---------- *)

Lemma lookup_effect_spec H c l :
  pool_ok H c ->
  exists H' sp0 sp st,
    lookup_effect H c l = Ok H' /\
    c_params (ctxs H c) = Some sp0 /\
    ctxs H' c = cset_skip (cset_tsrp (cset_params (ctxs H c) (Some sp)) (Some st)) (Some (lk_skip l)) /\
    slice_read H' sp = slice_read H sp0 ++ lk_params l /\
    (forall tp, lk_tsrw l = Some tp -> slice_read H' st = tp) /\
    s_arr sp <> s_arr st /\ (s_arr sp < next H')%nat /\ (s_arr st < next H')%nat /\
    (forall a, a <> c -> ctxs H' a = ctxs H a) /\
    hdrs H' = hdrs H /\ reqs H' = reqs H /\ recs H' = recs H /\ next H' = (next H + 2)%nat.
Proof.
  intros (sp0 & st0 & Ep & Et & Hne & Hlp & Hlt).
  unfold lookup_effect. rewrite Ep, Et.
  destruct (slice_assign (bump H 2) sp0 (slice_read (bump H 2) sp0 ++ lk_params l) (next H)) as [H1 sp] eqn:E1.
  apply slice_assign_spec in E1.
  destruct E1 as (R1 & A1 & F1 & Eh1 & Eq1 & Er1 & Ec1 & En1).
  simpl in En1.
  assert (Hsp_st : s_arr sp <> s_arr st0) by (destruct A1 as [-> | ->]; [auto | lia]).
  destruct (lk_tsrw l) as [tp|] eqn:Etw.
  - destruct (slice_assign H1 st0 tp (S (next H))) as [H2 st] eqn:E2.
    apply slice_assign_spec in E2.
    destruct E2 as (R2 & A2 & F2 & Eh2 & Eq2 & Er2 & Ec2 & En2).
    exists (put_ctx H2 c (cset_skip (cset_tsrp (cset_params (ctxs H c) (Some sp)) (Some st)) (Some (lk_skip l)))), sp0, sp, st.
    assert (Hsp_lt : (s_arr sp < next H + 2)%nat) by (destruct A1 as [-> | ->]; lia).
    assert (Hst_lt : (s_arr st < next H + 2)%nat) by (destruct A2 as [-> | ->]; lia).
    assert (Hne2 : s_arr sp <> s_arr st) by (destruct A1 as [-> | ->]; destruct A2 as [-> | ->]; lia).
    split; [reflexivity|]. split; [reflexivity|].
    simpl. upd_simpl.
    repeat split; auto; try lia;
      try (rewrite ?En2, ?En1; simpl; lia);
      try (intros a Ha; upd_simpl; now rewrite ?Ec2, ?Ec1);
      try (now rewrite ?Eh2, ?Eh1); try (now rewrite ?Eq2, ?Eq1); try (now rewrite ?Er2, ?Er1).
    + change (slice_read H2 sp = slice_read H sp0 ++ lk_params l).
      rewrite (slice_read_ext H1 H2) by (apply F2; destruct A1 as [-> | ->]; lia).
      exact R1.
    + intros tp' Etp. injection Etp as <-. exact R2.
  - exists (put_ctx H1 c (cset_skip (cset_tsrp (cset_params (ctxs H c) (Some sp)) (Some st0)) (Some (lk_skip l)))), sp0, sp, st0.
    assert (Hsp_lt : (s_arr sp < next H + 2)%nat) by (destruct A1 as [-> | ->]; lia).
    split; [reflexivity|]. split; [reflexivity|].
    simpl. upd_simpl.
    repeat split; auto; try lia;
      try (rewrite ?En1; simpl; lia);
      try (intros a Ha; upd_simpl; now rewrite ?Ec1);
      try discriminate.
Qed.

(* ---------- reset, then the matcher: the state every ServeHTTP branch starts from ---------- *)

Definition entered_ctx (x : ctx) (r : addr) (sp st : slice) (sk : list N) : ctx :=
  mkCtx (Some (false, c_rec x)) (Some r) (Some sp) (Some st) (Some sk) (c_route x) (c_tree x) (c_fox x)
        None (c_rec x) RouteHandler (c_tsr x).

Lemma reset_lookup_spec H c w r l :
  pool_ok H c ->
  exists H2 sp st,
    (do H1 <- reset H c w r; lookup_effect H1 c l) = Ok H2 /\
    ctxs H2 c = entered_ctx (ctxs H c) r sp st (lk_skip l) /\
    slice_read H2 sp = lk_params l /\
    (forall tp, lk_tsrw l = Some tp -> slice_read H2 st = tp) /\
    s_arr sp <> s_arr st /\ (s_arr sp < next H2)%nat /\ (s_arr st < next H2)%nat /\
    (forall a, a <> c -> ctxs H2 a = ctxs H a) /\
    recs H2 = upd (recs H) (c_rec (ctxs H c)) (rec_reset w) /\
    hdrs H2 = hdrs H /\ reqs H2 = reqs H /\ next H2 = (next H + 2)%nat.
Proof.
  intros Hp. pose proof Hp as (sp0 & st0 & Ep & Et & Hne & Hlp & Hlt).
  unfold reset, trunc_params. simpl. rewrite Ep. simpl.
  set (H1 := put_ctx _ c _).
  assert (Hp1 : pool_ok H1 c).
  { exists (mkSlice (s_arr sp0) 0), st0. subst H1. simpl. upd_simpl. simpl. rewrite Et. repeat split; auto. }
  destruct (lookup_effect_spec H1 c l Hp1) as (H2 & sp0' & sp & st & EL & Ep' & Ec & Rp & Rt & Hne2 & L1 & L2 & Oc & Eh & Eq & Er & En).
  exists H2, sp, st. split; [exact EL|].
  subst H1. simpl in *. rewrite upd_same in Ep', Ec. simpl in Ep'. injection Ep' as <-.
  repeat split; auto.
  all: try (rewrite Rp; reflexivity).
  all: try (intros a Ha; rewrite Oc by exact Ha; now upd_simpl).
  all: try lia.
Qed.

(* ---------- ServeHTTP: every branch ---------- *)

Definition lk_rid (l : lk) : N := match lk_route l with Some ri => ri_id ri | None => 0%N end.
Definition allow_of (f : sflags) : bytes := match f_allow f with Some a => a | None => [] end.

Definition shape_of (b : branch) (l : lk) (f : sflags) : shape :=
  match b with
  | BDirect => ShDirect (lk_rid l) (lk_params l)
  | BIgnoreTsr => ShIgnoreTsr (lk_rid l) (lk_tsr_params l)
  | BRedirect => ShRedirect
  | BOptions => ShOptions (allow_of f)
  | BNoMethod => ShNoMethod (allow_of f)
  | BNoRoute => ShNoRoute
  end.

Definition serve_env (H : heap) (c w r : addr) : reqenv :=
  mkEnv (reqs H r) (fresh_writer (hdrs H w)) (c_fox (ctxs H c)).

Lemma slice_read_put_ctx H c v s : slice_read (put_ctx H c v) s = slice_read H s.
Proof. reflexivity. Qed.

Ltac obs_simpl :=
  unfold observe, ctx_params, writer_view, set_route_tsr, lookup_lazy_effect; simpl; upd_simpl; simpl; upd_simpl; simpl.

Lemma serve_view_correct H c w r l f H' b :
  pool_ok H c -> lk_wf l ->
  serve H c w r l f = Ok (H', b) ->
  observe H' c = Ok (expected (serve_env H c w r) (shape_of b l f)) /\ pool_ok H' c.
Proof.
  intros Hp Hwf. unfold serve.
  destruct (reset_lookup_spec H c w r l Hp) as (H2 & sp & st & E & Ec & Rp & Rt & Hne & L1 & L2 & Oc & Er & Eh & Eq & En).
  remember (do H1 <- reset H c w r; lookup_effect H1 c l) as RL eqn:ERL.
  unfold bind in ERL |- *. destruct (reset H c w r) as [H1|]; [|discriminate].
  rewrite <- ERL, E. clear ERL.
  assert (Hrec : recs H2 (c_rec (ctxs H c)) = rec_reset w) by (rewrite Er; now upd_simpl).
  (* the shared tail: no route / no method / options *)
  assert (Tail : forall Hx bx,
    (do x <- trunc_params (ctxs H2 c);
     let H := put_ctx H2 c x in
     let H := set_route_tsr H c None false in
     let noroute (H : heap) := Ok (put_ctx H c (cset_scope (ctxs H c) NoRouteHandler), BNoRoute) in
     if f_options f && f_handle_opts f then
       let H := lookup_lazy_effect H c (f_skip2 f) in
       match f_allow f with
       | Some a =>
           let H := put_hdr H w (hset HeaderAllow a (hdrs H w)) in
           Ok (put_ctx H c (cset_scope (ctxs H c) OptionsHandler), BOptions)
       | None => noroute H
       end
     else if f_handle_405 f then
       let H := lookup_lazy_effect H c (f_skip2 f) in
       match f_allow f with
       | Some a =>
           let H := put_hdr H w (hset HeaderAllow a (hdrs H w)) in
           Ok (put_ctx H c (cset_scope (ctxs H c) NoMethodHandler), BNoMethod)
       | None => noroute H
       end
     else noroute H) = Ok (Hx, bx) ->
    observe Hx c = Ok (expected (serve_env H c w r) (shape_of bx l f)) /\ pool_ok Hx c).
  { intros Hx bx. rewrite Ec. unfold trunc_params, entered_ctx; simpl.
    destruct (f_options f && f_handle_opts f); [|destruct (f_handle_405 f)];
      try destruct (f_allow f) as [al|] eqn:EA; intro EQ; injection EQ as <- <-;
      (split; [ obs_simpl; rewrite ?Hrec; simpl; unfold slice_read, allow_of; simpl; rewrite ?Eh, ?Eq, ?EA; upd_simpl; reflexivity
              | exists (mkSlice (s_arr sp) 0), st; obs_simpl; repeat split; auto ]). }
  destruct (lk_route l) as [ri|] eqn:Eroute; destruct (lk_tsr l) eqn:Etsr.
  - (* route found by trailing slash *)
    destruct (negb (f_connect f) && negb (f_root f) && true) eqn:Eg.
    + destruct (ri_ignore_ts ri) eqn:Eig.
      * intro EQ; injection EQ as <- <-. destruct (Hwf Etsr) as ((tp & Etp) & Hrt).
        split.
        -- obs_simpl. rewrite Ec; simpl. upd_simpl. rewrite Hrec; simpl.
           rewrite slice_read_put_ctx, (Rt tp Etp). unfold shape_of, lk_tsr_params, lk_rid. rewrite Etp, Eroute, Eh, Eq. reflexivity.
        -- exists sp, st. obs_simpl. rewrite Ec; simpl. repeat split; auto.
      * destruct (ri_redirect_ts ri && f_clean f) eqn:Erd.
        -- rewrite Ec. unfold trunc_params, entered_ctx; simpl.
           intro EQ; injection EQ as <- <-. split.
           ++ obs_simpl. rewrite Hrec; simpl. unfold slice_read; simpl. rewrite Eh, Eq. reflexivity.
           ++ exists (mkSlice (s_arr sp) 0), st. obs_simpl. repeat split; auto.
        -- apply Tail.
    + apply Tail.
  - (* direct match *)
    intro EQ; injection EQ as <- <-. split.
    + obs_simpl. rewrite Ec; simpl. upd_simpl. rewrite Hrec; simpl. rewrite slice_read_put_ctx, Rp.
      unfold shape_of, lk_rid. rewrite Eroute, Eh, Eq. reflexivity.
    + exists sp, st. obs_simpl. rewrite Ec; simpl. repeat split; auto.
  - destruct (negb (f_connect f) && negb (f_root f) && true); [discriminate | apply Tail].
  - replace (negb (f_connect f) && negb (f_root f) && false) with false by (now rewrite andb_false_r).
    apply Tail.
Qed.

(* ---------- Router.Lookup / Txn.Lookup ---------- *)

Lemma lookup_view_correct H c w r l H' wv :
  pool_ok H c -> lk_wf l ->
  writer_view H w = Ok wv ->
  lookup_api H c w r l = Ok (H', true) ->
  observe H' c = Ok (expected (mkEnv (reqs H r) wv (c_fox (ctxs H c)))
                              (ShLookup (lk_rid l) (if lk_tsr l then lk_tsr_params l else lk_params l)))
  /\ pool_ok H' c.
Proof.
  intros Hp Hwf Hw. pose proof Hp as (sp0 & st0 & Ep & Et & Hne & Hlp & Hlt).
  unfold lookup_api, resetWithWriter, trunc_params. simpl. rewrite Ep. simpl.
  set (H1 := put_ctx _ c _).
  assert (Hp1 : pool_ok H1 c).
  { exists (mkSlice (s_arr sp0) 0), st0. subst H1. simpl. upd_simpl. simpl. rewrite Et. repeat split; auto. }
  destruct (lookup_effect_spec H1 c l Hp1) as (H2 & sp0' & sp & st & EL & Ep' & Ec & Rp & Rt & Hne2 & L1 & L2 & Oc & Eh & Eq & Er & En).
  rewrite EL.
  subst H1. simpl in *. rewrite upd_same in Ep', Ec. simpl in Ep'. injection Ep' as <-.
  unfold slice_read in Rp at 2. simpl in Rp.
  destruct (lk_route l) as [ri|] eqn:Eroute; [|discriminate].
  intro EQ; injection EQ as <-.
  unfold writer_view in Hw.
  destruct (r_under (recs H w)) as [[nu h]|] eqn:Eu; [|discriminate]. injection Hw as <-.
  split.
  - obs_simpl. rewrite Ec; simpl. rewrite Er, Eu, Eh, Eq. unfold lk_rid. rewrite Eroute.
    destruct (lk_tsr l) eqn:Etsr; simpl.
    + destruct (Hwf Etsr) as ((tp & Etp) & Hrt). rewrite slice_read_put_ctx, (Rt tp Etp).
      unfold lk_tsr_params. rewrite Etp. reflexivity.
    + rewrite slice_read_put_ctx, Rp. reflexivity.
  - exists sp, st. obs_simpl. rewrite Ec; simpl. repeat split; auto.
Qed.

(* ---------- CloneWith ---------- *)

Definition ctx_arrs (x : ctx) : list addr :=
  match c_params x with Some s => [s_arr s] | None => [] end ++
  match c_tsrp x with Some s => [s_arr s] | None => [] end.

(* the object the pool hands to CloneWith shares no backing array with the parent *)
Definition sep (H : heap) (c cp : addr) : Prop :=
  cp <> c /\
  (forall a, In a (ctx_arrs (ctxs H c)) -> ~ In a (ctx_arrs (ctxs H cp)) /\ (a < next H)%nat).

Lemma clone_with_view_correct H c cp w r H' pv wv :
  observe H c = Ok pv ->
  pool_ok H cp -> sep H c cp ->
  c_fox (ctxs H cp) = c_fox (ctxs H c) ->
  writer_view H w = Ok wv ->
  clone_with H c cp w r = Ok H' ->
  observe H' cp = Ok (expected_clone_with pv (reqs H r) wv) /\ observe H' c = Ok pv.
Proof.
  intros Hobs Hp [Hcc Hsep] Hfox Hw.
  pose proof Hp as (dp & dt & Ep & Et & Hne & Hlp & Hlt).
  unfold clone_with. destruct (c_tree (ctxs H c)); [|discriminate].
  unfold writer_view in Hw.
  destruct (r_under (recs H w)) as [[nu h]|] eqn:Eu; [|discriminate]. injection Hw as <-.
  unfold observe, ctx_params in Hobs.
  destruct (c_tsr (ctxs H c)) eqn:Etsr; simpl.
  - (* tsr: tsrParams are copied *)
    rewrite Et.
    destruct (c_tsrp (ctxs H c)) as [s|] eqn:Es; [|discriminate]. simpl in Hobs.
    destruct (copy_with_resize (bump H 1) dt s (next H)) as [H1 d'] eqn:EC.
    apply copy_with_resize_spec in EC.
    destruct EC as (R & A & F & Eh & Eq & Er & Ec & En).
    intro EQ; injection EQ as <-.
    assert (Hs : ~ In (s_arr s) (ctx_arrs (ctxs H cp)) /\ (s_arr s < next H)%nat).
    { apply Hsep. unfold ctx_arrs. rewrite Es. apply in_or_app. right. now left. }
    destruct Hs as [Hs1 Hs2].
    assert (Hsd : s_arr s <> s_arr dt).
    { intro E. apply Hs1. unfold ctx_arrs. rewrite Et. apply in_or_app. right. left. now rewrite E. }
    split.
    + destruct (c_req (ctxs H c)) as [r0|]; [|discriminate].
      destruct (c_w (ctxs H c)) as [[nu0 w0]|]; [|discriminate].
      unfold writer_view in Hobs. destruct (r_under (recs H w0)) as [[nu1 h1]|]; [|discriminate].
      injection Hobs as <-.
      obs_simpl. rewrite Er, Eh, Eq. simpl. rewrite Eu. simpl.
      rewrite slice_read_put_ctx, R. unfold expected_clone_with. simpl. rewrite Hfox. reflexivity.
    + obs_simpl. rewrite Ec. simpl. upd_simpl. rewrite Etsr, Es. simpl.
      rewrite slice_read_put_ctx.
      rewrite (slice_read_ext (bump H 1) H1) by (apply F; [exact Hsd | lia]).
      rewrite Er, Eh, Eq. exact Hobs.
  - (* no tsr: params are copied *)
    rewrite Ep.
    destruct (c_params (ctxs H c)) as [s|] eqn:Es; [|discriminate]. simpl in Hobs.
    destruct (copy_with_resize (bump H 1) dp s (next H)) as [H1 d'] eqn:EC.
    apply copy_with_resize_spec in EC.
    destruct EC as (R & A & F & Eh & Eq & Er & Ec & En).
    intro EQ; injection EQ as <-.
    assert (Hs : ~ In (s_arr s) (ctx_arrs (ctxs H cp)) /\ (s_arr s < next H)%nat).
    { apply Hsep. unfold ctx_arrs. rewrite Es. apply in_or_app. left. now left. }
    destruct Hs as [Hs1 Hs2].
    assert (Hsd : s_arr s <> s_arr dp).
    { intro E. apply Hs1. unfold ctx_arrs. rewrite Ep. apply in_or_app. left. left. now rewrite E. }
    split.
    + destruct (c_req (ctxs H c)) as [r0|]; [|discriminate].
      destruct (c_w (ctxs H c)) as [[nu0 w0]|]; [|discriminate].
      unfold writer_view in Hobs. destruct (r_under (recs H w0)) as [[nu1 h1]|]; [|discriminate].
      injection Hobs as <-.
      obs_simpl. rewrite Er, Eh, Eq. simpl. rewrite Eu. simpl.
      rewrite slice_read_put_ctx, R. unfold expected_clone_with. simpl. rewrite Hfox. reflexivity.
    + obs_simpl. rewrite Ec. simpl. upd_simpl. rewrite Etsr, Es. simpl.
      rewrite slice_read_put_ctx.
      rewrite (slice_read_ext (bump H 1) H1) by (apply F; [exact Hsd | lia]).
      rewrite Er, Eh, Eq. exact Hobs.
Qed.

(* ---------- Clone ---------- *)

(* the cached query, if any, is the parsed query of the request in place
   (true after every reset; kept by every handler action of the model) *)
Definition query_coherent (H : heap) (c : addr) : Prop :=
  match c_cq (ctxs H c), c_req (ctxs H c) with
  | Some q, Some r => q = q_query (reqs H r)
  | _, _ => True
  end.

Lemma snapshot_getters rw u st hj :
  rec_size_getter (mkRec u (if rec_written rw then rec_size_getter rw else notWritten) st hj) = rec_size_getter rw /\
  rec_written (mkRec u (if rec_written rw then rec_size_getter rw else notWritten) st hj) = rec_written rw.
Proof.
  unfold rec_written, rec_size_getter, notWritten. simpl r_size.
  destruct (Z.eqb_spec (r_size rw) (-1)) as [E|E]; simpl negb; cbv iota.
  - rewrite E. split; reflexivity.
  - destruct (Z.ltb_spec (r_size rw) 0) as [L|L].
    + split; reflexivity.
    + destruct (Z.ltb_spec (r_size rw) 0); [lia|].
      destruct (Z.eqb_spec (r_size rw) (-1)); [lia|]. split; reflexivity.
Qed.

(* frame of an allocation-only operation: nothing below the old counter changes *)
Definition frame_below (n : addr) (H H' : heap) : Prop :=
  forall a, (a < n)%nat ->
    arrs H' a = arrs H a /\ hdrs H' a = hdrs H a /\ reqs H' a = reqs H a /\
    recs H' a = recs H a /\ ctxs H' a = ctxs H a.

Lemma clone_view_correct (fx : bool) H c pv nu w :
  observe H c = Ok pv -> query_coherent H c ->
  c_w (ctxs H c) = Some (nu, w) ->
  (if fx then nu = true -> wv_hij (v_w pv) = false else nu = false /\ w = c_rec (ctxs H c)) ->
  exists H', clone_gen fx H c = Ok (H', (next H + 4)%nat) /\
             observe H' (next H + 4)%nat = Ok pv /\
             next H' = (next H + 5)%nat /\ frame_below (next H) H H'.
Proof.
  intros Hobs Hq Ew Hfx.
  unfold observe, ctx_params in Hobs. unfold query_coherent in Hq.
  unfold clone_gen. rewrite Ew in *.
  destruct (c_req (ctxs H c)) as [r|] eqn:Er.
  2:{ destruct (c_tsr (ctxs H c)); [destruct (c_tsrp (ctxs H c))|destruct (c_params (ctxs H c))]; discriminate. }
  assert (Hrw : exists nu' h, r_under (recs H w) = Some (nu', h)).
  { destruct (c_tsr (ctxs H c)); [destruct (c_tsrp (ctxs H c))|destruct (c_params (ctxs H c))]; try discriminate;
      simpl in Hobs; unfold writer_view in Hobs; destruct (r_under (recs H w)) as [[nu' h]|]; try discriminate; eauto. }
  destruct Hrw as (nu' & h & Eu).
  assert (Hframe : forall (m : heap), True) by auto.
  replace (next H + 4)%nat with (S (S (S (S (next H))))) by lia.
  destruct fx.
  - (* after 036e194: snapshot of the writer in use *)
    simpl. upd_simpl. rewrite Eu. simpl.
    destruct (c_tsr (ctxs H c)) eqn:Etsr; simpl.
    + destruct (c_tsrp (ctxs H c)) as [s|] eqn:Es; [|discriminate]. simpl in Hobs |- *.
      unfold writer_view in Hobs. rewrite Eu in Hobs. injection Hobs as <-.
      eexists. split; [reflexivity|]. split; [|split; [simpl; lia|]].
      * obs_simpl. unfold slice_read; simpl; upd_simpl. rewrite firstn_firstn, Nat.min_id.
        match goal with |- context [rec_size_getter (mkRec ?u ?sz ?st ?hj)] =>
          destruct (snapshot_getters (recs H w) u st hj) as [S1 S2] end.
        rewrite S1, S2.
        destruct (c_cq (ctxs H c)) as [q|]; [rewrite Hq|]; simpl;
          (destruct nu; [simpl in Hfx; rewrite Hfx by reflexivity|]; reflexivity).
      * intros a Ha. simpl. upd_simpl. repeat split; reflexivity.
    + destruct (c_params (ctxs H c)) as [s|] eqn:Es; [|discriminate]. simpl in Hobs |- *.
      unfold writer_view in Hobs. rewrite Eu in Hobs. injection Hobs as <-.
      eexists. split; [reflexivity|]. split; [|split; [simpl; lia|]].
      * obs_simpl. unfold slice_read; simpl; upd_simpl. rewrite firstn_firstn, Nat.min_id.
        match goal with |- context [rec_size_getter (mkRec ?u ?sz ?st ?hj)] =>
          destruct (snapshot_getters (recs H w) u st hj) as [S1 S2] end.
        rewrite S1, S2.
        destruct (c_cq (ctxs H c)) as [q|]; [rewrite Hq|]; simpl;
          (destruct nu; [simpl in Hfx; rewrite Hfx by reflexivity|]; reflexivity).
      * intros a Ha. simpl. upd_simpl. repeat split; reflexivity.
  - (* before 036e194: copy of the embedded recorder; right only when that is the writer in use *)
    destruct Hfx as [-> ->].
    simpl. upd_simpl. rewrite Eu. simpl.
    destruct (c_tsr (ctxs H c)) eqn:Etsr; simpl.
    + destruct (c_tsrp (ctxs H c)) as [s|] eqn:Es; [|discriminate]. simpl in Hobs |- *.
      unfold writer_view in Hobs. rewrite Eu in Hobs. injection Hobs as <-.
      eexists. split; [reflexivity|]. split; [|split; [simpl; lia|]].
      * obs_simpl. unfold slice_read; simpl; upd_simpl. rewrite firstn_firstn, Nat.min_id.
        destruct (c_cq (ctxs H c)) as [q|]; [rewrite Hq|]; reflexivity.
      * intros a Ha. simpl. upd_simpl. repeat split; reflexivity.
    + destruct (c_params (ctxs H c)) as [s|] eqn:Es; [|discriminate]. simpl in Hobs |- *.
      unfold writer_view in Hobs. rewrite Eu in Hobs. injection Hobs as <-.
      eexists. split; [reflexivity|]. split; [|split; [simpl; lia|]].
      * obs_simpl. unfold slice_read; simpl; upd_simpl. rewrite firstn_firstn, Nat.min_id.
        destruct (c_cq (ctxs H c)) as [q|]; [rewrite Hq|]; reflexivity.
      * intros a Ha. simpl. upd_simpl. repeat split; reflexivity.
Qed.

(* ---------- the handler's own actions ---------- *)

Definition hstep (a : act) (H : heap) (c : addr) : res heap :=
  match a with
  | ASetHeader k v => set_header H c k v
  | AWriteHeader code => write_header H c code
  | AWrite n => write_body H c n
  | AQuery => Ok (fst (get_queries H c))
  | AReqSetHeader k v => req_set_header H c k v
  end.

(* the context writes through a real (not discarded) writer in a sane state *)
Definition live_writer (H : heap) (c : addr) : Prop :=
  exists nu w h, c_w (ctxs H c) = Some (nu, w) /\ r_under (recs H w) = Some (false, h) /\ (-1 <= r_size (recs H w))%Z.

Definition act_ok (a : act) : Prop := match a with AWrite n => (0 <= n)%Z | _ => True end.

Lemma handler_step_correct a H c v :
  observe H c = Ok v -> live_writer H c -> query_coherent H c -> act_ok a ->
  exists H', hstep a H c = Ok H' /\ observe H' c = Ok (vstep a v) /\
             live_writer H' c /\ query_coherent H' c /\
             (forall x, pool_ok H x -> pool_ok H' x) /\ next H' = next H.
Proof.
  intros Hobs (nu & w & h & Ew & Eu & Hsz) Hq Hact.
  pose proof Hobs as Hobs0.
  unfold observe, ctx_params in Hobs. unfold query_coherent in Hq.
  assert (Hps : exists ps, (if c_tsr (ctxs H c)
            then match c_tsrp (ctxs H c) with Some s => Ok (slice_read H s) | None => Panic end
            else match c_params (ctxs H c) with Some s => Ok (slice_read H s) | None => Panic end) = Ok ps).
  { destruct (c_tsr (ctxs H c)); [destruct (c_tsrp (ctxs H c))|destruct (c_params (ctxs H c))]; try discriminate; eauto. }
  destruct Hps as (ps & Eps). rewrite Eps in Hobs. simpl in Hobs.
  destruct (c_req (ctxs H c)) as [r|] eqn:Er; [|discriminate].
  rewrite Ew in Hobs. unfold writer_view in Hobs. rewrite Eu in Hobs. simpl in Hobs. injection Hobs as Hv. subst v.
  assert (Hpool : forall Hx, next Hx = next H -> ctxs Hx = ctxs H ->
                  forall x, pool_ok H x -> pool_ok Hx x).
  { intros Hx En Ec x (sp & st & A & B & C & D & E). exists sp, st. rewrite Ec, En. auto. }
  destruct a as [k v'|code|n| |k v']; simpl hstep.
  - (* SetHeader *)
    unfold set_header, writer_of. rewrite Ew. simpl. rewrite Eu.
    eexists. split; [reflexivity|]. split; [|split; [|split; [|split]]].
    + unfold observe, ctx_params, writer_view. simpl. change (slice_read (put_hdr H h (hset k v' (hdrs H h)))) with (slice_read H).
      rewrite Eps. simpl. rewrite Er, Ew. simpl. rewrite Eu. simpl. upd_simpl. reflexivity.
    + exists nu, w, h. simpl. auto.
    + unfold query_coherent. simpl. rewrite Er. exact Hq.
    + apply Hpool; reflexivity.
    + reflexivity.
  - (* WriteHeader *)
    unfold write_header, writer_of. rewrite Ew. simpl. rewrite Eu.
    unfold vstep, wstep. simpl.
    unfold rec_written at 1.
    destruct (r_hij (recs H w)) eqn:Ehij; simpl.
    { exists H. repeat split; auto.
      all: try (rewrite Hobs0; unfold vstep, wstep; simpl; unfold rec_written; rewrite ?Ehij, ?Ewr; reflexivity).
      all: try (exists nu, w, h; now auto).
      all: try (unfold query_coherent; rewrite Er; exact Hq). }
    destruct (negb (r_size (recs H w) =? notWritten)%Z) eqn:Ewr; simpl.
    { exists H. repeat split; auto.
      all: try (rewrite Hobs0; unfold vstep, wstep; simpl; unfold rec_written; rewrite ?Ehij, ?Ewr; reflexivity).
      all: try (exists nu, w, h; now auto).
      all: try (unfold query_coherent; rewrite Er; exact Hq). }
    eexists. split; [reflexivity|]. split; [|split; [|split; [|split]]].
    + unfold observe, ctx_params, writer_view. simpl. change (slice_read (put_rec H w _)) with (slice_read H).
      rewrite Eps. simpl. rewrite Er, Ew. simpl. upd_simpl. simpl. rewrite ?Ehij. reflexivity.
    + exists nu, w, h. simpl. upd_simpl. simpl. repeat split; auto. lia.
    + unfold query_coherent. simpl. rewrite Er. exact Hq.
    + apply Hpool; reflexivity.
    + reflexivity.
  - (* Write *)
    simpl in Hact.
    unfold write_body, writer_of. rewrite Ew. simpl. rewrite Eu.
    unfold vstep, wstep. simpl.
    destruct (r_hij (recs H w)) eqn:Ehij; simpl.
    { exists H. repeat split; auto.
      all: try (rewrite Hobs0; unfold vstep, wstep; simpl; unfold rec_written; rewrite ?Ehij, ?Ewr; reflexivity).
      all: try (exists nu, w, h; now auto).
      all: try (unfold query_coherent; rewrite Er; exact Hq). }
    eexists. split; [reflexivity|]. split; [|split; [|split; [|split]]].
    + unfold observe, ctx_params, writer_view. simpl. change (slice_read (put_rec H w _)) with (slice_read H).
      rewrite Eps. simpl. rewrite Er, Ew. simpl. upd_simpl. simpl. rewrite ?Ehij.
      unfold rec_size_getter, rec_written, notWritten in *. simpl.
      destruct (Z.eqb_spec (r_size (recs H w)) (-1)) as [E1|E1].
      * rewrite E1. simpl.
        destruct (Z.ltb_spec n 0); [lia|]. destruct (Z.eqb_spec n (-1)); [lia|]. reflexivity.
      * destruct (Z.ltb_spec (r_size (recs H w)) 0); [lia|].
        destruct (Z.ltb_spec (r_size (recs H w) + n) 0); [lia|].
        destruct (Z.eqb_spec (r_size (recs H w) + n) (-1)); [lia|]. reflexivity.
    + exists nu, w, h. simpl. upd_simpl. simpl. repeat split; auto.
      unfold notWritten. destruct (Z.eqb_spec (r_size (recs H w)) (-1)); lia.
    + unfold query_coherent. simpl. rewrite Er. exact Hq.
    + apply Hpool; reflexivity.
    + reflexivity.
  - (* QueryParams *)
    unfold get_queries. destruct (c_cq (ctxs H c)) as [q|] eqn:Ecq; simpl.
    { exists H. repeat split; auto.
      all: try (rewrite Hobs0; reflexivity).
      all: try (exists nu, w, h; now auto).
      all: try (unfold query_coherent; rewrite Er, Ecq; exact Hq). }
    rewrite Er.
    eexists. split; [reflexivity|]. split; [|split; [|split; [|split]]].
    + unfold observe, ctx_params, writer_view. simpl. upd_simpl. simpl.
      change (slice_read (put_ctx H c _)) with (slice_read H).
      rewrite Eps. simpl. rewrite Er, Ew. simpl. rewrite Eu. reflexivity.
    + exists nu, w, h. simpl. upd_simpl. simpl. auto.
    + unfold query_coherent. simpl. upd_simpl. simpl. rewrite Er. reflexivity.
    + intros x (sp & st & A & B & C & D & E). exists sp, st. simpl.
      destruct (Nat.eq_dec x c) as [->|Hn]; upd_simpl; simpl; auto.
    + reflexivity.
  - (* Request().Header.Set *)
    unfold req_set_header. rewrite Er.
    eexists. split; [reflexivity|]. split; [|split; [|split; [|split]]].
    + unfold observe, ctx_params, writer_view. simpl.
      change (slice_read (put_req H r _)) with (slice_read H).
      rewrite Eps. simpl. rewrite Er, Ew. simpl. rewrite Eu. upd_simpl. simpl.
      destruct (c_cq (ctxs H c)); reflexivity.
    + exists nu, w, h. simpl. auto.
    + unfold query_coherent. simpl. rewrite Er. upd_simpl. simpl. exact Hq.
    + apply Hpool; reflexivity.
    + reflexivity.
Qed.
