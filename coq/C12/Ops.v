(* C12: histories.  An [op] is one thing the environment (net/http, the pool,
   a handler, the matcher) does with the heap of Context.v; a history is a list
   of ops.  The harness replays on the model exactly the history it ran on the
   implementation (which pooled object was handed out is read back through the
   verif hook, i.e. the pool is an explicit oracle). *)
From FoxBase Require Import Bytes.
From FoxC12 Require Import Context.
From Coq Require Import ZArith.
Open Scope list_scope.

(* arbitrary leftovers for every field of a pooled context that is not
   "no reset" (tree, fox) and not the identity of its private storage *)
Record stale := mkStale {
  st_w : option (bool * addr); st_req : option addr;
  st_params : list param; st_plen : nat;
  st_tsrp : list param; st_tlen : nat;
  st_skip : list N; st_route : option N; st_cq : option qvals;
  st_rec : recorder; st_scope : N; st_tsr : bool }.

Definition plant_slice (H : heap) (s : option slice) (vals : list param) (n : nat) : heap * option slice :=
  match s with
  | Some s =>
      let old := arrs H (s_arr s) in
      (put_arr H (s_arr s) (vals ++ skipn (List.length vals) old), Some (mkSlice (s_arr s) n))
  | None => (H, None)
  end.

Definition plant (H : heap) (c : addr) (s : stale) : heap :=
  let x := ctxs H c in
  let '(H, p) := plant_slice H (c_params x) (st_params s) (st_plen s) in
  let '(H, t) := plant_slice H (c_tsrp x) (st_tsrp s) (st_tlen s) in
  let H := put_rec H (c_rec x) (st_rec s) in
  put_ctx H c (mkCtx (st_w s) (st_req s) p t (Some (st_skip s)) (st_route s) (c_tree x) (c_fox x)
                     (st_cq s) (c_rec x) (st_scope s) (st_tsr s)).

Inductive op :=
| OAllocCtx (tree fox : N) (cap : nat)
| ONewReq (q : request)
| ONewHW (m : hmap)
| ONewRec (hw : addr)
| OPlant (c : addr) (s : stale)
| OServe (c w r : addr) (l : lk) (f : sflags)
| OLookup (c w r : addr) (l : lk)
| OResetNil (c : addr)
| OLazy (c : addr) (sk : list N)
| OCloneWith (c cp w r : addr)
| OClone (c : addr)
| OSetHeader (c : addr) (k v : bytes)
| OWriteHeader (c : addr) (code : Z)
| OWrite (c : addr) (n : Z)
| OQuery (c : addr)
| OReqSetHeader (c : addr) (k v : bytes)
| OObserve (c : addr)
| OParam (c : addr) (names : list bytes).   (* c.Param(name) for each name: reads only *)

(* everything a raw dump of the object shows (verif hook), pointers as model addresses *)
Record raw := mkRaw {
  rw_w : option (bool * addr); rw_req : option addr;
  rw_params : option (list param); rw_tsrp : option (list param);
  rw_route : option N; rw_cq : option qvals; rw_scope : N; rw_tsr : bool;
  rw_rec : recorder }.

Definition raw_of (H : heap) (c : addr) : raw :=
  let x := ctxs H c in
  mkRaw (c_w x) (c_req x)
        (option_map (slice_read H) (c_params x)) (option_map (slice_read H) (c_tsrp x))
        (c_route x) (c_cq x) (c_scope x) (c_tsr x) (recs H (c_rec x)).

Inductive out :=
| OutObs (v : res view) (r : raw)
| OutBranch (b : branch)
| OutLookup (matched : bool)
| OutPanic
| OutParam (vals : list (bytes * res bytes)).   (* (name, what Param(name) returned) *)

Definition step (fx : bool) (o : op) (H : heap) : res heap * list out :=
  match o with
  | OAllocCtx t f cap => (Ok (fst (alloc_ctx H t f cap)), [])
  | ONewReq q => (Ok (fst (alloc_req H q)), [])
  | ONewHW m => (Ok (fst (alloc_hw H m)), [])
  | ONewRec hw => (Ok (fst (alloc_rec H hw)), [])
  | OPlant c s => (Ok (plant H c s), [])
  | OServe c w r l f =>
      match serve H c w r l f with
      | Ok (H, b) => (Ok H, [OutBranch b])
      | Panic => (Panic, [OutPanic])
      end
  | OLookup c w r l =>
      match lookup_api H c w r l with
      | Ok (H, m) => (Ok H, [OutLookup m])
      | Panic => (Panic, [OutPanic])
      end
  | OResetNil c => match resetNil H c with Ok H => (Ok H, []) | Panic => (Panic, [OutPanic]) end
  | OLazy c sk => (Ok (lookup_lazy_effect H c sk), [])
  | OCloneWith c cp w r => match clone_with H c cp w r with Ok H => (Ok H, []) | Panic => (Panic, [OutPanic]) end
  | OClone c => match clone_gen fx H c with Ok (H, _) => (Ok H, []) | Panic => (Panic, [OutPanic]) end
  | OSetHeader c k v => match set_header H c k v with Ok H => (Ok H, []) | Panic => (Panic, [OutPanic]) end
  | OWriteHeader c code => match write_header H c code with Ok H => (Ok H, []) | Panic => (Panic, [OutPanic]) end
  | OWrite c n => match write_body H c n with Ok H => (Ok H, []) | Panic => (Panic, [OutPanic]) end
  | OQuery c => (Ok (fst (get_queries H c)), [])
  | OReqSetHeader c k v => match req_set_header H c k v with Ok H => (Ok H, []) | Panic => (Panic, [OutPanic]) end
  | OObserve c => (Ok H, [OutObs (observe H c) (raw_of H c)])
  | OParam c names => (Ok H, [OutParam (map (fun k => (k, ctx_param H (ctxs H c) k)) names)])
  end.

(* a panic ends the history (the harness stops there too) *)
Fixpoint run (fx : bool) (ops : list op) (H : heap) : list out :=
  match ops with
  | [] => []
  | o :: rest =>
      match step fx o H with
      | (Ok H', outs) => outs ++ run fx rest H'
      | (Panic, outs) => outs
      end
  end.

(* final heap of a history, None if it panicked *)
Fixpoint exec (fx : bool) (ops : list op) (H : heap) : option heap :=
  match ops with
  | [] => Some H
  | o :: rest => match fst (step fx o H) with Ok H' => exec fx rest H' | Panic => None end
  end.

(* address arguments of an op *)
Definition opt_addr {A} (o : option (A * addr)) : list addr := match o with Some (_, a) => [a] | None => [] end.
Definition stale_addrs (s : stale) : list addr :=
  opt_addr (st_w s) ++ match st_req s with Some r => [r] | None => [] end ++ opt_addr (r_under (st_rec s)).
Definition op_addrs (o : op) : list addr :=
  match o with
  | OAllocCtx _ _ _ | ONewReq _ | ONewHW _ => []
  | ONewRec hw => [hw]
  | OPlant c s => c :: stale_addrs s
  | OServe c w r _ _ | OLookup c w r _ => [c; w; r]
  | OResetNil c | OLazy c _ | OClone c | OSetHeader c _ _ | OWriteHeader c _ | OWrite c _
  | OQuery c | OReqSetHeader c _ _ | OObserve c | OParam c _ => [c]
  | OCloneWith c cp w r => [c; cp; w; r]
  end.
