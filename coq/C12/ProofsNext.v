(* C12 proofs: how much each operation allocates (the counter only grows). *)
From FoxBase Require Import Bytes.
From FoxC12 Require Import Types Context Ops ProofsBasic.
From Coq Require Import ZArith Lia.
Open Scope list_scope.

Ltac brk :=
  repeat match goal with
         | |- context [match ?x with _ => _ end] => destruct x eqn:?; simpl in *
         | |- context [if ?x then _ else _] => destruct x eqn:?; simpl in *
         end.

Lemma trunc_params_next H c x : trunc_params (ctxs H c) = Ok x -> True. Proof. auto. Qed.

Lemma slice_assign_next H s v f H' s' : slice_assign H s v f = (H', s') -> next H' = next H.
Proof. unfold slice_assign. destruct (Nat.leb _ _); intro E; injection E as <- <-; reflexivity. Qed.

Lemma copy_with_resize_next H d s f H' d' : copy_with_resize H d s f = (H', d') -> next H' = next H.
Proof. unfold copy_with_resize. destruct (Nat.leb _ _); intro E; injection E as <- <-; reflexivity. Qed.

Lemma plant_slice_next H s v n H' s' : plant_slice H s v n = (H', s') -> next H' = next H.
Proof. unfold plant_slice. destruct s; intro E; injection E as <- <-; reflexivity. Qed.

Lemma reset_next H c w r H' : reset H c w r = Ok H' -> next H' = next H.
Proof. unfold reset, trunc_params. simpl. destruct (c_params (ctxs H c)); simpl; [|discriminate]. intro E; injection E as <-. reflexivity. Qed.

Lemma resetNil_next H c H' : resetNil H c = Ok H' -> next H' = next H.
Proof. unfold resetNil, trunc_params. simpl. destruct (c_params (ctxs H c)); simpl; [|discriminate]. intro E; injection E as <-. reflexivity. Qed.

Lemma resetWithWriter_next H c w r H' : resetWithWriter H c w r = Ok H' -> next H' = next H.
Proof. unfold resetWithWriter, trunc_params. simpl. destruct (c_params (ctxs H c)); simpl; [|discriminate]. intro E; injection E as <-. reflexivity. Qed.

Lemma lookup_effect_next H c l H' : lookup_effect H c l = Ok H' -> next H' = (next H + 2)%nat.
Proof.
  unfold lookup_effect.
  destruct (c_params (ctxs H c)) as [sp|]; [|discriminate].
  destruct (c_tsrp (ctxs H c)) as [st|]; [|discriminate].
  destruct (slice_assign (bump H 2) sp _ (next H)) as [H1 sp'] eqn:E1.
  apply slice_assign_next in E1. simpl in E1.
  destruct (lk_tsrw l).
  - destruct (slice_assign H1 st l0 (S (next H))) as [H2 st'] eqn:E2.
    apply slice_assign_next in E2. intro E; injection E as <-. simpl. lia.
  - intro E; injection E as <-. simpl. lia.
Qed.

Lemma serve_next H c w r l f H' b : serve H c w r l f = Ok (H', b) -> next H' = (next H + 2)%nat.
Proof.
  unfold serve.
  destruct (reset H c w r) as [H1|] eqn:E1; [|discriminate]. simpl.
  apply reset_next in E1.
  destruct (lookup_effect H1 c l) as [H2|] eqn:E2; [|discriminate]. simpl.
  apply lookup_effect_next in E2.
  unfold trunc_params, set_route_tsr, lookup_lazy_effect.
  destruct (c_params (ctxs H2 c)); simpl;
    brk; intro E; try discriminate; injection E as <- <-; simpl; lia.
Qed.

Lemma lookup_api_next H c w r l H' m : lookup_api H c w r l = Ok (H', m) -> next H' = (next H + 2)%nat.
Proof.
  unfold lookup_api.
  destruct (resetWithWriter H c w r) as [H1|] eqn:E1; [|discriminate]. simpl.
  apply resetWithWriter_next in E1.
  destruct (lookup_effect H1 c l) as [H2|] eqn:E2; [|discriminate]. simpl.
  apply lookup_effect_next in E2.
  destruct (lk_route l); intro E; injection E as <- <-; simpl; lia.
Qed.

Lemma clone_with_next H c cp w r H' : clone_with H c cp w r = Ok H' -> next H' = (next H + 1)%nat.
Proof.
  unfold clone_with.
  destruct (c_tree (ctxs H c)); [|discriminate].
  destruct (negb (c_tsr (ctxs H c))); simpl.
  - destruct (c_params (ctxs H cp)) as [d|]; [|discriminate].
    destruct (c_params (ctxs H c)) as [s|]; [|discriminate].
    destruct (copy_with_resize (bump H 1) d s (next H)) as [H1 d'] eqn:EC.
    apply copy_with_resize_next in EC. intro E; injection E as <-. simpl. simpl in EC. lia.
  - destruct (c_tsrp (ctxs H cp)) as [d|]; [|discriminate].
    destruct (c_tsrp (ctxs H c)) as [s|]; [|discriminate].
    destruct (copy_with_resize (bump H 1) d s (next H)) as [H1 d'] eqn:EC.
    apply copy_with_resize_next in EC. intro E; injection E as <-. simpl. simpl in EC. lia.
Qed.

Lemma clone_next fx H c H' cl : clone_gen fx H c = Ok (H', cl) -> next H' = (next H + 5)%nat.
Proof.
  unfold clone_gen.
  destruct (c_req (ctxs H c)); [|discriminate].
  match goal with |- (do rc <- ?X; _) = _ -> _ => destruct X as [[hm nr]|]; [|discriminate] end. simpl.
  match goal with |- (do ps <- ?X; _) = _ -> _ => destruct X as [[[p tp] vals]|]; [|discriminate] end. simpl.
  intro E; injection E as <- <-. reflexivity.
Qed.

Lemma set_header_next H c k v H' : set_header H c k v = Ok H' -> next H' = next H.
Proof. unfold set_header, writer_of. brk; intro E; try discriminate; injection E as <-; reflexivity. Qed.
Lemma write_header_next H c k H' : write_header H c k = Ok H' -> next H' = next H.
Proof. unfold write_header, writer_of. brk; intro E; try discriminate; injection E as <-; reflexivity. Qed.
Lemma write_body_next H c k H' : write_body H c k = Ok H' -> next H' = next H.
Proof. unfold write_body, writer_of. brk; intro E; try discriminate; injection E as <-; reflexivity. Qed.
Lemma req_set_header_next H c k v H' : req_set_header H c k v = Ok H' -> next H' = next H.
Proof. unfold req_set_header. brk; intro E; try discriminate; injection E as <-; reflexivity. Qed.
Lemma get_queries_next H c : next (fst (get_queries H c)) = next H.
Proof. unfold get_queries. destruct (c_cq (ctxs H c)); reflexivity. Qed.
Lemma plant_next H c s : next (plant H c s) = next H.
Proof.
  unfold plant.
  destruct (plant_slice H _ _ _) as [H1 p] eqn:E1. apply plant_slice_next in E1.
  destruct (plant_slice H1 _ _ _) as [H2 t] eqn:E2. apply plant_slice_next in E2.
  simpl. lia.
Qed.

Definition alloc_of (o : op) : nat :=
  match o with
  | OAllocCtx _ _ _ => 4 | ONewReq _ | ONewHW _ | ONewRec _ => 1
  | OServe _ _ _ _ _ | OLookup _ _ _ _ => 2
  | OCloneWith _ _ _ _ => 1 | OClone _ => 5
  | _ => 0
  end.

Lemma step_next fx o H H' : fst (step fx o H) = Ok H' -> next H' = (next H + alloc_of o)%nat.
Proof.
  destruct o; simpl.
  - intro E; injection E as <-. reflexivity.
  - intro E; injection E as <-. reflexivity.
  - intro E; injection E as <-. reflexivity.
  - intro E; injection E as <-. reflexivity.
  - intro E; injection E as <-. rewrite plant_next. lia.
  - destruct (serve H c w r l f) as [[H1 b]|] eqn:E1; simpl; [|discriminate].
    intro E; injection E as <-. eapply serve_next; eauto.
  - destruct (lookup_api H c w r l) as [[H1 m]|] eqn:E1; simpl; [|discriminate].
    intro E; injection E as <-. eapply lookup_api_next; eauto.
  - destruct (resetNil H c) as [H1|] eqn:E1; simpl; [|discriminate].
    intro E; injection E as <-. rewrite (resetNil_next _ _ _ E1). lia.
  - intro E; injection E as <-. simpl. lia.
  - destruct (clone_with H c cp w r) as [H1|] eqn:E1; simpl; [|discriminate].
    intro E; injection E as <-. eapply clone_with_next; eauto.
  - destruct (clone_gen fx H c) as [[H1 cl]|] eqn:E1; simpl; [|discriminate].
    intro E; injection E as <-. eapply clone_next; eauto.
  - destruct (set_header H c k v) as [H1|] eqn:E1; simpl; [|discriminate].
    intro E; injection E as <-. rewrite (set_header_next _ _ _ _ _ E1). lia.
  - destruct (write_header H c code) as [H1|] eqn:E1; simpl; [|discriminate].
    intro E; injection E as <-. rewrite (write_header_next _ _ _ _ E1). lia.
  - destruct (write_body H c n) as [H1|] eqn:E1; simpl; [|discriminate].
    intro E; injection E as <-. rewrite (write_body_next _ _ _ _ E1). lia.
  - intro E; injection E as <-. rewrite get_queries_next. lia.
  - destruct (req_set_header H c k v) as [H1|] eqn:E1; simpl; [|discriminate].
    intro E; injection E as <-. rewrite (req_set_header_next _ _ _ _ _ E1). lia.
  - intro E; injection E as <-. lia.
  - intro E; injection E as <-. lia.
Qed.

Lemma exec_next_mono fx ops : forall H H', exec fx ops H = Some H' -> (next H <= next H')%nat.
Proof.
  induction ops as [|o rest IH]; intros H H'; simpl.
  - intro E; injection E as <-. lia.
  - destruct (fst (step fx o H)) as [H1|] eqn:E1; [|discriminate].
    intro E. apply IH in E. apply step_next in E1. lia.
Qed.
