(* C12: the single-parameter getter Param(name) agrees with the view, hence
   (with ProofsView) derives from the current request only. *)
From FoxBase Require Import Bytes.
From FoxC12 Require Import Types Context Ops Spec ProofsBasic ProofsView ProofsNI.
From Coq Require Import ZArith.
Open Scope list_scope.

Lemma find_param_spec ps name :
  find_param ps name = match param_named ps name with Some x => x | None => [] end.
Proof.
  induction ps as [|[k v] r IH]; simpl; [reflexivity|].
  destruct (bytes_eqb k name); [reflexivity|exact IH].
Qed.

Lemma ctx_param_params H x name ps :
  ctx_params H x = Ok ps -> ctx_param H x name = Ok (find_param ps name).
Proof.
  unfold ctx_params, ctx_param.
  destruct (c_tsr x).
  - destruct (c_tsrp x) as [s|]; [|discriminate]. intro E; injection E as <-. reflexivity.
  - destruct (c_params x) as [s|]; [|discriminate]. intro E; injection E as <-. reflexivity.
Qed.

Lemma observe_params H c v : observe H c = Ok v -> ctx_params H (ctxs H c) = Ok (v_params v).
Proof.
  unfold observe.
  destruct (ctx_params H (ctxs H c)) as [ps|]; simpl; [|discriminate].
  destruct (c_req (ctxs H c)) as [r|]; [|discriminate].
  destruct (c_w (ctxs H c)) as [[b w]|]; [|discriminate].
  destruct (writer_view H w) as [wv|]; simpl; [|discriminate].
  intro E; injection E as <-. reflexivity.
Qed.

(* wherever the getters as a whole show a view, Param(name) does not panic and
   returns the specification's answer on THAT view: the two accessors of the
   parameters cannot disagree *)
Lemma param_of_observe H c v name :
  observe H c = Ok v -> ctx_param H (ctxs H c) name = Ok (expected_param v name).
Proof.
  intro E. apply observe_params in E.
  rewrite (ctx_param_params _ _ name _ E). unfold expected_param. now rewrite find_param_spec.
Qed.

Lemma serve_param_proof :
  forall H c w r l f name, pool_ok H c -> lk_wf l ->
  exists H', serve H c w r l f = Ok (H', branch_of l f) /\
             ctx_param H' (ctxs H' c) name =
             Ok (expected_param (expected (serve_env H c w r) (shape_of (branch_of l f) l f)) name).
Proof.
  intros H c w r l f name Hp Hl.
  destruct (serve_correct_proof H c w r l f Hp Hl) as [H' [E1 [E2 _]]].
  exists H'. split; [exact E1|]. now apply param_of_observe.
Qed.

Lemma clone_with_param_proof :
  forall H c cp w r H' pv wv name,
  observe H c = Ok pv -> pool_ok H cp -> sep H c cp ->
  c_fox (ctxs H cp) = c_fox (ctxs H c) -> writer_view H w = Ok wv ->
  clone_with H c cp w r = Ok H' ->
  ctx_param H' (ctxs H' cp) name = Ok (expected_param pv name).
Proof.
  intros H c cp w r H' pv wv name Eo Hp Hs Hf Hw Ec.
  destruct (clone_with_view_correct H c cp w r H' pv wv Eo Hp Hs Hf Hw Ec) as [E1 _].
  apply (param_of_observe _ _ _ name) in E1. exact E1.
Qed.
