(* C12, tie A — the context life-cycle methods of context.go, REGENERATED from the
   source tree under test on every run (GenCtx.v, harness/cmd/ctxgen), equal the
   hand-written model (Context.v) for all arguments; hence the clauses of C12
   (Props_C12.v) hold of the model in which those methods ARE the generated ones.
   Statements only; proofs in BridgeCtx.v (equalities) and SrcCtx.v (corollaries).

   gen_X            : the Go function X of context.go / response_writer.go, statement by statement
   serve_src etc.   : serve / lookup_api / step / exec / session of the model with
                      reset, resetWithWriter, resetNil, CloneWith replaced by gen_* (SrcCtx.v)

   Each equality fixes exactly which fields a method assigns: a field the Go text
   stops (or starts) assigning makes the two sides differ on a stale object. *)
From FoxBase Require Import Bytes.
From FoxC12 Require Import Types Context CtxSem GenCtx Ops Spec Corr ProofsBasic ProofsView ProofsNI ProofsParam
  ProofsNext ProofsStable ProofsClone Witness BridgeCtx SrcCtx.
From Coq Require Import ZArith List.
Open Scope list_scope.

(* ================= the bridge: generated = hand-written, for all arguments ================= *)

Theorem gen_reset_is_model : forall H c w r, gen_reset H c w r = reset H c w r.
Proof. exact gen_reset_eq. Qed.
Print Assumptions gen_reset_is_model.

Theorem gen_resetNil_is_model : forall H c, gen_resetNil H c = resetNil H c.
Proof. exact gen_resetNil_eq. Qed.
Print Assumptions gen_resetNil_is_model.

Theorem gen_resetWithWriter_is_model : forall H c w r, gen_resetWithWriter H c w r = resetWithWriter H c w r.
Proof. exact gen_resetWithWriter_eq. Qed.
Print Assumptions gen_resetWithWriter_is_model.

(* recorder.reset assigns every field: the result does not depend on the old recorder *)
Theorem gen_recorder_reset_is_model : forall x w, gen_recorder_reset x w = Ok (rec_reset w).
Proof. exact gen_recorder_reset_eq. Qed.
Print Assumptions gen_recorder_reset_is_model.

(* CloneWith, its callee copyWithResize taken as modelled (the callee: below) *)
Theorem gen_CloneWith_is_model : forall H c cp w r, gen_CloneWith H c cp w r = clone_with H c cp w r.
Proof. exact gen_CloneWith_eq. Qed.
Print Assumptions gen_CloneWith_is_model.

Theorem gen_Param_is_model : forall H c name, gen_Param H c name = ctx_param H (ctxs H c) name.
Proof. exact gen_Param_eq. Qed.
Print Assumptions gen_Param_is_model.

(* Params(): run against ANY consumer, the iterator hands over the model's
   parameter list in order, up to and including the first element the consumer
   stops at; ranged over to the end it is ctx_params *)
Theorem gen_Params_is_model : forall H c yield,
  gen_Params H c yield = (do ps <- ctx_params H (ctxs H c); Ok (fst (yielded yield ps))).
Proof. exact gen_Params_eq. Qed.
Print Assumptions gen_Params_is_model.

Theorem gen_Params_all_is_model : forall H c, gen_Params H c (fun _ => true) = ctx_params H (ctxs H c).
Proof. exact gen_Params_all_eq. Qed.
Print Assumptions gen_Params_all_is_model.

(* copyWithResize: on slice headers a Go program can hold (len <= cap), with a
   fresh address that is not the source array, the Go text (Grow, reslice, copy)
   and the model (one write, decided by capacity) return the same header and
   heaps with the same contents; equal outright when nothing is reallocated *)
Theorem gen_copyWithResize_is_model : forall H dst src fresh,
  slice_wf H dst -> slice_wf H src -> s_arr src <> fresh ->
  exists H', gen_copyWithResize H dst src fresh = Ok (H', snd (copy_with_resize H dst src fresh)) /\
             heap_eqv H' (fst (copy_with_resize H dst src fresh)).
Proof. exact gen_copyWithResize_eqv. Qed.
Print Assumptions gen_copyWithResize_is_model.

Theorem gen_copyWithResize_is_model_inplace : forall H dst src fresh,
  slice_wf H dst -> slice_wf H src -> (s_len src <= sl_cap H dst)%nat ->
  gen_copyWithResize H dst src fresh = Ok (copy_with_resize H dst src fresh).
Proof. exact gen_copyWithResize_eq_inplace. Qed.
Print Assumptions gen_copyWithResize_is_model_inplace.

(* finding about the MODEL (not about fox): outside len <= cap the two differ *)
Theorem copyWithResize_model_differs_on_illformed_slices :
  ~ slice_wf illformed_heap (mkSlice 1 2)%nat /\
  option_map snd (match gen_copyWithResize illformed_heap (mkSlice 2 0)%nat (mkSlice 1 2)%nat 3%nat with Ok r => Some r | Panic => None end)
    = Some (mkSlice 2 2)%nat /\
  snd (copy_with_resize illformed_heap (mkSlice 2 0)%nat (mkSlice 1 2)%nat 3%nat) = (mkSlice 2 1)%nat.
Proof. exact copyWithResize_illformed_differs. Qed.
Print Assumptions copyWithResize_model_differs_on_illformed_slices.

(* CloneWith linked with the generated copyWithResize *)
Theorem gen_CloneWith_linked_is_model : forall H c cp w r,
  clone_with_slices_wf H c cp ->
  res_heap_eqv (gen_CloneWith_linked H c cp w r) (clone_with H c cp w r).
Proof. exact gen_CloneWith_linked_eqv. Qed.
Print Assumptions gen_CloneWith_linked_is_model.

(* Clone (the code after commit 036e194), when the slice in use is one a Go
   program can hold (len <= cap) *)
Theorem gen_Clone_is_model : forall H c, clone_slices_wf H c -> gen_Clone H c = clone_gen true H c.
Proof. exact gen_Clone_eq. Qed.
Print Assumptions gen_Clone_is_model.

(* finding about the MODEL (not about fox): outside len <= cap the two differ *)
Theorem Clone_model_differs_on_illformed_slices :
  ~ clone_slices_wf (heap_with staleW) 1 /\
  (exists H1 H2 cl, gen_Clone (heap_with staleW) 1 = Ok (H1, cl) /\ clone_gen true (heap_with staleW) 1 = Ok (H2, cl) /\
     length (arrs H1 (next (heap_with staleW) + 3)%nat) = 5%nat /\
     length (arrs H2 (next (heap_with staleW) + 3)%nat) = 3%nat).
Proof. exact Clone_illformed_differs. Qed.
Print Assumptions Clone_model_differs_on_illformed_slices.

(* the model with the generated methods plugged in is the model *)
Theorem src_model_is_model :
  (forall H c w r l f, serve_src H c w r l f = serve H c w r l f) /\
  (forall H c w r l, lookup_api_src H c w r l = lookup_api H c w r l) /\
  (forall fx o H, step_src fx o H = step fx o H) /\
  (forall fx ops H, exec_src fx ops H = exec fx ops H) /\
  (forall H c w r e acts, session_src H c w r e acts = session H c w r e acts) /\
  (forall H c cp w r acts, clone_with_session_src H c cp w r acts = clone_with_session H c cp w r acts).
Proof.
  exact (conj serve_src_eq (conj lookup_api_src_eq (conj step_src_eq (conj exec_src_eq
        (conj session_src_eq clone_with_session_src_eq))))).
Qed.
Print Assumptions src_model_is_model.

(* ================= non-vacuity ================= *)

Example gen_resets_satisfiable :
  let H := heap_with staleA in
  (exists H', gen_reset H 1 6 5 = Ok H' /\
     raw_of H' 1 = mkRaw (Some (false, 2%nat)) (Some 5%nat) (Some []) (Some [(S2B "a", S2B "STALE3")])
                         (Some 9%N) None 128%N true (rec_reset 6) /\
     raw_of H' 1 <> raw_of H 1) /\
  (exists H', gen_resetWithWriter H 1 9 7 = Ok H' /\
     raw_of H' 1 = mkRaw (Some (false, 9%nat)) (Some 7%nat) (Some []) (Some [(S2B "a", S2B "STALE3")])
                         None None 128%N false (mkRec (Some (false, 6%nat)) 1234%Z 503%Z true)) /\
  (exists H', gen_resetNil H 1 = Ok H' /\
     raw_of H' 1 = mkRaw None None (Some []) (Some [(S2B "a", S2B "STALE3")])
                         None None 16%N true (mkRec (Some (false, 6%nat)) 1234%Z 503%Z true)) /\
  gen_resetNil empty_heap 0 = Panic.
Proof. exact gen_resets_nonvacuous. Qed.
Print Assumptions gen_resets_satisfiable.

Example gen_recorder_reset_satisfiable :
  gen_recorder_reset (mkRec (Some (true, 6%nat)) 1234%Z 503%Z true) 8 = Ok (mkRec (Some (false, 8%nat)) (-1)%Z 200%Z false).
Proof. exact gen_recorder_reset_nonvacuous. Qed.
Print Assumptions gen_recorder_reset_satisfiable.

Example gen_CloneWith_Param_Params_satisfiable :
  exists H0 H',
    exec_src true [OServe 1 6 5 lkT flags0; OPlant 10 staleP] (heap_with staleA) = Some H0 /\
    gen_CloneWith H0 1 10 2 5 = Ok H' /\
    gen_CloneWith_linked H0 1 10 2 5 = Ok H' /\
    clone_with_slices_wf H0 1 10 /\
    c_tsr (ctxs H' 10) = true /\
    rw_params (raw_of H' 10) = Some [(S2B "tenant", S2B "acme")] /\
    gen_Param H' 10 (S2B "a") = Ok (S2B "TOK") /\
    gen_Param H' 10 (S2B "tenant") = Ok [] /\
    gen_Params H' 10 (fun _ => true) = Ok [(S2B "a", S2B "TOK")] /\
    gen_Params H' 10 (fun _ => false) = Ok [(S2B "a", S2B "TOK")] /\
    gen_Params H0 10 (fun p => negb (bytes_eqb (fst p) (S2B "tenant"))) = Ok [(S2B "tenant", S2B "acme")].
Proof. exact gen_CloneWith_Param_nonvacuous. Qed.
Print Assumptions gen_CloneWith_Param_Params_satisfiable.

Example gen_copyWithResize_satisfiable :
  slice_wf cwr_heap (mkSlice 1 1) /\ slice_wf cwr_heap (mkSlice 2 3) /\ slice_wf cwr_heap (mkSlice 3 3) /\
  (exists H', gen_copyWithResize cwr_heap (mkSlice 1 1) (mkSlice 2 3) 4%nat = Ok (H', mkSlice 4 3) /\
              slice_read H' (mkSlice 4 3) = [(S2B "a", S2B "1"); (S2B "b", S2B "2"); (S2B "c", S2B "3")]) /\
  (exists H', gen_copyWithResize cwr_heap (mkSlice 3 3) (mkSlice 2 2) 4%nat = Ok (H', mkSlice 3 2) /\
              arrs H' 3%nat = [(S2B "a", S2B "1"); (S2B "b", S2B "2"); (S2B "r", S2B "9")]).
Proof. exact gen_copyWithResize_nonvacuous. Qed.
Print Assumptions gen_copyWithResize_satisfiable.

Example gen_Clone_satisfiable :
  exists H0 H' cl pv,
    exec_src true [OServe 1 6 5 lkT flags0; OSetHeader 1 (S2B "X-Resp") (S2B "r"); OWriteHeader 1 201%Z] (heap_with staleA) = Some H0 /\
    clone_slices_wf H0 1 /\
    gen_Clone H0 1 = Ok (H', cl) /\ cl = (next H0 + 4)%nat /\
    observe H0 1 = Ok pv /\ observe H' cl = Ok pv /\
    v_params pv = [(S2B "a", S2B "TOK")] /\ wv_status (v_w pv) = 201%Z /\
    rw_params (raw_of H' cl) = None /\ rw_tsrp (raw_of H' cl) = Some [(S2B "a", S2B "TOK")].
Proof. exact gen_Clone_nonvacuous. Qed.
Print Assumptions gen_Clone_satisfiable.

