(* C12 — A Context only ever shows the current request.
   Statements only; proofs are in Proofs*.v / Witness.v.  The model (Context.v,
   Ops.v) is of the code as it is now (Clone after commit 036e194, fx = true);
   the statements about the code before that commit (fx = false) document the
   repaired defect c12-clone-stale-recorder.

   Assumptions, explicit in the statements:
   - pool_ok / sep: ownership of the Params backing arrays of pooled contexts
     (established by allocateContext: alloc_ctx_establishes_ownership; kept by
     every entry path: the pool_ok conjuncts below);
   - lk_wf: the matcher's contract (C01/C08), an input of this model;
   - sync.Pool hands an object to one goroutine at a time: the context a
     request works with is only touched by the ops of that request, so
     quantifying over ALL stale states of the acquired objects covers all
     earlier and concurrent histories. *)
From FoxBase Require Import Bytes.
From FoxC12 Require Import Types Context Ops Spec Corr ProofsBasic ProofsView ProofsNI ProofsParam ProofsNext ProofsStable ProofsClone Witness.
From Coq Require Import ZArith.
Open Scope list_scope.

(* Every ServeHTTP branch (direct, ignored trailing slash, redirect, OPTIONS,
   405, 404): whatever the pooled object held, the handler sees exactly the view
   the specification derives from the current request. *)
Theorem serve_shows_current_request :
  forall H c w r l f, pool_ok H c -> lk_wf l ->
  exists H', serve H c w r l f = Ok (H', branch_of l f) /\
             observe H' c = Ok (expected (serve_env H c w r) (shape_of (branch_of l f) l f)) /\
             pool_ok H' c.
Proof. exact serve_correct_proof. Qed.
Print Assumptions serve_shows_current_request.

(* Router.Lookup / Txn.Lookup *)
Theorem lookup_shows_current_request :
  forall H c w r l wv, pool_ok H c -> lk_wf l -> ext_live H w -> writer_view H w = Ok wv ->
  exists H', lookup_api H c w r l = Ok (H', match lk_route l with Some _ => true | None => false end) /\
             (lk_route l <> None ->
              observe H' c = Ok (expected (mkEnv (reqs H r) wv (c_fox (ctxs H c)))
                                          (ShLookup (lk_rid l) (if lk_tsr l then lk_tsr_params l else lk_params l))) /\
              pool_ok H' c).
Proof. exact lookup_correct_proof. Qed.
Print Assumptions lookup_shows_current_request.

(* CloneWith: match data of the parent, request and writer as given; the parent is not disturbed *)
Theorem clone_with_shows_current_request :
  forall H c cp w r H' pv wv,
  observe H c = Ok pv -> pool_ok H cp -> sep H c cp ->
  c_fox (ctxs H cp) = c_fox (ctxs H c) -> writer_view H w = Ok wv ->
  clone_with H c cp w r = Ok H' ->
  observe H' cp = Ok (expected_clone_with pv (reqs H r) wv) /\ observe H' c = Ok pv.
Proof. exact clone_with_view_correct. Qed.
Print Assumptions clone_with_shows_current_request.

(* the handler's own actions change the view exactly as the specification says *)
Theorem handler_actions_refine_spec :
  forall acts H c v, observe H c = Ok v -> live_writer H c -> query_coherent H c -> Forall act_ok acts ->
  run_acts acts H c = spec_trace acts v.
Proof. exact run_acts_spec. Qed.
Print Assumptions handler_actions_refine_spec.

(* Param(name), the single-parameter accessor: wherever the getters show a view,
   Param(name) does not panic and returns the first parameter of THAT view
   called name, the empty string when there is none (so Param and Params()
   cannot disagree) ... *)
Theorem param_agrees_with_view :
  forall H c v name, observe H c = Ok v -> ctx_param H (ctxs H c) name = Ok (expected_param v name).
Proof. exact param_of_observe. Qed.
Print Assumptions param_agrees_with_view.

(* ... hence in every ServeHTTP branch, whatever the pooled object held, it is
   the current request's parameter of that name or empty ... *)
Theorem serve_param_current_request :
  forall H c w r l f name, pool_ok H c -> lk_wf l ->
  exists H', serve H c w r l f = Ok (H', branch_of l f) /\
             ctx_param H' (ctxs H' c) name =
             Ok (expected_param (expected (serve_env H c w r) (shape_of (branch_of l f) l f)) name).
Proof. exact serve_param_proof. Qed.
Print Assumptions serve_param_current_request.

(* ... and on a CloneWith copy, whatever the pooled object taken for the copy
   held, it is the parent's (current request's) parameter of that name or empty *)
Theorem clone_with_param_current_request :
  forall H c cp w r H' pv wv name,
  observe H c = Ok pv -> pool_ok H cp -> sep H c cp ->
  c_fox (ctxs H cp) = c_fox (ctxs H c) -> writer_view H w = Ok wv ->
  clone_with H c cp w r = Ok H' ->
  ctx_param H' (ctxs H' cp) name = Ok (expected_param pv name).
Proof. exact clone_with_param_proof. Qed.
Print Assumptions clone_with_param_current_request.

(* NON-INTERFERENCE.  For all stale states (two arbitrary heaps, two arbitrary
   pooled objects: arbitrary leftovers in every field), one request of any
   ServeHTTP shape or a manual Lookup, followed by any handler actions: every
   observation is equal. *)
Theorem ctx_noninterference :
  forall (H1 H2 : heap) (c1 c2 w1 w2 r1 r2 : addr) (e : entry) (acts : list act),
    pool_ok H1 c1 -> pool_ok H2 c2 ->
    c_fox (ctxs H1 c1) = c_fox (ctxs H2 c2) ->
    lk_wf (entry_lk e) -> Forall act_ok acts ->
    same_request e H1 w1 r1 H2 w2 r2 ->
    session H1 c1 w1 r1 e acts = session H2 c2 w2 r2 e acts.
Proof. exact ctx_noninterference_proof. Qed.
Print Assumptions ctx_noninterference.

(* ... CloneWith into arbitrary stale pooled objects cp1 / cp2 ... *)
Theorem ctx_noninterference_clonewith :
  forall (H1 H2 : heap) (c1 c2 cp1 cp2 w1 w2 r1 r2 : addr) (pv : view) (wv : wview) (acts : list act),
    observe H1 c1 = Ok pv -> observe H2 c2 = Ok pv ->
    pool_ok H1 cp1 -> pool_ok H2 cp2 -> sep H1 c1 cp1 -> sep H2 c2 cp2 ->
    c_fox (ctxs H1 cp1) = c_fox (ctxs H1 c1) -> c_fox (ctxs H2 cp2) = c_fox (ctxs H2 c2) ->
    c_tree (ctxs H1 c1) <> None -> c_tree (ctxs H2 c2) <> None ->
    ext_live H1 w1 -> ext_live H2 w2 -> writer_view H1 w1 = Ok wv -> writer_view H2 w2 = Ok wv ->
    reqs H1 r1 = reqs H2 r2 -> Forall act_ok acts ->
    clone_with_session H1 c1 cp1 w1 r1 acts = clone_with_session H2 c2 cp2 w2 r2 acts.
Proof. exact clone_with_noninterference_proof. Qed.
Print Assumptions ctx_noninterference_clonewith.

(* ... and Clone of any live context (ServeHTTP, Lookup or CloneWith context alike). *)
Theorem ctx_noninterference_clone :
  forall (H1 H2 : heap) (c1 c2 : addr) (pv : view),
    observe H1 c1 = Ok pv -> observe H2 c2 = Ok pv ->
    query_coherent H1 c1 -> query_coherent H2 c2 ->
    (exists w, c_w (ctxs H1 c1) = Some (false, w)) -> (exists w, c_w (ctxs H2 c2) = Some (false, w)) ->
    exists H1' H2' cl1 cl2,
      clone_gen true H1 c1 = Ok (H1', cl1) /\ clone_gen true H2 c2 = Ok (H2', cl2) /\
      observe H1' cl1 = Ok pv /\ observe H2' cl2 = Ok pv.
Proof. exact clone_noninterference_proof. Qed.
Print Assumptions ctx_noninterference_clone.

(* CLONE_STABLE, part 1: at clone time the clone shows what the original
   shows, Clone does not panic, and nothing that existed is modified.
   (nu = true, a clone of a clone: the hijacked flag is not carried over.) *)
Theorem clone_equals_original :
  forall H c pv nu w,
  observe H c = Ok pv -> query_coherent H c ->
  c_w (ctxs H c) = Some (nu, w) -> (nu = true -> wv_hij (v_w pv) = false) ->
  exists H', clone_gen true H c = Ok (H', (next H + 4)%nat) /\
             observe H' (next H + 4)%nat = Ok pv /\
             next H' = (next H + 5)%nat /\ frame_below (next H) H H'.
Proof. exact (clone_view_correct true). Qed.
Print Assumptions clone_equals_original.

(* CLONE_STABLE, part 2: no later history (any ops of the model: requests
   reusing the original, planting, other clones, ...) that is not handed one of
   the clone's own objects changes what the clone shows, nor any of its fields. *)
Theorem clone_stable :
  forall (H : heap) (c : addr) (H' : heap) (cl : addr) (later : list op) (H'' : heap),
    wf_heap H ->
    clone_gen true H c = Ok (H', cl) ->
    (forall o, In o later -> forall a, In a (op_addrs o) -> ~ (next H <= a < next H + 5)%nat) ->
    exec true later H' = Some H'' ->
    observe H'' cl = observe H' cl /\ raw_of H'' cl = raw_of H' cl.
Proof. exact (clone_stable_proof true). Qed.
Print Assumptions clone_stable.

(* wf_heap (no pointer at or above the allocation counter) holds of every heap
   reachable from the empty heap by ops whose address arguments exist *)
Theorem wf_reachable :
  forall ops H, valid true ops empty_heap -> exec true ops empty_heap = Some H -> wf_heap H.
Proof. exact (wf_reachable_proof true). Qed.
Print Assumptions wf_reachable.

Theorem alloc_ctx_establishes_ownership :
  forall H t f cap, let '(H', c) := alloc_ctx H t f cap in
    pool_ok H' c /\ (forall x, pool_ok H x -> (x < next H)%nat -> pool_ok H' x).
Proof. exact alloc_ctx_pool_ok_proof. Qed.
Print Assumptions alloc_ctx_establishes_ownership.

(* ---------- the repaired defect (code before 036e194, fx = false) ---------- *)

(* the full statement "a clone shows what the original shows" was false of that code: *)
Theorem clone_of_lookup_refuted_prefix :
  exists a b, two_views (run false witness_ops empty_heap) = Some (a, b) /\
              view_eqb (norm_view a) (norm_view b) = false /\
              wv_status (v_w a) = 200%Z /\ wv_status (v_w b) = 418%Z /\
              hget (S2B "X-Secret") (wv_hdr (v_w b)) = Some (S2B "request-A") /\
              has_panic (run false witness2_ops empty_heap) = true.
Proof. exact clone_of_lookup_refuted_proof. Qed.
Print Assumptions clone_of_lookup_refuted_prefix.

(* what did hold of it: Clone was right when the context wrote through its own embedded recorder *)
Theorem clone_prefix_partial :
  forall H c pv nu w,
  observe H c = Ok pv -> query_coherent H c ->
  c_w (ctxs H c) = Some (nu, w) -> (nu = false /\ w = c_rec (ctxs H c)) ->
  exists H', clone_gen false H c = Ok (H', (next H + 4)%nat) /\
             observe H' (next H + 4)%nat = Ok pv /\
             next H' = (next H + 5)%nat /\ frame_below (next H) H H'.
Proof. exact (clone_view_correct false). Qed.
Print Assumptions clone_prefix_partial.

(* the same histories on the code as it is now *)
Theorem clone_of_lookup_fixed :
  (exists a b, two_views (run true witness_ops empty_heap) = Some (a, b) /\ a = b /\
               wv_status (v_w b) = 200%Z /\ hget (S2B "X-Secret") (wv_hdr (v_w b)) = None) /\
  (exists a b, two_views (run true witness2_ops empty_heap) = Some (a, b) /\ a = b).
Proof. exact clone_of_lookup_fixed_proof. Qed.
Print Assumptions clone_of_lookup_fixed.

(* ---------- non-vacuity: concrete states meeting the hypotheses ---------- *)

Example hypotheses_satisfiable_noninterference :
  pool_ok (heap_with staleA) 1 /\ pool_ok (heap_with staleB) 1 /\
  raw_of (heap_with staleA) 1 <> raw_of (heap_with staleB) 1 /\
  same_request (EServe lkT flags0) (heap_with staleA) 6 5 (heap_with staleB) 6 5 /\ lk_wf lkT.
Proof. exact (conj (proj1 noninterference_nonvacuous) (conj (proj1 (proj2 noninterference_nonvacuous))
        (conj (proj1 (proj2 (proj2 noninterference_nonvacuous))) (conj (proj1 (proj2 (proj2 (proj2 noninterference_nonvacuous)))) lkT_wf)))). Qed.
Print Assumptions hypotheses_satisfiable_noninterference.

Example hypotheses_satisfiable_lookup_clonewith :
  ext_live (heap_with staleA) 9 /\
  (exists H', lookup_api (heap_with staleA) 1 9 7 lkB = Ok (H', true) /\
     (exists pv, observe H' 1 = Ok pv /\ v_params pv = [(S2B "id", S2B "2")]) /\
     pool_ok H' 10 /\ sep H' 1 10 /\ c_tree (ctxs H' 1) <> None /\
     c_fox (ctxs H' 10) = c_fox (ctxs H' 1) /\
     (exists w, c_w (ctxs H' 1) = Some (false, w)) /\ query_coherent H' 1).
Proof. exact lookup_clonewith_nonvacuous. Qed.
Print Assumptions hypotheses_satisfiable_lookup_clonewith.

Example hypotheses_satisfiable_clone_stable :
  valid true (firstn 12 witness_ops) empty_heap /\
  exists H Hc cl H'',
    exec true (firstn 12 witness_ops) empty_heap = Some H /\
    clone_gen true H 1 = Ok (Hc, cl) /\
    (forall o, In o later_ops -> forall a, In a (op_addrs o) -> ~ (next H <= a < next H + 5)%nat) /\
    exec true later_ops Hc = Some H'' /\
    observe H'' 1 <> observe Hc 1.
Proof. exact clone_stable_nonvacuous. Qed.
Print Assumptions hypotheses_satisfiable_clone_stable.

Example hypotheses_satisfiable_param :
  exists H', exec true param_ops (heap_with staleA) = Some H' /\
    c_tsr (ctxs H' 10) = true /\
    rw_params (raw_of H' 10) = Some [(S2B "tenant", S2B "acme")] /\
    (exists pv, observe H' 10 = Ok pv /\ v_params pv = [(S2B "a", S2B "TOK")]) /\
    ctx_param H' (ctxs H' 10) (S2B "a") = Ok (S2B "TOK") /\
    ctx_param H' (ctxs H' 10) (S2B "tenant") = Ok [].
Proof. exact param_nonvacuous. Qed.
Print Assumptions hypotheses_satisfiable_param.
