(* C12, tie A: meaning of the primitives that harness/cmd/ctxgen emits into
   GenCtx.v, over the heap model of Context.v.  HAND-WRITTEN AND TRUSTED (like
   coq/Gen/GoSem.v): each definition is the meaning of ONE Go construct; the
   statements about field assignments use Context.v's own field setters,
   trunc_params, rec_reset, put_ctx, put_rec, slice_read directly.

   Nothing here mentions reset / resetNil / ... : which statements a method
   consists of is read from context.go on every run. *)
From FoxBase Require Import Bytes.
From FoxC12 Require Import Context.
From Coq Require Import ZArith Arith.
Open Scope list_scope.

(* dereferencing a pointer that may be nil *)
Definition deref {A} (p : option A) : res A := match p with Some a => Ok a | None => Panic end.

(* s[i] on the elements a `range` / index expression sees *)
Definition idx (ps : list param) (i : nat) : res param :=
  match nth_error ps i with Some e => Ok e | None => Panic end.

(* type Param struct { Key string; Value string } *)
Definition p_Key (p : param) : bytes := fst p.
Definition p_Value (p : param) : bytes := snd p.

(* ---------- iterators (iter.Seq[Param]): a run of the iterator function
   against a yield callback is the list of values passed to yield, and whether
   the function returned early.  [emit p k]: yield was called on p, then k. *)
Definition emit (p : param) (k : res (list param * bool)) : res (list param * bool) :=
  do tr <- k; Ok (p :: fst tr, snd tr).
(* statement sequencing: the second part runs unless the first returned *)
Definition seq_tr (a b : res (list param * bool)) : res (list param * bool) :=
  do ta <- a;
  if snd ta then Ok (fst ta, true)
  else do tb <- b; Ok (fst ta ++ fst tb, snd tb).

(* ---------- slices of Params (copyWithResize).  len is the header's length,
   cap the length of the backing array (Context.v: capacity = length of the list) *)
Definition sl_len (s : slice) : nat := s_len s.
Definition sl_cap (H : heap) (s : slice) : nat := List.length (arrs H (s_arr s)).
Definition zero_param : param := ([], []).

(* slices.Grow(s, n), n >= 0 (slices.go): `if n -= cap(s) - len(s); n > 0 {
   s = append(s[:cap(s)], make([]S, n)...)[:len(s)] }`.  The new array is at
   [fresh]; as everywhere in Context.v the capacity after a reallocation is the
   exact length needed (growth policy not modelled). *)
Definition slices_Grow (H : heap) (s : slice) (n : nat) (fresh : addr) : heap * slice :=
  if Nat.leb n (sl_cap H s - s_len s) then (H, s)
  else (put_arr H fresh (arrs H (s_arr s) ++ repeat zero_param (n - (sl_cap H s - s_len s))),
        mkSlice fresh (s_len s)).

(* s[:hi:max] (low = 0): panics unless hi <= max <= cap(s) *)
Definition sl_reslice3 (H : heap) (s : slice) (hi mx : nat) : res slice :=
  if Nat.leb hi mx && Nat.leb mx (sl_cap H s) then Ok (mkSlice (s_arr s) hi) else Panic.

(* copy(d, s): min(len d, len s) elements, memmove semantics *)
Definition sl_copy (H : heap) (d s : slice) : heap :=
  let n := Nat.min (s_len d) (s_len s) in
  put_arr H (s_arr d) (firstn n (arrs H (s_arr s)) ++ skipn n (arrs H (s_arr d))).

(* a slice header a Go program can hold: len <= cap *)
Definition slice_wf (H : heap) (s : slice) : Prop := (s_len s <= sl_cap H s)%nat.

(* ---------- recorder fields (response_writer.go:82) ---------- *)
Definition rset_under (x : recorder) v := mkRec v (r_size x) (r_status x) (r_hij x).
Definition rset_size (x : recorder) v := mkRec (r_under x) v (r_status x) (r_hij x).
Definition rset_status (x : recorder) v := mkRec (r_under x) (r_size x) v (r_hij x).
Definition rset_hij (x : recorder) v := mkRec (r_under x) (r_size x) (r_status x) v.

(* ---------- Clone: calls through the interface value c.w.  Every
   fox.ResponseWriter of the model is a recorder, possibly wrapped by noUnwrap
   (c_w = Some (wrapped?, recorder address)); noUnwrap forwards these methods.
   A call on the nil interface panics. ---------- *)
Definition w_rec (H : heap) (w : option (bool * addr)) : res recorder :=
  do p <- deref w; Ok (recs H (snd p)).
(* Header(): the embedded http.ResponseWriter's header map (nil: panics) *)
Definition w_Header (H : heap) (w : option (bool * addr)) : res addr :=
  do rw <- w_rec H w; do u <- deref (r_under rw); Ok (snd u).
Definition w_Status (H : heap) (w : option (bool * addr)) : res Z := do rw <- w_rec H w; Ok (r_status rw).
Definition w_Written (H : heap) (w : option (bool * addr)) : res bool := do rw <- w_rec H w; Ok (rec_written rw).
Definition w_Size (H : heap) (w : option (bool * addr)) : res Z := do rw <- w_rec H w; Ok (rec_size_getter rw).
(* R, ok := w.( *recorder): the dynamic type is *recorder unless w is nil or a noUnwrap wrapper *)
Definition w_as_recorder (w : option (bool * addr)) : option addr :=
  match w with Some (false, a) => Some a | _ => None end.
(* copy(d, s) on a local slice value with len = cap = length d *)
Definition list_copy (d s : list param) : list param :=
  let n := Nat.min (List.length d) (List.length s) in firstn n s ++ skipn n d.

(* two heaps with the same contents (stores are functions: a store written
   twice at one address is only extensionally equal to the store written once) *)
Definition heap_eqv (H1 H2 : heap) : Prop :=
  (forall a, arrs H1 a = arrs H2 a) /\ (forall a, hdrs H1 a = hdrs H2 a) /\
  (forall a, reqs H1 a = reqs H2 a) /\ (forall a, recs H1 a = recs H2 a) /\
  (forall a, ctxs H1 a = ctxs H2 a) /\ next H1 = next H2.
