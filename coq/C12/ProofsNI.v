(* C12 proofs, part 3: totality of the entry paths, sessions of handler
   actions, non-interference. *)
From FoxBase Require Import Bytes.
From FoxC12 Require Import Types Context Spec ProofsBasic ProofsView.
From Coq Require Import ZArith Lia.
Open Scope list_scope.

Definition tail_branch (f : sflags) : branch :=
  if f_options f && f_handle_opts f then match f_allow f with Some _ => BOptions | None => BNoRoute end
  else if f_handle_405 f then match f_allow f with Some _ => BNoMethod | None => BNoRoute end
  else BNoRoute.

(* which handler ServeHTTP runs: a function of the matcher's result and the flags only *)
Definition branch_of (l : lk) (f : sflags) : branch :=
  match lk_route l, lk_tsr l with
  | Some ri, false => BDirect
  | ro, t =>
      if negb (f_connect f) && negb (f_root f) && t then
        match ro with
        | None => BNoRoute
        | Some ri => if ri_ignore_ts ri then BIgnoreTsr
                     else if ri_redirect_ts ri && f_clean f then BRedirect else tail_branch f
        end
      else tail_branch f
  end.

Lemma live_qc H' c rc w :
  c_w (ctxs H' c) = Some (false, rc) -> recs H' rc = rec_reset w -> c_cq (ctxs H' c) = None ->
  live_writer H' c /\ query_coherent H' c.
Proof.
  intros Ew Er Eq. split.
  - exists false, rc, w. rewrite Er. simpl. repeat split; auto. unfold notWritten. lia.
  - unfold query_coherent. now rewrite Eq.
Qed.

Lemma serve_total H c w r l f :
  pool_ok H c -> lk_wf l ->
  exists H', serve H c w r l f = Ok (H', branch_of l f) /\ live_writer H' c /\ query_coherent H' c /\
             next H' = (next H + 2)%nat.
Proof.
  intros Hp Hwf. unfold serve.
  destruct (reset_lookup_spec H c w r l Hp) as (H2 & sp & st & E & Ec & Rp & Rt & Hne & L1 & L2 & Oc & Er & Eh & Eq & En).
  remember (do H1 <- reset H c w r; lookup_effect H1 c l) as RL eqn:ERL.
  unfold bind in ERL |- *. destruct (reset H c w r) as [H1|]; [|congruence].
  rewrite <- ERL, E. clear ERL.
  assert (Hrec : recs H2 (c_rec (ctxs H c)) = rec_reset w) by (rewrite Er; now upd_simpl).
  assert (Tail : exists Hx,
    (do x <- trunc_params (ctxs H2 c);
     let H := put_ctx H2 c x in
     let H := set_route_tsr H c None false in
     let noroute (H : heap) := Ok (put_ctx H c (cset_scope (ctxs H c) NoRouteHandler), BNoRoute) in
     if f_options f && f_handle_opts f then
       let H := lookup_lazy_effect H c (f_skip2 f) in
       match f_allow f with
       | Some a =>
           let H := put_hdr H w (hset HeaderAllow a (hdrs H w)) in
           Ok (put_ctx H c (cset_scope (ctxs H c) OptionsHandler), BOptions)
       | None => noroute H
       end
     else if f_handle_405 f then
       let H := lookup_lazy_effect H c (f_skip2 f) in
       match f_allow f with
       | Some a =>
           let H := put_hdr H w (hset HeaderAllow a (hdrs H w)) in
           Ok (put_ctx H c (cset_scope (ctxs H c) NoMethodHandler), BNoMethod)
       | None => noroute H
       end
     else noroute H) = Ok (Hx, tail_branch f) /\ live_writer Hx c /\ query_coherent Hx c /\ next Hx = (next H + 2)%nat).
  { rewrite Ec. unfold trunc_params, entered_ctx, tail_branch; simpl.
    destruct (f_options f && f_handle_opts f); [|destruct (f_handle_405 f)];
      try destruct (f_allow f) as [al|] eqn:EA;
      (eexists; split; [reflexivity|];
       split; [|split]; [ eapply (live_qc _ _ (c_rec (ctxs H c)) w) | eapply (live_qc _ _ (c_rec (ctxs H c)) w) | ];
       obs_simpl; auto). }
  unfold branch_of.
  destruct (lk_route l) as [ri|] eqn:Eroute; destruct (lk_tsr l) eqn:Etsr.
  - destruct (negb (f_connect f) && negb (f_root f) && true) eqn:Eg.
    + destruct (ri_ignore_ts ri) eqn:Eig.
      * eexists; split; [reflexivity|].
        split; [|split]; [ eapply (live_qc _ _ (c_rec (ctxs H c)) w) | eapply (live_qc _ _ (c_rec (ctxs H c)) w) | ];
          obs_simpl; rewrite ?Ec; simpl; auto.
      * destruct (ri_redirect_ts ri && f_clean f) eqn:Erd.
        -- rewrite Ec. unfold trunc_params, entered_ctx; simpl.
           eexists; split; [reflexivity|].
           split; [|split]; [ eapply (live_qc _ _ (c_rec (ctxs H c)) w) | eapply (live_qc _ _ (c_rec (ctxs H c)) w) | ];
             obs_simpl; auto.
        -- exact Tail.
    + exact Tail.
  - eexists; split; [reflexivity|].
    split; [|split]; [ eapply (live_qc _ _ (c_rec (ctxs H c)) w) | eapply (live_qc _ _ (c_rec (ctxs H c)) w) | ];
      obs_simpl; rewrite ?Ec; simpl; auto.
  - destruct (Hwf Etsr) as [_ Hr]. congruence.
  - replace (negb (f_connect f) && negb (f_root f) && false) with false by (now rewrite andb_false_r).
    exact Tail.
Qed.

(* ---------- sessions: entry, then any handler actions, observing after each ---------- *)

Fixpoint run_acts (acts : list act) (H : heap) (c : addr) : list (res view) :=
  match acts with
  | [] => []
  | a :: rest =>
      match hstep a H c with
      | Ok H' => observe H' c :: run_acts rest H' c
      | Panic => [Panic]
      end
  end.

Fixpoint spec_trace (acts : list act) (v : view) : list (res view) :=
  match acts with
  | [] => []
  | a :: rest => Ok (vstep a v) :: spec_trace rest (vstep a v)
  end.

Lemma run_acts_spec acts : forall H c v,
  observe H c = Ok v -> live_writer H c -> query_coherent H c -> Forall act_ok acts ->
  run_acts acts H c = spec_trace acts v.
Proof.
  induction acts as [|a rest IH]; intros H c v Hobs Hl Hq Hok; [reflexivity|].
  inversion Hok as [|? ? Ha Hrest]; subst.
  destruct (handler_step_correct a H c v Hobs Hl Hq Ha) as (H' & Es & Eo & Hl' & Hq' & _ & _).
  simpl. rewrite Es, Eo. f_equal. now apply IH.
Qed.

Definition serve_session H c w r l f acts : list (res view) :=
  match serve H c w r l f with
  | Ok (H', _) => observe H' c :: run_acts acts H' c
  | Panic => [Panic]
  end.

Lemma serve_session_spec H c w r l f acts :
  pool_ok H c -> lk_wf l -> Forall act_ok acts ->
  let v0 := expected (serve_env H c w r) (shape_of (branch_of l f) l f) in
  serve_session H c w r l f acts = Ok v0 :: spec_trace acts v0.
Proof.
  intros Hp Hwf Hok v0. unfold serve_session.
  destruct (serve_total H c w r l f Hp Hwf) as (H' & Es & Hl & Hq & _).
  rewrite Es.
  destruct (serve_view_correct H c w r l f H' _ Hp Hwf Es) as [Eo _].
  rewrite Eo. f_equal. now apply run_acts_spec.
Qed.

(* an external fox.ResponseWriter handed to Lookup / CloneWith: a recorder over a real writer *)
Definition ext_live (H : heap) (w : addr) : Prop :=
  exists h, r_under (recs H w) = Some (false, h) /\ (-1 <= r_size (recs H w))%Z.

Lemma lookup_total H c w r l :
  pool_ok H c -> ext_live H w ->
  exists H', lookup_api H c w r l = Ok (H', match lk_route l with Some _ => true | None => false end) /\
             (lk_route l <> None -> live_writer H' c /\ query_coherent H' c).
Proof.
  intros Hp (h & Eu & Hsz). pose proof Hp as (sp0 & st0 & Ep & Et & Hne & Hlp & Hlt).
  unfold lookup_api, resetWithWriter, trunc_params. simpl. rewrite Ep. simpl.
  set (H1 := put_ctx _ c _).
  assert (Hp1 : pool_ok H1 c).
  { exists (mkSlice (s_arr sp0) 0), st0. subst H1. simpl. upd_simpl. simpl. rewrite Et. repeat split; auto. }
  destruct (lookup_effect_spec H1 c l Hp1) as (H2 & sp0' & sp & st & EL & Ep' & Ec & Rp & Rt & Hne2 & L1 & L2 & Oc & Eh & Eq & Er & En).
  rewrite EL. subst H1. simpl in *. rewrite upd_same in Ec.
  destruct (lk_route l) as [ri|].
  - eexists. split; [reflexivity|]. intros _. split.
    + exists false, w, h. obs_simpl. rewrite Ec. simpl. rewrite Er. auto.
    + unfold query_coherent. obs_simpl. rewrite Ec. reflexivity.
  - eexists. split; [reflexivity|]. congruence.
Qed.

Definition lookup_session H c w r l acts : list (res view) :=
  match lookup_api H c w r l with
  | Ok (H', true) => observe H' c :: run_acts acts H' c
  | Ok (_, false) => []             (* no context is returned *)
  | Panic => [Panic]
  end.

Lemma lookup_session_spec H c w r l acts wv :
  pool_ok H c -> lk_wf l -> Forall act_ok acts -> ext_live H w -> writer_view H w = Ok wv ->
  lookup_session H c w r l acts =
    match lk_route l with
    | Some _ =>
        let v0 := expected (mkEnv (reqs H r) wv (c_fox (ctxs H c)))
                           (ShLookup (lk_rid l) (if lk_tsr l then lk_tsr_params l else lk_params l)) in
        Ok v0 :: spec_trace acts v0
    | None => []
    end.
Proof.
  intros Hp Hwf Hok Hext Hw. unfold lookup_session.
  destruct (lookup_total H c w r l Hp Hext) as (H' & El & Hlive).
  rewrite El. destruct (lk_route l) as [ri|] eqn:Eroute; [|reflexivity].
  assert (El' : lookup_api H c w r l = Ok (H', true)) by exact El.
  destruct (lookup_view_correct H c w r l H' wv Hp Hwf Hw El') as [Eo _].
  destruct Hlive as [Hl Hq]; [congruence|].
  cbv zeta. rewrite Eo. f_equal. now apply run_acts_spec.
Qed.

(* ---------- non-interference ---------- *)

Inductive entry := EServe (l : lk) (f : sflags) | ELookup (l : lk).

Definition entry_lk (e : entry) : lk := match e with EServe l _ => l | ELookup l => l end.

Definition session (H : heap) (c w r : addr) (e : entry) (acts : list act) : list (res view) :=
  match e with
  | EServe l f => serve_session H c w r l f acts
  | ELookup l => lookup_session H c w r l acts
  end.

(* the two runs are given the same request data: the request object, and the
   writer (for ServeHTTP the http.ResponseWriter's header map; for Lookup the
   state of the fox.ResponseWriter) *)
Definition same_request (e : entry) (H1 : heap) (w1 r1 : addr) (H2 : heap) (w2 r2 : addr) : Prop :=
  reqs H1 r1 = reqs H2 r2 /\
  match e with
  | EServe _ _ => hdrs H1 w1 = hdrs H2 w2
  | ELookup _ => ext_live H1 w1 /\ ext_live H2 w2 /\ exists wv, writer_view H1 w1 = Ok wv /\ writer_view H2 w2 = Ok wv
  end.

Theorem ctx_noninterference_proof :
  forall (H1 H2 : heap) (c1 c2 w1 w2 r1 r2 : addr) (e : entry) (acts : list act),
    pool_ok H1 c1 -> pool_ok H2 c2 ->
    c_fox (ctxs H1 c1) = c_fox (ctxs H2 c2) ->
    lk_wf (entry_lk e) -> Forall act_ok acts ->
    same_request e H1 w1 r1 H2 w2 r2 ->
    session H1 c1 w1 r1 e acts = session H2 c2 w2 r2 e acts.
Proof.
  intros H1 H2 c1 c2 w1 w2 r1 r2 e acts Hp1 Hp2 Hfox Hwf Hok [Hreq Hw].
  destruct e as [l f|l]; simpl in *.
  - rewrite (serve_session_spec H1 c1 w1 r1 l f acts Hp1 Hwf Hok).
    rewrite (serve_session_spec H2 c2 w2 r2 l f acts Hp2 Hwf Hok).
    unfold serve_env. now rewrite Hreq, Hw, Hfox.
  - destruct Hw as (He1 & He2 & wv & Hw1 & Hw2).
    rewrite (lookup_session_spec H1 c1 w1 r1 l acts wv Hp1 Hwf Hok He1 Hw1).
    rewrite (lookup_session_spec H2 c2 w2 r2 l acts wv Hp2 Hwf Hok He2 Hw2).
    now rewrite Hreq, Hfox.
Qed.

(* ---------- CloneWith and Clone: total, and non-interfering ---------- *)

Lemma clone_with_total H c cp w r pv :
  observe H c = Ok pv -> pool_ok H cp -> cp <> c -> c_tree (ctxs H c) <> None -> ext_live H w ->
  exists H', clone_with H c cp w r = Ok H' /\ live_writer H' cp /\ query_coherent H' cp.
Proof.
  intros Hobs (dp & dt & Ep & Et & Hne & Hlp & Hlt) Hcc Htree (h & Eu & Hsz).
  unfold clone_with. destruct (c_tree (ctxs H c)); [|congruence].
  unfold observe, ctx_params in Hobs.
  destruct (c_tsr (ctxs H c)) eqn:Etsr; simpl.
  - rewrite Et. destruct (c_tsrp (ctxs H c)) as [s|]; [|discriminate].
    destruct (copy_with_resize (bump H 1) dt s (next H)) as [H1 d'] eqn:EC.
    apply copy_with_resize_spec in EC. destruct EC as (_ & _ & _ & Eh & Eq & Er & Ec & En).
    eexists. split; [reflexivity|]. split.
    + exists false, w, h. obs_simpl. rewrite Er. auto.
    + unfold query_coherent. obs_simpl. reflexivity.
  - rewrite Ep. destruct (c_params (ctxs H c)) as [s|]; [|discriminate].
    destruct (copy_with_resize (bump H 1) dp s (next H)) as [H1 d'] eqn:EC.
    apply copy_with_resize_spec in EC. destruct EC as (_ & _ & _ & Eh & Eq & Er & Ec & En).
    eexists. split; [reflexivity|]. split.
    + exists false, w, h. obs_simpl. rewrite Er. auto.
    + unfold query_coherent. obs_simpl. reflexivity.
Qed.

Definition clone_with_session H c cp w r acts : list (res view) :=
  match clone_with H c cp w r with
  | Ok H' => observe H' cp :: run_acts acts H' cp
  | Panic => [Panic]
  end.

Lemma clone_with_session_spec H c cp w r acts pv wv :
  observe H c = Ok pv -> pool_ok H cp -> sep H c cp ->
  c_fox (ctxs H cp) = c_fox (ctxs H c) -> c_tree (ctxs H c) <> None ->
  ext_live H w -> writer_view H w = Ok wv -> Forall act_ok acts ->
  let v0 := expected_clone_with pv (reqs H r) wv in
  clone_with_session H c cp w r acts = Ok v0 :: spec_trace acts v0.
Proof.
  intros Hobs Hp Hsep Hfox Htree Hext Hw Hok v0. unfold clone_with_session.
  destruct (clone_with_total H c cp w r pv Hobs Hp (proj1 Hsep) Htree Hext) as (H' & Ecw & Hl & Hq).
  rewrite Ecw.
  destruct (clone_with_view_correct H c cp w r H' pv wv Hobs Hp Hsep Hfox Hw Ecw) as [Eo _].
  rewrite Eo. f_equal. now apply run_acts_spec.
Qed.

Theorem clone_with_noninterference_proof :
  forall (H1 H2 : heap) (c1 c2 cp1 cp2 w1 w2 r1 r2 : addr) (pv : view) (wv : wview) (acts : list act),
    observe H1 c1 = Ok pv -> observe H2 c2 = Ok pv ->
    pool_ok H1 cp1 -> pool_ok H2 cp2 -> sep H1 c1 cp1 -> sep H2 c2 cp2 ->
    c_fox (ctxs H1 cp1) = c_fox (ctxs H1 c1) -> c_fox (ctxs H2 cp2) = c_fox (ctxs H2 c2) ->
    c_tree (ctxs H1 c1) <> None -> c_tree (ctxs H2 c2) <> None ->
    ext_live H1 w1 -> ext_live H2 w2 -> writer_view H1 w1 = Ok wv -> writer_view H2 w2 = Ok wv ->
    reqs H1 r1 = reqs H2 r2 -> Forall act_ok acts ->
    clone_with_session H1 c1 cp1 w1 r1 acts = clone_with_session H2 c2 cp2 w2 r2 acts.
Proof.
  intros. 
  rewrite (clone_with_session_spec H1 c1 cp1 w1 r1 acts pv wv) by assumption.
  rewrite (clone_with_session_spec H2 c2 cp2 w2 r2 acts pv wv) by assumption.
  congruence.
Qed.

(* Clone (code after 036e194): whatever the context, a live one (not itself a
   clone) yields a clone showing exactly what the original shows *)
Theorem clone_noninterference_proof :
  forall (H1 H2 : heap) (c1 c2 : addr) (pv : view),
    observe H1 c1 = Ok pv -> observe H2 c2 = Ok pv ->
    query_coherent H1 c1 -> query_coherent H2 c2 ->
    (exists w, c_w (ctxs H1 c1) = Some (false, w)) -> (exists w, c_w (ctxs H2 c2) = Some (false, w)) ->
    exists H1' H2' cl1 cl2,
      clone_gen true H1 c1 = Ok (H1', cl1) /\ clone_gen true H2 c2 = Ok (H2', cl2) /\
      observe H1' cl1 = Ok pv /\ observe H2' cl2 = Ok pv.
Proof.
  intros H1 H2 c1 c2 pv O1 O2 Q1 Q2 (w1 & E1) (w2 & E2).
  destruct (clone_view_correct true H1 c1 pv false w1 O1 Q1 E1) as (H1' & C1 & V1 & _); [discriminate|].
  destruct (clone_view_correct true H2 c2 pv false w2 O2 Q2 E2) as (H2' & C2 & V2 & _); [discriminate|].
  exists H1', H2', (next H1 + 4)%nat, (next H2 + 4)%nat. auto.
Qed.

(* ---------- packaged statements ---------- *)

Theorem serve_correct_proof :
  forall H c w r l f, pool_ok H c -> lk_wf l ->
  exists H', serve H c w r l f = Ok (H', branch_of l f) /\
             observe H' c = Ok (expected (serve_env H c w r) (shape_of (branch_of l f) l f)) /\
             pool_ok H' c.
Proof.
  intros H c w r l f Hp Hwf.
  destruct (serve_total H c w r l f Hp Hwf) as (H' & Es & _).
  exists H'. split; [exact Es|]. exact (serve_view_correct H c w r l f H' _ Hp Hwf Es).
Qed.

Theorem lookup_correct_proof :
  forall H c w r l wv, pool_ok H c -> lk_wf l -> ext_live H w -> writer_view H w = Ok wv ->
  exists H', lookup_api H c w r l = Ok (H', match lk_route l with Some _ => true | None => false end) /\
             (lk_route l <> None ->
              observe H' c = Ok (expected (mkEnv (reqs H r) wv (c_fox (ctxs H c)))
                                          (ShLookup (lk_rid l) (if lk_tsr l then lk_tsr_params l else lk_params l))) /\
              pool_ok H' c).
Proof.
  intros H c w r l wv Hp Hwf Hext Hw.
  destruct (lookup_total H c w r l Hp Hext) as (H' & El & _).
  exists H'. split; [exact El|]. intros Hr.
  destruct (lk_route l) as [ri|] eqn:E; [|congruence].
  exact (lookup_view_correct H c w r l H' wv Hp Hwf Hw El).
Qed.

(* tree.allocateContext establishes the ownership invariant *)
Theorem alloc_ctx_pool_ok_proof :
  forall H t f cap, let '(H', c) := alloc_ctx H t f cap in
    pool_ok H' c /\ (forall x, pool_ok H x -> (x < next H)%nat -> pool_ok H' x).
Proof.
  intros H t f cap. unfold alloc_ctx. split.
  - exists (mkSlice (S (S (next H))) 0), (mkSlice (S (S (S (next H)))) 0). simpl. upd_simpl. simpl.
    repeat split; lia.
  - intros x (sp & st & A & B & C & D & E) Hx. exists sp, st. simpl. rewrite upd_other by lia.
    repeat split; auto; lia.
Qed.
