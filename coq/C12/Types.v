(* C12: value types shared by the specification and the model: parameters,
   header maps, requests, and the view (everything the getters return). *)
From FoxBase Require Import Bytes.
From Coq Require Import ZArith.
Open Scope list_scope.

Definition param := (bytes * bytes)%type.
Definition hmap := list (bytes * bytes).
Definition qvals := list (bytes * bytes).

Record request := mkReq {
  q_method : bytes; q_host : bytes; q_path : bytes;
  q_query : qvals;            (* URL.Query() of the raw query *)
  q_hdr : hmap;               (* request headers *)
  q_remote : bytes }.

Definition hset (k v : bytes) (m : hmap) : hmap :=
  (k, v) :: filter (fun kv => negb (bytes_eqb (fst kv) k)) m.

Fixpoint hget (k : bytes) (m : hmap) : option bytes :=
  match m with
  | [] => None
  | (k', v) :: r => if bytes_eqb k' k then Some v else hget k r
  end.

Definition HeaderAllow : bytes := S2B "Allow".

(* HandlerScope constants (fox.go:81-92): 1 << (7 - iota) *)
Definition RouteHandler : N := 128%N.
Definition NoRouteHandler : N := 64%N.
Definition NoMethodHandler : N := 32%N.
Definition RedirectHandler : N := 16%N.
Definition OptionsHandler : N := 8%N.

Record wview := mkWv { wv_status : Z; wv_size : Z; wv_written : bool; wv_hdr : hmap; wv_hij : bool }.
Record view := mkView {
  v_params : list param;       (* Params() / Param() *)
  v_route : option N;          (* Route() / Pattern() *)
  v_req : request;             (* Request(), Method(), Path(), Host(), Header() *)
  v_query : qvals;             (* QueryParams() / QueryParam() *)
  v_w : wview;                 (* Writer().Status/Size/Written/Header *)
  v_scope : N;                 (* Scope() *)
  v_fox : N }.                 (* Fox() *)
