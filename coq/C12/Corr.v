(* C12 correspondence: functions evaluated by the case files the harness writes.
   A case is a history (list of ops) together with what the implementation
   showed at every observation point and, per observation, the derivation of
   the view the specification demands. *)
From FoxBase Require Import Bytes.
From FoxC12 Require Import Types Context Ops Spec.
From Coq Require Import ZArith.
Open Scope list_scope.

(* ---------- decidable equalities ---------- *)
Definition pair_eqb {A B} (ea : A -> A -> bool) (eb : B -> B -> bool) (x y : A * B) : bool :=
  ea (fst x) (fst y) && eb (snd x) (snd y).
Definition kv_eqb := pair_eqb bytes_eqb bytes_eqb.
Definition kvs_eqb := list_eqb kv_eqb.

Definition request_eqb (a b : request) : bool :=
  bytes_eqb (q_method a) (q_method b) && bytes_eqb (q_host a) (q_host b) && bytes_eqb (q_path a) (q_path b)
  && kvs_eqb (q_query a) (q_query b) && kvs_eqb (q_hdr a) (q_hdr b) && bytes_eqb (q_remote a) (q_remote b).

Definition wview_eqb (a b : wview) : bool :=
  Z.eqb (wv_status a) (wv_status b) && Z.eqb (wv_size a) (wv_size b) && Bool.eqb (wv_written a) (wv_written b)
  && kvs_eqb (wv_hdr a) (wv_hdr b) && Bool.eqb (wv_hij a) (wv_hij b).

Definition view_eqb (a b : view) : bool :=
  kvs_eqb (v_params a) (v_params b) && opt_eqb N.eqb (v_route a) (v_route b) && request_eqb (v_req a) (v_req b)
  && kvs_eqb (v_query a) (v_query b) && wview_eqb (v_w a) (v_w b) && N.eqb (v_scope a) (v_scope b)
  && N.eqb (v_fox a) (v_fox b).

Definition ba_eqb := pair_eqb Bool.eqb Nat.eqb.
Definition recorder_eqb (a b : recorder) : bool :=
  opt_eqb ba_eqb (r_under a) (r_under b) && Z.eqb (r_size a) (r_size b) && Z.eqb (r_status a) (r_status b)
  && Bool.eqb (r_hij a) (r_hij b).

Definition raw_eqb (a b : raw) : bool :=
  opt_eqb ba_eqb (rw_w a) (rw_w b) && opt_eqb Nat.eqb (rw_req a) (rw_req b)
  && opt_eqb kvs_eqb (rw_params a) (rw_params b) && opt_eqb kvs_eqb (rw_tsrp a) (rw_tsrp b)
  && opt_eqb N.eqb (rw_route a) (rw_route b) && opt_eqb kvs_eqb (rw_cq a) (rw_cq b)
  && N.eqb (rw_scope a) (rw_scope b) && Bool.eqb (rw_tsr a) (rw_tsr b) && recorder_eqb (rw_rec a) (rw_rec b).

Definition branch_eqb (a b : branch) : bool :=
  match a, b with
  | BDirect, BDirect | BIgnoreTsr, BIgnoreTsr | BRedirect, BRedirect | BOptions, BOptions
  | BNoMethod, BNoMethod | BNoRoute, BNoRoute => true
  | _, _ => false
  end.

(* ---------- header maps are compared as sets: sort by key ---------- *)
Fixpoint bytes_leb (a b : bytes) : bool :=
  match a, b with
  | [], _ => true
  | _ :: _, [] => false
  | x :: a', y :: b' =>
      let nx := N_of_ascii x in let ny := N_of_ascii y in
      if N.ltb nx ny then true else if N.ltb ny nx then false else bytes_leb a' b'
  end.
Fixpoint kv_insert (kv : bytes * bytes) (l : hmap) : hmap :=
  match l with
  | [] => [kv]
  | x :: r => if bytes_leb (fst kv) (fst x) then kv :: l else x :: kv_insert kv r
  end.
Definition hnorm (m : hmap) : hmap := fold_right kv_insert [] m.

Definition norm_req (q : request) : request :=
  mkReq (q_method q) (q_host q) (q_path q) (q_query q) (hnorm (q_hdr q)) (q_remote q).
Definition norm_wv (w : wview) : wview :=
  mkWv (wv_status w) (wv_size w) (wv_written w) (hnorm (wv_hdr w)) (wv_hij w).
Definition norm_view (v : view) : view :=
  mkView (v_params v) (v_route v) (norm_req (v_req v)) (v_query v) (norm_wv (v_w v)) (v_scope v) (v_fox v).

Definition resview_eqb (a b : res view) : bool :=
  match a, b with
  | Ok x, Ok y => view_eqb (norm_view x) (norm_view y)
  | Panic, Panic => true
  | _, _ => false
  end.

Definition resbytes_eqb (a b : res bytes) : bool :=
  match a, b with
  | Ok x, Ok y => bytes_eqb x y
  | Panic, Panic => true
  | _, _ => false
  end.

Definition out_eqb (a b : out) : bool :=
  match a, b with
  | OutObs v r, OutObs v' r' => resview_eqb v v' && raw_eqb r r'
  | OutBranch x, OutBranch y => branch_eqb x y
  | OutLookup x, OutLookup y => Bool.eqb x y
  | OutPanic, OutPanic => true
  | OutParam x, OutParam y => list_eqb (pair_eqb bytes_eqb resbytes_eqb) x y
  | _, _ => false
  end.

(* ---------- cases ---------- *)

(* derivation of the view the specification demands at an observation point;
   [k] refers to the k-th view the IMPLEMENTATION showed in this case *)
Inductive xspec :=
| XNone
| XEntry (e : reqenv) (wk : option nat) (s : shape) (acts : list act)
    (* wk = Some k: the writer given to Lookup is the one observation k shows *)
| XCloneWith (k : nat) (r' : option request) (w' : option wview) (acts : list act)
    (* None: the parent's own request / writer was passed *)
| XSame (k : nat).

Record case := mkCase {
  cs_model : bool;            (* false: specification only (concurrent runs) *)
  cs_ops : list op;
  cs_outs : list out;         (* what the implementation did *)
  cs_spec : list xspec;       (* one per OutObs of cs_outs, in order *)
  cs_tag : N }.               (* 1: regression witness of c12-clone-stale-recorder *)

Definition model_agrees (fx : bool) (c : case) : bool :=
  negb (cs_model c) || list_eqb out_eqb (run fx (cs_ops c) empty_heap) (cs_outs c).

Definition obs_views (outs : list out) : list (res view) :=
  flat_map (fun o => match o with OutObs v _ => [v] | _ => [] end) outs.

Definition has_panic (outs : list out) : bool :=
  existsb (fun o => match o with
                    | OutPanic => true | OutObs Panic _ => true
                    | OutParam l => existsb (fun kv => match snd kv with Panic => true | Ok _ => false end) l
                    | _ => false end) outs.

Definition demanded (views : list (res view)) (x : xspec) : option view :=
  match x with
  | XNone => None
  | XEntry e None s acts => Some (vsteps acts (expected e s))
  | XEntry e (Some k) s acts =>
      match nth_error views k with
      | Some (Ok p) => Some (vsteps acts (expected (mkEnv (e_req e) (v_w p) (e_fox e)) s))
      | _ => None
      end
  | XCloneWith k r' w' acts =>
      match nth_error views k with
      | Some (Ok p) =>
          Some (vsteps acts (expected_clone_with p (match r' with Some r => r | None => v_req p end)
                                                   (match w' with Some w => w | None => v_w p end)))
      | _ => None
      end
  | XSame k => match nth_error views k with Some (Ok p) => Some (expected_clone p) | _ => None end
  end.

Fixpoint all_ok (views : list (res view)) (vs : list (res view)) (xs : list xspec) : bool :=
  match vs, xs with
  | [], [] => true
  | v :: vs', x :: xs' =>
      (match demanded views x, x with
       | Some d, _ => resview_eqb v (Ok d)
       | None, XNone => true
       | None, _ => false
       end) && all_ok views vs' xs'
  | _, _ => false
  end.

(* Param(name), asked right after an observation: the specification's answer
   on the view DEMANDED at that observation ([cur]; the derivation list [xs]
   advances with every OutObs).  Where nothing is demanded (XNone) the answer
   must at least be the one for the parameters the observation itself showed. *)
Fixpoint getters_ok (views : list (res view)) (outs : list out) (xs : list xspec) (cur : option view) : bool :=
  match outs with
  | [] => true
  | OutObs v _ :: r =>
      match xs with
      | x :: xs' =>
          getters_ok views r xs' (match demanded views x, v with
                                  | Some d, _ => Some d
                                  | None, Ok s => Some s
                                  | None, Panic => None
                                  end)
      | [] => false
      end
  | OutParam l :: r =>
      (match cur with
       | Some d => forallb (fun kv => resbytes_eqb (snd kv) (Ok (expected_param d (fst kv)))) l
       | None => true
       end) && getters_ok views r xs cur
  | _ :: r => getters_ok views r xs cur
  end.

(* every legal use of the API in a generated history must succeed (no panic),
   every observation must be the demanded view and every Param(name) the
   demanded view's answer *)
Definition spec_ok (c : case) : bool :=
  let views := obs_views (cs_outs c) in
  negb (has_panic (cs_outs c)) && all_ok views views (cs_spec c)
  && getters_ok views (cs_outs c) (cs_spec c) None.

Definition mismatches (fx : bool) (cs : list case) : list nat := true_idx (map (fun c => negb (model_agrees fx c)) cs).
Definition spec_violations (cs : list case) : list nat := true_idx (map (fun c => negb (spec_ok c)) cs).
Definition fuel_outs (cs : list case) : list nat := [].   (* the model has no fuel: all recursion is structural *)
Definition witness_cases (cs : list case) : list nat := true_idx (map (fun c => N.eqb (cs_tag c) 1) cs).
