(* C12, tie A: the model with the GENERATED life-cycle methods plugged in, and
   the clauses of C12 about it.

   serve_src, lookup_api_src, step_src, exec_src, the *_session_src are not
   retyped: each is obtained from the hand-written definition of Context.v /
   Ops.v / ProofsNI.v by replacing one constant with its generated counterpart
   ([repl]: Ltac [pattern], fails when the constant does not occur).  The
   bridge lemmas of BridgeCtx.v then transport the theorems of Props_C12.v. *)
From FoxBase Require Import Bytes.
From FoxC12 Require Import Types Context CtxSem GenCtx Ops Spec Corr ProofsBasic ProofsView ProofsNI ProofsParam
  ProofsNext ProofsStable ProofsClone Witness BridgeCtx.
From Coq Require Import ZArith Arith Lia List.
Open Scope list_scope.

Ltac repl t old new :=
  let t' := (eval pattern old in t) in
  lazymatch t' with
  | (fun _ => ?b) _ => fail 0 "the constant to be replaced does not occur"
  | ?F _ => let r := (eval cbv beta in (F new)) in r
  end.

(* ServeHTTP's assignments with cTx.reset as generated *)
Definition serve_src : heap -> addr -> addr -> addr -> lk -> sflags -> res (heap * branch) :=
  ltac:(let t := (eval cbv delta [serve] in serve) in let t := repl t reset gen_reset in exact t).

(* Router.Lookup with cTx.resetWithWriter as generated *)
Definition lookup_api_src : heap -> addr -> addr -> addr -> lk -> res (heap * bool) :=
  ltac:(let t := (eval cbv delta [lookup_api] in lookup_api) in let t := repl t resetWithWriter gen_resetWithWriter in exact t).

(* one op of a history: ServeHTTP, Lookup, resetNil (Router.Lookup's no-match
   path), CloneWith are the generated ones *)
Definition step_src : bool -> op -> heap -> res heap * list out :=
  ltac:(let t := (eval cbv delta [step] in step) in
        let t := repl t serve serve_src in
        let t := repl t lookup_api lookup_api_src in
        let t := repl t resetNil gen_resetNil in
        let t := repl t clone_with gen_CloneWith in
        exact t).

Definition exec_src : bool -> list op -> heap -> option heap :=
  ltac:(let t := (eval cbv delta [exec] in exec) in let t := repl t step step_src in exact t).

Definition serve_session_src :=
  ltac:(let t := (eval cbv delta [serve_session] in serve_session) in let t := repl t serve serve_src in exact t).
Definition lookup_session_src :=
  ltac:(let t := (eval cbv delta [lookup_session] in lookup_session) in let t := repl t lookup_api lookup_api_src in exact t).
Definition session_src :=
  ltac:(let t := (eval cbv delta [session] in session) in
        let t := repl t serve_session serve_session_src in
        let t := repl t lookup_session lookup_session_src in exact t).
Definition clone_with_session_src :=
  ltac:(let t := (eval cbv delta [clone_with_session] in clone_with_session) in let t := repl t clone_with gen_CloneWith in exact t).

Lemma serve_src_eq H c w r l f : serve_src H c w r l f = serve H c w r l f.
Proof. unfold serve_src, serve. now rewrite gen_reset_eq. Qed.

Lemma lookup_api_src_eq H c w r l : lookup_api_src H c w r l = lookup_api H c w r l.
Proof. unfold lookup_api_src, lookup_api. now rewrite gen_resetWithWriter_eq. Qed.

(* rewrite with a bridge equality only where its left-hand side occurs syntactically
   (a failing [rewrite] would compare the big definitions up to conversion) *)
Ltac bridge_rw :=
  repeat match goal with
  | |- context [serve_src ?H ?c ?w ?r ?l ?f] => rewrite (serve_src_eq H c w r l f)
  | |- context [lookup_api_src ?H ?c ?w ?r ?l] => rewrite (lookup_api_src_eq H c w r l)
  | |- context [gen_resetNil ?H ?c] => rewrite (gen_resetNil_eq H c)
  | |- context [gen_CloneWith ?H ?c ?cp ?w ?r] => rewrite (gen_CloneWith_eq H c cp w r)
  end.

Lemma step_src_eq fx o H : step_src fx o H = step fx o H.
Proof. destruct o; unfold step_src, step; bridge_rw; reflexivity. Qed.

Lemma exec_src_eq fx ops : forall H, exec_src fx ops H = exec fx ops H.
Proof.
  induction ops as [|o rest IH]; intro H; [reflexivity|].
  cbn [exec_src exec]. rewrite step_src_eq. destruct (fst (step fx o H)); [apply IH|reflexivity].
Qed.

Lemma session_src_eq H c w r e acts : session_src H c w r e acts = session H c w r e acts.
Proof.
  destruct e; unfold session_src, session, serve_session_src, serve_session, lookup_session_src, lookup_session;
    bridge_rw; reflexivity.
Qed.

Lemma clone_with_session_src_eq H c cp w r acts :
  clone_with_session_src H c cp w r acts = clone_with_session H c cp w r acts.
Proof. unfold clone_with_session_src, clone_with_session. now rewrite gen_CloneWith_eq. Qed.

(* ---------- reset ---------- *)

Lemma serve_src_correct :
  forall H c w r l f, pool_ok H c -> lk_wf l ->
  exists H', serve_src H c w r l f = Ok (H', branch_of l f) /\
             observe H' c = Ok (expected (serve_env H c w r) (shape_of (branch_of l f) l f)) /\
             pool_ok H' c.
Proof. intros. rewrite serve_src_eq. now apply serve_correct_proof. Qed.

(* the state every ServeHTTP branch starts from, whatever the pooled object held *)
Lemma gen_reset_entry_state :
  forall H c w r l, pool_ok H c ->
  exists H2 sp st,
    (do H1 <- gen_reset H c w r; lookup_effect H1 c l) = Ok H2 /\
    ctxs H2 c = entered_ctx (ctxs H c) r sp st (lk_skip l) /\
    slice_read H2 sp = lk_params l /\
    recs H2 = upd (recs H) (c_rec (ctxs H c)) (rec_reset w).
Proof.
  intros H c w r l Hp. rewrite gen_reset_eq.
  destruct (reset_lookup_spec H c w r l Hp) as (H2 & sp & st & E & Ec & Es & _ & _ & _ & _ & _ & Er & _).
  exists H2, sp, st. auto.
Qed.

Lemma serve_src_param :
  forall H c w r l f name, pool_ok H c -> lk_wf l ->
  exists H', serve_src H c w r l f = Ok (H', branch_of l f) /\
             gen_Param H' c name =
             Ok (expected_param (expected (serve_env H c w r) (shape_of (branch_of l f) l f)) name).
Proof.
  intros H c w r l f name Hp Hw. rewrite serve_src_eq.
  destruct (serve_param_proof H c w r l f name Hp Hw) as (H' & E & P).
  exists H'. now rewrite gen_Param_eq.
Qed.

Lemma noninterference_src :
  forall (H1 H2 : heap) (c1 c2 w1 w2 r1 r2 : addr) (e : entry) (acts : list act),
    pool_ok H1 c1 -> pool_ok H2 c2 ->
    c_fox (ctxs H1 c1) = c_fox (ctxs H2 c2) ->
    lk_wf (entry_lk e) -> Forall act_ok acts ->
    same_request e H1 w1 r1 H2 w2 r2 ->
    session_src H1 c1 w1 r1 e acts = session_src H2 c2 w2 r2 e acts.
Proof.
  intros H1 H2 c1 c2 w1 w2 r1 r2 e acts P1 P2 Ef Wl Fa Sr.
  etransitivity; [apply session_src_eq|]. etransitivity; [|symmetry; apply session_src_eq].
  exact (ctx_noninterference_proof H1 H2 c1 c2 w1 w2 r1 r2 e acts P1 P2 Ef Wl Fa Sr).
Qed.

(* ---------- resetWithWriter ---------- *)

Lemma lookup_src_correct :
  forall H c w r l wv, pool_ok H c -> lk_wf l -> ext_live H w -> writer_view H w = Ok wv ->
  exists H', lookup_api_src H c w r l = Ok (H', match lk_route l with Some _ => true | None => false end) /\
             (lk_route l <> None ->
              observe H' c = Ok (expected (mkEnv (reqs H r) wv (c_fox (ctxs H c)))
                                          (ShLookup (lk_rid l) (if lk_tsr l then lk_tsr_params l else lk_params l))) /\
              pool_ok H' c).
Proof. intros. rewrite lookup_api_src_eq. now apply lookup_correct_proof. Qed.

(* ---------- resetNil (and every other generated entry point): a clone is not
   disturbed by later histories that run the generated methods ---------- *)

Lemma clone_stable_src :
  forall (H : heap) (c : addr) (H' : heap) (cl : addr) (later : list op) (H'' : heap),
    wf_heap H ->
    clone_gen true H c = Ok (H', cl) ->
    (forall o, In o later -> forall a, In a (op_addrs o) -> ~ (next H <= a < next H + 5)%nat) ->
    exec_src true later H' = Some H'' ->
    observe H'' cl = observe H' cl /\ raw_of H'' cl = raw_of H' cl.
Proof. intros H c H' cl later H'' W C A. rewrite exec_src_eq. now apply (clone_stable_proof true H c H' cl later H''). Qed.

Lemma clone_survives_gen_resetNil :
  forall (H : heap) (c : addr) (H' : heap) (cl : addr) (c0 : addr) (H'' : heap),
    wf_heap H ->
    clone_gen true H c = Ok (H', cl) ->
    ~ (next H <= c0 < next H + 5)%nat ->
    gen_resetNil H' c0 = Ok H'' ->
    observe H'' cl = observe H' cl /\ raw_of H'' cl = raw_of H' cl.
Proof.
  intros H c H' cl c0 H'' W C A E.
  apply (clone_stable_proof true H c H' cl [OResetNil c0] H'' W C).
  - intros o [<-|[]] a [<-|[]]. exact A.
  - cbn [exec step fst]. rewrite <- gen_resetNil_eq, E. reflexivity.
Qed.

(* ---------- CloneWith ---------- *)

Lemma gen_CloneWith_correct :
  forall H c cp w r H' pv wv,
  observe H c = Ok pv -> pool_ok H cp -> sep H c cp ->
  c_fox (ctxs H cp) = c_fox (ctxs H c) -> writer_view H w = Ok wv ->
  gen_CloneWith H c cp w r = Ok H' ->
  observe H' cp = Ok (expected_clone_with pv (reqs H r) wv) /\ observe H' c = Ok pv.
Proof. intros H c cp w r H' pv wv. rewrite gen_CloneWith_eq. apply clone_with_view_correct. Qed.

Lemma gen_CloneWith_param :
  forall H c cp w r H' pv wv name,
  observe H c = Ok pv -> pool_ok H cp -> sep H c cp ->
  c_fox (ctxs H cp) = c_fox (ctxs H c) -> writer_view H w = Ok wv ->
  gen_CloneWith H c cp w r = Ok H' ->
  gen_Param H' cp name = Ok (expected_param pv name).
Proof.
  intros H c cp w r H' pv wv name. rewrite gen_CloneWith_eq, gen_Param_eq. apply clone_with_param_proof.
Qed.

Lemma noninterference_clonewith_src :
  forall (H1 H2 : heap) (c1 c2 cp1 cp2 w1 w2 r1 r2 : addr) (pv : view) (wv : wview) (acts : list act),
    observe H1 c1 = Ok pv -> observe H2 c2 = Ok pv ->
    pool_ok H1 cp1 -> pool_ok H2 cp2 -> sep H1 c1 cp1 -> sep H2 c2 cp2 ->
    c_fox (ctxs H1 cp1) = c_fox (ctxs H1 c1) -> c_fox (ctxs H2 cp2) = c_fox (ctxs H2 c2) ->
    c_tree (ctxs H1 c1) <> None -> c_tree (ctxs H2 c2) <> None ->
    ext_live H1 w1 -> ext_live H2 w2 -> writer_view H1 w1 = Ok wv -> writer_view H2 w2 = Ok wv ->
    reqs H1 r1 = reqs H2 r2 -> Forall act_ok acts ->
    clone_with_session_src H1 c1 cp1 w1 r1 acts = clone_with_session_src H2 c2 cp2 w2 r2 acts.
Proof.
  intros H1 H2 c1 c2 cp1 cp2 w1 w2 r1 r2 pv wv acts.
  intros. etransitivity; [apply clone_with_session_src_eq|]. etransitivity; [|symmetry; apply clone_with_session_src_eq].
  now apply (clone_with_noninterference_proof H1 H2 c1 c2 cp1 cp2 w1 w2 r1 r2 pv wv acts).
Qed.

(* ---------- Param / Params ---------- *)

Lemma gen_Param_of_observe :
  forall H c v name, observe H c = Ok v -> gen_Param H c name = Ok (expected_param v name).
Proof. intros. rewrite gen_Param_eq. now apply param_of_observe. Qed.

Lemma gen_Params_of_observe :
  forall H c v yield, observe H c = Ok v -> gen_Params H c yield = Ok (fst (yielded yield (v_params v))).
Proof. intros H c v yield E. rewrite gen_Params_eq, (observe_params H c v E). reflexivity. Qed.

Lemma gen_Params_all_of_observe :
  forall H c v, observe H c = Ok v -> gen_Params H c (fun _ => true) = Ok (v_params v).
Proof. intros H c v E. rewrite gen_Params_all_eq. now apply observe_params. Qed.

(* ---------- copyWithResize ---------- *)

Lemma slice_read_eqv H1 H2 s : heap_eqv H1 H2 -> slice_read H1 s = slice_read H2 s.
Proof. intros (Ea & _). unfold slice_read. now rewrite Ea. Qed.

Lemma gen_copyWithResize_copies :
  forall H dst src fresh, slice_wf H dst -> slice_wf H src -> s_arr src <> fresh ->
  exists H' d', gen_copyWithResize H dst src fresh = Ok (H', d') /\
                slice_read H' d' = slice_read H src /\
                (s_arr d' = s_arr dst \/ s_arr d' = fresh) /\
                (forall a, a <> s_arr dst -> a <> fresh -> arrs H' a = arrs H a) /\
                (forall a, ctxs H' a = ctxs H a) /\ next H' = next H.
Proof.
  intros H dst src fresh Wd Ws Hf.
  destruct (gen_copyWithResize_eqv H dst src fresh Wd Ws Hf) as (H' & E & Ev).
  destruct (copy_with_resize H dst src fresh) as [H0 d0] eqn:E0. cbn [fst snd] in *.
  destruct (copy_with_resize_spec _ _ _ _ _ _ E0) as (R & A & O & _ & _ & _ & C & N).
  exists H', d0. split; [exact E|].
  pose proof Ev as (Ea & _ & _ & _ & Ec & En).
  split; [rewrite (slice_read_eqv _ _ d0 Ev); exact R|].
  split; [exact A|]. split; [intros a N1 N2; rewrite Ea; now apply O|].
  split; [intro a; rewrite Ec, C; reflexivity | congruence].
Qed.

(* ---------- CloneWith, linked with the generated copyWithResize ---------- *)

Lemma observe_eqv H1 H2 c : heap_eqv H1 H2 -> observe H1 c = observe H2 c.
Proof.
  intros (Ea & Eh & Eq & Er & Ec & _). apply observe_ext.
  - apply Ec.
  - intros s _. apply Ea.
  - intros r _. apply Eq.
  - intros nu w _. split; [apply Er|]. intros nu' h _. apply Eh.
Qed.

Lemma gen_CloneWith_linked_correct :
  forall H c cp w r pv wv,
  observe H c = Ok pv -> pool_ok H cp -> sep H c cp ->
  c_fox (ctxs H cp) = c_fox (ctxs H c) -> writer_view H w = Ok wv ->
  c_tree (ctxs H c) <> None -> ext_live H w -> clone_with_slices_wf H c cp ->
  exists H', gen_CloneWith_linked H c cp w r = Ok H' /\
             observe H' cp = Ok (expected_clone_with pv (reqs H r) wv) /\ observe H' c = Ok pv.
Proof.
  intros H c cp w r pv wv Ho Hp Hs Hf Hw Ht Hl Wf.
  pose proof (gen_CloneWith_linked_eqv H c cp w r Wf) as Ev.
  destruct (clone_with_total H c cp w r pv Ho Hp (proj1 Hs) Ht Hl) as (H0 & E0 & _).
  rewrite E0 in Ev. destruct (gen_CloneWith_linked H c cp w r) as [H'|]; [|contradiction].
  cbn in Ev. exists H'. split; [reflexivity|].
  destruct (clone_with_view_correct H c cp w r H0 pv wv Ho Hp Hs Hf Hw E0) as [A B].
  rewrite !(observe_eqv H' H0) by exact Ev. auto.
Qed.

(* ---------- non-vacuity: concrete states ---------- *)

(* a pooled object full of leftovers: gen_reset / gen_resetWithWriter / gen_resetNil
   run, change it, and leave exactly the fields they do not assign *)
Example gen_resets_nonvacuous :
  let H := heap_with staleA in
  (exists H', gen_reset H 1 6 5 = Ok H' /\
     raw_of H' 1 = mkRaw (Some (false, 2%nat)) (Some 5%nat) (Some []) (Some [(S2B "a", S2B "STALE3")])
                         (Some 9%N) None 128%N true (rec_reset 6) /\
     raw_of H' 1 <> raw_of H 1) /\
  (exists H', gen_resetWithWriter H 1 9 7 = Ok H' /\
     raw_of H' 1 = mkRaw (Some (false, 9%nat)) (Some 7%nat) (Some []) (Some [(S2B "a", S2B "STALE3")])
                         None None 128%N false (mkRec (Some (false, 6%nat)) 1234%Z 503%Z true)) /\
  (exists H', gen_resetNil H 1 = Ok H' /\
     raw_of H' 1 = mkRaw None None (Some []) (Some [(S2B "a", S2B "STALE3")])
                         None None 16%N true (mkRec (Some (false, 6%nat)) 1234%Z 503%Z true)) /\
  gen_resetNil empty_heap 0 = Panic.
Proof.
  cbv zeta. split; [|split; [|split]].
  - eexists. split; [vm_compute; reflexivity|]. split; [vm_compute; reflexivity|vm_compute; discriminate].
  - eexists. split; vm_compute; reflexivity.
  - eexists. split; vm_compute; reflexivity.
  - reflexivity.
Qed.

Example gen_recorder_reset_nonvacuous :
  gen_recorder_reset (mkRec (Some (true, 6%nat)) 1234%Z 503%Z true) 8 = Ok (mkRec (Some (false, 8%nat)) (-1)%Z 200%Z false).
Proof. reflexivity. Qed.

(* CloneWith of a trailing-slash context into a pooled object with leftovers;
   Param / Params on the copy (the stale "tenant" parameter is not shown) *)
Example gen_CloneWith_Param_nonvacuous :
  exists H0 H',
    exec_src true [OServe 1 6 5 lkT flags0; OPlant 10 staleP] (heap_with staleA) = Some H0 /\
    gen_CloneWith H0 1 10 2 5 = Ok H' /\
    gen_CloneWith_linked H0 1 10 2 5 = Ok H' /\
    clone_with_slices_wf H0 1 10 /\
    c_tsr (ctxs H' 10) = true /\
    rw_params (raw_of H' 10) = Some [(S2B "tenant", S2B "acme")] /\
    gen_Param H' 10 (S2B "a") = Ok (S2B "TOK") /\
    gen_Param H' 10 (S2B "tenant") = Ok [] /\
    gen_Params H' 10 (fun _ => true) = Ok [(S2B "a", S2B "TOK")] /\
    gen_Params H' 10 (fun _ => false) = Ok [(S2B "a", S2B "TOK")] /\
    gen_Params H0 10 (fun p => negb (bytes_eqb (fst p) (S2B "tenant"))) = Ok [(S2B "tenant", S2B "acme")].
Proof.
  eexists. eexists. split; [vm_compute; reflexivity|].
  split; [vm_compute; reflexivity|].
  split; [vm_compute; reflexivity|].
  split.
  { split; intros s [E|E]; vm_compute in E; injection E as <-; vm_compute; try split; try lia; try discriminate. }
  repeat split; vm_compute; reflexivity.
Qed.

(* copyWithResize with a reallocation (capacity 1 < 3) and in place (capacity 3 >= 2) *)
Definition cwr_heap : heap :=
  put_arr (put_arr (put_arr (bump empty_heap 3) 1%nat [(S2B "old", S2B "0")])
     2%nat [(S2B "a", S2B "1"); (S2B "b", S2B "2"); (S2B "c", S2B "3")])
     3%nat [(S2B "p", S2B "7"); (S2B "q", S2B "8"); (S2B "r", S2B "9")].
Example gen_copyWithResize_nonvacuous :
  slice_wf cwr_heap (mkSlice 1 1) /\ slice_wf cwr_heap (mkSlice 2 3) /\ slice_wf cwr_heap (mkSlice 3 3) /\
  (exists H', gen_copyWithResize cwr_heap (mkSlice 1 1) (mkSlice 2 3) 4%nat = Ok (H', mkSlice 4 3) /\
              slice_read H' (mkSlice 4 3) = [(S2B "a", S2B "1"); (S2B "b", S2B "2"); (S2B "c", S2B "3")]) /\
  (exists H', gen_copyWithResize cwr_heap (mkSlice 3 3) (mkSlice 2 2) 4%nat = Ok (H', mkSlice 3 2) /\
              arrs H' 3%nat = [(S2B "a", S2B "1"); (S2B "b", S2B "2"); (S2B "r", S2B "9")]).
Proof.
  split; [vm_compute; lia|]. split; [vm_compute; lia|]. split; [vm_compute; lia|].
  split; eexists; split; vm_compute; reflexivity.
Qed.

Example src_session_nonvacuous :
  pool_ok (heap_with staleA) 1 /\ pool_ok (heap_with staleB) 1 /\
  raw_of (heap_with staleA) 1 <> raw_of (heap_with staleB) 1 /\
  session_src (heap_with staleA) 1 6 5 (EServe lkT flags0) [ASetHeader (S2B "X-Resp") (S2B "r")] =
    [Ok (expected (mkEnv reqA (fresh_writer [(S2B "X-Pre", S2B "pre")]) 1%N) (ShIgnoreTsr 3%N [(S2B "a", S2B "TOK")]));
     Ok (vsteps [ASetHeader (S2B "X-Resp") (S2B "r")]
           (expected (mkEnv reqA (fresh_writer [(S2B "X-Pre", S2B "pre")]) 1%N) (ShIgnoreTsr 3%N [(S2B "a", S2B "TOK")])))].
Proof.
  split; [apply pool_ok_heap_with; simpl; lia|].
  split; [apply pool_ok_heap_with; simpl; lia|].
  split; [vm_compute; discriminate|].
  vm_compute. reflexivity.
Qed.

(* ---------- Clone ---------- *)

Lemma gen_Clone_equals_original :
  forall H c pv nu w,
  observe H c = Ok pv -> query_coherent H c ->
  c_w (ctxs H c) = Some (nu, w) -> (nu = true -> wv_hij (v_w pv) = false) ->
  clone_slices_wf H c ->
  exists H', gen_Clone H c = Ok (H', (next H + 4)%nat) /\
             observe H' (next H + 4)%nat = Ok pv /\
             next H' = (next H + 5)%nat /\ frame_below (next H) H H'.
Proof.
  intros H c pv nu w Ho Hq Hw Hn Wf. rewrite (gen_Clone_eq H c Wf).
  exact (clone_view_correct true H c pv nu w Ho Hq Hw Hn).
Qed.

Lemma gen_Clone_stable :
  forall (H : heap) (c : addr) (H' : heap) (cl : addr) (later : list op) (H'' : heap),
    wf_heap H -> clone_slices_wf H c ->
    gen_Clone H c = Ok (H', cl) ->
    (forall o, In o later -> forall a, In a (op_addrs o) -> ~ (next H <= a < next H + 5)%nat) ->
    exec_src true later H' = Some H'' ->
    observe H'' cl = observe H' cl /\ raw_of H'' cl = raw_of H' cl.
Proof.
  intros H c H' cl later H'' W Wf. rewrite (gen_Clone_eq H c Wf), exec_src_eq.
  apply (clone_stable_proof true H c H' cl later H'' W).
Qed.

Lemma gen_Clone_noninterference :
  forall (H1 H2 : heap) (c1 c2 : addr) (pv : view),
    observe H1 c1 = Ok pv -> observe H2 c2 = Ok pv ->
    query_coherent H1 c1 -> query_coherent H2 c2 ->
    (exists w, c_w (ctxs H1 c1) = Some (false, w)) -> (exists w, c_w (ctxs H2 c2) = Some (false, w)) ->
    clone_slices_wf H1 c1 -> clone_slices_wf H2 c2 ->
    exists H1' H2' cl1 cl2,
      gen_Clone H1 c1 = Ok (H1', cl1) /\ gen_Clone H2 c2 = Ok (H2', cl2) /\
      observe H1' cl1 = Ok pv /\ observe H2' cl2 = Ok pv.
Proof.
  intros H1 H2 c1 c2 pv O1 O2 Q1 Q2 W1 W2 F1 F2.
  rewrite (gen_Clone_eq H1 c1 F1), (gen_Clone_eq H2 c2 F2).
  exact (clone_noninterference_proof H1 H2 c1 c2 pv O1 O2 Q1 Q2 W1 W2).
Qed.

(* Clone of the trailing-slash context of the CloneWith example: runs, shows the original's view *)
Example gen_Clone_nonvacuous :
  exists H0 H' cl pv,
    exec_src true [OServe 1 6 5 lkT flags0; OSetHeader 1 (S2B "X-Resp") (S2B "r"); OWriteHeader 1 201%Z] (heap_with staleA) = Some H0 /\
    clone_slices_wf H0 1 /\
    gen_Clone H0 1 = Ok (H', cl) /\ cl = (next H0 + 4)%nat /\
    observe H0 1 = Ok pv /\ observe H' cl = Ok pv /\
    v_params pv = [(S2B "a", S2B "TOK")] /\ wv_status (v_w pv) = 201%Z /\
    rw_params (raw_of H' cl) = None /\ rw_tsrp (raw_of H' cl) = Some [(S2B "a", S2B "TOK")].
Proof.
  eexists. eexists. eexists. eexists.
  split; [vm_compute; reflexivity|].
  split.
  { intros s [[E _]|[_ E]]; vm_compute in E; [discriminate|]. injection E as <-. vm_compute. lia. }
  split; [vm_compute; reflexivity|].
  repeat split; vm_compute; reflexivity.
Qed.

(* a state no Go program reaches (len 5 > cap 3 on the slice in use): the Go text
   makes 5 elements, the model keeps the 3 it can read *)
Definition staleW : stale :=
  mkStale (Some (false, 2%nat)) (Some 5%nat) [] 0 [(S2B "a", S2B "1")] 5 [] None None
          (mkRec (Some (false, 6%nat)) 0%Z 200%Z false) 128%N true.
Example Clone_illformed_differs :
  ~ clone_slices_wf (heap_with staleW) 1 /\
  (exists H1 H2 cl, gen_Clone (heap_with staleW) 1 = Ok (H1, cl) /\ clone_gen true (heap_with staleW) 1 = Ok (H2, cl) /\
     length (arrs H1 (next (heap_with staleW) + 3)%nat) = 5%nat /\
     length (arrs H2 (next (heap_with staleW) + 3)%nat) = 3%nat).
Proof.
  split.
  - intro W. specialize (W (mkSlice 4 5) (or_intror (conj eq_refl eq_refl))). vm_compute in W. lia.
  - eexists. eexists. eexists. split; [vm_compute; reflexivity|]. split; [vm_compute; reflexivity|].
    split; vm_compute; reflexivity.
Qed.
