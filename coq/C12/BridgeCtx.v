(* C12, tie A: the definitions regenerated from context.go on every run
   (GenCtx.v, by harness/cmd/ctxgen) equal the hand-written model of Context.v,
   for ALL arguments.  Every lemma is named after the Go function it is about;
   when one of them stops compiling, that function was edited in a way that
   changes its meaning in the model (or the model is wrong about it).

   The proofs of the straight-line methods are by conversion ([reflexivity]):
   they survive a reordering of independent field assignments and nothing else. *)
From FoxBase Require Import Bytes.
From FoxC12 Require Import Types Context CtxSem GenCtx Ops Spec ProofsBasic ProofsView ProofsNI ProofsParam.
From Coq Require Import ZArith Arith Lia List.
Open Scope list_scope.

(* ---------- the three resets ---------- *)

(* conversion after the record is opened (seven nested setters on an abstract
   record take seconds to convert, on a constructor none) *)
Ltac straightline H c := destruct (ctxs H c); reflexivity.

Lemma gen_reset_eq : forall H c w r, gen_reset H c w r = reset H c w r.
Proof. intros. unfold gen_reset, reset. straightline H c. Qed.

Lemma gen_resetNil_eq : forall H c, gen_resetNil H c = resetNil H c.
Proof. intros. unfold gen_resetNil, resetNil. straightline H c. Qed.

Lemma gen_resetWithWriter_eq : forall H c w r, gen_resetWithWriter H c w r = resetWithWriter H c w r.
Proof. intros. unfold gen_resetWithWriter, resetWithWriter. straightline H c. Qed.

(* recorder.reset: every field of the recorder is assigned (the result does
   not depend on what the recorder held) *)
Lemma gen_recorder_reset_eq : forall x w, gen_recorder_reset x w = Ok (rec_reset w).
Proof. intros [u sz st hj] w. reflexivity. Qed.

(* ---------- CloneWith (callee copyWithResize = its model) ---------- *)

Lemma gen_CloneWith_eq : forall H c cp w r, gen_CloneWith H c cp w r = clone_with H c cp w r.
Proof.
  intros. unfold gen_CloneWith, gen_CloneWith_with, clone_with.
  destruct (c_tree (ctxs H c)) as [t|]; cbn [deref bind]; [|reflexivity].
  destruct (c_tsr (ctxs H c)); cbn [negb].
  - cbn. destruct (c_tsrp (ctxs H cp)) as [d|]; [|reflexivity].
    destruct (c_tsrp (ctxs H c)) as [s|]; [|reflexivity].
    cbn. destruct (copy_with_resize _ d s (next H)) as [H1 d1]. reflexivity.
  - cbn. destruct (c_params (ctxs H cp)) as [d|]; [|reflexivity].
    destruct (c_params (ctxs H c)) as [s|]; [|reflexivity].
    cbn. destruct (copy_with_resize _ d s (next H)) as [H1 d1]. reflexivity.
Qed.

(* ---------- Param ---------- *)

Fixpoint find_opt (ps : list param) (name : bytes) : option bytes :=
  match ps with
  | [] => None
  | (k, v) :: r => if bytes_eqb k name then Some v else find_opt r name
  end.

Lemma find_param_opt ps name :
  find_param ps name = match find_opt ps name with Some v => v | None => [] end.
Proof.
  induction ps as [|[k v] r IH]; simpl; [reflexivity|].
  destruct (bytes_eqb k name); [reflexivity|exact IH].
Qed.

Lemma skipn_nth_error {A} (l : list A) i e : nth_error l i = Some e -> skipn i l = e :: skipn (S i) l.
Proof.
  revert i. induction l as [|a l IH]; intros [|i] E; simpl in *; try discriminate.
  - now injection E as ->.
  - rewrite (IH i E). reflexivity.
Qed.

Lemma nth_error_in_range {A} (l : list A) i : (i < length l)%nat -> exists e, nth_error l i = Some e.
Proof.
  intro L. destruct (nth_error l i) as [e|] eqn:E; [now exists e|].
  apply nth_error_None in E. lia.
Qed.

(* the shape of one iteration of the two loops of Param, as generated *)
Section ParamLoop.
  Variable loop : bytes -> list param -> nat -> nat -> res (option bytes).
  Hypothesis loop_O : forall name ps i, loop name ps i O = Ok None.
  Hypothesis loop_S : forall name ps i n,
    loop name ps i (S n) =
    (do e1 <- idx ps i;
     if bytes_eqb (p_Key e1) name then (do e2 <- idx ps i; Ok (Some (p_Value e2)))
     else loop name ps (S i) n).

  Lemma param_loop_spec name ps : forall n i, (i + n = length ps)%nat ->
    loop name ps i n = Ok (find_opt (skipn i ps) name).
  Proof.
    induction n as [|n IH]; intros i E.
    - rewrite loop_O. assert (i = length ps) by lia. subst i. now rewrite skipn_all.
    - rewrite loop_S. destruct (nth_error_in_range ps i ltac:(lia)) as [[k v] Ee].
      unfold idx. rewrite Ee. cbn [bind p_Key p_Value fst snd].
      rewrite (skipn_nth_error _ _ _ Ee). cbn [find_opt].
      destruct (bytes_eqb k name); [reflexivity|]. apply IH. lia.
  Qed.
End ParamLoop.

Lemma gen_Param_loop1_spec name ps :
  gen_Param_loop1 name ps 0 (length ps) = Ok (find_opt ps name).
Proof. apply (param_loop_spec gen_Param_loop1); [reflexivity | reflexivity | lia]. Qed.

Lemma gen_Param_loop2_spec name ps :
  gen_Param_loop2 name ps 0 (length ps) = Ok (find_opt ps name).
Proof. apply (param_loop_spec gen_Param_loop2); [reflexivity | reflexivity | lia]. Qed.

Lemma gen_Param_eq : forall H c name, gen_Param H c name = ctx_param H (ctxs H c) name.
Proof.
  intros. unfold gen_Param, ctx_param.
  destruct (c_tsr (ctxs H c)).
  - destruct (c_tsrp (ctxs H c)) as [s|]; [|reflexivity]. cbn [deref bind].
    rewrite gen_Param_loop1_spec. cbn [bind]. rewrite find_param_opt.
    destruct (find_opt _ _); reflexivity.
  - destruct (c_params (ctxs H c)) as [s|]; [|reflexivity]. cbn [deref bind].
    rewrite gen_Param_loop2_spec. cbn [bind]. rewrite find_param_opt.
    destruct (find_opt _ _); reflexivity.
Qed.

(* ---------- Params: the iterator against an arbitrary consumer ---------- *)

(* what a consumer [yield] is handed when the iterator runs over [ps]: the
   elements in order, up to and including the first one it answers false on *)
Fixpoint yielded (yield : param -> bool) (ps : list param) : list param * bool :=
  match ps with
  | [] => ([], false)
  | p :: r => if yield p then (p :: fst (yielded yield r), snd (yielded yield r)) else ([p], true)
  end.

Lemma yielded_all ps : yielded (fun _ => true) ps = (ps, false).
Proof. induction ps as [|p r IH]; simpl; [reflexivity|]. now rewrite IH. Qed.

Section ParamsLoop.
  Variable loop : (param -> bool) -> list param -> nat -> nat -> res (list param * bool).
  Hypothesis loop_O : forall yield ps i, loop yield ps i O = Ok ([], false).
  Hypothesis loop_S : forall yield ps i n,
    loop yield ps i (S n) =
    (do p <- idx ps i;
     emit p (if negb (yield p) then Ok ([], true) else loop yield ps (S i) n)).

  Lemma params_loop_spec yield ps : forall n i, (i + n = length ps)%nat ->
    loop yield ps i n = Ok (yielded yield (skipn i ps)).
  Proof.
    induction n as [|n IH]; intros i E.
    - rewrite loop_O. assert (i = length ps) by lia. subst i. now rewrite skipn_all.
    - rewrite loop_S. destruct (nth_error_in_range ps i ltac:(lia)) as [p Ee].
      unfold idx. rewrite Ee. cbn [bind].
      rewrite (skipn_nth_error _ _ _ Ee). cbn [yielded].
      destruct (yield p); cbn [negb]; [|reflexivity].
      rewrite IH by lia. reflexivity.
  Qed.
End ParamsLoop.

Lemma gen_Params_loop1_spec yield ps :
  gen_Params_loop1 yield ps 0 (length ps) = Ok (yielded yield ps).
Proof. apply (params_loop_spec gen_Params_loop1); [reflexivity | reflexivity | lia]. Qed.

Lemma gen_Params_loop2_spec yield ps :
  gen_Params_loop2 yield ps 0 (length ps) = Ok (yielded yield ps).
Proof. apply (params_loop_spec gen_Params_loop2); [reflexivity | reflexivity | lia]. Qed.

Lemma gen_Params_eq : forall H c yield,
  gen_Params H c yield = (do ps <- ctx_params H (ctxs H c); Ok (fst (yielded yield ps))).
Proof.
  intros. unfold gen_Params, ctx_params.
  destruct (c_tsr (ctxs H c)).
  - destruct (c_tsrp (ctxs H c)) as [s|]; [|reflexivity]. cbn [deref bind].
    rewrite gen_Params_loop1_spec. unfold seq_tr. cbn [bind fst snd].
    destruct (snd (yielded yield (slice_read H s))); cbn [bind fst snd]; [reflexivity|].
    now rewrite app_nil_r.
  - destruct (c_params (ctxs H c)) as [s|]; [|reflexivity]. cbn [deref bind].
    rewrite gen_Params_loop2_spec. unfold seq_tr. cbn [bind fst snd].
    destruct (snd (yielded yield (slice_read H s))); cbn [bind fst snd]; [reflexivity|].
    now rewrite app_nil_r.
Qed.

(* ranging over Params() to the end is the model's ctx_params *)
Lemma gen_Params_all_eq : forall H c, gen_Params H c (fun _ => true) = ctx_params H (ctxs H c).
Proof.
  intros. rewrite gen_Params_eq. destruct (ctx_params H (ctxs H c)) as [ps|]; [|reflexivity].
  cbn [bind]. now rewrite yielded_all.
Qed.

(* ---------- copyWithResize ----------
   The generated definition follows the Go text (compare lengths, slices.Grow,
   three-index reslice, copy); Context.v's copy_with_resize decides by capacity
   and writes the destination array once.  They agree on every pair of slice
   headers a Go program can hold (len <= cap) when [fresh] is not the array of
   the source -- up to heap_eqv, because after a reallocation the generated text
   writes the new array twice (Grow, then copy) and the stores are functions.
   Without len <= cap they differ: copyWithResize_illformed_differs. *)

Lemma heap_eqv_refl H : heap_eqv H H.
Proof. repeat split. Qed.

Lemma heap_eqv_put_arr_twice H f X Y : heap_eqv (put_arr (put_arr H f X) f Y) (put_arr H f Y).
Proof.
  repeat split. intro a. cbn. unfold upd. destruct (Nat.eqb a f); reflexivity.
Qed.

Lemma length_slice_read H s : slice_wf H s -> length (slice_read H s) = s_len s.
Proof. unfold slice_wf, slice_read, sl_cap. intro L. rewrite firstn_length. lia. Qed.

Lemma gen_copyWithResize_eqv : forall H dst src fresh,
  slice_wf H dst -> slice_wf H src -> s_arr src <> fresh ->
  exists H', gen_copyWithResize H dst src fresh = Ok (H', snd (copy_with_resize H dst src fresh)) /\
             heap_eqv H' (fst (copy_with_resize H dst src fresh)).
Proof.
  intros H dst src fresh Wd Ws Hf.
  pose proof (length_slice_read H src Ws) as Ls.
  unfold gen_copyWithResize, copy_with_resize. rewrite Ls.
  unfold slice_wf, sl_cap in Wd, Ws.
  assert (InPlace : (s_len src <= length (arrs H (s_arr dst)))%nat ->
    exists H', (do dst0 <- sl_reslice3 H dst (sl_len src) (sl_cap H dst);
                let H0 := sl_copy H dst0 src in Ok (H0, dst0)) =
               Ok (H', mkSlice (s_arr dst) (s_len src)) /\
               heap_eqv H' (put_arr H (s_arr dst) (slice_read H src ++ skipn (s_len src) (arrs H (s_arr dst))))).
  { intro L. unfold sl_reslice3, sl_len, sl_cap.
    rewrite (proj2 (Nat.leb_le _ _) L), Nat.leb_refl. cbn [andb bind].
    eexists. split; [reflexivity|].
    unfold sl_copy. cbn [s_len s_arr]. rewrite Nat.min_id. apply heap_eqv_refl. }
  destruct (Nat.ltb (sl_len dst) (sl_len src)) eqn:Elt; unfold sl_len in *.
  - apply Nat.ltb_lt in Elt.
    unfold slices_Grow, sl_cap.
    destruct (Nat.leb (s_len src - s_len dst) (length (arrs H (s_arr dst)) - s_len dst)) eqn:Eg.
    + apply Nat.leb_le in Eg. assert (L : (s_len src <= length (arrs H (s_arr dst)))%nat) by lia.
      rewrite (proj2 (Nat.leb_le _ _) L). cbn [fst snd]. exact (InPlace L).
    + apply Nat.leb_gt in Eg. assert (L : (length (arrs H (s_arr dst)) < s_len src)%nat) by lia.
      rewrite (proj2 (Nat.leb_gt _ _) L). cbn [fst snd].
      set (grown := arrs H (s_arr dst) ++ repeat zero_param _).
      assert (Lg : length grown = s_len src).
      { subst grown. rewrite app_length, repeat_length. lia. }
      unfold sl_reslice3, sl_cap. cbn [s_arr s_len put_arr set_arrs arrs]. rewrite upd_same, Lg, Nat.leb_refl.
      cbn [andb bind]. eexists. split; [reflexivity|].
      unfold sl_copy. cbn [s_arr s_len put_arr set_arrs arrs]. rewrite Nat.min_id, upd_same.
      rewrite upd_other by exact Hf.
      rewrite <- Lg at 2. rewrite skipn_all, app_nil_r.
      apply heap_eqv_put_arr_twice.
  - apply Nat.ltb_ge in Elt.
    assert (L : (s_len src <= length (arrs H (s_arr dst)))%nat) by lia.
    rewrite (proj2 (Nat.leb_le _ _) L). cbn [fst snd]. exact (InPlace L).
Qed.

(* when no reallocation is needed the two are equal outright *)
Lemma gen_copyWithResize_eq_inplace : forall H dst src fresh,
  slice_wf H dst -> slice_wf H src -> (s_len src <= sl_cap H dst)%nat ->
  gen_copyWithResize H dst src fresh = Ok (copy_with_resize H dst src fresh).
Proof.
  intros H dst src fresh Wd Ws L.
  pose proof (length_slice_read H src Ws) as Ls.
  unfold gen_copyWithResize, copy_with_resize. rewrite Ls.
  unfold slice_wf, sl_cap in *.
  rewrite (proj2 (Nat.leb_le _ _) L).
  assert (E : (do dst0 <- sl_reslice3 H dst (sl_len src) (sl_cap H dst);
               let H0 := sl_copy H dst0 src in Ok (H0, dst0)) =
              Ok (put_arr H (s_arr dst) (slice_read H src ++ skipn (s_len src) (arrs H (s_arr dst))),
                  mkSlice (s_arr dst) (s_len src))).
  { unfold sl_reslice3, sl_len, sl_cap.
    rewrite (proj2 (Nat.leb_le _ _) L), Nat.leb_refl. cbn [andb bind].
    unfold sl_copy. cbn [s_len s_arr]. now rewrite Nat.min_id. }
  destruct (Nat.ltb (sl_len dst) (sl_len src)) eqn:Elt; unfold sl_len in *; [|exact E].
  apply Nat.ltb_lt in Elt. unfold slices_Grow, sl_cap.
  rewrite (proj2 (Nat.leb_le (s_len src - s_len dst) _)) by lia. cbn [fst snd]. exact E.
Qed.

(* a state no Go program reaches (len 2 > cap 1 on the source): the model reads
   min(len, cap) elements, the Go text trusts len *)
Definition illformed_heap : heap :=
  put_arr (put_arr empty_heap 1%nat [(S2B "a", S2B "1")]) 2%nat [(S2B "x", S2B "9"); (S2B "y", S2B "8"); (S2B "z", S2B "7")].
Lemma copyWithResize_illformed_differs :
  ~ slice_wf illformed_heap (mkSlice 1 2)%nat /\
  option_map snd (match gen_copyWithResize illformed_heap (mkSlice 2 0)%nat (mkSlice 1 2)%nat 3%nat with Ok r => Some r | Panic => None end)
    = Some (mkSlice 2 2)%nat /\
  snd (copy_with_resize illformed_heap (mkSlice 2 0)%nat (mkSlice 1 2)%nat 3%nat) = (mkSlice 2 1)%nat.
Proof. split; [|split]; [unfold slice_wf; cbn; lia | reflexivity | reflexivity]. Qed.

(* ---------- CloneWith linked with the generated copyWithResize ---------- *)

Definition res_heap_eqv (a b : res heap) : Prop :=
  match a, b with
  | Ok h1, Ok h2 => heap_eqv h1 h2
  | Panic, Panic => True
  | _, _ => False
  end.

Lemma heap_eqv_put_ctx H1 H2 c x : heap_eqv H1 H2 -> heap_eqv (put_ctx H1 c x) (put_ctx H2 c x).
Proof.
  intros (Ea & Eh & Eq & Er & Ec & En). repeat split; auto.
  intro a. cbn. unfold upd. destruct (Nat.eqb a c); [reflexivity|apply Ec].
Qed.

(* the slice headers CloneWith touches are ones a Go program can hold, and the
   parent's arrays were allocated before (next H is the fresh address) *)
Definition clone_with_slices_wf (H : heap) (c cp : addr) : Prop :=
  (forall s, c_params (ctxs H c) = Some s \/ c_tsrp (ctxs H c) = Some s -> slice_wf H s /\ s_arr s <> next H) /\
  (forall s, c_params (ctxs H cp) = Some s \/ c_tsrp (ctxs H cp) = Some s -> slice_wf H s).

Lemma gen_CloneWith_linked_eqv : forall H c cp w r,
  clone_with_slices_wf H c cp ->
  res_heap_eqv (gen_CloneWith_linked H c cp w r) (clone_with H c cp w r).
Proof.
  intros H c cp w r [Wc Wp]. unfold gen_CloneWith_linked, gen_CloneWith_with, clone_with.
  destruct (c_tree (ctxs H c)) as [t|]; cbn [deref bind]; [|exact I].
  assert (Step : forall d s (y : ctx) (k : ctx -> slice -> ctx),
            slice_wf H d -> slice_wf H s -> s_arr s <> next H ->
            res_heap_eqv
              (do hd <- gen_copyWithResize (bump H 1) d s (next H);
               let H0 := fst hd in let y0 := k y (snd hd) in Ok (put_ctx H0 cp y0))
              (let '(H0, d') := copy_with_resize (bump H 1) d s (next H) in Ok (put_ctx H0 cp (k y d')))).
  { intros d s y k Wd Ws Hn.
    destruct (gen_copyWithResize_eqv (bump H 1) d s (next H) Wd Ws Hn) as (H' & E & Ev).
    rewrite E. cbn [bind fst snd].
    destruct (copy_with_resize (bump H 1) d s (next H)) as [H0 d']. cbn [fst snd] in *.
    cbn. now apply heap_eqv_put_ctx. }
  destruct (c_tsr (ctxs H c)); cbn [negb].
  - cbn. destruct (c_tsrp (ctxs H cp)) as [d|] eqn:Ed; [|exact I].
    destruct (c_tsrp (ctxs H c)) as [s|] eqn:Es; [|exact I].
    cbn [deref bind].
    exact (Step d s _ (fun y v => cset_tsrp y (Some v)) (Wp d (or_intror eq_refl)) (proj1 (Wc s (or_intror eq_refl))) (proj2 (Wc s (or_intror eq_refl)))).
  - cbn. destruct (c_params (ctxs H cp)) as [d|] eqn:Ed; [|exact I].
    destruct (c_params (ctxs H c)) as [s|] eqn:Es; [|exact I].
    cbn [deref bind].
    exact (Step d s _ (fun y v => cset_params y (Some v)) (Wp d (or_introl eq_refl)) (proj1 (Wc s (or_introl eq_refl))) (proj2 (Wc s (or_introl eq_refl)))).
Qed.

(* ---------- Clone (the code after commit 036e194: clone_gen true) ----------
   The slice in use must be one a Go program can hold (len <= cap): the Go text
   makes len( *c.params) elements and copies into them, the model keeps the
   elements it can read and the length the header claims. *)

Definition clone_slices_wf (H : heap) (c : addr) : Prop :=
  forall s, (c_tsr (ctxs H c) = false /\ c_params (ctxs H c) = Some s) \/
            (c_tsr (ctxs H c) = true /\ c_tsrp (ctxs H c) = Some s) -> slice_wf H s.

Lemma list_copy_fresh n vals : length vals = n -> list_copy (repeat zero_param n) vals = vals.
Proof.
  intros <-. unfold list_copy. rewrite repeat_length, Nat.min_id, firstn_all.
  rewrite skipn_all2 by (rewrite repeat_length; lia). apply app_nil_r.
Qed.

Lemma gen_Clone_eq : forall H c, clone_slices_wf H c -> gen_Clone H c = clone_gen true H c.
Proof.
  intros H c Wf. unfold clone_slices_wf in Wf. unfold gen_Clone, clone_gen.
  destruct (ctxs H c) as [cw creq cparams ctsrp cskip croute ctree cfox ccq crec cscope ctsr].
  cbn [c_w c_req c_params c_tsrp c_route c_fox c_scope c_tsr] in *.
  destruct creq as [r|]; [|reflexivity]. cbn [deref bind].
  unfold w_Header, w_Status, w_Written, w_Size, w_rec, w_as_recorder.
  destruct cw as [[nu w]|]; [|reflexivity]. cbn [deref bind snd].
  cbn [recs put_req set_reqs bump].
  destruct (r_under (recs H w)) as [[nb h]|] eqn:Eu; [|reflexivity]. cbn [deref bind snd].
  assert (Copy : forall s, slice_wf H s ->
            list_copy (repeat zero_param (sl_len s)) (firstn (s_len s) (arrs H (s_arr s))) = firstn (s_len s) (arrs H (s_arr s)) /\
            length (firstn (s_len s) (arrs H (s_arr s))) = s_len s).
  { intros s W. pose proof (length_slice_read H s W) as L. unfold slice_read in L.
    split; [apply list_copy_fresh; exact L | exact L]. }
  cbn [recs hdrs reqs put_hdr set_hdrs put_req set_reqs bump].
  destruct (rec_written (recs H w)); destruct nu; destruct ctsr; cbn [negb];
    try (destruct ctsrp as [s|]; [|reflexivity]); try (destruct cparams as [s|]; [|reflexivity]);
    cbn [deref bind]; unfold slice_read; cbn [arrs put_hdr set_hdrs put_req set_reqs bump];
    (destruct (Copy s) as [E1 E2]; [apply Wf; auto|]); rewrite E1, E2; reflexivity.
Qed.
