(* C12 specification, written from the property text: everything a handler
   observes through its Context derives from the CURRENT request only.

   The specification is a function from the data of the current request (and
   the handler's own actions so far) to the one view the handler must see.  It
   never receives a heap, a pooled object or anything of another request, so
   "derives from the current request only" holds of it by construction; the
   theorems say the implementation model always shows exactly this view. *)
From FoxBase Require Import Bytes.
From FoxC12 Require Import Types.
From Coq Require Import ZArith.
Open Scope list_scope.
Open Scope Z_scope.

(* what the current request consists of, as values *)
Record reqenv := mkEnv {
  e_req : request;      (* the *http.Request given to ServeHTTP / Lookup / CloneWith *)
  e_w : wview;          (* state of the writer given to it, on entry *)
  e_fox : N }.          (* the router *)

(* a fresh http.ResponseWriter wrapped by ServeHTTP: status 200, nothing written *)
Definition fresh_writer (h : hmap) : wview := mkWv 200 0 false h false.

(* which handler runs and with which match data (decided by C01/C08/C11) *)
Inductive shape :=
| ShDirect (route : N) (ps : list param)
| ShIgnoreTsr (route : N) (ps : list param)
| ShRedirect
| ShOptions (allow : bytes)
| ShNoMethod (allow : bytes)
| ShNoRoute
| ShLookup (route : N) (ps : list param).

Definition with_hdr (w : wview) (k v : bytes) : wview :=
  mkWv (wv_status w) (wv_size w) (wv_written w) (hset k v (wv_hdr w)) (wv_hij w).

Definition expected (e : reqenv) (s : shape) : view :=
  let rq := e_req e in
  let mk ps ro w sc := mkView ps ro rq (q_query rq) w sc (e_fox e) in
  match s with
  | ShDirect ro ps => mk ps (Some ro) (e_w e) RouteHandler
  | ShIgnoreTsr ro ps => mk ps (Some ro) (e_w e) RouteHandler
  | ShRedirect => mk [] None (e_w e) RedirectHandler
  | ShOptions a => mk [] None (with_hdr (e_w e) HeaderAllow a) OptionsHandler
  | ShNoMethod a => mk [] None (with_hdr (e_w e) HeaderAllow a) NoMethodHandler
  | ShNoRoute => mk [] None (e_w e) NoRouteHandler
  | ShLookup ro ps => mk ps (Some ro) (e_w e) RouteHandler
  end.

(* Param(name): the value of the first parameter called [name] among the
   parameters of the view (those of the current request's match), the empty
   string when the current request has no such parameter -- never anything else. *)
Fixpoint param_named (ps : list param) (name : bytes) : option bytes :=
  match ps with
  | [] => None
  | p :: r => if bytes_eqb (fst p) name then Some (snd p) else param_named r name
  end.
Definition expected_param (v : view) (name : bytes) : bytes :=
  match param_named (v_params v) name with Some x => x | None => [] end.

(* CloneWith(w', r'): match data, route, scope of the parent; request and writer as given *)
Definition expected_clone_with (parent : view) (r' : request) (w' : wview) : view :=
  mkView (v_params parent) (v_route parent) r' (q_query r') w' (v_scope parent) (v_fox parent).

(* the handler's own actions, on the view *)
Inductive act :=
| ASetHeader (k v : bytes)
| AWriteHeader (code : Z)
| AWrite (n : Z)
| AQuery
| AReqSetHeader (k v : bytes).

Definition wstep (a : act) (w : wview) : wview :=
  match a with
  | ASetHeader k v => with_hdr w k v
  | AWriteHeader code =>
      if wv_hij w || wv_written w then w else mkWv code 0 true (wv_hdr w) (wv_hij w)
  | AWrite n =>
      if wv_hij w then w else mkWv (wv_status w) (wv_size w + n) true (wv_hdr w) (wv_hij w)
  | _ => w
  end.

Definition vstep (a : act) (v : view) : view :=
  match a with
  | AReqSetHeader k v' =>
      let q := v_req v in
      mkView (v_params v) (v_route v)
             (mkReq (q_method q) (q_host q) (q_path q) (q_query q) (hset k v' (q_hdr q)) (q_remote q))
             (v_query v) (v_w v) (v_scope v) (v_fox v)
  | _ => mkView (v_params v) (v_route v) (v_req v) (v_query v) (wstep a (v_w v)) (v_scope v) (v_fox v)
  end.

Definition vsteps (acts : list act) (v : view) : view := fold_left (fun v a => vstep a v) acts v.

(* A Clone shows what the original showed when it was cloned (its writer can
   no longer be written: that is not an observation of request data). *)
Definition expected_clone (parent : view) : view := parent.
