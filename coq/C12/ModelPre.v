(* C12: the model of the code BEFORE commit 036e194 (Clone copied the embedded
   recorder c.rec).  Kept so that the check can tell which behaviour the tree
   under test has, and to document the defect (Witness.v). *)
From FoxC12 Require Export Types Context Ops.

Definition clone_pre := clone_gen false.
Definition run_pre := run false.
