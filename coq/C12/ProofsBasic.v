(* C12 proofs, part 1: stores, slices, the ownership predicate. *)
From FoxBase Require Import Bytes.
From FoxC12 Require Import Types Context.
From Coq Require Import ZArith Lia.
Open Scope list_scope.

Lemma upd_same {A} (m : addr -> A) a v : upd m a v a = v.
Proof. unfold upd. now rewrite Nat.eqb_refl. Qed.

Lemma upd_other {A} (m : addr -> A) a v b : b <> a -> upd m a v b = m b.
Proof. intro Hn. unfold upd. destruct (Nat.eqb_spec b a); congruence. Qed.

Ltac upd_simpl :=
  repeat first
    [ rewrite upd_same
    | rewrite upd_other by (try congruence; try lia; auto) ].

(* ---------- slices ---------- *)

Lemma firstn_len_app {A} (l r : list A) : firstn (List.length l) (l ++ r) = l.
Proof.
  rewrite firstn_app, Nat.sub_diag, firstn_all. simpl. now rewrite app_nil_r.
Qed.

Lemma slice_assign_spec H s vals fresh H' s' :
  slice_assign H s vals fresh = (H', s') ->
  slice_read H' s' = vals /\
  (s_arr s' = s_arr s \/ s_arr s' = fresh) /\
  (forall a, a <> s_arr s -> a <> fresh -> arrs H' a = arrs H a) /\
  hdrs H' = hdrs H /\ reqs H' = reqs H /\ recs H' = recs H /\ ctxs H' = ctxs H /\ next H' = next H.
Proof.
  unfold slice_assign. intro E.
  destruct (Nat.leb (List.length vals) (List.length (arrs H (s_arr s)))); inversion E; subst; clear E;
    unfold slice_read; simpl; upd_simpl.
  - rewrite firstn_len_app. repeat split; auto. intros. now upd_simpl.
  - rewrite firstn_all. repeat split; auto. intros. now upd_simpl.
Qed.

Lemma copy_with_resize_spec H d s fresh H' d' :
  copy_with_resize H d s fresh = (H', d') ->
  slice_read H' d' = slice_read H s /\
  (s_arr d' = s_arr d \/ s_arr d' = fresh) /\
  (forall a, a <> s_arr d -> a <> fresh -> arrs H' a = arrs H a) /\
  hdrs H' = hdrs H /\ reqs H' = reqs H /\ recs H' = recs H /\ ctxs H' = ctxs H /\ next H' = next H.
Proof.
  unfold copy_with_resize. intro E.
  destruct (Nat.leb (List.length (slice_read H s)) (List.length (arrs H (s_arr d)))); inversion E; subst; clear E;
    unfold slice_read at 1; simpl; upd_simpl.
  - rewrite firstn_len_app. repeat split; auto. intros. now upd_simpl.
  - rewrite firstn_all. repeat split; auto. intros. now upd_simpl.
Qed.

Lemma slice_read_ext H H' s : arrs H' (s_arr s) = arrs H (s_arr s) -> slice_read H' s = slice_read H s.
Proof. unfold slice_read. now intros ->. Qed.

(* ---------- ownership: the two backing arrays of a pooled context are its own ---------- *)

Definition pool_ok (H : heap) (c : addr) : Prop :=
  exists sp st, c_params (ctxs H c) = Some sp /\ c_tsrp (ctxs H c) = Some st /\
                s_arr sp <> s_arr st /\ (s_arr sp < next H)%nat /\ (s_arr st < next H)%nat.

(* what the matcher must guarantee (C01/C08): a reported trailing-slash match
   comes with freshly written tsrParams, and with a route (fox.go:556 dereferences it) *)
Definition lk_wf (l : lk) : Prop :=
  lk_tsr l = true -> (exists tp, lk_tsrw l = Some tp) /\ lk_route l <> None.

Definition lk_tsr_params (l : lk) : list param := match lk_tsrw l with Some tp => tp | None => [] end.

(* ---------- header maps ---------- *)
Lemma hget_hset_same k v m : hget k (hset k v m) = Some v.
Proof. unfold hset. simpl. now rewrite bytes_eqb_refl. Qed.
