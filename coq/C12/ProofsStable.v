(* C12 proofs, part 4: a Clone is stable.  Its objects occupy the addresses
   [n0, n1) allocated by Clone; no object outside that region points into it,
   and every later operation that is not handed one of these addresses leaves
   the region untouched (isolation invariant over all ops of Ops.v). *)
From FoxBase Require Import Bytes.
From FoxC12 Require Import Types Context Ops Spec ProofsBasic ProofsView ProofsNext.
From Coq Require Import ZArith Lia.
Open Scope list_scope.

Section Iso.
(* F: the protected region; top: a bound on the allocation counter over the
   history considered (addresses handed out, all below top, are not in F) *)
Variable F : addr -> Prop.
Variable top : addr.

Definition optp {A} (o : option (A * addr)) : Prop := match o with Some (_, a) => ~ F a | None => True end.
Definition opta (o : option addr) : Prop := match o with Some a => ~ F a | None => True end.
Definition opts (o : option slice) : Prop := match o with Some s => ~ F (s_arr s) | None => True end.

Definition ctx_out (x : ctx) : Prop :=
  optp (c_w x) /\ opta (c_req x) /\ opts (c_params x) /\ opts (c_tsrp x) /\ ~ F (c_rec x).
Definition rec_out (r : recorder) : Prop := optp (r_under r).

Record Inv (H0 H : heap) : Prop := mkInv {
  inv_fresh : forall a, (next H <= a < top)%nat -> ~ F a;
  inv_ctx : forall a, ~ F a -> ctx_out (ctxs H a);
  inv_rec : forall a, ~ F a -> rec_out (recs H a);
  inv_same : forall a, F a ->
      arrs H a = arrs H0 a /\ hdrs H a = hdrs H0 a /\ reqs H a = reqs H0 a /\
      recs H a = recs H0 a /\ ctxs H a = ctxs H0 a }.

Lemma fresh_outk H0 H k : Inv H0 H -> (next H + k < top)%nat -> ~ F (next H + k)%nat.
Proof. intros I L. apply (inv_fresh _ _ I). lia. Qed.

Lemma fresh_out0 H0 H : Inv H0 H -> (next H < top)%nat -> ~ F (next H).
Proof. intros I L. apply (inv_fresh _ _ I). lia. Qed.

Lemma fresh_outS H0 H : Inv H0 H -> (S (next H) < top)%nat -> ~ F (S (next H)).
Proof. intros I L. apply (inv_fresh _ _ I). lia. Qed.

Lemma Inv_bump H0 H k : Inv H0 H -> Inv H0 (bump H k).
Proof. intros [A B C D]. constructor; simpl; auto. intros a L. apply A. lia. Qed.

Lemma Inv_put_ctx H0 H a v : Inv H0 H -> ~ F a -> ctx_out v -> Inv H0 (put_ctx H a v).
Proof.
  intros [A B C D] Ha Hv. constructor; simpl; auto.
  - intros b Hb. unfold upd. destruct (Nat.eqb_spec b a); subst; auto.
  - intros b Hb. destruct (D b Hb) as (D1 & D2 & D3 & D4 & D5). repeat split; auto.
    rewrite upd_other; auto. intro; subst; contradiction.
Qed.

Lemma Inv_put_rec H0 H a v : Inv H0 H -> ~ F a -> rec_out v -> Inv H0 (put_rec H a v).
Proof.
  intros [A B C D] Ha Hv. constructor; simpl; auto.
  - intros b Hb. unfold upd. destruct (Nat.eqb_spec b a); subst; auto.
  - intros b Hb. destruct (D b Hb) as (D1 & D2 & D3 & D4 & D5). repeat split; auto.
    rewrite upd_other; auto. intro; subst; contradiction.
Qed.

Lemma Inv_put_arr H0 H a v : Inv H0 H -> ~ F a -> Inv H0 (put_arr H a v).
Proof.
  intros [A B C D] Ha. constructor; simpl; auto.
  intros b Hb. destruct (D b Hb) as (D1 & D2 & D3 & D4 & D5). repeat split; auto.
  rewrite upd_other; auto. intro; subst; contradiction.
Qed.

Lemma Inv_put_hdr H0 H a v : Inv H0 H -> ~ F a -> Inv H0 (put_hdr H a v).
Proof.
  intros [A B C D] Ha. constructor; simpl; auto.
  intros b Hb. destruct (D b Hb) as (D1 & D2 & D3 & D4 & D5). repeat split; auto.
  rewrite upd_other; auto. intro; subst; contradiction.
Qed.

Lemma Inv_put_req H0 H a v : Inv H0 H -> ~ F a -> Inv H0 (put_req H a v).
Proof.
  intros [A B C D] Ha. constructor; simpl; auto.
  intros b Hb. destruct (D b Hb) as (D1 & D2 & D3 & D4 & D5). repeat split; auto.
  rewrite upd_other; auto. intro; subst; contradiction.
Qed.

Lemma Inv_slice_assign H0 H s vals fresh H' s' :
  Inv H0 H -> ~ F (s_arr s) -> ~ F fresh ->
  slice_assign H s vals fresh = (H', s') -> Inv H0 H' /\ ~ F (s_arr s').
Proof.
  intros I Hs Hf. unfold slice_assign.
  destruct (Nat.leb _ _); intro E; injection E as <- <-; simpl; split; auto using Inv_put_arr.
Qed.

Lemma Inv_copy_with_resize H0 H d s fresh H' d' :
  Inv H0 H -> ~ F (s_arr d) -> ~ F fresh ->
  copy_with_resize H d s fresh = (H', d') -> Inv H0 H' /\ ~ F (s_arr d').
Proof.
  intros I Hs Hf. unfold copy_with_resize.
  destruct (Nat.leb _ _); intro E; injection E as <- <-; simpl; split; auto using Inv_put_arr.
Qed.

Lemma Inv_plant_slice H0 H s vals n H' s' :
  Inv H0 H -> opts s -> plant_slice H s vals n = (H', s') -> Inv H0 H' /\ opts s'.
Proof.
  intros I Hs. unfold plant_slice. destruct s as [s|]; intro E; injection E as <- <-; simpl in *; split; auto using Inv_put_arr.
Qed.

(* ctx_out of field updates *)
Ltac co := unfold ctx_out, cset_w, cset_req, cset_params, cset_tsrp, cset_skip, cset_route, cset_cq, cset_scope, cset_tsr,
           optp, opta, opts in *; simpl in *; intuition auto.

Lemma co_w x v : ctx_out x -> optp v -> ctx_out (cset_w x v). Proof. co. Qed.
Lemma co_req x v : ctx_out x -> opta v -> ctx_out (cset_req x v). Proof. co. Qed.
Lemma co_params x v : ctx_out x -> opts v -> ctx_out (cset_params x v). Proof. co. Qed.
Lemma co_tsrp x v : ctx_out x -> opts v -> ctx_out (cset_tsrp x v). Proof. co. Qed.
Lemma co_skip x v : ctx_out x -> ctx_out (cset_skip x v). Proof. co. Qed.
Lemma co_route x v : ctx_out x -> ctx_out (cset_route x v). Proof. co. Qed.
Lemma co_cq x v : ctx_out x -> ctx_out (cset_cq x v). Proof. co. Qed.
Lemma co_scope x v : ctx_out x -> ctx_out (cset_scope x v). Proof. co. Qed.
Lemma co_tsr x v : ctx_out x -> ctx_out (cset_tsr x v). Proof. co. Qed.

Hint Resolve co_w co_req co_params co_tsrp co_skip co_route co_cq co_scope co_tsr : iso.
Hint Resolve Inv_put_ctx Inv_put_rec Inv_put_arr Inv_put_hdr Inv_put_req Inv_bump : iso.

Lemma trunc_params_out x y : ctx_out x -> trunc_params x = Ok y -> ctx_out y.
Proof.
  unfold trunc_params. destruct (c_params x) as [s|] eqn:E; [|discriminate].
  intros Hx EQ; injection EQ as <-. apply co_params; auto. unfold ctx_out, opts in *. rewrite E in Hx. simpl. tauto.
Qed.

Lemma ctx_rec_out H0 H c : Inv H0 H -> ~ F c -> ~ F (c_rec (ctxs H c)).
Proof. intros I Hc. destruct (inv_ctx _ _ I c Hc) as (_ & _ & _ & _ & R). exact R. Qed.

(* ---------- every operation of the model preserves the invariant ---------- *)

Lemma Inv_reset H0 H c w r H' :
  Inv H0 H -> ~ F c -> ~ F w -> ~ F r -> reset H c w r = Ok H' -> Inv H0 H'.
Proof.
  intros I Hc Hw Hr. unfold reset.
  pose proof (inv_ctx _ _ I c Hc) as Hx. pose proof (ctx_rec_out _ _ _ I Hc) as Hrc.
  destruct (trunc_params _) as [y|] eqn:Ey; [|discriminate]. simpl.
  intro E; injection E as <-.
  apply Inv_put_ctx; [ | exact Hc | ].
  - apply Inv_put_rec; [exact I | exact Hrc | ]. unfold rec_out, rec_reset, optp. simpl. exact Hw.
  - eapply trunc_params_out; [|exact Ey].
    apply co_scope, co_cq, co_w; [apply co_req; [exact Hx | exact Hr]|]. simpl. exact Hrc.
Qed.

Lemma Inv_resetNil H0 H c H' :
  Inv H0 H -> ~ F c -> resetNil H c = Ok H' -> Inv H0 H'.
Proof.
  intros I Hc. unfold resetNil.
  pose proof (inv_ctx _ _ I c Hc) as Hx.
  destruct (trunc_params _) as [y|] eqn:Ey; [|discriminate]. simpl.
  intro E; injection E as <-.
  apply Inv_put_ctx; [exact I | exact Hc | ].
  eapply trunc_params_out; [|exact Ey].
  apply co_route, co_cq, co_w; [apply co_req; [exact Hx | exact Logic.I]|exact Logic.I].
Qed.

Lemma Inv_resetWithWriter H0 H c w r H' :
  Inv H0 H -> ~ F c -> ~ F w -> ~ F r -> resetWithWriter H c w r = Ok H' -> Inv H0 H'.
Proof.
  intros I Hc Hw Hr. unfold resetWithWriter.
  pose proof (inv_ctx _ _ I c Hc) as Hx.
  destruct (trunc_params _) as [y|] eqn:Ey; [|discriminate]. simpl.
  intro E; injection E as <-.
  apply Inv_put_ctx; [exact I | exact Hc | ].
  eapply trunc_params_out; [|exact Ey].
  apply co_scope, co_route, co_cq, co_tsr, co_w; [apply co_req; [exact Hx | exact Hr]|exact Hw].
Qed.

Lemma Inv_lookup_effect H0 H c l H' :
  Inv H0 H -> (next H + 2 <= top)%nat -> ~ F c -> lookup_effect H c l = Ok H' -> Inv H0 H'.
Proof.
  intros I Ltop Hc. unfold lookup_effect.
  pose proof (inv_ctx _ _ I c Hc) as Hx.
  destruct (c_params (ctxs H c)) as [sp|] eqn:Ep; [|discriminate].
  destruct (c_tsrp (ctxs H c)) as [st|] eqn:Et; [|discriminate].
  assert (Hsp : ~ F (s_arr sp)) by (destruct Hx as (_ & _ & P & _); rewrite Ep in P; exact P).
  assert (Hst : ~ F (s_arr st)) by (destruct Hx as (_ & _ & _ & P & _); rewrite Et in P; exact P).
  destruct (slice_assign (bump H 2) sp _ (next H)) as [H1 sp'] eqn:E1.
  destruct (Inv_slice_assign H0 _ _ _ _ _ _ (Inv_bump _ _ 2 I) Hsp (fresh_out0 _ _ I ltac:(lia)) E1) as [I1 Hsp'].
  destruct (lk_tsrw l) as [tp|].
  - destruct (slice_assign H1 st tp (S (next H))) as [H2 st'] eqn:E2.
    destruct (Inv_slice_assign H0 _ _ _ _ _ _ I1 Hst (fresh_outS _ _ I ltac:(lia)) E2) as [I2 Hst'].
    intro E; injection E as <-.
    apply Inv_put_ctx; auto. apply co_skip, co_tsrp; [apply co_params; auto|]; simpl; auto.
  - intro E; injection E as <-.
    apply Inv_put_ctx; auto. apply co_skip, co_tsrp; [apply co_params; auto|]; simpl; auto.
Qed.

Lemma Inv_lazy H0 H c sk : Inv H0 H -> ~ F c -> Inv H0 (lookup_lazy_effect H c sk).
Proof. intros I Hc. unfold lookup_lazy_effect. apply Inv_put_ctx; auto. apply co_skip. exact (inv_ctx _ _ I c Hc). Qed.

Lemma Inv_set_route_tsr H0 H c ro t : Inv H0 H -> ~ F c -> Inv H0 (set_route_tsr H c ro t).
Proof. intros I Hc. unfold set_route_tsr. apply Inv_put_ctx; auto. apply co_tsr, co_route. exact (inv_ctx _ _ I c Hc). Qed.

Lemma Inv_set_scope H0 H c s : Inv H0 H -> ~ F c -> Inv H0 (put_ctx H c (cset_scope (ctxs H c) s)).
Proof. intros I Hc. apply Inv_put_ctx; auto. apply co_scope. exact (inv_ctx _ _ I c Hc). Qed.

Lemma Inv_trunc H0 H c x : Inv H0 H -> ~ F c -> trunc_params (ctxs H c) = Ok x -> Inv H0 (put_ctx H c x).
Proof. intros I Hc E. apply Inv_put_ctx; auto. eapply trunc_params_out; [|exact E]. exact (inv_ctx _ _ I c Hc). Qed.

Lemma Inv_serve H0 H c w r l f H' b :
  Inv H0 H -> (next H + 2 <= top)%nat -> ~ F c -> ~ F w -> ~ F r -> serve H c w r l f = Ok (H', b) -> Inv H0 H'.
Proof.
  intros I Ltop Hc Hw Hr. unfold serve.
  destruct (reset H c w r) as [H1|] eqn:E1; [|discriminate]. simpl.
  pose proof (Inv_reset _ _ _ _ _ _ I Hc Hw Hr E1) as I1.
  pose proof (reset_next _ _ _ _ _ E1) as N1.
  destruct (lookup_effect H1 c l) as [H2|] eqn:E2; [|discriminate]. simpl.
  pose proof (Inv_lookup_effect _ _ _ _ _ I1 ltac:(lia) Hc E2) as I2.
  assert (Tail : forall Hx bx,
    (do x <- trunc_params (ctxs H2 c);
     let H := put_ctx H2 c x in
     let H := set_route_tsr H c None false in
     let noroute (H : heap) := Ok (put_ctx H c (cset_scope (ctxs H c) NoRouteHandler), BNoRoute) in
     if f_options f && f_handle_opts f then
       let H := lookup_lazy_effect H c (f_skip2 f) in
       match f_allow f with
       | Some a =>
           let H := put_hdr H w (hset HeaderAllow a (hdrs H w)) in
           Ok (put_ctx H c (cset_scope (ctxs H c) OptionsHandler), BOptions)
       | None => noroute H
       end
     else if f_handle_405 f then
       let H := lookup_lazy_effect H c (f_skip2 f) in
       match f_allow f with
       | Some a =>
           let H := put_hdr H w (hset HeaderAllow a (hdrs H w)) in
           Ok (put_ctx H c (cset_scope (ctxs H c) NoMethodHandler), BNoMethod)
       | None => noroute H
       end
     else noroute H) = Ok (Hx, bx) -> Inv H0 Hx).
  { intros Hx bx. destruct (trunc_params (ctxs H2 c)) as [x|] eqn:Et; [|discriminate]. simpl.
    pose proof (Inv_set_route_tsr _ _ c None false (Inv_trunc _ _ _ _ I2 Hc Et) Hc) as I3.
    destruct (f_options f && f_handle_opts f); [|destruct (f_handle_405 f)];
      try destruct (f_allow f); intro E; injection E as <- <-;
      repeat first [ apply Inv_set_scope | apply Inv_put_hdr | apply Inv_lazy ]; auto. }
  destruct (lk_route l) as [ri|]; destruct (lk_tsr l).
  - destruct (negb (f_connect f) && negb (f_root f) && true).
    + destruct (ri_ignore_ts ri).
      * intro E; injection E as <- <-. apply Inv_set_route_tsr; auto.
      * destruct (ri_redirect_ts ri && f_clean f).
        -- destruct (trunc_params (ctxs H2 c)) as [x|] eqn:Et; [|discriminate]. simpl.
           intro E; injection E as <- <-.
           apply Inv_set_scope; auto. apply Inv_set_route_tsr; auto. eapply Inv_trunc; eauto.
        -- apply Tail.
    + apply Tail.
  - intro E; injection E as <- <-. apply Inv_set_route_tsr; auto.
  - destruct (negb (f_connect f) && negb (f_root f) && true); [discriminate|apply Tail].
  - destruct (negb (f_connect f) && negb (f_root f) && false); [discriminate|apply Tail].
Qed.

Lemma Inv_lookup_api H0 H c w r l H' m :
  Inv H0 H -> (next H + 2 <= top)%nat -> ~ F c -> ~ F w -> ~ F r -> lookup_api H c w r l = Ok (H', m) -> Inv H0 H'.
Proof.
  intros I Ltop Hc Hw Hr. unfold lookup_api.
  destruct (resetWithWriter H c w r) as [H1|] eqn:E1; [|discriminate]. simpl.
  pose proof (Inv_resetWithWriter _ _ _ _ _ _ I Hc Hw Hr E1) as I1.
  pose proof (resetWithWriter_next _ _ _ _ _ E1) as N1.
  destruct (lookup_effect H1 c l) as [H2|] eqn:E2; [|discriminate]. simpl.
  pose proof (Inv_lookup_effect _ _ _ _ _ I1 ltac:(lia) Hc E2) as I2.
  destruct (lk_route l); intro E; injection E as <- <-; auto. apply Inv_set_route_tsr; auto.
Qed.

Lemma Inv_clone_with H0 H c cp w r H' :
  Inv H0 H -> (next H + 1 <= top)%nat -> ~ F c -> ~ F cp -> ~ F w -> ~ F r -> clone_with H c cp w r = Ok H' -> Inv H0 H'.
Proof.
  intros I Ltop Hc Hcp Hw Hr. unfold clone_with.
  destruct (c_tree (ctxs H c)); [|discriminate].
  pose proof (inv_ctx _ _ I cp Hcp) as Hy.
  set (y := cset_tsr _ _).
  assert (Hyo : ctx_out y).
  { subst y. apply co_tsr, co_cq, co_scope, co_route, co_w; [apply co_req; auto; exact Hr|exact Hw]. }
  assert (Hyp : c_params y = c_params (ctxs H cp)) by reflexivity.
  assert (Hyt : c_tsrp y = c_tsrp (ctxs H cp)) by reflexivity.
  destruct (negb (c_tsr (ctxs H c))).
  - destruct (c_params y) as [d|] eqn:Ed; [|discriminate].
    destruct (c_params (ctxs H c)) as [s|]; [|discriminate].
    assert (Hd : ~ F (s_arr d)) by (destruct Hyo as (_ & _ & P & _); rewrite Ed in P; exact P).
    destruct (copy_with_resize (bump H 1) d s (next H)) as [H1 d'] eqn:EC.
    destruct (Inv_copy_with_resize H0 _ _ _ _ _ _ (Inv_bump _ _ 1 I) Hd (fresh_out0 _ _ I ltac:(lia)) EC) as [I1 Hd'].
    intro E; injection E as <-. apply Inv_put_ctx; auto. apply co_params; auto.
  - destruct (c_tsrp y) as [d|] eqn:Ed; [|discriminate].
    destruct (c_tsrp (ctxs H c)) as [s|]; [|discriminate].
    assert (Hd : ~ F (s_arr d)) by (destruct Hyo as (_ & _ & _ & P & _); rewrite Ed in P; exact P).
    destruct (copy_with_resize (bump H 1) d s (next H)) as [H1 d'] eqn:EC.
    destruct (Inv_copy_with_resize H0 _ _ _ _ _ _ (Inv_bump _ _ 1 I) Hd (fresh_out0 _ _ I ltac:(lia)) EC) as [I1 Hd'].
    intro E; injection E as <-. apply Inv_put_ctx; auto. apply co_tsrp; auto.
Qed.

Lemma Inv_clone fx H0 H c H' cl :
  Inv H0 H -> (next H + 5 <= top)%nat -> ~ F c -> clone_gen fx H c = Ok (H', cl) -> Inv H0 H'.
Proof.
  intros I Ltop Hc. unfold clone_gen.
  destruct (c_req (ctxs H c)) as [r|]; [|discriminate].
  assert (O0 : ~ F (next H)) by (apply (inv_fresh _ _ I); lia).
  assert (O1 : ~ F (S (next H))) by (apply (inv_fresh _ _ I); lia).
  assert (O2 : ~ F (S (S (next H)))) by (apply (inv_fresh _ _ I); lia).
  assert (O3 : ~ F (S (S (S (next H))))) by (apply (inv_fresh _ _ I); lia).
  assert (O4 : ~ F (S (S (S (S (next H)))))) by (apply (inv_fresh _ _ I); lia).
  match goal with |- (do rc <- ?X; _) = _ -> _ => destruct X as [[hm nr]|] eqn:Erc; [|discriminate] end.
  simpl.
  assert (Hnr : rec_out nr).
  { destruct fx.
    - destruct (c_w (ctxs H c)) as [[nu w]|]; [|discriminate].
      destruct (r_under _) as [[? h]|]; [|discriminate]. injection Erc as <- <-. unfold rec_out, optp. simpl. exact O1.
    - destruct (r_under _) as [[? h]|]; [|discriminate]. injection Erc as <- <-. unfold rec_out, optp. simpl. exact O1. }
  match goal with |- (do ps <- ?X; _) = _ -> _ => destruct X as [[[p tp] vals]|] eqn:Eps; [|discriminate] end.
  simpl. intro E; injection E as <- <-.
  assert (Hpt : opts p /\ opts tp).
  { destruct (negb (c_tsr (ctxs H c))).
    - destruct (c_params (ctxs H c)); [|discriminate]. injection Eps as <- <- <-. simpl. auto.
    - destruct (c_tsrp (ctxs H c)); [|discriminate]. injection Eps as <- <- <-. simpl. auto. }
  destruct Hpt as [Hp Ht].
  apply Inv_put_ctx; auto.
  - apply Inv_put_arr; auto. apply Inv_put_rec; auto. apply Inv_put_hdr; auto. apply Inv_put_req; auto. apply Inv_bump; auto.
  - unfold ctx_out. simpl. repeat split; auto.
Qed.

Lemma ctx_writer_out H0 H c w : Inv H0 H -> ~ F c -> writer_of H c = Ok w -> ~ F w.
Proof.
  intros I Hc. unfold writer_of. destruct (inv_ctx _ _ I c Hc) as (P & _).
  destruct (c_w (ctxs H c)) as [[nu w']|]; [|discriminate]. intro E; injection E as <-. exact P.
Qed.

Lemma Inv_set_header H0 H c k v H' : Inv H0 H -> ~ F c -> set_header H c k v = Ok H' -> Inv H0 H'.
Proof.
  intros I Hc. unfold set_header.
  destruct (writer_of H c) as [w|] eqn:Ew; [|discriminate]. simpl.
  pose proof (ctx_writer_out _ _ _ _ I Hc Ew) as Hw.
  pose proof (inv_rec _ _ I w Hw) as Hr. unfold rec_out, optp in Hr.
  destruct (r_under (recs H w)) as [[nu h]|]; [|discriminate].
  intro E; injection E as <-. apply Inv_put_hdr; auto.
Qed.

Lemma Inv_write_header H0 H c code H' : Inv H0 H -> ~ F c -> write_header H c code = Ok H' -> Inv H0 H'.
Proof.
  intros I Hc. unfold write_header.
  destruct (writer_of H c) as [w|] eqn:Ew; [|discriminate]. simpl.
  pose proof (ctx_writer_out _ _ _ _ I Hc Ew) as Hw.
  pose proof (inv_rec _ _ I w Hw) as Hr.
  destruct (r_hij (recs H w)); [intro E; injection E as <-; exact I|].
  destruct (negb _); [intro E; injection E as <-; exact I|].
  destruct (r_under (recs H w)) as [[[|] h]|] eqn:Eu; try discriminate.
  intro E; injection E as <-. apply Inv_put_rec; auto. unfold rec_out in *. simpl. rewrite Eu in Hr. exact Hr.
Qed.

Lemma Inv_write_body H0 H c n H' : Inv H0 H -> ~ F c -> write_body H c n = Ok H' -> Inv H0 H'.
Proof.
  intros I Hc. unfold write_body.
  destruct (writer_of H c) as [w|] eqn:Ew; [|discriminate]. simpl.
  pose proof (ctx_writer_out _ _ _ _ I Hc Ew) as Hw.
  pose proof (inv_rec _ _ I w Hw) as Hr.
  destruct (r_hij (recs H w)); [intro E; injection E as <-; exact I|].
  destruct (r_under (recs H w)) as [[[|] h]|] eqn:Eu; try discriminate.
  intro E; injection E as <-. apply Inv_put_rec; auto. unfold rec_out in *. simpl. rewrite Eu in Hr. exact Hr.
Qed.

Lemma Inv_get_queries H0 H c : Inv H0 H -> ~ F c -> Inv H0 (fst (get_queries H c)).
Proof.
  intros I Hc. unfold get_queries. destruct (c_cq (ctxs H c)); simpl; auto.
  apply Inv_put_ctx; auto. apply co_cq. exact (inv_ctx _ _ I c Hc).
Qed.

Lemma Inv_req_set_header H0 H c k v H' : Inv H0 H -> ~ F c -> req_set_header H c k v = Ok H' -> Inv H0 H'.
Proof.
  intros I Hc. unfold req_set_header.
  destruct (inv_ctx _ _ I c Hc) as (_ & P & _).
  destruct (c_req (ctxs H c)) as [r|]; [|discriminate]. intro E; injection E as <-.
  apply Inv_put_req; auto.
Qed.

Lemma Inv_alloc_ctx H0 H t f cap : Inv H0 H -> (next H + 4 <= top)%nat -> Inv H0 (fst (alloc_ctx H t f cap)).
Proof.
  intros I Ltop. unfold alloc_ctx. simpl.
  assert (O0 : ~ F (next H)) by (apply (inv_fresh _ _ I); lia).
  assert (O1 : ~ F (S (next H))) by (apply (inv_fresh _ _ I); lia).
  assert (O2 : ~ F (S (S (next H)))) by (apply (inv_fresh _ _ I); lia).
  assert (O3 : ~ F (S (S (S (next H))))) by (apply (inv_fresh _ _ I); lia).
  apply Inv_put_ctx; auto.
  - apply Inv_put_arr; auto. apply Inv_put_arr; auto. apply Inv_put_rec; auto. apply Inv_bump; auto.
    unfold rec_out, zero_rec, optp. simpl. exact Logic.I.
  - unfold ctx_out, optp, opta, opts. simpl. repeat split; auto.
Qed.

Lemma Inv_plant H0 H c s :
  Inv H0 H -> ~ F c -> (forall a, In a (stale_addrs s) -> ~ F a) -> Inv H0 (plant H c s).
Proof.
  intros I Hc Hs. unfold plant.
  destruct (inv_ctx _ _ I c Hc) as (Pw & Pr & Pp & Pt & Prc).
  destruct (plant_slice H (c_params (ctxs H c)) (st_params s) (st_plen s)) as [H1 p] eqn:E1.
  destruct (Inv_plant_slice H0 _ _ _ _ _ _ I Pp E1) as [I1 Hp].
  destruct (plant_slice H1 (c_tsrp (ctxs H c)) (st_tsrp s) (st_tlen s)) as [H2 t] eqn:E2.
  destruct (Inv_plant_slice H0 _ _ _ _ _ _ I1 Pt E2) as [I2 Ht].
  unfold stale_addrs in Hs.
  apply Inv_put_ctx; auto.
  - apply Inv_put_rec; auto. unfold rec_out, optp.
    destruct (r_under (st_rec s)) as [[b a]|] eqn:Eu; auto.
    apply Hs. apply in_or_app. right. apply in_or_app. right. simpl. auto.
  - unfold ctx_out, optp, opta. simpl. repeat split; auto.
    + destruct (st_w s) as [[b a]|] eqn:Ew; auto. apply Hs. apply in_or_app. left. simpl. auto.
    + destruct (st_req s) as [a|] eqn:Er; auto. apply Hs. apply in_or_app. right. apply in_or_app. left. simpl. auto.
Qed.

Lemma Inv_step fx H0 H o H' :
  Inv H0 H -> (next H + alloc_of o <= top)%nat ->
  (forall a, In a (op_addrs o) -> ~ F a) -> fst (step fx o H) = Ok H' -> Inv H0 H'.
Proof.
  intros I Ltop Ha.
  destruct o; simpl in *.
  - intro E; injection E as <-. apply Inv_alloc_ctx; auto.
  - intro E; injection E as <-. unfold alloc_req. simpl. apply Inv_put_req; [apply Inv_bump; exact I | eapply fresh_out0; [exact I | lia]].
  - intro E; injection E as <-. unfold alloc_hw. simpl. apply Inv_put_hdr; [apply Inv_bump; exact I | eapply fresh_out0; [exact I | lia]].
  - intro E; injection E as <-. unfold alloc_rec. simpl. apply Inv_put_rec; [apply Inv_bump; exact I | eapply fresh_out0; [exact I | lia] | ].
    unfold rec_out, rec_reset, optp. simpl. apply Ha. auto.
  - intro E; injection E as <-. apply Inv_plant; [exact I | apply Ha; simpl; auto | intros a Hin; apply Ha; simpl; auto].
  - destruct (serve H c w r l f) as [[H1 b]|] eqn:E1; simpl; [|discriminate].
    intro E; injection E as <-. eapply Inv_serve; [exact I|lia| | | |exact E1]; apply Ha; simpl; auto.
  - destruct (lookup_api H c w r l) as [[H1 m]|] eqn:E1; simpl; [|discriminate].
    intro E; injection E as <-. eapply Inv_lookup_api; [exact I|lia| | | |exact E1]; apply Ha; simpl; auto.
  - destruct (resetNil H c) as [H1|] eqn:E1; simpl; [|discriminate].
    intro E; injection E as <-. eapply Inv_resetNil; [exact I| |exact E1]; apply Ha; simpl; auto.
  - intro E; injection E as <-. apply Inv_lazy; [exact I | apply Ha; simpl; auto].
  - destruct (clone_with H c cp w r) as [H1|] eqn:E1; simpl; [|discriminate].
    intro E; injection E as <-. eapply Inv_clone_with; [exact I|lia| | | | |exact E1]; apply Ha; simpl; auto 6.
  - destruct (clone_gen fx H c) as [[H1 cl]|] eqn:E1; simpl; [|discriminate].
    intro E; injection E as <-. eapply Inv_clone; [exact I|lia| |exact E1]; apply Ha; simpl; auto.
  - destruct (set_header H c k v) as [H1|] eqn:E1; simpl; [|discriminate].
    intro E; injection E as <-. eapply Inv_set_header; [exact I| |exact E1]; apply Ha; simpl; auto.
  - destruct (write_header H c code) as [H1|] eqn:E1; simpl; [|discriminate].
    intro E; injection E as <-. eapply Inv_write_header; [exact I| |exact E1]; apply Ha; simpl; auto.
  - destruct (write_body H c n) as [H1|] eqn:E1; simpl; [|discriminate].
    intro E; injection E as <-. eapply Inv_write_body; [exact I| |exact E1]; apply Ha; simpl; auto.
  - intro E; injection E as <-. apply Inv_get_queries; [exact I | apply Ha; simpl; auto].
  - destruct (req_set_header H c k v) as [H1|] eqn:E1; simpl; [|discriminate].
    intro E; injection E as <-. eapply Inv_req_set_header; [exact I| |exact E1]; apply Ha; simpl; auto.
  - intro E; injection E as <-. exact I.
  - intro E; injection E as <-. exact I.
Qed.

Lemma Inv_exec fx H0 ops : forall H H',
  Inv H0 H -> (forall o, In o ops -> forall a, In a (op_addrs o) -> ~ F a) ->
  exec fx ops H = Some H' -> (next H' <= top)%nat -> Inv H0 H'.
Proof.
  induction ops as [|o rest IH]; intros H H' I Ha; simpl.
  - intro E; injection E as <-. intros _. exact I.
  - destruct (fst (step fx o H)) as [H1|] eqn:E1; [|discriminate].
    intros E Ltop. eapply IH; [| |exact E|exact Ltop].
    + eapply Inv_step; [exact I| | |exact E1].
      * pose proof (step_next _ _ _ _ E1). pose proof (exec_next_mono _ _ _ _ E). lia.
      * intros a. apply Ha. now left.
    + intros o' Ho'. apply Ha. now right.
Qed.

End Iso.
