(* C12 proofs, part 5: clone_stable.  The objects of a Clone live in the five
   addresses Clone allocates; observation of the clone reads nothing else; the
   isolation invariant of ProofsStable.v keeps them unchanged under any later
   history that is not handed one of these addresses. *)
From FoxBase Require Import Bytes.
From FoxC12 Require Import Types Context Ops Spec ProofsBasic ProofsView ProofsNext ProofsStable.
From Coq Require Import ZArith Lia.
Open Scope list_scope.

(* no dangling or forward pointers: everything stored anywhere is below the allocation counter *)
Definition ptr_below (n : addr) {A} (o : option (A * addr)) : Prop := match o with Some (_, a) => (a < n)%nat | None => True end.
Definition wf_heap (H : heap) : Prop :=
  forall a,
    (let x := ctxs H a in
     ptr_below (next H) (c_w x) /\
     match c_req x with Some r => (r < next H)%nat | None => True end /\
     match c_params x with Some s => (s_arr s < next H)%nat | None => True end /\
     match c_tsrp x with Some s => (s_arr s < next H)%nat | None => True end /\
     (c_rec x < next H)%nat) /\
    ptr_below (next H) (r_under (recs H a)).

Lemma observe_ext H1 H2 c :
  ctxs H2 c = ctxs H1 c ->
  (forall s, c_params (ctxs H1 c) = Some s \/ c_tsrp (ctxs H1 c) = Some s -> arrs H2 (s_arr s) = arrs H1 (s_arr s)) ->
  (forall r, c_req (ctxs H1 c) = Some r -> reqs H2 r = reqs H1 r) ->
  (forall nu w, c_w (ctxs H1 c) = Some (nu, w) ->
      recs H2 w = recs H1 w /\ forall nu' h, r_under (recs H1 w) = Some (nu', h) -> hdrs H2 h = hdrs H1 h) ->
  observe H2 c = observe H1 c.
Proof.
  intros Ec Ea Er Ew. unfold observe, ctx_params. rewrite Ec.
  assert (P : (if c_tsr (ctxs H1 c)
               then match c_tsrp (ctxs H1 c) with Some s => Ok (slice_read H2 s) | None => Panic end
               else match c_params (ctxs H1 c) with Some s => Ok (slice_read H2 s) | None => Panic end) =
              (if c_tsr (ctxs H1 c)
               then match c_tsrp (ctxs H1 c) with Some s => Ok (slice_read H1 s) | None => Panic end
               else match c_params (ctxs H1 c) with Some s => Ok (slice_read H1 s) | None => Panic end)).
  { destruct (c_tsr (ctxs H1 c)).
    - destruct (c_tsrp (ctxs H1 c)) as [s|] eqn:E; auto. f_equal. apply slice_read_ext. apply Ea. auto.
    - destruct (c_params (ctxs H1 c)) as [s|] eqn:E; auto. f_equal. apply slice_read_ext. apply Ea. auto. }
  rewrite P. clear P.
  destruct (if c_tsr (ctxs H1 c) then _ else _) as [ps|]; simpl; auto.
  destruct (c_req (ctxs H1 c)) as [r|] eqn:Erq; auto.
  destruct (c_w (ctxs H1 c)) as [[nu w]|] eqn:Ewq; auto.
  destruct (Ew nu w eq_refl) as [Erec Eh].
  unfold writer_view. rewrite Erec, (Er r eq_refl).
  destruct (r_under (recs H1 w)) as [[nu' h]|] eqn:Eu; auto.
  rewrite (Eh nu' h eq_refl). reflexivity.
Qed.

Lemma raw_of_ext H1 H2 c :
  ctxs H2 c = ctxs H1 c ->
  (forall s, c_params (ctxs H1 c) = Some s \/ c_tsrp (ctxs H1 c) = Some s -> arrs H2 (s_arr s) = arrs H1 (s_arr s)) ->
  recs H2 (c_rec (ctxs H1 c)) = recs H1 (c_rec (ctxs H1 c)) ->
  raw_of H2 c = raw_of H1 c.
Proof.
  intros Ec Ea Er. unfold raw_of. rewrite Ec, Er.
  assert (P1 : option_map (slice_read H2) (c_params (ctxs H1 c)) = option_map (slice_read H1) (c_params (ctxs H1 c))).
  { destruct (c_params (ctxs H1 c)) as [s|] eqn:E; auto. simpl. f_equal. apply slice_read_ext. apply Ea. auto. }
  assert (P2 : option_map (slice_read H2) (c_tsrp (ctxs H1 c)) = option_map (slice_read H1) (c_tsrp (ctxs H1 c))).
  { destruct (c_tsrp (ctxs H1 c)) as [s|] eqn:E; auto. simpl. f_equal. apply slice_read_ext. apply Ea. auto. }
  now rewrite P1, P2.
Qed.

(* what Clone builds, and that it writes nothing outside the five fresh addresses *)
Lemma clone_shape fx H c H' cl :
  clone_gen fx H c = Ok (H', cl) ->
  let n := next H in
  cl = (n + 4)%nat /\ next H' = (n + 5)%nat /\
  c_w (ctxs H' cl) = Some (true, (n + 2)%nat) /\ c_req (ctxs H' cl) = Some n /\
  c_rec (ctxs H' cl) = (n + 2)%nat /\
  (forall s, c_params (ctxs H' cl) = Some s \/ c_tsrp (ctxs H' cl) = Some s -> s_arr s = (n + 3)%nat) /\
  r_under (recs H' (n + 2)%nat) = Some (true, (n + 1)%nat) /\
  (forall a, ~ (n <= a < n + 5)%nat -> ctxs H' a = ctxs H a /\ recs H' a = recs H a).
Proof.
  unfold clone_gen. intro E.
  destruct (c_req (ctxs H c)) as [r|]; [|discriminate].
  match type of E with (do rc <- ?X; _) = _ => destruct X as [[hm nr]|] eqn:Erc; [|discriminate] end.
  simpl in E.
  match type of E with (do ps <- ?X; _) = _ => destruct X as [[[p tp] vals]|] eqn:Eps; [|discriminate] end.
  simpl in E. injection E as <- <-.
  assert (Hnr : r_under nr = Some (true, S (next H))).
  { destruct fx.
    - destruct (c_w (ctxs H c)) as [[nu w]|]; [|discriminate].
      destruct (r_under _) as [[? h]|]; [|discriminate]. injection Erc as <- <-. reflexivity.
    - destruct (r_under _) as [[? h]|]; [|discriminate]. injection Erc as <- <-. reflexivity. }
  assert (Hpt : forall s, p = Some s \/ tp = Some s -> s_arr s = S (S (S (next H)))).
  { destruct (negb (c_tsr (ctxs H c))).
    - destruct (c_params (ctxs H c)) as [s0|]; [|discriminate]. injection Eps as <- <- <-.
      intros s [E|E]; [injection E as <-; reflexivity|discriminate].
    - destruct (c_tsrp (ctxs H c)) as [s0|]; [|discriminate]. injection Eps as <- <- <-.
      intros s [E|E]; [discriminate|injection E as <-; reflexivity]. }
  cbv zeta.
  replace (next H + 4)%nat with (S (S (S (S (next H))))) by lia.
  replace (next H + 3)%nat with (S (S (S (next H)))) by lia.
  replace (next H + 2)%nat with (S (S (next H))) by lia.
  replace (next H + 1)%nat with (S (next H)) by lia.
  simpl. upd_simpl. simpl.
  repeat split; auto; try lia.
  all: rewrite upd_other by lia; reflexivity.
Qed.

Theorem clone_stable_proof :
  forall (fx : bool) (H : heap) (c : addr) (H' : heap) (cl : addr) (later : list op) (H'' : heap),
    wf_heap H ->
    clone_gen fx H c = Ok (H', cl) ->
    (forall o, In o later -> forall a, In a (op_addrs o) -> ~ (next H <= a < next H + 5)%nat) ->
    exec fx later H' = Some H'' ->
    observe H'' cl = observe H' cl /\ raw_of H'' cl = raw_of H' cl.
Proof.
  intros fx H c H' cl later H'' Hwf Ecl Hargs Eex.
  pose proof (clone_shape fx H c H' cl Ecl) as S. cbv zeta in S.
  destruct S as (-> & En & Sw & Sr & Src & Sarr & Su & Sframe).
  set (n := next H) in *.
  set (Fr := fun a : addr => (n <= a < n + 5)%nat).
  pose proof (exec_next_mono _ _ _ _ Eex) as Hmono.
  assert (I0 : Inv Fr (next H'') H' H').
  { constructor.
    - intros a La. unfold Fr. lia.
    - intros a Ha. destruct (Sframe a Ha) as [-> _].
      destruct (Hwf a) as [(Pw & Pr & Pp & Pt & Prc) _]. fold n in Pw, Pr, Pp, Pt, Prc.
      unfold ctx_out, optp, opta, opts, Fr, ptr_below in *. repeat split.
      + destruct (c_w (ctxs H a)) as [[? w]|]; auto. lia.
      + destruct (c_req (ctxs H a)); auto. lia.
      + destruct (c_params (ctxs H a)); auto. lia.
      + destruct (c_tsrp (ctxs H a)); auto. lia.
      + lia.
    - intros a Ha. destruct (Sframe a Ha) as [_ ->].
      destruct (Hwf a) as [_ Pu]. fold n in Pu.
      unfold rec_out, optp, Fr, ptr_below in *. destruct (r_under (recs H a)) as [[? h]|]; auto. lia.
    - intros a Ha. repeat split; reflexivity. }
  assert (I : Inv Fr (next H'') H' H'').
  { eapply Inv_exec; [exact I0| |exact Eex|lia]. intros o Ho a Ha. unfold Fr. apply (Hargs o Ho a Ha). }
  assert (Fa : forall k, (k < 5)%nat -> Fr (n + k)%nat) by (intros; unfold Fr; lia).
  destruct (inv_same _ _ _ _ I (n + 4)%nat (Fa 4%nat ltac:(lia))) as (_ & _ & _ & _ & Ec4).
  destruct (inv_same _ _ _ _ I (n + 3)%nat (Fa 3%nat ltac:(lia))) as (Ea3 & _).
  destruct (inv_same _ _ _ _ I (n + 2)%nat (Fa 2%nat ltac:(lia))) as (_ & _ & _ & Er2 & _).
  destruct (inv_same _ _ _ _ I (n + 1)%nat (Fa 1%nat ltac:(lia))) as (_ & Eh1 & _).
  destruct (inv_same _ _ _ _ I (n + 0)%nat (Fa 0%nat ltac:(lia))) as (_ & _ & Eq0 & _).
  replace (n + 0)%nat with n in Eq0 by lia.
  split.
  - apply observe_ext; auto.
    + intros s Hs. rewrite (Sarr s Hs). exact Ea3.
    + intros r Hr. rewrite Sr in Hr. injection Hr as <-. exact Eq0.
    + intros nu w Hw. rewrite Sw in Hw. injection Hw as <- <-. split; [exact Er2|].
      intros nu' h Hu. rewrite Su in Hu. injection Hu as <- <-. exact Eh1.
  - apply raw_of_ext; auto.
    + intros s Hs. rewrite (Sarr s Hs). exact Ea3.
    + rewrite Src. exact Er2.
Qed.

(* ---------- wf_heap is an invariant of every history whose address arguments exist ---------- *)

Lemma wf_step fx o H H' :
  wf_heap H -> (forall a, In a (op_addrs o) -> (a < next H)%nat) ->
  fst (step fx o H) = Ok H' -> wf_heap H'.
Proof.
  intros Hwf Hargs Es.
  pose proof (step_next _ _ _ _ Es) as Hn.
  set (top := next H').
  set (Ft := fun a : addr => (top <= a)%nat).
  assert (I0 : Inv Ft top H H).
  { constructor.
    - intros a La. unfold Ft. lia.
    - intros a _. destruct (Hwf a) as [(Pw & Pr & Pp & Pt & Prc) _].
      unfold ctx_out, optp, opta, opts, Ft, ptr_below in *. repeat split.
      + destruct (c_w (ctxs H a)) as [[? w]|]; auto. lia.
      + destruct (c_req (ctxs H a)); auto. lia.
      + destruct (c_params (ctxs H a)); auto. lia.
      + destruct (c_tsrp (ctxs H a)); auto. lia.
      + lia.
    - intros a _. destruct (Hwf a) as [_ Pu].
      unfold rec_out, optp, Ft, ptr_below in *. destruct (r_under (recs H a)) as [[? h]|]; auto. lia.
    - intros a Ha. repeat split; reflexivity. }
  assert (I : Inv Ft top H H').
  { eapply Inv_step; [exact I0| | |exact Es].
    - subst top. lia.
    - intros a Ha. unfold Ft. specialize (Hargs a Ha). lia. }
  intro a. destruct (le_lt_dec top a) as [Hge|Hlt].
  - (* beyond the counter: untouched *)
    destruct (inv_same _ _ _ _ I a Hge) as (_ & _ & _ & Er & Ec). rewrite Er, Ec.
    destruct (Hwf a) as [(Pw & Pr & Pp & Pt & Prc) Pu]. fold top.
    unfold ptr_below in *. repeat split.
    + destruct (c_w (ctxs H a)) as [[? w]|]; auto. lia.
    + destruct (c_req (ctxs H a)); auto. lia.
    + destruct (c_params (ctxs H a)); auto. lia.
    + destruct (c_tsrp (ctxs H a)); auto. lia.
    + lia.
    + destruct (r_under (recs H a)) as [[? h]|]; auto. lia.
  - assert (Hnf : ~ Ft a) by (unfold Ft; lia).
    destruct (inv_ctx _ _ _ _ I a Hnf) as (Pw & Pr & Pp & Pt & Prc).
    pose proof (inv_rec _ _ _ _ I a Hnf) as Pu.
    fold top. unfold rec_out, optp, opta, opts, Ft, ptr_below in *. repeat split.
    + destruct (c_w (ctxs H' a)) as [[? w]|]; auto. lia.
    + destruct (c_req (ctxs H' a)); auto. lia.
    + destruct (c_params (ctxs H' a)); auto. lia.
    + destruct (c_tsrp (ctxs H' a)); auto. lia.
    + lia.
    + destruct (r_under (recs H' a)) as [[? h]|]; auto. lia.
Qed.

(* every address argument of every op exists when the op runs *)
Fixpoint valid (fx : bool) (ops : list op) (H : heap) : Prop :=
  match ops with
  | [] => True
  | o :: rest =>
      (forall a, In a (op_addrs o) -> (a < next H)%nat) /\
      match fst (step fx o H) with Ok H' => valid fx rest H' | Panic => True end
  end.

Lemma wf_exec fx ops : forall H H', wf_heap H -> valid fx ops H -> exec fx ops H = Some H' -> wf_heap H'.
Proof.
  induction ops as [|o rest IH]; intros H H' Hwf Hv; simpl.
  - intro E; injection E as <-. exact Hwf.
  - destruct Hv as [Ha Hr]. destruct (fst (step fx o H)) as [H1|] eqn:E1; [|discriminate].
    intro E. eapply IH; [|exact Hr|exact E]. eapply wf_step; eauto.
Qed.

Lemma wf_empty : wf_heap empty_heap.
Proof. intro a. unfold ptr_below. simpl. repeat split; auto. Qed.

Theorem wf_reachable_proof fx ops H :
  valid fx ops empty_heap -> exec fx ops empty_heap = Some H -> wf_heap H.
Proof. intros Hv E. eapply wf_exec; [exact wf_empty|exact Hv|exact E]. Qed.
