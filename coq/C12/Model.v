(* C12: the model of the code as it is now (after commit 036e194: Clone
   snapshots the writer in use).  Context.v holds the definitions, with the one
   difference between the code before and after the fix as a boolean. *)
From FoxC12 Require Export Types Context Ops.

Definition clone := clone_gen true.
Definition run_model := run true.
Definition exec_model := exec true.
