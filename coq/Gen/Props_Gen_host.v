(* Props_Gen_host.v — internal/netutil (C09: Route/HostPort.v; C01 lazy lookup: Route/Iter.v).
   Tie A for small pure functions: the definitions gotrans REGENERATES from the Go sources on every
   run (GenFuns.v) are equal, on ALL inputs, to the hand-written models the property proofs use.
   Only statements closed by [exact]; non-vacuity examples next to them.  Notes: docs/Gen.md *)
From FoxBase Require Import Bytes.
From FoxGen Require Import GoSem GenFuns BridgeBase BridgeHost.
From FoxRoute Require Import Node HostPort Iter.
From FoxRoute Require Props_C09_host.
Open Scope char_scope.
Open Scope Z_scope.

(* ================================================================== internal/netutil *)
Theorem gen_splitHostPort_eq : forall hp, gen_splitHostPort hp = Ret (split_view (split_host_port hp)).
Proof. exact splitHostPort_eq. Qed.
Print Assumptions gen_splitHostPort_eq.

Theorem gen_StripHostPort_eq : forall h, gen_StripHostPort h = Ret (strip_host_port h).
Proof. exact StripHostPort_eq. Qed.
Print Assumptions gen_StripHostPort_eq.

(* ... and hence the generated function meets the specification of C09 (p-host's theorem) *)
Theorem gen_StripHostPort_eq_spec : forall h, gen_StripHostPort h = Ret (strip_spec h).
Proof. exact (fun h => eq_trans (StripHostPort_eq h) (f_equal Ret (Props_C09_host.strip_host_port_eq_spec h))). Qed.
Print Assumptions gen_StripHostPort_eq_spec.

Example StripHostPort_nonvacuous :
  gen_StripHostPort (S2B "example.com.:8080") = Ret (S2B "example.com") /\
  gen_StripHostPort (S2B "[::1]:80") = Ret (S2B "::1") /\
  gen_StripHostPort (S2B "[::1]") = Ret (S2B "[::1]") /\
  gen_StripHostPort (S2B "a:b:c") = Ret (S2B "a:b:c") /\
  gen_StripHostPort (S2B ":") = Ret [] /\ gen_StripHostPort [] = Ret [].
Proof. repeat split. Qed.

(* validOptionalPort iterates over RUNES (for range over a string); equal to the byte-wise model *)
Theorem gen_validOptionalPort_eq : forall p, gen_validOptionalPort p = Ret (valid_optional_port p).
Proof. exact validOptionalPort_eq. Qed.
Print Assumptions gen_validOptionalPort_eq.

Example validOptionalPort_nonvacuous :
  gen_validOptionalPort (S2B ":8080") = Ret true /\ gen_validOptionalPort (S2B ":80a") = Ret false /\
  gen_validOptionalPort (B [58; 49; 195; 169]%N) = Ret false /\ gen_validOptionalPort (S2B ":") = Ret true /\
  gen_validOptionalPort (S2B "80") = Ret false.
Proof. repeat split. Qed.

Theorem gen_SplitHostPort_eq : forall hp, exists port, gen_SplitHostPort hp = Ret (split_host_port_rfc hp, port).
Proof. exact SplitHostPort_eq. Qed.
Print Assumptions gen_SplitHostPort_eq.

Example SplitHostPort_nonvacuous :
  gen_SplitHostPort (S2B "[::1]:80") = Ret (S2B "::1", S2B "80") /\
  gen_SplitHostPort (S2B "a.b:x") = Ret (S2B "a.b:x", []) /\
  gen_SplitHostPort (S2B "{sub}.a.b:") = Ret (S2B "{sub}.a.b", []).
Proof. repeat split. Qed.

