(* coq/Gen — lemmas about the primitives of GoSem.v shared by the bridges.  Notes: docs/Gen.md *)
From FoxBase Require Import Bytes.
From FoxGen Require Import GoSem GenFuns.
From Coq Require Import Lia ZArith.
Open Scope Z_scope.

(* ------------------------------------------------------------------ basics *)
Definition optZ (o : option nat) : Z := match o with Some n => Z.of_nat n | None => -1 end.

Lemma len_nil {A} : len (@nil A) = 0. Proof. reflexivity. Qed.
Lemma len_cons {A} (x : A) s : len (x :: s) = len s + 1.
Proof. unfold len. cbn [List.length]. lia. Qed.
Lemma len_app {A} (a b : list A) : len (a ++ b) = len a + len b.
Proof. unfold len. rewrite app_length. lia. Qed.
Lemma len_nonneg {A} (s : list A) : 0 <= len s.
Proof. unfold len. lia. Qed.

Lemma go_index_app {A} (pre : list A) x suf : go_index (pre ++ x :: suf) (len pre) = Ret x.
Proof.
  unfold go_index, len. destruct (Z.ltb_spec (Z.of_nat (List.length pre)) 0) as [H|H]; [lia|].
  rewrite Nat2Z.id, nth_error_app2 by lia. rewrite Nat.sub_diag. reflexivity.
Qed.

Lemma go_index_nth {A} (s : list A) i d : 0 <= i < len s -> go_index s i = Ret (nth (Z.to_nat i) s d).
Proof.
  intros H. unfold go_index. destruct (Z.ltb_spec i 0) as [H0|H0]; [lia|].
  destruct (nth_error s (Z.to_nat i)) eqn:E.
  - rewrite (nth_error_nth _ _ d E). reflexivity.
  - apply nth_error_None in E. unfold len in H. lia.
Qed.

Lemma go_slice_to_app {A} (pre suf : list A) : go_slice_to (pre ++ suf) (len pre) = Ret pre.
Proof.
  unfold go_slice_to. rewrite len_app.
  pose proof (len_nonneg pre). pose proof (len_nonneg suf).
  destruct (Z.leb_spec 0 (len pre)); [|lia].
  destruct (Z.leb_spec (len pre) (len pre + len suf)); [|lia]. cbn [andb].
  unfold len. rewrite Nat2Z.id, firstn_app, Nat.sub_diag, firstn_all. cbn [firstn]. now rewrite app_nil_r.
Qed.

Lemma app_cons_assoc {A} (pre : list A) x suf : pre ++ x :: suf = (pre ++ [x]) ++ suf.
Proof. now rewrite <- app_assoc. Qed.

