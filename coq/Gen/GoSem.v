(* coq/Gen/GoSem.v — HAND-WRITTEN.  The meaning of the Go primitives that the
   translator harness/cmd/gotrans emits (GenFuns.v uses nothing else):

     outcome        Ret v | Panic (run-time panic: index / slice out of range, nil
                    dereference, explicit panic(..)) | OutOfFuel (a loop helper
                    exhausted its explicit bound: never a Go behaviour; every
                    bridge theorem [gen_f x = Ret ..] excludes it)
     string, []byte bytes (list ascii);  byte: ascii;  int / named integer
                    types / rune: Z (unbounded: exact as long as no intermediate
                    value leaves the int64 range — all arithmetic in the
                    translated functions is on lengths and indexes +- small
                    constants)
     s[i]           go_index        s[a:b]  go_slice   s[a:]  go_slice_from
     s[:b]          go_slice_to     (strings: 0 <= a <= b <= len s, else Panic)
     strings.*      strings_IndexByte / LastIndexByte / HasPrefix / HasSuffix /
                    TrimPrefix / TrimSuffix / Contains
     for .. range s (string)   decode_rune: the UTF-8 decoder of the language
                    specification (invalid sequence => U+FFFD, width 1)
     int(uint(e) >> k)         go_uint_shr (64-bit two's complement)

     []byte buffer  (a LOCAL []byte variable, or the target of a *[]byte parameter)
                    gobuf = backing array from the start of the slice up to its
                    capacity + length.  make([]byte, n[, c]) buf_make; x[:k] (k <= cap:
                    the bytes between len and cap reappear) buf_reslice_to; x[i]
                    buf_index; x[i] = c buf_set; copy(x, s) buf_copy; string(x)
                    buf_string; len / cap buf_len / buf_cap.  A value stands for a
                    Go slice only under the aliasing discipline the translator
                    enforces (harness/cmd/gotrans/buf.go): no two live variables share
                    a backing array, except `b := *buf`, which has the same header.

   GenSemCheck.v (generated) replays samples of the real Go functions against
   these definitions on every run. *)
From FoxBase Require Import Bytes.
Open Scope Z_scope.

Inductive outcome (A : Type) : Type := Ret (a : A) | Panic | OutOfFuel.
Arguments Ret {A} a.
Arguments Panic {A}.
Arguments OutOfFuel {A}.

Definition bind {A B} (o : outcome A) (k : A -> outcome B) : outcome B :=
  match o with Ret a => k a | Panic => Panic | OutOfFuel => OutOfFuel end.

Definition len {A} (s : list A) : Z := Z.of_nat (List.length s).

Definition go_index {A} (s : list A) (i : Z) : outcome A :=
  if i <? 0 then Panic
  else match nth_error s (Z.to_nat i) with Some c => Ret c | None => Panic end.

Definition go_slice {A} (s : list A) (a b : Z) : outcome (list A) :=
  if (0 <=? a) && (a <=? b) && (b <=? len s)
  then Ret (firstn (Z.to_nat (b - a)) (skipn (Z.to_nat a) s)) else Panic.

Definition go_slice_from {A} (s : list A) (a : Z) : outcome (list A) :=
  if (0 <=? a) && (a <=? len s) then Ret (skipn (Z.to_nat a) s) else Panic.

Definition go_slice_to {A} (s : list A) (b : Z) : outcome (list A) :=
  if (0 <=? b) && (b <=? len s) then Ret (firstn (Z.to_nat b) s) else Panic.

(* *T as option: nil = None *)
Definition go_deref {A} (p : option A) : outcome A :=
  match p with Some a => Ret a | None => Panic end.
Definition go_isnil {A} (p : option A) : bool :=
  match p with Some _ => false | None => true end.

(* bytes are unsigned 8-bit numbers *)
Definition bz (c : ascii) : Z := Z.of_N (N_of_ascii c).
Definition byte_ltb (a b : ascii) : bool := bz a <? bz b.
Definition byte_leb (a b : ascii) : bool := bz a <=? bz b.

(* int(uint(e) >> k): uint(e) is e modulo 2^64; the result of the shift (k >= 1) is below 2^63 *)
Definition go_uint_shr (e k : Z) : Z := Z.shiftr (e mod 18446744073709551616) k.

(* ---- package strings ---- *)
Fixpoint index_byte_from (i : Z) (s : bytes) (c : ascii) : Z :=
  match s with
  | [] => -1
  | x :: r => if Ascii.eqb x c then i else index_byte_from (i + 1) r c
  end.
Definition strings_IndexByte (s : bytes) (c : ascii) : Z := index_byte_from 0 s c.

Fixpoint last_index_byte_from (i : Z) (s : bytes) (c : ascii) (acc : Z) : Z :=
  match s with
  | [] => acc
  | x :: r => last_index_byte_from (i + 1) r c (if Ascii.eqb x c then i else acc)
  end.
Definition strings_LastIndexByte (s : bytes) (c : ascii) : Z := last_index_byte_from 0 s c (-1).

Fixpoint strings_HasPrefix (s p : bytes) : bool :=
  match p, s with
  | [], _ => true
  | y :: p', x :: s' => Ascii.eqb x y && strings_HasPrefix s' p'
  | _ :: _, [] => false
  end.
Definition strings_HasSuffix (s p : bytes) : bool := strings_HasPrefix (rev s) (rev p).
Definition strings_TrimPrefix (s p : bytes) : bytes :=
  if strings_HasPrefix s p then skipn (List.length p) s else s.
Definition strings_TrimSuffix (s p : bytes) : bytes :=
  if strings_HasSuffix s p then firstn (List.length s - List.length p) s else s.
Fixpoint strings_Contains (s sub : bytes) : bool :=
  strings_HasPrefix s sub || match s with [] => false | _ :: r => strings_Contains r sub end.

(* ---- for i, r := range <string>: one UTF-8 decoding step (rune, width) ----
   Well-formed sequences (Unicode table 3-7):
     00..7F | C2..DF 80..BF | E0 A0..BF 80..BF | E1..EC 80..BF 80..BF | ED 80..9F 80..BF
     | EE..EF 80..BF 80..BF | F0 90..BF 80..BF 80..BF | F1..F3 80..BF 80..BF 80..BF
     | F4 80..8F 80..BF 80..BF;          anything else: (U+FFFD, 1). *)
Definition in_rng (lo hi x : Z) : bool := (lo <=? x) && (x <=? hi).
Definition rune_error : Z * nat := (65533, 1%nat).

Definition decode_rune (s : bytes) : Z * nat :=
  match s with
  | [] => rune_error
  | c0 :: r =>
    let b0 := bz c0 in
    if b0 <? 128 then (b0, 1%nat)
    else if in_rng 194 223 b0 then
      match r with
      | c1 :: _ =>
          let b1 := bz c1 in
          if in_rng 128 191 b1 then ((b0 - 192) * 64 + (b1 - 128), 2%nat) else rune_error
      | _ => rune_error
      end
    else if in_rng 224 239 b0 then
      match r with
      | c1 :: c2 :: _ =>
          let b1 := bz c1 in let b2 := bz c2 in
          let lo := if b0 =? 224 then 160 else 128 in
          let hi := if b0 =? 237 then 159 else 191 in
          if in_rng lo hi b1 && in_rng 128 191 b2
          then ((b0 - 224) * 4096 + (b1 - 128) * 64 + (b2 - 128), 3%nat) else rune_error
      | _ => rune_error
      end
    else if in_rng 240 244 b0 then
      match r with
      | c1 :: c2 :: c3 :: _ =>
          let b1 := bz c1 in let b2 := bz c2 in let b3 := bz c3 in
          let lo := if b0 =? 240 then 144 else 128 in
          let hi := if b0 =? 244 then 143 else 191 in
          if in_rng lo hi b1 && in_rng 128 191 b2 && in_rng 128 191 b3
          then ((b0 - 240) * 262144 + (b1 - 128) * 4096 + (b2 - 128) * 64 + (b3 - 128), 4%nat)
          else rune_error
      | _ => rune_error
      end
    else rune_error
  end.

(* ---- mutable []byte buffers ---- *)
Record gobuf : Type := { b_arr : bytes;   (* the backing array, from the start of the slice to its capacity *)
                         b_len : Z }.     (* len; cap = length of b_arr *)
Definition zero_byte : ascii := ascii_of_N 0.
Definition buf_nil : gobuf := {| b_arr := []; b_len := 0 |}.
Definition buf_len (b : gobuf) : Z := b_len b.
Definition buf_cap (b : gobuf) : Z := len (b_arr b).

(* make([]byte, n, c): zeroed; n < 0 or n > c panics (run time, for non-constant arguments) *)
Definition buf_make (n c : Z) : outcome gobuf :=
  if (0 <=? n) && (n <=? c) then Ret {| b_arr := repeat zero_byte (Z.to_nat c); b_len := n |} else Panic.

(* b[:k]: 0 <= k <= cap(b) (NOT len(b)): same backing array *)
Definition buf_reslice_to (b : gobuf) (k : Z) : outcome gobuf :=
  if (0 <=? k) && (k <=? buf_cap b) then Ret {| b_arr := b_arr b; b_len := k |} else Panic.

(* b[i]: 0 <= i < len(b) *)
Definition buf_index (b : gobuf) (i : Z) : outcome ascii :=
  if (0 <=? i) && (i <? b_len b) then go_index (b_arr b) i else Panic.

Fixpoint list_set {A} (l : list A) (i : nat) (x : A) : list A :=
  match l, i with
  | [], _ => []
  | _ :: t, O => x :: t
  | y :: t, S i' => y :: list_set t i' x
  end.

(* b[i] = c *)
Definition buf_set (b : gobuf) (i : Z) (c : ascii) : outcome gobuf :=
  if (0 <=? i) && (i <? b_len b)
  then Ret {| b_arr := list_set (b_arr b) (Z.to_nat i) c; b_len := b_len b |} else Panic.

(* copy(b, src) for a string src: min(len b, len src) bytes *)
Definition buf_copy (b : gobuf) (src : bytes) : gobuf :=
  let k := Nat.min (Z.to_nat (b_len b)) (List.length src) in
  {| b_arr := firstn k src ++ skipn k (b_arr b); b_len := b_len b |}.

(* string(b) *)
Definition buf_string (b : gobuf) : bytes := firstn (Z.to_nat (b_len b)) (b_arr b).
