(* Props_Gen_esc.v — hexEscapeNonASCII (fox.go: the escaping of the Location header of the trailing-slash
   redirect; Dispatch/Redirect.v) and clientip.trimMatchedEnds (C18/ParseIP.v).
   Tie A for small pure functions: the definitions gotrans REGENERATES from the Go sources on every
   run (GenEsc.v) are equal, on ALL inputs, to the hand-written models the property proofs use.
   Only statements closed by [exact]; non-vacuity examples next to them.  Notes: docs/Gen.md *)
From FoxBase Require Import Bytes.
From FoxGen Require Import GoSem GoSemEsc GenEsc BridgeEsc.
From FoxDispatch Require Redirect.
From FoxC18 Require ParseIP.
Open Scope char_scope.
Open Scope Z_scope.

(* ---- GoSemEsc.v agrees with the real append / strconv.AppendInt(.., 16) on the replayed samples
        (all 256 byte values) *)
Theorem go_semantics_samples_esc : forallb (fun b => b) sem_samples_esc = true.
Proof. exact sem_samples_esc_ok. Qed.
Print Assumptions go_semantics_samples_esc.

(* ---- append: what string(b) shows after an append depends neither on the capacity nor on the bytes
        behind len (GoSemEsc.v does not model the capacity Go's runtime chooses when it reallocates) *)
Theorem buf_append_cap_irrelevant : forall b1 b2 x,
  buf_wf b1 -> buf_wf b2 -> buf_string b1 = buf_string b2 ->
  buf_string (buf_append b1 x) = buf_string (buf_append b2 x) /\ buf_wf (buf_append b1 x) /\ buf_wf (buf_append b2 x).
Proof. exact buf_append_cap_irrelevant_. Qed.
Print Assumptions buf_append_cap_irrelevant.

Example buf_append_cap_irrelevant_nonvacuous :
  let b1 := {| b_arr := S2B "abXYZ"; b_len := 2 |} in      (* cap 5: append "cd" in place *)
  let b2 := {| b_arr := S2B "ab"; b_len := 2 |} in         (* cap 2: append reallocates *)
  buf_wf b1 /\ buf_wf b2 /\ buf_string b1 = buf_string b2 /\
  buf_append b1 (S2B "cd") <> buf_append b2 (S2B "cd") /\
  buf_string (buf_append b1 (S2B "cd")) = S2B "abcd" /\ buf_string (buf_append b2 (S2B "cd")) = S2B "abcd".
Proof. cbv zeta. repeat split; try (vm_compute; congruence); vm_compute; discriminate. Qed.

(* ---- hexEscapeNonASCII = Redirect.hex_escape_non_ascii, on every string: never panics (no index, slice
        or make out of range), never out of fuel *)
Theorem gen_hexEscapeNonASCII_eq : forall s, gen_hexEscapeNonASCII s = Ret (Redirect.hex_escape_non_ascii s).
Proof. exact hexEscapeNonASCII_eq. Qed.
Print Assumptions gen_hexEscapeNonASCII_eq.

Theorem gen_hexEscapeNonASCII_total : forall s, gen_hexEscapeNonASCII s <> Panic /\ gen_hexEscapeNonASCII s <> OutOfFuel.
Proof. exact hexEscapeNonASCII_total. Qed.
Print Assumptions gen_hexEscapeNonASCII_total.

(* the Location it builds is pure ASCII; an ASCII reference is passed through unchanged *)
Theorem gen_hexEscapeNonASCII_ascii : forall s r, gen_hexEscapeNonASCII s = Ret r -> forallb is_ascii r = true.
Proof. exact hexEscapeNonASCII_ascii. Qed.
Print Assumptions gen_hexEscapeNonASCII_ascii.

Theorem gen_hexEscapeNonASCII_id : forall s, forallb is_ascii s = true -> gen_hexEscapeNonASCII s = Ret s.
Proof. exact hexEscapeNonASCII_id. Qed.
Print Assumptions gen_hexEscapeNonASCII_id.

(* the capacity requested by make([]byte, 0, newLen) is exactly the length of the result *)
Theorem gen_hexEscapeNonASCII_newLen : forall s, esc_len s = len (Redirect.hex_escape_non_ascii s).
Proof. exact hexEscapeNonASCII_newLen. Qed.
Print Assumptions gen_hexEscapeNonASCII_newLen.

Example hexEscapeNonASCII_nonvacuous :
  gen_hexEscapeNonASCII (B [47;195;169;47]%N) = Ret (S2B "/%c3%a9/") /\           (* "/é/": run, two escapes, run *)
  gen_hexEscapeNonASCII (B [128;255]%N) = Ret (S2B "%80%ff") /\
  gen_hexEscapeNonASCII (B [97;98;200]%N) = Ret (S2B "ab%c8") /\                   (* no pending run at the end *)
  gen_hexEscapeNonASCII (S2B "../a%20b/?q=1") = Ret (S2B "../a%20b/?q=1") /\      (* early return *)
  gen_hexEscapeNonASCII [] = Ret [] /\
  forallb is_ascii (B [47;195;169;47]%N) = false.
Proof. repeat split. Qed.

(* ---- clientip.trimMatchedEnds = ParseIP.trim_matched_ends, on every s and chars; the model's None is the
        Go panic (emb_opt: Some r |-> Ret r, None |-> Panic), and the function panics exactly on the explicit
        panic("chars must be length 1 or 2"): no index or slice expression is ever out of range *)
Theorem gen_trimMatchedEnds_eq : forall s chars,
  gen_trimMatchedEnds s chars = emb_opt (ParseIP.trim_matched_ends s chars).
Proof. exact trimMatchedEnds_eq. Qed.
Print Assumptions gen_trimMatchedEnds_eq.

Theorem gen_trimMatchedEnds_panics_iff : forall s chars,
  gen_trimMatchedEnds s chars = Panic <-> List.length chars <> 1%nat /\ List.length chars <> 2%nat.
Proof. exact trimMatchedEnds_panics_iff. Qed.
Print Assumptions gen_trimMatchedEnds_panics_iff.

Example trimMatchedEnds_nonvacuous :
  gen_trimMatchedEnds (S2B "[::1]") (S2B "[]") = Ret (S2B "::1") /\
  gen_trimMatchedEnds (S2B """1.2.3.4""") (S2B """") = Ret (S2B "1.2.3.4") /\
  gen_trimMatchedEnds (S2B "[::1") (S2B "[]") = Ret (S2B "[::1") /\            (* unmatched: unchanged *)
  gen_trimMatchedEnds (S2B "]::1[") (S2B "[]") = Ret (S2B "]::1[") /\
  gen_trimMatchedEnds (S2B "[") (S2B "[]") = Ret (S2B "[") /\                  (* shorter than 2 *)
  gen_trimMatchedEnds (S2B "[]") (S2B "[]") = Ret [] /\
  gen_trimMatchedEnds (S2B "x") [] = Panic /\ gen_trimMatchedEnds (S2B "x") (S2B "abc") = Panic /\
  ParseIP.trim_matched_ends (S2B "x") (S2B "abc") = None.
Proof. repeat split. Qed.
