(* Props_Gen_wild.v — parseWildcard (node.go), isBlacklistedHeader + blacklistedHeader (recovery.go,
   http_consts.go), netutil.SplitHostZone.  Tie A: the definitions gotrans REGENERATES from the Go sources
   on every run (GenWild.v) against the hand-written models of C10/C01 (Pattern/ParseWildcard.v), C15
   (C15/Redact.v) and C18 (C18/ParseIP.v), on ALL inputs.
   Only statements closed by [exact]; non-vacuity examples next to them.  Notes: docs/Gen.md *)
From FoxBase Require Import Bytes.
From Coq Require Import ZArith.
Import List ListNotations.
From FoxGen Require Import GoSem GoSemWild GenWild BridgeWild.
From FoxPattern Require ParseWildcard.
From FoxC15 Require GenConsts Spec Redact.
From FoxC18 Require ParseIP.
Open Scope char_scope.
Open Scope Z_scope.

(* the model of strings.EqualFold agrees with the real function on the replayed samples *)
Theorem go_semantics_samples_wild : forallb (fun b => b) sem_samples_wild = true.
Proof. exact sem_samples_wild_ok. Qed.
Print Assumptions go_semantics_samples_wild.

(* ---------------------------------------------------------------- parseWildcard (C10, C01) *)
(* every byte string; a Go []param is the list of (key, end, catchAll); panics included *)
Theorem gen_parseWildcard_eq_model : forall seg,
  gen_parseWildcard seg = embed_w (ParseWildcard.parseWildcard seg).
Proof. exact parseWildcard_eq. Qed.
Print Assumptions gen_parseWildcard_eq_model.

(* with C10's parseWildcard_total: the generated function never panics nor runs out of fuel *)
Theorem gen_parseWildcard_total : forall seg,
  exists ps, ParseWildcard.parseWildcard seg = ParseWildcard.WOk ps /\
             gen_parseWildcard seg = Ret (map enc_param ps).
Proof. exact parseWildcard_ret. Qed.
Print Assumptions gen_parseWildcard_total.

Example parseWildcard_nonvacuous :
  gen_parseWildcard (S2B "/a/{id}/x*{rest}") = Ret [(S2B "id", 7, false); (S2B "rest", -1, true)]
  /\ gen_parseWildcard (S2B "{a}{b") = Ret [(S2B "a", 3, false)]
  /\ gen_parseWildcard (S2B "ab*") = Ret [].       (* `i += 2` steps past the end: the loop just stops *)
Proof. repeat split; vm_compute; reflexivity. Qed.

(* ---------------------------------------------------------------- isBlacklistedHeader (C15) *)
Theorem gen_blacklistedHeader_eq : gen_blacklistedHeader = GenConsts.blacklistedHeader.
Proof. exact table_eq. Qed.
Print Assumptions gen_blacklistedHeader_eq.

(* whatever the model redacts, the code redacts: every byte string *)
Theorem gen_isBlacklistedHeader_covers_model : forall name,
  Redact.isBlacklistedHeader name = true -> gen_isBlacklistedHeader name = Ret true.
Proof. exact isBlacklistedHeader_covers. Qed.
Print Assumptions gen_isBlacklistedHeader_covers_model.

(* ... in particular every name the SPECIFICATION of C15 calls sensitive *)
Theorem gen_isBlacklistedHeader_redacts_sensitive : forall name,
  Spec.sensitive name -> gen_isBlacklistedHeader name = Ret true.
Proof. exact isBlacklistedHeader_sensitive. Qed.
Print Assumptions gen_isBlacklistedHeader_redacts_sensitive.

(* equality on names without bytes >= 0x80 *)
Theorem gen_isBlacklistedHeader_eq_model_ascii : forall name,
  is_ascii name = true -> gen_isBlacklistedHeader name = Ret (Redact.isBlacklistedHeader name).
Proof. exact isBlacklistedHeader_ascii. Qed.
Print Assumptions gen_isBlacklistedHeader_eq_model_ascii.

(* the exact characterisation, every byte string: strings.EqualFold is Unicode simple folding, so the
   code is the ASCII-only model applied to the name with U+017F read as "s" and U+212A as "k" *)
Theorem gen_isBlacklistedHeader_exact : forall name,
  gen_isBlacklistedHeader name = Ret (Redact.isBlacklistedHeader (unfold_special name)).
Proof. exact isBlacklistedHeader_exact. Qed.
Print Assumptions gen_isBlacklistedHeader_exact.

(* never panics, and the unmodelled region of strings_EqualFold (two different runes >= 0x80) is
   never reached: the table is ASCII *)
Theorem gen_isBlacklistedHeader_total : forall name, exists b, gen_isBlacklistedHeader name = Ret b.
Proof. exact isBlacklistedHeader_total. Qed.
Print Assumptions gen_isBlacklistedHeader_total.

(* the model and the code DIFFER (the code redacts more): "Coo<U+212A KELVIN SIGN>ie" *)
Theorem gen_isBlacklistedHeader_differs_from_model :
  exists name, Redact.isBlacklistedHeader name = false /\ gen_isBlacklistedHeader name = Ret true.
Proof. exact model_differs. Qed.
Print Assumptions gen_isBlacklistedHeader_differs_from_model.

Example isBlacklistedHeader_nonvacuous :
  gen_isBlacklistedHeader (S2B "x-csrf-TOKEN") = Ret true
  /\ gen_isBlacklistedHeader (S2B "X-CSRF-Token2") = Ret false
  /\ gen_isBlacklistedHeader (S2B "Cookie" ++ B [255]%N) = Ret false          (* invalid UTF-8: U+FFFD *)
  /\ gen_isBlacklistedHeader (B [197; 191]%N ++ S2B "et-coo" ++ B [226; 132; 170]%N ++ S2B "ie") = Ret true
  /\ unfold_special (B [197; 191]%N ++ S2B "et-coo" ++ B [226; 132; 170]%N ++ S2B "ie") = S2B "set-cookie"
  /\ is_ascii (S2B "x-csrf-TOKEN") = true.
Proof. repeat split; vm_compute; reflexivity. Qed.

(* ---------------------------------------------------------------- netutil.SplitHostZone (C18) *)
Theorem gen_SplitHostZone_eq : forall s, gen_SplitHostZone s = Ret (ParseIP.split_host_zone s).
Proof. exact SplitHostZone_eq. Qed.
Print Assumptions gen_SplitHostZone_eq.

Example SplitHostZone_nonvacuous :
  gen_SplitHostZone (S2B "fe80::1%eth0") = Ret (S2B "fe80::1", S2B "eth0")
  /\ gen_SplitHostZone (S2B "a%b%c") = Ret (S2B "a%b", S2B "c")              (* the LAST '%' *)
  /\ gen_SplitHostZone (S2B "%eth0") = Ret (S2B "%eth0", [])                 (* index 0: no split *)
  /\ gen_SplitHostZone (S2B "fe80::1%") = Ret (S2B "fe80::1", []).
Proof. repeat split; vm_compute; reflexivity. Qed.
