(* coq/Gen/BridgeWild.v — tie A for three functions that gotrans regenerates into GenWild.v on every run:

     parseWildcard (node.go)                 = FoxPattern.ParseWildcard.parseWildcard      (C10, C01)
     isBlacklistedHeader + blacklistedHeader = FoxC15.Redact.isBlacklistedHeader (on ASCII names; see below)
     netutil.SplitHostZone                   = FoxC18.ParseIP.split_host_zone              (C18)

   1. parseWildcard: one-step simulation between the generated loop body and ParseWildcard.wstep (both
      loops consume the same fuel), for EVERY byte string, panics included ([embed_w]).  A Go []param is a
      list of tuples (key, end, catchAll) in field order ([enc_param]).

   2. isBlacklistedHeader: Go's strings.EqualFold is Unicode simple case folding (GoSemWild.v), the C15
      model's [equal_fold] folds ASCII letters only.  They agree on names without bytes >= 0x80; on other
      names the code redacts MORE than the model says: U+212A KELVIN SIGN folds to k, U+017F LONG S to s.
      Exact statement: the code is the model applied to the name in which those two UTF-8 sequences are
      replaced by "k" / "s" ([unfold_special]).

   3. SplitHostZone: strings.LastIndexByte against GoStd.last_index_of (defined through [rev]). *)
From FoxBase Require Import Bytes.
From Coq Require Import Lia ZArith Bool.
Import List ListNotations.
From FoxGen Require Import GoSem GoSemWild GenWild.
From FoxPattern Require ParseRoute ParseWildcard ProofsWild.
From FoxC15 Require GenConsts Spec Redact ProofsRedact.
From FoxC18 Require GoStd ParseIP.

Open Scope char_scope.
Open Scope Z_scope.

(* ================================================================== 1. parseWildcard *)
Section Wild.
Import ParseRoute ParseWildcard.
Local Open Scope Z_scope.

Definition enc_state (p : pstate) : ascii :=
  match p with StDefault => ascii_of_N 0 | StParam => ascii_of_N 1 | StCatchAll => ascii_of_N 2 end.

Definition enc_param (p : param) : bytes * Z * bool := (pkey p, pend p, pcatch p).

Definition embed_w (r : wresult) : outcome (list (bytes * Z * bool)) :=
  match r with
  | WOk ps => Ret (map enc_param ps)
  | WPanic => GoSem.Panic
  | WOutOfFuel => GoSem.OutOfFuel
  end.

Lemma go_index_nat {A} (s : list A) (n : nat) :
  go_index s (Z.of_nat n) = match nth_error s n with Some c => Ret c | None => GoSem.Panic end.
Proof. unfold go_index. destruct (Z.ltb_spec (Z.of_nat n) 0); [lia|]. now rewrite Nat2Z.id. Qed.

Lemma go_slice_nat (s : bytes) (a b : nat) :
  go_slice s (Z.of_nat a) (Z.of_nat b) = match slice s a b with Some r => Ret r | None => GoSem.Panic end.
Proof.
  unfold go_slice, slice, len.
  destruct (Nat.leb_spec a b), (Nat.leb_spec b (length s));
    destruct (Z.leb_spec 0 (Z.of_nat a)), (Z.leb_spec (Z.of_nat a) (Z.of_nat b)), (Z.leb_spec (Z.of_nat b) (Z.of_nat (length s)));
    try lia; cbn [andb]; try reflexivity.
  replace (Z.to_nat (Z.of_nat b - Z.of_nat a)) with (b - a)%nat by lia. now rewrite Nat2Z.id.
Qed.

(* segment[i+1:] is the model's slice seg (S i) (length seg) *)
Lemma go_slice_from_nat (s : bytes) (i : nat) :
  go_slice_from s (Z.of_nat i + 1) = match slice s (S i) (length s) with Some r => Ret r | None => GoSem.Panic end.
Proof.
  unfold go_slice_from, slice, len. rewrite Nat.leb_refl, andb_true_r.
  destruct (Nat.leb_spec (S i) (length s)), (Z.leb_spec 0 (Z.of_nat i + 1)), (Z.leb_spec (Z.of_nat i + 1) (Z.of_nat (length s)));
    try lia; cbn [andb]; try reflexivity.
  replace (Z.to_nat (Z.of_nat i + 1)) with (S i) by lia.
  f_equal. symmetry. apply firstn_all2. rewrite skipn_length. lia.
Qed.

Lemma len_pos_nat (r : bytes) : (Z.of_nat (length r) >? 0) = (0 <? length r)%nat.
Proof. destruct (Nat.ltb_spec 0 (length r)), (Z.gtb_spec (Z.of_nat (length r)) 0); lia || reflexivity. Qed.

(* the two wildcard states: the generated arm for state code [code] / flag [catch] against wstep_close *)
Lemma loop_sim : forall fuel seg i s ps st start iz,
  ps = map enc_param (wparams s) -> st = enc_state (wstate s) ->
  start = Z.of_nat (wstart s) -> iz = Z.of_nat i ->
  gen_parseWildcard_loop1 fuel seg ps st start iz = embed_w (wloop fuel seg i s).
Proof.
  induction fuel as [|fuel IH]; intros seg i s ps st start iz -> -> -> ->.
  - cbn [gen_parseWildcard_loop1 wloop]. unfold len.
    destruct (Nat.ltb_spec i (length seg)), (Z.ltb_spec (Z.of_nat i) (Z.of_nat (length seg))); try lia; reflexivity.
  - cbn [gen_parseWildcard_loop1 wloop]. unfold len.
    destruct (Nat.ltb_spec i (length seg)), (Z.ltb_spec (Z.of_nat i) (Z.of_nat (length seg))); try lia; [|reflexivity].
    destruct s as [state wst wps]. cbn [wparams wstate wstart].
    unfold wstep. cbn [wstate].
    destruct state; cbn [enc_state]; cbv zeta.
    + (* StDefault *)
      change (Ascii.eqb (ascii_of_N 0) (ascii_of_N 1)) with false.
      change (Ascii.eqb (ascii_of_N 0) (ascii_of_N 2)) with false. cbv iota.
      rewrite go_index_nat. destruct (nth_error seg i) as [c|]; [|reflexivity].
      cbn [bind]. destruct (Ascii.eqb c "*").
      * apply IH; cbn [wparams wstate wstart enc_state]; try reflexivity; lia.
      * cbn [bind]. destruct (Ascii.eqb c "{").
        -- apply IH; cbn [wparams wstate wstart enc_state]; try reflexivity; lia.
        -- apply IH; cbn [wparams wstate wstart enc_state]; try reflexivity; lia.
    + (* StParam *)
      change (Ascii.eqb (ascii_of_N 1) (ascii_of_N 1)) with true. cbv iota.
      unfold wstep_close. cbn [wparams wstate wstart].
      rewrite go_index_nat. destruct (nth_error seg i) as [c|]; [|reflexivity].
      cbn [bind]. destruct (Ascii.eqb c "}").
      * rewrite go_slice_from_nat. destruct (slice seg (S i) (length seg)) as [rest|]; [|reflexivity].
        cbn [bind]. rewrite len_pos_nat. rewrite go_slice_nat.
        destruct (0 <? length rest)%nat; (destruct (slice seg wst i) as [key|]; [|reflexivity]); cbn [bind];
          apply IH; cbn [wparams wstate wstart enc_state enc_param pkey pend pcatch]; try reflexivity;
          try lia; rewrite map_app; cbn [map enc_param pkey pend pcatch];
          try replace (Z.of_nat i + 1) with (Z.of_nat (S i)) by lia; reflexivity.
      * apply IH; cbn [wparams wstate wstart enc_state]; try reflexivity; lia.
    + (* StCatchAll *)
      change (Ascii.eqb (ascii_of_N 2) (ascii_of_N 1)) with false.
      change (Ascii.eqb (ascii_of_N 2) (ascii_of_N 2)) with true. cbv iota.
      unfold wstep_close. cbn [wparams wstate wstart].
      rewrite go_index_nat. destruct (nth_error seg i) as [c|]; [|reflexivity].
      cbn [bind]. destruct (Ascii.eqb c "}").
      * rewrite go_slice_from_nat. destruct (slice seg (S i) (length seg)) as [rest|]; [|reflexivity].
        cbn [bind]. rewrite len_pos_nat. rewrite go_slice_nat.
        destruct (0 <? length rest)%nat; (destruct (slice seg wst i) as [key|]; [|reflexivity]); cbn [bind];
          apply IH; cbn [wparams wstate wstart enc_state enc_param pkey pend pcatch]; try reflexivity;
          try lia; rewrite map_app; cbn [map enc_param pkey pend pcatch];
          try replace (Z.of_nat i + 1) with (Z.of_nat (S i)) by lia; reflexivity.
      * apply IH; cbn [wparams wstate wstart enc_state]; try reflexivity; lia.
Qed.

Lemma parseWildcard_eq seg : gen_parseWildcard seg = embed_w (parseWildcard seg).
Proof. unfold gen_parseWildcard, parseWildcard. cbv zeta. now apply loop_sim. Qed.

Lemma parseWildcard_ret seg :
  exists ps, parseWildcard seg = WOk ps /\ gen_parseWildcard seg = Ret (map enc_param ps).
Proof.
  destruct (ProofsWild.parseWildcard_never_panics seg) as (ps & E).
  exists ps. split; [exact E|]. now rewrite parseWildcard_eq, E.
Qed.

End Wild.

(* ================================================================== 3. SplitHostZone *)
Section Zone.
Import GoStd ParseIP.
Local Open Scope Z_scope.

Definition lz (o : option nat) : Z := match o with Some i => Z.of_nat i | None => -1 end.

Lemma last_index_byte_from_snoc c x : forall s i acc,
  last_index_byte_from i (s ++ [x]) c acc =
    if Ascii.eqb x c then i + len s else last_index_byte_from i s c acc.
Proof.
  induction s as [|y s IH]; intros i acc.
  - cbn. unfold len. cbn. destruct (Ascii.eqb x c); [lia|reflexivity].
  - cbn [app last_index_byte_from]. rewrite IH. unfold len. cbn [length].
    destruct (Ascii.eqb x c); [lia|reflexivity].
Qed.

Lemma index_of_lt c : forall s k, index_of c s = Some k -> (k < length s)%nat.
Proof.
  induction s as [|x s IH]; intros k; cbn [index_of]; [discriminate|].
  destruct (Ascii.eqb x c); [intros [= <-]; cbn; lia|].
  destruct (index_of c s) as [j|]; cbn [option_map]; [|discriminate].
  intros [= <-]. specialize (IH j eq_refl). cbn. lia.
Qed.

Lemma last_index_of_lt c s j : last_index_of c s = Some j -> (j < length s)%nat.
Proof.
  unfold last_index_of. destruct (index_of c (rev s)) as [k|] eqn:E; [|discriminate].
  apply index_of_lt in E. rewrite rev_length in E. intros [= <-]. lia.
Qed.

Lemma LastIndexByte_C18 c s : strings_LastIndexByte s c = lz (last_index_of c s).
Proof.
  unfold strings_LastIndexByte. induction s as [|x s IH] using rev_ind; [reflexivity|].
  rewrite last_index_byte_from_snoc, IH. unfold last_index_of. rewrite rev_unit. cbn [index_of].
  rewrite app_length. cbn [length]. unfold len.
  destruct (Ascii.eqb x c); [cbn [lz]; lia|].
  destruct (index_of c (rev s)) as [k|]; cbn [option_map lz]; [|reflexivity].
  f_equal. lia.
Qed.

Lemma SplitHostZone_eq s : gen_SplitHostZone s = Ret (split_host_zone s).
Proof.
  unfold gen_SplitHostZone, split_host_zone. cbv zeta. rewrite LastIndexByte_C18.
  destruct (last_index_of "%" s) as [[|i]|] eqn:E; cbn [lz]; try reflexivity.
  apply last_index_of_lt in E.
  destruct (Z.gtb_spec (Z.of_nat (S i)) 0); [|lia].
  unfold go_slice_to, go_slice_from, len.
  destruct (Z.leb_spec 0 (Z.of_nat (S i))), (Z.leb_spec (Z.of_nat (S i)) (Z.of_nat (length s))),
    (Z.leb_spec 0 (Z.of_nat (S i) + 1)), (Z.leb_spec (Z.of_nat (S i) + 1) (Z.of_nat (length s))); try lia.
  cbn [andb bind]. rewrite Nat2Z.id. replace (Z.to_nat (Z.of_nat (S i) + 1)) with (S (S i)) by lia. reflexivity.
Qed.

End Zone.

(* ================================================================== 2. isBlacklistedHeader *)
Section Fold.
Import FoxC15.GenConsts FoxC15.Redact.
Local Open Scope Z_scope.

Definition is_ascii (s : bytes) : bool := forallb (fun c => bz c <? 128) s.

Lemma bz_range c : 0 <= bz c < 256.
Proof.
  unfold bz. pose proof (N_ascii_bounded c) as H. lia.
Qed.

Lemma bz_inj a b : bz a = bz b -> a = b.
Proof.
  unfold bz. intros H. apply N2Z.inj in H.
  rewrite <- (ascii_N_embedding a), <- (ascii_N_embedding b). now rewrite H.
Qed.

Lemma bz_of_N n : (n < 256)%N -> bz (ascii_of_N n) = Z.of_N n.
Proof. intros H. unfold bz. now rewrite N_ascii_embedding. Qed.

(* the C15 model's [lower], on byte values *)
Lemma bz_lower c : bz (lower c) = if (65 <=? bz c) && (bz c <=? 90) then bz c + 32 else bz c.
Proof.
  unfold lower. pose proof (bz_range c) as R. unfold bz in *.
  destruct (N.leb_spec 65 (N_of_ascii c)), (N.leb_spec (N_of_ascii c) 90),
    (Z.leb_spec 65 (Z.of_N (N_of_ascii c))), (Z.leb_spec (Z.of_N (N_of_ascii c)) 90); try lia; cbn [andb]; try reflexivity.
  rewrite N_ascii_embedding by lia. lia.
Qed.

Lemma eqb_bz a b : Ascii.eqb a b = (bz a =? bz b).
Proof.
  destruct (Ascii.eqb_spec a b) as [->|N]; [now rewrite Z.eqb_refl|].
  destruct (Z.eqb_spec (bz a) (bz b)) as [E|]; [|reflexivity]. now apply bz_inj in E.
Qed.

(* a rune below 0x80 against any rune: decided, by [rune_lower] *)
Lemma fold_eq_ascii_l a b : 0 <= a < 128 ->
  rune_fold_eq a b = Some (rune_lower a =? rune_lower b).
Proof.
  intros Ha. unfold rune_fold_eq.
  destruct (Z.eqb_spec a b) as [->|N]; [now rewrite Z.eqb_refl|].
  destruct (Z.ltb_spec a 128); [reflexivity|lia].
Qed.

Lemma rune_lower_ascii a : 0 <= a < 128 ->
  rune_lower a = if (65 <=? a) && (a <=? 90) then a + 32 else a.
Proof.
  intros H. unfold rune_lower.
  destruct ((65 <=? a) && (a <=? 90)); [reflexivity|].
  destruct (Z.eqb_spec a 8490); [lia|]. destruct (Z.eqb_spec a 383); [lia|reflexivity].
Qed.

(* two bytes below 0x80: the model's comparison *)
Lemma fold_eq_bytes x y : bz x < 128 -> bz y < 128 ->
  rune_fold_eq (bz x) (bz y) = Some (Ascii.eqb (lower x) (lower y)).
Proof.
  intros Hx Hy. pose proof (bz_range x). pose proof (bz_range y).
  rewrite fold_eq_ascii_l by lia. rewrite !rune_lower_ascii by lia.
  now rewrite eqb_bz, !bz_lower.
Qed.

Lemma decode_ascii c r : bz c < 128 -> decode_rune (c :: r) = (bz c, 1%nat).
Proof. intros H. unfold decode_rune. destruct (Z.ltb_spec (bz c) 128); [reflexivity|lia]. Qed.

(* on ASCII strings Go's EqualFold is the model's equal_fold *)
Lemma fold_ascii_eq : forall h t fuel, is_ascii h = true -> is_ascii t = true ->
  (length h <= fuel)%nat -> equal_fold_loop fuel h t = Ret (equal_fold h t).
Proof.
  induction h as [|x h IH]; intros t fuel Hh Ht Hf.
  - destruct t; destruct fuel; reflexivity.
  - destruct t as [|y t]; [destruct fuel; reflexivity|].
    destruct fuel as [|fuel]; [cbn in Hf; lia|].
    cbn [is_ascii forallb] in Hh, Ht. apply andb_true_iff in Hh as [Hx Hh], Ht as [Hy Ht].
    apply Z.ltb_lt in Hx, Hy.
    cbn [equal_fold_loop equal_fold]. rewrite !decode_ascii by assumption.
    rewrite fold_eq_bytes by assumption. cbn [skipn].
    destruct (Ascii.eqb (lower x) (lower y)); cbn [andb]; [|reflexivity].
    apply IH; try assumption. cbn in Hf. lia.
Qed.

Ltac bz_ranges :=
  repeat match goal with
         | c : ascii |- _ =>
           lazymatch goal with
           | _ : 0 <= bz c < 256 |- _ => fail
           | _ => pose proof (bz_range c)
           end
         end.

(* case analysis of one decoding step: every `if` / `match` of decode_rune, conditions as hypotheses over Z *)
Ltac decode_cases :=
  unfold decode_rune, rune_error, in_rng; cbv zeta;
  repeat match goal with
         | |- context [if (bz ?c =? ?k) then _ else _] => destruct (Z.eqb_spec (bz c) k)
         end;
  repeat match goal with
         | |- context [match ?l with [] => _ | _ :: _ => _ end] => destruct l
         | |- context [if ?b then _ else _] => destruct b eqn:?
         end;
  bz_ranges;
  repeat match goal with
         | H : andb _ _ = true |- _ => apply andb_true_iff in H as [? ?]
         | H : andb _ _ = false |- _ => apply andb_false_iff in H as [?|?]
         | H : (_ <=? _) = true |- _ => apply Z.leb_le in H
         | H : (_ <=? _) = false |- _ => apply Z.leb_gt in H
         | H : (_ <? _) = true |- _ => apply Z.ltb_lt in H
         | H : (_ <? _) = false |- _ => apply Z.ltb_ge in H
         end.

(* an ASCII first operand: always decided (never Unmodelled), whatever the second operand *)
Lemma fold_ascii_total : forall h t fuel, is_ascii h = true -> (length h <= fuel)%nat ->
  exists b, equal_fold_loop fuel h t = Ret b.
Proof.
  induction h as [|x h IH]; intros t fuel Hh Hf.
  - destruct t; destruct fuel; eexists; reflexivity.
  - destruct t as [|y t]; [destruct fuel; eexists; reflexivity|].
    destruct fuel as [|fuel]; [cbn in Hf; lia|].
    cbn [is_ascii forallb] in Hh. apply andb_true_iff in Hh as [Hx Hh]. apply Z.ltb_lt in Hx.
    cbn [equal_fold_loop]. rewrite decode_ascii by assumption.
    destruct (decode_rune (y :: t)) as [tr tw] eqn:Ed.
    pose proof (bz_range x). rewrite fold_eq_ascii_l by lia.
    destruct (rune_lower (bz x) =? rune_lower tr); [|eexists; reflexivity].
    apply IH; [assumption|cbn in Hf; lia].
Qed.

(* the model says "equal" only for names without bytes >= 0x80 (the table is ASCII) *)
Lemma equal_fold_ascii_r : forall h t, is_ascii h = true -> equal_fold h t = true -> is_ascii t = true.
Proof.
  induction h as [|x h IH]; intros [|y t] Hh E; cbn [equal_fold] in E; try discriminate; [reflexivity|].
  cbn [is_ascii forallb] in *. apply andb_true_iff in Hh as [Hx Hh], E as [E1 E2].
  apply Z.ltb_lt in Hx. apply andb_true_iff. split; [|exact (IH t Hh E2)].
  rewrite eqb_bz, !bz_lower in E1. apply Z.eqb_eq in E1. apply Z.ltb_lt.
  pose proof (bz_range x). pose proof (bz_range y).
  destruct ((65 <=? bz x) && (bz x <=? 90)) eqn:Ex, ((65 <=? bz y) && (bz y <=? 90)) eqn:Ey;
    try (apply andb_true_iff in Ey as [? Ey]; apply Z.leb_le in Ey); lia.
Qed.

Lemma table_eq : gen_blacklistedHeader = blacklistedHeader.
Proof. reflexivity. Qed.

Lemma table_ascii : forall h, In h gen_blacklistedHeader -> is_ascii h = true.
Proof. apply forallb_forall. vm_compute. reflexivity. Qed.

Lemma loop_ascii name : is_ascii name = true -> forall l i,
  (forall h, In h l -> is_ascii h = true) ->
  gen_isBlacklistedHeader_loop1 l i name = Ret (existsb (fun h => equal_fold h name) l).
Proof.
  intros Hn. induction l as [|h l IH]; intros i Hl; [reflexivity|].
  cbn [gen_isBlacklistedHeader_loop1 existsb]. cbv zeta.
  unfold strings_EqualFold. rewrite fold_ascii_eq; [|apply Hl; now left|assumption|lia].
  cbn [bind]. destruct (equal_fold h name); cbn [orb]; [reflexivity|].
  apply IH. intros h' Hh'. apply Hl. now right.
Qed.

Lemma loop_total name : forall l i,
  (forall h, In h l -> is_ascii h = true) ->
  exists b, gen_isBlacklistedHeader_loop1 l i name = Ret b.
Proof.
  induction l as [|h l IH]; intros i Hl; [eexists; reflexivity|].
  cbn [gen_isBlacklistedHeader_loop1]. cbv zeta. unfold strings_EqualFold.
  destruct (fold_ascii_total h name (length h)) as (b & ->); [apply Hl; now left|lia|].
  cbn [bind]. destruct b; [eexists; reflexivity|].
  apply IH. intros h' Hh'. apply Hl. now right.
Qed.

Lemma isBlacklistedHeader_ascii name : is_ascii name = true ->
  gen_isBlacklistedHeader name = Ret (isBlacklistedHeader name).
Proof.
  intros Hn. unfold gen_isBlacklistedHeader, isBlacklistedHeader. cbv zeta.
  rewrite <- table_eq. apply loop_ascii; [assumption|exact table_ascii].
Qed.

Lemma model_true_ascii name : isBlacklistedHeader name = true -> is_ascii name = true.
Proof.
  unfold isBlacklistedHeader. rewrite <- table_eq. intros H.
  apply existsb_exists in H as (h & Hh & E). exact (equal_fold_ascii_r h name (table_ascii h Hh) E).
Qed.

Lemma isBlacklistedHeader_covers name :
  isBlacklistedHeader name = true -> gen_isBlacklistedHeader name = Ret true.
Proof.
  intros H. rewrite (isBlacklistedHeader_ascii name (model_true_ascii name H)). now rewrite H.
Qed.

Lemma isBlacklistedHeader_total name : exists b, gen_isBlacklistedHeader name = Ret b.
Proof. unfold gen_isBlacklistedHeader. cbv zeta. apply loop_total. exact table_ascii. Qed.

(* ---- the exact characterisation: the two non-ASCII runes that fold to ASCII letters ---- *)
Definition pre_s (s : bytes) : bool :=       (* C5 BF = U+017F LATIN SMALL LETTER LONG S *)
  match s with c0 :: c1 :: _ => (bz c0 =? 197) && (bz c1 =? 191) | _ => false end.
Definition pre_k (s : bytes) : bool :=       (* E2 84 AA = U+212A KELVIN SIGN *)
  match s with c0 :: c1 :: c2 :: _ => (bz c0 =? 226) && (bz c1 =? 132) && (bz c2 =? 170) | _ => false end.

(* the name as the ASCII-only model has to see it: every U+017F replaced by "s", every U+212A by "k" *)
Fixpoint unfold_special (s : bytes) : bytes :=
  match s with
  | [] => []
  | c0 :: r0 =>
    match r0 with
    | [] => c0 :: unfold_special r0
    | c1 :: r1 =>
      if (bz c0 =? 197) && (bz c1 =? 191) then "s"%char :: unfold_special r1
      else match r1 with
           | [] => c0 :: unfold_special r0
           | c2 :: r2 =>
             if (bz c0 =? 226) && (bz c1 =? 132) && (bz c2 =? 170) then "k"%char :: unfold_special r2
             else c0 :: unfold_special r0
           end
    end
  end.

Lemma unfold_s t : pre_s t = true -> unfold_special t = "s"%char :: unfold_special (skipn 2 t).
Proof.
  destruct t as [|c0 [|c1 r1]]; cbn [pre_s]; try discriminate. intros H.
  cbn [unfold_special skipn]. now rewrite H.
Qed.

Lemma unfold_k t : pre_s t = false -> pre_k t = true -> unfold_special t = "k"%char :: unfold_special (skipn 3 t).
Proof.
  destruct t as [|c0 [|c1 [|c2 r2]]]; cbn [pre_s pre_k]; try discriminate. intros Hs Hk.
  cbn [unfold_special skipn]. now rewrite Hs, Hk.
Qed.

Lemma unfold_plain c r : pre_s (c :: r) = false -> pre_k (c :: r) = false ->
  unfold_special (c :: r) = c :: unfold_special r.
Proof.
  destruct r as [|c1 [|c2 r2]]; cbn [pre_s pre_k]; intros Hs Hk; cbn [unfold_special]; rewrite ?Hs, ?Hk; reflexivity.
Qed.

Lemma ascii_of_bz c n : bz c = Z.of_N n -> c = ascii_of_N n.
Proof. intros H. unfold bz in H. apply N2Z.inj in H. now rewrite <- H, ascii_N_embedding. Qed.

Lemma decode_s t : pre_s t = true -> decode_rune t = (383, 2%nat).
Proof.
  destruct t as [|c0 [|c1 r1]]; cbn [pre_s]; try discriminate. intros H.
  apply andb_true_iff in H as [H0 H1]. apply Z.eqb_eq in H0, H1.
  apply (ascii_of_bz c0 197) in H0. apply (ascii_of_bz c1 191) in H1. subst. reflexivity.
Qed.

Lemma decode_k t : pre_k t = true -> decode_rune t = (8490, 3%nat).
Proof.
  destruct t as [|c0 [|c1 [|c2 r2]]]; cbn [pre_k]; try discriminate. intros H.
  apply andb_true_iff in H as [H H2]. apply andb_true_iff in H as [H0 H1]. apply Z.eqb_eq in H0, H1, H2.
  apply (ascii_of_bz c0 226) in H0. apply (ascii_of_bz c1 132) in H1. apply (ascii_of_bz c2 170) in H2.
  subst. reflexivity.
Qed.

Lemma pre_s_false_Z c0 c1 r : pre_s (c0 :: c1 :: r) = false -> ~ (bz c0 = 197 /\ bz c1 = 191).
Proof.
  cbn [pre_s]. intros H [E0 E1]. rewrite E0, E1 in H. discriminate.
Qed.

Lemma pre_k_false_Z c0 c1 c2 r : pre_k (c0 :: c1 :: c2 :: r) = false -> ~ (bz c0 = 226 /\ bz c1 = 132 /\ bz c2 = 170).
Proof.
  cbn [pre_k]. intros H (E0 & E1 & E2). rewrite E0, E1, E2 in H. discriminate.
Qed.

(* any other lead byte >= 0x80 decodes to a rune >= 0x80 that is neither U+017F nor U+212A *)
Lemma decode_other c r : 128 <= bz c -> pre_s (c :: r) = false -> pre_k (c :: r) = false ->
  128 <= fst (decode_rune (c :: r)) /\ fst (decode_rune (c :: r)) <> 383 /\ fst (decode_rune (c :: r)) <> 8490.
Proof.
  intros Hc Hs Hk.
  destruct r as [|c1 [|c2 r2]].
  - clear Hs Hk. decode_cases; cbn [fst]; lia.
  - apply pre_s_false_Z in Hs. clear Hk. decode_cases; cbn [fst]; lia.
  - apply pre_s_false_Z in Hs. apply pre_k_false_Z in Hk. decode_cases; cbn [fst]; lia.
Qed.

Lemma ascii_not_special c r : bz c < 128 -> pre_s (c :: r) = false /\ pre_k (c :: r) = false.
Proof.
  intros H. destruct r as [|c1 [|c2 r2]]; cbn [pre_s pre_k]; split; try reflexivity;
    (destruct (Z.eqb_spec (bz c) 197); [lia|]); (destruct (Z.eqb_spec (bz c) 226); [lia|]); reflexivity.
Qed.

Lemma unfold_special_cons c r : exists y ys, unfold_special (c :: r) = y :: ys.
Proof.
  destruct (pre_s (c :: r)) eqn:Es; [rewrite (unfold_s _ Es); eauto|].
  destruct (pre_k (c :: r)) eqn:Ek; [rewrite (unfold_k _ Es Ek); eauto|].
  rewrite (unfold_plain _ _ Es Ek); eauto.
Qed.

(* Go's EqualFold with an ASCII first operand = the ASCII-only model on the unfolded second operand *)
Lemma fold_special : forall h t fuel, is_ascii h = true -> (length h <= fuel)%nat ->
  equal_fold_loop fuel h t = Ret (equal_fold h (unfold_special t)).
Proof.
  induction h as [|x h IH]; intros t fuel Hh Hf.
  - destruct t as [|c r]; [destruct fuel; reflexivity|].
    destruct (unfold_special_cons c r) as (y & ys & ->). destruct fuel; reflexivity.
  - destruct t as [|c r]; [destruct fuel; reflexivity|].
    destruct fuel as [|fuel]; [cbn in Hf; lia|].
    cbn [is_ascii forallb] in Hh. apply andb_true_iff in Hh as [Hx Hh]. apply Z.ltb_lt in Hx.
    assert (Hf' : (length h <= fuel)%nat) by (cbn in Hf; lia).
    pose proof (bz_range x) as Rx.
    cbn [equal_fold_loop]. rewrite decode_ascii by assumption.
    destruct (pre_s (c :: r)) eqn:Es.
    { rewrite (decode_s _ Es), (unfold_s _ Es). rewrite fold_eq_ascii_l by lia.
      cbn [equal_fold]. rewrite eqb_bz, bz_lower, rune_lower_ascii by lia.
      change (rune_lower 383) with 115. change (bz (lower "s")) with 115.
      destruct (_ =? 115); cbn [andb]; [|reflexivity].
      change (skipn 1 (x :: h)) with h. now apply IH. }
    destruct (pre_k (c :: r)) eqn:Ek.
    { rewrite (decode_k _ Ek), (unfold_k _ Es Ek). rewrite fold_eq_ascii_l by lia.
      cbn [equal_fold]. rewrite eqb_bz, bz_lower, rune_lower_ascii by lia.
      change (rune_lower 8490) with 107. change (bz (lower "k")) with 107.
      destruct (_ =? 107); cbn [andb]; [|reflexivity].
      change (skipn 1 (x :: h)) with h. now apply IH. }
    rewrite (unfold_plain _ _ Es Ek). cbn [equal_fold].
    destruct (Z.ltb_spec (bz c) 128) as [Hc|Hc].
    + rewrite decode_ascii by assumption. rewrite fold_eq_bytes by assumption.
      destruct (Ascii.eqb (lower x) (lower c)); cbn [andb]; [|reflexivity].
      cbn [skipn]. now apply IH.
    + destruct (decode_other c r Hc Es Ek) as (G1 & G2 & G3).
      destruct (decode_rune (c :: r)) as [tr tw]. cbn [fst] in G1, G2, G3.
      rewrite fold_eq_ascii_l by lia. rewrite rune_lower_ascii by lia.
      assert (Et : rune_lower tr = tr).
      { unfold rune_lower. destruct (Z.leb_spec 65 tr), (Z.leb_spec tr 90); try lia; cbn [andb];
          (destruct (Z.eqb_spec tr 8490); [lia|]); (destruct (Z.eqb_spec tr 383); [lia|]); reflexivity. }
      rewrite Et. rewrite eqb_bz, !bz_lower. pose proof (bz_range c) as Rc.
      replace ((if (65 <=? bz x) && (bz x <=? 90) then bz x + 32 else bz x) =? tr) with false
        by (symmetry; apply Z.eqb_neq; destruct ((65 <=? bz x) && (bz x <=? 90)) eqn:E;
            [apply andb_true_iff in E as [_ E]; apply Z.leb_le in E|]; lia).
      replace ((if (65 <=? bz x) && (bz x <=? 90) then bz x + 32 else bz x) =?
               (if (65 <=? bz c) && (bz c <=? 90) then bz c + 32 else bz c)) with false; [reflexivity|].
      symmetry; apply Z.eqb_neq.
      destruct ((65 <=? bz x) && (bz x <=? 90)) eqn:E;
        [apply andb_true_iff in E as [_ E]; apply Z.leb_le in E|];
        (destruct ((65 <=? bz c) && (bz c <=? 90)) eqn:E';
         [apply andb_true_iff in E' as [_ E']; apply Z.leb_le in E'|]); lia.
Qed.

Lemma loop_special name : forall l i,
  (forall h, In h l -> is_ascii h = true) ->
  gen_isBlacklistedHeader_loop1 l i name = Ret (existsb (fun h => equal_fold h (unfold_special name)) l).
Proof.
  induction l as [|h l IH]; intros i Hl; [reflexivity|].
  cbn [gen_isBlacklistedHeader_loop1 existsb]. cbv zeta.
  unfold strings_EqualFold. rewrite fold_special; [|apply Hl; now left|lia].
  cbn [bind]. destruct (equal_fold h (unfold_special name)); cbn [orb]; [reflexivity|].
  apply IH. intros h' Hh'. apply Hl. now right.
Qed.

Lemma isBlacklistedHeader_exact name :
  gen_isBlacklistedHeader name = Ret (isBlacklistedHeader (unfold_special name)).
Proof.
  unfold gen_isBlacklistedHeader, isBlacklistedHeader. cbv zeta.
  rewrite <- table_eq. apply loop_special. exact table_ascii.
Qed.

Lemma unfold_special_ascii : forall s, is_ascii s = true -> unfold_special s = s.
Proof.
  induction s as [|c r IH]; intros H; [reflexivity|].
  cbn [is_ascii forallb] in H. apply andb_true_iff in H as [Hc Hr]. apply Z.ltb_lt in Hc.
  destruct (ascii_not_special c r Hc) as [Es Ek]. rewrite (unfold_plain _ _ Es Ek). now rewrite (IH Hr).
Qed.

(* through C15's own lemma: every name the SPECIFICATION calls sensitive is redacted by the generated code *)
Lemma isBlacklistedHeader_sensitive name :
  FoxC15.Spec.sensitive name -> gen_isBlacklistedHeader name = Ret true.
Proof. intros H. apply isBlacklistedHeader_covers. now apply FoxC15.ProofsRedact.sensitive_is_blacklisted. Qed.

(* "Coo<U+212A>ie": the model says "not a credential header", the code redacts it *)
Definition kelvin_cookie : bytes := S2B "Coo" ++ B [226; 132; 170]%N ++ S2B "ie".

Lemma model_differs :
  exists name, isBlacklistedHeader name = false /\ gen_isBlacklistedHeader name = Ret true.
Proof. exists kelvin_cookie. split; vm_compute; reflexivity. Qed.

End Fold.
