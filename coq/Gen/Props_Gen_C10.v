(* Props_Gen_C10.v — fox.go Router.parseRoute (property C10).
   Tie A: the definition gotrans REGENERATES from the Go source on every run (GenParse.v,
   gen_parseRoute: the 190-line single-pass validator, translated statement by statement) is equal, on
   ALL inputs, to the hand-written model FoxPattern.ParseRoute.parseRoute that every C10 theorem is about.
   Only statements closed by [exact]; non-vacuity examples next to them.  Notes: docs/Gen.md, docs/C10.md

   gen_parseRoute fox_nil fox_maxParamKeyBytes fox_maxParams url : outcome (Z * Z * go_error)
     the receiver *Router is flattened into the two fields the function reads (uint16 in Go: the
     hypotheses [<= 65535]) and its nil flag (false: a nil receiver panics at the first field access);
     the result is Go's (uint32, int, error); go_error: GoSemErr.v (nil, or the list of the sentinel
     errors wrapped with %w). *)
From FoxBase Require Import Bytes.
From Coq Require Import ZArith.
Import List ListNotations.
From FoxGen Require Import GoSem GoSemErr GenParse BridgeC10.
From FoxPattern Require Import ParseRoute Token Grammar ProofsProps.
Open Scope char_scope.
Open Scope Z_scope.

(* ---- GoSemErr.v agrees with the real Go primitives on the replayed samples (uintN ++/--,
        value-preserving conversions, errors.Is on fmt.Errorf values with %w operands) *)
Theorem go_semantics_samples_err : forallb (fun b => b) sem_samples_parse = true.
Proof. exact sem_samples_parse_ok. Qed.
Print Assumptions go_semantics_samples_err.

(* ---- the generated function IS the model: for every byte string and all limits in range it returns
        (never panics: every index expression is in range; never runs out of fuel), and what it
        returns is the Go triple of the model's result: Accept n eh -> (n, eh, nil);
        Reject k -> (0, -1, e) with e wrapping ErrInvalidRoute (+ ErrParamKeyTooLarge / ErrTooManyParams).
        uint32: paramCnt++ is translated with its wrap (mod 2^32); the equality holds INCLUDING the
        wrap, no extra hypothesis: paramCnt <= maxParams <= 65535 is an invariant of the loop. *)
Theorem gen_parseRoute_eq_model : forall (mp mk : nat) (url : bytes),
  Z.of_nat mp <= 65535 -> Z.of_nat mk <= 65535 ->
  gen_parseRoute false (Z.of_nat mk) (Z.of_nat mp) url = Ret (go_triple (parseRoute mp mk url)) /\
  parseRoute mp mk url <> ParseRoute.Panic /\ parseRoute mp mk url <> ParseRoute.OutOfFuel.
Proof. exact parseRoute_eq_ret. Qed.
Print Assumptions gen_parseRoute_eq_model.

(* the same with the model's Panic / OutOfFuel mapped to the generated ones (no appeal to totality) *)
Theorem gen_parseRoute_eq_model_outcome : forall (mp mk : nat) (url : bytes),
  Z.of_nat mp <= 65535 ->
  gen_parseRoute false (Z.of_nat mk) (Z.of_nat mp) url = embed (parseRoute mp mk url).
Proof. exact parseRoute_eq. Qed.
Print Assumptions gen_parseRoute_eq_model_outcome.

Theorem gen_parseRoute_never_panics : forall (mp mk : nat) (url : bytes),
  Z.of_nat mp <= 65535 -> Z.of_nat mk <= 65535 ->
  gen_parseRoute false (Z.of_nat mk) (Z.of_nat mp) url <> GoSem.Panic /\
  gen_parseRoute false (Z.of_nat mk) (Z.of_nat mp) url <> GoSem.OutOfFuel.
Proof. exact parseRoute_no_panic. Qed.
Print Assumptions gen_parseRoute_never_panics.

(* ---- through C10's parseRoute_accepts_exactly: the generated function accepts exactly the documented
        grammar (with `_` also allowed in hostname labels: known finding c10_underscore_hostname) and
        returns the grammar's wildcard count and host split *)
Theorem gen_parseRoute_accepts_exactly : forall (mp mk : nat) (s : bytes) (n eh : nat),
  Z.of_nat mp <= 65535 -> Z.of_nat mk <= 65535 ->
  (gen_parseRoute false (Z.of_nat mk) (Z.of_nat mp) s = Ret (Z.of_nat n, Z.of_nat eh, go_nil_error) <->
   in_grammar_with ldh_or_underscore mp mk s n eh).
Proof. exact gen_accepts_exactly. Qed.
Print Assumptions gen_parseRoute_accepts_exactly.

Theorem gen_parseRoute_iff_grammar_partial : forall (mp mk : nat) (s : bytes) (n eh : nat),
  Z.of_nat mp <= 65535 -> Z.of_nat mk <= 65535 ->
  forallb (fun c => negb (Ascii.eqb c "_")) (host_part s) = true ->
  (gen_parseRoute false (Z.of_nat mk) (Z.of_nat mp) s = Ret (Z.of_nat n, Z.of_nat eh, go_nil_error) <->
   in_grammar mp mk s n eh).
Proof. exact gen_grammar_partial. Qed.
Print Assumptions gen_parseRoute_iff_grammar_partial.

(* every string: either (count, host split, nil) of the grammar, or (0, -1, e) with
   errors.Is(e, ErrInvalidRoute) and the string is outside the grammar *)
Theorem gen_parseRoute_result_shape : forall (mp mk : nat) (s : bytes),
  Z.of_nat mp <= 65535 -> Z.of_nat mk <= 65535 ->
  (exists n eh, gen_parseRoute false (Z.of_nat mk) (Z.of_nat mp) s = Ret (Z.of_nat n, Z.of_nat eh, go_nil_error) /\
                in_grammar_with ldh_or_underscore mp mk s n eh) \/
  (exists e, gen_parseRoute false (Z.of_nat mk) (Z.of_nat mp) s = Ret (0, -1, e) /\
             go_errors_Is e (S2B "ErrInvalidRoute") = true /\
             forall n eh, ~ in_grammar_with ldh_or_underscore mp mk s n eh).
Proof. exact gen_result_shape. Qed.
Print Assumptions gen_parseRoute_result_shape.

(* the sentinels ErrParamKeyTooLarge / ErrTooManyParams are wrapped exactly for the model's kinds *)
Theorem gen_parseRoute_error_kinds : forall (mp mk : nat) (s : bytes) (k : rkind),
  Z.of_nat mp <= 65535 -> Z.of_nat mk <= 65535 ->
  parseRoute mp mk s = Reject k ->
  exists e, gen_parseRoute false (Z.of_nat mk) (Z.of_nat mp) s = Ret (0, -1, e) /\
    go_errors_Is e (S2B "ErrParamKeyTooLarge") = (match k with EKeyTooLarge => true | _ => false end) /\
    go_errors_Is e (S2B "ErrTooManyParams") = (match k with ETooManyParams => true | _ => false end).
Proof. exact gen_error_kinds. Qed.
Print Assumptions gen_parseRoute_error_kinds.

(* ---- non-vacuity: the generated function computes; every error enum value and nil occur; a nil
        receiver panics at `fox.maxParams` *)
Example gen_parseRoute_examples :
  gen_parseRoute false 9 7 (S2B "{sub}.ex-ample.de{f}.com/foo/x:{bar}/*{rest}/y") = Ret (4, 24, go_nil_error) /\
  gen_parseRoute false 9 7 (S2B "a_b/") = Ret (0, 3, go_nil_error) /\
  gen_parseRoute false 9 7 (S2B "/a/{}") = Ret (0, -1, go_errorf [S2B "ErrInvalidRoute"]) /\
  gen_parseRoute false 2 7 (S2B "/{abc}") = Ret (0, -1, go_errorf [S2B "ErrInvalidRoute"; S2B "ErrParamKeyTooLarge"]) /\
  gen_parseRoute false 9 1 (S2B "/{a}/{b}") = Ret (0, -1, go_errorf [S2B "ErrInvalidRoute"; S2B "ErrTooManyParams"]) /\
  gen_parseRoute false 9 7 (S2B "a..b/") = Ret (0, -1, go_errorf [S2B "ErrInvalidRoute"]) /\
  gen_parseRoute true 9 7 (S2B "/a") = GoSem.Panic /\
  in_grammar 7 9 (S2B "{sub}.ex-ample.de{f}.com/foo/x:{bar}/*{rest}/y") 4 24.
Proof.
  repeat split; try (vm_compute; reflexivity).
  apply FoxPattern.ProofsProps.grammarb_iff. vm_compute. reflexivity.
Qed.
