(* Props_Gen_C20.v — logger.go level.
   Tie A for small pure functions: the definitions gotrans REGENERATES from the Go sources on every
   run (GenFuns.v) are equal, on ALL inputs, to the hand-written models the property proofs use.
   Only statements closed by [exact]; non-vacuity examples next to them.  Notes: docs/Gen.md *)
From FoxBase Require Import Bytes.
From FoxGen Require Import GoSem GenFuns BridgeC20.
Open Scope char_scope.
Open Scope Z_scope.

(* level (Logger middleware): slog.LevelDebug = -4, Info = 0, Warn = 4, Error = 8 *)
Theorem gen_level_classes : forall s : Z,
  (200 <= s < 300 -> gen_level s = 0) /\
  (300 <= s < 400 -> gen_level s = -4) /\
  (400 <= s < 500 -> gen_level s = 4) /\
  (500 <= s -> gen_level s = 8) /\
  (s < 200 -> gen_level s = 0).
Proof. exact level_classes_gen. Qed.
Print Assumptions gen_level_classes.

Example level_nonvacuous :
  map gen_level [101; 200; 299; 300; 399; 400; 499; 500; 999] = [0; 0; 0; -4; -4; 4; 4; 8; 8].
Proof. reflexivity. Qed.

