(* coq/Gen/BridgeC10.v — tie A for property C10: the definition gotrans regenerates from
   Router.parseRoute (fox.go) on every run, GenParse.gen_parseRoute, equals the hand-written
   model FoxPattern.ParseRoute.parseRoute (the function all C10 theorems are about) on EVERY byte
   string and every pair of limits in the uint16 range.

   Embedding of the model's results into the Go triple (uint32, int, error):
     Accept n eh   ->  Ret (n, eh, nil)
     Reject k      ->  Ret (0, -1, e)   e wraps ErrInvalidRoute, and ErrParamKeyTooLarge /
                                         ErrTooManyParams for the two kinds that carry a second %w
                                         (the 23 other kinds differ in message text only)
     Panic / OutOfFuel -> Panic / OutOfFuel  (excluded by C10's parseRoute_total, hence the
                                         generated function never panics nor runs out of fuel)

   uint32: the generated paramCnt++ wraps modulo 2^32 (go_uint_add 32).  The model counts in nat.
   The equality is proved INCLUDING the wrap: no wrap can occur because paramCnt <= maxParams is an
   invariant of the loop (the counter is compared with maxParams <= 65535 right after every
   increment); the only hypothesis is that maxParams is a uint16 value.

   Proof: one-step simulation between the generated loop body and ParseRoute.step, one lemma per
   state (sim_param / sim_catchall / sim_default), lifted by induction on the fuel (loop_sim). *)
From FoxBase Require Import Bytes.
From Coq Require Import Lia ZArith.
Import List ListNotations.
From FoxGen Require Import GoSem GoSemErr GenParse.
From FoxPattern Require Import ParseRoute.

Open Scope char_scope.
Open Scope Z_scope.

(* ------------------------------------------------------------------ embedding *)
Definition enc_state (p : pstate) : ascii :=
  match p with StDefault => ascii_of_N 0 | StParam => ascii_of_N 1 | StCatchAll => ascii_of_N 2 end.

Definition err_invalid : go_error := go_errorf [S2B "ErrInvalidRoute"].
Definition err_key_too_large : go_error := go_errorf [S2B "ErrInvalidRoute"; S2B "ErrParamKeyTooLarge"].
Definition err_too_many : go_error := go_errorf [S2B "ErrInvalidRoute"; S2B "ErrTooManyParams"].

Definition err_of (k : rkind) : go_error :=
  match k with
  | EKeyTooLarge => err_key_too_large
  | ETooManyParams => err_too_many
  | _ => err_invalid
  end.

Definition embed (r : result) : outcome (Z * Z * go_error) :=
  match r with
  | Accept n eh => Ret (Z.of_nat n, Z.of_nat eh, go_nil_error)
  | Reject k => Ret (0, -1, err_of k)
  | ParseRoute.Panic => GoSem.Panic
  | ParseRoute.OutOfFuel => GoSem.OutOfFuel
  end.

(* ------------------------------------------------------------------ primitives *)
Lemma go_index_nat {A} (s : list A) (n : nat) :
  go_index s (Z.of_nat n) = match nth_error s n with Some c => Ret c | None => GoSem.Panic end.
Proof. unfold go_index. destruct (Z.ltb_spec (Z.of_nat n) 0); [lia|]. now rewrite Nat2Z.id. Qed.

Lemma go_index_succ {A} (s : list A) (n : nat) :
  go_index s (Z.of_nat n + 1) = match nth_error s (S n) with Some c => Ret c | None => GoSem.Panic end.
Proof. rewrite <- go_index_nat. f_equal. lia. Qed.

Lemma go_index_pred {A} (s : list A) (n : nat) :
  go_index s (Z.of_nat (S n) - 1) = match nth_error s n with Some c => Ret c | None => GoSem.Panic end.
Proof. rewrite <- go_index_nat. f_equal. lia. Qed.

Lemma go_index_neg {A} (s : list A) : go_index s (Z.of_nat 0 - 1) = GoSem.Panic.
Proof. reflexivity. Qed.

Lemma go_index_last {A} (s : list A) :
  go_index s (len s - 1) = match nth_error s (length s - 1) with Some c => Ret c | None => GoSem.Panic end.
Proof.
  destruct s as [|x s]; [reflexivity|]. unfold len. cbn [length]. rewrite go_index_pred.
  now replace (S (length s) - 1)%nat with (length s) by lia.
Qed.

Lemma byte_leb_N a b : byte_leb a b = (N_of_ascii a <=? N_of_ascii b)%N.
Proof.
  unfold byte_leb, bz. destruct (Z.leb_spec (Z.of_N (N_of_ascii a)) (Z.of_N (N_of_ascii b))), (N.leb_spec (N_of_ascii a) (N_of_ascii b)); lia.
Qed.

Lemma alpha_eq c :
  ((byte_leb "a" c && byte_leb c "z") || (byte_leb "A" c && byte_leb c "Z")) || Ascii.eqb c "_" = is_alpha_us c.
Proof. unfold is_alpha_us, byte_in. now rewrite !byte_leb_N. Qed.

Lemma digit_eq c : byte_leb "0" c && byte_leb c "9" = is_digit c.
Proof. unfold is_digit, byte_in. now rewrite !byte_leb_N. Qed.

(* comparisons on Z.of_nat are the comparisons on nat *)
Lemma zltb a b : (Z.of_nat a <? Z.of_nat b) = (a <? b)%nat.
Proof. destruct (Z.ltb_spec (Z.of_nat a) (Z.of_nat b)), (Nat.ltb_spec a b); lia. Qed.
Lemma zeqb a b : (Z.of_nat a =? Z.of_nat b) = (a =? b)%nat.
Proof. destruct (Z.eqb_spec (Z.of_nat a) (Z.of_nat b)), (Nat.eqb_spec a b); lia. Qed.
Lemma zgtb a b : (Z.of_nat a >? Z.of_nat b) = (b <? a)%nat.
Proof. rewrite Z.gtb_ltb. apply zltb. Qed.
Lemma zltb_succ_len {A} a (s : list A) : (Z.of_nat a + 1 <? len s) = (S a <? length s)%nat.
Proof. unfold len. destruct (Z.ltb_spec (Z.of_nat a + 1) (Z.of_nat (length s))), (Nat.ltb_spec (S a) (length s)); lia. Qed.
Lemma zgeb_succ_len {A} a (s : list A) : (Z.of_nat a + 1 >=? len s) = (length s <=? S a)%nat.
Proof. unfold len. rewrite Z.geb_leb. destruct (Z.leb_spec (Z.of_nat (length s)) (Z.of_nat a + 1)), (Nat.leb_spec (length s) (S a)); lia. Qed.
Lemma zltb_len {A} a (s : list A) : (Z.of_nat a <? len s) = (a <? length s)%nat.
Proof. apply zltb. Qed.
Lemma zsub_gtb i sp mk : (Z.of_nat i - Z.of_nat sp >? Z.of_nat mk) = (mk <? i - sp)%nat.
Proof. rewrite Z.gtb_ltb. destruct (Z.ltb_spec (Z.of_nat mk) (Z.of_nat i - Z.of_nat sp)), (Nat.ltb_spec mk (i - sp)); lia. Qed.
Lemma zleb1 a : (Z.of_nat a <=? 1) = (a <=? 1)%nat.
Proof. destruct (Z.leb_spec (Z.of_nat a) 1), (Nat.leb_spec a 1); lia. Qed.
Lemma zgtb63 a : (Z.of_nat a >? 63) = (max_label <? a)%nat.
Proof. unfold max_label. rewrite Z.gtb_ltb. destruct (Z.ltb_spec 63 (Z.of_nat a)), (Nat.ltb_spec 63 a); lia. Qed.
Lemma zgtb255 a b : (Z.of_nat a + Z.of_nat b >? 255) = (max_host <? a + b)%nat.
Proof. unfold max_host. rewrite Z.gtb_ltb. destruct (Z.ltb_spec 255 (Z.of_nat a + Z.of_nat b)), (Nat.ltb_spec 255 (a + b)); lia. Qed.
Lemma zgtb0 a : (Z.of_nat a >? 0) = (0 <? a)%nat.
Proof. rewrite Z.gtb_ltb. destruct (Z.ltb_spec 0 (Z.of_nat a)), (Nat.ltb_spec 0 a); lia. Qed.

(* paramCnt++ on uint32: no wrap below 2^32 - 1 *)
Lemma uint32_incr n : Z.of_nat n <= 65535 -> go_uint_add 32 (Z.of_nat n) 1 = Z.of_nat (S n).
Proof. intros H. unfold go_uint_add. rewrite Z.mod_small; [lia|]. change (2 ^ 32) with 4294967296. lia. Qed.

Lemma enc_state_1 p : Ascii.eqb (enc_state p) (ascii_of_N 1) = pstate_eqb p StParam.
Proof. now destruct p. Qed.
Lemma enc_state_2 p : Ascii.eqb (enc_state p) (ascii_of_N 2) = pstate_eqb p StCatchAll.
Proof. now destruct p. Qed.

(* ------------------------------------------------------------------ the loop *)
Section Loop.
  Variables mp mk : nat.
  Variable url : bytes.
  Variable eh : nat.
  Hypothesis Hmp : Z.of_nat mp <= 65535.

  (* the generated loop helper on the image of a model state *)
  Definition G (fuel : nat) (i : nat) (s : st) : outcome (Z * Z * go_error) :=
    gen_parseRoute_loop1 fuel false (Z.of_nat mk) (Z.of_nat mp) url (Z.of_nat eh)
      (delim s) (enc_state (state s)) (enc_state (previous s)) (Z.of_nat (paramCnt s))
      (Z.of_nat (countStatic s)) (Z.of_nat (startParam s)) (inParam s) (nonNumeric s)
      (Z.of_nat (partlen s)) (Z.of_nat (totallen s)) (last s) (Z.of_nat i).

  Definition sim_at (fuel : nat) : Prop :=
    forall i s, (paramCnt s <= mp)%nat -> G fuel i s = embed (loop fuel mp mk url eh i s).

  (* a recursive call of the generated helper on the image of the model's next state *)
  Ltac leaf IH :=
    rewrite <- IH by (cbn [paramCnt set_state set_previous set_paramCnt set_countStatic set_startParam set_inParam
                           set_nonNumeric set_partlen set_totallen set_last set_delim]; lia); unfold G;
    cbn [state previous paramCnt countStatic startParam inParam nonNumeric partlen totallen last delim
         set_state set_previous set_paramCnt set_countStatic set_startParam set_inParam set_nonNumeric
         set_partlen set_totallen set_last set_delim enc_state];
    f_equal; lia.

  Ltac norm :=
    rewrite ?zltb_succ_len, ?zgeb_succ_len, ?zltb_len, ?zltb, ?zeqb, ?zsub_gtb, ?zleb1, ?zgtb63, ?zgtb0,
            ?alpha_eq, ?digit_eq.

  Lemma sim_param fuel i s c :
    sim_at fuel -> (paramCnt s <= mp)%nat -> state s = StParam -> nth_error url i = Some c ->
    G (S fuel) i s = embed (loop (S fuel) mp mk url eh i s).
  Proof.
    intros IH Hpc Hst Hc.
    assert (Hi : (i <? length url)%nat = true) by (apply Nat.ltb_lt, nth_error_Some; congruence).
    destruct s as [st pv pc cs sp ip nn pl tl la de]. cbn [state paramCnt] in Hst, Hpc. subst st.
    unfold G. cbn [loop gen_parseRoute_loop1 step state previous paramCnt countStatic startParam inParam
                   nonNumeric partlen totallen last delim enc_state].
    rewrite zltb_len, Hi. cbv zeta.
    change (Ascii.eqb (ascii_of_N 1) (ascii_of_N 1)) with true. cbv iota.
    unfold step_param, at_. rewrite Hc, !go_index_nat, Hc. cbn [bind].
    destruct (Ascii.eqb c "}") eqn:Ec.
    - cbn [inParam negb set_inParam state previous paramCnt countStatic startParam nonNumeric partlen totallen last delim].
      destruct ip; cbn [negb]; [|reflexivity].
      norm. rewrite !go_index_succ.
      destruct (S i <? length url)%nat eqn:Hn.
      + destruct (nth_error url (S i)) as [c1|] eqn:Hc1;
          [|apply Nat.ltb_lt in Hn; apply nth_error_None in Hc1; lia].
        cbn [bind]. destruct (Ascii.eqb c1 de); cbn [negb andb bind].
        * destruct (i <? eh)%nat; leaf IH.
        * destruct (Ascii.eqb c1 "/"); cbn [negb andb bind]; [|reflexivity].
          destruct (i <? eh)%nat; leaf IH.
      + cbn [bind]. destruct (i <? eh)%nat; leaf IH.
    - norm. cbn [startParam inParam delim state previous paramCnt countStatic nonNumeric partlen totallen last].
      destruct (mk <? i - sp)%nat; [reflexivity|].
      destruct (Ascii.eqb c de); cbn [orb bind]; [reflexivity|].
      destruct (Ascii.eqb c "/"); cbn [orb bind]; [reflexivity|].
      destruct (Ascii.eqb c "*"); cbn [orb bind]; [reflexivity|].
      destruct (Ascii.eqb c "{"); cbn [orb bind]; [reflexivity|].
      leaf IH.
  Qed.

  Lemma sim_catchall fuel i s c :
    sim_at fuel -> (paramCnt s <= mp)%nat -> state s = StCatchAll -> nth_error url i = Some c ->
    G (S fuel) i s = embed (loop (S fuel) mp mk url eh i s).
  Proof.
    intros IH Hpc Hst Hc.
    assert (Hi : (i <? length url)%nat = true) by (apply Nat.ltb_lt, nth_error_Some; congruence).
    destruct s as [st pv pc cs sp ip nn pl tl la de]. cbn [state paramCnt] in Hst, Hpc. subst st.
    unfold G. cbn [loop gen_parseRoute_loop1 step state previous paramCnt countStatic startParam inParam
                   nonNumeric partlen totallen last delim enc_state].
    rewrite zltb_len, Hi. cbv zeta.
    change (Ascii.eqb (ascii_of_N 2) (ascii_of_N 1)) with false.
    change (Ascii.eqb (ascii_of_N 2) (ascii_of_N 2)) with true. cbv iota.
    unfold step_catchall, at_. rewrite Hc, !go_index_nat, Hc. cbn [bind].
    destruct (Ascii.eqb c "}") eqn:Ec.
    - cbn [inParam negb set_inParam state previous paramCnt countStatic startParam nonNumeric partlen totallen last delim].
      destruct ip; cbn [negb]; [|reflexivity].
      norm. rewrite !go_index_succ, enc_state_2.
      destruct (S i <? length url)%nat eqn:Hn.
      + destruct (nth_error url (S i)) as [c1|] eqn:Hc1;
          [|apply Nat.ltb_lt in Hn; apply nth_error_None in Hc1; lia].
        cbn [bind]. destruct (Ascii.eqb c1 "/"); cbn [negb bind]; [|reflexivity].
        destruct (pstate_eqb pv StCatchAll && (cs <=? 1)%nat); [reflexivity|]. leaf IH.
      + cbn [bind]. destruct (pstate_eqb pv StCatchAll && (cs <=? 1)%nat); [reflexivity|]. leaf IH.
    - norm. cbn [startParam inParam delim state previous paramCnt countStatic nonNumeric partlen totallen last].
      destruct (mk <? i - sp)%nat; [reflexivity|].
      destruct (Ascii.eqb c "/"); cbn [orb bind]; [reflexivity|].
      destruct (Ascii.eqb c "*"); cbn [orb bind]; [reflexivity|].
      destruct (Ascii.eqb c "{"); cbn [orb bind]; [reflexivity|].
      leaf IH.
  Qed.

  Ltac projs :=
    cbn [state previous paramCnt countStatic startParam inParam nonNumeric partlen totallen last delim
         set_state set_previous set_paramCnt set_countStatic set_startParam set_inParam set_nonNumeric
         set_partlen set_totallen set_last set_delim].

  (* `if paramCnt > uint32(fox.maxParams) { return .. }; i++` *)
  Ltac tail IH n :=
    projs; cbn [bind]; norm; rewrite ?zgtb; destruct (Nat.ltb_spec mp n); [reflexivity|leaf IH].

  Lemma sim_default fuel i s c :
    sim_at fuel -> (paramCnt s <= mp)%nat -> state s = StDefault -> nth_error url i = Some c ->
    G (S fuel) i s = embed (loop (S fuel) mp mk url eh i s).
  Proof.
    intros IH Hpc Hst Hc.
    assert (Hi : (i <? length url)%nat = true) by (apply Nat.ltb_lt, nth_error_Some; congruence).
    destruct s as [st pv pc cs sp ip nn pl tl la de]. cbn [state paramCnt] in Hst, Hpc. subst st.
    unfold G. cbn [loop gen_parseRoute_loop1 step state previous paramCnt countStatic startParam inParam
                   nonNumeric partlen totallen last delim enc_state].
    rewrite zltb_len, Hi. cbv zeta.
    change (Ascii.eqb (ascii_of_N 0) (ascii_of_N 1)) with false.
    change (Ascii.eqb (ascii_of_N 0) (ascii_of_N 2)) with false. cbv iota.
    unfold step_default, step_default_body, at_. rewrite zeqb, !go_index_nat, !go_index_succ, !uint32_incr by lia.
    destruct (i =? eh)%nat; projs; rewrite Hc; cbn [bind].
    all: destruct (Ascii.eqb c "{"); [tail IH (S pc)|].
    all: destruct (Ascii.eqb c "*").
    all: try (norm; destruct (i <? eh)%nat; [reflexivity|];
              destruct (length url <=? S i)%nat eqn:Hn; cbn [bind]; [reflexivity|];
              destruct (nth_error url (S i)) as [c1|] eqn:Hc1;
                [|apply Nat.leb_gt in Hn; apply nth_error_None in Hc1; lia];
              cbn [bind]; destruct (Ascii.eqb c1 "{"); cbn [negb]; [|reflexivity];
              tail IH (S pc)).
    all: norm; destruct (i <? eh)%nat; [|tail IH pc].
    all: cbn [bind]; destruct (is_alpha_us c); [tail IH pc|].
    all: destruct (is_digit c); [tail IH pc|].
    all: destruct (Ascii.eqb c "-"); [destruct (Ascii.eqb la "."); [reflexivity|tail IH pc]|].
    all: destruct (Ascii.eqb c "."); [|reflexivity].
    all: destruct (Ascii.eqb la ".").
    all: try (destruct i as [|j]; [reflexivity|]; rewrite go_index_pred;
              destruct (nth_error url j) as [p|]; [|reflexivity];
              cbn [bind]; destruct (Ascii.eqb p "}"); cbn [negb]; [|reflexivity]).
    all: cbn [bind]; destruct (Ascii.eqb la "-"); [reflexivity|];
         destruct (max_label <? pl)%nat; [reflexivity|]; tail IH pc.
  Qed.

  (* after the loop *)
  Lemma sim_finish fuel i s :
    (i <? length url)%nat = false -> G fuel i s = embed (loop fuel mp mk url eh i s).
  Proof.
    intros Hi. destruct s as [st pv pc cs sp ip nn pl tl la de].
    unfold G. destruct fuel; cbn [loop gen_parseRoute_loop1 state previous paramCnt countStatic startParam inParam
                   nonNumeric partlen totallen last delim].
    all: rewrite zltb_len, Hi; cbv zeta; unfold finish; projs; rewrite zgtb0, !enc_state_1, !enc_state_2, zgtb63, zgtb255.
    all: rewrite go_index_last.
    all: destruct (0 <? eh)%nat eqn:He.
    all: try (destruct (Ascii.eqb la "-"); [reflexivity|];
              destruct eh as [|e]; [discriminate|]; rewrite go_index_pred;
              replace (S e - 1)%nat with e by lia;
              destruct (nth_error url e) as [q|]; [|reflexivity]; cbn [bind];
              destruct (Ascii.eqb q "."); [reflexivity|];
              destruct nn; cbn [negb]; [|reflexivity];
              destruct (max_label <? pl)%nat; [reflexivity|];
              destruct (max_host <? tl + pl)%nat; [reflexivity|]).
    all: destruct st; cbn [pstate_eqb]; try reflexivity.
    all: destruct (nth_error url (length url - 1)) as [q'|]; [|reflexivity]; cbn [bind];
         destruct (Ascii.eqb q' "*"); reflexivity.
  Qed.

  Lemma loop_sim : forall fuel, sim_at fuel.
  Proof.
    induction fuel as [|fuel IH]; intros i s Hpc.
    - destruct (i <? length url)%nat eqn:Hi; [|now apply sim_finish].
      unfold G. cbn [loop gen_parseRoute_loop1]. now rewrite zltb_len, Hi.
    - destruct (nth_error url i) as [c|] eqn:Hc.
      + destruct (state s) eqn:Hst; [apply (sim_default fuel i s c)|apply (sim_param fuel i s c)|apply (sim_catchall fuel i s c)];
          assumption.
      + apply sim_finish. apply Nat.ltb_ge, nth_error_None, Hc.
  Qed.
End Loop.

(* ------------------------------------------------------------------ the whole function *)
Definition optZ (o : option nat) : Z := match o with Some n => Z.of_nat n | None => -1 end.

Lemma index_byte_from_eq : forall s c i0,
  index_byte_from i0 s c = match index_byte c s with Some n => i0 + Z.of_nat n | None => -1 end.
Proof.
  induction s as [|x s IH]; intros c i0; [reflexivity|].
  cbn [index_byte_from index_byte]. destruct (Ascii.eqb x c); [cbn; lia|].
  rewrite IH. destruct (index_byte c s); cbn [option_map]; lia.
Qed.

Lemma IndexByte_eq s c : strings_IndexByte s c = optZ (index_byte c s).
Proof. unfold strings_IndexByte. rewrite index_byte_from_eq. destruct (index_byte c s); cbn [optZ]; lia. Qed.

Lemma HasPrefix1_eq s c : strings_HasPrefix s [c] = has_prefix1 c s.
Proof. destruct s as [|x s]; [reflexivity|]. cbn [strings_HasPrefix has_prefix1]. destruct s; apply andb_true_r. Qed.

Lemma parseRoute_eq mp mk url :
  Z.of_nat mp <= 65535 ->
  gen_parseRoute false (Z.of_nat mk) (Z.of_nat mp) url = embed (parseRoute mp mk url).
Proof.
  intros Hmp. unfold gen_parseRoute, parseRoute. cbv zeta.
  rewrite IndexByte_eq. change (S2B ".") with ["."]. change (S2B "-") with ["-"]. rewrite !HasPrefix1_eq.
  destruct (index_byte "/" url) as [eh|]; [|reflexivity]. cbn [optZ].
  destruct (Z.eqb_spec (Z.of_nat eh) (-1)); [lia|].
  destruct (has_prefix1 "." url); [reflexivity|].
  destruct (has_prefix1 "-" url); [reflexivity|].
  change 0 with (Z.of_nat 0) at 1 6. rewrite zeqb.
  destruct (eh =? 0)%nat.
  - apply (loop_sim mp mk url eh Hmp (S (length url)) 0%nat (init_st "/")). cbn. lia.
  - apply (loop_sim mp mk url eh Hmp (S (length url)) 0%nat (init_st ".")). cbn. lia.
Qed.

(* ------------------------------------------------------------------ Ret form, grammar *)
From FoxPattern Require Import Token Grammar ProofsProps Props_C10.
Open Scope Z_scope.

(* the Go triple of a model result; Panic / OutOfFuel never occur (parseRoute_total), their
   image here is immaterial *)
Definition go_triple (r : result) : Z * Z * go_error :=
  match r with
  | Accept n eh => (Z.of_nat n, Z.of_nat eh, go_nil_error)
  | Reject k => (0, -1, err_of k)
  | _ => (0, -1, err_invalid)
  end.

Lemma parseRoute_eq_ret mp mk url :
  Z.of_nat mp <= 65535 -> Z.of_nat mk <= 65535 ->
  gen_parseRoute false (Z.of_nat mk) (Z.of_nat mp) url = Ret (go_triple (parseRoute mp mk url)) /\
  parseRoute mp mk url <> ParseRoute.Panic /\ parseRoute mp mk url <> ParseRoute.OutOfFuel.
Proof.
  intros Hmp _. destruct (parseRoute_total mp mk url) as [Hp Ho]. split; [|split; assumption].
  rewrite parseRoute_eq by assumption. destruct (parseRoute mp mk url); try reflexivity; congruence.
Qed.

Lemma parseRoute_no_panic mp mk url :
  Z.of_nat mp <= 65535 -> Z.of_nat mk <= 65535 ->
  gen_parseRoute false (Z.of_nat mk) (Z.of_nat mp) url <> GoSem.Panic /\
  gen_parseRoute false (Z.of_nat mk) (Z.of_nat mp) url <> GoSem.OutOfFuel.
Proof. intros Hmp Hmk. destruct (parseRoute_eq_ret mp mk url Hmp Hmk) as [E _]. rewrite E. split; discriminate. Qed.

Lemma err_of_not_nil k : err_of k <> go_nil_error.
Proof. destruct k; discriminate. Qed.

Lemma err_of_invalid k : go_errors_Is (err_of k) (S2B "ErrInvalidRoute") = true.
Proof. destruct k; reflexivity. Qed.

Lemma accept_iff mp mk url n eh :
  Z.of_nat mp <= 65535 ->
  gen_parseRoute false (Z.of_nat mk) (Z.of_nat mp) url = Ret (Z.of_nat n, Z.of_nat eh, go_nil_error) <->
  parseRoute mp mk url = Accept n eh.
Proof.
  intros Hmp. rewrite parseRoute_eq by assumption. split.
  - destruct (parseRoute mp mk url) as [n' eh'|k| |]; cbn [embed]; intros H; try discriminate.
    + injection H as H1 H2. f_equal; lia.
    + injection H as _ _ H. now apply err_of_not_nil in H.
  - intros ->. reflexivity.
Qed.

Lemma gen_accepts_exactly mp mk s n eh :
  Z.of_nat mp <= 65535 -> Z.of_nat mk <= 65535 ->
  gen_parseRoute false (Z.of_nat mk) (Z.of_nat mp) s = Ret (Z.of_nat n, Z.of_nat eh, go_nil_error) <->
  in_grammar_with ldh_or_underscore mp mk s n eh.
Proof. intros Hmp _. rewrite accept_iff by assumption. apply parseRoute_accepts_exactly. Qed.

Lemma gen_grammar_partial mp mk s n eh :
  Z.of_nat mp <= 65535 -> Z.of_nat mk <= 65535 ->
  forallb (fun c => negb (Ascii.eqb c "_")) (host_part s) = true ->
  (gen_parseRoute false (Z.of_nat mk) (Z.of_nat mp) s = Ret (Z.of_nat n, Z.of_nat eh, go_nil_error) <->
   in_grammar mp mk s n eh).
Proof. intros Hmp _ Hu. rewrite accept_iff by assumption. now apply parseRoute_iff_grammar_partial. Qed.

(* every result is either the grammar's (count, host split, nil) or (0, -1, an error that Is
   ErrInvalidRoute) for a string outside the grammar *)
Lemma gen_result_shape mp mk s :
  Z.of_nat mp <= 65535 -> Z.of_nat mk <= 65535 ->
  (exists n eh, gen_parseRoute false (Z.of_nat mk) (Z.of_nat mp) s = Ret (Z.of_nat n, Z.of_nat eh, go_nil_error) /\
                in_grammar_with ldh_or_underscore mp mk s n eh) \/
  (exists e, gen_parseRoute false (Z.of_nat mk) (Z.of_nat mp) s = Ret (0, -1, e) /\
             go_errors_Is e (S2B "ErrInvalidRoute") = true /\
             forall n eh, ~ in_grammar_with ldh_or_underscore mp mk s n eh).
Proof.
  intros Hmp Hmk. destruct (parseRoute_eq_ret mp mk s Hmp Hmk) as (E & Hp & Ho). rewrite E.
  destruct (parseRoute mp mk s) as [n eh|k| |] eqn:R; try congruence.
  - left. exists n, eh. split; [reflexivity|]. now apply parseRoute_accepts_exactly.
  - right. exists (err_of k). split; [reflexivity|]. split; [apply err_of_invalid|].
    intros n eh G. apply parseRoute_accepts_exactly in G. congruence.
Qed.

(* the two sentinel-carrying kinds, as the model tells them apart *)
Lemma gen_error_kinds mp mk s k :
  Z.of_nat mp <= 65535 -> Z.of_nat mk <= 65535 ->
  parseRoute mp mk s = Reject k ->
  exists e, gen_parseRoute false (Z.of_nat mk) (Z.of_nat mp) s = Ret (0, -1, e) /\
    go_errors_Is e (S2B "ErrParamKeyTooLarge") = (match k with EKeyTooLarge => true | _ => false end) /\
    go_errors_Is e (S2B "ErrTooManyParams") = (match k with ETooManyParams => true | _ => false end).
Proof.
  intros Hmp Hmk R. destruct (parseRoute_eq_ret mp mk s Hmp Hmk) as (E & _). rewrite E, R.
  exists (err_of k). split; [reflexivity|]. destruct k; split; reflexivity.
Qed.
