(* coq/Gen/GoSemErr.v — HAND-WRITTEN, trusted like GoSem.v.  Meaning of the primitives that
   harness/cmd/gotrans emits for `error` results and sized unsigned integers
   (errors.go, uints.go; used by GenParse.v):

     error          go_error = option (list bytes).  nil is None.  A non-nil error is observed
                    only through errors.Is against package-level sentinel variables
                    (`var ErrX = errors.New("..")`, never assigned: checked by gotrans):
                    Some ws, ws = the NAMES of the sentinels it wraps.
     fmt.Errorf("..%w..%w..", ErrA, .., ErrB)      go_errorf [ErrA; ErrB]
                    (the %w operands in order; the message text and the operands of the other
                    verbs are not part of the value, their evaluation is kept by the translation)
     errors.Is(e, ErrX)                            go_errors_Is e "ErrX"
     uintN (N = 16, 32, 64)   a Z in [0, 2^N);  x++ / x--  wrap modulo 2^N:
                    go_uint_add N x 1 / go_uint_sub N x 1;  widening conversions and
                    int(x) for N < 64 are the identity.

   The generated file replays samples of the real Go behaviour against these definitions
   (sem_samples_parse in GenParse.v). *)
From FoxBase Require Import Bytes.
From Coq Require Import ZArith.
Open Scope Z_scope.

Definition go_error : Type := option (list bytes).
Definition go_nil_error : go_error := None.
Definition go_errorf (wrapped : list bytes) : go_error := Some wrapped.
Definition go_error_is_nil (e : go_error) : bool :=
  match e with None => true | Some _ => false end.
Definition go_errors_Is (e : go_error) (target : bytes) : bool :=
  match e with None => false | Some ws => existsb (bytes_eqb target) ws end.

Definition go_uint_add (bits x y : Z) : Z := (x + y) mod 2 ^ bits.
Definition go_uint_sub (bits x y : Z) : Z := (x - y) mod 2 ^ bits.
