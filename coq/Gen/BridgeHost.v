(* coq/Gen/BridgeHost.v — internal/netutil: the generated StripHostPort / splitHostPort /
   validOptionalPort / SplitHostPort equal the hand-written models Route/HostPort.v
   (strip_host_port, over a transliteration of net.SplitHostPort) and Route/Iter.v
   (valid_optional_port, split_host_port_rfc). *)
From FoxBase Require Import Bytes.
From FoxGen Require Import GoSem GenFuns BridgeBase.
From FoxRoute Require Import Node HostPort Iter.
From FoxRoute Require HostEquiv.
From Coq Require Import Lia ZArith ZifyBool.
Open Scope char_scope.
Open Scope Z_scope.

(* ------------------------------------------------------------------ package strings vs the models' helpers *)
Lemma last_index_byte_from_eq c : forall s i acc,
  last_index_byte_from (Z.of_nat i) s c (optZ acc) = optZ (last_index s c i acc).
Proof.
  induction s as [|x s IH]; intros i acc; [reflexivity|].
  cbn [last_index_byte_from last_index]. rewrite <- (IH (S i)).
  replace (Z.of_nat i + 1) with (Z.of_nat (S i)) by lia.
  destruct (Ascii.eqb x c); reflexivity.
Qed.

Lemma LastIndexByte_eq s c : strings_LastIndexByte s c = optZ (last_index s c 0 None).
Proof. exact (last_index_byte_from_eq c s 0%nat None). Qed.

Lemma index_byte_from_eq c : forall s i0,
  index_byte_from i0 s c = match index_byte s c with Some n => i0 + Z.of_nat n | None => -1 end.
Proof.
  induction s as [|x s IH]; intros i0; [reflexivity|].
  cbn [index_byte_from index_byte]. destruct (Ascii.eqb x c); [cbn; lia|].
  rewrite IH. destruct (index_byte s c); cbn [option_map]; lia.
Qed.

Lemma IndexByte_eq s c : strings_IndexByte s c = optZ (index_byte s c).
Proof. unfold strings_IndexByte. rewrite index_byte_from_eq. destruct (index_byte s c); cbn; lia. Qed.

Lemma IndexByte_ge0 s c : (strings_IndexByte s c >=? 0) = contains s c.
Proof. rewrite IndexByte_eq. unfold contains. destruct (index_byte s c); cbn [optZ]; lia. Qed.

Lemma Contains_byte c : forall s, strings_Contains s [c] = contains s c.
Proof.
  induction s as [|x s IH]; [reflexivity|].
  cbn [strings_Contains strings_HasPrefix]. rewrite IH, HostEquiv.contains_cons.
  destruct s; now rewrite andb_true_r.
Qed.

Lemma HasPrefix_nil s : strings_HasPrefix s [] = true.
Proof. destruct s; reflexivity. Qed.

Lemma TrimSuffix_dot s : strings_TrimSuffix s (S2B ".") = trim_dot s.
Proof.
  unfold strings_TrimSuffix, strings_HasSuffix. destruct s as [|x q] using rev_ind; [reflexivity|]. clear IHq.
  rewrite rev_app_distr. cbn [rev app S2B strings_HasPrefix]. rewrite HasPrefix_nil, andb_true_r.
  destruct (Ascii.eqb_spec x ".") as [->|Hn].
  - rewrite HostEquiv.trim_dot_app_dot, app_length. cbn [List.length].
    replace (List.length q + 1 - 1)%nat with (List.length q) by lia. apply HostEquiv.firstn_app_exact.
  - rewrite HostEquiv.trim_dot_nodot; [reflexivity|].
    intros r E. apply app_inj_tail in E. destruct E as [_ E]. contradiction.
Qed.

(* ------------------------------------------------------------------ splitHostPort *)
Definition split_view (o : option (bytes * bytes)) : bytes * bool :=
  match o with Some (h, _) => (h, true) | None => ([], false) end.

(* the model's pattern match on a leading '[' as a test *)
Lemma split_host_port_cons x t :
  split_host_port (x :: t) =
  match last_index (x :: t) ":" 0 None with
  | None => None
  | Some i =>
    let hp := x :: t in
    if Ascii.eqb x "[" then
      match index_byte hp "]" with
      | None => None
      | Some e =>
          if Nat.eqb (S e) (List.length hp) then None
          else if Nat.eqb (S e) i then
            let host := firstn (e - 1) (skipn 1 hp) in
            if contains (skipn 1 hp) "[" then None
            else if contains (skipn (S e) hp) "]" then None
            else Some (host, skipn (S i) hp)
          else None
      end
    else
      let host := firstn i hp in
      if contains host ":" then None
      else if contains hp "[" then None
      else if contains hp "]" then None
      else Some (host, skipn (S i) hp)
  end.
Proof.
  unfold split_host_port. destruct (last_index (x :: t) ":" 0 None) as [i|]; [|reflexivity].
  destruct (Ascii.eqb_spec x "[") as [->|Hn]; [reflexivity|].
  destruct x as [[] [] [] [] [] [] [] []]; try reflexivity. exfalso. apply Hn. reflexivity.
Qed.

Lemma go_slice_from_ok {A} (s : list A) (n : nat) :
  (n <= List.length s)%nat -> go_slice_from s (Z.of_nat n) = Ret (skipn n s).
Proof.
  intros H. unfold go_slice_from, len. rewrite Nat2Z.id.
  destruct (Z.leb_spec 0 (Z.of_nat n)); [|lia].
  destruct (Z.leb_spec (Z.of_nat n) (Z.of_nat (List.length s))); [reflexivity|lia].
Qed.

Lemma go_slice_to_ok {A} (s : list A) (n : nat) :
  (n <= List.length s)%nat -> go_slice_to s (Z.of_nat n) = Ret (firstn n s).
Proof.
  intros H. unfold go_slice_to, len. rewrite Nat2Z.id.
  destruct (Z.leb_spec 0 (Z.of_nat n)); [|lia].
  destruct (Z.leb_spec (Z.of_nat n) (Z.of_nat (List.length s))); [reflexivity|lia].
Qed.

Lemma go_slice_ok {A} (s : list A) (a b : nat) :
  (a <= b <= List.length s)%nat -> go_slice s (Z.of_nat a) (Z.of_nat b) = Ret (firstn (b - a) (skipn a s)).
Proof.
  intros H. unfold go_slice, len. rewrite Nat2Z.id.
  replace (Z.to_nat (Z.of_nat b - Z.of_nat a)) with (b - a)%nat by lia.
  destruct (Z.leb_spec 0 (Z.of_nat a)); [|lia].
  destruct (Z.leb_spec (Z.of_nat a) (Z.of_nat b)); [|lia].
  destruct (Z.leb_spec (Z.of_nat b) (Z.of_nat (List.length s))); [reflexivity|lia].
Qed.

Lemma splitHostPort_eq hp : gen_splitHostPort hp = Ret (split_view (split_host_port hp)).
Proof.
  unfold gen_splitHostPort. cbv zeta. rewrite LastIndexByte_eq.
  destruct hp as [|x t].
  { reflexivity. }
  rewrite split_host_port_cons.
  destruct (last_index (x :: t) ":" 0 None) as [i|] eqn:El; [|reflexivity].
  cbn [optZ]. destruct (Z.ltb_spec (Z.of_nat i) 0) as [Hneg|_]; [lia|].
  destruct (HostEquiv.last_index_split _ _ _ El) as (a & p & Hap & Hi & Hp).
  assert (Hil : (i < List.length (x :: t))%nat).
  { rewrite Hap, app_length. cbn [List.length]. lia. }
  cbv zeta. set (hp := x :: t) in *.
  change (go_index hp 0) with (Ret (A:=ascii) x). cbn [bind].
  destruct (Ascii.eqb x "[") eqn:Ex.
  - (* [host]:port *)
    rewrite IndexByte_eq. destruct (index_byte hp "]") as [e|] eqn:Ee; [|reflexivity].
    cbn [optZ]. destruct (Z.ltb_spec (Z.of_nat e) 0) as [Hneg|_]; [lia|].
    destruct (HostEquiv.index_byte_nth_gen _ _ _ Ee) as [Hnth _].
    assert (Hel : (e < List.length hp)%nat) by (apply nth_error_Some; rewrite Hnth; discriminate).
    assert (He1 : (1 <= e)%nat).
    { destruct e; [|lia]. unfold hp in Hnth. cbn in Hnth. injection Hnth as ->. discriminate. }
    destruct (Nat.eqb_spec (S e) (List.length hp)) as [E1|N1].
    + destruct (Z.eqb_spec (Z.of_nat e + 1) (Z.of_nat i)); [lia|reflexivity].
    + destruct (Nat.eqb_spec (S e) i) as [E2|N2].
      * destruct (Z.eqb_spec (Z.of_nat e + 1) (Z.of_nat i)); [|lia]. cbn [negb].
        change 1 with (Z.of_nat 1). rewrite go_slice_ok by lia. cbn [bind].
        rewrite go_slice_from_ok by lia. cbn [bind]. rewrite IndexByte_ge0.
        destruct (contains (skipn 1 hp) "["); [reflexivity|].
        replace (Z.of_nat e + Z.of_nat 1) with (Z.of_nat (S e)) by lia.
        rewrite go_slice_from_ok by lia. cbn [bind]. rewrite IndexByte_ge0.
        destruct (contains (skipn (S e) hp) "]"); reflexivity.
      * destruct (Z.eqb_spec (Z.of_nat e + 1) (Z.of_nat i)); [lia|reflexivity].
  - (* host:port *)
    rewrite go_slice_to_ok by lia. cbn [bind]. rewrite IndexByte_ge0.
    destruct (contains (firstn i hp) ":"); [reflexivity|].
    change 0 with (Z.of_nat 0). rewrite go_slice_from_ok by lia. cbn [bind skipn].
    rewrite !IndexByte_ge0.
    destruct (contains hp "["); [reflexivity|]. cbn [bind].
    destruct (contains hp "]"); reflexivity.
Qed.

(* ------------------------------------------------------------------ StripHostPort *)
Lemma StripHostPort_eq h : gen_StripHostPort h = Ret (strip_host_port h).
Proof.
  unfold gen_StripHostPort, strip_host_port. destruct h as [|x t]; [reflexivity|].
  cbn [bytes_eqb]. change (S2B ":") with [":"]. rewrite Contains_byte, !TrimSuffix_dot.
  destruct (contains (x :: t) ":"); cbn [negb]; [|reflexivity].
  rewrite splitHostPort_eq. destruct (split_host_port (x :: t)) as [[host port]|]; cbn [split_view bind negb].
  - now rewrite TrimSuffix_dot.
  - reflexivity.
Qed.

(* ------------------------------------------------------------------ validOptionalPort (for range over a string: runes) *)
Definition digit (b : ascii) : bool := Nat.leb 48 (nat_of_ascii b) && Nat.leb (nat_of_ascii b) 57.

Lemma digit_bz b : digit b = negb ((bz b <? 48) || (bz b >? 57)).
Proof. unfold digit, bz, nat_of_ascii. lia. Qed.

Lemma decode_ascii c r : bz c < 128 -> decode_rune (c :: r) = (bz c, 1%nat).
Proof. intros H. unfold decode_rune. destruct (Z.ltb_spec (bz c) 128); [reflexivity|lia]. Qed.

Lemma bz_range c : 0 <= bz c < 256.
Proof.
  unfold bz. pose proof (N_ascii_bounded c) as H. lia.
Qed.

Lemma decode_high c r : 128 <= bz c -> 128 <= fst (decode_rune (c :: r)) /\ (1 <= snd (decode_rune (c :: r)))%nat.
Proof.
  intros H. unfold decode_rune, in_rng, rune_error. cbv zeta.
  destruct (bz c =? 224) eqn:?, (bz c =? 237) eqn:?, (bz c =? 240) eqn:?, (bz c =? 244) eqn:?; try lia;
  destruct r as [|c1 [|c2 [|c3 r]]];
    repeat match goal with
    | |- context[if ?b then _ else _] => destruct b eqn:?
    end; cbn [fst snd]; lia.
Qed.

Lemma validOptionalPort_loop : forall fuel s i port,
  (List.length s <= fuel)%nat -> gen_validOptionalPort_loop1 fuel s i port = Ret (forallb digit s).
Proof.
  induction fuel as [|fuel IH]; intros s i port Hf.
  - destruct s; [reflexivity|cbn in Hf; lia].
  - destruct s as [|c r]; [reflexivity|].
    cbn [gen_validOptionalPort_loop1 forallb]. rewrite digit_bz.
    destruct (Z.lt_ge_cases (bz c) 128) as [Hlo|Hhi].
    + rewrite decode_ascii by exact Hlo.
      destruct ((bz c <? 48) || (bz c >? 57)); [reflexivity|]. cbn [negb andb skipn].
      apply IH. cbn in Hf. lia.
    + destruct (decode_high c r Hhi) as [H1 H2].
      destruct (decode_rune (c :: r)) as [rn w]. cbn [fst snd] in *.
      assert (E1 : ((rn <? 48) || (rn >? 57)) = true) by lia.
      assert (E2 : ((bz c <? 48) || (bz c >? 57)) = true) by lia.
      rewrite E1, E2. reflexivity.
Qed.

Lemma validOptionalPort_eq p : gen_validOptionalPort p = Ret (valid_optional_port p).
Proof.
  unfold gen_validOptionalPort, valid_optional_port. destruct p as [|c r]; [reflexivity|].
  cbn [bytes_eqb]. change (go_index (c :: r) 0) with (Ret (A:=ascii) c). cbn [bind].
  destruct (Ascii.eqb c ":"); cbn [negb andb]; [|reflexivity].
  change 1 with (Z.of_nat 1). rewrite go_slice_from_ok by (cbn; lia). cbn [bind skipn].
  apply validOptionalPort_loop. lia.
Qed.

(* ------------------------------------------------------------------ SplitHostPort (RFC 3986 flavour, used by SplitHostPath) *)
Definition strip_brackets (h : bytes) : bytes :=
  match h with
  | "[" :: r => match rev r with "]" :: ri => rev ri | _ => h end
  | _ => h
  end.

Lemma strip_brackets_eq h (port : bytes) :
  (if strings_HasPrefix h (S2B "[") && strings_HasSuffix h (S2B "]")
   then bind (go_slice h 1 (len h - 1)) (fun host => Ret (host, port))
   else Ret (h, port)) = Ret (strip_brackets h, port).
Proof.
  destruct h as [|x t]; [reflexivity|].
  cbn [S2B strings_HasPrefix]. rewrite HasPrefix_nil, andb_true_r. destruct (Ascii.eqb_spec x "[") as [->|Hn].
  - cbn [andb strip_brackets]. unfold strings_HasSuffix.
    destruct t as [|y q] using rev_ind; [reflexivity|]. clear IHq.
    cbn [rev]. rewrite rev_app_distr. cbn [rev app S2B strings_HasPrefix]. rewrite HasPrefix_nil, andb_true_r.
    destruct (Ascii.eqb_spec y "]") as [->|Hy].
    + cbn [andb]. rewrite rev_involutive.
      replace (len ("[" :: q ++ ["]"]) - 1) with (Z.of_nat (S (List.length q)))
        by (rewrite len_cons, len_app, len_cons, len_nil; unfold len; lia).
      change 1 with (Z.of_nat 1). rewrite go_slice_ok by (cbn [List.length]; rewrite app_length; cbn; lia).
      cbn [bind skipn]. replace (S (List.length q) - 1)%nat with (List.length q) by lia.
      now rewrite HostEquiv.firstn_app_exact.
    + cbn [andb]. destruct y as [[] [] [] [] [] [] [] []]; try reflexivity. exfalso. apply Hy. reflexivity.
  - cbn [andb]. destruct x as [[] [] [] [] [] [] [] []]; try reflexivity. exfalso. apply Hn. reflexivity.
Qed.

Lemma SplitHostPort_eq hp : exists port, gen_SplitHostPort hp = Ret (split_host_port_rfc hp, port).
Proof.
  unfold gen_SplitHostPort, split_host_port_rfc. cbv zeta. rewrite LastIndexByte_eq.
  fold (strip_brackets (match last_index hp ":" 0 None with
        | Some i => if valid_optional_port (skipn i hp) then firstn i hp else hp | None => hp end)).
  destruct (last_index hp ":" 0 None) as [i|] eqn:El.
  - destruct (HostEquiv.last_index_split _ _ _ El) as (a & p & Hap & Hi & Hp).
    assert (Hil : (i < List.length hp)%nat) by (rewrite Hap, app_length; cbn [List.length]; lia).
    cbn [optZ]. destruct (Z.eqb_spec (Z.of_nat i) (-1)); [lia|]. cbn [negb].
    rewrite go_slice_from_ok by lia. cbn [bind]. rewrite validOptionalPort_eq. cbn [bind].
    destruct (valid_optional_port (skipn i hp)).
    + rewrite go_slice_to_ok by lia. cbn [bind].
      replace (Z.of_nat i + 1) with (Z.of_nat (S i)) by lia.
      rewrite go_slice_from_ok by lia. cbn [bind].
      eexists. apply strip_brackets_eq.
    + eexists. apply strip_brackets_eq.
  - cbn [optZ]. change (-1 =? -1) with true. cbn [negb bind].
    eexists. apply strip_brackets_eq.
Qed.
