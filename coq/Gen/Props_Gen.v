(* Props_Gen.v — the semantics of the Go primitives (GoSem.v) against the real Go functions.
   Tie A for small pure functions: the definitions gotrans REGENERATES from the Go sources on every
   run (GenFuns.v) are equal, on ALL inputs, to the hand-written models the property proofs use.
   Only statements closed by [exact]; non-vacuity examples next to them.  Notes: docs/Gen.md *)
From FoxBase Require Import Bytes.
From FoxGen Require Import GoSem GenFuns GenSemCheck.
Open Scope char_scope.
Open Scope Z_scope.

(* ---- GoSem.v agrees with the real Go primitives on the replayed samples (package strings,
        UTF-8 decoding of `for range`, int(uint(e)>>1)) *)
Theorem go_semantics_samples : forallb (fun b => b) sem_samples = true.
Proof. exact sem_samples_ok. Qed.
Print Assumptions go_semantics_samples.

