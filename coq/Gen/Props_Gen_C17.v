(* Props_Gen_C17.v — path.go CleanPath / bufApp (C17).
   Tie A: the definitions gotrans REGENERATES from the Go sources on every run (GenPath.v: the real
   buffer with its capacity, the 128-byte stack buffer and both branches of the stackBufSize threshold,
   the four loops) are equal, on ALL inputs of every length, to the hand-written model coq/C17/Model.v
   and hence to the lexical specification coq/C17/Spec.v.  In particular the generated CleanPath never
   panics (no index / slice / make out of range) and never exhausts the fuel of its loop helpers.
   Only statements closed by [exact]; non-vacuity examples next to them.  Notes: docs/Gen.md, docs/C17.md *)
From FoxBase Require Import Bytes.
From FoxGen Require Import GoSem GenPath BridgeC17.
From FoxC17 Require Model Spec ProofsModel.
Open Scope char_scope.
Open Scope Z_scope.

(* the generated CleanPath is the model (Ok o ~ Ret o, Panic ~ Panic, OutOfFuel ~ OutOfFuel) *)
Theorem gen_CleanPath_eq_model : forall p, gen_CleanPath p = emb (Model.cleanpath p).
Proof. exact CleanPath_eq_model. Qed.
Print Assumptions gen_CleanPath_eq_model.

(* ... and returns the canonical path of the specification: no panic, no fuel exhaustion *)
Theorem gen_CleanPath_eq_spec : forall p, gen_CleanPath p = Ret (Spec.clean_spec p).
Proof. exact CleanPath_eq_spec. Qed.
Print Assumptions gen_CleanPath_eq_spec.

Theorem gen_CleanPath_total : forall p, gen_CleanPath p <> Panic /\ gen_CleanPath p <> OutOfFuel.
Proof. exact CleanPath_total. Qed.
Print Assumptions gen_CleanPath_total.

(* the result of the generated CleanPath is at most one byte longer than its argument *)
Theorem gen_CleanPath_length : forall p o,
  gen_CleanPath p = Ret o -> (List.length o <= S (List.length p))%nat.
Proof. exact CleanPath_length. Qed.
Print Assumptions gen_CleanPath_length.

(* the simulation itself does not use the correctness proof of the model: whenever the model's fuel
   suffices, the generated code computes the model's outcome, panics included *)
Theorem gen_CleanPath_simulates_model : forall p,
  Model.cleanpath p <> Model.OutOfFuel -> gen_CleanPath p = emb (Model.cleanpath p).
Proof. exact CleanPath_sim. Qed.
Print Assumptions gen_CleanPath_simulates_model.

(* bufApp on related buffers: the model's [option bytes] abstracts the (array, length, capacity) buffer *)
Theorem gen_bufApp_eq_model : forall mb g s wn c, brel mb g ->
  match Model.bufApp mb s wn c with
  | None => gen_bufApp g s (Z.of_nat wn) c = Panic
  | Some mb' => exists g', gen_bufApp g s (Z.of_nat wn) c = Ret g' /\ brel mb' g' /\
                 (wn < List.length (ProofsModel.view mb s))%nat /\
                 List.length (ProofsModel.view mb' s) = List.length (ProofsModel.view mb s)
  end.
Proof. exact bufApp_sim. Qed.
Print Assumptions gen_bufApp_eq_model.

(* non-vacuity: rooted / not rooted, lazily materialised buffer, backtracking over p and over buf,
   trailing slash; a 130-byte relative path takes the make([]byte, n+1) branch of the threshold *)
Example CleanPath_nonvacuous :
  gen_CleanPath (S2B "abc//./def/../../x/%2F/..") = Ret (S2B "/x") /\
  gen_CleanPath (S2B "/a/b/../c/.") = Ret (S2B "/a/c/") /\
  gen_CleanPath (S2B "/a/b") = Ret (S2B "/a/b") /\
  gen_CleanPath [] = Ret (S2B "/") /\
  gen_CleanPath (S2B "a/" ++ repeat "x" 126 ++ S2B "/..") = Ret (S2B "/a").
Proof. repeat split; vm_compute; reflexivity. Qed.

Example bufApp_nonvacuous :
  (* not materialised, same byte: nothing happens *)
  (exists g, buf_make 0 128 = Ret g /\ gen_bufApp g (S2B "/ab") 1 "a" = Ret g) /\
  (* not materialised, different byte: the stack buffer is resliced to len(s), s[:w] copied, c written *)
  (exists g g', buf_make 0 128 = Ret g /\ gen_bufApp g (S2B "/ab") 1 "x" = Ret g' /\
                buf_len g' = 3 /\ buf_cap g' = 128 /\ buf_string g' = B [47; 120; 0]%N) /\
  (* a string longer than the capacity: a fresh buffer of len(s) bytes *)
  (exists g g', buf_make 0 2 = Ret g /\ gen_bufApp g (S2B "/ab") 1 "x" = Ret g' /\ buf_cap g' = 3) /\
  (* s[w] out of range panics *)
  (exists g, buf_make 0 128 = Ret g /\ gen_bufApp g (S2B "/ab") 3 "x" = Panic).
Proof.
  repeat split; repeat eexists; try (vm_compute; reflexivity).
Qed.
