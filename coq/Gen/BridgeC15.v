(* coq/Gen — scopeToString (recovery.go) and the HandlerScope constants.  Notes: docs/Gen.md *)
From FoxBase Require Import Bytes.
From FoxGen Require Import GoSem GenFuns.
From Coq Require Import Lia ZArith.
Open Scope Z_scope.

Lemma scopeToString_eq s :
  gen_scopeToString s =
    if s =? gen_OptionsHandler then S2B "OptionsHandler"
    else if s =? gen_NoMethodHandler then S2B "NoMethodHandler"
    else if s =? gen_RedirectHandler then S2B "RedirectHandler"
    else if s =? gen_NoRouteHandler then S2B "NoRouteHandler"
    else S2B "UnknownHandler".
Proof. reflexivity. Qed.

Lemma scopes_distinct :
  NoDup [gen_RouteHandler; gen_NoRouteHandler; gen_NoMethodHandler; gen_RedirectHandler; gen_OptionsHandler].
Proof.
  repeat constructor; cbn; unfold gen_RouteHandler, gen_NoRouteHandler, gen_NoMethodHandler,
    gen_RedirectHandler, gen_OptionsHandler; intuition discriminate.
Qed.
