(* coq/Gen/Bridge.v — node.go / tree.go: the hand-written models of the routing core
   (Route/Node.v, Route/Tree.v) are EQUAL, on all inputs, to the definitions gotrans regenerates
   from the Go sources (GenFuns.v).  Statements: Props_Gen_tree.v.  Notes: docs/Gen.md *)
From FoxBase Require Import Bytes.
From FoxGen Require Import GoSem GenFuns BridgeBase.
From FoxRoute Require Import Node Tree.
From Coq Require Import Lia ZArith.
Open Scope Z_scope.

(* ------------------------------------------------------------------ linearSearch *)
Lemma linear_loop : forall suf pre s fuel i,
  i = len pre -> (List.length suf <= fuel)%nat ->
  gen_linearSearch_loop1 fuel (pre ++ suf) s i = Ret (index_byte_from i suf s).
Proof.
  induction suf as [|x suf IH]; intros pre s fuel i Hi Hf.
  - rewrite app_nil_r. destruct fuel; cbn [gen_linearSearch_loop1 index_byte_from];
      (destruct (Z.ltb_spec i (len pre)); [lia|reflexivity]).
  - destruct fuel as [|fuel]; [cbn in Hf; lia|].
    cbn [gen_linearSearch_loop1 index_byte_from].
    destruct (Z.ltb_spec i (len (pre ++ x :: suf))) as [_|H];
      [|rewrite len_app, len_cons in H; pose proof (len_nonneg suf); lia].
    subst i. rewrite go_index_app. cbn [bind].
    destruct (Ascii.eqb x s); [reflexivity|].
    rewrite app_cons_assoc. apply IH; [rewrite len_app, len_cons, len_nil; lia|cbn in Hf; lia].
Qed.

Lemma linearSearch_eq_IndexByte keys s : gen_linearSearch keys s = Ret (strings_IndexByte keys s).
Proof.
  unfold gen_linearSearch, strings_IndexByte.
  apply (linear_loop keys [] s); [reflexivity|]. unfold len. rewrite Z.sub_0_r, Nat2Z.id. lia.
Qed.

(* childKeys of a node whose children all have non-empty keys *)
Lemma find_child_from_index : forall l ks c i,
  map (fun n => hd_byte (nkey n)) l = map Some ks ->
  optZ (find_child_from i c l) = index_byte_from (Z.of_nat i) ks c.
Proof.
  induction l as [|n l IH]; intros [|k ks] c i H; try discriminate; [reflexivity|].
  cbn [map] in H. injection H as Hk Hl.
  cbn [find_child_from index_byte_from]. unfold starts_with, hd_byte in *.
  destruct (nkey n) as [|x r]; [discriminate|]. injection Hk as ->.
  destruct (Ascii.eqb k c); [reflexivity|].
  rewrite (IH ks c (S i) Hl). f_equal. lia.
Qed.

Lemma linearSearch_eq_find_child n ks c :
  child_keys n = map Some ks -> gen_linearSearch ks c = Ret (optZ (find_child n c)).
Proof.
  intros H. rewrite linearSearch_eq_IndexByte. unfold find_child, strings_IndexByte.
  now rewrite (find_child_from_index _ ks c 0%nat H).
Qed.

(* ------------------------------------------------------------------ commonPrefix *)
Lemma common_prefix_loop : forall a b p1 p2 fuel i,
  i = len p1 -> len p2 = len p1 -> (Nat.min (List.length a) (List.length b) <= fuel)%nat ->
  gen_commonPrefix_loop1 fuel (p1 ++ a) (p2 ++ b) (Z.min (len (p1 ++ a)) (len (p2 ++ b))) i
  = Ret (p1 ++ common_prefix a b).
Proof.
  induction a as [|x a IH]; intros b p1 p2 fuel i Hi Hp Hf.
  - assert (Hm : Z.min (len (p1 ++ [])) (len (p2 ++ b)) = len p1).
    { rewrite !len_app, len_nil. pose proof (len_nonneg b). lia. }
    rewrite Hm. destruct fuel; cbn [gen_commonPrefix_loop1 common_prefix];
      (destruct (Z.ltb_spec i (len p1)); [lia|]); rewrite go_slice_to_app, app_nil_r; reflexivity.
  - destruct b as [|y b].
    + assert (Hm : Z.min (len (p1 ++ x :: a)) (len (p2 ++ [])) = len p1).
      { rewrite !len_app, len_nil, len_cons. pose proof (len_nonneg a). lia. }
      rewrite Hm. destruct fuel; cbn [gen_commonPrefix_loop1 common_prefix];
        (destruct (Z.ltb_spec i (len p1)); [lia|]); rewrite go_slice_to_app, app_nil_r; reflexivity.
    + destruct fuel as [|fuel]; [cbn in Hf; lia|].
      cbn [gen_commonPrefix_loop1 common_prefix].
      destruct (Z.ltb_spec i (Z.min (len (p1 ++ x :: a)) (len (p2 ++ y :: b)))) as [_|H];
        [|rewrite !len_app, !len_cons in H; pose proof (len_nonneg a); pose proof (len_nonneg b); lia].
      subst i. rewrite go_index_app. rewrite <- Hp, go_index_app. cbn [bind].
      destruct (Ascii.eqb x y) eqn:E; cbn [negb].
      * rewrite Hp. rewrite (app_cons_assoc p1 x a), (app_cons_assoc p2 y b).
        rewrite (IH b (p1 ++ [x]) (p2 ++ [y]) fuel).
        -- now rewrite <- app_assoc.
        -- rewrite len_app, len_cons, len_nil. lia.
        -- rewrite !len_app, !len_cons, !len_nil. lia.
        -- cbn in Hf. lia.
      * rewrite Hp. rewrite go_slice_to_app, app_nil_r. reflexivity.
Qed.

Lemma commonPrefix_eq a b : gen_commonPrefix a b = Ret (common_prefix a b).
Proof.
  unfold gen_commonPrefix.
  apply (common_prefix_loop a b [] [] _ 0); [reflexivity|reflexivity|].
  unfold len. lia.
Qed.

(* ------------------------------------------------------------------ isRemovable *)
Lemma bytes_eqb_sym a b : bytes_eqb a b = bytes_eqb b a.
Proof.
  destruct (bytes_eqb_spec a b) as [->|H]; [now rewrite bytes_eqb_refl|].
  destruct (bytes_eqb_spec b a) as [->|_]; [contradiction|reflexivity].
Qed.

Lemma isRemovable_loop : forall l i m, gen_isRemovable_loop1 l i m = Ret (negb (existsb (bytes_eqb m) l)).
Proof.
  induction l as [|v l IH]; intros i m; [reflexivity|].
  cbn [gen_isRemovable_loop1 existsb]. rewrite (bytes_eqb_sym v m).
  destruct (bytes_eqb m v); [reflexivity|]. apply IH.
Qed.

Lemma commonVerbs_eq : gen_commonVerbs = common_verbs.
Proof. reflexivity. Qed.

Lemma isRemovable_eq m : gen_isRemovable m = Ret (is_removable m).
Proof. unfold gen_isRemovable, is_removable. rewrite isRemovable_loop, commonVerbs_eq. reflexivity. Qed.

(* ------------------------------------------------------------------ roots.methodIndex *)
Definition root_keys (r : roots) : list (option bytes) := map (fun n => Some (nkey n)) r.

Lemma methodIndex_loop : forall l i r0 m n,
  i + gen_verb = Z.of_nat n ->
  gen_methodIndex_loop1 (root_keys l) i r0 m = Ret (optZ (find_key_from n m l)).
Proof.
  induction l as [|x l IH]; intros i r0 m n Hn; [reflexivity|].
  cbn [root_keys map gen_methodIndex_loop1 find_key_from go_deref bind].
  destruct (bytes_eqb (nkey x) m).
  - cbn [optZ]. f_equal. unfold gen_verb in Hn. lia.
  - apply (IH (i + 1) r0 m (S n)). lia.
Qed.

Lemma methodIndex_eq r m :
  (4 <= List.length r)%nat -> gen_methodIndex (root_keys r) m = Ret (optZ (method_index r m)).
Proof.
  intros Hr. unfold gen_methodIndex, method_index, m_get, m_post, m_put, m_delete.
  destruct (bytes_eqb m (S2B "GET")); [reflexivity|].
  destruct (bytes_eqb m (S2B "POST")); [reflexivity|].
  destruct (bytes_eqb m (S2B "PUT")); [reflexivity|].
  destruct (bytes_eqb m (S2B "DELETE")); [reflexivity|].
  unfold go_slice_from.
  assert (Hl : (0 <=? 4) && (4 <=? len (root_keys r)) = true).
  { unfold len, root_keys. rewrite map_length. apply andb_true_intro. split; apply Z.leb_le; lia. }
  rewrite Hl. cbn [bind]. change (Z.to_nat 4) with 4%nat. unfold root_keys. rewrite skipn_map.
  apply (methodIndex_loop (skipn 4 r) 0 _ m 4%nat). reflexivity.
Qed.

(* fewer than the four pre-instantiated roots: r[verb:] panics (never the case in fox: newRoots / truncate) *)
Lemma methodIndex_short r m :
  (List.length r < 4)%nat -> is_removable m = true -> gen_methodIndex (root_keys r) m = Panic.
Proof.
  intros Hr Hm. unfold is_removable, common_verbs, m_get, m_post, m_put, m_delete in Hm. cbn [existsb] in Hm.
  unfold gen_methodIndex.
  destruct (bytes_eqb m (S2B "GET")); [discriminate|].
  destruct (bytes_eqb m (S2B "POST")); [discriminate|].
  destruct (bytes_eqb m (S2B "PUT")); [discriminate|].
  destruct (bytes_eqb m (S2B "DELETE")); [discriminate|].
  unfold go_slice_from.
  assert (Hl : (0 <=? 4) && (4 <=? len (root_keys r)) = false).
  { unfold len, root_keys. rewrite map_length. apply andb_false_intro2. apply Z.leb_gt. lia. }
  now rewrite Hl.
Qed.

(* ------------------------------------------------------------------ searchResult.classify / isExactMatch *)
(* The four-way case split Tree.ins / Tree.upd / Tree.rem perform on
   lcp = |common_prefix rest (nkey c)| :  lcp =? |nkey c|  then  lcp =? |rest|. *)
Definition tree_case (cmn_is_key cm_is_path : bool) : Z :=
  if cmn_is_key then (if cm_is_path then gen_exactMatch else gen_incompleteMatchToEndOfEdge)
  else (if cm_is_path then gen_keyEndMidEdge else gen_incompleteMatchToMiddleOfEdge).

Lemma classify_eq cm path cmn key :
  cm <= len path -> cmn <= len key ->
  gen_classify cm path cmn false key false = Ret (tree_case (cmn =? len key) (cm =? len path)).
Proof.
  intros H1 H2. unfold gen_classify, tree_case, gen_exactMatch, gen_incompleteMatchToEndOfEdge,
    gen_keyEndMidEdge, gen_incompleteMatchToMiddleOfEdge. cbn [bind].
  destruct (Z.eqb_spec cm (len path)); destruct (Z.eqb_spec cmn (len key)); cbn [bind orb]; try reflexivity.
  - destruct (Z.ltb_spec cmn (len key)); [reflexivity|lia].
  - destruct (Z.ltb_spec cm (len path)); [|lia]. reflexivity.
  - destruct (Z.ltb_spec cm (len path)); [|lia]. cbn [bind].
    destruct (Z.ltb_spec cmn (len key)); [reflexivity|lia].
Qed.

Lemma common_prefix_len : forall a b,
  len (common_prefix a b) <= len a /\ len (common_prefix a b) <= len b.
Proof.
  induction a as [|x a IH]; intros b.
  - cbn [common_prefix]. rewrite !len_nil. pose proof (len_nonneg b). lia.
  - pose proof (len_nonneg a). destruct b as [|y b]; cbn [common_prefix].
    + rewrite !len_nil, len_cons. lia.
    + pose proof (len_nonneg b). destruct (Ascii.eqb x y); rewrite ?len_nil, !len_cons; [destruct (IH b)|]; lia.
Qed.

Lemma classify_on_common_prefix rest key :
  let lcp := len (common_prefix rest key) in
  gen_classify lcp rest lcp false key false = Ret (tree_case (lcp =? len key) (lcp =? len rest)).
Proof. intro lcp. destruct (common_prefix_len rest key). apply classify_eq; assumption. Qed.

(* the matched node is a root (no parent): the verb key is not a path segment *)
Lemma classify_root cm path cmn key :
  cm < len path -> gen_classify cm path cmn false key true = Ret gen_incompleteMatchToEndOfEdge.
Proof.
  intros H. unfold gen_classify. cbn [bind].
  destruct (Z.eqb_spec cm (len path)); [lia|]. destruct (Z.ltb_spec cm (len path)); [|lia].
  cbn [bind]. now rewrite orb_true_r.
Qed.

Lemma classify_panics cm path cmn key pnil :
  gen_classify cm path cmn true key pnil = Panic \/ exists v, gen_classify cm path cmn true key pnil = Ret v.
Proof. left. unfold gen_classify. destruct (cm =? len path); [reflexivity|]. now destruct (cm <? len path). Qed.

Lemma isExactMatch_eq cm path cmn key :
  gen_isExactMatch cm path cmn false key = Ret ((cm =? len path) && (cmn =? len key)).
Proof. unfold gen_isExactMatch. now destruct (cm =? len path). Qed.

Lemma isExactMatch_classify cm path cmn key :
  cm <= len path -> cmn <= len key ->
  gen_isExactMatch cm path cmn false key = Ret true <-> gen_classify cm path cmn false key false = Ret gen_exactMatch.
Proof.
  intros H1 H2. rewrite isExactMatch_eq, classify_eq by assumption. unfold tree_case.
  destruct (cm =? len path), (cmn =? len key); cbn; split; intro H; try reflexivity; try discriminate.
Qed.

(* ------------------------------------------------------------------ compare *)
(* ------------------------------------------------------------------ compare, level, scopes, guards *)
Lemma bz_inj a b : bz a = bz b -> a = b.
Proof.
  unfold bz. intros H. apply N2Z.inj in H.
  rewrite <- (ascii_N_embedding a), <- (ascii_N_embedding b). now rewrite H.
Qed.

Lemma compare_spec a b :
  (gen_compare a b = 0 /\ a = b) \/ (gen_compare a b = -1 /\ bz a < bz b) \/ (gen_compare a b = 1 /\ bz b < bz a).
Proof.
  unfold gen_compare. destruct (Ascii.eqb_spec a b) as [->|Hn]; [left; split; reflexivity|].
  unfold byte_ltb. destruct (Z.ltb_spec (bz a) (bz b)); [right; left; split; [reflexivity|assumption]|].
  right; right. split; [reflexivity|].
  assert (bz a <> bz b) by (intro E; apply Hn, bz_inj, E). lia.
Qed.
