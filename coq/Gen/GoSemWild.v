(* coq/Gen/GoSemWild.v — HAND-WRITTEN, trusted.  Primitives emitted by harness/cmd/gotrans/fold.go
   (GenWild.v uses nothing else besides GoSem.v):

     strings.EqualFold(s, t)    strings_EqualFold s t : outcome bool

   Go's EqualFold compares the two strings rune by rune (UTF-8 decoding as for `for range`:
   an invalid byte decodes to U+FFFD with width 1) under Unicode SIMPLE CASE FOLDING; it is
   NOT an ASCII-only comparison.  What is modelled, exactly:

     * two equal runes are equivalent;
     * a rune below 0x80 is equivalent to another rune iff they have the same image under
       [rune_lower]: 'A'..'Z' -> 'a'..'z', U+212A KELVIN SIGN -> 'k', U+017F LATIN SMALL LETTER
       LONG S -> 's', every other rune to itself.  (The simple-fold orbits of the ASCII runes are
       {x} for a non-letter, {X, x} for a letter, {K, k, U+212A}, {S, s, U+017F}; gotrans checks
       this against unicode.SimpleFold for EVERY rune on every run, fold.go: foldFacts.)
     * two DIFFERENT runes that are both >= 0x80 would need the Unicode tables: not modelled.
       The primitive then yields [Unmodelled] (= the third outcome, "never a Go behaviour"), so a
       bridge theorem [gen_f x = Ret ..] has to prove that this case is not reached — which is
       so whenever one of the operands is an ASCII-only string.

   The prologue of GenWild.v (generated) replays samples of the real strings.EqualFold
   against this definition on every run. *)
From FoxBase Require Import Bytes.
From FoxGen Require Import GoSem.
Open Scope Z_scope.

Definition Unmodelled {A} : outcome A := OutOfFuel.

Definition rune_lower (r : Z) : Z :=
  if (65 <=? r) && (r <=? 90) then r + 32
  else if r =? 8490 then 107          (* U+212A KELVIN SIGN -> k *)
  else if r =? 383 then 115           (* U+017F LONG S -> s *)
  else r.

(* Some b: decided; None: both runes >= 0x80 and different *)
Definition rune_fold_eq (a b : Z) : option bool :=
  if a =? b then Some true
  else if (a <? 128) || (b <? 128) then Some (rune_lower a =? rune_lower b)
  else None.

(* fuel: one unit per rune of s *)
Fixpoint equal_fold_loop (fuel : nat) (s t : bytes) : outcome bool :=
  match s, t with
  | [], [] => Ret true
  | [], _ :: _ => Ret false
  | _ :: _, [] => Ret false
  | _ :: _, _ :: _ =>
    match fuel with
    | O => OutOfFuel
    | S fuel' =>
      let '(sr, sw) := decode_rune s in
      let '(tr, tw) := decode_rune t in
      match rune_fold_eq sr tr with
      | Some true => equal_fold_loop fuel' (skipn sw s) (skipn tw t)
      | Some false => Ret false
      | None => Unmodelled
      end
    end
  end.

Definition strings_EqualFold (s t : bytes) : outcome bool :=
  equal_fold_loop (List.length s) s t.
