(* coq/Gen/BridgeSearch.v — binarySearch (node.go) finds the same child as linearSearch on
   strictly ascending child keys: the justification for modelling getEdge / updateEdge by the
   linear search only (Node.find_child), although fox switches to binary search above 50
   children (children are kept sorted by key; first bytes of sibling keys are distinct). *)
From FoxBase Require Import Bytes.
From FoxGen Require Import GoSem GenFuns BridgeBase Bridge.
From Coq Require Import Lia ZArith Sorted.
Open Scope Z_scope.

Definition d0 : ascii := ascii_of_N 0.
Definition byte_lt (a b : ascii) : Prop := bz a < bz b.
Definition sorted_keys (ks : bytes) : Prop :=
  forall i j : nat, (i < j < List.length ks)%nat -> bz (nth i ks d0) < bz (nth j ks d0).
Definition max_int : Z := 9223372036854775807.

Lemma strongly_sorted_keys ks : StronglySorted byte_lt ks -> sorted_keys ks.
Proof.
  induction 1 as [|x l Hs IH Hf]; intros i j Hij.
  - cbn in Hij. lia.
  - destruct j as [|j]; [lia|]. destruct i as [|i]; cbn [nth].
    + rewrite Forall_forall in Hf. apply Hf, nth_In. cbn in Hij. lia.
    + apply IH. cbn in Hij. lia.
Qed.

Lemma shr1 e : 0 <= e < 18446744073709551616 -> go_uint_shr e 1 = e / 2.
Proof. intros H. unfold go_uint_shr. rewrite Z.mod_small by assumption. rewrite Z.shiftr_div_pow2 by lia. reflexivity. Qed.

Lemma index_none : forall ks c i0,
  (forall i, (i < List.length ks)%nat -> nth i ks d0 <> c) -> index_byte_from i0 ks c = -1.
Proof.
  induction ks as [|x ks IH]; intros c i0 H; [reflexivity|].
  cbn [index_byte_from]. destruct (Ascii.eqb_spec x c) as [E|_].
  - exfalso. apply (H 0%nat); [cbn; lia|exact E].
  - apply IH. intros i Hi. apply (H (S i)). cbn. lia.
Qed.

Lemma index_first : forall ks c i0 r,
  (r < List.length ks)%nat -> nth r ks d0 = c -> (forall j, (j < r)%nat -> nth j ks d0 <> c) ->
  index_byte_from i0 ks c = i0 + Z.of_nat r.
Proof.
  induction ks as [|x ks IH]; intros c i0 r Hr Hc Hlt; [cbn in Hr; lia|].
  cbn [index_byte_from]. destruct r as [|r].
  - cbn [nth] in Hc. subst x. rewrite Ascii.eqb_refl. lia.
  - destruct (Ascii.eqb_spec x c) as [E|_].
    + exfalso. apply (Hlt 0%nat); [lia|exact E].
    + rewrite (IH c (i0 + 1) r); [lia|cbn in Hr; lia|exact Hc|].
      intros j Hj. apply (Hlt (S j)). lia.
Qed.

Section Bin.
  Variable ks : bytes.
  Variable c : ascii.
  Hypothesis Hmax : len ks <= max_int.
  Hypothesis Hs : sorted_keys ks.

  Definition bin_post (r : Z) : Prop :=
    (0 <= r < len ks /\ nth (Z.to_nat r) ks d0 = c) \/
    (r < 0 /\ forall i, (i < List.length ks)%nat -> nth i ks d0 <> c).

  Lemma bin_finish low high :
    0 <= low -> high < low ->
    (forall i : nat, Z.of_nat i < low -> bz (nth i ks d0) < bz c) ->
    (forall i : nat, high < Z.of_nat i -> (i < List.length ks)%nat -> bz c < bz (nth i ks d0)) ->
    bin_post (- (low + 1)).
  Proof.
    intros H0 Hlh Hlo Hhi. right. split; [lia|].
    intros i Hi E. destruct (Z.lt_ge_cases (Z.of_nat i) low) as [L|L].
    - specialize (Hlo i L). rewrite E in Hlo. lia.
    - assert (Hh : high < Z.of_nat i) by lia. specialize (Hhi i Hh Hi). rewrite E in Hhi. lia.
  Qed.

  Lemma bin_loop : forall fuel low high,
    0 <= low -> high < len ks -> low <= high + 1 -> high - low + 1 <= Z.of_nat fuel ->
    (forall i : nat, Z.of_nat i < low -> bz (nth i ks d0) < bz c) ->
    (forall i : nat, high < Z.of_nat i -> (i < List.length ks)%nat -> bz c < bz (nth i ks d0)) ->
    exists r, gen_binarySearch_loop1 fuel ks c low high = Ret r /\ bin_post r.
  Proof.
    induction fuel as [|fuel IH]; intros low high H0 Hh Hlh Hf Hlo Hhi.
    - cbn [gen_binarySearch_loop1]. destruct (Z.leb_spec low high) as [L|L]; [lia|].
      eexists; split; [reflexivity|]. apply (bin_finish low high); assumption || lia.
    - cbn [gen_binarySearch_loop1]. destruct (Z.leb_spec low high) as [L|L];
        [|eexists; split; [reflexivity|]; apply (bin_finish low high); assumption || lia].
      cbv zeta. unfold max_int in Hmax. rewrite shr1 by lia.
      set (mid := (low + high) / 2).
      assert (Hm : low <= mid <= high).
      { unfold mid. split; [apply Z.div_le_lower_bound|apply Z.div_le_upper_bound]; lia. }
      assert (Hml : (Z.to_nat mid < List.length ks)%nat) by (unfold len in Hh; lia).
      rewrite (go_index_nth ks mid d0) by lia. cbn [bind].
      destruct (compare_spec (nth (Z.to_nat mid) ks d0) c) as [[-> E]|[[-> E]|[-> E]]].
      + change (0 <? 0) with false. change (0 >? 0) with false. cbv iota.
        eexists; split; [reflexivity|]. left. split; [lia|exact E].
      + change (-1 <? 0) with true. cbv iota.
        apply IH; try lia.
        * intros i Hi. destruct (Z.eq_dec (Z.of_nat i) mid) as [Ei|Ni].
          -- rewrite <- Ei, Nat2Z.id in E. exact E.
          -- assert (Hij : (i < Z.to_nat mid < List.length ks)%nat) by lia.
             specialize (Hs i (Z.to_nat mid) Hij). lia.
        * intros i Hi Hil. apply Hhi; [lia|exact Hil].
      + change (1 <? 0) with false. change (1 >? 0) with true. cbv iota.
        apply IH; try lia.
        * exact Hlo.
        * intros i Hi Hil. destruct (Z.eq_dec (Z.of_nat i) mid) as [Ei|Ni].
          -- rewrite <- Ei, Nat2Z.id in E. exact E.
          -- assert (Hij : (Z.to_nat mid < i < List.length ks)%nat) by lia.
             specialize (Hs (Z.to_nat mid) i Hij). lia.
  Qed.

  (* getEdge: `id < 0 => nil`, else children[id] *)
  Lemma binarySearch_eq_linear_sec :
    exists r, gen_binarySearch ks c = Ret r /\ (if r <? 0 then -1 else r) = strings_IndexByte ks c.
  Proof.
    unfold gen_binarySearch. cbv zeta.
    pose proof (len_nonneg ks) as Hl0.
    assert (Hl : len ks = Z.of_nat (List.length ks)) by reflexivity.
    destruct (bin_loop (S (List.length ks)) 0 (len ks - 1)) as (r & Hr & Hp);
      [lia|lia|lia|lia|intros i Hi; lia|intros i Hi Hil; lia|].
    exists r. split; [exact Hr|]. unfold strings_IndexByte. destruct Hp as [[Hr0 Hc]|[Hr0 Hn]].
    - destruct (Z.ltb_spec r 0); [lia|].
        rewrite (index_first ks c 0 (Z.to_nat r)); [lia|unfold len in Hr0; lia|exact Hc|].
        intros j Hj E.
        assert (Hij : (j < Z.to_nat r < List.length ks)%nat) by (unfold len in Hr0; lia).
        specialize (Hs j (Z.to_nat r) Hij). rewrite E, Hc in Hs. lia.
    - destruct (Z.ltb_spec r 0); [|lia]. symmetry. apply index_none, Hn.
  Qed.
End Bin.

Lemma binarySearch_eq_linear ks c :
  len ks <= max_int -> StronglySorted byte_lt ks ->
  exists r, gen_binarySearch ks c = Ret r /\
            gen_linearSearch ks c = Ret (if r <? 0 then -1 else r).
Proof.
  intros Hm Hs. destruct (binarySearch_eq_linear_sec ks c Hm (strongly_sorted_keys ks Hs)) as (r & Hr & E).
  exists r. split; [exact Hr|]. rewrite linearSearch_eq_IndexByte. now rewrite E.
Qed.
