(* coq/Gen/GoSemEsc.v — HAND-WRITTEN, trusted like GoSem.v.  Meaning of the primitives that
   harness/cmd/gotrans emits for `append` on a local []byte buffer and strconv.AppendInt
   (append.go; used by GenEsc.v):

     x = append(x, s...)   (s a string expression)     buf_append x s
     x = append(x, c)      (c a byte)                  buf_append_byte x c
     x = strconv.AppendInt(x, v, 16)  (v : int64)      go_append_int16 x v
                    (lower-case hexadecimal digits, no padding, "-" for a negative value)
     int64(c) / int(c)     (c a byte)                  bz c   (GoSem.v; value preserving)

   append within the capacity writes into the backing array behind len (the bytes between the
   new len and cap stay); beyond the capacity Go allocates a NEW array whose capacity is chosen
   by the runtime (growslice: size classes, not specified by the language).  The model gives the
   new array exactly the needed capacity.  The capacity after a growth is therefore NOT faithful,
   and the translator refuses every operation that could observe it on a variable that is
   appended to (cap(x), x[:k], &x, an out parameter): such a variable is only observed through
   string(x), len(x), x[i] (and further appends), which depend on the first len bytes only:
   BridgeEsc.v proves buf_string (buf_append b x) = buf_string b ++ x for every well-formed b
   (Props_Gen_esc.v: buf_append_cap_irrelevant).

   GenEsc.v (generated) starts with samples of the real append / strconv.AppendInt replayed
   against these definitions (sem_samples_esc: all 256 byte values through AppendInt(.., 16)). *)
From FoxBase Require Import Bytes.
From FoxGen Require Import GoSem.
From Coq Require Import ZArith.
Open Scope Z_scope.

Definition buf_append (b : gobuf) (x : bytes) : gobuf :=
  let n := Z.to_nat (b_len b) in
  if b_len b + len x <=? buf_cap b
  then {| b_arr := firstn n (b_arr b) ++ x ++ skipn (n + List.length x) (b_arr b); b_len := b_len b + len x |}
  else {| b_arr := firstn n (b_arr b) ++ x; b_len := b_len b + len x |}.

Definition buf_append_byte (b : gobuf) (c : ascii) : gobuf := buf_append b [c].

(* strconv.FormatInt(v, 16) for an int64 v: at most 16 digits *)
Definition hex_digit (d : Z) : ascii :=
  ascii_of_N (Z.to_N (if d <? 10 then 48 + d else 87 + d)).

Fixpoint hex_digits (fuel : nat) (v : Z) (acc : bytes) : bytes :=
  match fuel with
  | O => acc
  | S fuel' =>
    let acc' := hex_digit (v mod 16) :: acc in
    if v / 16 =? 0 then acc' else hex_digits fuel' (v / 16) acc'
  end.

Definition format_int16 (v : Z) : bytes :=
  if v <? 0 then "-"%char :: hex_digits 16 (- v) [] else hex_digits 16 v [].

Definition go_append_int16 (b : gobuf) (v : Z) : gobuf := buf_append b (format_int16 v).
