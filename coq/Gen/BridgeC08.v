(* coq/Gen — FixTrailingSlash (path.go) = Dispatch/Redirect.v; the status guard of Context.Redirect.  Notes: docs/Gen.md *)
From FoxBase Require Import Bytes.
From FoxGen Require Import GoSem GenFuns BridgeBase.
From FoxDispatch Require Redirect.
From Coq Require Import Lia ZArith.
Open Scope Z_scope.

(* ------------------------------------------------------------------ FixTrailingSlash *)
Lemma FixTrailingSlash_eq p : gen_FixTrailingSlash p = Ret (Redirect.fix_trailing_slash p).
Proof.
  unfold gen_FixTrailingSlash, Redirect.fix_trailing_slash, Redirect.last_is_slash.
  destruct p as [|c0 p0] using rev_ind; [reflexivity|]. clear IHp0.
  rewrite rev_app_distr. cbn [rev app]. rewrite len_app, len_cons, len_nil, app_length. cbn [List.length].
  replace (len p0 + (0 + 1) - 1) with (len p0) by lia.
  rewrite removelast_last.
  destruct p0 as [|c1 p1].
  - reflexivity.
  - assert (H1 : (len (c1 :: p1) + (0 + 1) >? 1) = true).
    { rewrite len_cons. pose proof (len_nonneg p1). apply Z.gtb_lt. lia. }
    rewrite H1. rewrite go_index_app. cbn [bind].
    assert (H2 : (1 <? List.length (c1 :: p1) + 1)%nat = true) by (apply Nat.ltb_lt; cbn; lia).
    rewrite H2. cbn [andb].
    destruct (Ascii.eqb c0 "/"); [|reflexivity].
    apply go_slice_to_app.
Qed.


Lemma redirectGuard_spec code : gen_redirectGuard code = false <-> 300 <= code <= 308.
Proof.
  unfold gen_redirectGuard. destruct (Z.ltb_spec code 300), (Z.gtb_spec code 308); cbn; split; intro; try lia; try discriminate; reflexivity.
Qed.
