(* Props_Gen_C14.v — the informational-status guard of recorder.WriteHeader (C14/Model.v rec_write_header).
   Tie A for small pure functions: the definitions gotrans REGENERATES from the Go sources on every
   run (GenFuns.v) are equal, on ALL inputs, to the hand-written models the property proofs use.
   Only statements closed by [exact]; non-vacuity examples next to them.  Notes: docs/Gen.md *)
From FoxBase Require Import Bytes.
From FoxGen Require Import GoSem GenFuns BridgeC14.
Open Scope char_scope.
Open Scope Z_scope.

(* recorder.WriteHeader forwards without recording exactly the informational codes other than 101 *)
Theorem gen_informationalGuard_spec : forall code,
  gen_informationalGuard code = true <-> (100 <= code <= 199 /\ code <> 101).
Proof. exact informationalGuard_spec. Qed.
Print Assumptions gen_informationalGuard_spec.

Example informationalGuard_nonvacuous :
  map gen_informationalGuard [99; 100; 101; 103; 199; 200] = [false; true; false; true; true; false].
Proof. reflexivity. Qed.
