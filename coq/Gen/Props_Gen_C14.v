(* Props_Gen_C14.v — the informational-status guard of recorder.WriteHeader (C14/Model.v rec_write_header).
   Tie A for small pure functions: the definitions gotrans REGENERATES from the Go sources on every
   run (GenFuns.v) are equal, on ALL inputs, to the hand-written models the property proofs use.
   Only statements closed by [exact]; non-vacuity examples next to them.  Notes: docs/Gen.md *)
From FoxBase Require Import Bytes.
From FoxGen Require Import GoSem GenFuns BridgeC14.
Open Scope char_scope.
Open Scope Z_scope.

(* recorder.WriteHeader forwards without recording exactly the informational codes other than 101 *)
Theorem gen_informationalGuard_spec : forall code,
  gen_informationalGuard code = true <-> (100 <= code <= 199 /\ code <> 101).
Proof. exact informationalGuard_spec. Qed.
Print Assumptions gen_informationalGuard_spec.

Example informationalGuard_nonvacuous :
  map gen_informationalGuard [99; 100; 101; 103; 199; 200] = [false; true; false; true; true; false].
Proof. reflexivity. Qed.

(* Context.Redirect refuses (guard true) exactly the codes outside 300..308, and the regenerated guard is
   literally the test of C14/Model.v ctx_redirect: any edit of the guard in context.go (an extra accepted
   code such as 201, a moved bound) changes GenFuns.v and re-opens these two obligations *)
Theorem gen_redirectGuard_is_model_C14 : forall code, gen_redirectGuard code = (code <? 300) || (308 <? code).
Proof. exact redirectGuard_model_C14. Qed.
Print Assumptions gen_redirectGuard_is_model_C14.

Theorem gen_redirectGuard_accepts_300_308 : forall code, gen_redirectGuard code = false <-> 300 <= code <= 308.
Proof. exact redirectGuard_spec_C14. Qed.
Print Assumptions gen_redirectGuard_accepts_300_308.

Example redirectGuard_C14_nonvacuous :
  map gen_redirectGuard [200; 201; 299; 300; 304; 308; 309] = [true; true; true; false; false; false; true].
Proof. reflexivity. Qed.
