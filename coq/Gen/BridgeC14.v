(* coq/Gen — the informational-status guard of recorder.WriteHeader.  Notes: docs/Gen.md *)
From FoxBase Require Import Bytes.
From FoxGen Require Import GoSem GenFuns.
From Coq Require Import Lia ZArith.
Open Scope Z_scope.

Lemma informationalGuard_spec code : gen_informationalGuard code = true <-> (100 <= code <= 199 /\ code <> 101).
Proof.
  unfold gen_informationalGuard.
  destruct (Z.geb_spec code 100), (Z.leb_spec code 199), (Z.eqb_spec code 101); cbn; split; intro; try lia; try discriminate; reflexivity.
Qed.
