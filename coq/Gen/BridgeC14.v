(* coq/Gen — the informational-status guard of recorder.WriteHeader.  Notes: docs/Gen.md *)
From FoxBase Require Import Bytes.
From FoxGen Require Import GoSem GenFuns.
From Coq Require Import Lia ZArith.
Open Scope Z_scope.

Lemma informationalGuard_spec code : gen_informationalGuard code = true <-> (100 <= code <= 199 /\ code <> 101).
Proof.
  unfold gen_informationalGuard.
  destruct (Z.geb_spec code 100), (Z.leb_spec code 199), (Z.eqb_spec code 101); cbn; split; intro; try lia; try discriminate; reflexivity.
Qed.

(* the status guard of Context.Redirect (context.go, `if code < 300 || code > 308 { return ErrInvalidRedirectCode }`):
   the regenerated condition is, on every code, the test C14/Model.v ctx_redirect makes, and it refuses
   exactly the codes outside 300..308 (C14/Spec.v redirect_code_ok) *)
Lemma redirectGuard_model_C14 code : gen_redirectGuard code = (code <? 300) || (308 <? code).
Proof. unfold gen_redirectGuard. rewrite Z.gtb_ltb. reflexivity. Qed.

Lemma redirectGuard_spec_C14 code : gen_redirectGuard code = false <-> 300 <= code <= 308.
Proof.
  rewrite redirectGuard_model_C14.
  destruct (Z.ltb_spec code 300), (Z.ltb_spec 308 code); cbn; split; intro; try lia; try discriminate; reflexivity.
Qed.
