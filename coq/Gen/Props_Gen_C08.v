(* Props_Gen_C08.v — path.go FixTrailingSlash (Dispatch/Redirect.v) and the status guard of Context.Redirect.
   Tie A for small pure functions: the definitions gotrans REGENERATES from the Go sources on every
   run (GenFuns.v) are equal, on ALL inputs, to the hand-written models the property proofs use.
   Only statements closed by [exact]; non-vacuity examples next to them.  Notes: docs/Gen.md *)
From FoxBase Require Import Bytes.
From FoxGen Require Import GoSem GenFuns BridgeC08.
From FoxDispatch Require Redirect.
Open Scope char_scope.
Open Scope Z_scope.

Theorem gen_FixTrailingSlash_eq : forall p, gen_FixTrailingSlash p = Ret (Redirect.fix_trailing_slash p).
Proof. exact FixTrailingSlash_eq. Qed.
Print Assumptions gen_FixTrailingSlash_eq.

Example FixTrailingSlash_nonvacuous :
  gen_FixTrailingSlash (S2B "/a/") = Ret (S2B "/a") /\ gen_FixTrailingSlash (S2B "/a") = Ret (S2B "/a/") /\
  gen_FixTrailingSlash (S2B "/") = Ret (S2B "//") /\ gen_FixTrailingSlash [] = Ret (S2B "/").
Proof. repeat split. Qed.

(* Context.Redirect refuses (guard true) exactly the codes outside 300..308 *)
Theorem gen_redirectGuard_spec : forall code, gen_redirectGuard code = false <-> 300 <= code <= 308.
Proof. exact redirectGuard_spec. Qed.
Print Assumptions gen_redirectGuard_spec.

Example redirectGuard_nonvacuous :
  map gen_redirectGuard [299; 300; 301; 308; 309] = [true; false; false; false; true].
Proof. reflexivity. Qed.
