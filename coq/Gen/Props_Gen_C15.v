(* Props_Gen_C15.v — recovery.go scopeToString and the HandlerScope constants.
   Tie A for small pure functions: the definitions gotrans REGENERATES from the Go sources on every
   run (GenFuns.v) are equal, on ALL inputs, to the hand-written models the property proofs use.
   Only statements closed by [exact]; non-vacuity examples next to them.  Notes: docs/Gen.md *)
From FoxBase Require Import Bytes.
From FoxGen Require Import GoSem GenFuns BridgeC15.
Open Scope char_scope.
Open Scope Z_scope.

Theorem gen_scopeToString_eq : forall s,
  gen_scopeToString s =
    if s =? gen_OptionsHandler then S2B "OptionsHandler"
    else if s =? gen_NoMethodHandler then S2B "NoMethodHandler"
    else if s =? gen_RedirectHandler then S2B "RedirectHandler"
    else if s =? gen_NoRouteHandler then S2B "NoRouteHandler"
    else S2B "UnknownHandler".
Proof. exact scopeToString_eq. Qed.
Print Assumptions gen_scopeToString_eq.

Theorem gen_scopes_distinct :
  NoDup [gen_RouteHandler; gen_NoRouteHandler; gen_NoMethodHandler; gen_RedirectHandler; gen_OptionsHandler].
Proof. exact scopes_distinct. Qed.
Print Assumptions gen_scopes_distinct.

Example scopeToString_nonvacuous :
  map gen_scopeToString [gen_OptionsHandler; gen_NoMethodHandler; gen_RedirectHandler; gen_NoRouteHandler; gen_RouteHandler] =
  [S2B "OptionsHandler"; S2B "NoMethodHandler"; S2B "RedirectHandler"; S2B "NoRouteHandler"; S2B "UnknownHandler"].
Proof. reflexivity. Qed.

