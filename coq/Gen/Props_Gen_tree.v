(* Props_Gen_tree.v — node.go, tree.go (C01 C02 C03 C07: Route/Node.v, Route/Tree.v).
   Tie A for small pure functions: the definitions gotrans REGENERATES from the Go sources on every
   run (GenFuns.v) are equal, on ALL inputs, to the hand-written models the property proofs use.
   Only statements closed by [exact]; non-vacuity examples next to them.  Notes: docs/Gen.md *)
From FoxBase Require Import Bytes.
From FoxGen Require Import GoSem GenFuns BridgeBase Bridge BridgeSearch.
From FoxRoute Require Import Node Tree.
From Coq Require Import Sorted.
Open Scope char_scope.
Open Scope Z_scope.

(* ================================================================== node.go *)
(* linearSearch = the models' search in childKeys (Node.find_child, i.e. getEdge / updateEdge) *)
Theorem gen_linearSearch_eq_find_child : forall n ks c,
  child_keys n = map Some ks -> gen_linearSearch ks c = Ret (optZ (find_child n c)).
Proof. exact linearSearch_eq_find_child. Qed.
Print Assumptions gen_linearSearch_eq_find_child.

Example linearSearch_nonvacuous :
  let n := Node (S2B "/") None [Node (S2B "a") None []; Node (S2B "b") None []; Node (S2B "{x}") None []] in
  child_keys n = map Some (S2B "ab{") /\
  gen_linearSearch (S2B "ab{") "{" = Ret 2 /\ find_child n "{" = Some 2%nat /\
  gen_linearSearch (S2B "ab{") "z" = Ret (-1) /\ find_child n "z" = None.
Proof. repeat split. Qed.

(* binarySearch (above 50 children) selects the same child as linearSearch when the keys are strictly
   ascending, which fox maintains (children sorted by key, distinct first bytes): this is why the models
   use the linear search only.  [len ks <= max_int]: a Go slice length is an int. *)
Theorem gen_binarySearch_eq_linear : forall ks c,
  len ks <= max_int -> StronglySorted byte_lt ks ->
  exists r, gen_binarySearch ks c = Ret r /\ gen_linearSearch ks c = Ret (if r <? 0 then -1 else r).
Proof. exact binarySearch_eq_linear. Qed.
Print Assumptions gen_binarySearch_eq_linear.

Example binarySearch_nonvacuous :
  StronglySorted byte_lt (S2B "*/ab{") /\
  gen_binarySearch (S2B "*/ab{") "b" = Ret 3 /\ gen_linearSearch (S2B "*/ab{") "b" = Ret 3 /\
  gen_binarySearch (S2B "*/ab{") "c" = Ret (-5) /\ gen_linearSearch (S2B "*/ab{") "c" = Ret (-1) /\
  (* unsorted keys: the two searches differ, the hypothesis is needed *)
  gen_binarySearch (S2B "cab") "c" = Ret (-4) /\ gen_linearSearch (S2B "cab") "c" = Ret 0.
Proof.
  split; [repeat constructor; unfold byte_lt; vm_compute; reflexivity|repeat split].
Qed.

Theorem gen_compare_spec : forall a b,
  (gen_compare a b = 0 /\ a = b) \/ (gen_compare a b = -1 /\ bz a < bz b) \/ (gen_compare a b = 1 /\ bz b < bz a).
Proof. exact compare_spec. Qed.
Print Assumptions gen_compare_spec.

(* roots.methodIndex over the keys of the root nodes (nil root = None: would panic) *)
Theorem gen_methodIndex_eq : forall r m,
  (4 <= List.length r)%nat -> gen_methodIndex (root_keys r) m = Ret (optZ (method_index r m)).
Proof. exact methodIndex_eq. Qed.
Print Assumptions gen_methodIndex_eq.

Theorem gen_methodIndex_short_panics : forall r m,
  (List.length r < 4)%nat -> is_removable m = true -> gen_methodIndex (root_keys r) m = Panic.
Proof. exact methodIndex_short. Qed.
Print Assumptions gen_methodIndex_short_panics.

Example methodIndex_nonvacuous :
  let r := map (fun k => Node k None []) [m_get; m_post; m_put; m_delete; S2B "PATCH"] in
  gen_methodIndex (root_keys r) (S2B "PATCH") = Ret 4 /\ method_index r (S2B "PATCH") = Some 4%nat /\
  gen_methodIndex (root_keys r) (S2B "PUT") = Ret 2 /\
  gen_methodIndex (root_keys r) (S2B "HEAD") = Ret (-1) /\ method_index r (S2B "HEAD") = None /\
  gen_methodIndex [Some m_get] (S2B "HEAD") = Panic.
Proof. repeat split. Qed.

(* ================================================================== tree.go *)
Theorem gen_commonPrefix_eq : forall a b, gen_commonPrefix a b = Ret (common_prefix a b).
Proof. exact commonPrefix_eq. Qed.
Print Assumptions gen_commonPrefix_eq.

Example commonPrefix_nonvacuous :
  gen_commonPrefix (S2B "/foo/bar") (S2B "/foo/baz") = Ret (S2B "/foo/ba") /\
  gen_commonPrefix (S2B "/foo") (S2B "/foo/baz") = Ret (S2B "/foo") /\ gen_commonPrefix [] (S2B "x") = Ret [].
Proof. repeat split. Qed.

Theorem gen_commonVerbs_eq : gen_commonVerbs = common_verbs /\ gen_verb = Z.of_nat (List.length common_verbs).
Proof. exact (conj commonVerbs_eq eq_refl). Qed.
Print Assumptions gen_commonVerbs_eq.

Theorem gen_isRemovable_eq : forall m, gen_isRemovable m = Ret (is_removable m).
Proof. exact isRemovable_eq. Qed.
Print Assumptions gen_isRemovable_eq.

Example isRemovable_nonvacuous :
  gen_isRemovable (S2B "DELETE") = Ret false /\ gen_isRemovable (S2B "PATCH") = Ret true.
Proof. repeat split. Qed.

(* searchResult.classify: exactly the four-way case split Tree.ins / upd / rem perform on
   lcp = |common_prefix rest (nkey c)|:  (lcp =? |nkey c|) then (lcp =? |rest|);
   charsMatched <= len(path) and charsMatchedInNodeFound <= len(key) hold for every search result *)
Theorem gen_classify_eq : forall cm path cmn key,
  cm <= len path -> cmn <= len key ->
  gen_classify cm path cmn false key false = Ret (tree_case (cmn =? len key) (cm =? len path)).
Proof. exact classify_eq. Qed.
Print Assumptions gen_classify_eq.

Theorem gen_classify_root : forall cm path cmn key,
  cm < len path -> gen_classify cm path cmn false key true = Ret gen_incompleteMatchToEndOfEdge.
Proof. exact classify_root. Qed.
Print Assumptions gen_classify_root.

Theorem gen_classify_on_common_prefix : forall rest key,
  let lcp := len (common_prefix rest key) in
  gen_classify lcp rest lcp false key false = Ret (tree_case (lcp =? len key) (lcp =? len rest)).
Proof. exact classify_on_common_prefix. Qed.
Print Assumptions gen_classify_on_common_prefix.

Example classify_nonvacuous :
  gen_classify 2 (S2B "te") 2 false (S2B "te") false = Ret gen_exactMatch /\
  gen_classify 2 (S2B "te") 2 false (S2B "test") false = Ret gen_keyEndMidEdge /\
  gen_classify 2 (S2B "team") 2 false (S2B "te") false = Ret gen_incompleteMatchToEndOfEdge /\
  gen_classify 2 (S2B "team") 2 false (S2B "test") false = Ret gen_incompleteMatchToMiddleOfEdge /\
  gen_classify 0 (S2B "/a") 0 false (S2B "GET") true = Ret gen_incompleteMatchToEndOfEdge /\
  gen_classify 3 (S2B "te") 2 false (S2B "te") false = Panic /\
  [gen_exactMatch; gen_incompleteMatchToEndOfEdge; gen_incompleteMatchToMiddleOfEdge; gen_keyEndMidEdge] = [0; 1; 2; 3].
Proof. repeat split. Qed.

Theorem gen_isExactMatch_eq : forall cm path cmn key,
  gen_isExactMatch cm path cmn false key = Ret ((cm =? len path) && (cmn =? len key)).
Proof. exact isExactMatch_eq. Qed.
Print Assumptions gen_isExactMatch_eq.

Theorem gen_isExactMatch_iff_classify : forall cm path cmn key,
  cm <= len path -> cmn <= len key ->
  gen_isExactMatch cm path cmn false key = Ret true <-> gen_classify cm path cmn false key false = Ret gen_exactMatch.
Proof. exact isExactMatch_classify. Qed.
Print Assumptions gen_isExactMatch_iff_classify.

