(* coq/Gen — level (logger.go).  Notes: docs/Gen.md *)
From FoxBase Require Import Bytes.
From FoxGen Require Import GoSem GenFuns.
From Coq Require Import Lia ZArith.
Open Scope Z_scope.

(* destruct every integer comparison that occurs in the goal, whatever operator the Go text uses
   (status < 300 and status <= 299 are the same function: the proof must not depend on the spelling) *)
Ltac zcmp := repeat match goal with
  | |- context[Z.geb ?a ?b] => destruct (Z.geb_spec a b)
  | |- context[Z.gtb ?a ?b] => destruct (Z.gtb_spec a b)
  | |- context[Z.leb ?a ?b] => destruct (Z.leb_spec a b)
  | |- context[Z.ltb ?a ?b] => destruct (Z.ltb_spec a b)
  | |- context[Z.eqb ?a ?b] => destruct (Z.eqb_spec a b)
  end.

(* slog.LevelDebug = -4, LevelInfo = 0, LevelWarn = 4, LevelError = 8 (log/slog) *)
Lemma level_classes_gen : forall s : Z,
  (200 <= s < 300 -> gen_level s = 0) /\
  (300 <= s < 400 -> gen_level s = -4) /\
  (400 <= s < 500 -> gen_level s = 4) /\
  (500 <= s -> gen_level s = 8) /\
  (s < 200 -> gen_level s = 0).
Proof.
  intro s. unfold gen_level.
  repeat split; intro H; zcmp; cbn; try reflexivity; lia.
Qed.
