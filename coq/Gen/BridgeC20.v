(* coq/Gen — level (logger.go).  Notes: docs/Gen.md *)
From FoxBase Require Import Bytes.
From FoxGen Require Import GoSem GenFuns.
From Coq Require Import Lia ZArith.
Open Scope Z_scope.

(* slog.LevelDebug = -4, LevelInfo = 0, LevelWarn = 4, LevelError = 8 (log/slog) *)
Lemma level_classes_gen : forall s : Z,
  (200 <= s < 300 -> gen_level s = 0) /\
  (300 <= s < 400 -> gen_level s = -4) /\
  (400 <= s < 500 -> gen_level s = 4) /\
  (500 <= s -> gen_level s = 8) /\
  (s < 200 -> gen_level s = 0).
Proof.
  intro s. unfold gen_level.
  repeat split; intro H;
    destruct (Z.geb_spec s 200), (Z.ltb_spec s 300), (Z.geb_spec s 300), (Z.ltb_spec s 400),
             (Z.geb_spec s 400), (Z.ltb_spec s 500), (Z.geb_spec s 500); cbn; try reflexivity; lia.
Qed.
