(* C04: the parameters of the lifecycle model bundled in one record, so that the
   theorems of Props_C04.v read "for every sequential map semantics P ...".
   Everything here is a transparent abbreviation of TxnSeq.v / TxnSeqProofs.v. *)
Require Import List.
From FoxTxn Require Import TxnSeq TxnSeqProofs.

Record sem := mkSem {
  St : Type; wop : Type; wout : Type; rop : Type; rout : Type;
  wapply : St -> wop -> St * wout;     (* one write on a private state *)
  wfail : wout -> bool;                (* it returned an error *)
  rread : St -> rop -> rout;           (* any read of one state *)
  ro_out : wop -> wout                 (* ErrReadOnlyTxn *)
}.

Section Wrap.
  Variable P : sem.
  Definition World := world (St P).
  Definition Obs := obs (wout P) (rout P).
  Definition BStep := bstep (wop P) (rop P).
  Definition Step := step (wop P) (rop P).

  Definition m_begin (wr : bool) (w : World) : World * Obs := begin (St P) (wout P) (rout P) wr w.
  Definition m_write (h : nat) (o : wop P) (w : World) : World * Obs :=
    t_wop (St P) (wop P) (wout P) (rout P) (wapply P) (ro_out P) h o w.
  Definition m_read (h : nat) (r : rop P) (w : World) : World * Obs :=
    t_rop (St P) (wout P) (rop P) (rout P) (rread P) h r w.
  Definition m_commit (h : nat) (w : World) : World * Obs := commit (St P) (wout P) (rout P) h w.
  Definition m_abort (h : nat) (w : World) : World * Obs := abort (St P) (wout P) (rout P) h w.
  Definition m_snapshot (h : nat) (w : World) : World * Obs := snapshot (St P) (wout P) (rout P) h w.
  Definition m_iter (h : nat) (w : World) : World * Obs := iter (St P) (wout P) (rout P) h w.
  Definition m_single (o : wop P) (w : World) : World * Obs :=
    single (St P) (wop P) (wout P) (rout P) (wapply P) (wfail P) (ro_out P) o w.
  Definition m_bstep (x : BStep) (w : World) : World * Obs :=
    bstep_run (wapply P) (wfail P) (rread P) (ro_out P) x w.
  Definition m_bsteps (l : list BStep) (w : World) : World :=
    run_bsteps (wapply P) (wfail P) (rread P) (ro_out P) l w.
  Definition m_body (b : list BStep) (w : World) : World * list Obs * bool :=
    run_body (wapply P) (wfail P) (rread P) (ro_out P) b w.
  Definition m_managed (wr : bool) (b : list BStep) (e : ending) (w : World) : World * list Obs :=
    managed (wapply P) (wfail P) (rread P) (ro_out P) wr b e w.
  Definition m_step (x : Step) (w : World) : World * list Obs :=
    step_run (wapply P) (wfail P) (rread P) (ro_out P) x w.
  Definition m_run (l : list Step) (w : World) : World * list (list Obs) :=
    run (wapply P) (wfail P) (rread P) (ro_out P) l w.
  Definition m_fold (s : St P) (os : list (wop P)) : St P := wfold (wapply P) s os.

  Definition m_wf (w : World) : Prop := wf (St P) w.
  Definition m_live (t : txn (St P)) : bool := live_w (St P) t.
  Definition m_quiet (h : nat) (x : BStep) : bool := quiet (wop P) (rop P) h x.
  Definition m_not_ending (h : nat) (x : BStep) : bool := not_ending (wop P) (rop P) h x.
  Definition m_own_writes (h : nat) (l : list BStep) : list (wop P) := own_writes (wop P) (rop P) h l.
  Definition m_may_publish (x : BStep) : bool := may_publish (wop P) (rop P) x.   (* TCommit _ | Single _ *)
  Definition m_starts_writer (x : BStep) : bool := starts_writer (wop P) (rop P) x.
  Definition m_no_begin_w (x : BStep) : bool := no_begin_w (wop P) (rop P) x.
End Wrap.
