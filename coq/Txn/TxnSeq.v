(* C04 model: sequential transaction lifecycle of fox (txn.go, fox.go:183-266, 394-458).
   The routing STATE is abstract: any type St with a deterministic sequential
   write semantics wapply and read semantics rread (the radix tree itself is
   verified elsewhere; the harness instantiates St with the exact reference map
   keyed by (method, pattern), see TxnCorr.v).

   Go                               model
   Router.tree (atomic pointer)     pub    : St          (published state)
   Router.mu                        locked : bool
   *Txn {write, rootTxn}            txn {t_write; t_root : option St}   (None = settled)
   handles to Txn/Iter values       index in the list txns (append-only)            *)
Require Import List Bool Arith.
Import ListNotations.

Section TxnSeq.
  Variables St wop wout rop rout : Type.
  Variable wapply : St -> wop -> St * wout.   (* one write operation on a private state *)
  Variable wfail : wout -> bool.            (* the operation returned a non-nil error *)
  Variable rread : St -> rop -> rout.        (* any read (Has, Route, Iter, Len, lookup ...) *)
  Variable ro_out : wop -> wout.            (* what a write returns on a read-only txn: ErrReadOnlyTxn *)

  Record txn := mkTxn { t_write : bool; t_root : option St }.
  Record world := mkW { pub : St; locked : bool; txns : list txn }.

  Inductive obs :=
  | OUnit                      (* Commit / Abort returned *)
  | OBlocked                   (* the call waits for Router.mu (never returns in a sequential history) *)
  | ONoHandle                  (* malformed history: no such transaction value *)
  | OPanicSettled              (* panic(ErrSettledTxn) *)
  | OW (o : wout)
  | OR (r : rout)
  | OHandle (h : nat)          (* a new Txn / Iter value *)
  | ONil                       (* Snapshot of a settled txn returns nil *)
  | OFinNil | OFinErr | OFinPanicV | OFinPanicSettled | OFinBlocked   (* how Updates / View ended *)
  | OFinGoexit.                (* Updates / View never returned: fn ended its goroutine (runtime.Goexit) *)

  Fixpoint upd_nth {A} (n : nat) (x : A) (l : list A) : list A :=
    match l, n with
    | [], _ => []
    | _ :: l', O => x :: l'
    | y :: l', S n' => y :: upd_nth n' x l'
    end.

  Definition set_txn (w : world) (h : nat) (t : txn) : world :=
    mkW (pub w) (locked w) (upd_nth h t (txns w)).

  (* Router.txnWith(write, _):  if write { mu.Lock() };  rootTxn = getRoot().txn() *)
  Definition begin (wr : bool) (w : world) : world * obs :=
    if wr && locked w then (w, OBlocked)
    else (mkW (pub w) (locked w || wr) (txns w ++ [mkTxn wr (Some (pub w))]), OHandle (length (txns w))).

  (* Txn.Handle / Update / Delete / HandleRoute / UpdateRoute / Truncate: same prologue *)
  Definition t_wop (h : nat) (o : wop) (w : world) : world * obs :=
    match nth_error (txns w) h with
    | None => (w, ONoHandle)
    | Some t =>
        match t_root t with
        | None => (w, OPanicSettled)
        | Some s =>
            if t_write t
            then let (s', r) := wapply s o in (set_txn w h (mkTxn true (Some s')), OW r)
            else (w, OW (ro_out o))
        end
    end.

  (* Txn.Has / Route / Reverse / Lookup / Len and reading an Iter *)
  Definition t_rop (h : nat) (r : rop) (w : world) : world * obs :=
    match nth_error (txns w) h with
    | None => (w, ONoHandle)
    | Some t =>
        match t_root t with
        | None => (w, OPanicSettled)
        | Some s => (w, OR (rread s r))
        end
    end.

  (* Txn.Commit: noop if !write; noop if settled; Store; rootTxn = nil; Unlock *)
  Definition commit (h : nat) (w : world) : world * obs :=
    match nth_error (txns w) h with
    | None => (w, ONoHandle)
    | Some t =>
        if negb (t_write t) then (w, OUnit)
        else match t_root t with
             | None => (w, OUnit)
             | Some s => (mkW s false (upd_nth h (mkTxn true None) (txns w)), OUnit)
             end
    end.

  (* Txn.Abort: noop if !write; noop if settled; rootTxn = nil; Unlock *)
  Definition abort (h : nat) (w : world) : world * obs :=
    match nth_error (txns w) h with
    | None => (w, ONoHandle)
    | Some t =>
        if negb (t_write t) then (w, OUnit)
        else match t_root t with
             | None => (w, OUnit)
             | Some s => (mkW (pub w) false (upd_nth h (mkTxn true None) (txns w)), OUnit)
             end
    end.

  (* Txn.Snapshot: nil if settled, else a new READ-ONLY txn on a clone *)
  Definition snapshot (h : nat) (w : world) : world * obs :=
    match nth_error (txns w) h with
    | None => (w, ONoHandle)
    | Some t =>
        match t_root t with
        | None => (w, ONil)
        | Some s => (mkW (pub w) (locked w) (txns w ++ [mkTxn false (Some s)]), OHandle (length (txns w)))
        end
    end.

  (* Txn.Iter: panics if settled, else a point-in-time iterator (a read-only handle) *)
  Definition iter (h : nat) (w : world) : world * obs :=
    match nth_error (txns w) h with
    | None => (w, ONoHandle)
    | Some t =>
        match t_root t with
        | None => (w, OPanicSettled)
        | Some s => (mkW (pub w) (locked w) (txns w ++ [mkTxn false (Some s)]), OHandle (length (txns w)))
        end
    end.

  (* Router.Handle / Update / Delete / HandleRoute / UpdateRoute:
       txn := txnWith(true,false); defer txn.Abort(); r, err := txn.Op(); if err != nil {return}; txn.Commit() *)
  Definition single (o : wop) (w : world) : world * obs :=
    match begin true w with
    | (w1, OHandle h) =>
        let (w2, r) := t_wop h o w1 in
        match r with
        | OW x => if wfail x then (fst (abort h w2), r)
                  else (fst (abort h (fst (commit h w2))), r)
        | _ => (fst (abort h w2), r)
        end
    | (w1, r) => (w1, r)
    end.

  (* steps that can also occur inside the function passed to Updates / View *)
  Inductive bstep :=
  | Begin (wr : bool)
  | TWrite (h : nat) (o : wop)
  | TRead (h : nat) (r : rop)
  | TCommit (h : nat)
  | TAbort (h : nat)
  | TSnapshot (h : nat)
  | TIter (h : nat)
  | Single (o : wop)
  | RRead (r : rop).             (* Router.Has/Route/Reverse/Lookup/ServeHTTP/Iter/Len: one load of the published tree *)

  Definition bstep_run (x : bstep) (w : world) : world * obs :=
    match x with
    | Begin wr => begin wr w
    | TWrite h o => t_wop h o w
    | TRead h r => t_rop h r w
    | TCommit h => commit h w
    | TAbort h => abort h w
    | TSnapshot h => snapshot h w
    | TIter h => iter h w
    | Single o => single o w
    | RRead r => (w, OR (rread (pub w) r))
    end.

  Definition is_panic (o : obs) : bool :=
    match o with OPanicSettled => true | _ => false end.

  (* the body of fn: runs until a step panics *)
  Fixpoint run_body (b : list bstep) (w : world) : world * list obs * bool :=
    match b with
    | [] => (w, [], false)
    | x :: b' =>
        let (w1, o) := bstep_run x w in
        if is_panic o then (w1, [o], true)
        else let '(w2, os, p) := run_body b' w1 in (w2, o :: os, p)
    end.

  (* how fn ends after its body. Goexit = fn calls runtime.Goexit() (what t.FailNow / require.* do): fn neither
     returns nor panics; the deferred functions of the goroutine run, recover() returns nil in them, and
     Updates / View never return to their caller. *)
  Inductive ending := RetNil | RetErr | PanicV | Goexit.

  (* Router.Updates (wr = true) / Router.View (wr = false):
       txn := fox.Txn(wr)
       defer func() { if p := recover(); p != nil { txn.Abort(); panic(p) }; txn.Abort() }()
       Updates: if err := fn(txn); err != nil { return err }; txn.Commit(); return nil
       View:    return fn(txn)
     The deferred function is the only code of Updates / View that runs after a Goexit inside fn: recover() is nil
     there, so it is the unconditional txn.Abort() that settles the transaction (never Commit).               *)
  Definition managed (wr : bool) (b : list bstep) (e : ending) (w : world) : world * list obs :=
    match begin wr w with
    | (w1, OHandle h) =>
        let '(w2, os, p) := run_body b w1 in
        if p then (fst (abort h w2), os ++ [OFinPanicSettled])
        else match e with
             | PanicV => (fst (abort h w2), os ++ [OFinPanicV])
             | RetErr => (fst (abort h w2), os ++ [OFinErr])
             | Goexit => (fst (abort h w2), os ++ [OFinGoexit])
             | RetNil => if wr then (fst (abort h (fst (commit h w2))), os ++ [OFinNil])
                         else (fst (abort h w2), os ++ [OFinNil])
             end
    | (w1, _) => (w1, [OFinBlocked])
    end.

  Inductive step :=
  | Plain (x : bstep)
  | Updates (b : list bstep) (e : ending)
  | View (b : list bstep) (e : ending).

  Definition step_run (x : step) (w : world) : world * list obs :=
    match x with
    | Plain b => let (w', o) := bstep_run b w in (w', [o])
    | Updates b e => managed true b e w
    | View b e => managed false b e w
    end.

  Fixpoint run (l : list step) (w : world) : world * list (list obs) :=
    match l with
    | [] => (w, [])
    | x :: l' => let (w1, o) := step_run x w in
                 let (w2, os) := run l' w1 in (w2, o :: os)
    end.

  Fixpoint run_bsteps (l : list bstep) (w : world) : world :=
    match l with
    | [] => w
    | x :: l' => run_bsteps l' (fst (bstep_run x w))
    end.

  Definition init (s : St) : world := mkW s false [].

  (* the state a transaction has after its own operations *)
  Definition wfold (s : St) (os : list wop) : St := fold_left (fun s o => fst (wapply s o)) os s.

End TxnSeq.

Arguments OUnit {wout rout}.
Arguments OBlocked {wout rout}.
Arguments ONoHandle {wout rout}.
Arguments OPanicSettled {wout rout}.
Arguments OW {wout rout} o.
Arguments OR {wout rout} r.
Arguments OHandle {wout rout} h.
Arguments ONil {wout rout}.
Arguments OFinNil {wout rout}.
Arguments OFinErr {wout rout}.
Arguments OFinPanicV {wout rout}.
Arguments OFinPanicSettled {wout rout}.
Arguments OFinBlocked {wout rout}.
Arguments OFinGoexit {wout rout}.
Arguments Begin {wop rop} wr.
Arguments TWrite {wop rop} h o.
Arguments TRead {wop rop} h r.
Arguments TCommit {wop rop} h.
Arguments TAbort {wop rop} h.
Arguments TSnapshot {wop rop} h.
Arguments TIter {wop rop} h.
Arguments Single {wop rop} o.
Arguments RRead {wop rop} r.
Arguments Plain {wop rop} x.
Arguments Updates {wop rop} b e.
Arguments View {wop rop} b e.
Arguments mkTxn {St} t_write t_root.
Arguments t_write {St} t.
Arguments t_root {St} t.
Arguments mkW {St} pub locked txns.
Arguments pub {St} w.
Arguments locked {St} w.
Arguments txns {St} w.
Arguments init {St} s.
Arguments is_panic {wout rout} o.
Arguments run {St wop wout rop rout} wapply wfail rread ro_out l w.
Arguments step_run {St wop wout rop rout} wapply wfail rread ro_out x w.
Arguments bstep_run {St wop wout rop rout} wapply wfail rread ro_out x w.
Arguments run_bsteps {St wop wout rop rout} wapply wfail rread ro_out l w.
Arguments run_body {St wop wout rop rout} wapply wfail rread ro_out b w.
Arguments managed {St wop wout rop rout} wapply wfail rread ro_out wr b e w.
Arguments wfold {St wop wout} wapply s os.
