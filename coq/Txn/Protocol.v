(* C05 model: the synchronisation protocol of fox as a small-step interleaving
   semantics with ANY number of threads (fox.go:448-458, 484-487; txn.go:302-338).

     writer :  Call . Lock (enabled only when mu is free) . Load . local ops . Store . Unlock . Ret
               or, on abort / error / panic:   Call . Lock . Load . Unlock . Ret
     reader :  Call . Load (evaluate on the loaded tree) . Ret

   Shared state: mu, and the tree = (ver, cnt, st): st is the abstract routing state
   (any sequential map semantics, as in TxnSeq.v), ver counts commits, and cnt o is
   the version stamp of "object" o that lives IN the tree (in the harness: the tag
   of the version route, bumped by the transaction from the value it read in its
   own snapshot; or the sequence number a single-writer key carries). A writer
   computes everything it stores from what it LOADED, so a lost update would show.

   Call / Ret are the instants the harness timestamps; they delimit an operation
   in real time. The skeleton of the writer and of the readers is compared with
   the Go sources by the Examples of Props_C05.v (tie A, Skeleton.v). *)
Require Import List Bool Arith NArith Lia.
Import ListNotations.

Definition obj := nat.

(* ---------- executable history checker (independent of the state type) ---------- *)

Section History.
  Variables wout rout : Type.

  Inductive result :=
  | ResW (vs : list (obj * N)) (outs : list wout)    (* committed; version written to each object *)
  | ResA                                             (* aborted: nothing published *)
  | ResR (vs : list (obj * N)) (out : rout).         (* read: version of each object observed *)

  Inductive hev := HCall (t : nat) | HRet (t : nat) (r : result).

  Definition amap := list (obj * N).
  Fixpoint aget (m : amap) (o : obj) : N :=
    match m with
    | [] => 0%N
    | (o', v) :: m' => if Nat.eqb o o' then v else aget m' o
    end.
  Fixpoint aset (m : amap) (o : obj) (v : N) : amap :=
    match m with
    | [] => [(o, v)]
    | (o', v') :: m' => if Nat.eqb o o' then (o, v) :: m' else (o', v') :: aset m' o v
    end.
  Definition araise (m : amap) (p : obj * N) : amap := aset m (fst p) (N.max (aget m (fst p)) (snd p)).

  Fixpoint pget (p : list (nat * amap)) (t : nat) : option amap :=
    match p with
    | [] => None
    | (t', f) :: p' => if Nat.eqb t t' then Some f else pget p' t
    end.
  Definition prem (p : list (nat * amap)) (t : nat) : list (nat * amap) :=
    filter (fun e => negb (Nat.eqb t (fst e))) p.

  (* maxret o : largest version of o carried by an operation that has RETURNED;
     pend     : for each operation in progress, maxret at the moment it was called (its floor) *)
  Record ck := mkCk { maxret : amap; pend : list (nat * amap) }.

  Definition res_versions (r : result) : list (obj * N) :=
    match r with ResW vs _ => vs | ResR vs _ => vs | ResA => [] end.

  Definition res_ok (fl : amap) (r : result) : bool :=
    match r with
    | ResW vs _ => forallb (fun p => N.ltb (aget fl (fst p)) (snd p)) vs   (* a write comes strictly after everything that returned before its call *)
    | ResR vs _ => forallb (fun p => N.leb (aget fl (fst p)) (snd p)) vs   (* a read is never older than that *)
    | ResA => true
    end.

  Definition scan_step (k : ck) (e : hev) : option ck :=
    match e with
    | HCall t =>
        match pget (pend k) t with
        | Some _ => None                                   (* malformed: two pending calls of one thread *)
        | None => Some (mkCk (maxret k) ((t, maxret k) :: pend k))
        end
    | HRet t r =>
        match pget (pend k) t with
        | None => None
        | Some fl =>
            if res_ok fl r
            then Some (mkCk (fold_left araise (res_versions r) (maxret k)) (prem (pend k) t))
            else None
        end
    end.

  Fixpoint scan (h : list hev) (k : ck) : option ck :=
    match h with
    | [] => Some k
    | e :: h' => match scan_step k e with Some k' => scan h' k' | None => None end
    end.

  (* committed writes: (object, version) pairs in return order *)
  Fixpoint retW (h : list hev) : list (obj * N) :=
    match h with
    | [] => []
    | HRet _ (ResW vs _) :: h' => vs ++ retW h'
    | _ :: h' => retW h'
    end.

  Definition pair_eqb (a b : obj * N) : bool := Nat.eqb (fst a) (fst b) && N.eqb (snd a) (snd b).
  Fixpoint nodupb (l : list (obj * N)) : bool :=
    match l with
    | [] => true
    | x :: l' => negb (existsb (pair_eqb x) l') && nodupb l'
    end.
  Definition count_o (o : obj) (l : list (obj * N)) : nat := length (filter (fun p => Nat.eqb (fst p) o) l).

  (* the committed versions of every object are exactly 1..n, each once: nothing lost, nothing applied twice,
     no version that no committed writer produced *)
  Definition writes_ok (w : list (obj * N)) : bool :=
    nodupb w && forallb (fun p => N.leb 1 (snd p) && N.leb (snd p) (N.of_nat (count_o (fst p) w))) w.

  Definition history_ok (h : list hev) : bool :=
    match scan h (mkCk [] []) with
    | Some k => match pend k with [] => writes_ok (retW h) | _ => false end
    | None => false
    end.

  (* An operation works on ONE tree (a read transaction performs ONE load, a write transaction stores ONE tree):
     however many of its entry points reported the version of an object, they all reported the same one. *)
  Fixpoint one_version (vs : list (obj * N)) : bool :=
    match vs with
    | [] => true
    | p :: r => forallb (fun q => negb (Nat.eqb (fst q) (fst p)) || N.eqb (snd q) (snd p)) r && one_version r
    end.

  Definition single_load_ok (h : list hev) : bool :=
    forallb (fun e => match e with HRet _ r => one_version (res_versions r) | HCall _ => true end) h.
End History.

Arguments ResW {wout rout} vs outs.
Arguments ResA {wout rout}.
Arguments ResR {wout rout} vs out.
Arguments HCall {wout rout} t.
Arguments HRet {wout rout} t r.
Arguments history_ok {wout rout} h.
Arguments scan {wout rout} h k.
Arguments scan_step {wout rout} k e.
Arguments retW {wout rout} h.
Arguments res_ok {wout rout} fl r.
Arguments res_versions {wout rout} r.
Arguments single_load_ok {wout rout} h.

(* ---------- the protocol ---------- *)

Section Protocol.
  Variables St wop wout rop rout : Type.
  Variable wapply : St -> wop -> St * wout.
  Variable rread : St -> rop -> rout.

  Fixpoint wrun (s : St) (ops : list wop) : St * list wout :=
    match ops with
    | [] => (s, [])
    | o :: r => let (s1, x) := wapply s o in let (s2, xs) := wrun s1 r in (s2, x :: xs)
    end.

  Definition cnts := obj -> N.
  Definition bump (c : cnts) (os : list obj) : cnts :=
    fun o => if existsb (Nat.eqb o) os then (c o + 1)%N else c o.
  Definition stamps (c : cnts) (os : list obj) : list (obj * N) :=
    map (fun o => (o, c o)) (nodup Nat.eq_dec os).

  Inductive job :=
  | JW (os : list obj) (ops : list wop) (commit : bool)   (* write transaction touching the version stamps os *)
  | JR (os : list obj) (r : rop).                          (* read observing the version stamps os *)

  Notation result := (result wout rout).

  Inductive pc :=
  | Idle
  | Called (j : job)
  | Locked (os : list obj) (ops : list wop) (c : bool)
  | Loaded (os : list obj) (ops : list wop) (c : bool) (v : N) (cn : cnts) (s : St)
  | Stored (r : result)
  | Finished (r : result).

  Record cfg := mkCfg { mu : bool; ver : N; cnt : cnts; st : St; ths : list pc }.

  Inductive label :=
  | LSpawn
  | LCall (t : nat) (j : job)
  | LLock (t : nat)
  | LLoadW (t : nat) (v : N)
  | LStore (t : nat) (v : N) (ops : list wop) (outs : list wout) (vs : list (obj * N))
  | LUnlock (t : nat)
  | LLoadR (t : nat) (v : N) (r : rop) (out : rout) (vs : list (obj * N))
  | LRet (t : nat) (r : result).

  Fixpoint upd {A} (n : nat) (x : A) (l : list A) : list A :=
    match l, n with
    | [], _ => []
    | _ :: l', O => x :: l'
    | y :: l', S n' => y :: upd n' x l'
    end.

  Definition setpc (c : cfg) (t : nat) (p : pc) : cfg := mkCfg (mu c) (ver c) (cnt c) (st c) (upd t p (ths c)).

  Inductive step : cfg -> label -> cfg -> Prop :=
  | s_spawn c : step c LSpawn (mkCfg (mu c) (ver c) (cnt c) (st c) (ths c ++ [Idle]))
  | s_call c t j : nth_error (ths c) t = Some Idle ->
      step c (LCall t j) (setpc c t (Called j))
  | s_lock c t os ops b : nth_error (ths c) t = Some (Called (JW os ops b)) -> mu c = false ->
      step c (LLock t) (mkCfg true (ver c) (cnt c) (st c) (upd t (Locked os ops b) (ths c)))
  | s_loadw c t os ops b : nth_error (ths c) t = Some (Locked os ops b) ->
      step c (LLoadW t (ver c)) (setpc c t (Loaded os ops b (ver c) (cnt c) (st c)))
  | s_store c t os ops v cn s : nth_error (ths c) t = Some (Loaded os ops true v cn s) ->
      step c (LStore t (v + 1)%N ops (snd (wrun s ops)) (stamps (bump cn os) os))
           (mkCfg (mu c) (v + 1)%N (bump cn os) (fst (wrun s ops))
                  (upd t (Stored (ResW (stamps (bump cn os) os) (snd (wrun s ops)))) (ths c)))
  | s_unlock_commit c t r : nth_error (ths c) t = Some (Stored r) ->
      step c (LUnlock t) (mkCfg false (ver c) (cnt c) (st c) (upd t (Finished r) (ths c)))
  | s_unlock_abort c t os ops v cn s : nth_error (ths c) t = Some (Loaded os ops false v cn s) ->
      step c (LUnlock t) (mkCfg false (ver c) (cnt c) (st c) (upd t (Finished ResA) (ths c)))
  | s_loadr c t os r : nth_error (ths c) t = Some (Called (JR os r)) ->
      step c (LLoadR t (ver c) r (rread (st c) r) (stamps (cnt c) os))
           (setpc c t (Finished (ResR (stamps (cnt c) os) (rread (st c) r))))
  | s_ret c t r : nth_error (ths c) t = Some (Finished r) ->
      step c (LRet t r) (setpc c t Idle).

  Definition init (s0 : St) (n : nat) : cfg := mkCfg false 0%N (fun _ => 0%N) s0 (repeat Idle n).

  (* executions, with the trace of labels in chronological order *)
  Inductive exec (s0 : St) (n : nat) : list label -> cfg -> Prop :=
  | e_init : exec s0 n [] (init s0 n)
  | e_step tr c l c' : exec s0 n tr c -> step c l c' -> exec s0 n (tr ++ [l]) c'.

  Definition quiescent (c : cfg) : Prop := Forall (fun p => p = Idle) (ths c).

  (* what the harness records *)
  Definition hist1 (l : label) : list (hev wout rout) :=
    match l with
    | LCall t _ => [HCall t]
    | LRet t r => [HRet t r]
    | _ => []
    end.
  Definition hist (tr : list label) : list (hev wout rout) := flat_map hist1 tr.

  (* linearisation: operations ordered by their Store (committed writes) / Load (reads) step *)
  Inductive linop :=
  | LinW (t : nat) (v : N) (ops : list wop) (outs : list wout)
  | LinR (t : nat) (v : N) (r : rop) (out : rout).

  Definition lin1 (l : label) : list linop :=
    match l with
    | LStore t v ops outs _ => [LinW t v ops outs]
    | LLoadR t v r out _ => [LinR t v r out]
    | _ => []
    end.
  Definition lin (tr : list label) : list linop := flat_map lin1 tr.

  (* a legal SEQUENTIAL history of the abstract map: every write is applied to the state left by the previous
     one, returns exactly the sequential results, and gets the next version; every read returns what the
     current state answers *)
  Inductive legal : St -> N -> list linop -> St -> N -> Prop :=
  | legal_nil s v : legal s v [] s v
  | legal_w s v t ops l s' v' :
      legal (fst (wrun s ops)) (v + 1)%N l s' v' ->
      legal s v (LinW t (v + 1)%N ops (snd (wrun s ops)) :: l) s' v'
  | legal_r s v t r l s' v' :
      legal s v l s' v' ->
      legal s v (LinR t v r (rread s r) :: l) s' v'.

  Definition in_cs (p : pc) : bool :=
    match p with Locked _ _ _ | Loaded _ _ _ _ _ _ | Stored _ => true | _ => false end.

  (* versions observed / produced, in chronological order *)
  Definition vers1 (l : label) : list N :=
    match l with
    | LLoadW _ v => [v] | LStore _ v _ _ _ => [v] | LLoadR _ v _ _ _ => [v] | _ => []
    end.
  Definition vers (tr : list label) : list N := flat_map vers1 tr.
  Definition label_tid (l : label) : option nat :=
    match l with
    | LSpawn => None
    | LCall t _ | LLock t | LLoadW t _ | LStore t _ _ _ _ | LUnlock t | LLoadR t _ _ _ _ | LRet t _ => Some t
    end.
  Definition by_thread (t : nat) (tr : list label) : list label :=
    filter (fun l => match label_tid l with Some t' => Nat.eqb t t' | None => false end) tr.

  (* counting call / linearisation-point / return labels of one thread *)
  Definition is_call (l : label) : bool := match l with LCall _ _ => true | _ => false end.
  Definition is_ret (l : label) : bool := match l with LRet _ _ => true | _ => false end.
  Definition is_lin (l : label) : bool := match l with LStore _ _ _ _ _ | LLoadR _ _ _ _ _ => true | _ => false end.
  Definition is_ret_lin (l : label) : bool :=
    match l with LRet _ (ResW _ _) | LRet _ (ResR _ _) => true | _ => false end.
  Definition cnt_l (f : label -> bool) (t : nat) (tr : list label) : nat := length (filter f (by_thread t tr)).

  Definition pending_call (p : pc) : nat := match p with Idle => 0 | _ => 1 end.
  Definition pending_lin (p : pc) : nat :=
    match p with Stored _ | Finished (ResW _ _) | Finished (ResR _ _) => 1 | _ => 0 end.

  (* committed writes: Store steps vs returns of a committed write; reads: Load steps vs returns of a read *)
  Definition is_store (l : label) : bool := match l with LStore _ _ _ _ _ => true | _ => false end.
  Definition is_retW (l : label) : bool := match l with LRet _ (ResW _ _) => true | _ => false end.
  Definition is_retA (l : label) : bool := match l with LRet _ ResA => true | _ => false end.
  Definition is_loadr (l : label) : bool := match l with LLoadR _ _ _ _ _ => true | _ => false end.
  Definition is_retR (l : label) : bool := match l with LRet _ (ResR _ _) => true | _ => false end.
  Definition pendingW (p : pc) : nat := match p with Stored _ | Finished (ResW _ _) => 1 | _ => 0 end.
  Definition pendingR (p : pc) : nat := match p with Finished (ResR _ _) => 1 | _ => 0 end.

  (* Stored always carries a committed-write result *)
  Definition pc_wf (p : pc) : Prop := match p with Stored (ResW _ _) => True | Stored _ => False | _ => True end.
End Protocol.

Arguments JW {wop rop} os ops commit.
Arguments JR {wop rop} os r.
Arguments Idle {St wop wout rop rout}.
Arguments Called {St wop wout rop rout} j.
Arguments Locked {St wop wout rop rout} os ops c.
Arguments Loaded {St wop wout rop rout} os ops c v cn s.
Arguments Stored {St wop wout rop rout} r.
Arguments Finished {St wop wout rop rout} r.
Arguments mkCfg {St wop wout rop rout} mu ver cnt st ths.
Arguments mu {St wop wout rop rout} c.
Arguments ver {St wop wout rop rout} c.
Arguments cnt {St wop wout rop rout} c.
Arguments st {St wop wout rop rout} c.
Arguments ths {St wop wout rop rout} c.
Arguments LSpawn {wop wout rop rout}.
Arguments LCall {wop wout rop rout} t j.
Arguments LLock {wop wout rop rout} t.
Arguments LLoadW {wop wout rop rout} t v.
Arguments LStore {wop wout rop rout} t v ops outs vs.
Arguments LUnlock {wop wout rop rout} t.
Arguments LLoadR {wop wout rop rout} t v r out vs.
Arguments LRet {wop wout rop rout} t r.
Arguments LinW {wop wout rop rout} t v ops outs.
Arguments LinR {wop wout rop rout} t v r out.
Arguments upd {A} n x l.
