(* C05: the executable history checker history_ok (Protocol.v)
   - accepts every history a quiescent execution of the protocol can produce
     (history_ok_complete: it can never raise a false alarm), and
   - rejects lost / duplicated / phantom writes and stale reads (the history_ok_sound theorems). *)
Require Import List Bool Arith NArith Lia Permutation.
Import ListNotations.
From FoxTxn Require Import Protocol ProtocolProofs.

(* ---------- association maps ---------- *)

Lemma aget_aset_same m o v : aget (aset m o v) o = v.
Proof.
  induction m as [|[o' v'] m IH]; simpl.
  - rewrite Nat.eqb_refl; auto.
  - destruct (Nat.eqb o o') eqn:E; simpl; rewrite ?Nat.eqb_refl, ?E; auto.
Qed.

Lemma aget_aset_other m o o' v : o' <> o -> aget (aset m o v) o' = aget m o'.
Proof.
  intros Ne. induction m as [|[o2 v2] m IH]; simpl.
  - apply Nat.eqb_neq in Ne. rewrite Ne. auto.
  - destruct (Nat.eqb o o2) eqn:E; simpl.
    + apply Nat.eqb_eq in E. subst o2. apply Nat.eqb_neq in Ne. rewrite Ne. auto.
    + destruct (Nat.eqb o' o2); auto.
Qed.

Lemma aget_araise m p o :
  aget (araise m p) o = if Nat.eqb o (fst p) then N.max (aget m (fst p)) (snd p) else aget m o.
Proof.
  unfold araise. destruct (Nat.eqb_spec o (fst p)) as [->|Ne].
  - apply aget_aset_same.
  - apply aget_aset_other; auto.
Qed.

Lemma aget_fold_le (f : obj -> N) vs m :
  (forall o, (aget m o <= f o)%N) -> (forall p, In p vs -> (snd p <= f (fst p))%N) ->
  forall o, (aget (fold_left araise vs m) o <= f o)%N.
Proof.
  revert m. induction vs as [|p vs IH]; simpl; intros m Hm Hv o; auto.
  apply IH; auto. intros o'. rewrite aget_araise. destruct (Nat.eqb_spec o' (fst p)) as [->|Ne]; auto.
  apply N.max_lub; auto.
Qed.

Lemma aget_fold_ge vs m o : (aget m o <= aget (fold_left araise vs m) o)%N.
Proof.
  revert m. induction vs as [|p vs IH]; simpl; intros m; [lia|].
  eapply N.le_trans; [|apply IH]. rewrite aget_araise. destruct (Nat.eqb_spec o (fst p)) as [->|Ne]; lia.
Qed.

Lemma aget_fold_in vs m p : In p vs -> (snd p <= aget (fold_left araise vs m) (fst p))%N.
Proof.
  revert m. induction vs as [|q vs IH]; simpl; intros m I; [contradiction|]. destruct I as [->|I].
  - eapply N.le_trans; [|apply aget_fold_ge]. rewrite aget_araise, Nat.eqb_refl. lia.
  - apply IH; auto.
Qed.

Lemma pget_prem_same p t : pget (prem p t) t = None.
Proof.
  induction p as [|[t' f] p IH]; simpl; auto.
  destruct (Nat.eqb t t') eqn:E; simpl; auto. rewrite E. auto.
Qed.

Lemma pget_prem_other p t t' : t' <> t -> pget (prem p t) t' = pget p t'.
Proof.
  intros Ne. induction p as [|[t2 f] p IH]; simpl; auto.
  destruct (Nat.eqb t t2) eqn:E; simpl.
  - apply Nat.eqb_eq in E. subst t2. apply Nat.eqb_neq in Ne. rewrite Ne. auto.
  - destruct (Nat.eqb t' t2); auto.
Qed.

Lemma pget_all_none p : (forall t, pget p t = None) -> p = [].
Proof.
  destruct p as [|[t f] p]; auto. intros H. specialize (H t). simpl in H. rewrite Nat.eqb_refl in H. discriminate.
Qed.

(* ---------- stamps ---------- *)

Lemma existsb_eqb_in o os : existsb (Nat.eqb o) os = true <-> In o os.
Proof.
  rewrite existsb_exists. split.
  - intros [x [I E]]. apply Nat.eqb_eq in E. subst; auto.
  - intros I. exists o. split; auto. apply Nat.eqb_refl.
Qed.

Lemma in_stamps c os o v : In (o, v) (stamps c os) <-> In o os /\ v = c o.
Proof.
  unfold stamps. rewrite in_map_iff. split.
  - intros [x [E I]]. inversion E; subst. apply nodup_In in I. auto.
  - intros [I ->]. exists o. split; auto. apply nodup_In; auto.
Qed.

Lemma nodup_stamps c os : NoDup (stamps c os).
Proof.
  unfold stamps. apply FinFun.Injective_map_NoDup.
  - intros x y E. inversion E; auto.
  - apply NoDup_nodup.
Qed.

Lemma count_filter_nodup o l :
  NoDup l -> length (filter (fun x => Nat.eqb x o) l) = if existsb (Nat.eqb o) l then 1 else 0.
Proof.
  induction 1 as [|x l NI ND IH]; simpl; auto.
  rewrite (Nat.eqb_sym o x). destruct (Nat.eqb_spec x o) as [->|Ne]; simpl.
  - rewrite IH. destruct (existsb (Nat.eqb o) l) eqn:E; auto.
    apply existsb_eqb_in in E. contradiction.
  - auto.
Qed.

Lemma count_o_stamps c os o : count_o o (stamps c os) = if existsb (Nat.eqb o) os then 1 else 0.
Proof.
  unfold count_o, stamps.
  assert (G : forall l, length (filter (fun p : obj * N => Nat.eqb (fst p) o) (map (fun o0 => (o0, c o0)) l)) =
                        length (filter (fun x => Nat.eqb x o) l)).
  { induction l as [|x l IH]; simpl; auto. destruct (Nat.eqb x o); simpl; auto. }
  rewrite G, count_filter_nodup by apply NoDup_nodup.
  destruct (existsb (Nat.eqb o) os) eqn:E.
  - apply existsb_eqb_in in E. assert (E' : existsb (Nat.eqb o) (nodup Nat.eq_dec os) = true).
    { apply existsb_eqb_in, nodup_In; auto. } rewrite E'. auto.
  - destruct (existsb (Nat.eqb o) (nodup Nat.eq_dec os)) eqn:E'; auto.
    apply existsb_eqb_in, nodup_In, existsb_eqb_in in E'. congruence.
Qed.

Lemma count_o_app o l l' : count_o o (l ++ l') = count_o o l + count_o o l'.
Proof. unfold count_o. rewrite filter_app, app_length. auto. Qed.

(* ---------- nodupb ---------- *)

Lemma pair_eqb_eq a b : pair_eqb a b = true <-> a = b.
Proof.
  unfold pair_eqb. destruct a as [o v], b as [o' v']. simpl. rewrite andb_true_iff, Nat.eqb_eq, N.eqb_eq.
  split; [intros [-> ->]; auto|intros E; inversion E; auto].
Qed.

Lemma nodupb_iff l : nodupb l = true <-> NoDup l.
Proof.
  induction l as [|x l IH]; simpl.
  - split; auto. constructor.
  - rewrite andb_true_iff, negb_true_iff, IH. split.
    + intros [E N]. constructor; auto. intros I.
      assert (existsb (pair_eqb x) l = true) by (apply existsb_exists; exists x; split; auto; apply pair_eqb_eq; auto).
      congruence.
    + intros N. inversion N; subst. split; auto.
      destruct (existsb (pair_eqb x) l) eqn:E; auto. apply existsb_exists in E. destruct E as [y [I E]].
      apply pair_eqb_eq in E. subst. contradiction.
Qed.

Lemma perm_filter {A} (f : A -> bool) l l' : Permutation l l' -> Permutation (filter f l) (filter f l').
Proof.
  induction 1; simpl; auto.
  - destruct (f x); auto.
  - destruct (f x), (f y); auto. constructor.
  - eapply perm_trans; eauto.
Qed.

Lemma perm_count_o o l l' : Permutation l l' -> count_o o l = count_o o l'.
Proof. intros P. unfold count_o. apply Permutation_length, perm_filter; auto. Qed.

Lemma nodup_app_intro {A} (l l' : list A) :
  NoDup l -> NoDup l' -> (forall x, In x l -> In x l' -> False) -> NoDup (l ++ l').
Proof.
  induction 1 as [|x l NI ND IH]; simpl; auto. intros N' D. constructor.
  - rewrite in_app_iff. intros [I|I]; eauto.
  - apply IH; eauto.
Qed.

Section HProofs.
  Variables St wop wout rop rout : Type.
  Variable wapply : St -> wop -> St * wout.
  Variable rread : St -> rop -> rout.

  Notation cfg := (cfg St wop wout rop rout).
  Notation pc := (pc St wop wout rop rout).
  Notation label := (label wop wout rop rout).
  Notation step := (step St wop wout rop rout wapply rread).
  Notation exec := (exec St wop wout rop rout wapply rread).
  Notation hist := (hist wop wout rop rout).
  Notation hist1 := (hist1 wop wout rop rout).
  Notation quiescent := (quiescent St wop wout rop rout).
  Notation hev := (hev wout rout).
  Notation result := (result wout rout).

  Lemma scan_snoc (h : list hev) e k :
    scan (h ++ [e]) k = match scan h k with Some k' => scan_step k' e | None => None end.
  Proof.
    revert k. induction h as [|x h IH]; simpl; intros k.
    - destruct (scan_step k e); auto.
    - destruct (scan_step k x); auto.
  Qed.

  Lemma hist_snoc tr l : hist (tr ++ [l]) = hist tr ++ hist1 l.
  Proof. unfold Protocol.hist. rewrite flat_map_app. simpl. rewrite app_nil_r. reflexivity. Qed.

  (* ---------- the checker's state is justified by the protocol state ---------- *)

  Definition floor_ok (cn : cnts) (fl : amap) (p : pc) : Prop :=
    match p with
    | Idle => True
    | Called _ | Locked _ _ _ | Loaded _ _ _ _ _ _ => forall o, (aget fl o <= cn o)%N
    | Stored r | Finished r =>
        match r with
        | ResW vs _ => forall o v, In (o, v) vs -> (aget fl o < v)%N /\ (v <= cn o)%N
        | ResR vs _ => forall o v, In (o, v) vs -> (aget fl o <= v)%N /\ (v <= cn o)%N
        | ResA => True
        end
    end.

  Definition J (c : cfg) (k : ck) : Prop :=
    (forall o, (aget (maxret k) o <= cnt c o)%N) /\
    (forall t, match nth t (ths c) Idle with
               | Idle => pget (pend k) t = None
               | p => exists fl, pget (pend k) t = Some fl /\ floor_ok (cnt c) fl p
               end).

  Lemma floor_ok_mono cn cn' fl p :
    (forall o, (cn o <= cn' o)%N) -> floor_ok cn fl p -> floor_ok cn' fl p.
  Proof.
    intros M. destruct p as [| j | os ops b | os ops b v c0 s | r | r]; simpl; auto;
      try (intros F o; eapply N.le_trans; [apply F|apply M]);
      destruct r; auto; intros F o v I; destruct (F o v I); split; auto; eapply N.le_trans; eauto.
  Qed.

  Lemma bump_ge cn os o : (cn o <= bump cn os o)%N.
  Proof. unfold bump. destruct (existsb (Nat.eqb o) os); lia. Qed.

  Lemma J2_other (c : cfg) k t p' :
    (forall t', t' <> t -> match nth t' (upd t p' (ths c)) Idle with
                            | Idle => pget (pend k) t' = None
                            | p => exists fl, pget (pend k) t' = Some fl /\ floor_ok (cnt c) fl p
                            end) <->
    (forall t', t' <> t -> match nth t' (ths c) Idle with
                            | Idle => pget (pend k) t' = None
                            | p => exists fl, pget (pend k) t' = Some fl /\ floor_ok (cnt c) fl p
                            end).
  Proof.
    split; intros H t' Ne; specialize (H t' Ne); rewrite nth_upd_other_d in * by auto; auto.
  Qed.

  (* a step of thread t that does not change cnt, is silent in the history, and keeps the floor condition *)
  Lemma J_silent (c : cfg) k t p p' m v s :
    nth_error (ths c) t = Some p -> p <> Idle -> p' <> Idle ->
    (forall fl, floor_ok (cnt c) fl p -> floor_ok (cnt c) fl p') ->
    J c k -> J (mkCfg m v (cnt c) s (upd t p' (ths c))) k.
  Proof.
    intros H NI NI' F [J1 J2]. split; simpl; auto.
    intros t'. destruct (Nat.eq_dec t' t) as [->|Ne].
    - rewrite (nth_upd_same_d _ _ _ _ Idle H). specialize (J2 t). rewrite (nth_error_nth _ _ _ Idle H) in J2.
      destruct p; try congruence; destruct J2 as [fl [G Fo]]; destruct p'; try congruence; exists fl; split; auto;
        apply (F fl Fo).
    - rewrite nth_upd_other_d by auto. apply J2.
  Qed.

  Lemma J_exec s0 n tr c :
    exec s0 n tr c -> exists k, scan (hist tr) (mkCk [] []) = Some k /\ J c k.
  Proof.
    induction 1 as [|tr c l c' E [k [Sc [J1 J2]]] S].
    - exists (mkCk [] []). split; auto. split; simpl; [intros; lia|].
      intros t. assert (Hn : nth t (repeat (@Idle St wop wout rop rout) n) Idle = Idle).
      { clear. revert t. induction n; intros [|t]; simpl; auto. }
      rewrite Hn. auto.
    - pose proof (base_exec _ _ _ _ _ _ _ _ _ _ _ E) as B.
      rewrite hist_snoc. destruct S; simpl hist1; rewrite ?app_nil_r.
      + (* spawn *) exists k. split; auto. split; simpl; auto. intros t. rewrite nth_app_idle. apply J2.
      + (* call *)
        rewrite scan_snoc, Sc. simpl.
        pose proof (J2 t) as Jt. rewrite (nth_error_nth _ _ _ Idle H) in Jt. rewrite Jt.
        eexists. split; [reflexivity|]. split; simpl; auto.
        intros t'. destruct (Nat.eq_dec t' t) as [->|Ne].
        * rewrite (nth_upd_same_d _ _ _ _ Idle H). rewrite Nat.eqb_refl. eexists. split; [reflexivity|].
          simpl. auto.
        * rewrite nth_upd_other_d by auto. apply Nat.eqb_neq in Ne. rewrite Ne. apply J2.
      + (* lock *) exists k. split; auto.
        eapply (J_silent c k t _ (Locked os ops b) true (ver c) (st c)); eauto; try discriminate. split; auto.
      + (* loadw *) exists k. split; auto. unfold setpc.
        eapply (J_silent c k t _ (Loaded os ops b (ver c) (cnt c) (st c))); eauto; try discriminate. split; auto.
      + (* store *)
        destruct (B _ _ _ _ _ _ _ H) as [-> [-> ->]].
        exists k. split; auto. split; simpl.
        * intros o. eapply N.le_trans; [apply J1|apply bump_ge].
        * intros t'. destruct (Nat.eq_dec t' t) as [->|Ne].
          -- rewrite (nth_upd_same_d _ _ _ _ Idle H).
             specialize (J2 t). rewrite (nth_error_nth _ _ _ Idle H) in J2. destruct J2 as [fl [G Fo]].
             exists fl. split; auto. simpl in *. intros o v I. apply in_stamps in I. destruct I as [I ->].
             unfold bump. apply existsb_eqb_in in I. rewrite I. specialize (Fo o). split; lia.
          -- rewrite nth_upd_other_d by auto. specialize (J2 t').
             destruct (nth t' (ths c) Idle) eqn:Pc; auto; destruct J2 as [fl [G Fo]]; exists fl; split; auto;
               exact (floor_ok_mono _ _ _ _ (bump_ge (cnt c) os) Fo).
      + (* unlock (commit) *) exists k. split; auto.
        eapply (J_silent c k t _ (Finished r) false (ver c) (st c)); eauto; try discriminate. split; auto.
      + (* unlock (abort) *) exists k. split; auto.
        eapply (J_silent c k t _ (Finished ResA) false (ver c) (st c)); eauto; try discriminate.
        * simpl; auto.
        * split; auto.
      + (* load (reader) *) exists k. split; auto. unfold setpc.
        eapply (J_silent c k t _ (Finished (ResR (stamps (cnt c) os) (rread (st c) r)))); eauto; try discriminate.
        * simpl. intros fl F o v I. apply in_stamps in I. destruct I as [_ ->]. split; [apply F|lia].
        * split; auto.
      + (* ret *)
        rewrite scan_snoc, Sc. simpl.
        pose proof (J2 t) as Jt. rewrite (nth_error_nth _ _ _ Idle H) in Jt. destruct Jt as [fl [G Fo]].
        rewrite G. simpl in Fo.
        assert (Rk : res_ok fl r = true).
        { destruct r; simpl; auto; apply forallb_forall; intros [o v] I; destruct (Fo o v I); simpl.
          - apply N.ltb_lt; auto.
          - apply N.leb_le; auto. }
        rewrite Rk. eexists. split; [reflexivity|]. split; simpl.
        * apply aget_fold_le; auto. intros [o v] I. simpl. destruct r; simpl in I; try contradiction; apply (Fo o v I).
        * intros t'. destruct (Nat.eq_dec t' t) as [->|Ne].
          -- rewrite (nth_upd_same_d _ _ _ _ Idle H). apply pget_prem_same.
          -- rewrite nth_upd_other_d by auto. rewrite pget_prem_other by auto. apply J2.
  Qed.

  (* ---------- committed versions: each object's versions are 1..cnt, each produced exactly once ---------- *)

  Definition stored1 (l : label) : list (obj * N) := match l with LStore _ _ _ _ vs => vs | _ => [] end.
  Definition stored (tr : list label) : list (obj * N) := flat_map stored1 tr.
  Definition retW1 (l : label) : list (obj * N) := match l with LRet _ (ResW vs _) => vs | _ => [] end.
  Definition retWtr (tr : list label) : list (obj * N) := flat_map retW1 tr.
  Definition contrib (p : pc) : list (obj * N) :=
    match p with Stored (ResW vs _) | Finished (ResW vs _) => vs | _ => [] end.
  Definition inflight (l : list pc) : list (obj * N) := flat_map contrib l.

  Lemma retW_hist tr : retW (hist tr) = retWtr tr.
  Proof.
    induction tr as [|l tr IH]; simpl; auto.
    destruct l; simpl; auto. destruct r; simpl; auto. rewrite IH. auto.
  Qed.

  Lemma inflight_upd l t p p' :
    nth_error l t = Some p ->
    Permutation (contrib p' ++ inflight l) (contrib p ++ inflight (upd t p' l)).
  Proof.
    revert t. induction l as [|a l IH]; intros [|t] H; simpl in *; try discriminate.
    - inversion H; subst. rewrite !app_assoc. apply Permutation_app_tail, Permutation_app_comm.
    - specialize (IH _ H).
      rewrite !app_assoc.
      eapply perm_trans; [apply Permutation_app_tail, Permutation_app_comm|].
      rewrite <- !app_assoc. eapply perm_trans; [apply Permutation_app_head, IH|].
      rewrite !app_assoc. apply Permutation_app_tail, Permutation_app_comm.
  Qed.

  Definition W (c : cfg) (tr : list label) : Prop :=
    Permutation (retWtr tr ++ inflight (ths c)) (stored tr) /\
    NoDup (stored tr) /\
    (forall o v, In (o, v) (stored tr) -> (1 <= v)%N /\ (v <= cnt c o)%N) /\
    (forall o, N.of_nat (count_o o (stored tr)) = cnt c o).

  Lemma stored_snoc tr l : stored (tr ++ [l]) = stored tr ++ stored1 l.
  Proof. unfold stored. rewrite flat_map_app. simpl. rewrite app_nil_r. reflexivity. Qed.
  Lemma retWtr_snoc tr l : retWtr (tr ++ [l]) = retWtr tr ++ retW1 l.
  Proof. unfold retWtr. rewrite flat_map_app. simpl. rewrite app_nil_r. reflexivity. Qed.

  Lemma inflight_same l t p p' :
    nth_error l t = Some p -> contrib p = [] -> contrib p' = [] -> Permutation (inflight l) (inflight (upd t p' l)).
  Proof.
    intros H E E'. pose proof (inflight_upd l t p p' H) as P. rewrite E, E' in P. exact P.
  Qed.

  Lemma W_exec s0 n tr c : exec s0 n tr c -> W c tr.
  Proof.
    induction 1 as [|tr c l c' E [P [ND [R C]]] S].
    - unfold W. simpl. repeat split; try constructor; try contradiction; auto.
      assert (G : inflight (repeat (@Idle St wop wout rop rout) n) = []) by (clear; induction n; simpl; auto).
      rewrite G. constructor.
    - pose proof (base_exec _ _ _ _ _ _ _ _ _ _ _ E) as B.
      pose proof (all_wf_exec _ _ _ _ _ _ _ _ _ _ _ E) as WF.
      unfold W. rewrite stored_snoc, retWtr_snoc.
      destruct S; simpl stored1; simpl retW1; simpl ths; simpl cnt; rewrite ?app_nil_r.
      + split; [|auto]. unfold inflight. rewrite flat_map_app. simpl. rewrite app_nil_r. exact P.
      + split; [|auto]. eapply perm_trans; [|exact P]. apply Permutation_app_head, Permutation_sym.
        eapply inflight_same; eauto.
      + split; [|auto]. eapply perm_trans; [|exact P]. apply Permutation_app_head, Permutation_sym.
        eapply inflight_same; eauto.
      + split; [|auto]. eapply perm_trans; [|exact P]. apply Permutation_app_head, Permutation_sym.
        eapply inflight_same; eauto.
      + (* store *)
        destruct (B _ _ _ _ _ _ _ H) as [-> [-> ->]].
        set (vs := stamps (bump (cnt c) os) os).
        assert (NewIn : forall o v, In (o, v) vs -> In o os /\ v = (cnt c o + 1)%N).
        { intros o v I. apply in_stamps in I. destruct I as [I ->]. split; auto.
          unfold bump. apply existsb_eqb_in in I. rewrite I. auto. }
        repeat split.
        * pose proof (inflight_upd (ths c) t _ (Stored (ResW vs (snd (wrun St wop wout wapply (st c) ops)))) H) as Q.
          simpl in Q.
          eapply perm_trans; [apply Permutation_app_head, Permutation_sym, Q|].
          eapply perm_trans; [apply Permutation_app_head, Permutation_app_comm|].
          rewrite app_assoc. apply Permutation_app_tail. exact P.
        * apply nodup_app_intro; auto; [apply nodup_stamps|].
          intros [o v] I I'. destruct (NewIn _ _ I') as [_ ->]. destruct (R _ _ I). lia.
        * apply in_app_iff in H0. destruct H0 as [I|I].
          -- apply (R _ _ I).
          -- destruct (NewIn _ _ I) as [_ ->]. lia.
        * apply in_app_iff in H0. destruct H0 as [I|I].
          -- eapply N.le_trans; [apply (R _ _ I)|apply bump_ge].
          -- apply in_stamps in I. destruct I as [_ ->]. lia.
        * intros o. rewrite count_o_app, Nat2N.inj_add, C. unfold vs. rewrite count_o_stamps. unfold bump.
          destruct (existsb (Nat.eqb o) os); simpl; lia.
      + (* unlock commit *)
        split; [|auto]. eapply perm_trans; [|exact P]. apply Permutation_app_head.
        pose proof (inflight_upd (ths c) t _ (Finished r) H) as Q.
        specialize (WF _ _ H). simpl in WF. destruct r; try contradiction. simpl in Q.
        apply Permutation_app_inv_l in Q. apply Permutation_sym. exact Q.
      + split; [|auto]. eapply perm_trans; [|exact P]. apply Permutation_app_head, Permutation_sym.
        eapply inflight_same; eauto.
      + split; [|auto]. eapply perm_trans; [|exact P]. apply Permutation_app_head, Permutation_sym.
        eapply inflight_same; eauto.
      + (* ret *)
        split; [|auto]. eapply perm_trans; [|exact P].
        pose proof (inflight_upd (ths c) t _ Idle H) as Q. simpl in Q.
        destruct r; simpl in *; rewrite ?app_nil_r.
        * rewrite <- app_assoc. apply Permutation_app_head. apply Permutation_sym. exact Q.
        * apply Permutation_app_head. apply Permutation_sym. exact Q.
        * apply Permutation_app_head. apply Permutation_sym. exact Q.
  Qed.

  Lemma quiescent_inflight (c : cfg) : quiescent c -> inflight (ths c) = [].
  Proof.
    unfold Protocol.quiescent. induction (ths c) as [|p l IH]; simpl; auto.
    intros F. inversion F; subst. simpl. auto.
  Qed.

  Lemma quiescent_nth (c : cfg) t : quiescent c -> nth t (ths c) Idle = Idle.
  Proof.
    unfold Protocol.quiescent. revert t. induction (ths c) as [|p l IH]; intros [|t] F; simpl; auto.
    - inversion F; auto.
    - inversion F; auto.
  Qed.

  Theorem history_ok_complete_thm s0 n tr c :
    exec s0 n tr c -> quiescent c -> history_ok (hist tr) = true.
  Proof.
    intros E Q. unfold history_ok.
    destruct (J_exec _ _ _ _ E) as [k [Sc [_ J2]]]. rewrite Sc.
    assert (Pk : pend k = []).
    { apply pget_all_none. intros t. specialize (J2 t). rewrite (quiescent_nth _ _ Q) in J2. exact J2. }
    rewrite Pk, retW_hist.
    destruct (W_exec _ _ _ _ E) as [P [ND [R C]]]. rewrite (quiescent_inflight _ Q), app_nil_r in P.
    unfold writes_ok. apply andb_true_iff. split.
    - apply nodupb_iff. eapply Permutation_NoDup; [apply Permutation_sym; exact P|exact ND].
    - apply forallb_forall. intros [o v] I. simpl.
      assert (I' : In (o, v) (stored tr)) by (eapply Permutation_in; eauto).
      destruct (R _ _ I') as [L U]. rewrite (perm_count_o o _ _ P), C.
      apply andb_true_iff. split; apply N.leb_le; auto.
  Qed.

  (* ---------- soundness: what an accepted history cannot contain ---------- *)

  Definition hev_tid (e : hev) : nat := match e with HCall t => t | HRet t _ => t end.
  Definition is_write (r : result) : bool := match r with ResW _ _ => true | _ => false end.

  Theorem history_ok_sound_writes_thm (h : list hev) :
    history_ok h = true ->
    NoDup (retW h) /\
    forall o v, In (o, v) (retW h) -> (1 <= v)%N /\ (v <= N.of_nat (count_o o (retW h)))%N.
  Proof.
    unfold history_ok. destruct (scan h (mkCk [] [])) as [k|]; try discriminate.
    destruct (pend k); try discriminate. unfold writes_ok. rewrite andb_true_iff. intros [A B]. split.
    - apply nodupb_iff; auto.
    - intros o v I. rewrite forallb_forall in B. specialize (B _ I). simpl in B.
      apply andb_true_iff in B. destruct B as [B1 B2]. apply N.leb_le in B1, B2. auto.
  Qed.

  Lemma scan_app (h h' : list hev) k :
    scan (h ++ h') k = match scan h k with Some k' => scan h' k' | None => None end.
  Proof.
    revert k. induction h as [|x h IH]; simpl; intros k; auto. destruct (scan_step k x); auto.
  Qed.

  Lemma scan_step_mono k (e : hev) k' o :
    scan_step k e = Some k' -> (aget (maxret k) o <= aget (maxret k') o)%N.
  Proof.
    destruct e as [t|t r]; simpl.
    - destruct (pget (pend k) t); intros E; inversion E; subst; simpl. lia.
    - destruct (pget (pend k) t); try discriminate. destruct (res_ok a r); intros E; inversion E; subst; simpl.
      apply aget_fold_ge.
  Qed.

  Lemma scan_mono (h : list hev) k k' o :
    scan h k = Some k' -> (aget (maxret k) o <= aget (maxret k') o)%N.
  Proof.
    revert k. induction h as [|x h IH]; simpl; intros k E.
    - inversion E; subst. lia.
    - destruct (scan_step k x) as [k1|] eqn:E1; try discriminate.
      eapply N.le_trans; [eapply scan_step_mono; eauto|eauto].
  Qed.

  Lemma scan_pget_other (h : list hev) k k' t :
    scan h k = Some k' -> (forall e, In e h -> hev_tid e <> t) -> pget (pend k') t = pget (pend k) t.
  Proof.
    revert k. induction h as [|x h IH]; simpl; intros k E D.
    - inversion E; subst; auto.
    - destruct (scan_step k x) as [k1|] eqn:E1; try discriminate.
      rewrite (IH _ E) by (intros; apply D; auto).
      assert (Dx : hev_tid x <> t) by (apply D; auto).
      destruct x as [t'|t' r]; simpl in *.
      + destruct (pget (pend k) t'); inversion E1; subst; simpl.
        apply not_eq_sym, Nat.eqb_neq in Dx. rewrite Dx. auto.
      + destruct (pget (pend k) t'); try discriminate. destruct (res_ok a r); inversion E1; subst; simpl.
        apply pget_prem_other; auto.
  Qed.

  (* no stale read, no write ordered before something that had already returned:
     if operation a returned before operation b was called, b's version of every object is at least a's,
     and strictly larger if b is a committed write *)
  Theorem history_ok_sound_realtime_thm (h1 h2 h3 h4 : list hev) ta ra tb rb k0 k :
    scan (h1 ++ HRet ta ra :: h2 ++ HCall tb :: h3 ++ HRet tb rb :: h4) k0 = Some k ->
    (forall e, In e h3 -> hev_tid e <> tb) ->
    forall o va vb, In (o, va) (res_versions ra) -> In (o, vb) (res_versions rb) ->
      (va <= vb)%N /\ (is_write rb = true -> (va < vb)%N).
  Proof.
    intros Sc D o va vb Ia Ib.
    rewrite scan_app in Sc. destruct (scan h1 k0) as [k1|]; try discriminate.
    cbn [scan] in Sc. destruct (scan_step k1 (HRet ta ra)) as [k2|] eqn:E2; try discriminate.
    rewrite scan_app in Sc. destruct (scan h2 k2) as [k3|] eqn:E3; try discriminate.
    cbn [scan] in Sc. destruct (scan_step k3 (HCall tb)) as [k4|] eqn:E4; try discriminate.
    rewrite scan_app in Sc. destruct (scan h3 k4) as [k5|] eqn:E5; try discriminate.
    cbn [scan] in Sc. destruct (scan_step k5 (HRet tb rb)) as [k6|] eqn:E6; try discriminate.
    (* a's version reaches maxret *)
    assert (A : (va <= aget (maxret k2) o)%N).
    { simpl in E2. destruct (pget (pend k1) ta); try discriminate. destruct (res_ok a ra); inversion E2; subst; simpl.
      apply (aget_fold_in _ _ (o, va)); auto. }
    assert (A3 : (va <= aget (maxret k3) o)%N) by (eapply N.le_trans; [exact A|eapply scan_mono; eauto]).
    (* b's floor is maxret at its call *)
    assert (F4 : pget (pend k4) tb = Some (maxret k3)).
    { simpl in E4. destruct (pget (pend k3) tb); inversion E4; subst; simpl. rewrite Nat.eqb_refl. auto. }
    assert (F5 : pget (pend k5) tb = Some (maxret k3)) by (rewrite (scan_pget_other _ _ _ _ E5 D); auto).
    simpl in E6. rewrite F5 in E6. destruct (res_ok (maxret k3) rb) eqn:Rk; try discriminate.
    destruct rb as [vs outs| |vs out]; simpl in *; try contradiction.
    - rewrite forallb_forall in Rk. specialize (Rk _ Ib). simpl in Rk. apply N.ltb_lt in Rk. split; intros; lia.
    - rewrite forallb_forall in Rk. specialize (Rk _ Ib). simpl in Rk. apply N.leb_le in Rk.
      split; [lia|discriminate].
  Qed.

End HProofs.
