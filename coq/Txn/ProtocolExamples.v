(* C05: non-vacuity. A concrete execution of the protocol (two threads: a committing writer
   overlapped by a reader, then an aborting writer), the states it goes through and the
   history it produces. *)
Require Import List Bool Arith NArith.
Import ListNotations.
From FoxTxn Require Import Protocol ProtocolProofs HistoryProofs.

(* state = list of numbers; write n = cons n (returns whether it was new); read n = membership *)
Definition xapply (s : list nat) (o : nat) : list nat * bool :=
  if existsb (Nat.eqb o) s then (s, false) else (o :: s, true).
Definition xread (s : list nat) (r : nat) : bool := existsb (Nat.eqb r) s.

Notation xexec := (exec (list nat) nat bool nat bool xapply xread).
Notation xstep := (step (list nat) nat bool nat bool xapply xread).
Notation xcfg := (cfg (list nat) nat bool nat bool).

Definition jw : job nat nat := JW [0; 1] [5; 5] true.
Definition ja : job nat nat := JW [0] [6] false.
Definition jr : job nat nat := JR [0; 1] 5.

Definition c0 : xcfg := init (list nat) nat bool nat bool [] 2.

(* the trace *)
Definition tr_ex : list (label nat bool nat bool) :=
  [ LCall 0 jw; LLock 0; LCall 1 jr; LLoadW 0 0%N;
    LStore 0 1%N [5; 5] [true; false] [(0, 1%N); (1, 1%N)];
    LLoadR 1 1%N 5 true [(0, 1%N); (1, 1%N)];
    LUnlock 0; LRet 1 (ResR [(0, 1%N); (1, 1%N)] true); LRet 0 (ResW [(0, 1%N); (1, 1%N)] [true; false]);
    LCall 1 ja; LLock 1; LLoadW 1 1%N; LUnlock 1; LRet 1 ResA ].

Definition c_loaded : xcfg :=
  mkCfg true 0%N (fun _ => 0%N) [] [Loaded [0; 1] [5; 5] true 0%N (fun _ => 0%N) []; Called jr].

Definition c_final : xcfg :=
  mkCfg false 1%N (bump (fun _ => 0%N) [0; 1]) [5] [Idle; Idle].

Lemma ex_prefix : xexec [] 2 (firstn 4 tr_ex) c_loaded.
Proof.
  unfold tr_ex, c_loaded. simpl firstn.
  change [LCall 0 jw; LLock 0; LCall 1 jr; LLoadW 0 0%N]
    with (((([] ++ [LCall 0 jw]) ++ [LLock 0]) ++ [LCall 1 jr]) ++ [@LLoadW nat bool nat bool 0 0%N]).
  eapply e_step. eapply e_step. eapply e_step. eapply e_step. apply e_init.
  - apply (s_call _ _ _ _ _ xapply xread c0 0 jw). reflexivity.
  - apply (s_lock _ _ _ _ _ xapply xread _ 0 [0; 1] [5; 5] true); reflexivity.
  - apply (s_call _ _ _ _ _ xapply xread _ 1 jr). reflexivity.
  - apply (s_loadw _ _ _ _ _ xapply xread (mkCfg true 0%N (fun _ => 0%N) [] [Locked [0; 1] [5; 5] true; Called jr]) 0 [0; 1] [5; 5] true). reflexivity.
Qed.

Lemma ex_full : xexec [] 2 tr_ex c_final.
Proof.
  unfold tr_ex.
  change [ LCall 0 jw; LLock 0; LCall 1 jr; LLoadW 0 0%N;
    LStore 0 1%N [5; 5] [true; false] [(0, 1%N); (1, 1%N)];
    LLoadR 1 1%N 5 true [(0, 1%N); (1, 1%N)];
    LUnlock 0; LRet 1 (ResR [(0, 1%N); (1, 1%N)] true); LRet 0 (ResW [(0, 1%N); (1, 1%N)] [true; false]);
    LCall 1 ja; LLock 1; LLoadW 1 1%N; LUnlock 1; LRet 1 ResA ]
  with ((((((((((firstn 4 tr_ex ++ [LStore 0 1%N [5; 5] [true; false] [(0, 1%N); (1, 1%N)]]) ++
    [LLoadR 1 1%N 5 true [(0, 1%N); (1, 1%N)]]) ++ [LUnlock 0]) ++ [LRet 1 (ResR [(0, 1%N); (1, 1%N)] true)]) ++
    [LRet 0 (ResW [(0, 1%N); (1, 1%N)] [true; false])]) ++ [LCall 1 ja]) ++ [LLock 1]) ++ [LLoadW 1 1%N]) ++
    [LUnlock 1]) ++ [@LRet nat bool nat bool 1 ResA]).
  eapply e_step. eapply e_step. eapply e_step. eapply e_step. eapply e_step.
  eapply e_step. eapply e_step. eapply e_step. eapply e_step. eapply e_step.
  apply ex_prefix.
  - apply (s_store _ _ _ _ _ xapply xread c_loaded 0 [0; 1] [5; 5] 0%N (fun _ => 0%N) []). reflexivity.
  - (match goal with |- step _ _ _ _ _ _ _ ?c _ _ => apply (s_loadr _ _ _ _ _ xapply xread c 1 [0; 1] 5) end); reflexivity.
  - (match goal with |- step _ _ _ _ _ _ _ ?c _ _ => apply (s_unlock_commit _ _ _ _ _ xapply xread c 0 (ResW [(0, 1%N); (1, 1%N)] [true; false])) end); reflexivity.
  - (match goal with |- step _ _ _ _ _ _ _ ?c _ _ => apply (s_ret _ _ _ _ _ xapply xread c 1 (ResR [(0, 1%N); (1, 1%N)] true)) end); reflexivity.
  - (match goal with |- step _ _ _ _ _ _ _ ?c _ _ => apply (s_ret _ _ _ _ _ xapply xread c 0 (ResW [(0, 1%N); (1, 1%N)] [true; false])) end); reflexivity.
  - (match goal with |- step _ _ _ _ _ _ _ ?c _ _ => apply (s_call _ _ _ _ _ xapply xread c 1 ja) end); reflexivity.
  - (match goal with |- step _ _ _ _ _ _ _ ?c _ _ => apply (s_lock _ _ _ _ _ xapply xread c 1 [0] [6] false) end); reflexivity.
  - (match goal with |- step _ _ _ _ _ _ _ ?c _ _ => apply (s_loadw _ _ _ _ _ xapply xread c 1 [0] [6] false) end); reflexivity.
  - (match goal with |- step _ _ _ _ _ _ _ ?c _ _ => apply (s_unlock_abort _ _ _ _ _ xapply xread c 1 [0] [6] 1%N (bump (fun _ => 0%N) [0; 1]) [5]) end); reflexivity.
  - apply (s_ret _ _ _ _ _ xapply xread (mkCfg false 1%N (bump (fun _ => 0%N) [0; 1]) [5] [Idle; Finished ResA]) 1 ResA). reflexivity.
Qed.

Example ex_quiescent : quiescent _ _ _ _ _ c_final.
Proof. repeat constructor. Qed.

Example ex_history :
  hist _ _ _ _ tr_ex =
  [HCall 0; HCall 1; HRet 1 (ResR [(0, 1%N); (1, 1%N)] true); HRet 0 (ResW [(0, 1%N); (1, 1%N)] [true; false]);
   HCall 1; HRet 1 ResA] /\
  history_ok (hist _ _ _ _ tr_ex) = true.
Proof. split; reflexivity. Qed.

Example ex_lin :
  lin _ _ _ _ tr_ex = [LinW 0 1%N [5; 5] [true; false]; LinR 1 1%N 5 true].
Proof. reflexivity. Qed.
