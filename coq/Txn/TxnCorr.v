(* C04 correspondence: the lifecycle model instantiated with the exact reference
   map keyed by (method, pattern) (the harness uses patterns that cannot
   conflict, so Ok / ErrRouteExist / ErrRouteNotFound are the only outcomes),
   the case type written by harness/cmd/c04, and an independently written
   specification checker (published state = fold of the committed
   transactions' operation lists; a transaction reads its own writes). *)
Require Import List Bool Arith NArith.
Import ListNotations.
From FoxBase Require Import Bytes.
From FoxTxn Require Import TxnSeq.

(* ---------- reference map ---------- *)

Definition key := (nat * nat)%type.           (* method index, pattern index (harness pools) *)
Definition cstate := list (key * N).          (* sorted by key; value = tag of the registered handler *)

Definition key_eqb (a b : key) : bool := Nat.eqb (fst a) (fst b) && Nat.eqb (snd a) (snd b).
Definition key_ltb (a b : key) : bool :=
  Nat.ltb (fst a) (fst b) || (Nat.eqb (fst a) (fst b) && Nat.ltb (snd a) (snd b)).

Fixpoint lookup (k : key) (s : cstate) : option N :=
  match s with
  | [] => None
  | (k', v) :: s' => if key_eqb k k' then Some v else lookup k s'
  end.

Fixpoint ins (k : key) (v : N) (s : cstate) : cstate :=
  match s with
  | [] => [(k, v)]
  | (k', v') :: s' =>
      if key_eqb k k' then (k, v) :: s'
      else if key_ltb k k' then (k, v) :: (k', v') :: s'
      else (k', v') :: ins k v s'
  end.

Definition del (k : key) (s : cstate) : cstate := filter (fun e => negb (key_eqb k (fst e))) s.

Inductive cwop := Handle (k : key) (tag : N) | Update (k : key) (tag : N) | Delete (k : key) | Truncate (ms : list nat).
Inductive cwout := WOk | WErrExist | WErrNotFound | WErrReadOnly.
Inductive crop := RHas (k : key) | RTag (k : key) | RFull.
Inductive crout :=
| ROBool (b : bool)
| ROTag (t : option N)
| ROFull (all : list (key * N)) (has : list bool) (len : nat) (srv : list (option N)).
  (* sorted All(); Has for each pool route; Len(); an actual request for each pool route: the tag of the
     handler that served it, None = not served (404) *)

Definition capply (s : cstate) (o : cwop) : cstate * cwout :=
  match o with
  | Handle k t => match lookup k s with Some _ => (s, WErrExist) | None => (ins k t s, WOk) end
  | Update k t => match lookup k s with Some _ => (ins k t s, WOk) | None => (s, WErrNotFound) end
  | Delete k => match lookup k s with Some _ => (del k s, WOk) | None => (s, WErrNotFound) end
  | Truncate ms =>
      match ms with
      | [] => ([], WOk)
      | _ => (filter (fun e => negb (existsb (Nat.eqb (fst (fst e))) ms)) s, WOk)
      end
  end.

Definition cfail (o : cwout) : bool := match o with WOk => false | _ => true end.
Definition cro (_ : cwop) : cwout := WErrReadOnly.

Definition cread (pool : list key) (s : cstate) (r : crop) : crout :=
  match r with
  | RHas k => ROBool (match lookup k s with Some _ => true | None => false end)
  | RTag k => ROTag (lookup k s)
  | RFull => ROFull s (map (fun k => match lookup k s with Some _ => true | None => false end) pool) (List.length s)
                    (map (fun k => lookup k s) pool)
  end.

Definition cobs := obs cwout crout.
Definition cbstep := bstep cwop crop.
Definition cstep := step cwop crop.

Definition crun (pool : list key) (l : list cstep) : list (list cobs) :=
  snd (run capply cfail (cread pool) cro l (init [])).

(* ---------- equality of observations ---------- *)

Definition kv_eqb (a b : key * N) : bool := key_eqb (fst a) (fst b) && N.eqb (snd a) (snd b).

Definition cwout_eqb (a b : cwout) : bool :=
  match a, b with
  | WOk, WOk | WErrExist, WErrExist | WErrNotFound, WErrNotFound | WErrReadOnly, WErrReadOnly => true
  | _, _ => false
  end.

Definition crout_eqb (a b : crout) : bool :=
  match a, b with
  | ROBool x, ROBool y => Bool.eqb x y
  | ROTag x, ROTag y => opt_eqb N.eqb x y
  | ROFull a1 h1 n1 s1, ROFull a2 h2 n2 s2 =>
      list_eqb kv_eqb a1 a2 && list_eqb Bool.eqb h1 h2 && Nat.eqb n1 n2 && list_eqb (opt_eqb N.eqb) s1 s2
  | _, _ => false
  end.

Definition cobs_eqb (a b : cobs) : bool :=
  match a, b with
  | OUnit, OUnit | OBlocked, OBlocked | ONoHandle, ONoHandle | OPanicSettled, OPanicSettled | ONil, ONil
  | OFinNil, OFinNil | OFinErr, OFinErr | OFinPanicV, OFinPanicV | OFinPanicSettled, OFinPanicSettled
  | OFinBlocked, OFinBlocked | OFinGoexit, OFinGoexit => true
  | OW x, OW y => cwout_eqb x y
  | OR x, OR y => crout_eqb x y
  | OHandle x, OHandle y => Nat.eqb x y
  | _, _ => false
  end.

(* ---------- cases ---------- *)

(* (pool of keys the reader probes with Has, history, what the implementation did at each step) *)
Definition case := (list key * list cstep * list (list cobs))%type.

Definition model_agrees (c : case) : bool :=
  let '(pool, l, observed) := c in
  list_eqb (list_eqb cobs_eqb) (crun pool l) observed.

(* ---------- specification checker (independent of TxnSeq) ----------
   committed : fold of the operation lists of the transactions committed so far
   wopen     : the write transaction in progress (handle, its operations so far)
   rhs       : read-only transactions / snapshots / iterators with the state they froze
   settled   : committed or aborted write transactions
   nh        : number of Txn/Iter values handed out so far                               *)
Record sp := mkSp {
  committed : cstate; wopen : option (nat * list cwop); rhs : list (nat * cstate);
  settled : list nat; nh : nat }.

Definition cfold (s : cstate) (os : list cwop) : cstate := fold_left (fun s o => fst (capply s o)) os s.

Fixpoint assoc {A} (h : nat) (l : list (nat * A)) : option A :=
  match l with [] => None | (h', a) :: l' => if Nat.eqb h h' then Some a else assoc h l' end.

Definition is_open (st : sp) (h : nat) : option (list cwop) :=
  match wopen st with Some (h', ops) => if Nat.eqb h h' then Some ops else None | None => None end.

(* state a handle reads from: Some (state) | None if settled / unknown *)
Definition view_of (st : sp) (h : nat) : option cstate :=
  match is_open st h with
  | Some ops => Some (cfold (committed st) ops)
  | None => assoc h (rhs st)
  end.

Definition is_settled (st : sp) (h : nat) : bool := existsb (Nat.eqb h) (settled st).

Definition new_handle (st : sp) (o : cobs) (frozen : cstate) : option sp :=
  if cobs_eqb o (OHandle (nh st))
  then Some (mkSp (committed st) (wopen st) ((nh st, frozen) :: rhs st) (settled st) (S (nh st)))
  else None.

Definition expect (b : bool) (st : sp) : option sp := if b then Some st else None.

Definition spec_bstep (pool : list key) (x : cbstep) (o : cobs) (st : sp) : option sp :=
  match x with
  | RRead r => expect (cobs_eqb o (OR (cread pool (committed st) r))) st
  | Begin true =>
      match wopen st with
      | Some _ => expect (cobs_eqb o OBlocked) st
      | None => if cobs_eqb o (OHandle (nh st))
                then Some (mkSp (committed st) (Some (nh st, [])) (rhs st) (settled st) (S (nh st)))
                else None
      end
  | Begin false => new_handle st o (committed st)
  | TWrite h w =>
      match is_open st h with
      | Some ops =>
          if cobs_eqb o (OW (snd (capply (cfold (committed st) ops) w)))
          then Some (mkSp (committed st) (Some (h, ops ++ [w])) (rhs st) (settled st) (nh st))
          else None
      | None =>
          if is_settled st h then expect (cobs_eqb o OPanicSettled) st
          else match assoc h (rhs st) with
               | Some _ => expect (cobs_eqb o (OW WErrReadOnly)) st
               | None => None
               end
      end
  | TRead h r =>
      match view_of st h with
      | Some s => expect (cobs_eqb o (OR (cread pool s r))) st
      | None => if is_settled st h then expect (cobs_eqb o OPanicSettled) st else None
      end
  | TCommit h =>
      match is_open st h with
      | Some ops => if cobs_eqb o OUnit
                    then Some (mkSp (cfold (committed st) ops) None (rhs st) (h :: settled st) (nh st))
                    else None
      | None => expect (cobs_eqb o OUnit) st
      end
  | TAbort h =>
      match is_open st h with
      | Some ops => if cobs_eqb o OUnit
                    then Some (mkSp (committed st) None (rhs st) (h :: settled st) (nh st))
                    else None
      | None => expect (cobs_eqb o OUnit) st
      end
  | TSnapshot h =>
      match view_of st h with
      | Some s => new_handle st o s
      | None => if is_settled st h then expect (cobs_eqb o ONil) st else None
      end
  | TIter h =>
      match view_of st h with
      | Some s => new_handle st o s
      | None => if is_settled st h then expect (cobs_eqb o OPanicSettled) st else None
      end
  | Single w =>
      match wopen st with
      | Some _ => expect (cobs_eqb o OBlocked) st
      | None =>
          let (s', r) := capply (committed st) w in
          if cobs_eqb o (OW r)
          then Some (mkSp (if cfail r then committed st else s') None (rhs st) (nh st :: settled st) (S (nh st)))
          else None
      end
  end.

(* body of a managed transaction: returns the state, whether a step panicked, the observations left *)
Fixpoint spec_body (pool : list key) (b : list cbstep) (os : list cobs) (st : sp)
  : option (sp * bool * list cobs) :=
  match b with
  | [] => Some (st, false, os)
  | x :: b' =>
      match os with
      | [] => None
      | o :: os' =>
          match spec_bstep pool x o st with
          | None => None
          | Some st' => if is_panic o then Some (st', true, os') else spec_body pool b' os' st'
          end
      end
  end.

Definition spec_end (h : nat) (commit : bool) (st : sp) : sp :=
  match is_open st h with
  | Some ops => mkSp (if commit then cfold (committed st) ops else committed st) None (rhs st) (h :: settled st) (nh st)
  | None => st
  end.

Definition spec_managed (pool : list key) (wr : bool) (b : list cbstep) (e : ending) (os : list cobs) (st : sp)
  : option sp :=
  match (if wr then wopen st else None) with
  | Some _ => expect (list_eqb cobs_eqb os [OFinBlocked]) st
  | None =>
      let h := nh st in
      let st1 := if wr then mkSp (committed st) (Some (h, [])) (rhs st) (settled st) (S h)
                 else mkSp (committed st) (wopen st) ((h, committed st) :: rhs st) (settled st) (S h) in
      match spec_body pool b os st1 with
      | None => None
      | Some (st2, panicked, rest) =>
          if panicked then expect (list_eqb cobs_eqb rest [OFinPanicSettled]) (spec_end h false st2)
          else match e with
               | RetNil => expect (list_eqb cobs_eqb rest [OFinNil]) (spec_end h wr st2)
               | RetErr => expect (list_eqb cobs_eqb rest [OFinErr]) (spec_end h false st2)
               | PanicV => expect (list_eqb cobs_eqb rest [OFinPanicV]) (spec_end h false st2)
               (* fn ended its goroutine: the call never returns, nothing of the transaction is published *)
               | Goexit => expect (list_eqb cobs_eqb rest [OFinGoexit]) (spec_end h false st2)
               end
      end
  end.

Definition spec_step (pool : list key) (x : cstep) (os : list cobs) (st : sp) : option sp :=
  match x with
  | Plain b => match os with [o] => spec_bstep pool b o st | _ => None end
  | Updates b e => spec_managed pool true b e os st
  | View b e => spec_managed pool false b e os st
  end.

Fixpoint spec_run (pool : list key) (l : list cstep) (obs : list (list cobs)) (st : sp) : bool :=
  match l, obs with
  | [], [] => true
  | x :: l', os :: obs' =>
      match spec_step pool x os st with
      | Some st' => spec_run pool l' obs' st'
      | None => false
      end
  | _, _ => false
  end.

Definition spec_ok (c : case) : bool :=
  let '(pool, l, observed) := c in
  spec_run pool l observed (mkSp [] None [] [] 0).

(* ---------- requests racing with commits (round 7) ----------
   A request is a reader: whatever it answers (status, handler identity, the Allow header of a 405 /
   automatic OPTIONS answer) comes from ONE load of the published tree, i.e. from one committed state.
   The harness commits `pre`, then a writer goroutine commits the transactions of `cycle` (one operation
   list each) again and again while reader goroutines send requests; every distinct (request, answer)
   pair is one case.  The committed states are computed HERE from the operation lists the harness asked for. *)
Definition optM : nat := 4.     (* the request method OPTIONS (never registered by the harness) *)
Definition req_methods : list nat := [0; 1; 2; 3; 4].

Inductive resp :=
| RServed (tag : N)                              (* 200, answered by the handler registered with this tag *)
| RNotFound                                      (* 404 *)
| RNotAllowed (allow : list nat) (opt : bool)    (* 405, Allow = these methods (ascending index) [+ OPTIONS] *)
| ROptions (allow : list nat)                    (* automatic OPTIONS answer: 200, Allow = these methods + OPTIONS *)
| ROther.                                        (* anything else (also: a write of the writer goroutine failed) *)

Definition resp_eqb (a b : resp) : bool :=
  match a, b with
  | RServed x, RServed y => N.eqb x y
  | RNotFound, RNotFound => true
  | RNotAllowed x o, RNotAllowed y q => list_eqb Nat.eqb x y && Bool.eqb o q
  | ROptions x, ROptions y => list_eqb Nat.eqb x y
  | _, _ => false
  end.

(* the committed states: after pre, and after each transaction of two laps of the cycle *)
Fixpoint states_after (s : cstate) (txs : list (list cwop)) : list cstate :=
  match txs with [] => [] | t :: txs' => cfold s t :: states_after (cfold s t) txs' end.
Definition committed_states (pre : list cwop) (cycle : list (list cwop)) : list cstate :=
  cfold [] pre :: states_after (cfold [] pre) (cycle ++ cycle).
(* the cycle returns to the state it started from (so two laps list every committed state) *)
Definition cycle_closed (pre : list cwop) (cycle : list (list cwop)) : bool :=
  list_eqb kv_eqb (cfold (cfold [] pre) (List.concat cycle)) (cfold [] pre).

(* model of ServeHTTP (fox.go:537-660) on ONE tree, for static paths: route handler; else OPTIONS branch
   (WithAutoOptions) ; else 405 branch (WithNoMethod); else 404 *)
Definition methods_at (s : cstate) (p : nat) : list nat :=
  map (fun e => fst (fst e)) (filter (fun e => Nat.eqb (snd (fst e)) p) s).
Definition serve (nm au : bool) (s : cstate) (m p : nat) : resp :=
  match lookup (m, p) s with
  | Some t => RServed t
  | None =>
      let al := filter (fun a => negb (Nat.eqb a m)) (methods_at s p) in
      if Nat.eqb m optM && au then match al with [] => RNotFound | _ => ROptions al end
      else if nm then match al with [] => RNotFound | _ => RNotAllowed al au end
      else RNotFound
  end.

Definition req_model_agrees (nm au : bool) (pre : list cwop) (cycle : list (list cwop)) (m p : nat) (r : resp) : bool :=
  cycle_closed pre cycle &&
  existsb (fun s => resp_eqb (serve nm au s m p) r) (committed_states pre cycle).

(* specification, written from the property text: what the answer SAYS about each route (a, p) --
   Some true: registered, Some false: not registered, None: nothing -- must hold in one committed state *)
Definition says (nm au : bool) (m : nat) (r : resp) (a : nat) : option bool :=
  match r with
  | RServed _ => if Nat.eqb a m then Some true else None
  | RNotFound => if nm || (au && Nat.eqb m optM) || Nat.eqb a m then Some false else None
  | RNotAllowed al _ => if Nat.eqb a m then Some false else Some (existsb (Nat.eqb a) al)
  | ROptions al => if Nat.eqb a m then Some false else Some (existsb (Nat.eqb a) al)
  | ROther => Some false
  end.
Definition well_formed_answer (nm au : bool) (m : nat) (r : resp) : bool :=
  match r with
  | RServed _ | RNotFound => true
  | RNotAllowed al o => nm && negb (au && Nat.eqb m optM) && Bool.eqb o au && negb (Nat.eqb (List.length al) 0)
  | ROptions al => au && Nat.eqb m optM && negb (Nat.eqb (List.length al) 0)
  | ROther => false
  end.
Definition explained_by (nm au : bool) (s : cstate) (m p : nat) (r : resp) : bool :=
  forallb (fun a => match says nm au m r a with
                    | None => true
                    | Some b => Bool.eqb b (match lookup (a, p) s with Some _ => true | None => false end)
                    end) req_methods &&
  match r with RServed t => opt_eqb N.eqb (lookup (m, p) s) (Some t) | _ => true end.
Definition req_spec_ok (nm au : bool) (pre : list cwop) (cycle : list (list cwop)) (m p : nat) (r : resp) : bool :=
  well_formed_answer nm au m r &&
  existsb (fun s => explained_by nm au s m p r) (committed_states pre cycle).

Inductive tcase :=
| CHist (c : case)
| CReq (nm au : bool) (pre : list cwop) (cycle : list (list cwop)) (m p : nat) (r : resp).

Definition tmodel_agrees (c : tcase) : bool :=
  match c with CHist c => model_agrees c | CReq nm au pre cy m p r => req_model_agrees nm au pre cy m p r end.
Definition tspec_ok (c : tcase) : bool :=
  match c with CHist c => spec_ok c | CReq nm au pre cy m p r => req_spec_ok nm au pre cy m p r end.

Definition mismatches (cs : list tcase) : list nat := true_idx (map (fun c => negb (tmodel_agrees c)) cs).
Definition spec_violations (cs : list tcase) : list nat := true_idx (map (fun c => negb (tspec_ok c)) cs).
Definition fuel_outs (cs : list tcase) : list nat := [].   (* the model is structurally recursive: no fuel *)
