(* C04 proofs about the lifecycle model TxnSeq.v (arbitrary abstract state). *)
Require Import List Bool Arith Lia.
Import ListNotations.
From FoxTxn Require Import TxnSeq.

Section Proofs.
  Variables St wop wout rop rout : Type.
  Variable wapply : St -> wop -> St * wout.
  Variable wfail : wout -> bool.
  Variable rread : St -> rop -> rout.
  Variable ro_out : wop -> wout.

  Notation world := (world St).
  Notation txn := (txn St).
  Notation bstep := (bstep wop rop).
  Notation obs := (obs wout rout).
  Notation begin := (@begin St wout rout).
  Notation t_wop := (@t_wop St wop wout rout wapply ro_out).
  Notation t_rop := (@t_rop St wout rop rout rread).
  Notation commit := (@commit St wout rout).
  Notation abort := (@abort St wout rout).
  Notation snapshot := (@snapshot St wout rout).
  Notation iter := (@iter St wout rout).
  Notation single := (@single St wop wout rout wapply wfail ro_out).
  Notation bstep_run := (@bstep_run St wop wout rop rout wapply wfail rread ro_out).
  Notation run_body := (@run_body St wop wout rop rout wapply wfail rread ro_out).
  Notation run_bsteps := (@run_bsteps St wop wout rop rout wapply wfail rread ro_out).
  Notation managed := (@managed St wop wout rop rout wapply wfail rread ro_out).
  Notation step_run := (@step_run St wop wout rop rout wapply wfail rread ro_out).
  Notation run := (@run St wop wout rop rout wapply wfail rread ro_out).
  Notation wfold := (@wfold St wop wout wapply).

  (* ---------- lists ---------- *)

  Lemma nth_error_app_len {A} (l : list A) x : nth_error (l ++ [x]) (length l) = Some x.
  Proof. induction l; simpl; auto. Qed.

  Lemma nth_error_app_lt {A} (l l' : list A) h t : nth_error l h = Some t -> nth_error (l ++ l') h = Some t.
  Proof.
    intros H. rewrite nth_error_app1; auto. apply nth_error_Some. congruence.
  Qed.

  Lemma upd_nth_app_len {A} (l : list A) x y : upd_nth (length l) y (l ++ [x]) = l ++ [y].
  Proof. induction l; simpl; auto. f_equal; auto. Qed.

  Lemma nth_upd_same {A} (l : list A) h t x : nth_error l h = Some t -> nth_error (upd_nth h x l) h = Some x.
  Proof.
    revert h. induction l; intros [|h] H; simpl in *; try discriminate; auto.
  Qed.

  Lemma nth_upd_other {A} (l : list A) h h' x : h <> h' -> nth_error (upd_nth h x l) h' = nth_error l h'.
  Proof.
    revert h h'. induction l; intros [|h] [|h'] H; simpl; auto; try congruence.
  Qed.

  Lemma length_upd {A} (l : list A) h x : length (upd_nth h x l) = length l.
  Proof. revert h; induction l; intros [|h]; simpl; auto. Qed.

  (* ---------- well-formed worlds: the lock is held iff exactly one write txn is live ---------- *)

  Definition live_w (t : txn) : bool :=
    t_write t && match t_root t with Some _ => true | None => false end.

  Definition nlive (l : list txn) : nat := length (filter live_w l).

  Definition wf (w : world) : Prop := nlive (txns w) = if locked w then 1 else 0.

  Definition b2n (b : bool) : nat := if b then 1 else 0.

  Lemma nlive_app l l' : nlive (l ++ l') = nlive l + nlive l'.
  Proof. unfold nlive. rewrite filter_app, app_length. auto. Qed.

  Lemma nlive_cons t l : nlive (t :: l) = b2n (live_w t) + nlive l.
  Proof. unfold nlive; simpl. destruct (live_w t); auto. Qed.

  Lemma nlive_upd l h t t' :
    nth_error l h = Some t -> nlive (upd_nth h t' l) + b2n (live_w t) = nlive l + b2n (live_w t').
  Proof.
    revert h. induction l as [|a l IH]; intros [|h] H; simpl in *; try discriminate.
    - inversion H; subst. rewrite !nlive_cons. lia.
    - rewrite !nlive_cons. specialize (IH _ H). lia.
  Qed.

  Lemma nlive_ge l h t : nth_error l h = Some t -> live_w t = true -> 1 <= nlive l.
  Proof.
    revert h. induction l as [|a l IH]; intros [|h] H L; simpl in *; try discriminate.
    - inversion H; subst. rewrite nlive_cons, L. simpl. lia.
    - rewrite nlive_cons. specialize (IH _ H L). lia.
  Qed.

  Lemma nlive_unique l h h' t t' :
    nlive l <= 1 -> nth_error l h = Some t -> live_w t = true ->
    nth_error l h' = Some t' -> live_w t' = true -> h = h'.
  Proof.
    revert h h'. induction l as [|a l IH]; intros [|h] [|h'] N H L H' L'; simpl in *; try discriminate; auto.
    - inversion H; subst. rewrite nlive_cons, L in N. pose proof (nlive_ge _ _ _ H' L'). simpl in N. lia.
    - inversion H'; subst. rewrite nlive_cons, L' in N. pose proof (nlive_ge _ _ _ H L). simpl in N. lia.
    - f_equal. rewrite nlive_cons in N. eapply IH; eauto. lia.
  Qed.

  Lemma wf_live_locked w h t : wf w -> nth_error (txns w) h = Some t -> live_w t = true -> locked w = true.
  Proof.
    unfold wf; intros W H L. pose proof (nlive_ge _ _ _ H L). destruct (locked w); auto. lia.
  Qed.

  Lemma wf_unique w h h' t t' :
    wf w -> nth_error (txns w) h = Some t -> live_w t = true ->
    nth_error (txns w) h' = Some t' -> live_w t' = true -> h = h'.
  Proof.
    unfold wf; intros W. eapply nlive_unique. destruct (locked w); lia.
  Qed.

  Lemma wf_unlocked_not_live w h t : wf w -> locked w = false -> nth_error (txns w) h = Some t -> live_w t = false.
  Proof.
    intros W U H. destruct (live_w t) eqn:L; auto. rewrite (wf_live_locked _ _ _ W H L) in U. discriminate.
  Qed.

  Lemma wf_init s : wf (init s).
  Proof. reflexivity. Qed.

  (* ---------- closed forms of the primitives ---------- *)

  Lemma commit_live h w s :
    nth_error (txns w) h = Some (mkTxn true (Some s)) ->
    commit h w = (mkW s false (upd_nth h (mkTxn true None) (txns w)), OUnit).
  Proof. unfold TxnSeq.commit. intros ->. reflexivity. Qed.

  Lemma abort_live h w s :
    nth_error (txns w) h = Some (mkTxn true (Some s)) ->
    abort h w = (mkW (pub w) false (upd_nth h (mkTxn true None) (txns w)), OUnit).
  Proof. unfold TxnSeq.abort. intros ->. reflexivity. Qed.

  Lemma commit_not_live h w t :
    nth_error (txns w) h = Some t -> live_w t = false -> commit h w = (w, OUnit).
  Proof.
    unfold TxnSeq.commit, live_w. intros -> L. destruct t as [wr [s|]]; simpl in *; destruct wr; auto; discriminate.
  Qed.

  Lemma abort_not_live h w t :
    nth_error (txns w) h = Some t -> live_w t = false -> abort h w = (w, OUnit).
  Proof.
    unfold TxnSeq.abort, live_w. intros -> L. destruct t as [wr [s|]]; simpl in *; destruct wr; auto; discriminate.
  Qed.

  Lemma live_inv t : live_w t = true -> exists s, t = mkTxn true (Some s).
  Proof. destruct t as [[|] [s|]]; simpl; try discriminate. eauto. Qed.

  Lemma single_spec o w :
    single o w =
    if locked w then (w, OBlocked)
    else (mkW (if wfail (snd (wapply (pub w) o)) then pub w else fst (wapply (pub w) o)) false
              (txns w ++ [mkTxn true None]), OW (snd (wapply (pub w) o))).
  Proof.
    unfold TxnSeq.single, TxnSeq.begin. destruct (locked w) eqn:L; simpl; auto.
    unfold TxnSeq.t_wop. simpl. rewrite nth_error_app_len. simpl.
    destruct (wapply (pub w) o) as [s' x] eqn:E. simpl.
    unfold set_txn. simpl. rewrite upd_nth_app_len.
    destruct (wfail x).
    - erewrite abort_live by (simpl; apply nth_error_app_len). simpl. rewrite upd_nth_app_len. reflexivity.
    - erewrite commit_live by (simpl; apply nth_error_app_len). simpl. rewrite upd_nth_app_len.
      erewrite abort_not_live by (simpl; try apply nth_error_app_len; reflexivity). reflexivity.
  Qed.

  (* ---------- wf is an invariant of every step ---------- *)

  Lemma wf_begin wr w : wf w -> wf (fst (begin wr w)).
  Proof.
    unfold TxnSeq.begin, wf. intros W. destruct wr, (locked w) eqn:L; simpl; rewrite ?L; auto;
      rewrite nlive_app, W; reflexivity.
  Qed.

  Lemma wf_t_wop h o w : wf w -> wf (fst (t_wop h o w)).
  Proof.
    unfold TxnSeq.t_wop, wf. intros W. destruct (nth_error (txns w) h) as [t|] eqn:H; auto.
    destruct t as [wr [s|]]; simpl; auto. destruct wr; simpl; auto.
    destruct (wapply s o) as [s' r]. simpl.
    pose proof (nlive_upd _ _ _ (mkTxn true (Some s')) H) as N. simpl in N. lia.
  Qed.

  Lemma wf_commit h w : wf w -> wf (fst (commit h w)).
  Proof.
    intros W. destruct (nth_error (txns w) h) as [t|] eqn:H.
    - destruct (live_w t) eqn:L.
      + destruct (live_inv _ L) as [s ->]. rewrite (commit_live _ _ _ H). unfold wf in *. simpl.
        rewrite (wf_live_locked _ _ _ W H L) in W.
        pose proof (nlive_upd _ _ _ (mkTxn true None) H) as N. simpl in N. lia.
      + rewrite (commit_not_live _ _ _ H L). auto.
    - unfold TxnSeq.commit. rewrite H. auto.
  Qed.

  Lemma wf_abort h w : wf w -> wf (fst (abort h w)).
  Proof.
    intros W. destruct (nth_error (txns w) h) as [t|] eqn:H.
    - destruct (live_w t) eqn:L.
      + destruct (live_inv _ L) as [s ->]. rewrite (abort_live _ _ _ H). unfold wf in *. simpl.
        rewrite (wf_live_locked _ _ _ W H L) in W.
        pose proof (nlive_upd _ _ _ (mkTxn true None) H) as N. simpl in N. lia.
      + rewrite (abort_not_live _ _ _ H L). auto.
    - unfold TxnSeq.abort. rewrite H. auto.
  Qed.

  Lemma wf_snapshot h w : wf w -> wf (fst (snapshot h w)).
  Proof.
    unfold TxnSeq.snapshot, wf. intros W. destruct (nth_error (txns w) h) as [[wr [s|]]|]; simpl; auto.
    rewrite nlive_app, W. unfold nlive. simpl. lia.
  Qed.

  Lemma wf_iter h w : wf w -> wf (fst (iter h w)).
  Proof.
    unfold TxnSeq.iter, wf. intros W. destruct (nth_error (txns w) h) as [[wr [s|]]|]; simpl; auto.
    rewrite nlive_app, W. unfold nlive. simpl. lia.
  Qed.

  Lemma wf_single o w : wf w -> wf (fst (single o w)).
  Proof.
    intros W. rewrite single_spec. destruct (locked w) eqn:L; auto.
    unfold wf in *. simpl. rewrite nlive_app, W, L. reflexivity.
  Qed.

  Lemma wf_bstep x w : wf w -> wf (fst (bstep_run x w)).
  Proof.
    destruct x; simpl; auto using wf_begin, wf_t_wop, wf_commit, wf_abort, wf_snapshot, wf_iter, wf_single.
    unfold TxnSeq.t_rop. intros W. destruct (nth_error (txns w) h) as [[wr [s|]]|]; auto.
  Qed.

  Lemma wf_run_bsteps l w : wf w -> wf (run_bsteps l w).
  Proof. revert w; induction l; simpl; auto using wf_bstep. Qed.

  Lemma wf_run_body b w : wf w -> wf (fst (fst (run_body b w))).
  Proof.
    revert w; induction b as [|x b IH]; simpl; intros w W; auto.
    destruct (bstep_run x w) as [w1 o] eqn:E.
    assert (W1 : wf w1) by (change w1 with (fst (w1, o)); rewrite <- E; auto using wf_bstep).
    destruct (is_panic o); simpl; auto.
    specialize (IH _ W1). destruct (run_body b w1) as [[w2 os] p]. auto.
  Qed.

  Lemma wf_managed wr b e w : wf w -> wf (fst (managed wr b e w)).
  Proof.
    intros W. unfold TxnSeq.managed.
    destruct (begin wr w) as [w1 o1] eqn:E1.
    assert (W1 : wf w1) by (change w1 with (fst (w1, o1)); rewrite <- E1; auto using wf_begin).
    destruct o1; simpl; auto.
    pose proof (wf_run_body b _ W1) as W2. destruct (run_body b w1) as [[w2 os] p]. simpl in W2.
    destruct p; simpl; auto using wf_abort.
    destruct e; simpl; auto using wf_abort. destruct wr; simpl; auto using wf_abort, wf_commit.
  Qed.

  Theorem wf_step x w : wf w -> wf (fst (step_run x w)).
  Proof.
    destruct x; simpl; auto using wf_managed.
    intros W. pose proof (wf_bstep x _ W). destruct (bstep_run x w); auto.
  Qed.

  Lemma wf_run_gen l w : wf w -> wf (fst (run l w)).
  Proof.
    revert w. induction l as [|x l IH]; intros w W; cbn [TxnSeq.run]; auto.
    pose proof (wf_step x _ W) as W1. destruct (step_run x w) as [w1 o]. simpl in W1.
    specialize (IH _ W1). destruct (run l w1) as [w2 os]. auto.
  Qed.

  Theorem wf_run l s : wf (fst (run l (init s))).
  Proof. apply wf_run_gen, wf_init. Qed.

End Proofs.
