(* C04 proofs about the lifecycle model TxnSeq.v (arbitrary abstract state). *)
Require Import List Bool Arith Lia.
Import ListNotations.
From FoxTxn Require Import TxnSeq.

Section Proofs.
  Variables St wop wout rop rout : Type.
  Variable wapply : St -> wop -> St * wout.
  Variable wfail : wout -> bool.
  Variable rread : St -> rop -> rout.
  Variable ro_out : wop -> wout.

  Notation world := (world St).
  Notation txn := (txn St).
  Notation bstep := (bstep wop rop).
  Notation obs := (obs wout rout).
  Notation begin := (@begin St wout rout).
  Notation t_wop := (@t_wop St wop wout rout wapply ro_out).
  Notation t_rop := (@t_rop St wout rop rout rread).
  Notation commit := (@commit St wout rout).
  Notation abort := (@abort St wout rout).
  Notation snapshot := (@snapshot St wout rout).
  Notation iter := (@iter St wout rout).
  Notation single := (@single St wop wout rout wapply wfail ro_out).
  Notation bstep_run := (@bstep_run St wop wout rop rout wapply wfail rread ro_out).
  Notation run_body := (@run_body St wop wout rop rout wapply wfail rread ro_out).
  Notation run_bsteps := (@run_bsteps St wop wout rop rout wapply wfail rread ro_out).
  Notation managed := (@managed St wop wout rop rout wapply wfail rread ro_out).
  Notation step_run := (@step_run St wop wout rop rout wapply wfail rread ro_out).
  Notation run := (@run St wop wout rop rout wapply wfail rread ro_out).
  Notation wfold := (@wfold St wop wout wapply).

  (* ---------- lists ---------- *)

  Lemma nth_error_app_len {A} (l : list A) x : nth_error (l ++ [x]) (length l) = Some x.
  Proof. induction l; simpl; auto. Qed.

  Lemma nth_error_app_lt {A} (l l' : list A) h t : nth_error l h = Some t -> nth_error (l ++ l') h = Some t.
  Proof.
    intros H. rewrite nth_error_app1; auto. apply nth_error_Some. congruence.
  Qed.

  Lemma upd_nth_app_len {A} (l : list A) x y : upd_nth (length l) y (l ++ [x]) = l ++ [y].
  Proof. induction l; simpl; auto. f_equal; auto. Qed.

  Lemma nth_upd_same {A} (l : list A) h t x : nth_error l h = Some t -> nth_error (upd_nth h x l) h = Some x.
  Proof.
    revert h. induction l; intros [|h] H; simpl in *; try discriminate; auto.
  Qed.

  Lemma nth_upd_other {A} (l : list A) h h' x : h <> h' -> nth_error (upd_nth h x l) h' = nth_error l h'.
  Proof.
    revert h h'. induction l; intros [|h] [|h'] H; simpl; auto; try congruence.
  Qed.

  Lemma length_upd {A} (l : list A) h x : length (upd_nth h x l) = length l.
  Proof. revert h; induction l; intros [|h]; simpl; auto. Qed.

  (* ---------- well-formed worlds: the lock is held iff exactly one write txn is live ---------- *)

  Definition live_w (t : txn) : bool :=
    t_write t && match t_root t with Some _ => true | None => false end.

  Definition nlive (l : list txn) : nat := length (filter live_w l).

  Definition wf (w : world) : Prop := nlive (txns w) = if locked w then 1 else 0.

  Definition b2n (b : bool) : nat := if b then 1 else 0.

  Lemma nlive_app l l' : nlive (l ++ l') = nlive l + nlive l'.
  Proof. unfold nlive. rewrite filter_app, app_length. auto. Qed.

  Lemma nlive_cons t l : nlive (t :: l) = b2n (live_w t) + nlive l.
  Proof. unfold nlive; simpl. destruct (live_w t); auto. Qed.

  Lemma nlive_upd l h t t' :
    nth_error l h = Some t -> nlive (upd_nth h t' l) + b2n (live_w t) = nlive l + b2n (live_w t').
  Proof.
    revert h. induction l as [|a l IH]; intros [|h] H; simpl in *; try discriminate.
    - inversion H; subst. rewrite !nlive_cons. lia.
    - rewrite !nlive_cons. specialize (IH _ H). lia.
  Qed.

  Lemma nlive_ge l h t : nth_error l h = Some t -> live_w t = true -> 1 <= nlive l.
  Proof.
    revert h. induction l as [|a l IH]; intros [|h] H L; simpl in *; try discriminate.
    - inversion H; subst. rewrite nlive_cons, L. simpl. lia.
    - rewrite nlive_cons. specialize (IH _ H L). lia.
  Qed.

  Lemma nlive_unique l h h' t t' :
    nlive l <= 1 -> nth_error l h = Some t -> live_w t = true ->
    nth_error l h' = Some t' -> live_w t' = true -> h = h'.
  Proof.
    revert h h'. induction l as [|a l IH]; intros [|h] [|h'] N H L H' L'; simpl in *; try discriminate; auto.
    - inversion H; subst. rewrite nlive_cons, L in N. pose proof (nlive_ge _ _ _ H' L'). simpl in N. lia.
    - inversion H'; subst. rewrite nlive_cons, L' in N. pose proof (nlive_ge _ _ _ H L). simpl in N. lia.
    - f_equal. rewrite nlive_cons in N. eapply IH; eauto. lia.
  Qed.

  Lemma wf_live_locked w h t : wf w -> nth_error (txns w) h = Some t -> live_w t = true -> locked w = true.
  Proof.
    unfold wf; intros W H L. pose proof (nlive_ge _ _ _ H L). destruct (locked w); auto. lia.
  Qed.

  Lemma wf_unique w h h' t t' :
    wf w -> nth_error (txns w) h = Some t -> live_w t = true ->
    nth_error (txns w) h' = Some t' -> live_w t' = true -> h = h'.
  Proof.
    unfold wf; intros W. eapply nlive_unique. destruct (locked w); lia.
  Qed.

  Lemma wf_unlocked_not_live w h t : wf w -> locked w = false -> nth_error (txns w) h = Some t -> live_w t = false.
  Proof.
    intros W U H. destruct (live_w t) eqn:L; auto. rewrite (wf_live_locked _ _ _ W H L) in U. discriminate.
  Qed.

  Lemma wf_init s : wf (init s).
  Proof. reflexivity. Qed.

  (* ---------- closed forms of the primitives ---------- *)

  Lemma commit_live h w s :
    nth_error (txns w) h = Some (mkTxn true (Some s)) ->
    commit h w = (mkW s false (upd_nth h (mkTxn true None) (txns w)), OUnit).
  Proof. unfold TxnSeq.commit. intros ->. reflexivity. Qed.

  Lemma abort_live h w s :
    nth_error (txns w) h = Some (mkTxn true (Some s)) ->
    abort h w = (mkW (pub w) false (upd_nth h (mkTxn true None) (txns w)), OUnit).
  Proof. unfold TxnSeq.abort. intros ->. reflexivity. Qed.

  Lemma commit_not_live h w t :
    nth_error (txns w) h = Some t -> live_w t = false -> commit h w = (w, OUnit).
  Proof.
    unfold TxnSeq.commit, live_w. intros -> L. destruct t as [wr [s|]]; simpl in *; destruct wr; auto; discriminate.
  Qed.

  Lemma abort_not_live h w t :
    nth_error (txns w) h = Some t -> live_w t = false -> abort h w = (w, OUnit).
  Proof.
    unfold TxnSeq.abort, live_w. intros -> L. destruct t as [wr [s|]]; simpl in *; destruct wr; auto; discriminate.
  Qed.

  Lemma live_inv t : live_w t = true -> exists s, t = mkTxn true (Some s).
  Proof. destruct t as [[|] [s|]]; simpl; try discriminate. eauto. Qed.

  Lemma single_spec o w :
    single o w =
    if locked w then (w, OBlocked)
    else (mkW (if wfail (snd (wapply (pub w) o)) then pub w else fst (wapply (pub w) o)) false
              (txns w ++ [mkTxn true None]), OW (snd (wapply (pub w) o))).
  Proof.
    unfold TxnSeq.single, TxnSeq.begin. destruct (locked w) eqn:L; simpl; auto.
    unfold TxnSeq.t_wop. simpl. rewrite nth_error_app_len. simpl.
    destruct (wapply (pub w) o) as [s' x] eqn:E. simpl.
    unfold set_txn. simpl. rewrite upd_nth_app_len.
    destruct (wfail x).
    - erewrite abort_live by (simpl; apply nth_error_app_len). simpl. rewrite upd_nth_app_len. reflexivity.
    - erewrite commit_live by (simpl; apply nth_error_app_len). simpl. rewrite upd_nth_app_len.
      erewrite abort_not_live by (simpl; try apply nth_error_app_len; reflexivity). reflexivity.
  Qed.

  (* ---------- wf is an invariant of every step ---------- *)

  Lemma wf_begin wr w : wf w -> wf (fst (begin wr w)).
  Proof.
    unfold TxnSeq.begin, wf. intros W. destruct wr, (locked w) eqn:L; simpl; rewrite ?L; auto;
      rewrite nlive_app, W; reflexivity.
  Qed.

  Lemma wf_t_wop h o w : wf w -> wf (fst (t_wop h o w)).
  Proof.
    unfold TxnSeq.t_wop, wf. intros W. destruct (nth_error (txns w) h) as [t|] eqn:H; auto.
    destruct t as [wr [s|]]; simpl; auto. destruct wr; simpl; auto.
    destruct (wapply s o) as [s' r]. simpl.
    pose proof (nlive_upd _ _ _ (mkTxn true (Some s')) H) as N. simpl in N. lia.
  Qed.

  Lemma wf_commit h w : wf w -> wf (fst (commit h w)).
  Proof.
    intros W. destruct (nth_error (txns w) h) as [t|] eqn:H.
    - destruct (live_w t) eqn:L.
      + destruct (live_inv _ L) as [s ->]. rewrite (commit_live _ _ _ H). unfold wf in *. simpl.
        rewrite (wf_live_locked _ _ _ W H L) in W.
        pose proof (nlive_upd _ _ _ (mkTxn true None) H) as N. simpl in N. lia.
      + rewrite (commit_not_live _ _ _ H L). auto.
    - unfold TxnSeq.commit. rewrite H. auto.
  Qed.

  Lemma wf_abort h w : wf w -> wf (fst (abort h w)).
  Proof.
    intros W. destruct (nth_error (txns w) h) as [t|] eqn:H.
    - destruct (live_w t) eqn:L.
      + destruct (live_inv _ L) as [s ->]. rewrite (abort_live _ _ _ H). unfold wf in *. simpl.
        rewrite (wf_live_locked _ _ _ W H L) in W.
        pose proof (nlive_upd _ _ _ (mkTxn true None) H) as N. simpl in N. lia.
      + rewrite (abort_not_live _ _ _ H L). auto.
    - unfold TxnSeq.abort. rewrite H. auto.
  Qed.

  Lemma wf_snapshot h w : wf w -> wf (fst (snapshot h w)).
  Proof.
    unfold TxnSeq.snapshot, wf. intros W. destruct (nth_error (txns w) h) as [[wr [s|]]|]; simpl; auto.
    rewrite nlive_app, W. unfold nlive. simpl. lia.
  Qed.

  Lemma wf_iter h w : wf w -> wf (fst (iter h w)).
  Proof.
    unfold TxnSeq.iter, wf. intros W. destruct (nth_error (txns w) h) as [[wr [s|]]|]; simpl; auto.
    rewrite nlive_app, W. unfold nlive. simpl. lia.
  Qed.

  Lemma wf_single o w : wf w -> wf (fst (single o w)).
  Proof.
    intros W. rewrite single_spec. destruct (locked w) eqn:L; auto.
    unfold wf in *. simpl. rewrite nlive_app, W, L. reflexivity.
  Qed.

  Lemma wf_bstep x w : wf w -> wf (fst (bstep_run x w)).
  Proof.
    destruct x; simpl; auto using wf_begin, wf_t_wop, wf_commit, wf_abort, wf_snapshot, wf_iter, wf_single.
    unfold TxnSeq.t_rop. intros W. destruct (nth_error (txns w) h) as [[wr [s|]]|]; auto.
  Qed.

  Lemma wf_run_bsteps l w : wf w -> wf (run_bsteps l w).
  Proof. revert w; induction l; simpl; auto using wf_bstep. Qed.

  Lemma wf_run_body b w : wf w -> wf (fst (fst (run_body b w))).
  Proof.
    revert w; induction b as [|x b IH]; simpl; intros w W; auto.
    destruct (bstep_run x w) as [w1 o] eqn:E.
    assert (W1 : wf w1) by (change w1 with (fst (w1, o)); rewrite <- E; auto using wf_bstep).
    destruct (is_panic o); simpl; auto.
    specialize (IH _ W1). destruct (run_body b w1) as [[w2 os] p]. auto.
  Qed.

  Lemma wf_managed wr b e w : wf w -> wf (fst (managed wr b e w)).
  Proof.
    intros W. unfold TxnSeq.managed.
    destruct (begin wr w) as [w1 o1] eqn:E1.
    assert (W1 : wf w1) by (change w1 with (fst (w1, o1)); rewrite <- E1; auto using wf_begin).
    destruct o1; simpl; auto.
    pose proof (wf_run_body b _ W1) as W2. destruct (run_body b w1) as [[w2 os] p]. simpl in W2.
    destruct p; simpl; auto using wf_abort.
    destruct e; simpl; auto using wf_abort. destruct wr; simpl; auto using wf_abort, wf_commit.
  Qed.

  Theorem wf_step x w : wf w -> wf (fst (step_run x w)).
  Proof.
    destruct x; simpl; auto using wf_managed.
    intros W. pose proof (wf_bstep x _ W). destruct (bstep_run x w); auto.
  Qed.

  Lemma wf_run_gen l w : wf w -> wf (fst (run l w)).
  Proof.
    revert w. induction l as [|x l IH]; intros w W; cbn [TxnSeq.run]; auto.
    pose proof (wf_step x _ W) as W1. destruct (step_run x w) as [w1 o]. simpl in W1.
    specialize (IH _ W1). destruct (run l w1) as [w2 os]. auto.
  Qed.

  Theorem wf_run l s : wf (fst (run l (init s))).
  Proof. apply wf_run_gen, wf_init. Qed.

  (* ================= published_only_at_commit ================= *)

  Definition may_publish (x : bstep) : bool :=
    match x with TCommit _ | Single _ => true | _ => false end.

  Lemma abort_pub h w : pub (fst (abort h w)) = pub w.
  Proof.
    unfold TxnSeq.abort. destruct (nth_error (txns w) h) as [[[|] [s|]]|]; reflexivity.
  Qed.

  Lemma pub_unchanged_unless_commit x w : may_publish x = false -> pub (fst (bstep_run x w)) = pub w.
  Proof.
    destruct x; simpl; intros M; try discriminate; auto.
    - unfold TxnSeq.begin. destruct (wr && locked w); reflexivity.
    - unfold TxnSeq.t_wop. destruct (nth_error (txns w) h) as [[[|] [s|]]|]; simpl; auto.
      destruct (wapply s o); reflexivity.
    - unfold TxnSeq.t_rop. destruct (nth_error (txns w) h) as [[[|] [s|]]|]; reflexivity.
    - apply abort_pub.
    - unfold TxnSeq.snapshot. destruct (nth_error (txns w) h) as [[[|] [s|]]|]; reflexivity.
    - unfold TxnSeq.iter. destruct (nth_error (txns w) h) as [[[|] [s|]]|]; reflexivity.
  Qed.

  Lemma published_only_at_commit_lemma x w :
    pub (fst (bstep_run x w)) = pub w \/
    (exists h s, x = TCommit h /\ nth_error (txns w) h = Some (mkTxn true (Some s)) /\ pub (fst (bstep_run x w)) = s) \/
    (exists o, x = Single o /\ locked w = false /\ wfail (snd (wapply (pub w) o)) = false /\
               pub (fst (bstep_run x w)) = fst (wapply (pub w) o)).
  Proof.
    destruct (may_publish x) eqn:M.
    - destruct x; try discriminate; simpl.
      + destruct (nth_error (txns w) h) as [t|] eqn:H.
        * destruct (live_w t) eqn:L.
          -- destruct (live_inv _ L) as [s ->]. right; left. exists h, s. rewrite (commit_live _ _ _ H). auto.
          -- rewrite (commit_not_live _ _ _ H L). auto.
        * unfold TxnSeq.commit. rewrite H. auto.
      + rewrite single_spec. destruct (locked w) eqn:L; auto. simpl.
        destruct (wfail (snd (wapply (pub w) o))) eqn:F; auto.
        right; right. exists o. auto.
    - left. apply pub_unchanged_unless_commit; auto.
  Qed.

  Lemma run_bsteps_no_publish l w :
    Forall (fun x => may_publish x = false) l -> pub (run_bsteps l w) = pub w.
  Proof.
    revert w. induction l as [|x l IH]; simpl; intros w F; auto.
    inversion F; subst. rewrite IH by auto. apply pub_unchanged_unless_commit; auto.
  Qed.

  (* ================= the managed transaction's own handle ================= *)

  Lemma nth_error_app_inv {A} (l : list A) x h t :
    nth_error (l ++ [x]) h = Some t -> nth_error l h = Some t \/ (h = length l /\ t = x).
  Proof.
    intros H. destruct (Nat.lt_ge_cases h (length l)) as [Lt|Ge].
    - rewrite nth_error_app1 in H by auto. auto.
    - rewrite nth_error_app2 in H by auto. destruct (h - length l) as [|k] eqn:K; simpl in H.
      + inversion H. right. split; auto. lia.
      + destruct k; discriminate.
  Qed.

  Definition only_live (h : nat) (w : world) : Prop :=
    forall h' t, nth_error (txns w) h' = Some t -> live_w t = true -> h' = h.

  (* steps that neither start another write transaction nor commit transaction h *)
  Definition quiet (h : nat) (x : bstep) : bool :=
    match x with
    | Begin true => false
    | Single _ => false
    | TCommit h' => negb (h' =? h)
    | _ => true
    end.

  Lemma only_live_app h w t :
    only_live h w -> live_w t = false ->
    only_live h (mkW (pub w) (locked w) (txns w ++ [t])).
  Proof.
    intros O L h' t' H' L'. simpl in H'. apply nth_error_app_inv in H'. destruct H' as [H'|[_ ->]]; eauto.
    congruence.
  Qed.

  Lemma quiet_step h x w :
    wf w -> only_live h w -> quiet h x = true ->
    only_live h (fst (bstep_run x w)) /\ pub (fst (bstep_run x w)) = pub w.
  Proof.
    intros W O Q. destruct x; simpl in *; try discriminate.
    - destruct wr; try discriminate. unfold TxnSeq.begin. simpl. split; auto. apply only_live_app; auto.
    - split; [|apply (pub_unchanged_unless_commit (TWrite h0 o)); auto].
      unfold TxnSeq.t_wop. destruct (nth_error (txns w) h0) as [[[|] [s|]]|] eqn:H; simpl; auto.
      destruct (wapply s o) as [s' r]. simpl. intros h' t H' L'. simpl in H'.
      destruct (Nat.eq_dec h0 h') as [->|Ne].
      + eapply O; eauto.
      + rewrite nth_upd_other in H' by auto. eauto.
    - split; [|apply (pub_unchanged_unless_commit (TRead h0 r)); auto].
      unfold TxnSeq.t_rop. destruct (nth_error (txns w) h0) as [[[|] [s|]]|]; auto.
    - apply negb_true_iff, Nat.eqb_neq in Q.
      destruct (nth_error (txns w) h0) as [t|] eqn:H.
      + destruct (live_w t) eqn:L.
        * exfalso. apply Q. eauto.
        * rewrite (commit_not_live _ _ _ H L). auto.
      + unfold TxnSeq.commit. rewrite H. auto.
    - split; [|apply abort_pub].
      destruct (nth_error (txns w) h0) as [t|] eqn:H.
      + destruct (live_w t) eqn:L.
        * destruct (live_inv _ L) as [s ->]. rewrite (abort_live _ _ _ H). simpl.
          intros h' t' H' L'. simpl in H'. destruct (Nat.eq_dec h0 h') as [->|Ne].
          -- rewrite (nth_upd_same _ _ _ _ H) in H'. inversion H'; subst. discriminate.
          -- rewrite nth_upd_other in H' by auto. eauto.
        * rewrite (abort_not_live _ _ _ H L). auto.
      + unfold TxnSeq.abort. rewrite H. auto.
    - split; [|apply (pub_unchanged_unless_commit (TSnapshot h0)); auto].
      unfold TxnSeq.snapshot. destruct (nth_error (txns w) h0) as [[wr [s|]]|]; simpl; auto.
      apply only_live_app; auto.
    - split; [|apply (pub_unchanged_unless_commit (TIter h0)); auto].
      unfold TxnSeq.iter. destruct (nth_error (txns w) h0) as [[wr [s|]]|]; simpl; auto.
      apply only_live_app; auto.
    - auto.
  Qed.

  Lemma quiet_run_body h b w :
    wf w -> only_live h w -> Forall (fun x => quiet h x = true) b ->
    pub (fst (fst (run_body b w))) = pub w.
  Proof.
    revert w. induction b as [|x b IH]; simpl; intros w W O F; auto.
    inversion F; subst.
    destruct (quiet_step h x w W O) as [O1 P1]; auto.
    pose proof (wf_bstep x _ W) as W1.
    destruct (bstep_run x w) as [w1 o]. simpl in *.
    destruct (is_panic o); simpl; auto.
    specialize (IH _ W1 O1 H2). destruct (run_body b w1) as [[w2 os] p]. simpl in *. congruence.
  Qed.

  Lemma begin_true_unlocked w :
    locked w = false ->
    begin true w = (mkW (pub w) true (txns w ++ [mkTxn true (Some (pub w))]), OHandle (length (txns w))).
  Proof. unfold TxnSeq.begin. intros ->. reflexivity. Qed.

  Lemma only_live_begin w :
    wf w -> locked w = false ->
    only_live (length (txns w)) (mkW (pub w) true (txns w ++ [mkTxn true (Some (pub w))])).
  Proof.
    intros W U h' t H' L'. simpl in H'. apply nth_error_app_inv in H'. destruct H' as [H'|[-> _]]; auto.
    rewrite (wf_unlocked_not_live _ _ _ W U H') in L'. discriminate.
  Qed.

  (* ================= abort_error_panic_invisible ================= *)

  Definition starts_writer (x : bstep) : bool :=
    match x with Begin true => true | Single _ => true | _ => false end.

  Lemma idle_step x w :
    wf w -> locked w = false -> starts_writer x = false ->
    locked (fst (bstep_run x w)) = false /\ pub (fst (bstep_run x w)) = pub w.
  Proof.
    intros W U Q. destruct x; simpl in *; try discriminate.
    - destruct wr; try discriminate. unfold TxnSeq.begin. simpl. rewrite U. auto.
    - unfold TxnSeq.t_wop. destruct (nth_error (txns w) h) as [t|] eqn:H; auto.
      pose proof (wf_unlocked_not_live _ _ _ W U H) as L.
      destruct t as [[|] [s|]]; simpl in *; auto. discriminate.
    - unfold TxnSeq.t_rop. destruct (nth_error (txns w) h) as [[[|] [s|]]|]; auto.
    - destruct (nth_error (txns w) h) as [t|] eqn:H.
      + rewrite (commit_not_live _ _ _ H (wf_unlocked_not_live _ _ _ W U H)). auto.
      + unfold TxnSeq.commit. rewrite H. auto.
    - destruct (nth_error (txns w) h) as [t|] eqn:H.
      + rewrite (abort_not_live _ _ _ H (wf_unlocked_not_live _ _ _ W U H)). auto.
      + unfold TxnSeq.abort. rewrite H. auto.
    - unfold TxnSeq.snapshot. destruct (nth_error (txns w) h) as [[wr [s|]]|]; simpl; auto.
    - unfold TxnSeq.iter. destruct (nth_error (txns w) h) as [[wr [s|]]|]; simpl; auto.
    - auto.
  Qed.

  Lemma idle_run l w :
    wf w -> locked w = false -> Forall (fun x => starts_writer x = false) l ->
    locked (run_bsteps l w) = false /\ pub (run_bsteps l w) = pub w.
  Proof.
    revert w. induction l as [|x l IH]; simpl; intros w W U F; auto.
    inversion F; subst. destruct (idle_step x w W U) as [U1 P1]; auto.
    destruct (IH _ (wf_bstep x _ W) U1 H2) as [U2 P2]. split; congruence.
  Qed.

  Lemma managed_failed_invisible b e w :
    wf w -> locked w = false ->
    Forall (fun x => quiet (length (txns w)) x = true) b ->
    e <> RetNil \/ snd (run_body b (fst (begin true w))) = true ->
    pub (fst (managed true b e w)) = pub w.
  Proof.
    intros W U F E. unfold TxnSeq.managed. rewrite (begin_true_unlocked _ U) in *. simpl in E.
    set (w1 := mkW (pub w) true (txns w ++ [mkTxn true (Some (pub w))])) in *.
    assert (W1 : wf w1).
    { pose proof (wf_begin true _ W) as X. rewrite (begin_true_unlocked _ U) in X. exact X. }
    pose proof (quiet_run_body _ b w1 W1 (only_live_begin _ W U) F) as P.
    destruct (run_body b w1) as [[w2 os] p]. simpl in *.
    destruct p; simpl; [rewrite abort_pub; auto|].
    destruct e; simpl; try (rewrite abort_pub; auto).
    destruct E as [E|E]; [congruence|discriminate].
  Qed.

  (* ================= lock_released ================= *)

  Definition holds (h : nat) (w : world) : Prop :=
    locked w = true -> exists s, nth_error (txns w) h = Some (mkTxn true (Some s)).

  Definition no_begin_w (x : bstep) : bool := match x with Begin true => false | _ => true end.

  Lemma commit_locked h w : locked (fst (commit h w)) = false \/ fst (commit h w) = w.
  Proof.
    unfold TxnSeq.commit. destruct (nth_error (txns w) h) as [[[|] [s|]]|]; simpl; auto.
  Qed.

  Lemma abort_locked h w : locked (fst (abort h w)) = false \/ fst (abort h w) = w.
  Proof.
    unfold TxnSeq.abort. destruct (nth_error (txns w) h) as [[[|] [s|]]|]; simpl; auto.
  Qed.

  Lemma holds_app h w t : holds h w -> holds h (mkW (pub w) (locked w) (txns w ++ [t])).
  Proof.
    intros K L. destruct (K L) as [s H]. exists s. simpl. apply nth_error_app_lt; auto.
  Qed.

  Lemma holds_step h x w :
    wf w -> holds h w -> no_begin_w x = true -> holds h (fst (bstep_run x w)).
  Proof.
    intros W K Q. destruct x; simpl in *.
    - destruct wr; try discriminate. unfold TxnSeq.begin. simpl.
      replace (locked w || false) with (locked w) by (destruct (locked w); auto). apply holds_app; auto.
    - unfold TxnSeq.t_wop. destruct (nth_error (txns w) h0) as [[[|] [s|]]|] eqn:H; simpl; auto.
      destruct (wapply s o) as [s' r]. simpl. intros L. simpl in L. destruct (K L) as [s0 H0].
      destruct (Nat.eq_dec h0 h) as [->|Ne].
      + exists s'. simpl. eapply nth_upd_same; eauto.
      + exists s0. simpl. rewrite nth_upd_other; auto.
    - unfold TxnSeq.t_rop. destruct (nth_error (txns w) h0) as [[[|] [s|]]|]; auto.
    - destruct (commit_locked h0 w) as [E|E]; [intros L; congruence|rewrite E; auto].
    - destruct (abort_locked h0 w) as [E|E]; [intros L; congruence|rewrite E; auto].
    - unfold TxnSeq.snapshot. destruct (nth_error (txns w) h0) as [[wr [s|]]|]; simpl; auto.
      apply holds_app; auto.
    - unfold TxnSeq.iter. destruct (nth_error (txns w) h0) as [[wr [s|]]|]; simpl; auto.
      apply holds_app; auto.
    - rewrite single_spec. destruct (locked w) eqn:L; auto. intros L'. simpl in L'. discriminate.
    - auto.
  Qed.

  Lemma holds_run_body h b w :
    wf w -> holds h w -> Forall (fun x => no_begin_w x = true) b ->
    wf (fst (fst (run_body b w))) /\ holds h (fst (fst (run_body b w))).
  Proof.
    revert w. induction b as [|x b IH]; simpl; intros w W K F; auto.
    inversion F; subst.
    pose proof (holds_step h x w W K H1) as K1. pose proof (wf_bstep x _ W) as W1.
    destruct (bstep_run x w) as [w1 o]. simpl in *.
    destruct (is_panic o); simpl; auto.
    specialize (IH _ W1 K1 H2). destruct (run_body b w1) as [[w2 os] p]. auto.
  Qed.

  Lemma holds_release_abort h w : wf w -> holds h w -> locked (fst (abort h w)) = false.
  Proof.
    intros W K. destruct (locked w) eqn:L.
    - destruct (K L) as [s H]. rewrite (abort_live _ _ _ H). reflexivity.
    - destruct (abort_locked h w) as [E|E]; auto. rewrite E; auto.
  Qed.

  Lemma holds_release_commit h w : wf w -> holds h w -> locked (fst (commit h w)) = false.
  Proof.
    intros W K. destruct (locked w) eqn:L.
    - destruct (K L) as [s H]. rewrite (commit_live _ _ _ H). reflexivity.
    - destruct (commit_locked h w) as [E|E]; auto. rewrite E; auto.
  Qed.

  Lemma abort_keeps_unlocked h w : locked w = false -> locked (fst (abort h w)) = false.
  Proof. intros U. destruct (abort_locked h w) as [E|E]; auto. rewrite E; auto. Qed.

  Lemma managed_releases wr b e w :
    wf w -> locked w = false -> Forall (fun x => no_begin_w x = true) b ->
    locked (fst (managed wr b e w)) = false.
  Proof.
    intros W U F. unfold TxnSeq.managed.
    assert (B : begin wr w = (mkW (pub w) wr (txns w ++ [mkTxn wr (Some (pub w))]), OHandle (length (txns w)))).
    { unfold TxnSeq.begin. rewrite U. destruct wr; reflexivity. }
    rewrite B.
    set (w1 := mkW (pub w) wr (txns w ++ [mkTxn wr (Some (pub w))])).
    assert (W1 : wf w1).
    { pose proof (wf_begin wr _ W) as X. rewrite B in X. exact X. }
    assert (K1 : holds (length (txns w)) w1).
    { intros L. simpl in L. subst wr. exists (pub w). simpl. apply nth_error_app_len. }
    destruct (holds_run_body _ b w1 W1 K1 F) as [W2 K2].
    destruct (run_body b w1) as [[w2 os] p]. simpl in *.
    destruct p; simpl; [apply holds_release_abort; auto|].
    destruct e; simpl; try (apply holds_release_abort; auto).
    destruct wr; simpl; [|apply holds_release_abort; auto].
    apply abort_keeps_unlocked. apply holds_release_commit; auto.
  Qed.

  (* fn ends its goroutine with runtime.Goexit after ANY body: only the deferred function of Updates runs
     (recover() = nil), which aborts: nothing of the transaction is published and the writer lock is free. *)
  Lemma quiet_no_begin_w h x : quiet h x = true -> no_begin_w x = true.
  Proof. destruct x as [[|]| | | | | | | |]; simpl; auto. Qed.

  Theorem goexit_invisible_thm :
    (forall b w, wf w -> locked w = false ->
        Forall (fun x => quiet (length (txns w)) x = true) b ->
        pub (fst (managed true b Goexit w)) = pub w /\ locked (fst (managed true b Goexit w)) = false) /\
    (forall wr b w, wf w -> locked w = false -> Forall (fun x => no_begin_w x = true) b ->
        locked (fst (managed wr b Goexit w)) = false) /\
    (forall wr b w h, snd (begin wr w) = OHandle h ->
        snd (run_body b (fst (begin wr w))) = false ->
        last (snd (managed wr b Goexit w)) OUnit = OFinGoexit).
  Proof.
    split; [|split].
    - intros b w W U F. split.
      + apply managed_failed_invisible; auto. left; discriminate.
      + apply managed_releases; [exact W|exact U|].
        eapply Forall_impl; [|exact F]. intros x Q. simpl in Q. exact (quiet_no_begin_w _ _ Q).
    - intros wr b w W U F. apply managed_releases; assumption.
    - intros wr b w h B P. unfold TxnSeq.managed.
      destruct (begin wr w) as [w1 o1]. simpl in *. subst o1.
      destruct (run_body b w1) as [[w2 os] p]. simpl in *. subst p. simpl. apply last_last.
  Qed.

  (* ================= read_your_writes / commit_all_at_once ================= *)

  Definition not_ending (h : nat) (x : bstep) : bool :=
    match x with TCommit h' | TAbort h' => negb (h' =? h) | _ => true end.

  Fixpoint own_writes (h : nat) (l : list bstep) : list wop :=
    match l with
    | [] => []
    | TWrite h' o :: l' => if h' =? h then o :: own_writes h l' else own_writes h l'
    | _ :: l' => own_writes h l'
    end.

  Definition own_write1 (h : nat) (x : bstep) : list wop :=
    match x with TWrite h' o => if h' =? h then [o] else [] | _ => [] end.

  Lemma own_writes_cons h x l : own_writes h (x :: l) = own_write1 h x ++ own_writes h l.
  Proof. destruct x; simpl; auto. destruct (h0 =? h); auto. Qed.

  Lemma wfold_app s l l' : wfold (s) (l ++ l') = wfold (wfold s l) l'.
  Proof. unfold TxnSeq.wfold. apply fold_left_app. Qed.

  Lemma ryw_step h x w s :
    wf w -> nth_error (txns w) h = Some (mkTxn true (Some s)) -> not_ending h x = true ->
    nth_error (txns (fst (bstep_run x w))) h = Some (mkTxn true (Some (wfold s (own_write1 h x)))) /\
    pub (fst (bstep_run x w)) = pub w.
  Proof.
    intros W H Q.
    assert (Lk : locked w = true) by (eapply wf_live_locked; eauto).
    destruct x; simpl in *.
    - unfold TxnSeq.begin. rewrite Lk. destruct wr; simpl; auto. split; auto. apply nth_error_app_lt; auto.
    - split; [|apply (pub_unchanged_unless_commit (TWrite h0 o)); auto].
      unfold TxnSeq.t_wop. destruct (Nat.eqb_spec h0 h) as [->|Ne].
      + rewrite H. simpl. destruct (wapply s o) as [s' r] eqn:E. simpl.
        erewrite nth_upd_same by eauto. unfold TxnSeq.wfold. simpl. reflexivity.
      + destruct (nth_error (txns w) h0) as [t|] eqn:H0; auto.
        destruct (live_w t) eqn:L.
        * exfalso. apply Ne. eapply wf_unique; eauto.
        * destruct t as [[|] [s0|]]; simpl in *; auto. discriminate.
    - split; [|apply (pub_unchanged_unless_commit (TRead h0 r)); auto].
      unfold TxnSeq.t_rop. destruct (nth_error (txns w) h0) as [[[|] [s0|]]|]; auto.
    - apply negb_true_iff, Nat.eqb_neq in Q.
      destruct (nth_error (txns w) h0) as [t|] eqn:H0.
      + destruct (live_w t) eqn:L.
        * exfalso. apply Q. eapply wf_unique; eauto.
        * rewrite (commit_not_live _ _ _ H0 L). auto.
      + unfold TxnSeq.commit. rewrite H0. auto.
    - apply negb_true_iff, Nat.eqb_neq in Q.
      destruct (nth_error (txns w) h0) as [t|] eqn:H0.
      + destruct (live_w t) eqn:L.
        * exfalso. apply Q. eapply wf_unique; eauto.
        * rewrite (abort_not_live _ _ _ H0 L). auto.
      + unfold TxnSeq.abort. rewrite H0. auto.
    - unfold TxnSeq.snapshot. destruct (nth_error (txns w) h0) as [[wr [s0|]]|]; simpl; auto.
      split; auto. apply nth_error_app_lt; auto.
    - unfold TxnSeq.iter. destruct (nth_error (txns w) h0) as [[wr [s0|]]|]; simpl; auto.
      split; auto. apply nth_error_app_lt; auto.
    - rewrite single_spec, Lk. auto.
    - auto.
  Qed.

  Lemma ryw_run h l w s :
    wf w -> nth_error (txns w) h = Some (mkTxn true (Some s)) ->
    Forall (fun x => not_ending h x = true) l ->
    nth_error (txns (run_bsteps l w)) h = Some (mkTxn true (Some (wfold s (own_writes h l)))) /\
    pub (run_bsteps l w) = pub w.
  Proof.
    revert w s. induction l as [|x l IH]; intros w s W H F.
    - simpl. auto.
    - inversion F; subst. destruct (ryw_step h x w s W H H2) as [H' P'].
      cbn [TxnSeq.run_bsteps]. destruct (IH _ _ (wf_bstep x _ W) H' H3) as [H'' P''].
      rewrite own_writes_cons, wfold_app. split; congruence.
  Qed.

  Lemma run_body_no_panic b w :
    snd (run_body b w) = false -> fst (fst (run_body b w)) = run_bsteps b w.
  Proof.
    revert w. induction b as [|x b IH]; simpl; intros w P; auto.
    destruct (bstep_run x w) as [w1 o]. simpl.
    destruct (is_panic o); simpl in *; try discriminate.
    specialize (IH w1). destruct (run_body b w1) as [[w2 os] p]. simpl in *. auto.
  Qed.

  (* ================= final statements (restated in Props_C04.v) ================= *)

  Theorem abort_error_panic_invisible_thm :
    (* explicit Abort of the live write transaction *)
    (forall w h s, nth_error (txns w) h = Some (mkTxn true (Some s)) ->
        pub (fst (abort h w)) = pub w /\ locked (fst (abort h w)) = false /\
        nth_error (txns (fst (abort h w))) h = Some (mkTxn true None)) /\
    (* Updates whose function returns an error or panics (after any prefix, any nested reads / snapshots / aborts) *)
    (forall b e w, wf w -> locked w = false ->
        Forall (fun x => quiet (length (txns w)) x = true) b ->
        e <> RetNil \/ snd (run_body b (fst (begin true w))) = true ->
        pub (fst (managed true b e w)) = pub w) /\
    (* a single-operation helper whose operation fails *)
    (forall o w, wfail (snd (wapply (pub w) o)) = true -> pub (fst (single o w)) = pub w) /\
    (* ... ever: with no write transaction in progress, nothing but a NEW write transaction changes the published state *)
    (forall l w, wf w -> locked w = false -> Forall (fun x => starts_writer x = false) l ->
        pub (run_bsteps l w) = pub w).
  Proof.
    repeat split.
    - apply abort_pub.
    - rewrite (abort_live _ _ _ H). reflexivity.
    - rewrite (abort_live _ _ _ H). simpl. eapply nth_upd_same; eauto.
    - apply managed_failed_invisible.
    - intros o w F. rewrite single_spec. destruct (locked w); auto. simpl. rewrite F. auto.
    - intros l w W U F. apply idle_run; auto.
  Qed.

  Lemma settled_after_commit h w s :
    nth_error (txns w) h = Some (mkTxn true (Some s)) ->
    nth_error (txns (fst (commit h w))) h = Some (mkTxn true None).
  Proof. intros H. rewrite (commit_live _ _ _ H). simpl. eapply nth_upd_same; eauto. Qed.

  Lemma ending_noop_twice h w :
    fst (commit h (fst (commit h w))) = fst (commit h w) /\
    fst (abort h (fst (commit h w))) = fst (commit h w) /\
    fst (commit h (fst (abort h w))) = fst (abort h w) /\
    fst (abort h (fst (abort h w))) = fst (abort h w).
  Proof.
    destruct (nth_error (txns w) h) as [t|] eqn:H.
    - destruct (live_w t) eqn:L.
      + destruct (live_inv _ L) as [s ->].
        pose proof (settled_after_commit _ _ _ H) as H1.
        assert (H2 : nth_error (txns (fst (abort h w))) h = Some (mkTxn true None)).
        { rewrite (abort_live _ _ _ H). simpl. eapply nth_upd_same; eauto. }
        repeat split.
        * rewrite (commit_not_live _ _ _ H1); auto.
        * rewrite (abort_not_live _ _ _ H1); auto.
        * rewrite (commit_not_live _ _ _ H2); auto.
        * rewrite (abort_not_live _ _ _ H2); auto.
      + rewrite (commit_not_live _ _ _ H L), (abort_not_live _ _ _ H L). simpl.
        rewrite (commit_not_live _ _ _ H L), (abort_not_live _ _ _ H L). auto.
    - unfold TxnSeq.commit, TxnSeq.abort. rewrite H. simpl. rewrite H. auto.
  Qed.

  Theorem lock_released_thm :
    (forall h w s, nth_error (txns w) h = Some (mkTxn true (Some s)) ->
        locked (fst (commit h w)) = false /\ locked (fst (abort h w)) = false) /\
    (* Commit / Abort of a read-only or settled transaction are no-ops *)
    (forall h w t, nth_error (txns w) h = Some t -> live_w t = false ->
        commit h w = (w, OUnit) /\ abort h w = (w, OUnit)) /\
    (* double commit / abort in any combination *)
    (forall h w,
        fst (commit h (fst (commit h w))) = fst (commit h w) /\
        fst (abort h (fst (commit h w))) = fst (commit h w) /\
        fst (commit h (fst (abort h w))) = fst (abort h w) /\
        fst (abort h (fst (abort h w))) = fst (abort h w)) /\
    (* Updates / View: whatever fn does (short of opening another write transaction) and however it ends *)
    (forall wr b e w, wf w -> locked w = false -> Forall (fun x => no_begin_w x = true) b ->
        locked (fst (managed wr b e w)) = false) /\
    (* single-operation helpers, successful or not *)
    (forall o w, locked w = false -> locked (fst (single o w)) = false).
  Proof.
    repeat split.
    - rewrite (commit_live _ _ _ H). reflexivity.
    - rewrite (abort_live _ _ _ H). reflexivity.
    - eapply commit_not_live; eauto.
    - eapply abort_not_live; eauto.
    - apply ending_noop_twice.
    - apply ending_noop_twice.
    - apply ending_noop_twice.
    - apply ending_noop_twice.
    - apply managed_releases.
    - intros o w U. rewrite single_spec, U. reflexivity.
  Qed.

  Theorem settled_refuses_thm :
    (forall h w s, nth_error (txns w) h = Some (mkTxn true (Some s)) ->
        nth_error (txns (fst (commit h w))) h = Some (mkTxn true None) /\
        nth_error (txns (fst (abort h w))) h = Some (mkTxn true None)) /\
    (forall h w, nth_error (txns w) h = Some (mkTxn true None) ->
        (forall o, t_wop h o w = (w, OPanicSettled)) /\
        (forall r, t_rop h r w = (w, OPanicSettled)) /\
        iter h w = (w, OPanicSettled) /\
        snapshot h w = (w, ONil) /\
        commit h w = (w, OUnit) /\ abort h w = (w, OUnit)).
  Proof.
    split.
    - intros h w s H. split; [apply (settled_after_commit _ _ _ H)|].
      rewrite (abort_live _ _ _ H). simpl. eapply nth_upd_same; eauto.
    - intros h w H. unfold TxnSeq.t_wop, TxnSeq.t_rop, TxnSeq.iter, TxnSeq.snapshot, TxnSeq.commit, TxnSeq.abort.
      rewrite H. simpl. repeat split; auto.
  Qed.

  Theorem readonly_refuses_thm :
    forall h w s, nth_error (txns w) h = Some (mkTxn false (Some s)) ->
      (forall o, t_wop h o w = (w, OW (ro_out o))) /\
      commit h w = (w, OUnit) /\ abort h w = (w, OUnit) /\
      (forall r, t_rop h r w = (w, OR (rread s r))).
  Proof.
    intros h w s H. unfold TxnSeq.t_wop, TxnSeq.t_rop, TxnSeq.commit, TxnSeq.abort. rewrite H. simpl. repeat split; auto.
  Qed.

  Theorem read_your_writes_thm :
    forall h l w s, wf w -> nth_error (txns w) h = Some (mkTxn true (Some s)) ->
      Forall (fun x => not_ending h x = true) l ->
      forall r, snd (t_rop h r (run_bsteps l w)) = OR (rread (wfold s (own_writes h l)) r).
  Proof.
    intros h l w s W H F r. destruct (ryw_run h l w s W H F) as [H' _].
    unfold TxnSeq.t_rop. rewrite H'. reflexivity.
  Qed.

  Lemma in_firstn {A} n (l : list A) x : In x (firstn n l) -> In x l.
  Proof. revert l; induction n; intros [|a l]; simpl; intuition. Qed.

  Theorem commit_all_at_once_thm :
    forall l w, wf w -> locked w = false ->
      let h := length (txns w) in
      let w1 := fst (begin true w) in
      Forall (fun x => not_ending h x = true) l ->
      (forall n, pub (run_bsteps (firstn n l) w1) = pub w) /\
      pub (fst (commit h (run_bsteps l w1))) = wfold (pub w) (own_writes h l) /\
      locked (fst (commit h (run_bsteps l w1))) = false.
  Proof.
    intros l w W U h w1 F. subst w1. rewrite (begin_true_unlocked _ U). simpl.
    set (w1 := mkW (pub w) true (txns w ++ [mkTxn true (Some (pub w))])).
    assert (W1 : wf w1).
    { pose proof (wf_begin true _ W) as X. rewrite (begin_true_unlocked _ U) in X. exact X. }
    assert (H1 : nth_error (txns w1) h = Some (mkTxn true (Some (pub w)))) by apply nth_error_app_len.
    split; [|split].
    - intros n. assert (Fn : Forall (fun x => not_ending h x = true) (firstn n l)).
      { apply Forall_forall. intros x I. rewrite Forall_forall in F. apply F. eapply in_firstn; eauto. }
      destruct (ryw_run h _ w1 _ W1 H1 Fn) as [_ P]. exact P.
    - destruct (ryw_run h l w1 _ W1 H1 F) as [H2 _]. rewrite (commit_live _ _ _ H2). reflexivity.
    - destruct (ryw_run h l w1 _ W1 H1 F) as [H2 _]. rewrite (commit_live _ _ _ H2). reflexivity.
  Qed.

  Theorem updates_commit_all_at_once :
    forall b w, wf w -> locked w = false ->
      let h := length (txns w) in
      Forall (fun x => not_ending h x = true) b ->
      snd (run_body b (fst (begin true w))) = false ->
      pub (fst (managed true b RetNil w)) = wfold (pub w) (own_writes h b) /\
      locked (fst (managed true b RetNil w)) = false.
  Proof.
    intros b w W U h F NP.
    destruct (commit_all_at_once_thm b w W U F) as [_ [P L]].
    unfold TxnSeq.managed. fold h in P, L. rewrite (begin_true_unlocked _ U) in *. simpl in *.
    pose proof (run_body_no_panic b _ NP) as E.
    destruct (run_body b _) as [[w2 os] p]. simpl in *. subst p w2. simpl.
    rewrite abort_pub. split; auto. apply abort_keeps_unlocked; auto.
  Qed.

End Proofs.
