(* C04: non-vacuity of the theorems' hypotheses, on a tiny concrete semantics
   (state = set of numbers as a list; write n = insert, fails if present; read n = membership). *)
Require Import List Bool Arith.
Import ListNotations.
From FoxTxn Require Import TxnSeq TxnSeqProofs TxnSem.

Definition P0 : sem :=
  mkSem (list nat) nat bool nat bool
        (fun s o => if existsb (Nat.eqb o) s then (s, false) else (o :: s, true))
        negb
        (fun s r => existsb (Nat.eqb r) s)
        (fun _ => false).

Definition w0 : World P0 := init [7].

(* a write transaction (handle 0) with two writes, a nested snapshot, a router read, a blocked helper *)
Definition l0 : list (BStep P0) :=
  [TWrite 0 1; RRead 1; TSnapshot 0; TWrite 0 2; Single 9; TRead 1 2; Begin false].

Example ex_wf : m_wf P0 w0 /\ locked w0 = false.
Proof. split; reflexivity. Qed.

Example ex_not_ending : Forall (fun x => m_not_ending P0 0 x = true) l0.
Proof. repeat constructor. Qed.

Example ex_commit_all_at_once :
  pub (m_bsteps P0 l0 (fst (m_begin P0 true w0))) = [7] /\
  pub (fst (m_commit P0 0 (m_bsteps P0 l0 (fst (m_begin P0 true w0))))) = [2; 1; 7] /\
  m_own_writes P0 0 l0 = [1; 2].
Proof. repeat split. Qed.

Example ex_live_txn :
  nth_error (txns (fst (m_begin P0 true w0))) 0 = Some (mkTxn true (Some [7])) /\
  m_wf P0 (fst (m_begin P0 true w0)).
Proof. split; reflexivity. Qed.

(* Updates whose function panics after a prefix (here: commits inside fn, then writes => ErrSettledTxn),
   returns an error, or panics with its own value *)
Definition body_panics : list (BStep P0) := [TWrite 0 1; TAbort 0; TWrite 0 2].
Definition body_ok : list (BStep P0) := [TWrite 0 1; TSnapshot 0; TRead 1 1; TWrite 0 2].

Example ex_quiet : Forall (fun x => m_quiet P0 (length (txns w0)) x = true) body_panics /\
                   Forall (fun x => m_quiet P0 (length (txns w0)) x = true) body_ok.
Proof. split; repeat constructor. Qed.

Example ex_panic_prefix : snd (m_body P0 body_panics (fst (m_begin P0 true w0))) = true.
Proof. reflexivity. Qed.

Example ex_managed_outcomes :
  snd (m_managed P0 true body_panics RetNil w0) = [OW true; OUnit; OPanicSettled; OFinPanicSettled] /\
  pub (fst (m_managed P0 true body_panics RetNil w0)) = [7] /\
  pub (fst (m_managed P0 true body_ok RetErr w0)) = [7] /\
  pub (fst (m_managed P0 true body_ok PanicV w0)) = [7] /\
  pub (fst (m_managed P0 true body_ok RetNil w0)) = [2; 1; 7] /\
  locked (fst (m_managed P0 true body_ok PanicV w0)) = false.
Proof. repeat split. Qed.

(* fn ends its goroutine (runtime.Goexit) after two successful writes: aborted, lock free, call never returns *)
Example ex_goexit :
  snd (m_managed P0 true body_ok Goexit w0) = [OW true; OHandle 1; OR true; OW true; OFinGoexit] /\
  pub (fst (m_managed P0 true body_ok Goexit w0)) = [7] /\
  locked (fst (m_managed P0 true body_ok Goexit w0)) = false /\
  pub (fst (m_managed P0 false body_ok Goexit w0)) = [7].
Proof. repeat split. Qed.

Example ex_settled_and_readonly :
  let w := fst (m_commit P0 0 (fst (m_begin P0 true w0))) in
  nth_error (txns w) 0 = Some (mkTxn true None) /\
  snd (m_write P0 0 5 w) = OPanicSettled /\
  let w' := fst (m_begin P0 false w) in
  nth_error (txns w') 1 = Some (mkTxn false (Some [7])) /\ snd (m_write P0 1 5 w') = OW false.
Proof. repeat split. Qed.
