(* C05 — Concurrent use is race-free and linearizable.
   Statements only; proofs are in ProtocolProofs.v / HistoryProofs.v.

   WHAT IS PROVED: properties of the PROTOCOL MODEL (Protocol.v): a small-step interleaving
   semantics with any number of threads, any interleaving, over any sequential map semantics P.
   Tie A (last block) binds the model's writer / reader skeletons to the order of Lock / Load /
   Store / Unlock events in the Go sources as they are now.
   WHAT IS SAMPLED, NOT PROVED: data-race freedom under the Go memory model, absence of panics
   and the real scheduler are runtime behaviour that a Gallina model cannot exhibit; they are
   exercised by harness/cmd/c05 under the race detector, and every recorded history is judged by
   the checker history_ok, which is proved here never to raise a false alarm. *)
Require Import List NArith Sorting.Sorted String.
Import ListNotations.
From FoxTxn Require Import Protocol ProtocolProofs HistoryProofs SingleLoadProofs ProtoSem GenSync Skeleton.

(* At most one thread is between Lock and Unlock, and then mu is held. *)
Theorem mutual_exclusion :
  forall (P : psem) s0 n tr (c : Cfg P), Exec P s0 n tr c ->
    forall t t' p p', nth_error (ths c) t = Some p -> InCs P p = true ->
                      nth_error (ths c) t' = Some p' -> InCs P p' = true ->
                      t = t' /\ mu c = true.
Proof. exact (fun P => mutual_exclusion_thm (pSt P) (pwop P) (pwout P) (prop_ P) (prout P) (pwapply P) (prread P)). Qed.
Print Assumptions mutual_exclusion.

(* No lost update: while a writer holds the lock, the tree (version, stamps, state) is exactly what it loaded. *)
Theorem base_is_current :
  forall (P : psem) s0 n tr (c : Cfg P), Exec P s0 n tr c ->
    forall t os ops b v cn s, nth_error (ths c) t = Some (Loaded os ops b v cn s) ->
      mu c = true /\ v = ver c /\ cn = cnt c /\ s = st c.
Proof. exact (fun P => base_is_current_thm (pSt P) (pwop P) (pwout P) (prop_ P) (prout P) (pwapply P) (prread P)). Qed.
Print Assumptions base_is_current.

(* Linearizability: for EVERY execution, the operations ordered by their Store step (committed writes) and
   Load step (reads) form a legal sequential history of the map from the initial state to the current one:
   every write is applied to the state its predecessor left, returns the sequential results and takes the
   next version; every read returns what the state at that point answers. *)
Theorem protocol_linearizable :
  forall (P : psem) s0 n tr (c : Cfg P), Exec P s0 n tr c ->
    Legal P s0 0%N (Lin P tr) (st c) (ver c).
Proof. exact (fun P => protocol_linearizable_thm (pSt P) (pwop P) (pwout P) (prop_ P) (prout P) (pwapply P) (prread P)). Qed.
Print Assumptions protocol_linearizable.

(* ... consistently with real time, each operation exactly once: in every execution (hence in every prefix
   of it) and for every thread, #calls = #returns (+1 if an operation is in progress), #Store steps =
   #returns of committed writes (+1 if stored and not yet returned), #reader Loads = #returns of reads (+1);
   so the single linearisation point of an operation lies between its call and its return, a committed
   write is applied exactly once, an aborted one never. Since an operation that returned before another
   was called has its point before the other's, the order above respects real-time precedence. *)
Theorem linearization_points_exactly_once :
  forall (P : psem) s0 n tr (c : Cfg P), Exec P s0 n tr c ->
    forall t,
      Count P (IsCall P) t tr = Count P (IsRet P) t tr + PendingCall P (nth t (ths c) Idle) /\
      Count P (IsStore P) t tr = Count P (IsRetW P) t tr + PendingW P (nth t (ths c) Idle) /\
      Count P (IsLoadR P) t tr = Count P (IsRetR P) t tr + PendingR P (nth t (ths c) Idle) /\
      PendingCall P (nth t (ths c) Idle) <= 1 /\
      PendingW P (nth t (ths c) Idle) + PendingR P (nth t (ths c) Idle) <= PendingCall P (nth t (ths c) Idle).
Proof. exact (fun P => exactly_once_thm (pSt P) (pwop P) (pwout P) (prop_ P) (prout P) (pwapply P) (prread P)). Qed.
Print Assumptions linearization_points_exactly_once.

(* Versions loaded / stored never decrease: globally in real time, hence for every thread. *)
Theorem versions_monotone :
  forall (P : psem) s0 n tr (c : Cfg P), Exec P s0 n tr c ->
    StronglySorted N.le (Vers P tr) /\
    (forall t, StronglySorted N.le (Vers P (ByThread P t tr))) /\
    Forall (fun y => (y <= ver c)%N) (Vers P tr).
Proof. exact (fun P => versions_monotone_thm (pSt P) (pwop P) (pwout P) (prop_ P) (prout P) (pwapply P) (prread P)). Qed.
Print Assumptions versions_monotone.

(* The executable checker accepts the call/return history of EVERY complete execution of the protocol:
   it can never raise a false alarm. *)
Theorem history_ok_complete :
  forall (P : psem) s0 n tr (c : Cfg P), Exec P s0 n tr c -> Quiescent P c ->
    history_ok (Hist P tr) = true.
Proof. exact (fun P => history_ok_complete_thm (pSt P) (pwop P) (pwout P) (prop_ P) (prout P) (pwapply P) (prread P)). Qed.
Print Assumptions history_ok_complete.

(* ... and what it accepts contains no lost update (two committed writes producing the same version of an
   object), no duplicated or phantom write (the versions of each object are within 1..number of its
   committed writes, all distinct, hence exactly 1..n) ... *)
Theorem history_ok_rejects_lost_duplicated_writes :
  forall (wout rout : Type) (h : list (hev wout rout)), history_ok h = true ->
    NoDup (retW h) /\
    forall o v, In (o, v) (retW h) -> (1 <= v)%N /\ (v <= N.of_nat (count_o o (retW h)))%N.
Proof. exact history_ok_sound_writes_thm. Qed.
Print Assumptions history_ok_rejects_lost_duplicated_writes.

(* ... and no stale read: if operation a returned before operation b was called, b's version of every object
   is at least a's, and strictly larger when b is a committed write. *)
Theorem history_ok_rejects_stale_reads :
  forall (wout rout : Type) (h1 h2 h3 h4 : list (hev wout rout)) ta ra tb rb k0 k,
    scan (h1 ++ HRet ta ra :: h2 ++ HCall tb :: h3 ++ HRet tb rb :: h4) k0 = Some k ->
    (forall e, In e h3 -> hev_tid wout rout e <> tb) ->
    forall o va vb, In (o, va) (res_versions ra) -> In (o, vb) (res_versions rb) ->
      (va <= vb)%N /\ (is_write wout rout rb = true -> (va < vb)%N).
Proof. exact history_ok_sound_realtime_thm. Qed.
Print Assumptions history_ok_rejects_stale_reads.

(* One operation, one tree: a read performs ONE Load (a committed write ONE Store), so however many of its entry
   points report the version of an object, they report the same one.  The executable check single_load_ok accepts the
   history of every execution (no false alarm) ... *)
Theorem single_load_complete :
  forall (P : psem) s0 n tr (c : Cfg P), Exec P s0 n tr c -> single_load_ok (Hist P tr) = true.
Proof. exact (fun P => single_load_complete_thm (pSt P) (pwop P) (pwout P) (prop_ P) (prout P) (pwapply P) (prread P)). Qed.
Print Assumptions single_load_complete.

(* ... and in what it accepts no returned result shows two versions of one object (a read transaction one of whose
   entry points loaded the tree again, across a commit, is rejected). *)
Theorem single_load_rejects_second_load :
  forall (wout rout : Type) (h : list (hev wout rout)), single_load_ok h = true ->
    forall t r o v v', In (HRet t r) h -> In (o, v) (res_versions r) -> In (o, v') (res_versions r) -> v = v'.
Proof. exact single_load_sound_thm. Qed.
Print Assumptions single_load_rejects_second_load.

(* ---------- non-vacuity: a concrete execution (ProtocolExamples.v) and concrete rejected histories ---------- *)
From FoxTxn Require Import ProtocolExamples HistCorr.

Example nonvacuous_execution :
  exec (list nat) nat bool nat bool xapply xread [] 2 (firstn 4 tr_ex) c_loaded /\   (* a writer that has loaded its base *)
  exec (list nat) nat bool nat bool xapply xread [] 2 tr_ex c_final /\               (* committed, read, aborted *)
  quiescent _ _ _ _ _ c_final.
Proof. exact (conj ex_prefix (conj ex_full ex_quiescent)). Qed.

Example nonvacuous_history :
  hist _ _ _ _ tr_ex =
  [HCall 0; HCall 1; HRet 1 (ResR [(0, 1%N); (1, 1%N)] true); HRet 0 (ResW [(0, 1%N); (1, 1%N)] [true; false]);
   HCall 1; HRet 1 ResA] /\
  history_ok (hist _ _ _ _ tr_ex) = true.
Proof. exact ex_history. Qed.

Example checker_verdicts_on_concrete_histories :
  map history_ok [h_lost_update; h_phantom; h_stale_read; h_non_monotone; h_good] = [false; false; false; false; true].
Proof. exact eq_refl. Qed.

Example single_load_verdicts_on_concrete_histories :
  map history_ok [h_two_loads; h_one_load] = [true; true] /\
  map single_load_ok [h_two_loads; h_one_load] = [false; true] /\
  single_load_ok (hist _ _ _ _ tr_ex) = true.
Proof. exact (conj eq_refl (conj eq_refl eq_refl)). Qed.

(* ---------- tie A: the Go sources, as they are now, perform the protocol's events in the protocol's order ---------- *)
Open Scope string_scope.

(* writer prologue: Lock (write transactions only) BEFORE the root is loaded *)
Example skeleton_txnWith_ok : GenSync.skel_Router_txnWith = expected_txnWith.
Proof. exact eq_refl. Qed.
Example skeleton_getRoot_ok : GenSync.skel_Router_getRoot = expected_getRoot.
Proof. exact eq_refl. Qed.
(* Commit: Store BEFORE Unlock; Abort: Unlock without Store *)
Example skeleton_Commit_ok : GenSync.skel_Txn_Commit = expected_Commit.
Proof. exact eq_refl. Qed.
Example skeleton_Abort_ok : GenSync.skel_Txn_Abort = expected_Abort.
Proof. exact eq_refl. Qed.
(* the protocol's writer and reader, read off the source by path selection *)
Example writer_commit_path_ok :
  (sync_of (take_path [("write", true)] GenSync.skel_Router_txnWith) ++
   sync_of (take_path [("!txn.write", false); ("txn.rootTxn == nil", false)] GenSync.skel_Txn_Commit))%list
  = writer_commit_actions.
Proof. exact eq_refl. Qed.
Example writer_abort_path_ok :
  (sync_of (take_path [("write", true)] GenSync.skel_Router_txnWith) ++
   sync_of (take_path [("!txn.write", false); ("txn.rootTxn == nil", false)] GenSync.skel_Txn_Abort))%list
  = writer_abort_actions.
Proof. exact eq_refl. Qed.
Example reader_txn_path_ok :
  sync_of (take_path [("write", false)] GenSync.skel_Router_txnWith) = reader_actions /\
  sync_of (take_path [("!txn.write", true)] GenSync.skel_Txn_Commit) = [] /\
  sync_of (take_path [("!txn.write", true)] GenSync.skel_Txn_Abort) = [] /\
  sync_of (take_path [("!txn.write", false); ("txn.rootTxn == nil", true)] GenSync.skel_Txn_Commit) = [] /\
  sync_of (take_path [("!txn.write", false); ("txn.rootTxn == nil", true)] GenSync.skel_Txn_Abort) = [].
Proof. exact (conj eq_refl (conj eq_refl (conj eq_refl (conj eq_refl eq_refl)))). Qed.
(* managed transactions and single-operation helpers end every path with Commit or (deferred) Abort *)
Example skeleton_Updates_View_ok :
  GenSync.skel_Router_Updates = expected_Updates /\ GenSync.skel_Router_View = expected_View.
Proof. exact (conj eq_refl eq_refl). Qed.
Example skeleton_helpers_ok :
  GenSync.skel_Router_Handle = expected_helper "Txn.Handle" "if err != nil" "rte, nil" /\
  GenSync.skel_Router_Update = expected_helper "Txn.Update" "if err != nil" "rte, nil" /\
  GenSync.skel_Router_Delete = expected_helper "Txn.Delete" "if err != nil" "route, nil" /\
  GenSync.skel_Router_HandleRoute = expected_helper "Txn.HandleRoute" "if err := txn.HandleRoute(method, route); err != nil" "nil" /\
  GenSync.skel_Router_UpdateRoute = expected_helper "Txn.UpdateRoute" "if err := txn.UpdateRoute(method, route); err != nil" "nil".
Proof. exact (conj eq_refl (conj eq_refl (conj eq_refl (conj eq_refl eq_refl)))). Qed.
(* every read entry point loads the tree exactly once, unconditionally, outside any loop *)
Example readers_load_once_ok :
  map one_unconditional_load
      [GenSync.skel_Router_ServeHTTP; GenSync.skel_Router_Lookup; GenSync.skel_Router_Reverse;
       GenSync.skel_Router_Route; GenSync.skel_Router_Has; GenSync.skel_Router_Len; GenSync.skel_Router_Iter]
  = [true; true; true; true; true; true; true] /\
  loads GenSync.skel_Router_ServeHTTP = [([], Call "Router.getRoot")] /\
  loads GenSync.skel_Router_Has = [([], Call "Router.Route")].
Proof. exact (conj eq_refl (conj eq_refl eq_refl)). Qed.
(* the functions from which a load of the published tree is reachable (static call graph of the package) *)
Example loaders_ok :
  GenSync.loaders =
  ["Router.MustHandle"; "Router.Handle"; "Router.HandleRoute"; "Router.Update"; "Router.UpdateRoute"; "Router.Delete";
   "Router.Has"; "Router.Route"; "Router.Reverse"; "Router.Lookup"; "Router.Len"; "Router.Iter"; "Router.Updates";
   "Router.View"; "Router.Txn"; "Router.txnWith"; "Router.getRoot"; "Router.ServeHTTP"; "NewTestContext";
   "NewTestContextOnly"; "newTextContextOnly"; "newTestContext"]%string.
Proof. exact eq_refl. Qed.
(* nothing else in the production package touches Router.mu / Router.tree / Txn.rootTxn or loads the tree *)
Example sync_sites_ok : GenSync.sync_sites = expected_sync_sites.
Proof. exact eq_refl. Qed.

(* the router's shared mutable state is exactly what the protocol models: the tree pointer and the writer lock *)
Example router_shared_state_ok :
  GenSync.router_sync_fields = expected_router_sync_fields /\
  GenSync.router_field_writers = expected_router_field_writers.
Proof. exact (conj eq_refl eq_refl). Qed.
