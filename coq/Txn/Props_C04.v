(* C04 — Transactions are atomic and isolated.
   Statements only; proofs are in TxnSeqProofs.v.  P ranges over every sequential
   map semantics (state type, write/read operations and their deterministic results):
   the theorems hold for all of them, in particular for the routing tree of fox
   (whose map behaviour is the subject of C02) and for the reference map of TxnCorr.v
   that the harness compares with the implementation.
   The last block (tie A) makes the kernel compare the synchronisation skeletons
   regenerated from the Go sources (GenSync.v) with what TxnSeq.v assumes. *)
Require Import List String.
Import ListNotations.
From FoxTxn Require Import TxnSeq TxnSeqProofs TxnSem GenSync Skeleton.

(* Reachable worlds are well formed: the writer lock is held iff exactly one write transaction is live. *)
Theorem wf_reachable :
  forall (P : sem) (l : list (Step P)) (s : St P), m_wf P (fst (m_run P l (init s))).
Proof. exact (fun P => wf_run (St P) (wop P) (wout P) (rop P) (rout P) (wapply P) (wfail P) (rread P) (ro_out P)). Qed.
Print Assumptions wf_reachable.

(* Every step leaves the published state unchanged, except Commit of the live write transaction
   (published := that transaction's private state, in ONE step) and a successful single-operation helper. *)
Theorem published_only_at_commit :
  forall (P : sem) (x : BStep P) (w : World P),
    pub (fst (m_bstep P x w)) = pub w \/
    (exists h s, x = TCommit h /\ nth_error (txns w) h = Some (mkTxn true (Some s)) /\
                 pub (fst (m_bstep P x w)) = s) \/
    (exists o, x = Single o /\ locked w = false /\ wfail P (snd (wapply P (pub w) o)) = false /\
               pub (fst (m_bstep P x w)) = fst (wapply P (pub w) o)).
Proof. exact (fun P => published_only_at_commit_lemma (St P) (wop P) (wout P) (rop P) (rout P) (wapply P) (wfail P) (rread P) (ro_out P)). Qed.
Print Assumptions published_only_at_commit.

(* ... hence any sequence of steps without Commit / single-op helper (writes, reads, aborts, snapshots,
   iterators, new transactions) shows the same published state to every reader. *)
Theorem published_unchanged_without_commit :
  forall (P : sem) (l : list (BStep P)) (w : World P),
    Forall (fun x => m_may_publish P x = false) l ->      (* no TCommit, no single-operation helper *)
    pub (m_bsteps P l w) = pub w.
Proof. exact (fun P => run_bsteps_no_publish (St P) (wop P) (wout P) (rop P) (rout P) (wapply P) (wfail P) (rread P) (ro_out P)). Qed.
Print Assumptions published_unchanged_without_commit.

Theorem abort_error_panic_invisible :
  forall (P : sem),
    (* explicit Abort *)
    (forall (w : World P) h s, nth_error (txns w) h = Some (mkTxn true (Some s)) ->
        pub (fst (m_abort P h w)) = pub w /\ locked (fst (m_abort P h w)) = false /\
        nth_error (txns (fst (m_abort P h w))) h = Some (mkTxn true None)) /\
    (* Updates(fn) where fn returns an error or panics after ANY prefix of ANY body that does not itself
       commit the managed transaction or start another writer *)
    (forall (b : list (BStep P)) (e : ending) (w : World P), m_wf P w -> locked w = false ->
        Forall (fun x => m_quiet P (List.length (txns w)) x = true) b ->
        e <> RetNil \/ snd (m_body P b (fst (m_begin P true w))) = true ->
        pub (fst (m_managed P true b e w)) = pub w) /\
    (* failing single-operation helper *)
    (forall (o : wop P) (w : World P), wfail P (snd (wapply P (pub w) o)) = true ->
        pub (fst (m_single P o w)) = pub w) /\
    (* ever: once no write transaction is in progress, only a NEW write transaction can change what is published *)
    (forall (l : list (BStep P)) (w : World P), m_wf P w -> locked w = false ->
        Forall (fun x => m_starts_writer P x = false) l ->
        pub (m_bsteps P l w) = pub w).
Proof. exact (fun P => abort_error_panic_invisible_thm (St P) (wop P) (wout P) (rop P) (rout P) (wapply P) (wfail P) (rread P) (ro_out P)). Qed.
Print Assumptions abort_error_panic_invisible.

(* fn never returns because it ends its goroutine (runtime.Goexit, e.g. t.FailNow): neither a return
   nor a panic. Only the deferred function of Updates / View runs, recover() is nil there, and it aborts:
   nothing of the transaction is ever visible, the writer lock is released, and the call does not return. *)
Theorem goexit_invisible :
  forall (P : sem),
    (forall (b : list (BStep P)) (w : World P), m_wf P w -> locked w = false ->
        Forall (fun x => m_quiet P (List.length (txns w)) x = true) b ->
        pub (fst (m_managed P true b Goexit w)) = pub w /\ locked (fst (m_managed P true b Goexit w)) = false) /\
    (forall wr (b : list (BStep P)) (w : World P), m_wf P w -> locked w = false ->
        Forall (fun x => m_no_begin_w P x = true) b ->
        locked (fst (m_managed P wr b Goexit w)) = false) /\
    (forall wr (b : list (BStep P)) (w : World P) h, snd (m_begin P wr w) = OHandle h ->
        snd (m_body P b (fst (m_begin P wr w))) = false ->
        last (snd (m_managed P wr b Goexit w)) OUnit = OFinGoexit).
Proof. exact (fun P => goexit_invisible_thm (St P) (wop P) (wout P) (rop P) (rout P) (wapply P) (wfail P) (rread P) (ro_out P)). Qed.
Print Assumptions goexit_invisible.

Theorem lock_released :
  forall (P : sem),
    (forall h (w : World P) s, nth_error (txns w) h = Some (mkTxn true (Some s)) ->
        locked (fst (m_commit P h w)) = false /\ locked (fst (m_abort P h w)) = false) /\
    (* Commit / Abort of a read-only or settled transaction are no-ops *)
    (forall h (w : World P) t, nth_error (txns w) h = Some t -> m_live P t = false ->
        m_commit P h w = (w, OUnit) /\ m_abort P h w = (w, OUnit)) /\
    (* double commit / abort, in every combination *)
    (forall h (w : World P),
        fst (m_commit P h (fst (m_commit P h w))) = fst (m_commit P h w) /\
        fst (m_abort P h (fst (m_commit P h w))) = fst (m_commit P h w) /\
        fst (m_commit P h (fst (m_abort P h w))) = fst (m_abort P h w) /\
        fst (m_abort P h (fst (m_abort P h w))) = fst (m_abort P h w)) /\
    (* Updates / View, whatever fn does (short of opening another write transaction) and however it ends *)
    (forall wr (b : list (BStep P)) e (w : World P), m_wf P w -> locked w = false ->
        Forall (fun x => m_no_begin_w P x = true) b ->
        locked (fst (m_managed P wr b e w)) = false) /\
    (* single-operation helpers *)
    (forall (o : wop P) (w : World P), locked w = false -> locked (fst (m_single P o w)) = false).
Proof. exact (fun P => lock_released_thm (St P) (wop P) (wout P) (rop P) (rout P) (wapply P) (wfail P) (rread P) (ro_out P)). Qed.
Print Assumptions lock_released.

Theorem settled_refuses :
  forall (P : sem),
    (* a committed or aborted write transaction is settled ... *)
    (forall h (w : World P) s, nth_error (txns w) h = Some (mkTxn true (Some s)) ->
        nth_error (txns (fst (m_commit P h w))) h = Some (mkTxn true None) /\
        nth_error (txns (fst (m_abort P h w))) h = Some (mkTxn true None)) /\
    (* ... and a settled transaction refuses further use: panic(ErrSettledTxn), nothing changes *)
    (forall h (w : World P), nth_error (txns w) h = Some (mkTxn true None) ->
        (forall o, m_write P h o w = (w, OPanicSettled)) /\
        (forall r, m_read P h r w = (w, OPanicSettled)) /\
        m_iter P h w = (w, OPanicSettled) /\
        m_snapshot P h w = (w, ONil) /\
        m_commit P h w = (w, OUnit) /\ m_abort P h w = (w, OUnit)).
Proof. exact (fun P => settled_refuses_thm (St P) (wop P) (wout P) (rop P) (rout P) (wapply P) (rread P) (ro_out P)). Qed.
Print Assumptions settled_refuses.

Theorem readonly_refuses :
  forall (P : sem) h (w : World P) s, nth_error (txns w) h = Some (mkTxn false (Some s)) ->
    (forall o, m_write P h o w = (w, OW (ro_out P o))) /\          (* ErrReadOnlyTxn, no effect *)
    m_commit P h w = (w, OUnit) /\ m_abort P h w = (w, OUnit) /\
    (forall r, m_read P h r w = (w, OR (rread P s r))).
Proof. exact (fun P => readonly_refuses_thm (St P) (wop P) (wout P) (rop P) (rout P) (wapply P) (rread P) (ro_out P)). Qed.
Print Assumptions readonly_refuses.

(* Inside a write transaction h, whatever else happens in between (other handles, router reads, blocked
   writers ...), a read through h sees exactly h's own writes so far applied to the state at Begin. *)
Theorem read_your_writes :
  forall (P : sem) h (l : list (BStep P)) (w : World P) s,
    m_wf P w -> nth_error (txns w) h = Some (mkTxn true (Some s)) ->
    Forall (fun x => m_not_ending P h x = true) l ->
    forall r, snd (m_read P h r (m_bsteps P l w)) = OR (rread P (m_fold P s (m_own_writes P h l)) r).
Proof. exact (fun P => read_your_writes_thm (St P) (wop P) (wout P) (rop P) (rout P) (wapply P) (wfail P) (rread P) (ro_out P)). Qed.
Print Assumptions read_your_writes.

(* Begin; any steps that do not end h; Commit: nothing is visible at any point before the Commit, and the
   Commit publishes, in one step, the fold of ALL of h's operations over the state at Begin. *)
Theorem commit_all_at_once :
  forall (P : sem) (l : list (BStep P)) (w : World P), m_wf P w -> locked w = false ->
    let h := List.length (txns w) in
    let w1 := fst (m_begin P true w) in
    Forall (fun x => m_not_ending P h x = true) l ->
    (forall n, pub (m_bsteps P (firstn n l) w1) = pub w) /\
    pub (fst (m_commit P h (m_bsteps P l w1))) = m_fold P (pub w) (m_own_writes P h l) /\
    locked (fst (m_commit P h (m_bsteps P l w1))) = false.
Proof. exact (fun P => commit_all_at_once_thm (St P) (wop P) (wout P) (rop P) (rout P) (wapply P) (wfail P) (rread P) (ro_out P)). Qed.
Print Assumptions commit_all_at_once.

Theorem updates_commit_all_at_once :
  forall (P : sem) (b : list (BStep P)) (w : World P), m_wf P w -> locked w = false ->
    let h := List.length (txns w) in
    Forall (fun x => m_not_ending P h x = true) b ->
    snd (m_body P b (fst (m_begin P true w))) = false ->
    pub (fst (m_managed P true b RetNil w)) = m_fold P (pub w) (m_own_writes P h b) /\
    locked (fst (m_managed P true b RetNil w)) = false.
Proof. exact (fun P => TxnSeqProofs.updates_commit_all_at_once (St P) (wop P) (wout P) (rop P) (rout P) (wapply P) (wfail P) (rread P) (ro_out P)). Qed.
Print Assumptions updates_commit_all_at_once.

(* ---------- non-vacuity: concrete states satisfying the hypotheses above (TxnExamples.v) ---------- *)
From FoxTxn Require Import TxnExamples.

Example nonvacuous_commit_all_at_once :
  (m_wf P0 w0 /\ locked w0 = false) /\ Forall (fun x => m_not_ending P0 0 x = true) l0 /\
  pub (m_bsteps P0 l0 (fst (m_begin P0 true w0))) = [7] /\
  pub (fst (m_commit P0 0 (m_bsteps P0 l0 (fst (m_begin P0 true w0))))) = [2; 1; 7] /\
  m_own_writes P0 0 l0 = [1; 2].
Proof. exact (conj ex_wf (conj ex_not_ending ex_commit_all_at_once)). Qed.

Example nonvacuous_abort_error_panic :
  (Forall (fun x => m_quiet P0 (List.length (txns w0)) x = true) body_panics /\
   Forall (fun x => m_quiet P0 (List.length (txns w0)) x = true) body_ok) /\
  snd (m_body P0 body_panics (fst (m_begin P0 true w0))) = true /\
  snd (m_managed P0 true body_panics RetNil w0) = [OW true; OUnit; OPanicSettled; OFinPanicSettled] /\
  pub (fst (m_managed P0 true body_panics RetNil w0)) = [7] /\
  pub (fst (m_managed P0 true body_ok RetErr w0)) = [7] /\
  pub (fst (m_managed P0 true body_ok PanicV w0)) = [7] /\
  pub (fst (m_managed P0 true body_ok RetNil w0)) = [2; 1; 7] /\
  locked (fst (m_managed P0 true body_ok PanicV w0)) = false.
Proof. exact (conj ex_quiet (conj ex_panic_prefix ex_managed_outcomes)). Qed.

Example nonvacuous_goexit :
  snd (m_managed P0 true body_ok Goexit w0) = [OW true; OHandle 1; OR true; OW true; OFinGoexit] /\
  pub (fst (m_managed P0 true body_ok Goexit w0)) = [7] /\
  locked (fst (m_managed P0 true body_ok Goexit w0)) = false /\
  pub (fst (m_managed P0 false body_ok Goexit w0)) = [7].
Proof. exact ex_goexit. Qed.

Example nonvacuous_settled_readonly :
  let w := fst (m_commit P0 0 (fst (m_begin P0 true w0))) in
  nth_error (txns w) 0 = Some (mkTxn true None) /\
  snd (m_write P0 0 5 w) = OPanicSettled /\
  let w' := fst (m_begin P0 false w) in
  nth_error (txns w') 1 = Some (mkTxn false (Some [7])) /\ snd (m_write P0 1 5 w') = OW false.
Proof. exact ex_settled_and_readonly. Qed.

(* ---------- tie A: what the Go source says now (GenSync, regenerated on every run) = what TxnSeq assumes ---------- *)
Open Scope string_scope.

(* TxnSeq.begin: the writer lock is taken (write transactions only) BEFORE the root is loaded *)
Example skeleton_txnWith_ok : GenSync.skel_Router_txnWith = expected_txnWith.
Proof. exact eq_refl. Qed.
Example skeleton_Txn_ok : GenSync.skel_Router_Txn = expected_Txn.
Proof. exact eq_refl. Qed.
Example skeleton_getRoot_ok : GenSync.skel_Router_getRoot = expected_getRoot.
Proof. exact eq_refl. Qed.
(* TxnSeq.commit: no-op guards, Store, clear rootTxn, THEN Unlock *)
Example skeleton_Commit_ok : GenSync.skel_Txn_Commit = expected_Commit.
Proof. exact eq_refl. Qed.
(* TxnSeq.abort: no-op guards, clear rootTxn, Unlock; no Store *)
Example skeleton_Abort_ok : GenSync.skel_Txn_Abort = expected_Abort.
Proof. exact eq_refl. Qed.
Example skeleton_Snapshot_ok : GenSync.skel_Txn_Snapshot = expected_Snapshot.
Proof. exact eq_refl. Qed.
Example skeleton_TxnIter_ok : GenSync.skel_Txn_Iter = expected_TxnIter.
Proof. exact eq_refl. Qed.
(* TxnSeq.managed: Abort is deferred on the panic path (followed by re-panic) AND on the normal path;
   Updates commits only after fn returned nil; View never commits *)
Example skeleton_Updates_ok : GenSync.skel_Router_Updates = expected_Updates.
Proof. exact eq_refl. Qed.
Example skeleton_View_ok : GenSync.skel_Router_View = expected_View.
Proof. exact eq_refl. Qed.
(* TxnSeq.single: one-operation transactions, Abort deferred, Commit only when the operation succeeded *)
Example skeleton_helpers_ok :
  GenSync.skel_Router_Handle = expected_helper "Txn.Handle" "if err != nil" "rte, nil" /\
  GenSync.skel_Router_Update = expected_helper "Txn.Update" "if err != nil" "rte, nil" /\
  GenSync.skel_Router_Delete = expected_helper "Txn.Delete" "if err != nil" "route, nil" /\
  GenSync.skel_Router_HandleRoute = expected_helper "Txn.HandleRoute" "if err := txn.HandleRoute(method, route); err != nil" "nil" /\
  GenSync.skel_Router_UpdateRoute = expected_helper "Txn.UpdateRoute" "if err := txn.UpdateRoute(method, route); err != nil" "nil".
Proof. exact (conj eq_refl (conj eq_refl (conj eq_refl (conj eq_refl eq_refl)))). Qed.
(* settled_refuses / readonly_refuses: the two guards come first in every write method of Txn *)
Example skeleton_guards_ok :
  firstn 2 GenSync.skel_Txn_Handle = expected_guards "nil, ErrReadOnlyTxn" /\
  firstn 2 GenSync.skel_Txn_Update = expected_guards "nil, ErrReadOnlyTxn" /\
  firstn 2 GenSync.skel_Txn_Delete = expected_guards "nil, ErrReadOnlyTxn" /\
  firstn 2 GenSync.skel_Txn_HandleRoute = expected_guards "ErrReadOnlyTxn" /\
  firstn 2 GenSync.skel_Txn_UpdateRoute = expected_guards "ErrReadOnlyTxn" /\
  firstn 2 GenSync.skel_Txn_Truncate = expected_guards "ErrReadOnlyTxn".
Proof. exact (conj eq_refl (conj eq_refl (conj eq_refl (conj eq_refl (conj eq_refl eq_refl))))). Qed.
Example skeleton_tXn_ok :
  GenSync.skel_tXn_commit = expected_tXn_commit /\ GenSync.skel_tXn_clone = expected_tXn_clone /\
  GenSync.skel_tXn_snapshot = expected_tXn_snapshot.
Proof. exact (conj eq_refl (conj eq_refl eq_refl)). Qed.
(* nothing else in the production package touches Router.mu, Router.tree or Txn.rootTxn *)
Example sync_sites_ok : GenSync.sync_sites = expected_sync_sites.
Proof. exact eq_refl. Qed.
