(* C05 proofs about Protocol.v: mutual exclusion, no lost update, linearizability,
   monotone versions; completeness and soundness of the history checker are in
   HistoryProofs.v. *)
Require Import List Bool Arith NArith Lia Sorting.Sorted.
Import ListNotations.
From FoxTxn Require Import Protocol.

Section Proofs.
  Variables St wop wout rop rout : Type.
  Variable wapply : St -> wop -> St * wout.
  Variable rread : St -> rop -> rout.

  Notation cfg := (cfg St wop wout rop rout).
  Notation pc := (pc St wop wout rop rout).
  Notation label := (label wop wout rop rout).
  Notation step := (step St wop wout rop rout wapply rread).
  Notation exec := (exec St wop wout rop rout wapply rread).
  Notation wrun := (wrun St wop wout wapply).
  Notation in_cs := (in_cs St wop wout rop rout).
  Notation lin := (lin wop wout rop rout).
  Notation lin1 := (lin1 wop wout rop rout).
  Notation legal := (legal St wop wout rop rout wapply rread).
  Notation vers := (vers wop wout rop rout).
  Notation vers1 := (vers1 wop wout rop rout).
  Notation by_thread := (by_thread wop wout rop rout).

  (* ---------- lists ---------- *)

  Lemma nth_upd_same {A} (l : list A) t p x : nth_error l t = Some p -> nth_error (upd t x l) t = Some x.
  Proof. revert t. induction l; intros [|t] H; simpl in *; try discriminate; auto. Qed.

  Lemma nth_upd_other {A} (l : list A) t t' x : t <> t' -> nth_error (upd t x l) t' = nth_error l t'.
  Proof. revert t t'. induction l; intros [|t] [|t'] H; simpl; auto; congruence. Qed.

  Lemma nth_app_idle {A} (l : list A) (d : A) t : nth t (l ++ [d]) d = nth t l d.
  Proof.
    revert t. induction l; intros [|t]; simpl; auto. destruct t; auto.
  Qed.

  Lemma nth_error_nth {A} (l : list A) t p d : nth_error l t = Some p -> nth t l d = p.
  Proof. revert t. induction l; intros [|t] H; simpl in *; try discriminate; auto. congruence. Qed.

  Lemma nth_upd_same_d {A} (l : list A) t p x d : nth_error l t = Some p -> nth t (upd t x l) d = x.
  Proof. intros H. apply nth_error_nth. eapply nth_upd_same; eauto. Qed.

  Lemma nth_upd_other_d {A} (l : list A) t t' x d : t <> t' -> nth t' (upd t x l) d = nth t' l d.
  Proof. revert t t'. induction l; intros [|t] [|t'] H; simpl; auto; congruence. Qed.

  Lemma nth_error_app_old {A} (l : list A) x t p :
    nth_error (l ++ [x]) t = Some p -> nth_error l t = Some p \/ (t = length l /\ p = x).
  Proof.
    intros H. destruct (Nat.lt_ge_cases t (length l)) as [Lt|Ge].
    - rewrite nth_error_app1 in H by auto. auto.
    - rewrite nth_error_app2 in H by auto. destruct (t - length l) as [|k] eqn:K; simpl in H.
      + inversion H. right. split; auto. lia.
      + destruct k; discriminate.
  Qed.

  (* ---------- mutual exclusion ---------- *)

  Definition ncs (l : list pc) : nat := length (filter in_cs l).
  Definition b2n (b : bool) : nat := if b then 1 else 0.

  Lemma ncs_cons p l : ncs (p :: l) = b2n (in_cs p) + ncs l.
  Proof. unfold ncs; simpl. destruct (in_cs p); auto. Qed.

  Lemma ncs_app l l' : ncs (l ++ l') = ncs l + ncs l'.
  Proof. unfold ncs. rewrite filter_app, app_length; auto. Qed.

  Lemma ncs_upd l t p p' :
    nth_error l t = Some p -> ncs (upd t p' l) + b2n (in_cs p) = ncs l + b2n (in_cs p').
  Proof.
    revert t. induction l as [|a l IH]; intros [|t] H; simpl in *; try discriminate.
    - inversion H; subst. rewrite !ncs_cons. lia.
    - rewrite !ncs_cons. specialize (IH _ H). lia.
  Qed.

  Lemma ncs_ge l t p : nth_error l t = Some p -> in_cs p = true -> 1 <= ncs l.
  Proof.
    revert t. induction l as [|a l IH]; intros [|t] H L; simpl in *; try discriminate.
    - inversion H; subst. rewrite ncs_cons, L. simpl; lia.
    - rewrite ncs_cons. specialize (IH _ H L). lia.
  Qed.

  Lemma ncs_unique l t t' p p' :
    ncs l <= 1 -> nth_error l t = Some p -> in_cs p = true ->
    nth_error l t' = Some p' -> in_cs p' = true -> t = t'.
  Proof.
    revert t t'. induction l as [|a l IH]; intros [|t] [|t'] N H L H' L'; simpl in *; try discriminate; auto.
    - inversion H; subst. rewrite ncs_cons, L in N. pose proof (ncs_ge _ _ _ H' L'). simpl in N. lia.
    - inversion H'; subst. rewrite ncs_cons, L' in N. pose proof (ncs_ge _ _ _ H L). simpl in N. lia.
    - f_equal. rewrite ncs_cons in N. eapply IH; eauto. lia.
  Qed.

  Definition mutex_inv (c : cfg) : Prop := ncs (ths c) = b2n (mu c).

  Lemma mutex_step c l c' : mutex_inv c -> step c l c' -> mutex_inv c'.
  Proof.
    unfold mutex_inv. intros I S. destruct S; simpl.
    - rewrite ncs_app, I. unfold ncs; simpl. lia.
    - pose proof (ncs_upd _ _ _ (Called j) H) as N. simpl in N. lia.
    - pose proof (ncs_upd _ _ _ (Locked os ops b) H) as N. simpl in N. rewrite H0 in I. simpl in *. lia.
    - pose proof (ncs_upd _ _ _ (Loaded os ops b (ver c) (cnt c) (st c)) H) as N. simpl in N. lia.
    - pose proof (ncs_upd _ _ _ (Stored (ResW (stamps (bump cn os) os) (snd (wrun s ops)))) H) as N.
      simpl in N. lia.
    - pose proof (ncs_upd _ _ _ (Finished r) H) as N. simpl in N.
      pose proof (ncs_ge _ _ _ H eq_refl). destruct (mu c); simpl in *; lia.
    - pose proof (ncs_upd _ _ _ (Finished ResA) H) as N. simpl in N.
      pose proof (ncs_ge _ _ _ H eq_refl). destruct (mu c); simpl in *; lia.
    - pose proof (ncs_upd _ _ _ (Finished (ResR (stamps (cnt c) os) (rread (st c) r))) H) as N.
      simpl in N. lia.
    - pose proof (ncs_upd _ _ _ Idle H) as N. simpl in N. lia.
  Qed.

  Lemma ncs_repeat n : ncs (repeat Idle n) = 0.
  Proof. induction n; simpl; auto. Qed.

  Lemma mutex_exec s0 n tr c : exec s0 n tr c -> mutex_inv c.
  Proof.
    induction 1; eauto using mutex_step. unfold mutex_inv. simpl. apply ncs_repeat.
  Qed.

  Theorem mutual_exclusion_thm s0 n tr c :
    exec s0 n tr c ->
    forall t t' p p', nth_error (ths c) t = Some p -> in_cs p = true ->
                      nth_error (ths c) t' = Some p' -> in_cs p' = true ->
                      t = t' /\ mu c = true.
  Proof.
    intros E t t' p p' H L H' L'. pose proof (mutex_exec _ _ _ _ E) as I. unfold mutex_inv in I.
    pose proof (ncs_ge _ _ _ H L) as G.
    split.
    - eapply ncs_unique; eauto. destruct (mu c); simpl in I; lia.
    - destruct (mu c); auto. simpl in I. lia.
  Qed.

  (* ---------- no lost update: what a writer loaded is still the current tree while it holds the lock ---------- *)

  Definition base_inv (c : cfg) : Prop :=
    forall t os ops b v cn s, nth_error (ths c) t = Some (Loaded os ops b v cn s) ->
                              v = ver c /\ cn = cnt c /\ s = st c.

  Ltac same_or_other t t0 H :=
    destruct (Nat.eq_dec t0 t) as [->|Ne];
    [ erewrite nth_upd_same in H by eauto; inversion H; subst
    | rewrite nth_upd_other in H by auto ].

  Lemma base_step c l c' : mutex_inv c -> base_inv c -> step c l c' -> base_inv c'.
  Proof.
    intros M B S. destruct S; intros t' os' ops' b' v' cn' s' H'; simpl in *.
    - apply nth_error_app_old in H'. destruct H' as [H'|[_ H']]; [eauto|discriminate].
    - same_or_other t' t H'. eauto.
    - same_or_other t' t H'. eauto.
    - same_or_other t' t H'; auto. eauto.
    - same_or_other t' t H'.
      exfalso. apply Ne. unfold mutex_inv in M.
      eapply (ncs_unique (ths c)); eauto. destruct (mu c); simpl in M; lia.
    - same_or_other t' t H'. eauto.
    - same_or_other t' t H'. eauto.
    - same_or_other t' t H'. eauto.
    - same_or_other t' t H'. eauto.
  Qed.

  Lemma base_exec s0 n tr c : exec s0 n tr c -> base_inv c.
  Proof.
    induction 1.
    - intros t os ops b v cn s H. simpl in H. exfalso.
      assert (In (Loaded os ops b v cn s) (repeat Idle n)) as I by (eapply nth_error_In; eauto).
      apply repeat_spec in I. discriminate.
    - eapply base_step; eauto. eapply mutex_exec; eauto.
  Qed.

  Theorem base_is_current_thm s0 n tr c :
    exec s0 n tr c ->
    forall t os ops b v cn s, nth_error (ths c) t = Some (Loaded os ops b v cn s) ->
      mu c = true /\ v = ver c /\ cn = cnt c /\ s = st c.
  Proof.
    intros E t os ops b v cn s H. split.
    - eapply (mutual_exclusion_thm _ _ _ _ E t t); eauto.
    - eapply base_exec; eauto.
  Qed.

  (* ---------- linearizability ---------- *)

  Lemma legal_snoc_w s v l s' v' t ops :
    legal s v l s' v' ->
    legal s v (l ++ [LinW t (v' + 1)%N ops (snd (wrun s' ops))]) (fst (wrun s' ops)) (v' + 1)%N.
  Proof.
    induction 1; simpl.
    - constructor. constructor.
    - constructor; auto.
    - constructor; auto.
  Qed.

  Lemma legal_snoc_r s v l s' v' t r :
    legal s v l s' v' ->
    legal s v (l ++ [LinR t v' r (rread s' r)]) s' v'.
  Proof.
    induction 1; simpl.
    - constructor. constructor.
    - constructor; auto.
    - constructor; auto.
  Qed.

  Lemma lin_snoc tr l : lin (tr ++ [l]) = lin tr ++ lin1 l.
  Proof. unfold Protocol.lin. rewrite flat_map_app. simpl. rewrite app_nil_r. reflexivity. Qed.

  Theorem protocol_linearizable_thm s0 n tr c :
    exec s0 n tr c -> legal s0 0%N (lin tr) (st c) (ver c).
  Proof.
    induction 1 as [|tr c l c' E IH S].
    - constructor.
    - rewrite lin_snoc. pose proof (base_exec _ _ _ _ E) as B.
      destruct S; simpl; rewrite ?app_nil_r; auto.
      + destruct (B _ _ _ _ _ _ _ H) as [-> [-> ->]]. apply legal_snoc_w; auto.
      + apply legal_snoc_r; auto.
  Qed.

  (* ---------- versions never go back ---------- *)

  Lemma vers_snoc tr l : vers (tr ++ [l]) = vers tr ++ vers1 l.
  Proof. unfold Protocol.vers. rewrite flat_map_app. simpl. rewrite app_nil_r. reflexivity. Qed.

  Lemma ssorted_snoc (l : list N) x :
    StronglySorted N.le l -> Forall (fun y => (y <= x)%N) l -> StronglySorted N.le (l ++ [x]).
  Proof.
    induction 1; intros F; simpl.
    - constructor; constructor.
    - inversion F; subst. constructor; auto.
      apply Forall_app. split; auto.
  Qed.

  Lemma vers_inv s0 n tr c :
    exec s0 n tr c -> StronglySorted N.le (vers tr) /\ Forall (fun y => (y <= ver c)%N) (vers tr).
  Proof.
    induction 1 as [|tr c l c' E [IS IF] S].
    - split; constructor.
    - rewrite vers_snoc. pose proof (base_exec _ _ _ _ E) as B.
      destruct S; simpl; rewrite ?app_nil_r; auto.
      + split; [apply ssorted_snoc; auto|]. apply Forall_app; split; auto. constructor; [lia|constructor].
      + destruct (B _ _ _ _ _ _ _ H) as [-> [-> ->]]. split.
        * apply ssorted_snoc; auto. eapply Forall_impl; [|exact IF]. simpl. intros; lia.
        * apply Forall_app; split; [|constructor; [lia|constructor]].
          eapply Forall_impl; [|exact IF]. simpl. intros; lia.
      + split; [apply ssorted_snoc; auto|]. apply Forall_app; split; auto. constructor; [lia|constructor].
  Qed.

  Lemma vers_filter_in f tr x : In x (vers (filter f tr)) -> In x (vers tr).
  Proof.
    induction tr as [|l tr IH]; simpl; auto.
    destruct (f l); simpl; rewrite ?in_app_iff; intuition.
  Qed.

  Lemma vers_filter_sorted f tr : StronglySorted N.le (vers tr) -> StronglySorted N.le (vers (filter f tr)).
  Proof.
    induction tr as [|l tr IH]; simpl; auto.
    intros Sd.
    assert (St' : StronglySorted N.le (vers tr)).
    { destruct (vers1 l) as [|a [|b r]] eqn:V; simpl in Sd; auto.
      - inversion Sd; auto.
      - destruct l; simpl in V; discriminate. }
    destruct (f l); simpl; auto.
    destruct (vers1 l) as [|a [|b r]] eqn:V; simpl in *; auto.
    - inversion Sd; subst. constructor; auto.
      rewrite Forall_forall in *. intros x I. apply H2. eapply vers_filter_in; eauto.
    - destruct l; simpl in V; discriminate.
  Qed.

  Theorem versions_monotone_thm s0 n tr c :
    exec s0 n tr c ->
    StronglySorted N.le (vers tr) /\                          (* globally, in real-time order *)
    (forall t, StronglySorted N.le (vers (by_thread t tr))) /\    (* hence for each thread *)
    Forall (fun y => (y <= ver c)%N) (vers tr).
  Proof.
    intros E. destruct (vers_inv _ _ _ _ E) as [S F]. repeat split; auto.
    intros t. apply vers_filter_sorted; auto.
  Qed.

  (* ---------- each operation takes effect exactly once, between its call and its return ---------- *)

  Notation cnt_l := (cnt_l wop wout rop rout).
  Notation label_tid := (label_tid wop wout rop rout).
  Notation is_call := (is_call wop wout rop rout).
  Notation is_ret := (is_ret wop wout rop rout).
  Notation is_store := (is_store wop wout rop rout).
  Notation is_retW := (is_retW wop wout rop rout).
  Notation is_loadr := (is_loadr wop wout rop rout).
  Notation is_retR := (is_retR wop wout rop rout).
  Notation pending_call := (pending_call St wop wout rop rout).
  Notation pendingW := (pendingW St wop wout rop rout).
  Notation pendingR := (pendingR St wop wout rop rout).
  Notation pc_wf := (pc_wf St wop wout rop rout).

  Definition of_thread (t : nat) (l : label) : bool :=
    match label_tid l with Some t' => Nat.eqb t t' | None => false end.

  Lemma cnt_snoc f t tr l :
    cnt_l f t (tr ++ [l]) = cnt_l f t tr + b2n (of_thread t l && f l).
  Proof.
    unfold Protocol.cnt_l, Protocol.by_thread. rewrite filter_app, filter_app, app_length. simpl.
    fold (of_thread t l). destruct (of_thread t l); simpl; auto. destruct (f l); simpl; auto.
  Qed.

  Definition count_inv (c : cfg) (tr : list label) : Prop :=
    forall t, let p := nth t (ths c) Idle in
      cnt_l is_call t tr = cnt_l is_ret t tr + pending_call p /\
      cnt_l is_store t tr = cnt_l is_retW t tr + pendingW p /\
      cnt_l is_loadr t tr = cnt_l is_retR t tr + pendingR p.

  Definition all_wf (c : cfg) : Prop := forall t p, nth_error (ths c) t = Some p -> pc_wf p.

  Lemma all_wf_exec s0 n tr c : exec s0 n tr c -> all_wf c.
  Proof.
    induction 1 as [|tr c l c' E IH S].
    - intros t p H. simpl in H. apply nth_error_In, repeat_spec in H. subst. exact I.
    - destruct S; intros t' p' H'; simpl in *;
        try (destruct (Nat.eq_dec t t') as [->|Ne];
             [ erewrite nth_upd_same in H' by eauto; inversion H'; subst; simpl; auto
             | rewrite nth_upd_other in H' by auto; eauto ]).
      apply nth_error_app_old in H'. destruct H' as [H'|[_ ->]]; [eauto|exact I].
  Qed.

  Lemma of_thread_same t (l : label) : label_tid l = Some t -> of_thread t l = true.
  Proof. unfold of_thread. intros ->. apply Nat.eqb_refl. Qed.

  Lemma of_thread_other t t' (l : label) : label_tid l = Some t' -> t <> t' -> of_thread t l = false.
  Proof. unfold of_thread. intros -> Ne. apply Nat.eqb_neq; auto. Qed.

  Lemma count_exec s0 n tr c : exec s0 n tr c -> count_inv c tr.
  Proof.
    induction 1 as [|tr c l c' E IH S].
    - intros t. simpl.
      assert (Hn : nth t (repeat (@Idle St wop wout rop rout) n) Idle = Idle).
      { clear. revert t. induction n; intros [|t]; simpl; auto. }
      rewrite Hn. simpl. auto.
    - pose proof (all_wf_exec _ _ _ _ E) as WF.
      intros t. rewrite !cnt_snoc. specialize (IH t). simpl in IH.
      destruct S; simpl ths;
        try (destruct (Nat.eq_dec t t0) as [->|Ne];
             [ rewrite (nth_upd_same_d _ _ _ _ Idle H); rewrite (nth_error_nth _ _ _ Idle H) in IH;
               rewrite !of_thread_same by reflexivity; simpl in *; try lia
             | rewrite (nth_upd_other_d _ _ _ _ Idle (not_eq_sym Ne));
               rewrite !(of_thread_other t t0) by (auto; reflexivity); simpl; lia ]).
      + rewrite nth_app_idle. simpl. unfold of_thread. simpl. lia.
      + specialize (WF _ _ H). simpl in WF. destruct r; simpl in *; try contradiction; lia.
      + destruct r; simpl in *; lia.
  Qed.

  Theorem exactly_once_thm s0 n tr c :
    exec s0 n tr c ->
    forall t,
      (* in every prefix-closed sense (tr is arbitrary): *)
      cnt_l is_call t tr = cnt_l is_ret t tr + pending_call (nth t (ths c) Idle) /\
      cnt_l is_store t tr = cnt_l is_retW t tr + pendingW (nth t (ths c) Idle) /\
      cnt_l is_loadr t tr = cnt_l is_retR t tr + pendingR (nth t (ths c) Idle) /\
      pending_call (nth t (ths c) Idle) <= 1 /\
      pendingW (nth t (ths c) Idle) + pendingR (nth t (ths c) Idle) <= pending_call (nth t (ths c) Idle).
  Proof.
    intros E t. destruct (count_exec _ _ _ _ E t) as [A [B C]]. repeat split; auto.
    - destruct (nth t (ths c) Idle); simpl; lia.
    - destruct (nth t (ths c) Idle) as [| | | | r | r]; simpl; try lia; destruct r; simpl; lia.
  Qed.

End Proofs.
