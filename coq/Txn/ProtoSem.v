(* C05: the parameters of the protocol model bundled in one record, so that the theorems of
   Props_C05.v read "for every sequential map semantics P, every number of threads, every
   interleaving".  Transparent abbreviations of Protocol.v. *)
Require Import List NArith.
From FoxTxn Require Import Protocol.

Record psem := mkPsem {
  pSt : Type; pwop : Type; pwout : Type; prop_ : Type; prout : Type;
  pwapply : pSt -> pwop -> pSt * pwout;
  prread : pSt -> prop_ -> prout
}.

Section Wrap.
  Variable P : psem.
  Definition Cfg := cfg (pSt P) (pwop P) (pwout P) (prop_ P) (prout P).
  Definition Pc := pc (pSt P) (pwop P) (pwout P) (prop_ P) (prout P).
  Definition Label := label (pwop P) (pwout P) (prop_ P) (prout P).
  Definition Hev := hev (pwout P) (prout P).
  Definition Result := result (pwout P) (prout P).
  (* exec s0 n tr c: from the initial state s0 with n idle threads (more can be spawned), the protocol
     can perform the sequence of steps tr and reach configuration c *)
  Definition Exec (s0 : pSt P) (n : nat) (tr : list Label) (c : Cfg) : Prop :=
    exec (pSt P) (pwop P) (pwout P) (prop_ P) (prout P) (pwapply P) (prread P) s0 n tr c.
  Definition Quiescent (c : Cfg) : Prop := quiescent (pSt P) (pwop P) (pwout P) (prop_ P) (prout P) c.
  Definition InCs (p : Pc) : bool := in_cs (pSt P) (pwop P) (pwout P) (prop_ P) (prout P) p.
  Definition Hist (tr : list Label) : list Hev := hist (pwop P) (pwout P) (prop_ P) (prout P) tr.
  Definition Lin (tr : list Label) := lin (pwop P) (pwout P) (prop_ P) (prout P) tr.
  Definition Legal := legal (pSt P) (pwop P) (pwout P) (prop_ P) (prout P) (pwapply P) (prread P).
  Definition Vers (tr : list Label) : list N := vers (pwop P) (pwout P) (prop_ P) (prout P) tr.
  Definition ByThread (t : nat) (tr : list Label) : list Label := by_thread (pwop P) (pwout P) (prop_ P) (prout P) t tr.
  Definition Count (f : Label -> bool) (t : nat) (tr : list Label) : nat := cnt_l (pwop P) (pwout P) (prop_ P) (prout P) f t tr.
  Definition IsCall : Label -> bool := is_call (pwop P) (pwout P) (prop_ P) (prout P).
  Definition IsRet : Label -> bool := is_ret (pwop P) (pwout P) (prop_ P) (prout P).
  Definition IsStore : Label -> bool := is_store (pwop P) (pwout P) (prop_ P) (prout P).
  Definition IsRetW : Label -> bool := is_retW (pwop P) (pwout P) (prop_ P) (prout P).
  Definition IsLoadR : Label -> bool := is_loadr (pwop P) (pwout P) (prop_ P) (prout P).
  Definition IsRetR : Label -> bool := is_retR (pwop P) (pwout P) (prop_ P) (prout P).
  Definition PendingCall (p : Pc) : nat := pending_call (pSt P) (pwop P) (pwout P) (prop_ P) (prout P) p.
  Definition PendingW (p : Pc) : nat := pendingW (pSt P) (pwop P) (pwout P) (prop_ P) (prout P) p.
  Definition PendingR (p : Pc) : nat := pendingR (pSt P) (pwop P) (pwout P) (prop_ P) (prout P) p.
End Wrap.
