(* C05: "one operation, one tree".  In the protocol a read performs ONE Load and a committed write ONE Store, and
   the versions an operation returns are the stamps of that one tree: whatever it reports about an object, it
   reports ONE version of it.  The executable check Protocol.single_load_ok
   - accepts the history of every execution of the protocol (single_load_complete_thm: no false alarm), and
   - what it accepts has one version per object in every returned result (single_load_sound_thm).
   The harness records a read transaction (View / Txn(false) / Snapshot) as ONE read whose result lists what
   EVERY entry point of the transaction answered (Has, Route, Reverse, Lookup, Iter...), across a commit by
   another thread: an entry point that loads the tree again shows a second version of the same object. *)
Require Import List Bool Arith NArith Lia.
Import ListNotations.
From FoxTxn Require Import Protocol ProtocolProofs HistoryProofs.

Definition functional_vs (vs : list (obj * N)) : Prop :=
  forall o v v', In (o, v) vs -> In (o, v') vs -> v = v'.

Lemma one_version_iff vs : one_version vs = true <-> functional_vs vs.
Proof.
  induction vs as [|[o v] r IH]; simpl.
  - split; [intros _ o v v' []|reflexivity].
  - rewrite andb_true_iff, forallb_forall, IH. split.
    + intros [Hh Hr] o1 v1 v1' [E1|I1] [E2|I2].
      * congruence.
      * inversion E1; subst. specialize (Hh _ I2). simpl in Hh. rewrite Nat.eqb_refl in Hh. simpl in Hh.
        apply N.eqb_eq in Hh. auto.
      * inversion E2; subst. specialize (Hh _ I1). simpl in Hh. rewrite Nat.eqb_refl in Hh. simpl in Hh.
        apply N.eqb_eq in Hh. auto.
      * eapply Hr; eauto.
    + intros F. split.
      * intros [o1 v1] I1. simpl. destruct (Nat.eqb o1 o) eqn:E; simpl; auto.
        apply Nat.eqb_eq in E. subst. apply N.eqb_eq. eapply F; [right; eauto|left; reflexivity].
      * intros o1 v1 v1' I1 I2. eapply F; right; eauto.
Qed.

Section SLProofs.
  Variables St wop wout rop rout : Type.
  Variable wapply : St -> wop -> St * wout.
  Variable rread : St -> rop -> rout.

  Notation cfg := (cfg St wop wout rop rout).
  Notation pc := (pc St wop wout rop rout).
  Notation step := (step St wop wout rop rout wapply rread).
  Notation exec := (exec St wop wout rop rout wapply rread).
  Notation hist := (hist wop wout rop rout).
  Notation hist1 := (hist1 wop wout rop rout).
  Notation result := (result wout rout).

  Lemma one_version_stamps (c : cnts) os : one_version (stamps c os) = true.
  Proof.
    apply one_version_iff. intros o v v' I1 I2.
    apply in_stamps in I1. apply in_stamps in I2. destruct I1 as [_ ->]. destruct I2 as [_ ->]. reflexivity.
  Qed.

  (* the result a thread is about to return *)
  Definition pc_result (p : pc) : option result :=
    match p with Stored r | Finished r => Some r | _ => None end.

  Definition pc_one (p : pc) : Prop :=
    match pc_result p with Some r => one_version (res_versions r) = true | None => True end.

  Definition all_one (c : cfg) : Prop := forall t p, nth_error (ths c) t = Some p -> pc_one p.

  Lemma all_one_exec s0 n tr c : exec s0 n tr c -> all_one c.
  Proof.
    induction 1 as [|tr c l c' E IH S].
    - intros t p H. simpl in H. apply nth_error_In, repeat_spec in H. subst. exact I.
    - destruct S; intros t' p' H'; simpl in *;
        try (destruct (Nat.eq_dec t t') as [->|Ne];
             [ erewrite nth_upd_same in H' by eauto; inversion H'; subst; unfold pc_one; simpl;
               auto using one_version_stamps
             | rewrite nth_upd_other in H' by auto; eauto ]).
      + apply nth_error_app_old in H'. destruct H' as [H'|[_ ->]]; [eauto|exact I].
      + (* Unlock after Store: the result is carried over unchanged *)
        exact (IH _ _ H).
  Qed.

  Theorem single_load_complete_thm s0 n tr c : exec s0 n tr c -> single_load_ok (hist tr) = true.
  Proof.
    induction 1 as [|tr c l c' E IH S]; [reflexivity|].
    rewrite hist_snoc. unfold single_load_ok in *. rewrite forallb_app, IH. simpl.
    pose proof (all_one_exec _ _ _ _ E) as A.
    destruct S; simpl; auto.
    specialize (A _ _ H). unfold pc_one in A. simpl in A. rewrite A. reflexivity.
  Qed.

  Theorem single_load_sound_thm (h : list (hev wout rout)) :
    single_load_ok h = true ->
    forall t r o v v', In (HRet t r) h -> In (o, v) (res_versions r) -> In (o, v') (res_versions r) -> v = v'.
  Proof.
    unfold single_load_ok. rewrite forallb_forall. intros F t r o v v' I I1 I2.
    specialize (F _ I). simpl in F. apply one_version_iff in F. eapply F; eauto.
  Qed.
End SLProofs.
