(* Tie A, hand-written side: the synchronisation skeletons the models ASSUME.
   GenSync.v (regenerated from the Go sources on every run) says what the code
   does now; Props_C04.v / Props_C05.v ask the kernel to compare the two
   (Example ... := eq_refl).  The comparisons are kept out of this file so that
   the models and the case evaluation still build when the source has changed. *)
Require Import String List Bool.
Import ListNotations.
Open Scope string_scope.
From FoxTxn Require Import GenSync.

(* ---- what TxnSeq.begin / Protocol's writer prologue assume: Lock (write only), THEN Load ---- *)
Definition expected_txnWith : list gev := [
  (["if write"], Lock);
  ([], Call "Router.getRoot");
  ([], Call "iTree.txn");
  ([], Return "_")
].
Definition expected_Txn : list gev := [ ([], Call "Router.txnWith"); ([], Return "fox.txnWith(write, true)") ].
Definition expected_getRoot : list gev := [ ([], Load); ([], Return "r") ].

(* ---- TxnSeq.commit: noop if read-only, noop if settled, Store, clear, THEN Unlock ---- *)
Definition expected_Commit : list gev := [
  (["if !txn.write"], Return "");
  (["if txn.rootTxn == nil"], Return "");
  ([], Call "tXn.commit");
  ([], Store);
  ([], ClearTxn);
  ([], Unlock)
].
(* ---- TxnSeq.abort ---- *)
Definition expected_Abort : list gev := [
  (["if !txn.write"], Return "");
  (["if txn.rootTxn == nil"], Return "");
  ([], ClearTxn);
  ([], Unlock)
].
Definition expected_Snapshot : list gev := [
  (["if txn.rootTxn == nil"], Return "nil");
  ([], Call "tXn.clone");
  ([], Return "_")
].
Definition expected_TxnIter : list gev := [
  (["if txn.rootTxn == nil"], Panic "ErrSettledTxn");
  (["if txn.write"], Call "tXn.snapshot");
  ([], Return "_")
].

(* ---- TxnSeq.managed: Abort deferred on the panic path (then re-panic) and on the normal path ---- *)
Definition deferred_abort : list gev := [
  ([], DeferFn);
  (["deferred"], Recover);
  (["deferred"; "if p := recover(); p != nil"], Call "Txn.Abort");
  (["deferred"; "if p := recover(); p != nil"], Repanic);
  (["deferred"], Call "Txn.Abort")
].
Definition expected_Updates : list gev :=
  [ ([], Call "Router.Txn") ] ++ deferred_abort ++ [
  ([], CallFn);
  (["if err := fn(txn); err != nil"], Return "err");
  ([], Call "Txn.Commit");
  ([], Return "nil")
].
Definition expected_View : list gev :=
  [ ([], Call "Router.Txn") ] ++ deferred_abort ++ [
  ([], CallFn);
  ([], Return "fn(txn)")
].

(* ---- TxnSeq.single: one-operation transactions with a deferred Abort ---- *)
Definition expected_helper (op errguard okret : string) : list gev := [
  ([], Call "Router.txnWith");
  ([], Defer "Txn.Abort");
  ([], Call op);
  ([errguard], Return (if String.eqb okret "nil" then "err" else "nil, err"));
  ([], Call "Txn.Commit");
  ([], Return okret)
].

(* ---- guards of every write method of Txn: settled => panic, read-only => ErrReadOnlyTxn, before anything else ---- *)
Definition expected_guards (roret : string) : list gev := [
  (["if txn.rootTxn == nil"], Panic "ErrSettledTxn");
  (["if !txn.write"], Return roret)
].

(* ---- private transaction objects ---- *)
Definition expected_tXn_commit : list gev := [
  (["funclit"], Return "nt.allocateContext()");
  ([], ResetWritable);
  ([], Return "nt")
].
Definition expected_tXn_clone : list gev := [ ([], ResetWritable); ([], Return "tx") ].
Definition expected_tXn_snapshot : list gev := [ ([], ResetWritable); ([], Return "t.root") ].

(* ---- the ONLY places of the production package that touch Router.mu / Router.tree /
        Txn.rootTxn or load the tree ---- *)
Definition expected_sync_sites : list (string * sev) := [
  ("New", Store);
  ("Router.Route", Call "Router.getRoot");
  ("Router.Reverse", Call "Router.getRoot");
  ("Router.Lookup", Call "Router.getRoot");
  ("Router.Len", Call "Router.getRoot");
  ("Router.Iter", Call "Router.getRoot");
  ("Router.txnWith", Lock);
  ("Router.txnWith", Call "Router.getRoot");
  ("Router.getRoot", Load);
  ("Router.ServeHTTP", Call "Router.getRoot");
  ("newTextContextOnly", Call "Router.getRoot");
  ("newTestContext", Call "Router.getRoot");
  ("Txn.Commit", Store);
  ("Txn.Commit", ClearTxn);
  ("Txn.Commit", Unlock);
  ("Txn.Abort", ClearTxn);
  ("Txn.Abort", Unlock)
].

(* ---- the state of Router that is shared between goroutines once the router is built: the published tree and
        the writer lock, nothing else; and no function assigns a Router field after construction. A new atomic /
        mutex / channel field (e.g. a cache filled by readers and dropped by Commit), or a field written on a write
        path, is a new shared variable that Protocol.v does not model: it re-opens this obligation. ---- *)
Definition expected_router_sync_fields : list (string * string) :=
  [("tree", "atomic.Pointer[fox.iTree]"); ("mu", "sync.Mutex")].
Definition expected_router_field_writers : list (string * string) := [].

(* ---------- derived views of a skeleton ---------- *)

Definition is_return (e : sev) : bool := match e with Return _ => true | _ => false end.

(* loads of the published tree: a direct Load, or a call of any function of the package from which
   Router.tree.Load is reachable (GenSync.loaders, recomputed from the sources on every run) *)
Definition is_load (e : sev) : bool :=
  match e with
  | Load => true
  | Call f => existsb (String.eqb f) GenSync.loaders
  | _ => false
  end.

(* every tree load of a read entry point, with its syntactic context *)
Definition loads (sk : list gev) : list gev := filter (fun g => is_load (snd g)) sk.

(* a reader is right when it loads the tree exactly once, unconditionally, outside any loop *)
Definition one_unconditional_load (sk : list gev) : bool :=
  match loads sk with
  | [([], _)] => true
  | _ => false
  end.

(* the control-flow path selected by the given truth values of the `if` conditions:
   events whose enclosing conditions all hold, up to the first Return / Panic (deferred code excluded) *)
Definition cond_ok (ch : list (string * bool)) (c : string) : bool :=
  if String.prefix "if " c then
    existsb (fun p => String.eqb (fst p) (substring 3 (String.length c - 3) c) && snd p) ch
  else if String.prefix "else " c then
    existsb (fun p => String.eqb (fst p) (substring 5 (String.length c - 5) c) && negb (snd p)) ch
  else false.

Fixpoint take_path (ch : list (string * bool)) (sk : list gev) : list sev :=
  match sk with
  | [] => []
  | (ctx, e) :: sk' =>
      if forallb (cond_ok ch) ctx
      then match e with
           | Return _ | Panic _ => [e]
           | _ => e :: take_path ch sk'
           end
      else take_path ch sk'
  end.

(* protocol actions of a path: getRoot is a Load (expected_getRoot) *)
Inductive pact := PLock | PLoad | PStore | PClear | PUnlock.
Fixpoint sync_of (l : list sev) : list pact :=
  match l with
  | [] => []
  | Lock :: l' => PLock :: sync_of l'
  | Unlock :: l' => PUnlock :: sync_of l'
  | Load :: l' => PLoad :: sync_of l'
  | Store :: l' => PStore :: sync_of l'
  | ClearTxn :: l' => PClear :: sync_of l'
  | Call f :: l' => if String.eqb f "Router.getRoot" then PLoad :: sync_of l' else sync_of l'
  | _ :: l' => sync_of l'
  end.

(* the writer of Protocol.v: Lock . Load . (local ops) . Store . Unlock   |   Lock . Load . Unlock *)
Definition writer_commit_actions : list pact := [PLock; PLoad; PStore; PClear; PUnlock].
Definition writer_abort_actions : list pact := [PLock; PLoad; PClear; PUnlock].
Definition reader_actions : list pact := [PLoad].
