(* C05 correspondence: histories recorded by harness/cmd/c05 on the real router
   (built with -race), as terms of Protocol.hev, checked by the verified checker
   history_ok (vm_compute) plus three direct observations:
     - atomic_ok : a reader that loaded ONE tree (Iter / View / one request) sees the same
                   version on every route of a group of routes written together;
     - reads_ok  : no read shows a version that no committed write produced (aborted /
                   uncommitted tags are never observed);
     - outs_ok   : every committed write returned the result the sequential map gives
                   (keys have a single owner, so that result is known: success);
     - single_load_ok (Protocol.v) : a read transaction is ONE load: all its entry points (Has, Route, Reverse,
                   Lookup, Iter ...) report one version of an object, also across a commit by another thread;
     - no panic / deadlock in any goroutine. *)
Require Import List Bool Arith NArith.
Import ListNotations.
From FoxBase Require Import Bytes.
From FoxTxn Require Import Protocol.

Definition cres := result bool unit.
Definition chev := hev bool unit.

(* (group size G: objects 0..G-1 are written together by the multi-route transactions,
    history in real-time order, did any goroutine panic or hang) *)
Definition hcase := (nat * list chev * bool)%type.

(* routes written together by one kind of transaction form a group: objects 0..G-1 (multi-route
   transactions on /ver ...), and, for o >= 100, the family o / 100 (parent route + the routes below it,
   all rewritten by every transaction of their owner) *)
Definition grp (G : nat) (o : obj) : option nat :=
  if Nat.ltb o G then Some 0 else if Nat.leb 100 o then Some (Nat.div o 100) else None.

Definition same_group (G : nat) (a b : obj) : bool :=
  match grp G a, grp G b with Some x, Some y => Nat.eqb x y | _, _ => false end.

(* within what ONE loaded tree (or one committed transaction) shows, objects of a group carry one version *)
Fixpoint same_version (G : nat) (vs : list (obj * N)) : bool :=
  match vs with
  | [] => true
  | p :: r => forallb (fun q => negb (same_group G (fst p) (fst q)) || N.eqb (snd q) (snd p)) r && same_version G r
  end.

Definition atomic_ok (G : nat) (h : list chev) : bool :=
  forallb (fun e => match e with
                    | HRet _ (ResR vs _) => same_version G vs
                    | HRet _ (ResW vs _) => same_version G vs
                    | _ => true
                    end) h.

(* a read never shows a version that no COMMITTED write produced (the history is complete, so every
   committed write has returned): tags of aborted or never-committed transactions must not be observed *)
Definition count_map (w : list (obj * N)) : amap :=
  fold_left (fun m p => aset m (fst p) (aget m (fst p) + 1)%N) w [].

Definition reads_ok (h : list chev) : bool :=
  let cm := count_map (retW h) in      (* object -> number of committed writes *)
  forallb (fun e => match e with
                    | HRet _ (ResR vs _) =>
                        forallb (fun p => N.eqb (snd p) 0 || N.leb (snd p) (aget cm (fst p))) vs
                    | _ => true
                    end) h.

Definition outs_ok (h : list chev) : bool :=
  forallb (fun e => match e with HRet _ (ResW _ outs) => forallb (fun b => b) outs | _ => true end) h.

Definition model_agrees (c : hcase) : bool :=
  let '(G, h, bad) := c in history_ok h.

Definition spec_ok (c : hcase) : bool :=
  let '(G, h, bad) := c in history_ok h && atomic_ok G h && single_load_ok h && reads_ok h && outs_ok h && negb bad.

Definition mismatches (cs : list hcase) : list nat := true_idx (map (fun c => negb (model_agrees c)) cs).
Definition spec_violations (cs : list hcase) : list nat := true_idx (map (fun c => negb (spec_ok c)) cs).
Definition fuel_outs (cs : list hcase) : list nat := [].

(* ---------- the checker rejects what it must (concrete bad histories) ---------- *)
Definition W1 (t : nat) (o : obj) (v : N) : chev := HRet t (ResW [(o, v)] [true]).
Definition R1 (t : nat) (o : obj) (v : N) : chev := HRet t (ResR [(o, v)] tt).
Definition C (t : nat) : chev := HCall t.

(* two writers both produced version 1 of object 0 (both started from version 0): a lost update *)
Definition h_lost_update : list chev := [C 0; C 1; W1 0 0 1; W1 1 0 1].
(* version 2 exists but no committed write produced version 1 (an aborted write leaked, or one applied twice) *)
Definition h_phantom : list chev := [C 0; W1 0 0 2].
(* a read that starts after version 2 was returned still sees version 1 *)
Definition h_stale_read : list chev := [C 0; W1 0 0 1; C 0; W1 0 0 2; C 1; R1 1 0 1].
(* a reader goes back in time *)
Definition h_non_monotone : list chev := [C 0; W1 0 0 1; C 0; W1 0 0 2; C 1; R1 1 0 2; C 1; R1 1 0 1].
(* a legal concurrent history: the read overlaps the second write and may see either version *)
Definition h_good : list chev := [C 0; W1 0 0 1; C 0; C 1; R1 1 0 1; W1 0 0 2; C 1; R1 1 0 2; C 2; C 1; R1 1 0 2; R1 2 0 2].
(* one read transaction (ONE load) whose Reverse / Lookup answered from the tree published meanwhile (version 2) and
   whose Has / Route / Iter answered from the tree it started on (version 1): accepted by history_ok (the read
   overlaps the write), rejected by single_load_ok; objects 11 and 12 are in no group, so atomic_ok is silent *)
Definition h_two_loads : list chev :=
  [C 0; W1 0 11 1; C 1; C 0; W1 0 11 2; HRet 1 (ResR [(11, 1%N); (11, 2%N); (11, 1%N)] tt)].
Definition h_one_load : list chev :=
  [C 0; W1 0 11 1; C 1; C 0; W1 0 11 2; HRet 1 (ResR [(11, 1%N); (12, 0%N); (11, 1%N)] tt)].
