(* Shared conventions: a Go string / []byte is a list of bytes (ascii). *)
From Coq Require Export List Ascii String Bool Arith NArith ZArith Lia.
Export ListNotations.

Definition bytes := list ascii.

(* Literals written by the Go harness: (B [47;97]%N) is "/a"; printable strings
   are written (S2B "/a").  N, not nat: unary numerals make coqc parse slowly. *)
Definition B (l : list N) : bytes := map ascii_of_N l.

Fixpoint S2B (s : string) : bytes :=
  match s with EmptyString => [] | String c r => c :: S2B r end.

Fixpoint bytes_eqb (a b : bytes) : bool :=
  match a, b with
  | [], [] => true
  | x :: a', y :: b' => Ascii.eqb x y && bytes_eqb a' b'
  | _, _ => false
  end.

Lemma bytes_eqb_spec a b : reflect (a = b) (bytes_eqb a b).
Proof.
  revert b; induction a as [|x a IH]; intros [|y b]; simpl; try (constructor; congruence).
  destruct (Ascii.eqb_spec x y) as [->|Hn]; simpl.
  - destruct (IH b) as [->|Hn]; constructor; congruence.
  - constructor; congruence.
Qed.

Lemma bytes_eqb_refl a : bytes_eqb a a = true.
Proof. destruct (bytes_eqb_spec a a); congruence. Qed.

Lemma bytes_eqb_eq a b : bytes_eqb a b = true <-> a = b.
Proof. destruct (bytes_eqb_spec a b); split; congruence. Qed.

(* indexes of the [true] positions of a list of booleans; used by the
   correspondence files to report which cases disagree *)
Fixpoint true_idx_from (i : nat) (l : list bool) : list nat :=
  match l with
  | [] => []
  | b :: r => if b then i :: true_idx_from (S i) r else true_idx_from (S i) r
  end.
Definition true_idx := true_idx_from 0.

Definition opt_eqb {A} (e : A -> A -> bool) (a b : option A) : bool :=
  match a, b with Some x, Some y => e x y | None, None => true | _, _ => false end.

Fixpoint list_eqb {A} (e : A -> A -> bool) (a b : list A) : bool :=
  match a, b with
  | [], [] => true
  | x :: a', y :: b' => e x y && list_eqb e a' b'
  | _, _ => false
  end.
