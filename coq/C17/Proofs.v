From FoxBase Require Import Bytes.
From FoxC17 Require Import Spec Model.
Open Scope char_scope.

Lemma join_rooted els : els <> [] -> exists t, join els = "/" :: t.
Proof. destruct els as [|e r]; [congruence|]. intros _. simpl. eauto. Qed.

Lemma clean_spec_rooted p : exists t, clean_spec p = "/" :: t.
Proof.
  unfold clean_spec. destruct p as [|c p']; [eauto|].
  set (els := split_slash (c :: p') []).
  destruct (join (process els [])) as [|x t] eqn:E; [eauto|].
  assert (Hx : x = "/").
  { destruct (process els []) as [|e r]; simpl in E; [discriminate|]. congruence. }
  subst x. destruct (_ || _); simpl; eauto.
Qed.
