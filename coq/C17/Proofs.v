(* C17 proofs, part 1: the lexical specification (no reference to the model).
   split/join bijection, process, canonical form, idempotence, trailing slash. *)
From FoxBase Require Import Bytes.
From FoxC17 Require Import Spec.
Open Scope char_scope.

(* ---------- elements without '/' ---------- *)


Lemma join_cons e t : join (e :: t) = "/" :: e ++ join t.
Proof. reflexivity. Qed.

Lemma join_app a b : join (a ++ b) = join a ++ join b.
Proof. unfold join. apply flat_map_app. Qed.

Lemma split_nonempty s cur : split_slash s cur <> [].
Proof.
  revert cur; induction s as [|c s IH]; intros cur; simpl; [congruence|].
  destruct (Ascii.eqb c "/"); [congruence|apply IH].
Qed.

Lemma split_app_ns e s cur : noslash e -> split_slash (e ++ s) cur = split_slash s (rev e ++ cur).
Proof.
  revert cur; induction e as [|a e IH]; intros cur Hn; [reflexivity|].
  inversion Hn as [|? ? Ha He]; subst. unfold ns in Ha. simpl. rewrite Ha.
  rewrite IH by assumption. rewrite <- app_assoc. reflexivity.
Qed.

Lemma split_ns_end e : noslash e -> split_slash e [] = [e].
Proof.
  intros Hn. rewrite <- (app_nil_r e) at 1. rewrite split_app_ns by assumption.
  simpl. rewrite app_nil_r, rev_involutive. reflexivity.
Qed.

Lemma split_ns_slash e t : noslash e -> split_slash (e ++ "/" :: t) [] = e :: split_slash t [].
Proof.
  intros Hn. rewrite split_app_ns by assumption. simpl.
  rewrite app_nil_r, rev_involutive. reflexivity.
Qed.

(* split is inverse to "first element ++ join of the others" *)
Lemma split_join t : forall e0 cur, noslash e0 -> Forall noslash t ->
  split_slash (e0 ++ join t) cur = (rev cur ++ e0) :: t.
Proof.
  induction t as [|e1 t IH]; intros e0 cur H0 Ht.
  - simpl. rewrite split_app_ns by assumption. simpl.
    rewrite rev_app_distr, rev_involutive. reflexivity.
  - inversion Ht as [|? ? H1 Ht']; subst. rewrite join_cons.
    rewrite split_app_ns by assumption. simpl.
    rewrite rev_app_distr, rev_involutive.
    rewrite (IH e1 [] H1 Ht'). reflexivity.
Qed.

Lemma join_split s : forall cur,
  hd [] (split_slash s cur) ++ join (tl (split_slash s cur)) = rev cur ++ s.
Proof.
  induction s as [|c s IH]; intros cur; simpl.
  - reflexivity.
  - destruct (Ascii.eqb_spec c "/") as [->|Hc].
    + simpl. specialize (IH []). simpl in IH.
      destruct (split_slash s []) as [|h t] eqn:E; [exfalso; exact (split_nonempty _ _ E)|].
      simpl in *. rewrite IH. reflexivity.
    + rewrite IH. simpl. rewrite <- app_assoc. reflexivity.
Qed.

Lemma split_noslash s : forall cur, noslash cur -> Forall noslash (split_slash s cur).
Proof.
  induction s as [|c s IH]; intros cur Hc; simpl.
  - constructor; [|constructor]. apply Forall_rev. exact Hc.
  - destruct (Ascii.eqb c "/") eqn:E.
    + constructor; [apply Forall_rev; exact Hc|]. apply IH. constructor.
    + apply IH. constructor; assumption.
Qed.

Lemma last_cons_ne {A} (x : A) l d : l <> [] -> last (x :: l) d = last l d.
Proof. destruct l; [congruence|reflexivity]. Qed.

Lemma ascii_dot_match a : match a with "." => true | _ => false end = Ascii.eqb a ".".
Proof. destruct a as [[] [] [] [] [] [] [] []]; reflexivity. Qed.

Lemma is_dot_iff e : is_dot e = true <-> e = ["."].
Proof.
  destruct e as [|a [|b e]]; cbn [is_dot]; try (split; congruence).
  - rewrite ascii_dot_match, Ascii.eqb_eq. split; congruence.
  - split; [|congruence]. destruct a as [[] [] [] [] [] [] [] []]; discriminate.
Qed.

Lemma is_dotdot_iff e : is_dotdot e = true <-> e = ["."; "."].
Proof.
  destruct e as [|a [|b [|c e]]]; cbn [is_dotdot]; try (split; congruence).
  - split; [|congruence]. destruct a as [[] [] [] [] [] [] [] []]; discriminate.
  - split.
    + destruct a as [[] [] [] [] [] [] [] []]; try discriminate.
      destruct b as [[] [] [] [] [] [] [] []]; try discriminate. reflexivity.
    + intros H; inversion H; reflexivity.
  - split; [|congruence]. destruct a as [[] [] [] [] [] [] [] []]; try discriminate.
    destruct b as [[] [] [] [] [] [] [] []]; discriminate.
Qed.

(* ---------- process ---------- *)

Lemma process_step e r stack :
  process (e :: r) stack =
    if is_empty e || is_dot e then process r stack
    else if is_dotdot e then process r (tl stack)
    else process r (e :: stack).
Proof.
  destruct e as [|a e]; [reflexivity|].
  cbn [process is_empty orb]. reflexivity.
Qed.

Lemma real_elem_inv e : real_elem e = true ->
  is_empty e = false /\ is_dot e = false /\ is_dotdot e = false.
Proof.
  unfold real_elem. intros H.
  apply andb_prop in H; destruct H as [H H3]. apply andb_prop in H; destruct H as [H1 H2].
  apply negb_true_iff in H1, H2, H3. auto.
Qed.

Lemma process_real e r stack : real_elem e = true -> process (e :: r) stack = process r (e :: stack).
Proof.
  intros H. destruct (real_elem_inv _ H) as (H1 & H2 & H3).
  rewrite process_step, H1, H2, H3. reflexivity.
Qed.

Lemma process_real_app body : forall r stack, Forall (fun e => real_elem e = true) body ->
  process (body ++ r) stack = process r (rev body ++ stack).
Proof.
  induction body as [|e body IH]; intros r stack Hb; [reflexivity|].
  inversion Hb; subst. simpl app. rewrite process_real by assumption.
  rewrite IH by assumption. simpl. rewrite <- app_assoc. reflexivity.
Qed.

Lemma Forall_tl {A} (P : A -> Prop) l : Forall P l -> Forall P (tl l).
Proof. destruct l; [auto|]. intros H; inversion H; assumption. Qed.

Lemma process_realp els : forall stack, Forall noslash els -> Forall realp stack ->
  Forall realp (process els stack).
Proof.
  induction els as [|e els IH]; intros stack He Hs.
  - simpl. apply Forall_rev. exact Hs.
  - inversion He as [|? ? He1 He2]; subst. rewrite process_step.
    destruct (is_empty e || is_dot e) eqn:E1; [apply IH; assumption|].
    destruct (is_dotdot e) eqn:E2; [apply IH; [assumption|apply Forall_tl; assumption]|].
    apply IH; [assumption|]. constructor; [|assumption]. split; [|assumption].
    apply orb_false_iff in E1. destruct E1 as [E0 E1].
    unfold real_elem. rewrite E0, E1, E2. reflexivity.
Qed.

(* ---------- rendering ---------- *)


Lemma render_ne els ts : els <> [] -> render els ts = join els ++ (if ts then ["/"] else []).
Proof. destruct els; [congruence|reflexivity]. Qed.

Definition tsflag (p : bytes) : bool := is_empty (last_elem p) || is_dot (last_elem p).

Lemma clean_spec_render p : clean_spec p = render (process (split_slash p []) []) (tsflag p).
Proof.
  unfold clean_spec, render, tsflag, last_elem.
  destruct (process (split_slash p []) []); reflexivity.
Qed.

Lemma clean_spec_elems p : Forall realp (process (split_slash p []) []).
Proof. apply process_realp; [apply split_noslash; constructor|constructor]. Qed.

Lemma realp_ne e : realp e -> e <> [].
Proof. intros [H _] ->. discriminate. Qed.

Lemma Forall_removelast {A} (P : A -> Prop) l : Forall P l -> Forall P (removelast l).
Proof.
  induction l as [|a l IH]; intros H; [constructor|]. inversion H; subst.
  destruct l as [|b l]; [constructor|]. cbn [removelast]. constructor; auto.
Qed.

Lemma Forall_last {A} (P : A -> Prop) l d : Forall P l -> l <> [] -> P (last l d).
Proof.
  induction l as [|a l IH]; intros H Hn; [congruence|]. inversion H; subst.
  destruct l as [|b l]; [assumption|]. rewrite last_cons_ne by congruence. apply IH; [assumption|congruence].
Qed.

Lemma forallb_Forall_real l : Forall realp l -> forallb real_elem l = true.
Proof.
  intros H. apply forallb_forall. intros x Hx.
  rewrite Forall_forall in H. exact (proj1 (H x Hx)).
Qed.

Lemma canonical_render els ts : Forall realp els -> canonical (render els ts) = true.
Proof.
  intros Hf. destruct els as [|e t]; [reflexivity|].
  unfold render.
  assert (Hns : Forall noslash (e :: t)).
  { eapply Forall_impl; [|exact Hf]. intros a [_ Ha]; exact Ha. }
  inversion Hns as [|? ? Hne Hnt]; subst.
  destruct ts.
  - replace (join (e :: t) ++ ["/"]) with ("/" :: e ++ join (t ++ [[]])).
    2:{ rewrite join_app, join_cons. simpl. rewrite <- app_assoc. reflexivity. }
    cbn [canonical]. rewrite Ascii.eqb_refl. cbn [andb].
    destruct (e ++ join (t ++ [[]])) as [|c0 rest0] eqn:Er; [reflexivity|]. rewrite <- Er.
    rewrite (split_join (t ++ [[]]) e []); [|assumption|].
    2:{ apply Forall_app; split; [assumption|]. constructor; [constructor|constructor]. }
    cbn [rev app].
    change (e :: t ++ [[]]) with ((e :: t) ++ [[]]).
    rewrite removelast_last, last_last.
    rewrite forallb_Forall_real by assumption.
    cbn [real_elem is_empty negb andb orb].
    inversion Hf as [|? ? He _]; subst. apply realp_ne in He.
    destruct e; [congruence|reflexivity].
  - rewrite app_nil_r, join_cons.
    cbn [canonical]. rewrite Ascii.eqb_refl. cbn [andb].
    destruct (e ++ join t) as [|c0 rest0] eqn:Er; [reflexivity|]. rewrite <- Er.
    rewrite (split_join t e []) by assumption. cbn [rev app].
    rewrite forallb_Forall_real by (apply Forall_removelast; assumption).
    assert (Hl : realp (last (e :: t) [])) by (apply Forall_last; [assumption|congruence]).
    destruct Hl as [Hl _]. unfold bytes in *. rewrite Hl. reflexivity.
Qed.

Lemma clean_spec_canonical p : canonical (clean_spec p) = true.
Proof. rewrite clean_spec_render. apply canonical_render, clean_spec_elems. Qed.

Lemma forallb_real_Forall l : forallb real_elem l = true -> Forall (fun e => real_elem e = true) l.
Proof. intros H. apply Forall_forall. intros x Hx. rewrite forallb_forall in H. auto. Qed.

Lemma canonical_fixed p : canonical p = true -> clean_spec p = p.
Proof.
  destruct p as [|c rest]; [discriminate|]. cbn [canonical]. intros H.
  apply andb_prop in H. destruct H as [Hc H]. apply Ascii.eqb_eq in Hc. subst c.
  destruct rest as [|c1 rest']; [reflexivity|].
  remember (c1 :: rest') as rest eqn:Hrest.
  rename H into Hmatch.
  set (L := split_slash rest []) in *.
  assert (HL : L <> []) by apply split_nonempty.
  assert (Hp : "/" :: rest = join L).
  { pose proof (join_split rest []) as J. fold L in J. simpl in J.
    destruct L as [|h t]; [congruence|]. simpl in J. rewrite join_cons, J. reflexivity. }
  rewrite clean_spec_render. unfold tsflag, last_elem.
  assert (Hs : split_slash ("/" :: rest) [] = [] :: L) by reflexivity.
  rewrite Hs. rewrite last_cons_ne by assumption.
  rewrite process_step. cbn [is_empty orb].
  apply andb_prop in Hmatch. destruct Hmatch as [Hb Hl].
  apply forallb_real_Forall in Hb.
  rewrite (app_removelast_last [] HL) in Hp |- * at 1.
  rewrite process_real_app by assumption. rewrite app_nil_r.
  unfold bytes in *.
  set (body := removelast L) in *. set (l := last L []) in *.
  destruct (real_elem l) eqn:Hrl.
  - rewrite process_real by assumption. cbn [process].
    destruct (real_elem_inv _ Hrl) as (H1 & H2 & _). rewrite H1, H2. cbn [orb].
    cbn [rev]. rewrite rev_involutive.
    rewrite render_ne by (intros E; apply app_eq_nil in E; destruct E; discriminate).
    rewrite app_nil_r. symmetry. exact Hp.
  - cbn [orb] in Hl. apply andb_prop in Hl. destruct Hl as [Hle Hbn].
    destruct l as [|? ?]; [|discriminate].
    rewrite process_step. cbn [is_empty orb process]. rewrite rev_involutive.
    rewrite render_ne by (intros E; rewrite E in Hbn; discriminate).
    rewrite Hp, join_app. reflexivity.
Qed.

Lemma clean_spec_idempotent p : clean_spec (clean_spec p) = clean_spec p.
Proof. apply canonical_fixed, clean_spec_canonical. Qed.

Lemma clean_iff_fixed p : clean_spec p = p <-> canonical p = true.
Proof.
  split; [|apply canonical_fixed].
  intros H. rewrite <- H. apply clean_spec_canonical.
Qed.

Lemma canonical_unique a b :
  canonical a = true -> canonical b = true -> clean_spec a = clean_spec b -> a = b.
Proof.
  intros Ha Hb H. rewrite (canonical_fixed a Ha), (canonical_fixed b Hb) in H. exact H.
Qed.

(* the canonical paths are exactly the renderings of lists of real elements *)
Lemma canonical_iff_render p :
  canonical p = true <-> exists els ts, Forall realp els /\ p = render els ts.
Proof.
  split.
  - intros H. exists (process (split_slash p []) []), (tsflag p). split; [apply clean_spec_elems|].
    rewrite <- clean_spec_render. symmetry. apply canonical_fixed, H.
  - intros (els & ts & Hf & ->). apply canonical_render, Hf.
Qed.

Lemma clean_spec_rooted p : exists t, clean_spec p = "/" :: t.
Proof.
  rewrite clean_spec_render. unfold render.
  destruct (process (split_slash p []) []) as [|e t]; [eauto|].
  rewrite join_cons. simpl. eauto.
Qed.

(* ---------- trailing slash ---------- *)

Lemma ends_cons c s : ends_with_slash (c :: s) <-> (s = [] /\ c = "/") \/ ends_with_slash s.
Proof.
  unfold ends_with_slash. split.
  - intros [q Hq]. destruct q as [|a q]; simpl in Hq.
    + inversion Hq; subst. left; auto.
    + inversion Hq; subst. right. eauto.
  - intros [[-> ->]|[q ->]]; [exists []; reflexivity|exists (c :: q); reflexivity].
Qed.

Lemma ends_nil : ~ ends_with_slash [].
Proof. intros [q Hq]. destruct q; discriminate. Qed.

Lemma is_empty_true e : is_empty e = true <-> e = [].
Proof. destruct e; simpl; split; congruence. Qed.

Lemma last_split_empty s : forall cur,
  is_empty (last (split_slash s cur) []) = true <-> (s = [] /\ cur = []) \/ ends_with_slash s.
Proof.
  induction s as [|c s IH]; intros cur.
  - simpl. rewrite is_empty_true. split.
    + intros H. left. split; [reflexivity|]. apply (f_equal (@rev ascii)) in H.
      rewrite rev_involutive in H. exact H.
    + intros [[_ ->]|H]; [reflexivity|]. exfalso; exact (ends_nil H).
  - simpl. destruct (Ascii.eqb_spec c "/") as [->|Hc].
    + rewrite last_cons_ne by apply split_nonempty. rewrite IH, ends_cons.
      split.
      * intros [[-> _]|H]; right; [left; auto|right; exact H].
      * intros [[? _]|[[-> _]|H]]; [discriminate|left; auto|right; exact H].
    + rewrite IH, ends_cons. split.
      * intros [[_ ?]|H]; [discriminate|]. right; right; exact H.
      * intros [[? _]|[[_ ?]|H]]; [discriminate|congruence|right; exact H].
Qed.

Lemma join_last_ns els : Forall realp els -> els <> [] -> ~ ends_with_slash (join els).
Proof.
  intros Hf Hn He.
  rewrite (app_removelast_last [] Hn) in He. rewrite join_app in He.
  assert (Hl : realp (last els [])) by (apply Forall_last; assumption).
  unfold bytes in *. remember (last els []) as l eqn:El. cbn [join flat_map] in He. rewrite app_nil_r in He.
  destruct Hl as [Hr Hns].
  assert (Hne : l <> []) by (intros ->; discriminate).
  rewrite (app_removelast_last "a" Hne) in He.
  destruct He as [q Hq].
  change ("/" :: removelast l ++ [last l "a"]) with (("/" :: removelast l) ++ [last l "a"]) in Hq.
  rewrite app_assoc in Hq. apply app_inj_tail in Hq. destruct Hq as [_ Hq].
  assert (Hin : ns (last l "a")) by (apply Forall_last; assumption).
  unfold ns in Hin. rewrite Hq in Hin. discriminate.
Qed.

(* a trailing slash is kept exactly when the input ended with a slash or a "."
   element, and the result is not the root *)
Lemma clean_spec_trailing p :
  (ends_with_slash (clean_spec p) /\ clean_spec p <> root) <->
  ((ends_with_slash p \/ last_elem p = ["."]) /\ clean_spec p <> root).
Proof.
  pose proof is_dot_iff as Hdot.
  split; intros [H Hroot]; (split; [|exact Hroot]); unfold root in *;
    rewrite clean_spec_render in *; pose proof (clean_spec_elems p) as Hf;
    destruct (process (split_slash p []) []) as [|e t] eqn:Eo; try (exfalso; apply Hroot; reflexivity);
    unfold render in *; unfold tsflag in *.
  - destruct (is_empty (last_elem p)) eqn:E1.
    + unfold last_elem in E1. apply last_split_empty in E1. destruct E1 as [[-> _]|E1]; [discriminate|].
      left; exact E1.
    + destruct (is_dot (last_elem p)) eqn:E2; [right; apply Hdot; exact E2|].
      cbn [orb] in H. rewrite app_nil_r in H. exfalso.
      eapply join_last_ns; [exact Hf|congruence|exact H].
  - assert (Ht : is_empty (last_elem p) || is_dot (last_elem p) = true).
    { destruct H as [H|H].
      - unfold last_elem. replace (is_empty _) with true; [reflexivity|].
        symmetry. apply last_split_empty. right; exact H.
      - rewrite H. reflexivity. }
    rewrite Ht. eexists; reflexivity.
Qed.
