(* C17 proofs, part 2: the Go-faithful model (lazy buffer, bufApp, ".." backtracking
   reading p[w] or buf[w]) never panics, never runs out of fuel, and computes
   the lexical specification clean_spec. *)
From FoxBase Require Import Bytes.
From FoxC17 Require Import Spec Model Proofs.
Import List.
Open Scope char_scope.

(* ---------- list helpers ---------- *)

Lemma nth_skipn {A} (l : list A) r k : nth_error l (r + k) = nth_error (skipn r l) k.
Proof.
  revert l; induction r as [|r IH]; intros l; [reflexivity|].
  destruct l; simpl; [destruct k; reflexivity|apply IH].
Qed.

Lemma skipn_add {A} (l : list A) r k : skipn (r + k) l = skipn k (skipn r l).
Proof.
  revert l; induction r as [|r IH]; intros l; [reflexivity|].
  destruct l; simpl; [destruct k; reflexivity|apply IH].
Qed.

Lemma skipn_exact {A} (a t : list A) k : length a = k -> skipn k (a ++ t) = t.
Proof. revert k; induction a as [|x a IH]; intros k H; subst; simpl; auto. Qed.

Lemma firstn_exact {A} (a b : list A) k : length a = k -> firstn k (a ++ b) = a.
Proof. revert k; induction a as [|x a IH]; intros k H; subst; simpl; [reflexivity|f_equal; auto]. Qed.

Lemma firstn_exact_S {A} (a b : list A) c k : length a = k -> firstn (S k) (a ++ c :: b) = a ++ [c].
Proof.
  revert k; induction a as [|x a IH]; intros k H; subst; cbn [length app firstn]; [reflexivity|].
  f_equal. apply IH. reflexivity.
Qed.

Lemma firstn_S_nth {A} (l : list A) : forall k d, nth_error l k = Some d -> firstn (S k) l = firstn k l ++ [d].
Proof.
  induction l as [|x l IH]; intros k d H; [destruct k; discriminate|].
  destruct k; simpl in *; [congruence|]. f_equal. apply IH, H.
Qed.

Lemma nth_firstn {A} (l : list A) : forall k i, i < k -> nth_error (firstn k l) i = nth_error l i.
Proof.
  induction l as [|x l IH]; intros k i H; [destruct k, i; reflexivity|].
  destruct k; [lia|]. destruct i; simpl; [reflexivity|]. apply IH; lia.
Qed.

Lemma firstn_firstn_le {A} (l : list A) j k : j <= k -> firstn j (firstn k l) = firstn j l.
Proof. intros H. rewrite firstn_firstn. f_equal. lia. Qed.

Lemma skipn_cons_lt {A} (l : list A) r c t : skipn r l = c :: t -> r < length l.
Proof.
  intros H. apply (f_equal (@length A)) in H. rewrite skipn_length in H. simpl in H. lia.
Qed.

Lemma skipn_nil_ge {A} (l : list A) r : skipn r l = [] -> length l <= r.
Proof.
  intros H. apply (f_equal (@length A)) in H. rewrite skipn_length in H. simpl in H. lia.
Qed.

Lemma nth_b_skipn p r c t : skipn r p = c :: t -> nth_b p r = Some c.
Proof.
  intros H. unfold nth_b. rewrite <- (Nat.add_0_r r), nth_skipn, H. reflexivity.
Qed.

Lemma set_nth_spec s : forall i c, i < length s ->
  set_nth s i c = Some (firstn i s ++ c :: skipn (S i) s).
Proof.
  induction s as [|x s IH]; intros i c H; simpl in H; [lia|].
  destruct i; [reflexivity|]. cbn [set_nth]. rewrite IH by lia. reflexivity.
Qed.

(* ---------- the buffer view ---------- *)

Definition view (bf : option bytes) (p : bytes) : bytes :=
  match bf with None => p | Some bb => bb end.

Lemma rd_view bf p i : rd bf p i = nth_error (view bf p) i.
Proof. destruct bf; reflexivity. Qed.

Lemma bufApp_ok bf p ww c : ww < length (view bf p) ->
  exists bf', bufApp bf p ww c = Some bf' /\
              length (view bf' p) = length (view bf p) /\
              firstn (S ww) (view bf' p) = firstn ww (view bf p) ++ [c].
Proof.
  intros H. destruct bf as [bb|]; cbn [view bufApp] in *.
  - rewrite set_nth_spec by assumption. cbn [option_map]. eexists; split; [reflexivity|]. cbn [view]. split.
    + rewrite app_length. cbn [length]. rewrite firstn_length, skipn_length. lia.
    + apply firstn_exact_S. rewrite firstn_length. lia.
  - unfold nth_b. destruct (nth_error p ww) as [d|] eqn:E; [|apply nth_error_None in E; lia].
    destruct (Ascii.eqb_spec d c) as [->|Hdc].
    + exists None. split; [reflexivity|]. split; [reflexivity|]. cbn [view]. apply firstn_S_nth, E.
    + set (nb := firstn ww p ++ repeat zero (length p - ww)).
      assert (Hnb : length nb = length p).
      { unfold nb. rewrite app_length, firstn_length, repeat_length. lia. }
      rewrite set_nth_spec by lia. cbn [option_map]. eexists; split; [reflexivity|]. cbn [view]. split.
      * rewrite app_length. cbn [length]. rewrite firstn_length, skipn_length. lia.
      * rewrite firstn_exact_S by (rewrite firstn_length; lia). f_equal.
        unfold nb. apply firstn_exact. rewrite firstn_length. lia.
Qed.

(* ---------- output so far = rendering of the element stack ---------- *)

Definition rstack (stack : list bytes) : bytes :=
  match stack with [] => ["/"] | _ => join (rev stack) end.

Lemma rstack_cons e stack : rstack (e :: stack) = join (rev stack) ++ "/" :: e.
Proof.
  cbn [rstack rev]. rewrite join_app. cbn [join flat_map]. rewrite app_nil_r. reflexivity.
Qed.

Lemma rstack_cases stack : Forall realp stack ->
  (stack = [] /\ rstack stack = ["/"]) \/
  (stack <> [] /\ 2 <= length (rstack stack) /\ rstack stack = join (rev stack)).
Proof.
  intros H. destruct stack as [|e s]; [left; auto|right].
  split; [congruence|]. split; [|reflexivity].
  rewrite rstack_cons, app_length. cbn [length].
  inversion H as [|? ? He _]; subst. apply realp_ne in He. destruct e; [congruence|]. cbn [length]. lia.
Qed.

(* ---------- backtracking ---------- *)

Lemma back_spec bf p : forall w L, 1 <= L <= w ->
  (1 < L -> nth_error (view bf p) L = Some "/") ->
  (forall i, L < i <= w -> exists c, nth_error (view bf p) i = Some c /\ ns c) ->
  back bf p w = Some L.
Proof.
  induction w as [|w IH]; intros L HL Hs Hn; [lia|].
  cbn [back]. destruct (Nat.ltb_spec 1 (S w)) as [H1|H1].
  - rewrite rd_view. destruct (Nat.eq_dec L (S w)) as [->|Hne].
    + rewrite Hs by lia. rewrite Ascii.eqb_refl. reflexivity.
    + destruct (Hn (S w)) as (c & Hc & Hcs); [lia|]. rewrite Hc. unfold ns in Hcs. rewrite Hcs.
      apply IH; [lia|assumption|]. intros i Hi. apply Hn. lia.
  - f_equal. lia.
Qed.

Lemma noslash_nth e j c : noslash e -> nth_error e j = Some c -> ns c.
Proof.
  intros H Hj. unfold noslash in H. rewrite Forall_forall in H. apply H.
  eapply nth_error_In; eassumption.
Qed.

Lemma back_ok bf p ww e stack :
  firstn ww (view bf p) = rstack (e :: stack) -> ww <= length (view bf p) ->
  Forall realp (e :: stack) ->
  back bf p (ww - 1) = Some (length (rstack stack)) /\
  firstn (length (rstack stack)) (view bf p) = rstack stack /\
  length (rstack stack) < ww.
Proof.
  intros Hout Hle Hf. inversion Hf as [|? ? He Hs]; subst.
  assert (Hww : ww = length (rstack (e :: stack))).
  { rewrite <- Hout, firstn_length. lia. }
  rewrite rstack_cons in *. set (pre := join (rev stack)) in *.
  rewrite app_length in Hww. cbn [length] in Hww.
  assert (Hene : e <> []) by (apply realp_ne; assumption).
  assert (Hel : 1 <= length e) by (destruct e; [congruence|cbn [length]; lia]).
  assert (Hnth : forall i, i < ww -> nth_error (view bf p) i = nth_error (pre ++ "/" :: e) i).
  { intros i Hi. rewrite <- Hout. symmetry. apply nth_firstn, Hi. }
  assert (HL : length (rstack stack) = Nat.max 1 (length pre) /\ (1 < length (rstack stack) -> length (rstack stack) = length pre)).
  { destruct (rstack_cases stack Hs) as [[-> _]|(Hne & Hlen & Heq)].
    - cbn. split; [reflexivity|lia].
    - rewrite Heq in *. fold pre in Hlen |- *. split; lia. }
  destruct HL as [HL1 HL2].
  split; [|split].
  - apply back_spec.
    + lia.
    + intros H1. rewrite HL2 by assumption. rewrite Hnth by lia.
      rewrite nth_error_app2 by lia. rewrite Nat.sub_diag. reflexivity.
    + intros i Hi. rewrite Hnth by lia.
      assert (Hip : length pre < i) by lia.
      rewrite nth_error_app2 by lia.
      destruct (i - length pre) as [|j] eqn:Ej; [lia|]. cbn [nth_error].
      destruct (nth_error e j) as [c|] eqn:Ec; [|apply nth_error_None in Ec; lia].
      exists c. split; [reflexivity|]. eapply noslash_nth; [exact (proj2 He)|exact Ec].
  - destruct (rstack_cases stack Hs) as [[-> Hr]|(Hne & Hlen & Heq)].
    + cbn [rstack length]. cbn in pre. subst pre. cbn [app] in Hout.
      rewrite <- (firstn_firstn_le _ 1 ww) by lia. rewrite Hout. reflexivity.
    + rewrite <- (firstn_firstn_le _ _ ww) by lia. rewrite Hout, Heq. fold pre.
      apply firstn_exact. reflexivity.
  - lia.
Qed.

(* ---------- the element-copy loop ---------- *)

Lemma copy_el_ok p tr : forall e fuel bf rr ww rest',
  skipn rr p = e ++ rest' -> noslash e -> (rest' = [] \/ exists t, rest' = "/" :: t) ->
  ww + length e <= length (view bf p) -> length e < fuel ->
  exists bf', copy_el fuel p (length p) {| buf := bf; r := rr; w := ww; trailing := tr |}
              = SOk {| buf := bf'; r := rr + length e; w := ww + length e; trailing := tr |} /\
              length (view bf' p) = length (view bf p) /\
              firstn (ww + length e) (view bf' p) = firstn ww (view bf p) ++ e.
Proof.
  induction e as [|c e IH]; intros fuel bf rr ww rest' Hrest Hns Hr' Hlen Hfuel.
  - destruct fuel as [|fuel]; [cbn [length] in Hfuel; lia|]. cbn [copy_el r w buf trailing length].
    rewrite !Nat.add_0_r, app_nil_r. exists bf. split; [|split; reflexivity].
    cbn [app] in Hrest. destruct Hr' as [->|[t ->]].
    + apply skipn_nil_ge in Hrest. destruct (Nat.ltb_spec rr (length p)); [lia|reflexivity].
    + pose proof (skipn_cons_lt _ _ _ _ Hrest) as Hlt.
      destruct (Nat.ltb_spec rr (length p)); [|lia].
      rewrite (nth_b_skipn _ _ _ _ Hrest).
      rewrite Ascii.eqb_refl. reflexivity.
  - destruct fuel as [|fuel]; [lia|]. cbn [length] in *. cbn [copy_el r w buf trailing].
    inversion Hns as [|? ? Hc He]; subst. cbn [app] in Hrest.
    pose proof (skipn_cons_lt _ _ _ _ Hrest) as Hlt.
    destruct (Nat.ltb_spec rr (length p)); [|lia].
    rewrite (nth_b_skipn _ _ _ _ Hrest).
    unfold ns in Hc. rewrite Hc.
    destruct (bufApp_ok bf p ww c) as (bf1 & Hb & Hl1 & Hf1); [lia|]. rewrite Hb.
    destruct (IH fuel bf1 (S rr) (S ww) rest') as (bf2 & Hc2 & Hl2 & Hf2).
    + replace (S rr) with (rr + 1) by lia. rewrite skipn_add, Hrest. reflexivity.
    + assumption.
    + assumption.
    + lia.
    + lia.
    + exists bf2. replace (rr + S (length e)) with (S rr + length e) by lia.
      replace (ww + S (length e)) with (S ww + length e) by lia.
      split; [exact Hc2|]. split; [congruence|].
      rewrite Hf2, Hf1, <- app_assoc. reflexivity.
Qed.

(* every string decomposes into a first element and a remainder *)
Lemma first_elem s : exists e rest', s = e ++ rest' /\ noslash e /\ (rest' = [] \/ exists t, rest' = "/" :: t).
Proof.
  induction s as [|c s (e & rest' & -> & Hn & Hr)].
  - exists [], []. split; [reflexivity|]. split; [constructor|left; reflexivity].
  - destruct (Ascii.eqb c "/") eqn:Ec.
    + apply Ascii.eqb_eq in Ec. subst c. exists [], ("/" :: e ++ rest').
      split; [reflexivity|]. split; [constructor|right; eauto].
    + exists (c :: e), rest'. split; [reflexivity|]. split; [constructor; assumption|assumption].
Qed.

(* ---------- which arm of the switch ---------- *)

Lemma classify_shape p rr : rr < length p ->
  match classify p (length p) rr with
  | KSlash => exists t, skipn rr p = "/" :: t
  | KDotEnd => skipn rr p = ["."]
  | KDotSlash => exists t, skipn rr p = "." :: "/" :: t
  | KDotDot => skipn rr p = ["."; "."] \/ exists t, skipn rr p = "." :: "." :: "/" :: t
  | KDefault => exists c t, skipn rr p = c :: t /\ ns c /\
                  (c = "." -> t <> [] /\ (forall t', t <> "/" :: t') /\ t <> ["."] /\
                              (forall t', t <> "." :: "/" :: t'))
  | KPanic => False
  end.
Proof.
  intros Hlt. unfold classify, nth_b.
  replace (nth_error p rr) with (nth_error (skipn rr p) 0)
    by (rewrite <- nth_skipn, Nat.add_0_r; reflexivity).
  rewrite !nth_skipn.
  assert (Hlen : length p = rr + length (skipn rr p)) by (rewrite skipn_length; lia).
  remember (skipn rr p) as rest eqn:Er. remember (length p) as n eqn:En. clear Er En. subst n.
  destruct rest as [|c t]; [cbn [length] in Hlt; lia|]. clear Hlt.
  cbn [nth_error length].
  destruct (Ascii.eqb_spec c "/") as [->|Hc]; [eauto|].
  assert (Hnc : ns c) by (apply Ascii.eqb_neq; assumption).
  destruct (Ascii.eqb_spec c ".") as [->|Hd].
  2:{ exists c, t. split; [reflexivity|]. split; [assumption|]. intros; congruence. }
  destruct t as [|c1 t].
  { cbn [length]. destruct (Nat.eqb_spec (rr + 1) (rr + 1)); [reflexivity|lia]. }
  cbn [length]. destruct (Nat.eqb_spec (rr + 1) (rr + S (S (length t)))); [lia|].
  destruct (Ascii.eqb_spec c1 "/") as [->|Hc1]; [eauto|].
  destruct (Ascii.eqb_spec c1 ".") as [->|Hd1].
  2:{ exists ".", (c1 :: t). split; [reflexivity|]. split; [assumption|]. intros _.
      split; [congruence|]. split; [congruence|]. split; congruence. }
  destruct t as [|c2 t].
  { cbn [length]. destruct (Nat.eqb_spec (rr + 2) (rr + 2)); [left; reflexivity|lia]. }
  cbn [length]. destruct (Nat.eqb_spec (rr + 2) (rr + S (S (S (length t))))); [lia|].
  destruct (Ascii.eqb_spec c2 "/") as [->|Hc2]; [right; eauto|].
  exists ".", ("." :: c2 :: t). split; [reflexivity|]. split; [assumption|]. intros _.
  split; [congruence|]. split; [congruence|]. split; congruence.
Qed.

(* ---------- the loop invariant ---------- *)

(* [stack] is the specification's element stack after the consumed prefix;
   the output so far, p[:w] or buf[:w], is its rendering.  The length clauses
   say that the writes stay inside the buffer (or inside p while it is not
   materialised): every byte written was paid for by a byte consumed. *)
Definition Inv (p : bytes) (bf : option bytes) (rr ww : nat) (tr : bool) (stack : list bytes) : Prop :=
  firstn ww (view bf p) = rstack stack /\
  Forall realp stack /\
  process (split_slash (skipn rr p) []) stack = process (split_slash p []) [] /\
  ww + length (skipn rr p) <= length (view bf p) /\
  (skipn rr p = [] \/ (exists t, skipn rr p = "/" :: t) \/ ww = 1 \/
   ww + length (skipn rr p) < length (view bf p)) /\
  (tr = true -> ends_with_slash (skipn rr p) \/ (skipn rr p = [] /\ ww < length (view bf p))) /\
  tsflag p = tr || is_dot (last (split_slash (skipn rr p) []) []).

Lemma ends_drop a t : ends_with_slash (a ++ t) -> t = [] \/ ends_with_slash t.
Proof.
  intros [q Hq]. destruct t as [|x t' _] using rev_ind; [left; reflexivity|right].
  rewrite app_assoc in Hq. apply app_inj_tail in Hq. destruct Hq as [_ ->]. eexists; reflexivity.
Qed.

Lemma noslash_not_ends e : noslash e -> ~ ends_with_slash e.
Proof.
  intros Hn [q ->]. apply Forall_app in Hn. destruct Hn as [_ Hn].
  inversion Hn as [|? ? H _]; subst. discriminate H.
Qed.

Lemma inv_consume p bf rr ww tr stack a t rr' ww' stack' :
  Inv p bf rr ww tr stack -> skipn rr p = a ++ t -> 1 <= length a -> skipn rr' p = t ->
  ww' <= ww -> firstn ww' (view bf p) = rstack stack' -> Forall realp stack' ->
  process (split_slash t []) stack' = process (split_slash (a ++ t) []) stack ->
  is_dot (last (split_slash t []) []) = is_dot (last (split_slash (a ++ t) []) []) ->
  Inv p bf rr' ww' tr stack'.
Proof.
  intros (Ho & Hs & Hp & Hl & Hk & Ht1 & Ht2) Hr Ha Hr' Hw Ho' Hs' Hp' Hd.
  unfold Inv. rewrite Hr'. rewrite Hr in *. rewrite app_length in *.
  split; [exact Ho'|]. split; [exact Hs'|]. split; [rewrite Hp'; exact Hp|].
  split; [lia|]. split; [right; right; right; lia|]. split.
  - intros E. destruct (Ht1 E) as [He|[He _]].
    + destruct (ends_drop _ _ He) as [->|He']; [right; split; [reflexivity|cbn [length] in *; lia]|left; exact He'].
    + apply app_eq_nil in He. destruct He as [-> _]. cbn [length] in Ha. lia.
  - rewrite Hd. exact Ht2.
Qed.

Lemma finish_view p bf rr ww tr :
  finish p {| buf := bf; r := rr; w := ww; trailing := tr |} = Ok (firstn ww (view bf p)).
Proof. destruct bf; reflexivity. Qed.

(* the element found by the default arm is a real element *)
Lemma default_real c t e rest' :
  c :: t = e ++ rest' -> noslash e -> (rest' = [] \/ exists t', rest' = "/" :: t') ->
  ns c ->
  (c = "." -> t <> [] /\ (forall t', t <> "/" :: t') /\ t <> ["."] /\ (forall t', t <> "." :: "/" :: t')) ->
  real_elem e = true /\ 1 <= length e.
Proof.
  intros Hdec Hne Hr' Hc Hdot.
  assert (He : e <> []).
  { intros ->. cbn [app] in Hdec. destruct Hr' as [->|[t' ->]]; [discriminate|].
    inversion Hdec; subst. discriminate Hc. }
  split; [|destruct e; [congruence|cbn [length]; lia]].
  unfold real_elem.
  destruct (is_empty e) eqn:E0; [apply is_empty_true in E0; congruence|].
  destruct (is_dot e) eqn:E1.
  { apply is_dot_iff in E1. subst e. inversion Hdec; subst.
    destruct (Hdot eq_refl) as (H1 & H2 & _).
    destruct Hr' as [->|[t' ->]]; [congruence|exfalso; eapply H2; reflexivity]. }
  destruct (is_dotdot e) eqn:E2.
  { apply is_dotdot_iff in E2. subst e. inversion Hdec; subst.
    destruct (Hdot eq_refl) as (_ & _ & H3 & H4).
    destruct Hr' as [->|[t' ->]]; [congruence|exfalso; eapply H4; reflexivity]. }
  reflexivity.
Qed.

Lemma inv_default p bf bf2 rr ww ww2 tr stack e rest' :
  Inv p bf rr ww tr stack -> skipn rr p = e ++ rest' -> noslash e ->
  (rest' = [] \/ exists t', rest' = "/" :: t') -> real_elem e = true -> 1 <= length e ->
  length (view bf2 p) = length (view bf p) ->
  firstn ww2 (view bf2 p) = rstack (e :: stack) ->
  ww2 + length rest' <= length (view bf p) ->
  Inv p bf2 (rr + length e) ww2 tr (e :: stack).
Proof.
  intros (Ho & Hs & Hp & Hl & Hk & Ht1 & Ht2) Hr Hne Hr' Hre Hel Hl2 Ho2 Hlen.
  assert (Hsk : skipn (rr + length e) p = rest').
  { rewrite skipn_add, Hr. apply skipn_exact. reflexivity. }
  unfold Inv. rewrite Hsk, Hl2. rewrite Hr in *.
  split; [exact Ho2|]. split; [constructor; [split; assumption|assumption]|].
  split.
  { rewrite <- Hp. destruct Hr' as [->|[t' ->]].
    - rewrite app_nil_r, (split_ns_end e) by assumption. rewrite process_real by assumption. reflexivity.
    - rewrite (split_ns_slash e) by assumption. rewrite process_real by assumption. reflexivity. }
  split; [exact Hlen|]. split; [destruct Hr' as [->|[t' ->]]; eauto|].
  split.
  - intros E. destruct (Ht1 E) as [He|[He _]].
    + destruct (ends_drop _ _ He) as [->|He']; [|left; exact He'].
      rewrite app_nil_r in He. exfalso. exact (noslash_not_ends _ Hne He).
    + apply app_eq_nil in He. destruct He as [-> _]. cbn [length] in Hel. lia.
  - rewrite Ht2. f_equal. destruct (real_elem_inv _ Hre) as (_ & Hd & _).
    destruct Hr' as [->|[t' ->]].
    + rewrite app_nil_r, (split_ns_end e) by assumption. cbn [last split_slash rev]. rewrite Hd. reflexivity.
    + rewrite (split_ns_slash e) by assumption. cbn [split_slash]. rewrite Ascii.eqb_refl. cbn [rev].
      rewrite !last_cons_ne by apply split_nonempty. reflexivity.
Qed.

(* ---------- the loop computes the specification ---------- *)

Lemma loop_ok p : forall fuel bf rr ww tr stack,
  Inv p bf rr ww tr stack -> length (skipn rr p) < fuel ->
  loop fuel p (length p) {| buf := bf; r := rr; w := ww; trailing := tr |} = Ok (clean_spec p).
Proof.
  induction fuel as [|fuel IH]; intros bf rr ww tr stack HI Hfuel; [lia|].
  pose proof HI as (Ho & Hs & Hp & Hl & Hk & Ht1 & Ht2).
  assert (Hww : ww = length (rstack stack)) by (rewrite <- Ho, firstn_length; lia).
  cbn [loop r w buf trailing].
  destruct (skipn rr p) as [|c t] eqn:Hrest.
  - (* end of input *)
    apply skipn_nil_ge in Hrest.
    destruct (Nat.ltb_spec rr (length p)) as [?|_]; [lia|].
    cbn [split_slash rev process last is_dot orb] in Hp, Ht2. rewrite orb_false_r in Ht2.
    rewrite clean_spec_render, <- Hp, Ht2.
    destruct (rstack_cases stack Hs) as [[-> Hr]|(Hne & Hlen & Heq)].
    + rewrite Hr in Hww. cbn [length] in Hww. subst ww. cbn [Nat.ltb Nat.leb]. rewrite andb_false_r.
      rewrite finish_view, Ho. reflexivity.
    + destruct (Nat.ltb_spec 1 ww); [|lia]. rewrite andb_true_r.
      assert (Hrs : rev stack <> []).
      { intros E. apply (f_equal (@rev bytes)) in E. rewrite rev_involutive in E. cbn in E. congruence. }
      destruct tr.
      * destruct (Ht1 eq_refl) as [He|[_ Hlt]]; [exfalso; exact (ends_nil He)|].
        destruct (bufApp_ok bf p ww "/" Hlt) as (bf1 & Hb & Hl1 & Hf1). rewrite Hb.
        rewrite finish_view, Hf1, Ho, Heq. rewrite render_ne by assumption. reflexivity.
      * rewrite finish_view, Ho, Heq. rewrite render_ne by assumption. rewrite app_nil_r. reflexivity.
  - pose proof (skipn_cons_lt _ _ _ _ Hrest) as Hlt.
    destruct (Nat.ltb_spec rr (length p)); [|lia].
    pose proof (classify_shape p rr Hlt) as Hc. rewrite Hrest in Hc.
    cbn [length] in Hfuel.
    destruct (classify p (length p) rr).
    + (* '/' *)
      destruct Hc as [t0 Hc]. inversion Hc; subst c t0.
      apply (IH _ _ _ _ stack).
      * apply (inv_consume p bf rr ww tr stack ["/"] t); try assumption.
        -- cbn [length]; lia.
        -- rewrite skipn_add, Hrest. reflexivity.
        -- lia.
        -- reflexivity.
        -- cbn [app split_slash]. rewrite Ascii.eqb_refl. rewrite last_cons_ne by apply split_nonempty. reflexivity.
      * rewrite skipn_add, Hrest. cbn [skipn]. lia.
    + (* "." at the end *)
      inversion Hc; subst c t.
      apply (IH _ _ _ _ stack).
      * assert (Hsk : skipn (rr + 1) p = []) by (rewrite skipn_add, Hrest; reflexivity).
        unfold Inv. rewrite Hsk. cbn [length] in *.
        split; [exact Ho|]. split; [exact Hs|]. split; [rewrite <- Hp; reflexivity|].
        split; [lia|]. split; [left; reflexivity|]. split; [intros _; right; split; [reflexivity|lia]|].
        rewrite Ht2. cbn. rewrite orb_true_r. reflexivity.
      * rewrite skipn_add, Hrest. cbn [skipn length]. lia.
    + (* "./" *)
      destruct Hc as [t0 Hc]. inversion Hc; subst c t.
      apply (IH _ _ _ _ stack).
      * apply (inv_consume p bf rr ww tr stack ["."; "/"] t0); try assumption.
        -- cbn [length]; lia.
        -- rewrite skipn_add, Hrest. reflexivity.
        -- lia.
        -- reflexivity.
        -- cbn [app split_slash Ascii.eqb Bool.eqb rev]. rewrite last_cons_ne by apply split_nonempty. reflexivity.
      * rewrite skipn_add, Hrest. cbn [skipn length] in *. lia.
    + (* ".." *)
      assert (Hdd : exists a t', c :: t = a ++ t' /\ 2 <= length a /\ skipn 3 (c :: t) = t' /\
                 (forall stk, process (split_slash t' []) (tl stk) = process (split_slash (a ++ t') []) stk) /\
                 is_dot (last (split_slash t' []) []) = is_dot (last (split_slash (a ++ t') []) [])).
      { destruct Hc as [Hc|[t0 Hc]]; rewrite Hc.
        - exists ["."; "."], []. repeat split. cbn [length]; lia.
        - exists ["."; "."; "/"], t0. split; [reflexivity|]. split; [cbn [length]; lia|].
          split; [reflexivity|]. split; [reflexivity|].
          cbn [app split_slash Ascii.eqb Bool.eqb rev]. rewrite last_cons_ne by apply split_nonempty. reflexivity. }
      destruct Hdd as (a & t' & Hdec & Hal & Hsk3 & Hpr & Hdl). rewrite Hdec in Hrest.
      assert (Hsk : skipn (rr + 3) p = t').
      { rewrite skipn_add, Hrest, <- Hdec. exact Hsk3. }
      assert (Hfu : length (skipn (rr + 3) p) < fuel).
      { rewrite Hsk. apply (f_equal (@length ascii)) in Hdec. rewrite app_length in Hdec. cbn [length] in Hdec. lia. }
      destruct (Nat.ltb_spec 1 ww) as [Hw1|Hw1].
      * destruct stack as [|e stack'].
        { cbn in Hww. lia. }
        destruct (back_ok bf p ww e stack' Ho) as (Hb & Ho' & Hlt'); [lia|assumption|].
        rewrite Hb. apply (IH _ _ _ _ stack'); [|exact Hfu].
        apply (inv_consume p bf rr ww tr (e :: stack') a t'); try assumption.
        -- lia.
        -- lia.
        -- inversion Hs; assumption.
        -- apply (Hpr (e :: stack')).
      * assert (stack = []).
        { destruct (rstack_cases stack Hs) as [[-> _]|(_ & Hlen & _)]; [reflexivity|lia]. }
        subst stack. apply (IH _ _ _ _ []); [|exact Hfu].
        apply (inv_consume p bf rr ww tr [] a t'); try assumption.
        -- lia.
        -- lia.
        -- apply (Hpr []).
    + (* real path element *)
      destruct Hc as (c0 & t0 & Hc & Hnc & Hdot). inversion Hc; subst c0 t0. clear Hc.
      destruct (first_elem (c :: t)) as (e & rest' & Hdec & Hne & Hr').
      destruct (default_real c t e rest' Hdec Hne Hr' Hnc Hdot) as [Hre Hel].
      assert (Hlen : length (c :: t) = length e + length rest') by (rewrite Hdec, app_length; reflexivity).
      cbn [length] in Hlen, Hl, Hk.
      rewrite Hdec in Hrest.
      assert (Hs1 : exists bf1 ww1,
                 (if Nat.ltb 1 ww then
                    match bufApp bf p ww "/" with
                    | None => None
                    | Some bf0 => Some {| buf := bf0; r := rr; w := S ww; trailing := tr |}
                    end
                  else Some {| buf := bf; r := rr; w := ww; trailing := tr |})
                 = Some {| buf := bf1; r := rr; w := ww1; trailing := tr |} /\
                 length (view bf1 p) = length (view bf p) /\
                 firstn ww1 (view bf1 p) ++ e = rstack (e :: stack) /\
                 ww1 + length e + length rest' <= length (view bf p)).
      { destruct (Nat.ltb_spec 1 ww) as [Hw1|Hw1].
        - assert (Hsl : ww + S (length t) < length (view bf p)).
          { destruct Hk as [Hk|[[t' Hk]|[Hk|Hk]]]; [discriminate|inversion Hk; subst; discriminate Hnc|lia|exact Hk]. }
          destruct (bufApp_ok bf p ww "/") as (bf1 & Hb & Hl1 & Hf1); [lia|]. rewrite Hb.
          exists bf1, (S ww). split; [reflexivity|]. split; [exact Hl1|]. split; [|lia].
          rewrite Hf1, Ho, rstack_cons.
          destruct (rstack_cases stack Hs) as [[-> Hr]|(_ & _ & Heq)]; [cbn in Hww; lia|].
          rewrite Heq, <- app_assoc. reflexivity.
        - exists bf, ww. split; [reflexivity|]. split; [reflexivity|]. split; [|lia].
          destruct (rstack_cases stack Hs) as [[-> Hr]|(_ & Hlen2 & _)]; [|lia].
          rewrite Ho, rstack_cons. reflexivity. }
      destruct Hs1 as (bf1 & ww1 & -> & Hl1 & Ho1 & Hlen1).
      destruct (copy_el_ok p tr e (S (length p)) bf1 rr ww1 rest' Hrest Hne Hr') as (bf2 & Hcp & Hl2 & Ho2).
      * lia.
      * pose proof (skipn_length rr p) as Hsl. rewrite Hrest, app_length in Hsl. lia.
      * rewrite Hcp. apply (IH _ _ _ _ (e :: stack)).
        -- apply (inv_default p bf bf2 rr ww (ww1 + length e) tr stack e rest'); try assumption.
           all: first [congruence | rewrite Ho2; exact Ho1 | lia].
        -- rewrite skipn_add, Hrest, skipn_exact by reflexivity. lia.
    + contradiction.
Qed.

(* ---------- top level ---------- *)

Lemma last_char_split q x : q ++ [x] <> ["/"] ->
  is_empty (last (split_slash (q ++ [x]) []) []) = (Nat.ltb 1 (length (q ++ [x])) && Ascii.eqb x "/").
Proof.
  intros Hne.
  destruct (Ascii.eqb_spec x "/") as [->|Hx].
  - rewrite andb_true_r.
    assert (H : is_empty (last (split_slash (q ++ ["/"]) []) []) = true).
    { apply last_split_empty. right. eexists; reflexivity. }
    rewrite H. symmetry. apply Nat.ltb_lt. rewrite app_length. cbn [length].
    destruct q; [exfalso; apply Hne; reflexivity|cbn [length]; lia].
  - rewrite andb_false_r.
    destruct (is_empty (last (split_slash (q ++ [x]) []) [])) eqn:E; [|reflexivity].
    apply last_split_empty in E. destruct E as [[E _]|[q' E]].
    + destruct q; discriminate.
    + apply app_inj_tail in E. destruct E; congruence.
Qed.

Lemma cleanpath_correct p : cleanpath p = Ok (clean_spec p).
Proof.
  destruct p as [|c0 p']; [reflexivity|].
  destruct (list_eq_dec ascii_dec (c0 :: p') ["/"]) as [E|Hnr]; [rewrite E; reflexivity|].
  set (p := c0 :: p') in *.
  assert (Hpne : p <> []) by discriminate.
  destruct (exists_last Hpne) as (q & x & Hq).
  unfold cleanpath. fold p.
  assert (Hnth : nth_b p (length p - 1) = Some x).
  { unfold nth_b. rewrite Hq, app_length. cbn [length].
    rewrite nth_error_app2 by lia. replace (length q + 1 - 1 - length q) with 0 by lia. reflexivity. }
  assert (Htr : (if Nat.ltb 1 (length p) then
                   match nth_b p (length p - 1) with Some c => Some (Ascii.eqb c "/") | None => None end
                 else Some false) = Some (Nat.ltb 1 (length p) && Ascii.eqb x "/")).
  { rewrite Hnth. destruct (Nat.ltb 1 (length p)); reflexivity. }
  unfold p at 1. fold p. rewrite Htr.
  set (tr := Nat.ltb 1 (length p) && Ascii.eqb x "/").
  assert (Hemp : is_empty (last_elem p) = tr).
  { unfold last_elem, tr. rewrite Hq. apply last_char_split. rewrite <- Hq. exact Hnr. }
  assert (Hflag : tsflag p = tr || is_dot (last_elem p)).
  { unfold tsflag. rewrite Hemp. reflexivity. }
  assert (Hends : tr = true -> ends_with_slash p /\ 2 <= length p).
  { unfold tr. intros H. apply andb_prop in H. destruct H as [H1 H2].
    apply Ascii.eqb_eq in H2. subst x. apply Nat.ltb_lt in H1. split; [eexists; exact Hq|lia]. }
  destruct (Ascii.eqb_spec c0 "/") as [->|Hc0].
  - (* rooted: no buffer yet *)
    apply (loop_ok p (length p + 2) None 1 1 tr []).
    + unfold Inv. cbn [view skipn]. unfold p at 1 3 4 5 6 7 8. cbn [firstn skipn rstack length].
      split; [reflexivity|]. split; [constructor|]. split; [reflexivity|].
      split; [lia|]. split; [right; right; left; reflexivity|]. split.
      * intros H. destruct (Hends H) as [He Hl]. apply ends_cons in He.
        destruct He as [[-> _]|He]; [cbn in Hl; lia|left; exact He].
      * rewrite Hflag. unfold last_elem, p. cbn [split_slash Ascii.eqb Bool.eqb rev].
        rewrite last_cons_ne by apply split_nonempty. reflexivity.
    + unfold p. cbn [skipn length]. lia.
  - (* not rooted: buffer of n+1 bytes, buf[0] = '/' *)
    apply (loop_ok p (length p + 2) (Some ("/" :: repeat zero (length p))) 0 1 tr []).
    + unfold Inv. cbn [view skipn firstn rstack length]. rewrite repeat_length.
      split; [reflexivity|]. split; [constructor|]. split; [reflexivity|].
      split; [lia|]. split; [right; right; left; reflexivity|]. split.
      * intros H. left. exact (proj1 (Hends H)).
      * exact Hflag.
    + cbn [skipn]. lia.
Qed.

Lemma cleanpath_total p : cleanpath p <> Panic /\ cleanpath p <> OutOfFuel.
Proof. rewrite cleanpath_correct. split; discriminate. Qed.

Lemma cleanpath_idempotent_model p o : cleanpath p = Ok o -> cleanpath o = Ok o.
Proof.
  rewrite cleanpath_correct. intros H. inversion H; subst o.
  rewrite cleanpath_correct, clean_spec_idempotent. reflexivity.
Qed.

Lemma cleanpath_fixed_iff p : cleanpath p = Ok p <-> canonical p = true.
Proof.
  rewrite cleanpath_correct, <- clean_iff_fixed. split; [intros H; inversion H; congruence|congruence].
Qed.

(* ---------- non-vacuity examples ---------- *)

Lemma cleanpath_correct_ex :
  cleanpath (S2B "abc//./def/../../x/%2F/..") = Ok (S2B "/x") /\
  clean_spec (S2B "abc//./def/../../x/%2F/..") = S2B "/x".
Proof. vm_compute. split; reflexivity. Qed.

Lemma canonical_fixed_ex : canonical (S2B "/a/..b/%2e/") = true /\ canonical (S2B "/a/./b") = false.
Proof. vm_compute. split; reflexivity. Qed.

Lemma clean_spec_trailing_ex :
  clean_spec (S2B "/a/b/.") = S2B "/a/b/" /\ clean_spec (S2B "/a/..") = root /\
  clean_spec (S2B "/a/../") = root /\ clean_spec (S2B "/a/b/..") = S2B "/a".
Proof. vm_compute. repeat split; reflexivity. Qed.
