(* C17 model: transliteration of CleanPath / bufApp (path.go:26-157), with the
   lazily materialised buffer.  Index expressions are nth_error; an index out of
   range is the outcome Panic.  The outer loop and the element-copy loop run on
   fuel; running out of fuel is a distinct outcome (OutOfFuel / SFuel) which the
   theorems exclude.  The backtracking loop is structurally recursive on w. *)
From FoxBase Require Import Bytes.
Open Scope char_scope.

Inductive res := Ok (o : bytes) | Panic | OutOfFuel.

(* outcome of the inner copy loop *)
Inductive sub (A : Type) := SOk (a : A) | SPanic | SFuel.
Arguments SOk {A} a.
Arguments SPanic {A}.
Arguments SFuel {A}.

Record st := { buf : option bytes;   (* None <-> len(buf) == 0 : not materialised *)
               r : nat; w : nat; trailing : bool }.

Definition nth_b (s : bytes) (i : nat) : option ascii := nth_error s i.

Fixpoint set_nth (s : bytes) (i : nat) (c : ascii) : option bytes :=
  match s, i with
  | _ :: t, O => Some (c :: t)
  | x :: t, S i => option_map (cons x) (set_nth t i c)
  | [], _ => None
  end.

Definition zero : ascii := "000".

(* bufApp(&buf, s, w, c); None = index out of range *)
Definition bufApp (bf : option bytes) (s : bytes) (w : nat) (c : ascii) : option (option bytes) :=
  match bf with
  | None =>
      match nth_b s w with
      | None => None                                   (* s[w] out of range *)
      | Some d => if Ascii.eqb d c then Some None
                  else (* materialise len(s) bytes, copy s[:w] *)
                    let nb := firstn w s ++ repeat zero (List.length s - w) in
                    option_map Some (set_nth nb w c)
      end
  | Some bb => option_map Some (set_nth bb w c)
  end.

(* p[i] when len(buf) == 0, buf[i] otherwise *)
Definition rd (bf : option bytes) (p : bytes) (i : nat) : option ascii :=
  match bf with None => nth_b p i | Some bb => nth_b bb i end.

(* for w > 1 && X[w] != '/' { w-- }      (X = p or buf) *)
Fixpoint back (bf : option bytes) (p : bytes) (w : nat) : option nat :=
  match w with
  | O => Some O
  | S w' =>
    if Nat.ltb 1 w then
      match rd bf p w with
      | None => None
      | Some c => if Ascii.eqb c "/" then Some w else back bf p w'
      end
    else Some w
  end.

(* for r < n && p[r] != '/' { bufApp(&buf, p, w, p[r]); w++; r++ } *)
Fixpoint copy_el (fuel : nat) (p : bytes) (n : nat) (s : st) : sub st :=
  match fuel with O => SFuel | S fuel =>
    if Nat.ltb (r s) n then
      match nth_b p (r s) with None => SPanic | Some c =>
        if Ascii.eqb c "/" then SOk s else
        match bufApp (buf s) p (w s) c with None => SPanic | Some bf =>
          copy_el fuel p n {| buf := bf; r := S (r s); w := S (w s); trailing := trailing s |} end end
    else SOk s end.

(* which arm of the switch is taken at p[r] (r < n), evaluating the conditions
   in order with Go's short-circuit && and ||; KPanic = index out of range *)
Inductive kase := KSlash | KDotEnd | KDotSlash | KDotDot | KDefault | KPanic.

Definition classify (p : bytes) (n r : nat) : kase :=
  match nth_b p r with None => KPanic | Some c =>
  if Ascii.eqb c "/" then KSlash                                   (* p[r] == '/' *)
  else if Ascii.eqb c "." then
    if Nat.eqb (r + 1) n then KDotEnd                              (* p[r] == '.' && r+1 == n *)
    else match nth_b p (r + 1) with None => KPanic | Some c1 =>
      if Ascii.eqb c1 "/" then KDotSlash                           (* p[r] == '.' && p[r+1] == '/' *)
      else if Ascii.eqb c1 "." then                                (* p[r] == '.' && p[r+1] == '.' && ... *)
        if Nat.eqb (r + 2) n then KDotDot
        else match nth_b p (r + 2) with None => KPanic | Some c2 =>
          if Ascii.eqb c2 "/" then KDotDot else KDefault end
      else KDefault end
  else KDefault end.

Definition finish (p : bytes) (s : st) : res :=
  match buf s with None => Ok (firstn (w s) p) | Some bb => Ok (firstn (w s) bb) end.

Fixpoint loop (fuel : nat) (p : bytes) (n : nat) (s : st) : res :=
  match fuel with O => OutOfFuel | S fuel =>
  if Nat.ltb (r s) n then
    match classify p n (r s) with
    | KPanic => Panic
    | KSlash => loop fuel p n {| buf := buf s; r := r s + 1; w := w s; trailing := trailing s |}
    | KDotEnd => loop fuel p n {| buf := buf s; r := r s + 1; w := w s; trailing := true |}
    | KDotSlash => loop fuel p n {| buf := buf s; r := r s + 2; w := w s; trailing := trailing s |}
    | KDotDot =>
        if Nat.ltb 1 (w s) then
          match back (buf s) p (w s - 1) with
          | None => Panic
          | Some w' => loop fuel p n {| buf := buf s; r := r s + 3; w := w'; trailing := trailing s |}
          end
        else loop fuel p n {| buf := buf s; r := r s + 3; w := w s; trailing := trailing s |}
    | KDefault =>
        (* real path element: add slash if needed, then copy the element *)
        match (if Nat.ltb 1 (w s) then
                 match bufApp (buf s) p (w s) "/" with
                 | None => None
                 | Some bf => Some {| buf := bf; r := r s; w := S (w s); trailing := trailing s |}
                 end
               else Some s) with
        | None => Panic
        | Some s1 =>
          match copy_el (S n) p n s1 with
          | SPanic => Panic
          | SFuel => OutOfFuel
          | SOk s2 => loop fuel p n s2
          end
        end
    end
  else
    (* re-append trailing slash, return p[:w] or string(buf[:w]) *)
    if trailing s && Nat.ltb 1 (w s) then
      match bufApp (buf s) p (w s) "/" with
      | None => Panic
      | Some bf => finish p {| buf := bf; r := r s; w := S (w s); trailing := trailing s |}
      end
    else finish p s
  end.

Definition cleanpath (p : bytes) : res :=
  match p with
  | [] => Ok ["/"]
  | c0 :: _ =>
    let n := List.length p in
    (* trailing := n > 1 && p[n-1] == '/' *)
    match (if Nat.ltb 1 n then
             match nth_b p (n - 1) with Some c => Some (Ascii.eqb c "/") | None => None end
           else Some false) with
    | None => Panic
    | Some tr =>
      if Ascii.eqb c0 "/" then loop (n + 2) p n {| buf := None; r := 1; w := 1; trailing := tr |}
      else (* buf = make([]byte, n+1) or buf[:n+1]; buf[0] = '/' *)
        loop (n + 2) p n {| buf := Some ("/" :: repeat zero n); r := 0; w := 1; trailing := tr |}
    end
  end.
