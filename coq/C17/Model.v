(* C17 model: transliteration of CleanPath / bufApp (path.go:26-157), with the
   lazily materialised buffer.  Index expressions are nth_error; an index out of
   range is the outcome Panic.  Loops run on fuel; OutOfFuel is a distinct
   outcome which the theorems exclude. *)
From FoxBase Require Import Bytes.
Open Scope char_scope.

Inductive res := Ok (o : bytes) | Panic | OutOfFuel.

Record st := { buf : option bytes;   (* None <-> len(buf) == 0 : not materialised *)
               r : nat; w : nat; trailing : bool }.

Definition nth_b (s : bytes) (i : nat) : option ascii := nth_error s i.

Fixpoint set_nth (s : bytes) (i : nat) (c : ascii) : option bytes :=
  match s, i with
  | _ :: t, O => Some (c :: t)
  | x :: t, S i => option_map (cons x) (set_nth t i c)
  | [], _ => None
  end.

Definition zero : ascii := "000".

(* bufApp(&buf, s, w, c) *)
Definition bufApp (bf : option bytes) (s : bytes) (w : nat) (c : ascii) : option (option bytes) :=
  match bf with
  | None =>
      match nth_b s w with
      | None => None                                   (* s[w] out of range *)
      | Some d => if Ascii.eqb d c then Some None
                  else (* materialise len(s) bytes, copy s[:w] *)
                    let nb := firstn w s ++ repeat zero (List.length s - w) in
                    option_map Some (set_nth nb w c)
      end
  | Some bb => option_map Some (set_nth bb w c)
  end.

Definition rd (s : st) (p : bytes) (i : nat) : option ascii :=
  match buf s with None => nth_b p i | Some bb => nth_b bb i end.

(* for w > 1 && X[w] != '/' { w-- } *)
Fixpoint back (fuel : nat) (s : st) (p : bytes) (w : nat) : option nat :=
  match fuel with O => Some w | S fuel =>
    if Nat.ltb 1 w then
      match rd s p w with
      | None => None
      | Some c => if Ascii.eqb c "/" then Some w else back fuel s p (w - 1)
      end
    else Some w end.

(* for r < n && p[r] != '/' { bufApp(&buf, p, w, p[r]); w++; r++ } *)
Fixpoint copy_el (fuel : nat) (p : bytes) (n : nat) (s : st) : option st :=
  match fuel with O => Some s | S fuel =>
    if Nat.ltb (r s) n then
      match nth_b p (r s) with None => None | Some c =>
        if Ascii.eqb c "/" then Some s else
        match bufApp (buf s) p (w s) c with None => None | Some bf =>
          copy_el fuel p n {| buf := bf; r := S (r s); w := S (w s); trailing := trailing s |} end end
    else Some s end.

Definition finish (p : bytes) (s : st) : res :=
  match buf s with None => Ok (firstn (w s) p) | Some bb => Ok (firstn (w s) bb) end.

Fixpoint loop (fuel : nat) (p : bytes) (n : nat) (s : st) : res :=
  match fuel with O => OutOfFuel | S fuel =>
  if negb (Nat.ltb (r s) n) then
    if trailing s && Nat.ltb 1 (w s) then
      match bufApp (buf s) p (w s) "/" with
      | None => Panic
      | Some bf => finish p {| buf := bf; r := r s; w := S (w s); trailing := trailing s |}
      end
    else finish p s
  else
  match nth_b p (r s) with None => Panic | Some c =>
  if Ascii.eqb c "/" then loop fuel p n {| buf := buf s; r := S (r s); w := w s; trailing := trailing s |}
  else if Ascii.eqb c "." && Nat.eqb (S (r s)) n then
         loop fuel p n {| buf := buf s; r := S (r s); w := w s; trailing := true |}
  else match (if Ascii.eqb c "." then nth_b p (S (r s)) else Some "a") with None => Panic | Some c1 =>
  if Ascii.eqb c "." && Ascii.eqb c1 "/" then loop fuel p n {| buf := buf s; r := r s + 2; w := w s; trailing := trailing s |}
  else
  let dd := Ascii.eqb c "." && Ascii.eqb c1 "." in
  match (if dd && negb (Nat.eqb (r s + 2) n) then nth_b p (r s + 2) else Some "/") with None => Panic | Some c2 =>
  if dd && (Nat.eqb (r s + 2) n || Ascii.eqb c2 "/") then
    if Nat.ltb 1 (w s) then
      match back (w s) s p (w s - 1) with
      | None => Panic
      | Some w' => loop fuel p n {| buf := buf s; r := r s + 3; w := w'; trailing := trailing s |}
      end
    else loop fuel p n {| buf := buf s; r := r s + 3; w := w s; trailing := trailing s |}
  else
    (* real path element *)
    match (if Nat.ltb 1 (w s) then
             match bufApp (buf s) p (w s) "/" with
             | None => None
             | Some bf => Some {| buf := bf; r := r s; w := S (w s); trailing := trailing s |}
             end
           else Some s) with None => Panic | Some s1 =>
    match copy_el (S n) p n s1 with None => Panic | Some s2 => loop fuel p n s2 end end
  end end end end.

Definition cleanpath (p : bytes) : res :=
  match p with
  | [] => Ok ["/"]
  | c0 :: _ =>
    let n := List.length p in
    let tr := Nat.ltb 1 n && match nth_b p (n - 1) with Some c => Ascii.eqb c "/" | None => false end in
    if Ascii.eqb c0 "/" then loop (2 * n + 4) p n {| buf := None; r := 1; w := 1; trailing := tr |}
    else loop (2 * n + 4) p n {| buf := Some ("/" :: repeat zero n); r := 0; w := 1; trailing := tr |}
  end.
