(* C17: the canonical form is never longer than the input plus one byte (the leading
   slash CleanPath adds to a relative path).  This is the bound behind the buffer of
   n+1 bytes in path.go: no write of CleanPath can fall outside it. *)
From FoxBase Require Import Bytes.
From FoxC17 Require Import Spec Model Proofs ProofsModel.
Open Scope char_scope.
Local Notation length := List.length.

Lemma join_app a b : join (a ++ b) = join a ++ join b.
Proof. unfold join; apply flat_map_app. Qed.

Lemma join_len_cons e l : length (join (e :: l)) = S (length e) + length (join l).
Proof. unfold join. cbn [flat_map app]. cbn [List.length]. rewrite app_length. reflexivity. Qed.

Lemma join_len_rev l : length (join (rev l)) = length (join l).
Proof.
  induction l as [|e l IH]; [reflexivity|].
  cbn [rev]. rewrite join_app, app_length, IH, !join_len_cons. cbn [join flat_map length]. lia.
Qed.

Lemma join_len_tl l : length (join (tl l)) <= length (join l).
Proof. destruct l as [|e l]; [cbn; lia|]. cbn [tl]. rewrite join_len_cons. lia. Qed.

(* every input byte is either a separator or belongs to exactly one element *)
Lemma split_join_len s cur :
  length (join (split_slash s cur)) = S (length s + length cur).
Proof.
  revert cur; induction s as [|c s IH]; intros cur.
  - cbn. rewrite app_length, rev_length. cbn. lia.
  - cbn [split_slash]. destruct (Ascii.eqb c "/").
    + rewrite join_len_cons, IH, rev_length. cbn. lia.
    + rewrite IH. cbn. lia.
Qed.

Lemma split_nonempty s cur : split_slash s cur <> [].
Proof.
  revert cur; induction s as [|c s IH]; intros cur; cbn; [discriminate|].
  destruct (Ascii.eqb c "/"); [discriminate|apply IH].
Qed.

Definition slack (e : bytes) : nat := if is_empty e || is_dot e then 1 else 0.

(* one step of [process]: the stack after consuming element e *)
Definition push1 (e : bytes) (st : list bytes) : list bytes :=
  match e with
  | [] => st
  | _ => if is_dot e then st else if is_dotdot e then tl st else e :: st
  end.

Lemma process_cons e r st : process (e :: r) st = process r (push1 e st).
Proof.
  unfold push1. destruct e as [|c e]; [reflexivity|].
  cbn [process]. destruct (is_dot (c :: e)); [reflexivity|].
  destruct (is_dotdot (c :: e)); reflexivity.
Qed.

Lemma push1_len e st :
  length (join (push1 e st)) + slack e <= S (length e) + length (join st).
Proof.
  unfold push1, slack. destruct e as [|c e]; [cbn; lia|].
  cbn [is_empty orb].
  destruct (is_dot (c :: e)) eqn:Hd; [cbn [length]; lia|].
  destruct (is_dotdot (c :: e)); [pose proof (join_len_tl st); cbn [length]; lia|].
  rewrite join_len_cons. lia.
Qed.

Lemma process_len els st : els <> [] ->
  length (join (process els st)) + slack (last els []) <= length (join els) + length (join st).
Proof.
  revert st; induction els as [|e r IH]; intros st Hne; [congruence|].
  rewrite process_cons, join_len_cons.
  destruct r as [|e' r'].
  - cbn [process last]. rewrite join_len_rev. pose proof (push1_len e st). cbn [join flat_map length]. lia.
  - assert (Hr : e' :: r' <> []) by discriminate.
    specialize (IH (push1 e st) Hr).
    change (last (e :: e' :: r') []) with (last (e' :: r') []).
    pose proof (push1_len e st). unfold slack in *.
    destruct (is_empty e || is_dot e); lia.
Qed.

Lemma clean_spec_length p : length (clean_spec p) <= S (length p).
Proof.
  unfold clean_spec.
  pose proof (process_len (split_slash p []) [] (split_nonempty p [])) as H.
  rewrite split_join_len in H. cbn [join flat_map length] in H. rewrite Nat.add_0_r in H.
  destruct (process (split_slash p []) []) as [|o out] eqn:Hp; [cbn; lia|].
  rewrite app_length. unfold slack in H.
  destruct (is_empty (last (split_slash p []) []) || is_dot (last (split_slash p []) [])); cbn [length]; lia.
Qed.

Lemma cleanpath_length p o : cleanpath p = Ok o -> length o <= S (length p).
Proof.
  rewrite ProofsModel.cleanpath_correct. intros H; injection H as <-. apply clean_spec_length.
Qed.

(* the bound is reached (a relative path of one element) *)
Lemma clean_spec_length_tight : length (clean_spec (S2B "a")) = S (length (S2B "a")).
Proof. reflexivity. Qed.


Lemma last_cons_ne (x : bytes) (l : list bytes) d : l <> [] -> last (x :: l) d = last l d.
Proof. destruct l; [congruence|reflexivity]. Qed.

(* an absolute path never grows: CleanPath only adds a byte to a relative path *)
Lemma clean_spec_length_abs t : length (clean_spec ("/" :: t)) <= length ("/" :: t).
Proof.
  unfold clean_spec. cbv zeta.
  assert (Hs : split_slash ("/" :: t) [] = [] :: split_slash t []) by reflexivity.
  rewrite Hs. clear Hs.
  pose proof (split_nonempty t []) as Hne.
  rewrite !(last_cons_ne _ _ _ Hne).
  rewrite process_cons. cbn [push1].
  pose proof (process_len (split_slash t []) [] Hne) as H.
  rewrite split_join_len in H. cbn [join flat_map List.length] in H.
  rewrite Nat.add_0_r in H.
  destruct (process (split_slash t []) []) as [|o out]; [cbn; lia|].
  rewrite app_length. unfold slack in H.
  destruct (is_empty (last (split_slash t []) []) || is_dot (last (split_slash t []) [])); cbn [List.length] in *; lia.
Qed.
