(* C17 property theorems: statements only, each closed by [exact]. *)
From FoxBase Require Import Bytes.
From FoxC17 Require Import Spec Model Proofs.
Open Scope char_scope.

Theorem C17_spec_rooted : forall p, exists t, clean_spec p = "/" :: t.
Proof. exact clean_spec_rooted. Qed.
Print Assumptions C17_spec_rooted.
