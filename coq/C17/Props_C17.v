(* C17 property theorems: statements only, each closed by [exact]. *)
From FoxBase Require Import Bytes.
From FoxC17 Require Import Spec Model Proofs ProofsModel ProofsLen.
Open Scope char_scope.

(* 1. CleanPath never panics (and the model's fuel always suffices), for every input *)
Theorem cleanpath_total : forall p, cleanpath p <> Panic /\ cleanpath p <> OutOfFuel.
Proof. exact ProofsModel.cleanpath_total. Qed.
Print Assumptions cleanpath_total.

(* 2. the Go-faithful model (lazy buffer, bufApp, ".." backtracking over p or buf)
      returns the lexical specification, for every input of every length *)
Theorem cleanpath_correct : forall p, cleanpath p = Ok (clean_spec p).
Proof. exact ProofsModel.cleanpath_correct. Qed.
Print Assumptions cleanpath_correct.

Example cleanpath_correct_ex :
  cleanpath (S2B "abc//./def/../../x/%2F/..") = Ok (S2B "/x") /\
  clean_spec (S2B "abc//./def/../../x/%2F/..") = S2B "/x".
Proof. exact ProofsModel.cleanpath_correct_ex. Qed.

(* 3. the result is the unique canonical form; the function is idempotent *)
Theorem clean_spec_canonical : forall p, canonical (clean_spec p) = true.
Proof. exact Proofs.clean_spec_canonical. Qed.
Print Assumptions clean_spec_canonical.

Theorem canonical_fixed : forall p, canonical p = true -> clean_spec p = p.
Proof. exact Proofs.canonical_fixed. Qed.
Print Assumptions canonical_fixed.

Example canonical_fixed_ex : canonical (S2B "/a/..b/%2e/") = true /\ canonical (S2B "/a/./b") = false.
Proof. exact ProofsModel.canonical_fixed_ex. Qed.

Theorem cleanpath_idempotent : forall p, clean_spec (clean_spec p) = clean_spec p.
Proof. exact Proofs.clean_spec_idempotent. Qed.
Print Assumptions cleanpath_idempotent.

Theorem cleanpath_idempotent_model : forall p o, cleanpath p = Ok o -> cleanpath o = Ok o.
Proof. exact ProofsModel.cleanpath_idempotent_model. Qed.
Print Assumptions cleanpath_idempotent_model.

(* two canonical paths denoting the same location are equal *)
Theorem canonical_unique : forall a b,
  canonical a = true -> canonical b = true -> clean_spec a = clean_spec b -> a = b.
Proof. exact Proofs.canonical_unique. Qed.
Print Assumptions canonical_unique.

(* the canonical paths are exactly "/" and the strings /e1/.../en and /e1/.../en/
   (n >= 1) whose elements are non-empty, contain no '/', and are neither "." nor ".." *)
Theorem canonical_iff_render : forall p,
  canonical p = true <-> exists els ts, Forall realp els /\ p = render els ts.
Proof. exact Proofs.canonical_iff_render. Qed.
Print Assumptions canonical_iff_render.

Theorem clean_spec_rooted : forall p, exists t, clean_spec p = "/" :: t.
Proof. exact Proofs.clean_spec_rooted. Qed.
Print Assumptions clean_spec_rooted.

(* 4. a trailing slash is kept exactly when the input ended with a slash or a "."
      element, and the result is not the root *)
Theorem clean_spec_trailing : forall p,
  (ends_with_slash (clean_spec p) /\ clean_spec p <> root) <->
  ((ends_with_slash p \/ last_elem p = ["."]) /\ clean_spec p <> root).
Proof. exact Proofs.clean_spec_trailing. Qed.
Print Assumptions clean_spec_trailing.

Example clean_spec_trailing_ex :
  clean_spec (S2B "/a/b/.") = S2B "/a/b/" /\ clean_spec (S2B "/a/..") = root /\
  clean_spec (S2B "/a/../") = root /\ clean_spec (S2B "/a/b/..") = S2B "/a".
Proof. exact ProofsModel.clean_spec_trailing_ex. Qed.

(* 5. exported for the dispatch property (redirect guard path == CleanPath(path)) *)
Theorem clean_iff_fixed : forall p, clean_spec p = p <-> canonical p = true.
Proof. exact Proofs.clean_iff_fixed. Qed.
Print Assumptions clean_iff_fixed.

Theorem cleanpath_fixed_iff : forall p, cleanpath p = Ok p <-> canonical p = true.
Proof. exact ProofsModel.cleanpath_fixed_iff. Qed.
Print Assumptions cleanpath_fixed_iff.

(* 6. the result is never longer than the input plus the one leading slash a relative
      path receives: the bound the n+1-byte buffer of path.go relies on; it is reached *)
Theorem clean_spec_length : forall p, List.length (clean_spec p) <= S (List.length p).
Proof. exact ProofsLen.clean_spec_length. Qed.
Print Assumptions clean_spec_length.

Theorem cleanpath_length : forall p o, cleanpath p = Ok o -> List.length o <= S (List.length p).
Proof. exact ProofsLen.cleanpath_length. Qed.
Print Assumptions cleanpath_length.

Example clean_spec_length_tight : List.length (clean_spec (S2B "a")) = S (List.length (S2B "a")).
Proof. exact ProofsLen.clean_spec_length_tight. Qed.

(* an absolute path never grows: only a relative path receives the extra byte *)
Theorem clean_spec_length_abs : forall t,
  List.length (clean_spec ("/" :: t)) <= List.length ("/" :: t).
Proof. exact ProofsLen.clean_spec_length_abs. Qed.
Print Assumptions clean_spec_length_abs.
