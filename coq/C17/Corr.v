(* C17 correspondence: functions evaluated by the case files the harness writes.
   A case is (input, observed, redirected) where observed = Some output | None (panic)
   is what CleanPath returned, and redirected = Some b records, for inputs that were also
   sent as a request path to a router with redirecting trailing-slash routes, whether
   ServeHTTP answered with a trailing-slash redirect (301/308). *)
From FoxBase Require Import Bytes.
From FoxC17 Require Import Spec Model.

Definition case := (bytes * option bytes * option bool)%type.
Definition c_in (c : case) : bytes := fst (fst c).
Definition c_out (c : case) : option bytes := snd (fst c).
Definition c_redirected (c : case) : bool := match snd c with Some true => true | _ => false end.

Definition model_agrees (c : case) : bool :=
  match cleanpath (c_in c), c_out c with
  | Ok o, Some o' => bytes_eqb o o'
  | Panic, None => true
  | _, _ => false
  end &&
  (* the redirect guard of ServeHTTP (fox.go:566): path == CleanPath(path) *)
  (negb (c_redirected c) || match cleanpath (c_in c) with Ok o => bytes_eqb o (c_in c) | _ => false end).

Definition spec_ok (c : case) : bool :=
  match c_out c with
  | Some o => bytes_eqb o (clean_spec (c_in c)) && canonical o
  | None => false
  end &&
  (* a trailing-slash redirect is only ever issued for request paths already in canonical form *)
  (negb (c_redirected c) || canonical (c_in c)).

Definition out_of_fuel (c : case) : bool :=
  match cleanpath (c_in c) with OutOfFuel => true | _ => false end.

Definition mismatches (cs : list case) : list nat := true_idx (map (fun c => negb (model_agrees c)) cs).
Definition spec_violations (cs : list case) : list nat := true_idx (map (fun c => negb (spec_ok c)) cs).
Definition fuel_outs (cs : list case) : list nat := true_idx (map out_of_fuel cs).
