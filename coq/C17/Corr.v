(* C17 correspondence: functions evaluated by the case files the harness writes.
   A case is (input, observed) where observed = Some output | None (panic). *)
From FoxBase Require Import Bytes.
From FoxC17 Require Import Spec Model.

Definition case := (bytes * option bytes)%type.

Definition model_agrees (c : case) : bool :=
  match cleanpath (fst c), snd c with
  | Ok o, Some o' => bytes_eqb o o'
  | Panic, None => true
  | _, _ => false
  end.

Definition spec_ok (c : case) : bool :=
  match snd c with
  | Some o => bytes_eqb o (clean_spec (fst c)) && canonical o
  | None => false
  end.

Definition out_of_fuel (c : case) : bool :=
  match cleanpath (fst c) with OutOfFuel => true | _ => false end.

Definition mismatches (cs : list case) : list nat := true_idx (map (fun c => negb (model_agrees c)) cs).
Definition spec_violations (cs : list case) : list nat := true_idx (map (fun c => negb (spec_ok c)) cs).
Definition fuel_outs (cs : list case) : list nat := true_idx (map out_of_fuel cs).
