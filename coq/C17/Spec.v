(* C17 specification: the lexical canonical form of a URL path.
   Written from the property text, independently of path.go. *)
From FoxBase Require Import Bytes.
Open Scope char_scope.

(* split on '/': "a//b" -> ["a"; ""; "b"] ; cur is the current element, reversed *)
Fixpoint split_slash (s : bytes) (cur : bytes) : list bytes :=
  match s with
  | [] => [rev cur]
  | c :: r => if Ascii.eqb c "/" then rev cur :: split_slash r [] else split_slash r (c :: cur)
  end.

Definition is_dot (e : bytes) : bool := match e with ["."] => true | _ => false end.
Definition is_dotdot (e : bytes) : bool := match e with ["."; "."] => true | _ => false end.

(* the element stack (reversed): empty and "." elements are dropped, ".." pops
   (popping an empty stack leaves it empty: never above the root) *)
Fixpoint process (els : list bytes) (stack : list bytes) : list bytes :=
  match els with
  | [] => rev stack
  | e :: r =>
      match e with
      | [] => process r stack
      | _ => if is_dot e then process r stack
             else if is_dotdot e then process r (tl stack)
             else process r (e :: stack)
      end
  end.

Definition join (els : list bytes) : bytes := flat_map (fun e => "/" :: e) els.

Definition is_empty (e : bytes) : bool := match e with [] => true | _ => false end.

(* the result is the root when no element remains; otherwise the joined elements,
   with a trailing slash iff the input ended in '/' (its last element is empty)
   or its last element is "." *)
Definition clean_spec (p : bytes) : bytes :=
  let els := split_slash p [] in
  let lastel := last els [] in
  match process els [] with
  | [] => ["/"]
  | out => join out ++ (if is_empty lastel || is_dot lastel then ["/"] else [])
  end.

(* the set of canonical paths: rooted, no empty / "." / ".." element,
   except that the last element may be empty (trailing slash) when there is
   at least one real element *)
Definition real_elem (e : bytes) : bool := negb (is_empty e) && negb (is_dot e) && negb (is_dotdot e).

Definition canonical (p : bytes) : bool :=
  match p with
  | c :: rest =>
      Ascii.eqb c "/" &&
      match rest with
      | [] => true
      | _ => let els := split_slash rest [] in
             let body := removelast els in
             let l := last els [] in
             forallb real_elem body && (real_elem l || (is_empty l && negb (is_empty (List.concat body))))
      end
  | [] => false
  end.

(* vocabulary for the trailing-slash clause *)
Definition last_elem (p : bytes) : bytes := last (split_slash p []) [].
Definition ends_with_slash (p : bytes) : Prop := exists q, p = q ++ ["/"].
Definition root : bytes := ["/"].

(* vocabulary for the characterisation of the canonical paths: an element is
   real and contains no '/'; a canonical path is the rendering of a list of
   such elements, optionally followed by a slash when the list is not empty *)
Definition ns (c : ascii) : Prop := Ascii.eqb c "/" = false.
Definition noslash (e : bytes) : Prop := Forall ns e.
Definition realp (e : bytes) : Prop := real_elem e = true /\ noslash e.
Definition render (els : list bytes) (ts : bool) : bytes :=
  match els with [] => ["/"] | _ => join els ++ (if ts then ["/"] else []) end.
