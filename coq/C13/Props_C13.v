(* C13 property theorems: statements only, each closed by [exact]. *)
From FoxBase Require Import Bytes.
From FoxC13 Require Import GoSlice Types Spec Model Conc Corr ProofsSlice ProofsChain ProofsRun ProofsIndep.

(* tie A: the scope constants regenerated from fox.go are the five distinct single bits 7..3 and their union *)
Example gen_scope_bits :
  (RouteHandler, NoRouteHandler, NoMethodHandler, RedirectHandler, OptionsHandler, AllHandlers)
  = (2 ^ 7, 2 ^ 6, 2 ^ 5, 2 ^ 4, 2 ^ 3, N.lor (2 ^ 7) (N.lor (2 ^ 6) (N.lor (2 ^ 5) (N.lor (2 ^ 4) (2 ^ 3)))))%N.
Proof. reflexivity. Qed.

(* the code's test  mask & constant != 0  is "the scope includes the kind" *)
Theorem scope_test_is_inclusion : forall (s : N) (k : kind), N.eqb (N.land s (scope_const k)) 0 = negb (includes s k).
Proof. exact scope_test. Qed.
Print Assumptions scope_test_is_inclusion.

(* chain_exact: every list of global options (any scope masks, nil entries, DefaultOptions anywhere, any
   number of entries), every sequence of Handle / Update / requests of the five kinds / Route.Handle /
   Route.HandleMiddleware, every growth policy of append: the model shows exactly what the specification
   prescribes (errors, event traces, scope seen). *)
Theorem chain_exact :
  forall (grow : nat -> nat -> nat) (gopts : list gopt) (ops : list op),
    project (run_traces grow gopts ops) = spec_run gopts ops.
Proof. exact chain_exact_run. Qed.
Print Assumptions chain_exact.

(* the same for an arbitrary handler type and an arbitrary action of middleware on handlers:
   the four special handlers New composes *)
Theorem chain_exact_special :
  forall (H : Type) (wrap : mwid -> H -> H) (special custom : kind -> H) (grow : nat -> nat -> nat) (gopts : list gopt),
    match spec_globals gopts [] with
    | None => exists h, new H wrap special custom grow gopts = (h, Err ErrInvalidConfig)
    | Some G => exists h s,
        (* whatever feature flags the options set: all four chains carry their scoped middleware *)
        new H wrap special custom grow gopts =
          (h, Ok (mkRouter H s (fold_right wrap (base_h H special custom gopts KNoRoute) (scoped G KNoRoute))
                               (fold_right wrap (base_h H special custom gopts KNoMethod) (scoped G KNoMethod))
                               (fold_right wrap (special KRedirect) (scoped G KRedirect))
                               (fold_right wrap (base_h H special custom gopts KOptions) (scoped G KOptions))
                               (cfg_of gopts)))
        /\ wf h s /\ contents h s = map mk_glob G
    end.
Proof. exact new_spec. Qed.
Print Assumptions chain_exact_special.

(* ... and the three handlers of a route NewRoute composes (hbase bare, hself route-only, hall globals outside) *)
Theorem chain_exact_route :
  forall (H : Type) (wrap : mwid -> H -> H) (route_h : nat -> H) (grow : nat -> nat -> nat)
         (h : heap) (r : router H) (G : list (mwid * N)) (hid : nat) (ms : list (option mwid)) (ts : list tsopt) (h1 : heap) (res : outcome (route H)),
    wf h (r_mws H r) -> contents h (r_mws H r) = map mk_glob G ->
    new_route H wrap route_h grow h r hid ms ts = (h1, res) ->
    wf h1 (r_mws H r) /\ contents h1 (r_mws H r) = map mk_glob G /\
    if has_nil ms then res = Err ErrInvalidConfig
    else exists rt, res = Ok rt /\
           (rt_hbase H rt = route_h hid /\
            rt_hself H rt = fold_right wrap (route_h hid) (somes ms) /\
            rt_hall H rt = fold_right wrap (route_h hid) (scoped G KRoute ++ somes ms)) /\
           rt_flags H rt = route_flags (r_cfg H r) ts /\
           wf h1 (rt_mws H rt) /\ contents h1 (rt_mws H rt) = map mk_glob G ++ map mk_rt (somes ms) /\
           (s_arr (rt_mws H rt) = s_arr (r_mws H r) <-> somes ms = []) /\
           (somes ms = [] -> s_cap (rt_mws H rt) = s_len (rt_mws H rt)).
Proof. exact new_route_spec. Qed.
Print Assumptions chain_exact_route.

(* non-vacuity: DefaultOptions in the middle of the options, scoped middleware, Update, all five kinds; the redirect is
   enabled by the ROUTE only, 405 by a custom handler, automatic OPTIONS by DefaultOptions *)
Example chain_exact_example :
  spec_run [GMw [Some (User 1)]; GMwFor (N.lor NoRouteHandler RedirectHandler) [Some (User 2)]; GDefault;
            GMwFor RouteHandler [Some (User 3)]; GCustomH KNoMethod; GCustomH KNoRoute]
           [OHandle 0 10 [Some (User 7)] []; OUpdate 0 11 [Some (User 8); Some (User 9)] [TIgnore true; TRedirect true];
            OServe SExact 0; OServe SNoMatch 0; OServe STsr 0; OServe SPost 0; OServe SOptions 0; ORouteHandleMw 0; ORouteHandle 0]
  = RRun [ObsErr None; ObsErr None;
          ObsTrace [Enter Recovery; Enter Logger; Enter (User 1); Enter (User 3); Enter (User 8); Enter (User 9); Run 11;
                    Exit (User 9); Exit (User 8); Exit (User 3); Exit (User 1); Exit Logger; Exit Recovery] (Some RouteHandler);
          ObsTrace [Enter Logger; Enter (User 1); Enter (User 2); Run 1; Exit (User 2); Exit (User 1); Exit Logger] (Some NoRouteHandler);
          ObsTrace [Enter Logger; Enter (User 1); Enter (User 2); Exit (User 2); Exit (User 1); Exit Logger] (Some RedirectHandler);
          ObsTrace [Enter Logger; Enter (User 1); Run 2; Exit (User 1); Exit Logger] (Some NoMethodHandler);
          ObsTrace [Enter Logger; Enter (User 1); Exit (User 1); Exit Logger] (Some OptionsHandler);
          ObsTrace [Enter (User 8); Enter (User 9); Run 11; Exit (User 9); Exit (User 8)] None;
          ObsTrace [Run 11] None].
Proof. vm_compute. reflexivity. Qed.

(* routes_independent: two NewRoute calls on the router New built, interleaved in any way at the level of
   single appends and single element reads, under any growth policy: no call indexes out of range, a
   call that finishes has read exactly  globals ++ its own middleware, and a call that gets
   [cost] turns does finish. *)
Theorem routes_independent :
  forall (grow : nat -> nat -> nat) (gopts : list gopt) (h : heap) (g : slice),
    apply_globs grow heap0 nil_slice gopts = (h, g, true) ->
    forall (fa fb : list mwid) (sched : list bool),
      let st := crun grow (mkC h (start true g fa) (start true g fb)) sched in
      t_ph (c_a st) <> Crashed /\ t_ph (c_b st) <> Crashed /\
      (forall acc, t_ph (c_a st) = Done acc -> acc = contents h g ++ map mk_rt fa) /\
      (forall acc, t_ph (c_b st) = Done acc -> acc = contents h g ++ map mk_rt fb) /\
      (cost (s_len g) fa <= count_occ bool_dec sched true -> exists acc, t_ph (c_a st) = Done acc) /\
      (cost (s_len g) fb <= count_occ bool_dec sched false -> exists acc, t_ph (c_b st) = Done acc).
Proof. exact routes_independent_router. Qed.
Print Assumptions routes_independent.

(* the chains composed from such a list are the route's own, for any handler type *)
Theorem routes_independent_chains :
  forall (H : Type) (wrap : mwid -> H -> H) (base : H) (G : list (mwid * N)) (fs : list mwid),
    chains_of wrap base (map mk_glob G ++ map mk_rt fs) =
      (fold_right wrap base fs, fold_right wrap base (scoped G KRoute ++ fs)).
Proof. exact @chains_of_own. Qed.
Print Assumptions routes_independent_chains.

Example routes_independent_example :
  let '(h, g, ok) := apply_globs grow_double heap0 nil_slice [GMw [Some (User 1); Some (User 2); Some (User 3)]] in
  ok = true /\ (s_len g, s_cap g) = (3, 4) /\
  t_ph (c_a (crun grow_double (mkC h (start true g [User 10]) (start true g [User 20])) w_sched))
    = Done (contents h g ++ [mkMw (User 10) RouteHandler false]).
Proof. vm_compute. auto. Qed.

(* without the clip (the code before commit 5ad3f81) the statement is false: three global middleware give
   len 3 cap 4 under doubling, both calls append into slot 3, and route A is composed with B's middleware *)
Theorem routes_independent_unclipped_refuted :
  exists (gopts : list gopt) (h : heap) (g : slice) (fa fb : list mwid) (sched : list bool) (acc : list mw),
    apply_globs grow_double heap0 nil_slice gopts = (h, g, true) /\
    t_ph (c_a (crun grow_double (mkC h (start false g fa) (start false g fb)) sched)) = Done acc /\
    acc = contents h g ++ map mk_rt fb /\ acc <> contents h g ++ map mk_rt fa.
Proof. exact ProofsIndep.routes_independent_unclipped_refuted. Qed.
Print Assumptions routes_independent_unclipped_refuted.

(* DefaultOptions pushes Recovery (route scope) and Logger (all scopes) in front of whatever is registered *)
Theorem default_options_prepend :
  forall (grow : nat -> nat -> nat) (h : heap) (s : slice) (h' : heap) (s' : slice) (ok : bool),
    wf h s -> apply_glob grow h s GDefault = (h', s', ok) ->
    ok = true /\ wf h' s' /\
    contents h' s' = mkMw Recovery RouteHandler true :: mkMw Logger AllHandlers true :: contents h s.
Proof. exact ProofsIndep.default_options_prepend. Qed.
Print Assumptions default_options_prepend.
