(* C13, tie A (docs/GenC13.md): HAND-WRITTEN, TRUSTED meaning of the primitives harness/cmd/mwgen emits into GenMw.v.
   Nothing here is specific to one Go function: counting loops over a slice, the records the two constructors fill,
   one setter per handler / middleware field.  Types are those of Model.v / GoSlice.v / Types.v. *)
From FoxBase Require Import Bytes.
From FoxC13 Require Import GoSlice Types Model.

(* for i := n - 1; i >= 0; i-- { st = body i st }     None = the body panicked (index out of range) *)
Fixpoint for_down {St : Type} (n : nat) (body : nat -> St -> option St) (st : St) : option St :=
  match n with
  | 0 => Some st
  | S j => match body j st with None => None | Some st' => for_down j body st' end
  end.

(* for i := 0; i < n; i++ { .. }   and   for i := range s { .. }   (k = next index, n = iterations left) *)
Fixpoint for_up_from {St : Type} (k n : nat) (body : nat -> St -> option St) (st : St) : option St :=
  match n with
  | 0 => Some st
  | S m => match body k st with None => None | Some st' => for_up_from (S k) m body st' end
  end.
Definition for_up {St : Type} (n : nat) (body : nat -> St -> option St) (st : St) : option St := for_up_from 0 n body st.

(* the part of *Router that New fills and C13 is about: the middleware slice (with the heap it lives in) and the five
   handler fields.  H = handlers; a nil handler is an explicit value nil_h given by the user of the record *)
Record grec (H : Type) := mkG {
  g_heap : @heap mw; g_mws : slice;
  g_noRouteBase : H; g_noRoute : H; g_noMethod : H; g_tsrRedirect : H; g_autoOptions : H }.
Arguments mkG {H}. Arguments g_heap {H}. Arguments g_mws {H}. Arguments g_noRouteBase {H}. Arguments g_noRoute {H}.
Arguments g_noMethod {H}. Arguments g_tsrRedirect {H}. Arguments g_autoOptions {H}.

(* new(Router): nil slice over the initial heap, every handler field nil *)
Definition router_zero {H} (nil_h : H) : grec H := mkG heap0 nil_slice nil_h nil_h nil_h nil_h nil_h.

Definition set_g_noRouteBase {H} (v : H) (st : grec H) : grec H :=
  mkG (g_heap st) (g_mws st) v (g_noRoute st) (g_noMethod st) (g_tsrRedirect st) (g_autoOptions st).
Definition set_g_noRoute {H} (v : H) (st : grec H) : grec H :=
  mkG (g_heap st) (g_mws st) (g_noRouteBase st) v (g_noMethod st) (g_tsrRedirect st) (g_autoOptions st).
Definition set_g_noMethod {H} (v : H) (st : grec H) : grec H :=
  mkG (g_heap st) (g_mws st) (g_noRouteBase st) (g_noRoute st) v (g_tsrRedirect st) (g_autoOptions st).
Definition set_g_tsrRedirect {H} (v : H) (st : grec H) : grec H :=
  mkG (g_heap st) (g_mws st) (g_noRouteBase st) (g_noRoute st) (g_noMethod st) v (g_autoOptions st).
Definition set_g_autoOptions {H} (v : H) (st : grec H) : grec H :=
  mkG (g_heap st) (g_mws st) (g_noRouteBase st) (g_noRoute st) (g_noMethod st) (g_tsrRedirect st) v.

(* the part of *Route that NewRoute fills *)
Record rrec (H : Type) := mkR { rr_heap : @heap mw; rr_mws : slice; rr_hbase : H; rr_hself : H; rr_hall : H }.
Arguments mkR {H}. Arguments rr_heap {H}. Arguments rr_mws {H}. Arguments rr_hbase {H}. Arguments rr_hself {H}. Arguments rr_hall {H}.

(* &Route{}: before the keyed fields are stored; hp = the heap the router's slice lives in *)
Definition route_zero {H} (nil_h : H) (hp : @heap mw) : rrec H := mkR hp nil_slice nil_h nil_h nil_h.

Definition set_rr_mws {H} (v : slice) (st : rrec H) : rrec H := mkR (rr_heap st) v (rr_hbase st) (rr_hself st) (rr_hall st).
Definition set_rr_hbase {H} (v : H) (st : rrec H) : rrec H := mkR (rr_heap st) (rr_mws st) v (rr_hself st) (rr_hall st).
Definition set_rr_hself {H} (v : H) (st : rrec H) : rrec H := mkR (rr_heap st) (rr_mws st) (rr_hbase st) v (rr_hall st).
Definition set_rr_hall {H} (v : H) (st : rrec H) : rrec H := mkR (rr_heap st) (rr_mws st) (rr_hbase st) (rr_hself st) v.
