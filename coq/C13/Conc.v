(* Two NewRoute calls running concurrently on the same router, at the granularity
   of single slice operations.  After  rte.mws = <initial slice>  a call performs
     - one append per route middleware           (options.go:134; writes the heap)
     - one read mws[i] per element, last to first (applyRouteMiddleware, fox.go:869-877)
   and a schedule (list bool) says whose step comes next.  [clipped] selects the
   initial slice: fox.mws[:len:len] (the code as it is) or fox.mws (the code before
   commit 5ad3f81), so that the role of the clip is visible. *)
From FoxBase Require Import Bytes.
From FoxC13 Require Import GoSlice Types Model.

Inductive phase :=
| Appending (todo : list mw)
| Reading (i : nat) (acc : list mw)     (* elements i.. already read *)
| Done (acc : list mw)                   (* the list the handlers were composed from *)
| Crashed.                               (* index out of range *)

Record thread := mkThread { t_s : slice; t_ph : phase }.

Section Conc.
  Variable grow : nat -> nat -> nat.
  Notation heap := (@heap mw).

  Definition step_thread (h : heap) (t : thread) : heap * thread :=
    match t_ph t with
    | Appending [] => (h, mkThread (t_s t) (Reading (s_len (t_s t)) []))
    | Appending (x :: r) => let '(h', s') := append1 zero_mw grow h (t_s t) x in (h', mkThread s' (Appending r))
    | Reading 0 acc => (h, mkThread (t_s t) (Done acc))
    | Reading (S j) acc =>
        match index h (t_s t) j with
        | Some e => (h, mkThread (t_s t) (Reading j (e :: acc)))
        | None => (h, mkThread (t_s t) Crashed)
        end
    | Done _ | Crashed => (h, t)
    end.

  Definition start (clipped : bool) (rmws : slice) (fs : list mwid) : thread :=
    mkThread (if clipped then clip rmws else rmws) (Appending (map (fun f => mkMw f RouteHandler false) fs)).

  Record cstate := mkC { c_h : heap; c_a : thread; c_b : thread }.

  Definition cstep (st : cstate) (who : bool) : cstate :=
    if who then let '(h', a') := step_thread (c_h st) (c_a st) in mkC h' a' (c_b st)
    else let '(h', b') := step_thread (c_h st) (c_b st) in mkC h' (c_a st) b'.

  Fixpoint crun (st : cstate) (sched : list bool) : cstate :=
    match sched with [] => st | w :: r => crun (cstep st w) r end.

  (* number of steps a call needs: one per append, one to switch, one per read, one to finish *)
  Definition cost (nglob : nat) (fs : list mwid) : nat := List.length fs + 1 + (nglob + List.length fs) + 1.
End Conc.

(* the route chains composed from the list a call has read (applyRouteMiddleware's result) *)
Definition chains_of {H} (wrap : mwid -> H -> H) (base : H) (l : list mw) : H * H :=
  (fold_right wrap base (map m_f (filter (fun e => negb (N.eqb (N.land (m_scope e) RouteHandler) 0) && negb (m_g e)) l)),
   fold_right wrap base (map m_f (filter (fun e => negb (N.eqb (N.land (m_scope e) RouteHandler) 0)) l))).

(* Go's doubling, enough for the witness *)
Definition grow_double (oldcap need : nat) : nat := 2 * oldcap.
