(* C13 model: a transliteration of
     options.go  WithMiddleware (119-139), WithMiddlewareFor (146-156), DefaultOptions (285-294)
     fox.go      New (139-162), NewRoute (338-363), applyMiddleware / applyRouteMiddleware (856-879)
     txn.go      Handle (25-49), Update (88-114)       route.go  Handle / HandleMiddleware (18-28)
     fox.go      ServeHTTP: which composed handler a request of each kind reaches, and the scope it sets
   over Go slices (GoSlice.v).  Handlers are values of an arbitrary type H and a
   middleware function f acts on them as [wrap f]; the case files instantiate H with event traces. *)
From FoxBase Require Import Bytes.
From FoxC13 Require Import GoSlice Types.

(* type middleware struct { m MiddlewareFunc; scope HandlerScope; g bool }   fox.go:130-134 *)
Record mw := mkMw { m_f : mwid; m_scope : N; m_g : bool }.
Definition zero_mw := mkMw (User 0) 0%N false.

Inductive outcome (A : Type) := Ok (a : A) | Err (e : err) | Panic.
Arguments Ok {A} a. Arguments Err {A} e. Arguments Panic {A}.

Section Model.
  Variable H : Type.
  Variable wrap : mwid -> H -> H.      (* mws[i].m(h) *)
  Variable special : kind -> H.        (* DefaultNotFoundHandler, DefaultMethodNotAllowedHandler, defaultRedirectTrailingSlashHandler, DefaultOptionsHandler *)
  Variable custom : kind -> H.         (* handlers given with WithNoRouteHandler / WithNoMethodHandler / WithOptionsHandler *)
  Variable route_h : nat -> H.         (* user handler number hid *)
  Variable grow : nat -> nat -> nat.   (* runtime growth policy of append *)

  Notation heap := (@heap mw).
  Notation append1 := (append1 zero_mw grow).
  Notation append_list := (append_list zero_mw grow).

  (* for i := range m { if m[i] == nil { return err }; mws = append(mws, middleware{m[i], scope, g}) }
     the boolean is false when a nil middleware stopped the loop (elements before it stay appended) *)
  Fixpoint append_mws (h : heap) (s : slice) (ms : list (option mwid)) (scope : N) (g : bool) : heap * slice * bool :=
    match ms with
    | [] => (h, s, true)
    | None :: _ => (h, s, false)
    | Some f :: r => let '(h', s') := append1 h s (mkMw f scope g) in append_mws h' s' r scope g
    end.

  Definition default_lit : list mw := [mkMw Recovery RouteHandler true; mkMw Logger AllHandlers true].

  (* opt.applyGlob(sealedOption{router: r}) restricted to router.mws *)
  Definition apply_glob (h : heap) (s : slice) (o : gopt) : heap * slice * bool :=
    match o with
    | GMw ms => append_mws h s ms AllHandlers true
    | GMwFor sc ms => append_mws h s ms sc true
    | GDefault =>
        (* append([]middleware{{Recovery(), RouteHandler, true}, {Logger(), AllHandlers, true}}, s.router.mws...) *)
        let h1 := h ++ [default_lit] in
        let lit := mkSlice (List.length h) 0 2 2 in
        let '(h2, s2) := append_list h1 lit (contents h1 s) in
        (h2, s2, true)
    | GOther | GFlag _ _ | GCustomH _ => (h, s, true)       (* no effect on router.mws *)
    end.

  Fixpoint apply_globs (h : heap) (s : slice) (opts : list gopt) : heap * slice * bool :=
    match opts with
    | [] => (h, s, true)
    | o :: r => let '(h', s', ok) := apply_glob h s o in
                if ok then apply_globs h' s' r else (h', s', false)
    end.

  (* applyMiddleware: for i := len(mws)-1; i >= 0; i-- { if mws[i].scope&scope != 0 { m = mws[i].m(m) } }
     [i] counts the elements still to visit; None = index out of range *)
  Fixpoint apply_mw_from (h : heap) (s : slice) (i : nat) (scope : N) (m : H) : option H :=
    match i with
    | 0 => Some m
    | S j => match index h s j with
             | None => None
             | Some e => apply_mw_from h s j scope (if N.eqb (N.land (m_scope e) scope) 0 then m else wrap (m_f e) m)
             end
    end.
  Definition apply_middleware (h : heap) (s : slice) (scope : N) (base : H) : option H :=
    apply_mw_from h s (s_len s) scope base.

  (* applyRouteMiddleware *)
  Fixpoint apply_route_from (h : heap) (s : slice) (i : nat) (rte all : H) : option (H * H) :=
    match i with
    | 0 => Some (rte, all)
    | S j => match index h s j with
             | None => None
             | Some e =>
                 if N.eqb (N.land (m_scope e) RouteHandler) 0 then apply_route_from h s j rte all
                 else apply_route_from h s j (if m_g e then rte else wrap (m_f e) rte) (wrap (m_f e) all)
             end
    end.
  Definition apply_route_middleware (h : heap) (s : slice) (base : H) : option (H * H) :=
    apply_route_from h s (s_len s) base base.

  Record router := mkRouter { r_mws : slice; r_noRoute : H; r_noMethod : H; r_tsr : H; r_auto : H; r_cfg : cfg }.
  Record route := mkRoute { rt_mws : slice; rt_hbase : H; rt_hself : H; rt_hall : H; rt_flags : bool * bool (* redirect, ignore *) }.

  (* the heap every router starts from: array 0 is an empty array standing for the nil slice's (absent) backing store *)
  Definition heap0 : heap := [[]].

  (* fox.New *)
  Definition new (opts : list gopt) : heap * outcome router :=
    let '(h, s, ok) := apply_globs heap0 nil_slice opts in
    if negb ok then (h, Err ErrInvalidConfig) else
    let base k := if custom_of opts k then custom k else special k in
    (* the four chains are composed whatever the feature flags are: a route may enable the redirect on its own *)
    match apply_middleware h s NoRouteHandler (base KNoRoute),
          apply_middleware h s NoMethodHandler (base KNoMethod),
          apply_middleware h s RedirectHandler (special KRedirect),
          apply_middleware h s OptionsHandler (base KOptions) with
    | Some nr, Some nm, Some ts, Some au => (h, Ok (mkRouter s nr nm ts au (cfg_of opts)))
    | _, _, _, _ => (h, Panic)
    end.

  (* Router.NewRoute restricted to middleware: clip, apply the route options, compose *)
  Definition new_route (h : heap) (r : router) (hid : nat) (ms : list (option mwid)) (ts : list tsopt) : heap * outcome route :=
    let s0 := clip (r_mws r) in                                  (* fox.mws[:len(fox.mws):len(fox.mws)] *)
    let '(h1, s1, ok) := append_mws h s0 ms RouteHandler false in
    if negb ok then (h1, Err ErrInvalidConfig) else
    match apply_route_middleware h1 s1 (route_h hid) with
    | None => (h1, Panic)
    | Some (rte, all) => (h1, Ok (mkRoute s1 (route_h hid) rte all (route_flags (r_cfg r) ts)))
    end.

  (* the registered routes, keyed like the tree by (method, pattern) = key *)
  Definition table := list (nat * route).
  Fixpoint lookup (key : nat) (t : table) : option route :=
    match t with [] => None | (k, v) :: r => if Nat.eqb k key then Some v else lookup key r end.
  Fixpoint replace (key : nat) (v : route) (t : table) : table :=
    match t with [] => [] | (k, w) :: r => if Nat.eqb k key then (k, v) :: r else (k, w) :: replace key v r end.

  Record state := mkState { st_h : heap; st_r : router; st_tab : table }.

  (* what the model shows for one operation; for Handle/Update also how the new route's
     slice relates to the router's (same backing array?  len, cap) *)
  Inductive mobs :=
  | MErr (e : option err) (shared : bool) (len cap : nat)
  | MH (h : H) (scope : option N)      (* composed handler that runs; scope ServeHTTP stored in the context *)
  | MNoRoute
  | MPanic.

  Definition alias_info (r : router) (rt : route) : bool * nat * nat :=
    (Nat.eqb (s_arr (rt_mws rt)) (s_arr (r_mws r)) && Nat.eqb (s_off (rt_mws rt)) (s_off (r_mws r)),
     s_len (rt_mws rt), s_cap (rt_mws rt)).

  (* ServeHTTP: the composed handler a request reaches and the scope stored in the context *)
  Definition serve (st : state) (s : shape) (key : nat) : H * N :=
    let rt := lookup key (st_tab st) in
    match dispatch (r_cfg (st_r st)) (option_map rt_flags rt) s, rt with
    | KRoute, Some rt => (rt_hall rt, RouteHandler)                 (* c.reset sets RouteHandler; n.route.hall(c) *)
    | KNoMethod, _ => (r_noMethod (st_r st), NoMethodHandler)
    | KRedirect, _ => (r_tsr (st_r st), RedirectHandler)
    | KOptions, _ => (r_auto (st_r st), OptionsHandler)
    | _, _ => (r_noRoute (st_r st), NoRouteHandler)
    end.

  Definition run_op (st : state) (o : op) : state * mobs :=
    match o with
    | OHandle key hid ms ts =>
        match new_route (st_h st) (st_r st) hid ms ts with
        | (h1, Err e) => (mkState h1 (st_r st) (st_tab st), MErr (Some e) false 0 0)
        | (h1, Panic) => (mkState h1 (st_r st) (st_tab st), MPanic)
        | (h1, Ok rt) =>
            match lookup key (st_tab st) with
            | Some _ => (mkState h1 (st_r st) (st_tab st), MErr (Some ErrRouteExist) false 0 0)
            | None => let '(sh, l, c) := alias_info (st_r st) rt in
                      (mkState h1 (st_r st) ((key, rt) :: st_tab st), MErr None sh l c)
            end
        end
    | OUpdate key hid ms ts =>
        match new_route (st_h st) (st_r st) hid ms ts with
        | (h1, Err e) => (mkState h1 (st_r st) (st_tab st), MErr (Some e) false 0 0)
        | (h1, Panic) => (mkState h1 (st_r st) (st_tab st), MPanic)
        | (h1, Ok rt) =>
            match lookup key (st_tab st) with
            | None => (mkState h1 (st_r st) (st_tab st), MErr (Some ErrRouteNotFound) false 0 0)
            | Some _ => let '(sh, l, c) := alias_info (st_r st) rt in
                        (mkState h1 (st_r st) (replace key rt (st_tab st)), MErr None sh l c)
            end
        end
    | OServe s key => let '(hd, sc) := serve st s key in (st, MH hd (Some sc))
    | ORouteHandle key =>
        (st, match lookup key (st_tab st) with Some rt => MH (rt_hbase rt) None | None => MNoRoute end)
    | ORouteHandleMw key =>
        (st, match lookup key (st_tab st) with Some rt => MH (rt_hself rt) None | None => MNoRoute end)
    end.

  Fixpoint run_ops (st : state) (ops : list op) : list mobs :=
    match ops with
    | [] => []
    | o :: r => let '(st', b) := run_op st o in b :: run_ops st' r
    end.

  Inductive mresult := MNewErr (e : err) | MRun (r : router) (h : heap) (os : list mobs) | MNewPanic.

  Definition run_model (gopts : list gopt) (ops : list op) : mresult :=
    match new gopts with
    | (_, Err e) => MNewErr e
    | (_, Panic) => MNewPanic
    | (h, Ok r) => MRun r h (run_ops (mkState h r []) ops)
    end.
End Model.

(* ---- instance used for observation: handlers are event traces ---- *)
Definition twrap (f : mwid) (h : trace) : trace := Enter f :: h ++ [Exit f].
Definition troute (hid : nat) : trace := [Run hid].

(* projection of the model's result on what can be observed *)
Definition pobs (m : mobs trace) : obs :=
  match m with
  | MErr _ e _ _ _ => ObsErr e
  | MH _ t (Some sc) => ObsTrace t (match t with [] => None | _ => Some sc end)
  | MH _ t None => ObsTrace t None
  | MNoRoute _ => ObsNoRoute
  | MPanic _ => ObsNoRoute
  end.
Definition has_panic (m : mobs trace) : bool := match m with MPanic _ => true | _ => false end.

Definition run_traces (grow : nat -> nat -> nat) (gopts : list gopt) (ops : list op) : mresult trace :=
  run_model trace twrap (fun _ => []) base_trace troute grow gopts ops.

Definition project (r : mresult trace) : result :=
  match r with
  | MNewErr _ e => RNewErr e
  | MNewPanic _ => RPanic
  | MRun _ _ _ os => if existsb has_panic os then RPanic else RRun (map pobs os)
  end.
