(* chain_exact: the model's composed handlers are exactly what the specification says. *)
From FoxBase Require Import Bytes.
From FoxC13 Require Import GoSlice Types Spec Model ProofsSlice.
From Coq Require Import Lia.

Local Notation length := List.length.

(* ---------- scope test: mask & constant <> 0  <->  the constant's bit is set ---------- *)
Lemma land_pow2_eqb (s n : N) : N.eqb (N.land s (2 ^ n)) 0 = negb (N.testbit s n).
Proof.
  destruct (N.testbit s n) eqn:Hb; cbn [negb].
  - apply N.eqb_neq. intros Hz.
    assert (Hn : N.testbit (N.land s (2 ^ n)) n = true)
      by (rewrite N.land_spec, Hb, N.pow2_bits_true; reflexivity).
    rewrite Hz, N.bits_0 in Hn. discriminate.
  - apply N.eqb_eq. apply N.bits_inj. intros m. rewrite N.land_spec, N.bits_0, N.pow2_bits_eqb.
    destruct (N.eqb_spec n m) as [->|Hne]; [rewrite Hb|]; auto using andb_false_r.
Qed.

Lemma scope_const_pow2 k : scope_const k = (2 ^ N.log2 (scope_const k))%N.
Proof. destruct k; reflexivity. Qed.

Lemma scope_test (s : N) (k : kind) : N.eqb (N.land s (scope_const k)) 0 = negb (includes s k).
Proof. unfold includes. rewrite (scope_const_pow2 k) at 1. apply land_pow2_eqb. Qed.

(* ---------- small list facts ---------- *)
Lemma firstn_S_nth {B} (l : list B) j e : nth_error l j = Some e -> firstn (S j) l = firstn j l ++ [e].
Proof.
  revert j; induction l as [|y l IH]; intros [|j] Hn; simpl in *; try discriminate.
  - congruence.
  - f_equal. apply IH; assumption.
Qed.

Lemma somes_app a b : somes (a ++ b) = somes a ++ somes b.
Proof. induction a as [|[f|] a IH]; simpl; congruence. Qed.

(* ---------- traces ---------- *)
Lemma fold_twrap fs h : fold_right twrap h fs = expected fs h.
Proof.
  unfold expected. induction fs as [|f fs IH]; simpl.
  - symmetry; apply app_nil_r.
  - rewrite IH. unfold twrap. rewrite map_app. simpl. rewrite <- !app_assoc. reflexivity.
Qed.

Section Chain.
  Variable H : Type.
  Variable wrap : mwid -> H -> H.
  Variable special : kind -> H.
  Variable route_h : nat -> H.
  Variable grow : nat -> nat -> nat.

  Notation heap := (@heap mw).

  Definition sel (scope : N) (e : mw) : bool := negb (N.eqb (N.land (m_scope e) scope) 0).
  Definition wrap_sel (scope : N) (e : mw) (m : H) : H := if N.eqb (N.land (m_scope e) scope) 0 then m else wrap (m_f e) m.

  Lemma fold_wrap_sel scope m l :
    fold_right (wrap_sel scope) m l = fold_right wrap m (map m_f (filter (sel scope) l)).
  Proof.
    induction l as [|e l IH]; simpl; auto. unfold wrap_sel at 1, sel at 1.
    destruct (N.eqb _ 0); simpl; congruence.
  Qed.

  (* applyMiddleware visits the slice from the last element to the first *)
  Lemma apply_mw_from_spec (h : heap) s scope i m :
    i <= s_len s -> wf h s ->
    apply_mw_from H wrap h s i scope m = Some (fold_right (wrap_sel scope) m (firstn i (contents h s))).
  Proof.
    intros Hi Hwf. revert m. induction i as [|j IH]; intros m; cbn [apply_mw_from]; auto.
    rewrite index_contents. destruct (Nat.ltb_spec j (s_len s)) as [Hlt|]; [|lia].
    destruct (nth_error (contents h s) j) as [e|] eqn:Hn.
    - rewrite IH by lia. rewrite (firstn_S_nth _ _ _ Hn), fold_right_app. reflexivity.
    - apply nth_error_None in Hn. rewrite contents_length in Hn by assumption. lia.
  Qed.

  Lemma apply_middleware_spec (h : heap) s scope base :
    wf h s ->
    apply_middleware H wrap h s scope base = Some (fold_right wrap base (map m_f (filter (sel scope) (contents h s)))).
  Proof.
    intros Hwf. unfold apply_middleware. rewrite apply_mw_from_spec by (auto; lia).
    rewrite <- (contents_length h s Hwf), firstn_all. f_equal. apply fold_wrap_sel.
  Qed.

  Definition rsel (e : mw) : bool := sel RouteHandler e && negb (m_g e).
  Definition wrap_r (e : mw) (m : H) : H :=
    if N.eqb (N.land (m_scope e) RouteHandler) 0 then m else if m_g e then m else wrap (m_f e) m.

  Lemma fold_wrap_r m l : fold_right wrap_r m l = fold_right wrap m (map m_f (filter rsel l)).
  Proof.
    induction l as [|e l IH]; simpl; auto. unfold wrap_r at 1, rsel at 1, sel.
    destruct (N.eqb _ 0); simpl; [congruence|]. destruct (m_g e); simpl; congruence.
  Qed.

  Lemma apply_route_from_spec (h : heap) s i rte all :
    i <= s_len s -> wf h s ->
    apply_route_from H wrap h s i rte all =
      Some (fold_right wrap_r rte (firstn i (contents h s)),
            fold_right (wrap_sel RouteHandler) all (firstn i (contents h s))).
  Proof.
    intros Hi Hwf. revert rte all. induction i as [|j IH]; intros rte all; cbn [apply_route_from]; auto.
    rewrite index_contents. destruct (Nat.ltb_spec j (s_len s)) as [Hlt|]; [|lia].
    destruct (nth_error (contents h s) j) as [e|] eqn:Hn.
    - rewrite (firstn_S_nth _ _ _ Hn), !fold_right_app. cbn [fold_right].
      unfold wrap_r at 2, wrap_sel at 2.
      destruct (N.eqb (N.land (m_scope e) RouteHandler) 0); rewrite IH by lia; reflexivity.
    - apply nth_error_None in Hn. rewrite contents_length in Hn by assumption. lia.
  Qed.

  Lemma apply_route_middleware_spec (h : heap) s base :
    wf h s ->
    apply_route_middleware H wrap h s base =
      Some (fold_right wrap base (map m_f (filter rsel (contents h s))),
            fold_right wrap base (map m_f (filter (sel RouteHandler) (contents h s)))).
  Proof.
    intros Hwf. unfold apply_route_middleware. rewrite apply_route_from_spec by (auto; lia).
    rewrite <- (contents_length h s Hwf), firstn_all. rewrite fold_wrap_r, fold_wrap_sel. reflexivity.
  Qed.

  (* ---------- option application ---------- *)
  Lemma append_mws_spec (h : heap) s ms scope g h' s' ok :
    wf h s -> append_mws grow h s ms scope g = (h', s', ok) ->
    wf h' s' /\ length h <= length h' /\ ok = negb (has_nil ms) /\
    (ok = true -> contents h' s' = contents h s ++ map (fun f => mkMw f scope g) (somes ms)).
  Proof.
    revert h s. induction ms as [|[f|] ms IH]; intros h s Hwf Hrun; simpl in Hrun.
    - inversion Hrun; subst. rewrite app_nil_r. auto.
    - destruct (append1 zero_mw grow h s (mkMw f scope g)) as [h1 s1] eqn:Ha.
      pose proof (append_list_spec zero_mw grow h s [mkMw f scope g] Hwf) as Hs.
      pose proof (append_list_heap_length zero_mw grow h s [mkMw f scope g]) as Hl.
      unfold append1 in Ha. rewrite Ha in Hs, Hl. cbn [fst snd] in Hs, Hl. destruct Hs as (Hwf1 & Hc1 & _).
      destruct (IH h1 s1 Hwf1 Hrun) as (Hwf' & Hl' & Hok & Hc').
      split; [assumption|]. split; [lia|]. split; [simpl; assumption|].
      intros Ht. rewrite (Hc' Ht), Hc1. simpl. rewrite <- app_assoc. reflexivity.
    - inversion Hrun; subst. split; [assumption|]. split; [lia|]. split; [reflexivity|]. intros Hf; discriminate Hf.
  Qed.

  (* arrays that a run of appends leaves untouched: any array other than the slice's own,
     and the slice's own array when the slice is full (the first append must reallocate) *)
  Lemma append_mws_frame (h : heap) s ms scope g h' s' ok a :
    wf h s -> append_mws grow h s ms scope g = (h', s', ok) ->
    a < length h -> (a <> s_arr s \/ s_cap s <= s_len s) ->
    arr_of h' a = arr_of h a.
  Proof.
    revert h s. induction ms as [|[f|] ms IH]; intros h s Hwf Hrun Ha Hp; simpl in Hrun.
    - inversion Hrun; subst; reflexivity.
    - destruct (append1 zero_mw grow h s (mkMw f scope g)) as [h1 s1] eqn:Happ.
      pose proof (append_list_spec zero_mw grow h s [mkMw f scope g] Hwf) as Hs.
      pose proof (append_list_arr zero_mw grow h s [mkMw f scope g]) as Hw.
      pose proof (append_list_frame zero_mw grow h s [mkMw f scope g] a Ha) as Hf.
      unfold append1 in Happ. rewrite Happ in Hs, Hw, Hf. cbn [fst snd length] in Hs, Hw, Hf.
      destruct Hs as (Hwf1 & _ & _).
      rewrite (IH h1 s1 Hwf1 Hrun).
      + apply Hf. destruct Hp; [left; assumption | right; lia].
      + destruct Hw as [(_ & _ & ->)|(_ & _ & ->)]; lia.
      + left. destruct Hw as [(Hfit & -> & _)|(_ & -> & _)]; [|lia].
        destruct Hp; [assumption | lia].
    - inversion Hrun; subst; reflexivity.
  Qed.

  Definition mk_glob (p : mwid * N) : mw := mkMw (fst p) (snd p) true.

  Lemma apply_glob_spec (h : heap) s o acc h' s' ok :
    wf h s -> contents h s = map mk_glob acc -> apply_glob grow h s o = (h', s', ok) ->
    wf h' s' /\
    match spec_globals [o] acc with
    | Some G => ok = true /\ contents h' s' = map mk_glob G
    | None => ok = false
    end.
  Proof.
    intros Hwf Hc Hrun. destruct o as [ms|sc ms| | |f b|k]; simpl in Hrun |- *.
    - destruct (append_mws_spec _ _ _ _ _ _ _ _ Hwf Hrun) as (Hwf' & _ & Hok & Hc').
      split; auto. destruct (has_nil ms); simpl in Hok; subst ok; auto. split; auto.
      rewrite Hc' by reflexivity. rewrite Hc, map_app, map_map. reflexivity.
    - destruct (append_mws_spec _ _ _ _ _ _ _ _ Hwf Hrun) as (Hwf' & _ & Hok & Hc').
      split; auto. destruct (has_nil ms); simpl in Hok; subst ok; auto. split; auto.
      rewrite Hc' by reflexivity. rewrite Hc, map_app, map_map. reflexivity.
    - set (h1 := h ++ [default_lit]) in *. set (lit := mkSlice (length h) 0 2 2) in *.
      destruct (append_list zero_mw grow h1 lit (contents h1 s)) as [h2 s2] eqn:Happ.
      inversion Hrun; subst h' s' ok; clear Hrun.
      assert (Hwl : wf h1 lit).
      { unfold wf, lit, h1; cbn [s_arr s_off s_len s_cap]. rewrite arr_app_new, app_length. cbn. lia. }
      pose proof (append_list_spec zero_mw grow h1 lit (contents h1 s) Hwl) as Hs.
      rewrite Happ in Hs. cbn [fst snd] in Hs. destruct Hs as (Hwf2 & Hc2 & _).
      split; auto. split; auto. rewrite Hc2.
      assert (Hl : contents h1 lit = default_lit).
      { unfold contents, lit, h1; cbn [s_arr s_off s_len]. rewrite arr_app_new. reflexivity. }
      rewrite Hl. destruct Hwf as (Hlt & _). rewrite (contents_same_arr h h1 s) by (apply arr_app_old; assumption).
      rewrite Hc. reflexivity.
    - inversion Hrun; subst. auto.
    - inversion Hrun; subst. auto.
    - inversion Hrun; subst. auto.
  Qed.

  Lemma spec_globals_cons o r acc :
    spec_globals (o :: r) acc = match spec_globals [o] acc with Some a => spec_globals r a | None => None end.
  Proof. destruct o as [ms|sc ms| | |f b|k]; simpl; try destruct (has_nil ms); reflexivity. Qed.

  Lemma apply_globs_spec opts : forall (h : heap) s acc h' s' ok,
    wf h s -> contents h s = map mk_glob acc -> apply_globs grow h s opts = (h', s', ok) ->
    wf h' s' /\
    match spec_globals opts acc with
    | Some G => ok = true /\ contents h' s' = map mk_glob G
    | None => ok = false
    end.
  Proof.
    induction opts as [|o r IH]; intros h s acc h' s' ok Hwf Hc Hrun.
    - simpl in *. inversion Hrun; subst. auto.
    - cbn [apply_globs] in Hrun. destruct (apply_glob grow h s o) as [[h1 s1] ok1] eqn:Hg.
      destruct (apply_glob_spec _ _ _ _ _ _ _ Hwf Hc Hg) as (Hwf1 & Hm).
      rewrite spec_globals_cons. destruct (spec_globals [o] acc) as [a|].
      + destruct Hm as (-> & Hc1). apply (IH _ _ _ _ _ _ Hwf1 Hc1 Hrun).
      + subst ok1. inversion Hrun; subst. auto.
  Qed.

  Lemma wf_heap0 : wf (A:=mw) (heap0) nil_slice.
  Proof. unfold wf, heap0, nil_slice; cbn. lia. Qed.

  (* ---------- filters over the composed lists ---------- *)
  Lemma sel_glob k p : sel (scope_const k) (mk_glob p) = includes (snd p) k.
  Proof. unfold sel, mk_glob; cbn [m_scope]. rewrite scope_test. apply negb_involutive. Qed.

  Lemma filter_sel_globs k G :
    map m_f (filter (sel (scope_const k)) (map mk_glob G)) = scoped G k.
  Proof.
    unfold scoped. induction G as [|p G IH]; simpl; auto.
    rewrite sel_glob. destruct (includes (snd p) k); simpl; congruence.
  Qed.

  Definition mk_rt (f : mwid) : mw := mkMw f RouteHandler false.

  Lemma filter_sel_rts fs : map m_f (filter (sel RouteHandler) (map mk_rt fs)) = fs.
  Proof. induction fs as [|f fs IH]; simpl; auto. congruence. Qed.

  Lemma filter_rsel_globs G : filter rsel (map mk_glob G) = [].
  Proof. induction G as [|p G IH]; simpl; auto. unfold rsel at 1. cbn [m_g mk_glob]. rewrite andb_false_r. assumption. Qed.

  Lemma filter_rsel_rts fs : map m_f (filter rsel (map mk_rt fs)) = fs.
  Proof. induction fs as [|f fs IH]; simpl; auto. congruence. Qed.
End Chain.
