(* C13: the vocabulary shared by specification, model and case files: what the
   user writes (options, operations) and what can be observed (event traces). *)
From FoxBase Require Import Bytes.
From FoxC13 Require Export GenConsts.

(* identity of a middleware function: the two built-in ones DefaultOptions adds, or user function n *)
Inductive mwid := Recovery | Logger | User (n : nat).

Inductive kind := KRoute | KNoRoute | KNoMethod | KRedirect | KOptions.

(* the HandlerScope constant of a handler kind (values regenerated from fox.go) *)
Definition scope_const (k : kind) : N :=
  match k with
  | KRoute => RouteHandler | KNoRoute => NoRouteHandler | KNoMethod => NoMethodHandler
  | KRedirect => RedirectHandler | KOptions => OptionsHandler
  end.

(* a middleware with identity f wrapping h emits  Enter f, <events of h>, Exit f;
   user handler number n emits Run n *)
Inductive ev := Enter (f : mwid) | Exit (f : mwid) | Run (h : nat).
Definition trace := list ev.

Inductive err := ErrInvalidConfig | ErrRouteExist | ErrRouteNotFound
  | ErrOther.   (* any other error class; never produced by specification or model *)

(* global options, as written in fox.New(...); None is a nil MiddlewareFunc *)
Inductive gopt :=
| GMw (ms : list (option mwid))                  (* WithMiddleware(ms...) *)
| GMwFor (scope : N) (ms : list (option mwid))   (* WithMiddlewareFor(scope, ms...) *)
| GDefault                                       (* DefaultOptions() *)
| GOther.                                        (* any option that does not register middleware *)

(* operations on a router; keys name (method, pattern) pairs *)
Inductive op :=
| OHandle (key hid : nat) (ms : list (option mwid))   (* Handle(key, handler hid, WithMiddleware(ms...)) *)
| OUpdate (key hid : nat) (ms : list (option mwid))   (* Update(...) *)
| OServe (k : kind) (key : nat)                       (* a request that reaches handler kind k (for route key) *)
| ORouteHandle (key : nat)                            (* Route.Handle of the registered route *)
| ORouteHandleMw (key : nat).                         (* Route.HandleMiddleware *)

(* what an operation shows: an error class (None = success), or the events of one
   request together with the scope the first emitter saw in Context.Scope() *)
Inductive obs :=
| ObsErr (e : option err)
| ObsTrace (t : trace) (seen : option N)
| ObsNoRoute                                          (* Route.Handle... on a key that is not registered *)
| ObsPanic.                                           (* the operation panicked; never produced by specification or model *)

(* result of a whole run: New failed / observations of the operations / something panicked *)
Inductive result := RNewErr (e : err) | RRun (os : list obs) | RPanic.

Definition mwid_eqb (a b : mwid) : bool :=
  match a, b with
  | Recovery, Recovery | Logger, Logger => true
  | User x, User y => Nat.eqb x y
  | _, _ => false
  end.
Definition ev_eqb (a b : ev) : bool :=
  match a, b with
  | Enter x, Enter y | Exit x, Exit y => mwid_eqb x y
  | Run x, Run y => Nat.eqb x y
  | _, _ => false
  end.
Definition err_eqb (a b : err) : bool :=
  match a, b with
  | ErrInvalidConfig, ErrInvalidConfig | ErrRouteExist, ErrRouteExist | ErrRouteNotFound, ErrRouteNotFound | ErrOther, ErrOther => true
  | _, _ => false
  end.
Definition obs_eqb (a b : obs) : bool :=
  match a, b with
  | ObsErr x, ObsErr y => opt_eqb err_eqb x y
  | ObsTrace t s, ObsTrace t' s' => list_eqb ev_eqb t t' && opt_eqb N.eqb s s'
  | ObsNoRoute, ObsNoRoute | ObsPanic, ObsPanic => true
  | _, _ => false
  end.

(* ids of the special base handlers the harness installs (they emit Run of these);
   the internal redirect handler emits nothing *)
Definition base_trace (k : kind) : trace :=
  match k with
  | KNoRoute => [Run 1] | KNoMethod => [Run 2] | KOptions => [Run 3] | KRedirect => [] | KRoute => []
  end.
