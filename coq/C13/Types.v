(* C13: the vocabulary shared by specification, model and case files: what the
   user writes (options, operations) and what can be observed (event traces). *)
From FoxBase Require Import Bytes.
From FoxC13 Require Export GenConsts.

(* identity of a middleware function: the two built-in ones DefaultOptions adds, or user function n *)
Inductive mwid := Recovery | Logger | User (n : nat).

Inductive kind := KRoute | KNoRoute | KNoMethod | KRedirect | KOptions.

(* the HandlerScope constant of a handler kind (values regenerated from fox.go) *)
Definition scope_const (k : kind) : N :=
  match k with
  | KRoute => RouteHandler | KNoRoute => NoRouteHandler | KNoMethod => NoMethodHandler
  | KRedirect => RedirectHandler | KOptions => OptionsHandler
  end.

(* a middleware with identity f wrapping h emits  Enter f, <events of h>, Exit f;
   user handler number n emits Run n *)
Inductive ev := Enter (f : mwid) | Exit (f : mwid) | Run (h : nat).
Definition trace := list ev.

Inductive err := ErrInvalidConfig | ErrRouteExist | ErrRouteNotFound
  | ErrOther.   (* any other error class; never produced by specification or model *)

Inductive flag := FRedirect | FIgnore | FNoMethod | FAutoOptions.

(* global options, as written in fox.New(...); None is a nil MiddlewareFunc *)
Inductive gopt :=
| GMw (ms : list (option mwid))                  (* WithMiddleware(ms...) *)
| GMwFor (scope : N) (ms : list (option mwid))   (* WithMiddlewareFor(scope, ms...) *)
| GDefault                                       (* DefaultOptions() *)
| GOther                                         (* any option that neither registers middleware nor sets a flag below *)
| GFlag (f : flag) (b : bool)                    (* WithRedirectTrailingSlash / WithIgnoreTrailingSlash / WithNoMethod / WithAutoOptions (b) *)
| GCustomH (k : kind).                           (* WithNoRouteHandler / WithNoMethodHandler / WithOptionsHandler with a handler emitting Run; the last two also enable their feature *)

(* per-route trailing-slash options *)
Inductive tsopt := TRedirect (b : bool) | TIgnore (b : bool).

(* request shapes sent for route key (routes are registered under GET only) *)
Inductive shape :=
| SExact        (* GET, the registered path *)
| STsr          (* GET, that path plus a trailing slash *)
| SNoMatch      (* GET, a path nothing matches *)
| SPost         (* POST, the registered path *)
| SOptions.     (* OPTIONS, the registered path *)

(* operations on a router; keys name (method, pattern) pairs *)
Inductive op :=
| OHandle (key hid : nat) (ms : list (option mwid)) (ts : list tsopt)   (* Handle(key, handler hid, WithMiddleware(ms...), ts...) *)
| OUpdate (key hid : nat) (ms : list (option mwid)) (ts : list tsopt)   (* Update(...) *)
| OServe (s : shape) (key : nat)                      (* a request of shape s for route key *)
| ORouteHandle (key : nat)                            (* Route.Handle of the registered route *)
| ORouteHandleMw (key : nat).                         (* Route.HandleMiddleware *)

(* what an operation shows: an error class (None = success), or the events of one
   request together with the scope the first emitter saw in Context.Scope() *)
Inductive obs :=
| ObsErr (e : option err)
| ObsTrace (t : trace) (seen : option N)
| ObsNoRoute                                          (* Route.Handle... on a key that is not registered *)
| ObsPanic.                                           (* the operation panicked; never produced by specification or model *)

(* result of a whole run: New failed / observations of the operations / something panicked *)
Inductive result := RNewErr (e : err) | RRun (os : list obs) | RPanic.

Definition mwid_eqb (a b : mwid) : bool :=
  match a, b with
  | Recovery, Recovery | Logger, Logger => true
  | User x, User y => Nat.eqb x y
  | _, _ => false
  end.
Definition ev_eqb (a b : ev) : bool :=
  match a, b with
  | Enter x, Enter y | Exit x, Exit y => mwid_eqb x y
  | Run x, Run y => Nat.eqb x y
  | _, _ => false
  end.
Definition err_eqb (a b : err) : bool :=
  match a, b with
  | ErrInvalidConfig, ErrInvalidConfig | ErrRouteExist, ErrRouteExist | ErrRouteNotFound, ErrRouteNotFound | ErrOther, ErrOther => true
  | _, _ => false
  end.
Definition obs_eqb (a b : obs) : bool :=
  match a, b with
  | ObsErr x, ObsErr y => opt_eqb err_eqb x y
  | ObsTrace t s, ObsTrace t' s' => list_eqb ev_eqb t t' && opt_eqb N.eqb s s'
  | ObsNoRoute, ObsNoRoute | ObsPanic, ObsPanic => true
  | _, _ => false
  end.

(* ---- feature flags and dispatch.  Which handler kind ServeHTTP reaches is the subject of C08 / C11 and how the
   flags are set that of C19; both are reproduced here (shared by specification and model) because they decide
   WHICH composed chain a request runs through. ---- *)
Record cfg := mkCfg { c_redirect : bool; c_ignore : bool; c_noMethod : bool; c_autoOptions : bool }.
Definition cfg0 : cfg := mkCfg false false false false.

Definition cfg_gopt (c : cfg) (o : gopt) : cfg :=
  match o with
  | GFlag FRedirect b => mkCfg b (if b then false else c_ignore c) (c_noMethod c) (c_autoOptions c)
  | GFlag FIgnore b => mkCfg (if b then false else c_redirect c) b (c_noMethod c) (c_autoOptions c)
  | GFlag FNoMethod b => mkCfg (c_redirect c) (c_ignore c) b (c_autoOptions c)
  | GFlag FAutoOptions b => mkCfg (c_redirect c) (c_ignore c) (c_noMethod c) b
  | GCustomH KNoMethod => mkCfg (c_redirect c) (c_ignore c) true (c_autoOptions c)
  | GCustomH KOptions | GDefault => mkCfg (c_redirect c) (c_ignore c) (c_noMethod c) true
  | _ => c
  end.
Definition cfg_of (opts : list gopt) : cfg := fold_left cfg_gopt opts cfg0.

(* (redirect, ignore) of a route: the router's values when it is created, then its own options *)
Definition ts_step (f : bool * bool) (o : tsopt) : bool * bool :=
  match o with
  | TRedirect b => (b, if b then false else snd f)
  | TIgnore b => (if b then false else fst f, b)
  end.
Definition route_flags (c : cfg) (ts : list tsopt) : bool * bool := fold_left ts_step ts (c_redirect c, c_ignore c).

(* ServeHTTP for a tree holding GET routes only; rt = flags of the route registered under the key, if any *)
Definition dispatch (c : cfg) (rt : option (bool * bool)) (s : shape) : kind :=
  match rt with
  | None => KNoRoute
  | Some (redirect, ignore) =>
      match s with
      | SExact => KRoute
      | STsr => if ignore then KRoute else if redirect then KRedirect else KNoRoute
      | SNoMatch => KNoRoute
      | SPost => if c_noMethod c then KNoMethod else KNoRoute
      | SOptions => if c_autoOptions c then KOptions else if c_noMethod c then KNoMethod else KNoRoute
      end
  end.

Definition kind_eqb (a b : kind) : bool :=
  match a, b with
  | KRoute, KRoute | KNoRoute, KNoRoute | KNoMethod, KNoMethod | KRedirect, KRedirect | KOptions, KOptions => true
  | _, _ => false
  end.
(* did the option list install a custom handler for kind k *)
Definition custom_of (opts : list gopt) (k : kind) : bool :=
  existsb (fun o => match o with GCustomH k' => kind_eqb k' k | _ => false end) opts.

(* ids of the custom special handlers the harness installs (they emit Run of these);
   the default handlers and the internal redirect handler emit nothing *)
Definition base_trace (k : kind) : trace :=
  match k with
  | KNoRoute => [Run 1] | KNoMethod => [Run 2] | KOptions => [Run 3] | KRedirect => [] | KRoute => []
  end.
