(* C13, tie A (docs/GenC13.md): the hand-written composition model (Model.v) is equal, for all inputs, to the functions
   harness/cmd/mwgen regenerated from fox.go / route.go on this run (GenMw.v).  Hand-written; rebuilt on every run. *)
From FoxBase Require Import Bytes.
From FoxC13 Require Import GoSlice Types Spec Model ProofsSlice ProofsChain ProofsRun MwSem GenMw.
From Coq Require Import Lia.

Section Bridge.
  Variable H : Type.
  Variable wrap : mwid -> H -> H.
  Variable special : kind -> H.
  Variable custom : kind -> H.
  Variable route_h : nat -> H.
  Variable grow : nat -> nat -> nat.
  Variable nil_h : H.                   (* the nil handler of new(Router) / &Route{}: every field is stored before it is read *)

  Notation heap := (@heap mw).

  (* ---------- applyMiddleware: loop direction, scope test, which element wraps ---------- *)
  Lemma gen_applyMiddleware_eq_l (hp : heap) (scope : N) (s : slice) (base : H) :
    gen_applyMiddleware H wrap hp scope s base = apply_middleware H wrap hp s scope base.
  Proof.
    unfold gen_applyMiddleware, apply_middleware.
    match goal with |- match for_down _ ?b _ with _ => _ end = _ =>
      assert (E : forall n m, for_down n b m = apply_mw_from H wrap hp s n scope m) end.
    { induction n as [|j IH]; intros m; cbn [for_down apply_mw_from]; [reflexivity|].
      destruct (index hp s j) as [e|]; [|reflexivity].
      destruct (N.eqb (N.land (m_scope e) scope) 0); cbn; apply IH. }
    rewrite E. destruct (apply_mw_from H wrap hp s (s_len s) scope base); reflexivity.
  Qed.

  (* ---------- applyRouteMiddleware: both chains, the g flag ---------- *)
  Lemma gen_applyRouteMiddleware_eq_l (hp : heap) (s : slice) (base : H) :
    gen_applyRouteMiddleware H wrap hp s base = apply_route_middleware H wrap hp s base.
  Proof.
    unfold gen_applyRouteMiddleware, apply_route_middleware.
    match goal with |- match for_down _ ?b _ with _ => _ end = _ =>
      assert (E : forall n rte all, for_down n b (rte, all) = apply_route_from H wrap hp s n rte all) end.
    { induction n as [|j IH]; intros rte all; cbn [for_down apply_route_from]; [reflexivity|].
      destruct (index hp s j) as [e|]; [|reflexivity].
      destruct (N.eqb (N.land (m_scope e) RouteHandler) 0); destruct (m_g e); cbn; apply IH. }
    rewrite E. destruct (apply_route_from H wrap hp s (s_len s) base base) as [[a b]|]; reflexivity.
  Qed.

  (* ---------- New ---------- *)
  (* how Model.new reads the loop over the global options: the middleware slice grows (Model.apply_globs), a custom
     handler replaces the default in noRouteBase / noMethod / autoOptions (options.go WithNoRouteHandler,
     WithNoMethodHandler, WithOptionsHandler) *)
  Definition model_gopts (opts : list gopt) (st : grec H) : outcome (grec H) :=
    let '(h, s, ok) := apply_globs grow (g_heap st) (g_mws st) opts in
    if negb ok then Err ErrInvalidConfig else
    Ok (mkG h s (if custom_of opts KNoRoute then custom KNoRoute else g_noRouteBase st) (g_noRoute st)
            (if custom_of opts KNoMethod then custom KNoMethod else g_noMethod st) (g_tsrRedirect st)
            (if custom_of opts KOptions then custom KOptions else g_autoOptions st)).

  Definition router_of (opts : list gopt) (st : grec H) : router H :=
    mkRouter H (g_mws st) (g_noRoute st) (g_noMethod st) (g_tsrRedirect st) (g_autoOptions st) (cfg_of opts).

  Definition gen_new (opts : list gopt) : outcome (router H) :=
    match gen_New H wrap special nil_h (model_gopts opts) with
    | Ok st => Ok (router_of opts st) | Err e => Err e | Panic => Panic
    end.
  Definition new_heap (opts : list gopt) : heap := fst (fst (apply_globs grow heap0 nil_slice opts)).

  Lemma gen_new_eq_l (opts : list gopt) :
    new H wrap special custom grow opts = (new_heap opts, gen_new opts).
  Proof.
    unfold new, gen_new, gen_New, new_heap, model_gopts.
    cbn [router_zero g_heap g_mws set_g_noRouteBase set_g_noMethod set_g_autoOptions g_noRouteBase g_noRoute g_noMethod g_tsrRedirect g_autoOptions].
    destruct (apply_globs grow heap0 nil_slice opts) as [[h s] ok]. cbn [fst].
    destruct ok; cbn [negb]; [|reflexivity].
    rewrite !gen_applyMiddleware_eq_l.
    (* whatever the order of the four calls is: case analysis on each result *)
    repeat (cbn [g_heap g_mws set_g_noRouteBase set_g_noRoute set_g_noMethod set_g_tsrRedirect set_g_autoOptions
                 g_noRouteBase g_noRoute g_noMethod g_tsrRedirect g_autoOptions];
            rewrite ?gen_applyMiddleware_eq_l;
            match goal with
            | |- context [match apply_middleware H wrap ?a ?b ?c ?d with _ => _ end] => destruct (apply_middleware H wrap a b c d)
            end).
    all: reflexivity.
  Qed.

  (* ---------- NewRoute ---------- *)
  (* how Model.new_route reads the loop over the route options: WithMiddleware appends (RouteHandler, not global) entries *)
  Definition model_ropts (ms : list (option mwid)) (st : rrec H) : outcome (rrec H) :=
    let '(h1, s1, ok) := append_mws grow (rr_heap st) (rr_mws st) ms RouteHandler false in
    if negb ok then Err ErrInvalidConfig else Ok (mkR h1 s1 (rr_hbase st) (rr_hself st) (rr_hall st)).

  Definition route_of (flags : bool * bool) (st : rrec H) : route H :=
    mkRoute H (rr_mws st) (rr_hbase st) (rr_hself st) (rr_hall st) flags.
  Definition rrec_of (hp : heap) (rt : route H) : rrec H := mkR hp (rt_mws H rt) (rt_hbase H rt) (rt_hself H rt) (rt_hall H rt).

  Definition gen_new_route (h : heap) (r : router H) (hid : nat) (ms : list (option mwid)) (ts : list tsopt) : outcome (route H) :=
    match gen_NewRoute H wrap nil_h (model_ropts ms) h (r_mws H r) (route_h hid) with
    | Ok st => Ok (route_of (route_flags (r_cfg H r) ts) st) | Err e => Err e | Panic => Panic
    end.
  Definition new_route_heap (h : heap) (r : router H) (ms : list (option mwid)) : heap :=
    fst (fst (append_mws grow h (clip (r_mws H r)) ms RouteHandler false)).

  Lemma gen_new_route_eq_l (h : heap) (r : router H) (hid : nat) (ms : list (option mwid)) (ts : list tsopt) :
    new_route H wrap route_h grow h r hid ms ts = (new_route_heap h r ms, gen_new_route h r hid ms ts).
  Proof.
    unfold new_route, gen_new_route, gen_NewRoute, new_route_heap, model_ropts.
    cbn [route_zero set_rr_hbase set_rr_mws rr_heap rr_mws rr_hbase rr_hself rr_hall].
    destruct (append_mws grow h (clip (r_mws H r)) ms RouteHandler false) as [[h1 s1] ok]. cbn [fst].
    destruct ok; cbn [negb]; [|reflexivity].
    cbn [rr_heap rr_mws]. rewrite gen_applyRouteMiddleware_eq_l.
    destruct (apply_route_middleware H wrap h1 s1 (route_h hid)) as [[rte all]|]; reflexivity.
  Qed.

  (* ---------- Route.Handle / Route.HandleMiddleware ---------- *)
  Lemma gen_route_handle_eq_l (hp : heap) (rt : route H) :
    gen_Route_Handle H (rrec_of hp rt) = rt_hbase H rt /\ gen_Route_HandleMiddleware H (rrec_of hp rt) = rt_hself H rt.
  Proof. split; reflexivity. Qed.

  Lemma gen_run_route_handle_l (st : state H) (key : nat) :
    run_op H wrap route_h grow st (ORouteHandle key) =
      (st, match lookup H key (st_tab H st) with
           | Some rt => MH H (gen_Route_Handle H (rrec_of (st_h H st) rt)) None | None => MNoRoute H end) /\
    run_op H wrap route_h grow st (ORouteHandleMw key) =
      (st, match lookup H key (st_tab H st) with
           | Some rt => MH H (gen_Route_HandleMiddleware H (rrec_of (st_h H st) rt)) None | None => MNoRoute H end).
  Proof. split; reflexivity. Qed.

  (* ---------- the property's theorems over the generated definitions ---------- *)
  (* each special handler: exactly the middleware whose scope includes its kind, registration order *)
  Lemma gen_chain_exact_special_l (gopts : list gopt) :
    match spec_globals gopts [] with
    | None => gen_new gopts = Err ErrInvalidConfig
    | Some G => exists s,
        gen_new gopts =
          Ok (mkRouter H s (fold_right wrap (base_h H special custom gopts KNoRoute) (scoped G KNoRoute))
                           (fold_right wrap (base_h H special custom gopts KNoMethod) (scoped G KNoMethod))
                           (fold_right wrap (special KRedirect) (scoped G KRedirect))
                           (fold_right wrap (base_h H special custom gopts KOptions) (scoped G KOptions))
                           (cfg_of gopts))
        /\ wf (new_heap gopts) s /\ contents (new_heap gopts) s = map mk_glob G
    end.
  Proof.
    pose proof (new_spec H wrap special custom grow gopts) as Hn. rewrite gen_new_eq_l in Hn.
    destruct (spec_globals gopts []) as [G|].
    - destruct Hn as (h & s & E & Hwf & Hc). injection E as Eh Er. rewrite Eh. exists s. rewrite Er. auto.
    - destruct Hn as (h & E). injection E as _ Er. exact Er.
  Qed.

  (* the three handlers of a route: hbase bare, hself the route's own middleware, hall globals outside *)
  Lemma gen_chain_exact_route_l (h : heap) (r : router H) (G : list (mwid * N)) (hid : nat) (ms : list (option mwid)) (ts : list tsopt) :
    wf h (r_mws H r) -> contents h (r_mws H r) = map mk_glob G ->
    if has_nil ms then gen_new_route h r hid ms ts = Err ErrInvalidConfig
    else exists st, gen_NewRoute H wrap nil_h (model_ropts ms) h (r_mws H r) (route_h hid) = Ok st /\
           gen_Route_Handle H st = route_h hid /\
           gen_Route_HandleMiddleware H st = fold_right wrap (route_h hid) (somes ms) /\
           rr_hall st = fold_right wrap (route_h hid) (scoped G KRoute ++ somes ms).
  Proof.
    intros Hwf Hc.
    pose proof (new_route_spec H wrap route_h grow h r G hid ms ts _ _ Hwf Hc (gen_new_route_eq_l h r hid ms ts)) as (_ & _ & Hr).
    destruct (has_nil ms); [exact Hr|].
    destruct Hr as (rt & E & (Hb & Hs & Ha) & _). unfold gen_new_route in E.
    destruct (gen_NewRoute H wrap nil_h (model_ropts ms) h (r_mws H r) (route_h hid)) as [st|e|]; try discriminate.
    injection E as E. subst rt. exists st. cbn in Hb, Hs, Ha. auto.
  Qed.
End Bridge.
