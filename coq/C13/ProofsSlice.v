(* Lemmas about GoSlice: what append returns, and what it leaves alone. *)
From Coq Require Import List Arith Lia.
Import ListNotations.
From FoxC13 Require Import GoSlice.

Lemma set_nth_length {B} (l : list B) i x : length (set_nth l i x) = length l.
Proof. revert i; induction l as [|y l IH]; intros [|i]; simpl; auto. Qed.

Lemma nth_set_nth_eq {B} (l : list B) a v d : a < length l -> nth a (set_nth l a v) d = v.
Proof. revert a; induction l as [|y l IH]; intros [|a] Hlt; simpl in *; try lia; auto. apply IH; lia. Qed.

Lemma nth_set_nth_neq {B} (l : list B) a b v d : a <> b -> nth b (set_nth l a v) d = nth b l d.
Proof.
  revert a b; induction l as [|y l IH]; intros [|a] [|b] Hne; simpl; try congruence; auto.
Qed.

Lemma nth_error_firstn_lt {B} (l : list B) n i : i < n -> nth_error (firstn n l) i = nth_error l i.
Proof.
  revert n i; induction l as [|y l IH]; intros [|n] [|i] Hlt; simpl; try lia; auto.
  apply IH; lia.
Qed.

Lemma nth_error_skipn_add {B} (l : list B) n i : nth_error (skipn n l) i = nth_error l (n + i).
Proof.
  revert l; induction n as [|n IH]; intros [|y l]; simpl; auto. destruct i; reflexivity.
Qed.

Lemma skipn_firstn_sub {B} (l : list B) m n : skipn m (firstn n l) = firstn (n - m) (skipn m l).
Proof.
  revert m n; induction l as [|y l IH]; intros [|m] [|n]; simpl; auto.
  - destruct (n - m); reflexivity.
Qed.

Section P.
  Context {A : Type}.
  Variable zero : A.
  Variable grow : nat -> nat -> nat.
  Notation heap := (@heap A).

  Lemma splice_length (l : list A) i xs :
    i + length xs <= length l -> length (splice l i xs) = length l.
  Proof.
    intros Hle. unfold splice. rewrite !app_length, firstn_length_le, skipn_length by lia. lia.
  Qed.

  Lemma store_list_length (h : heap) a i xs : length (store_list h a i xs) = length h.
  Proof. unfold store_list. apply set_nth_length. Qed.

  Lemma arr_store_list_other (h : heap) a b i xs : a <> b -> arr_of (store_list h a i xs) b = arr_of h b.
  Proof. intros Hne. unfold store_list, arr_of. apply nth_set_nth_neq; assumption. Qed.

  Lemma arr_store_list_same (h : heap) a i xs :
    a < length h -> arr_of (store_list h a i xs) a = splice (arr_of h a) i xs.
  Proof. intros Hlt. unfold store_list, arr_of at 1. apply nth_set_nth_eq; assumption. Qed.

  Lemma contents_length (h : heap) s : wf h s -> length (contents h s) = s_len s.
  Proof.
    intros (_ & Hlc & Hoc). unfold contents. rewrite firstn_length_le; auto.
    rewrite skipn_length. lia.
  Qed.

  Lemma index_contents (h : heap) s i : index h s i = if i <? s_len s then nth_error (contents h s) i else None.
  Proof.
    unfold index, contents. destruct (i <? s_len s) eqn:Hlt; auto.
    apply Nat.ltb_lt in Hlt. rewrite nth_error_firstn_lt by assumption.
    rewrite nth_error_skipn_add. reflexivity.
  Qed.

  Lemma arr_app_old (h : heap) x a : a < length h -> arr_of (h ++ [x]) a = arr_of h a.
  Proof. intros Hlt. unfold arr_of. apply app_nth1; assumption. Qed.

  Lemma arr_app_new (h : heap) x : arr_of (h ++ [x]) (length h) = x.
  Proof. unfold arr_of. rewrite app_nth2 by lia. rewrite Nat.sub_diag. reflexivity. Qed.

  (* contents only depend on the slice's own array *)
  Lemma contents_same_arr (h h' : heap) s : arr_of h' (s_arr s) = arr_of h (s_arr s) -> contents h' s = contents h s.
  Proof. intros He. unfold contents. rewrite He. reflexivity. Qed.

  Lemma wf_same_arr (h h' : heap) s :
    length h <= length h' -> arr_of h' (s_arr s) = arr_of h (s_arr s) -> wf h s -> wf h' s.
  Proof. intros Hl He (H1 & H2 & H3). unfold wf. rewrite He. repeat split; auto; lia. Qed.

  (* --- append --- *)
  Lemma append_list_spec (h : heap) s xs :
    wf h s ->
    let r := append_list zero grow h s xs in
    wf (fst r) (snd r) /\ contents (fst r) (snd r) = contents h s ++ xs /\ s_len (snd r) = s_len s + length xs.
  Proof.
    intros Hwf. pose proof Hwf as (Harr & Hlc & Hoc). unfold append_list.
    destruct (s_len s + length xs <=? s_cap s) eqn:Hfit; cbn [fst snd].
    - apply Nat.leb_le in Hfit.
      assert (Hsp : s_off s + s_len s + length xs <= length (arr_of h (s_arr s))) by lia.
      split; [|split]; [| |reflexivity].
      + unfold wf; cbn [s_arr s_off s_len s_cap]. rewrite store_list_length, arr_store_list_same by assumption.
        rewrite splice_length by lia. repeat split; auto.
      + unfold contents at 1; cbn [s_arr s_off s_len s_cap]. rewrite arr_store_list_same by assumption.
        unfold splice. set (l := arr_of h (s_arr s)) in *.
        rewrite skipn_app. rewrite firstn_length_le by lia.
        replace (s_off s - (s_off s + s_len s)) with 0 by lia. cbn [skipn].
        rewrite skipn_firstn_sub. replace (s_off s + s_len s - s_off s) with (s_len s) by lia.
        fold (contents h s).
        rewrite <- (contents_length h s Hwf) at 1.
        rewrite firstn_app_2. f_equal.
        rewrite firstn_app, firstn_all, Nat.sub_diag. cbn [firstn]. apply app_nil_r.
    - apply Nat.leb_gt in Hfit. set (n := s_len s + length xs) in *.
      set (c := newcap grow (s_cap s) n).
      assert (Hc : n <= c) by (unfold c, newcap; lia).
      split; [|split]; [| |reflexivity].
      + unfold wf; cbn [s_arr s_off s_len s_cap]. rewrite arr_app_new.
        rewrite !app_length, repeat_length, (contents_length h s Hwf). cbn [length]. fold n. repeat split; lia.
      + unfold contents at 1; cbn [s_arr s_off s_len s_cap]. rewrite arr_app_new. cbn [skipn].
        rewrite app_assoc. unfold n. rewrite <- (contents_length h s Hwf) at 1. rewrite <- app_length.
        rewrite firstn_app, firstn_all, Nat.sub_diag. cbn [firstn]. apply app_nil_r.
  Qed.

  (* arrays that append does not write *)
  Lemma append_list_frame (h : heap) s xs a :
    a < length h ->
    a <> s_arr s \/ s_cap s < s_len s + length xs ->
    arr_of (fst (append_list zero grow h s xs)) a = arr_of h a.
  Proof.
    intros Hlt Hcase. unfold append_list.
    destruct (s_len s + length xs <=? s_cap s) eqn:Hfit; cbn [fst].
    - apply Nat.leb_le in Hfit. destruct Hcase as [Hne|Hgt]; [|lia].
      apply arr_store_list_other. congruence.
    - apply arr_app_old; assumption.
  Qed.

  Lemma append_list_heap_length (h : heap) s xs :
    length h <= length (fst (append_list zero grow h s xs)).
  Proof.
    unfold append_list. destruct (_ <=? _); cbn [fst].
    - rewrite store_list_length. lia.
    - rewrite app_length. lia.
  Qed.

  (* where the result lives: same array when it fits, a brand new one otherwise *)
  Lemma append_list_arr (h : heap) s xs :
    let r := append_list zero grow h s xs in
    (s_len s + length xs <= s_cap s /\ s_arr (snd r) = s_arr s /\ length (fst r) = length h) \/
    (s_cap s < s_len s + length xs /\ s_arr (snd r) = length h /\ length (fst r) = S (length h)).
  Proof.
    unfold append_list. destruct (_ <=? _) eqn:Hfit; cbn [fst snd s_arr].
    - left. apply Nat.leb_le in Hfit. rewrite store_list_length. auto.
    - right. apply Nat.leb_gt in Hfit. rewrite app_length. cbn. repeat split; lia.
  Qed.
End P.
