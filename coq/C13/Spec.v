(* C13 specification, from the property text:
   each kind of handler runs wrapped by exactly the global middleware whose scope
   includes it, each once, in registration order, global middleware outside
   route-specific middleware; Update replaces the route-specific middleware;
   Route.Handle runs the bare handler and Route.HandleMiddleware the route-specific
   chain only.  Nothing here knows about slices, composition loops or bit masks
   beyond "bit number of the scope constant". *)
From FoxBase Require Import Bytes.
From FoxC13 Require Import Types.

(* scope [s] includes handler kind [k]: the bit of k's constant is set in s *)
Definition includes (s : N) (k : kind) : bool := N.testbit s (N.log2 (scope_const k)).

Definition is_nil (o : option mwid) : bool := match o with None => true | Some _ => false end.
Definition has_nil (ms : list (option mwid)) : bool := existsb is_nil ms.
Fixpoint somes (ms : list (option mwid)) : list mwid :=
  match ms with [] => [] | Some f :: r => f :: somes r | None :: r => somes r end.

(* the registered global list (function, scope) in registration order; DefaultOptions
   pushes Recovery (route scope) and Logger (all scopes) to positions one and two.
   None: some option carries a nil middleware, New must fail with ErrInvalidConfig. *)
Fixpoint spec_globals (opts : list gopt) (acc : list (mwid * N)) : option (list (mwid * N)) :=
  match opts with
  | [] => Some acc
  | GMw ms :: r => if has_nil ms then None else spec_globals r (acc ++ map (fun f => (f, AllHandlers)) (somes ms))
  | GMwFor sc ms :: r => if has_nil ms then None else spec_globals r (acc ++ map (fun f => (f, sc)) (somes ms))
  | GDefault :: r => spec_globals r ((Recovery, RouteHandler) :: (Logger, AllHandlers) :: acc)
  | (GOther | GFlag _ _ | GCustomH _) :: r => spec_globals r acc
  end.

(* events of a request going through middleware fs (outermost first) around h *)
Definition expected (fs : list mwid) (h : trace) : trace := map Enter fs ++ h ++ map Exit (rev fs).

Definition scoped (globals : list (mwid * N)) (k : kind) : list mwid :=
  map fst (filter (fun g => includes (snd g) k) globals).

Definition seen_of (t : trace) (k : kind) : option N := match t with [] => None | _ => Some (scope_const k) end.

(* the abstract route table: key -> (handler id, route-specific middleware, (redirect, ignore)) of the LAST successful Handle/Update *)
Definition sval := (nat * list mwid * (bool * bool))%type.
Definition stab := list (nat * sval).
Fixpoint slookup (key : nat) (t : stab) : option sval :=
  match t with [] => None | (k, v) :: r => if Nat.eqb k key then Some v else slookup key r end.
Fixpoint sreplace (key : nat) (v : sval) (t : stab) : stab :=
  match t with [] => [] | (k, w) :: r => if Nat.eqb k key then (k, v) :: r else (k, w) :: sreplace key v r end.

(* what the base handler of kind k emits under these options *)
Definition base_of (opts : list gopt) (k : kind) : trace := if custom_of opts k then base_trace k else [].

Definition serve_trace (opts : list gopt) (globals : list (mwid * N)) (s : shape) (rt : option sval) : obs :=
  let k := dispatch (cfg_of opts) (option_map snd rt) s in
  match k, rt with
  | KRoute, Some (hid, rids, _) => let t := expected (scoped globals KRoute ++ rids) [Run hid] in ObsTrace t (seen_of t KRoute)
  | k, _ => let t := expected (scoped globals k) (base_of opts k) in ObsTrace t (seen_of t k)
  end.

Definition spec_op (opts : list gopt) (globals : list (mwid * N)) (t : stab) (o : op) : stab * obs :=
  match o with
  | OHandle key hid ms ts =>
      if has_nil ms then (t, ObsErr (Some ErrInvalidConfig))
      else match slookup key t with
           | Some _ => (t, ObsErr (Some ErrRouteExist))
           | None => ((key, (hid, somes ms, route_flags (cfg_of opts) ts)) :: t, ObsErr None)
           end
  | OUpdate key hid ms ts =>
      if has_nil ms then (t, ObsErr (Some ErrInvalidConfig))
      else match slookup key t with
           | None => (t, ObsErr (Some ErrRouteNotFound))
           | Some _ => (sreplace key (hid, somes ms, route_flags (cfg_of opts) ts) t, ObsErr None)
           end
  | OServe s key => (t, serve_trace opts globals s (slookup key t))
  | ORouteHandle key =>
      (t, match slookup key t with Some (hid, _, _) => ObsTrace [Run hid] None | None => ObsNoRoute end)
  | ORouteHandleMw key =>
      (t, match slookup key t with Some (hid, rids, _) => ObsTrace (expected rids [Run hid]) None | None => ObsNoRoute end)
  end.

Fixpoint spec_ops (opts : list gopt) (globals : list (mwid * N)) (t : stab) (ops : list op) : list obs :=
  match ops with
  | [] => []
  | o :: r => let '(t', b) := spec_op opts globals t o in b :: spec_ops opts globals t' r
  end.

Definition spec_run (gopts : list gopt) (ops : list op) : result :=
  match spec_globals gopts [] with
  | None => RNewErr ErrInvalidConfig
  | Some globals => RRun (spec_ops gopts globals [] ops)
  end.
