(* New / NewRoute / Handle / Update / ServeHTTP of the model against the specification. *)
From FoxBase Require Import Bytes.
From FoxC13 Require Import GoSlice Types Spec Model ProofsSlice ProofsChain.
From Coq Require Import Lia.

Local Notation length := List.length.

Section Abstract.
  Variable H : Type.
  Variable wrap : mwid -> H -> H.
  Variable special : kind -> H.
  Variable custom : kind -> H.
  Variable route_h : nat -> H.
  Variable grow : nat -> nat -> nat.

  Notation heap := (@heap mw).
  Notation new := (new H wrap special custom grow).
  Notation new_route := (new_route H wrap route_h grow).

  Definition base_h (opts : list gopt) (k : kind) : H :=
    match k with KRedirect | KRoute => special k | _ => if custom_of opts k then custom k else special k end.
  Definition special_chain (opts : list gopt) (G : list (mwid * N)) (k : kind) : H := fold_right wrap (base_h opts k) (scoped G k).

  Lemma new_spec gopts :
    match spec_globals gopts [] with
    | None => exists h, new gopts = (h, Err ErrInvalidConfig)
    | Some G => exists h s,
        new gopts = (h, Ok (mkRouter H s (special_chain gopts G KNoRoute) (special_chain gopts G KNoMethod)
                                          (special_chain gopts G KRedirect) (special_chain gopts G KOptions) (cfg_of gopts)))
        /\ wf h s /\ contents h s = map mk_glob G
    end.
  Proof.
    unfold Model.new. destruct (apply_globs grow heap0 nil_slice gopts) as [[h s] ok] eqn:Hg.
    destruct (apply_globs_spec grow gopts heap0 nil_slice [] h s ok wf_heap0 eq_refl Hg) as (Hwf & Hm).
    destruct (spec_globals gopts []) as [G|].
    - destruct Hm as (-> & Hc). cbn [negb]. exists h, s.
      rewrite !(apply_middleware_spec H wrap h s _ _ Hwf), Hc.
      change NoRouteHandler with (scope_const KNoRoute). change NoMethodHandler with (scope_const KNoMethod).
      change RedirectHandler with (scope_const KRedirect). change OptionsHandler with (scope_const KOptions).
      rewrite !filter_sel_globs. eauto.
    - subst ok. cbn [negb]. eauto.
  Qed.

  Definition route_ok (G : list (mwid * N)) (rt : route H) (hid : nat) (rids : list mwid) : Prop :=
    rt_hbase H rt = route_h hid /\
    rt_hself H rt = fold_right wrap (route_h hid) rids /\
    rt_hall H rt = fold_right wrap (route_h hid) (scoped G KRoute ++ rids).

  Lemma new_route_spec (h : heap) (r : router H) G hid ms ts h1 res :
    wf h (r_mws H r) -> contents h (r_mws H r) = map mk_glob G ->
    new_route h r hid ms ts = (h1, res) ->
    wf h1 (r_mws H r) /\ contents h1 (r_mws H r) = map mk_glob G /\
    if has_nil ms then res = Err ErrInvalidConfig
    else exists rt, res = Ok rt /\ route_ok G rt hid (somes ms) /\ rt_flags H rt = route_flags (r_cfg H r) ts /\
                    wf h1 (rt_mws H rt) /\ contents h1 (rt_mws H rt) = map mk_glob G ++ map mk_rt (somes ms) /\
                    (* the route shares the router's array exactly when it has no middleware of its own, and then it is clipped *)
                    (s_arr (rt_mws H rt) = s_arr (r_mws H r) <-> somes ms = []) /\
                    (somes ms = [] -> s_cap (rt_mws H rt) = s_len (rt_mws H rt)).
  Proof.
    intros Hwf Hc Hrun. unfold Model.new_route in Hrun.
    set (s0 := clip (r_mws H r)) in *.
    assert (Hwf0 : wf h s0).
    { destruct Hwf as (A1 & A2 & A3). unfold wf, s0, clip; cbn [s_arr s_off s_len s_cap]. repeat split; auto; lia. }
    assert (Hc0 : contents h s0 = map mk_glob G) by (rewrite <- Hc; reflexivity).
    destruct (append_mws grow h s0 ms RouteHandler false) as [[h' s1] ok] eqn:Ha.
    destruct (append_mws_spec grow _ _ _ _ _ _ _ _ Hwf0 Ha) as (Hwf1 & Hlen & Hok & Hc1).
    assert (Hfr : arr_of h' (s_arr (r_mws H r)) = arr_of h (s_arr (r_mws H r))).
    { apply (append_mws_frame grow _ _ _ _ _ _ _ _ _ Hwf0 Ha); [apply Hwf|]. right. unfold s0, clip; cbn; lia. }
    assert (Hsame : h1 = h') by (destruct (negb ok); [|destruct (apply_route_middleware _ _ _ _ _) as [[? ?]|]]; congruence).
    subst h'. split; [eapply wf_same_arr; eauto|]. split; [rewrite (contents_same_arr h h1) by assumption; assumption|].
    destruct (has_nil ms); cbn [negb] in Hok; subst ok; cbn [negb] in Hrun; [congruence|].
    specialize (Hc1 eq_refl). rewrite Hc0 in Hc1. fold mk_rt in Hc1.
    rewrite (apply_route_middleware_spec H wrap h1 s1 _ Hwf1), Hc1 in Hrun.
    inversion Hrun; subst res; clear Hrun. eexists; split; [reflexivity|].
    split; [|split; [reflexivity|split; [assumption|split; [assumption|]]]].
    - unfold route_ok; cbn [rt_hbase rt_hself rt_hall]. split; [reflexivity|]. split.
      + rewrite filter_app, filter_rsel_globs. cbn [app]. rewrite filter_rsel_rts. reflexivity.
      + rewrite filter_app, map_app. change RouteHandler with (scope_const KRoute) at 1.
        rewrite filter_sel_globs, filter_sel_rts. reflexivity.
    - cbn [rt_mws]. clear Hc1.
      (* where s1 lives: follow the appends *)
      assert (Hloc : forall ms (h : heap) s h' s' ok, wf h s ->
                 append_mws grow h s ms RouteHandler false = (h', s', ok) ->
                 (somes ms = [] /\ s' = s) \/ (s_cap s <= s_len s /\ somes ms <> [] /\ length h <= s_arr s') \/
                 (s_len s < s_cap s /\ somes ms <> []) \/ (ok = false)).
      { clear. intros ms. induction ms as [|[f|] ms IH]; intros h s h' s' ok Hwf Hrun; simpl in Hrun.
        - inversion Hrun; subst. left; auto.
        - destruct (append1 zero_mw grow h s (mkMw f RouteHandler false)) as [ha sa] eqn:Happ.
          destruct (Nat.le_gt_cases (s_cap s) (s_len s)) as [Hfull|Hroom]; [|right; right; left; split; [lia|simpl; discriminate]].
          right; left. split; [assumption|]. split; [simpl; discriminate|].
          pose proof (append_list_spec zero_mw grow h s [mkMw f RouteHandler false] Hwf) as Hs.
          pose proof (append_list_arr zero_mw grow h s [mkMw f RouteHandler false]) as Hw.
          unfold append1 in Happ. rewrite Happ in Hs, Hw. cbn [fst snd length] in Hs, Hw.
          destruct Hs as (Hwfa & _ & _). destruct Hw as [(Hfit & _)|(_ & Harr & Hl)]; [lia|].
          (* from now on the slice lives at or above length h: appends either stay or move higher *)
          assert (Hmono : forall ms (h : heap) s h' s' ok b, wf h s -> b <= s_arr s ->
                     append_mws grow h s ms RouteHandler false = (h', s', ok) -> b <= s_arr s').
          { clear. intros ms. induction ms as [|[f|] ms IH]; intros h s h' s' ok b Hwf Hb Hrun; simpl in Hrun.
            - inversion Hrun; subst; assumption.
            - destruct (append1 zero_mw grow h s (mkMw f RouteHandler false)) as [ha sa] eqn:Happ.
              pose proof (append_list_spec zero_mw grow h s [mkMw f RouteHandler false] Hwf) as Hs.
              pose proof (append_list_arr zero_mw grow h s [mkMw f RouteHandler false]) as Hw.
              unfold append1 in Happ. rewrite Happ in Hs, Hw. cbn [fst snd length] in Hs, Hw.
              destruct Hs as (Hwfa & _ & _). apply (IH ha sa h' s' ok b Hwfa); [|assumption].
              destruct Hwf as (Hlt & _). destruct Hw as [(_ & -> & _)|(_ & -> & _)]; lia.
            - inversion Hrun; subst; assumption. }
          apply (Hmono ms ha sa h' s' ok (length h) Hwfa); [lia|assumption].
        - inversion Hrun; subst. right; right; right; reflexivity. }
      destruct (Hloc ms h s0 h1 s1 true Hwf0 Ha) as [(Hnil & ->)|[(Hfull & Hne & Hge)|[(Hroom & _)|Hf]]].
      + split; [split; auto|]. intros _. reflexivity.
      + destruct Hwf as (Hlt & _). split; [split; [lia|congruence]|congruence].
      + unfold s0, clip in Hroom; cbn in Hroom; lia.
      + discriminate.
  Qed.
End Abstract.

(* ---------- whole runs, at the trace instance ---------- *)
Section Runs.
  Variable grow : nat -> nat -> nat.
  Notation heap := (@heap mw).
  Notation H := trace.
  Notation dflt := (fun _ : kind => @nil ev).

  Definition rel1 (G : list (mwid * N)) (a : nat * route H) (b : nat * sval) : Prop :=
    fst a = fst b /\ route_ok H twrap troute G (snd a) (fst (fst (snd b))) (snd (fst (snd b))) /\
    rt_flags H (snd a) = snd (snd b).

  Lemma lookup_rel G tab (stab : Spec.stab) key :
    Forall2 (rel1 G) tab stab ->
    match lookup H key tab, slookup key stab with
    | Some rt, Some (hid, rids, fl) => route_ok H twrap troute G rt hid rids /\ rt_flags H rt = fl
    | None, None => True
    | _, _ => False
    end.
  Proof.
    induction 1 as [|[k rt] [k' [[hid rids] fl]] tab stab (Hk & Hr & Hf) _ IH]; simpl; auto.
    cbn in Hk; subst k'. destruct (Nat.eqb k key); auto.
  Qed.

  Lemma replace_rel G tab (stab : Spec.stab) key rt hid rids fl :
    Forall2 (rel1 G) tab stab -> route_ok H twrap troute G rt hid rids -> rt_flags H rt = fl ->
    Forall2 (rel1 G) (replace H key rt tab) (sreplace key (hid, rids, fl) stab).
  Proof.
    induction 1 as [|[k rt0] [k' v] tab stab (Hk & Hr) Hrest IH]; intros Hok Hfl; simpl; auto.
    cbn in Hk; subst k'. destruct (Nat.eqb k key); constructor; auto; unfold rel1; cbn [fst snd]; auto.
  Qed.

  Definition inv (G : list (mwid * N)) (r : router H) (st : state H) (stab : Spec.stab) : Prop :=
    st_r H st = r /\ wf (st_h H st) (r_mws H r) /\ contents (st_h H st) (r_mws H r) = map mk_glob G /\
    Forall2 (rel1 G) (st_tab H st) stab.

  Definition router_ok (opts : list gopt) (G : list (mwid * N)) (r : router H) : Prop :=
    r_noRoute H r = expected (scoped G KNoRoute) (base_of opts KNoRoute) /\
    r_noMethod H r = expected (scoped G KNoMethod) (base_of opts KNoMethod) /\
    r_tsr H r = expected (scoped G KRedirect) (base_of opts KRedirect) /\
    r_auto H r = expected (scoped G KOptions) (base_of opts KOptions) /\
    r_cfg H r = cfg_of opts.

  Ltac fin := unfold inv; cbn [st_h st_r st_tab has_panic pobs];
              repeat match goal with |- _ /\ _ => split end; auto.

  Lemma run_op_spec opts G r st stab o :
    router_ok opts G r -> inv G r st stab ->
    let '(st', m) := run_op H twrap troute grow st o in
    let '(stab', b) := spec_op opts G stab o in
    inv G r st' stab' /\ has_panic m = false /\ pobs m = b.
  Proof.
    intros (Rnr & Rnm & Rts & Rau & Rcfg) (Hr & Hwf & Hc & Htab).
    destruct o as [key hid ms ts|key hid ms ts|s key|key|key]; cbn [run_op spec_op].
    - (* Handle *)
      destruct (new_route H twrap troute grow (st_h H st) (st_r H st) hid ms ts) as [h1 res] eqn:Hn.
      rewrite Hr in Hn.
      destruct (new_route_spec H twrap troute grow _ _ G _ _ _ _ _ Hwf Hc Hn) as (Hwf1 & Hc1 & Hres).
      destruct (has_nil ms).
      + subst res. fin.
      + destruct Hres as (rt & -> & Hok & Hfl & _). rewrite Rcfg in Hfl.
        pose proof (lookup_rel G _ _ key Htab) as Hl.
        destruct (lookup H key (st_tab H st)) as [rt0|], (slookup key stab) as [[[hid0 rids0] fl0]|]; try contradiction.
        * fin.
        * destruct (alias_info H (st_r H st) rt) as [[sh l] c]. fin. constructor; auto. unfold rel1; cbn [fst snd]; auto.
    - (* Update *)
      destruct (new_route H twrap troute grow (st_h H st) (st_r H st) hid ms ts) as [h1 res] eqn:Hn.
      rewrite Hr in Hn.
      destruct (new_route_spec H twrap troute grow _ _ G _ _ _ _ _ Hwf Hc Hn) as (Hwf1 & Hc1 & Hres).
      destruct (has_nil ms).
      + subst res. fin.
      + destruct Hres as (rt & -> & Hok & Hfl & _). rewrite Rcfg in Hfl.
        pose proof (lookup_rel G _ _ key Htab) as Hl.
        destruct (lookup H key (st_tab H st)) as [rt0|], (slookup key stab) as [[[hid0 rids0] fl0]|]; try contradiction.
        * destruct (alias_info H (st_r H st) rt) as [[sh l] c]. fin. apply replace_rel; auto.
        * fin.
    - (* ServeHTTP *)
      unfold serve, serve_trace. pose proof (lookup_rel G _ _ key Htab) as Hl. rewrite Hr, Rcfg.
      destruct (lookup H key (st_tab H st)) as [rt0|], (slookup key stab) as [[[hid0 rids0] fl0]|]; try contradiction;
        cbn [option_map snd].
      + destruct Hl as ((_ & _ & Hall) & ->).
        destruct (dispatch (cfg_of opts) (Some fl0) s); cbn [pobs has_panic]; (split; [fin|split; [reflexivity|]]).
        * rewrite Hall, fold_twrap. reflexivity.
        * rewrite Rnr. reflexivity.
        * rewrite Rnm. reflexivity.
        * rewrite Rts. reflexivity.
        * rewrite Rau. reflexivity.
      + cbn [dispatch pobs has_panic]. split; [fin|split; [reflexivity|]]. rewrite Rnr. reflexivity.
    - (* Route.Handle *)
      pose proof (lookup_rel G _ _ key Htab) as Hl.
      destruct (lookup H key (st_tab H st)) as [rt0|], (slookup key stab) as [[[hid0 rids0] fl0]|]; try contradiction;
        (split; [fin|split; [reflexivity|]]); [|reflexivity].
      destruct Hl as ((Hb & _) & _). cbn [pobs]. rewrite Hb. reflexivity.
    - (* Route.HandleMiddleware *)
      pose proof (lookup_rel G _ _ key Htab) as Hl.
      destruct (lookup H key (st_tab H st)) as [rt0|], (slookup key stab) as [[[hid0 rids0] fl0]|]; try contradiction;
        (split; [fin|split; [reflexivity|]]); [|reflexivity].
      destruct Hl as ((_ & Hs & _) & _). cbn [pobs]. rewrite Hs, fold_twrap. reflexivity.
  Qed.

  Lemma run_ops_spec opts G r ops : forall st stab,
    router_ok opts G r -> inv G r st stab ->
    existsb has_panic (run_ops H twrap troute grow st ops) = false /\
    map pobs (run_ops H twrap troute grow st ops) = spec_ops opts G stab ops.
  Proof.
    induction ops as [|o ops IH]; intros st stab Hr Hinv; cbn [run_ops spec_ops]; auto.
    pose proof (run_op_spec opts G r st stab o Hr Hinv) as Hop.
    destruct (run_op H twrap troute grow st o) as [st' m]. destruct (spec_op opts G stab o) as [stab' b].
    destruct Hop as (Hinv' & Hp & Hb). destruct (IH st' stab' Hr Hinv') as (Hp' & Hm').
    cbn [existsb map]. rewrite Hp, Hp', Hb, Hm'. auto.
  Qed.

  (* the theorem: for every growth policy, option list and operation sequence the
     model shows exactly what the specification prescribes *)
  Theorem chain_exact_run gopts ops : project (run_traces grow gopts ops) = spec_run gopts ops.
  Proof.
    unfold run_traces, run_model, spec_run.
    pose proof (new_spec H twrap dflt base_trace grow gopts) as Hn.
    destruct (spec_globals gopts []) as [G|].
    - destruct Hn as (h & s & -> & Hwf & Hc). cbn [project].
      set (r := mkRouter H s _ _ _ _ _).
      assert (Hr : router_ok gopts G r).
      { unfold router_ok, r, special_chain, base_h, base_of; cbn [r_noRoute r_noMethod r_tsr r_auto r_cfg].
        rewrite !fold_twrap.
        assert (Hred : custom_of gopts KRedirect = false \/ base_trace KRedirect = []) by (right; reflexivity).
        repeat split; auto. destruct (custom_of gopts KRedirect); reflexivity. }
      assert (Hinv : inv G r (mkState H h r []) []) by (unfold inv; cbn; auto).
      destruct (run_ops_spec gopts G r ops _ _ Hr Hinv) as (-> & ->). reflexivity.
    - destruct Hn as (h & ->). reflexivity.
  Qed.
End Runs.
