(* A Go slice as (array id, offset, len, cap) over a heap of arrays, with Go's
   [append]: in place when the capacity allows, otherwise a fresh array whose
   capacity is chosen by an arbitrary growth policy [grow] (only newcap >= needed
   length is forced, by taking the max).  Arrays are never freed; array ids are
   positions in the heap. *)
From Coq Require Import List Arith Lia.
Import ListNotations.

Record slice := mkSlice { s_arr : nat; s_off : nat; s_len : nat; s_cap : nat }.

Definition nil_slice := mkSlice 0 0 0 0.

(* s[:len(s):len(s)] *)
Definition clip (s : slice) : slice := mkSlice (s_arr s) (s_off s) (s_len s) (s_len s).

Fixpoint set_nth {B} (l : list B) (i : nat) (x : B) : list B :=
  match l, i with
  | [], _ => []
  | _ :: r, 0 => x :: r
  | y :: r, S j => y :: set_nth r j x
  end.

Section GoSlice.
  Context {A : Type}.
  Variable zero : A.                      (* zero value filling the unused capacity *)

  Definition heap := list (list A).

  Definition arr_of (h : heap) (a : nat) : list A := nth a h [].

  Definition contents (h : heap) (s : slice) : list A :=
    firstn (s_len s) (skipn (s_off s) (arr_of h (s_arr s))).

  (* s[i]; None = index out of range (a Go panic) *)
  Definition index (h : heap) (s : slice) (i : nat) : option A :=
    if i <? s_len s then nth_error (arr_of h (s_arr s)) (s_off s + i) else None.

  (* copy(l[i:], xs): overwrite positions i .. i+len(xs)-1 *)
  Definition splice (l : list A) (i : nat) (xs : list A) : list A :=
    firstn i l ++ xs ++ skipn (i + length xs) l.

  Definition store_list (h : heap) (a i : nat) (xs : list A) : heap :=
    set_nth h a (splice (arr_of h a) i xs).

  Variable grow : nat -> nat -> nat.      (* old capacity, needed length -> proposed capacity *)

  Definition newcap (oldcap need : nat) : nat := Nat.max need (grow oldcap need).

  (* append(s, xs...) *)
  Definition append_list (h : heap) (s : slice) (xs : list A) : heap * slice :=
    let n := s_len s + length xs in
    if n <=? s_cap s then
      (store_list h (s_arr s) (s_off s + s_len s) xs, mkSlice (s_arr s) (s_off s) n (s_cap s))
    else
      let c := newcap (s_cap s) n in
      (h ++ [contents h s ++ xs ++ repeat zero (c - n)], mkSlice (length h) 0 n c).

  (* append(s, x) *)
  Definition append1 (h : heap) (s : slice) (x : A) : heap * slice := append_list h s [x].

  (* the slice lies inside its array *)
  Definition wf (h : heap) (s : slice) : Prop :=
    s_arr s < length h /\ s_len s <= s_cap s /\ s_off s + s_cap s <= length (arr_of h (s_arr s)).
End GoSlice.
