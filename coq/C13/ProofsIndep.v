(* routes_independent: with the clip, whatever the interleaving and the growth
   policy, each NewRoute call reads back exactly  globals ++ its own middleware.
   Without the clip a concrete interleaving hands route A the middleware of route B. *)
From FoxBase Require Import Bytes.
From FoxC13 Require Import GoSlice Types Spec Model Conc ProofsSlice ProofsChain.
From Coq Require Import Lia.

Local Notation length := List.length.

Section Indep.
  Variable grow : nat -> nat -> nat.
  Notation heap := (@heap mw).

  Variable g : slice.          (* the router's slice *)
  Variable G : list mw.        (* its contents *)
  Variable n0 : nat.           (* heap size when the calls start *)

  (* thread invariant, for a thread that has to append [own] in total *)
  Definition phase_ok (h : heap) (t : thread) (own : list mw) : Prop :=
    match t_ph t with
    | Appending todo => exists pre, own = pre ++ todo /\ contents h (t_s t) = G ++ pre
    | Reading i acc => contents h (t_s t) = G ++ own /\ i <= s_len (t_s t) /\ acc = skipn i (G ++ own)
    | Done acc => acc = G ++ own
    | Crashed => False
    end.

  Definition shared (t : thread) : Prop := t_s t = clip g.
  Definition private (h : heap) (t : thread) : Prop := n0 <= s_arr (t_s t) < length h.

  Definition tinv (h : heap) (t : thread) (own : list mw) : Prop :=
    wf h (t_s t) /\ (shared t \/ private h t) /\ phase_ok h t own.

  Definition ginv (h : heap) : Prop :=
    n0 <= length h /\ s_arr g < n0 /\ wf h g /\ contents h g = G.

  Definition sep (a b : thread) : Prop := shared a \/ shared b \/ s_arr (t_s a) <> s_arr (t_s b).

  (* what a step does to the heap: it may grow it, and the only array it can modify is
     the stepping thread's own private array *)
  Definition frame (h h' : heap) (t : thread) : Prop :=
    length h <= length h' /\
    forall a, a < length h -> (shared t \/ a <> s_arr (t_s t)) -> arr_of h' a = arr_of h a.

  Lemma skipn_nth_cons {B} (l : list B) j e : nth_error l j = Some e -> skipn j l = e :: skipn (S j) l.
  Proof.
    revert j; induction l as [|y l IH]; intros [|j] Hn; simpl in *; try discriminate.
    - congruence.
    - apply IH; assumption.
  Qed.

  Lemma step_self (h : heap) t own h' t' :
    ginv h -> tinv h t own -> step_thread grow h t = (h', t') ->
    tinv h' t' own /\ frame h h' t /\
    (* where the thread's slice is afterwards *)
    (t_s t' = t_s t \/ (s_arr (t_s t') = s_arr (t_s t) /\ private h t /\ length h' = length h) \/ (s_arr (t_s t') = length h /\ length h' = S (length h))).
  Proof.
    intros (Hn0 & Hg & Hwg & Hcg) (Hwf & Hown & Hph) Hstep. unfold step_thread in Hstep.
    unfold phase_ok in Hph. destruct (t_ph t) as [[|x todo]|[|j] acc|acc|] eqn:Hp; try contradiction.
    - (* switch to reading *)
      inversion Hstep; subst h' t'; clear Hstep. destruct Hph as (pre & Hown' & Hc). rewrite app_nil_r in Hown'. subst pre.
      split; [|split; [split; auto|left; reflexivity]].
      split; [assumption|]. split; [assumption|]. unfold phase_ok; cbn [t_ph t_s].
      split; [assumption|]. split; [lia|]. rewrite <- Hc, <- (contents_length h (t_s t) Hwf), skipn_all. reflexivity.
    - (* append *)
      destruct Hph as (pre & Hown' & Hc).
      destruct (append1 zero_mw grow h (t_s t) x) as [h1 s1] eqn:Happ.
      inversion Hstep; subst h' t'; clear Hstep.
      pose proof (append_list_spec zero_mw grow h (t_s t) [x] Hwf) as Hs.
      pose proof (append_list_arr zero_mw grow h (t_s t) [x]) as Hw.
      pose proof (append_list_heap_length zero_mw grow h (t_s t) [x]) as Hl.
      unfold append1 in Happ. rewrite Happ in Hs, Hw, Hl. cbn [fst snd length] in Hs, Hw, Hl.
      destruct Hs as (Hwf1 & Hc1 & _).
      assert (Hfit_priv : s_len (t_s t) + 1 <= s_cap (t_s t) -> private h t).
      { intros Hfit. destruct Hown as [Hsh|Hpr]; [|assumption]. unfold shared in Hsh. rewrite Hsh in Hfit. cbn in Hfit. lia. }
      split; [|split].
      + split; [assumption|]. split.
        * right. unfold private; cbn [t_s]. destruct Hw as [(Hfit & -> & ->)|(_ & -> & ->)]; [apply Hfit_priv; assumption|lia].
        * unfold phase_ok; cbn [t_ph t_s]. exists (pre ++ [x]). rewrite <- app_assoc. split; [assumption|].
          rewrite Hc1, Hc, <- app_assoc. reflexivity.
      + split; [assumption|]. intros a Ha Hcase.
        pose proof (append_list_frame zero_mw grow h (t_s t) [x] a Ha) as Hf. rewrite Happ in Hf. cbn [fst length] in Hf.
        apply Hf. destruct Hcase as [Hsh|Hne]; [|left; assumption].
        right. unfold shared in Hsh. rewrite Hsh. cbn. lia.
      + cbn [t_s]. destruct Hw as [(Hfit & Harr & Hlen)|(_ & Harr & Hlen)]; [right; left|right; right]; auto.
    - (* finish *)
      inversion Hstep; subst h' t'; clear Hstep. destruct Hph as (Hc & _ & Hacc).
      split; [|split; [split; auto|left; reflexivity]].
      split; [assumption|]. split; [assumption|]. unfold phase_ok; cbn [t_ph]. subst acc. reflexivity.
    - (* read one element *)
      destruct Hph as (Hc & Hj & Hacc).
      rewrite index_contents in Hstep. destruct (Nat.ltb_spec j (s_len (t_s t))) as [Hlt|]; [|lia].
      destruct (nth_error (contents h (t_s t)) j) as [e|] eqn:Hn.
      + inversion Hstep; subst h' t'; clear Hstep.
        split; [|split; [split; auto|left; reflexivity]].
        split; [assumption|]. split; [assumption|]. unfold phase_ok; cbn [t_ph t_s].
        split; [assumption|]. split; [lia|]. subst acc. rewrite Hc in Hn. symmetry. apply skipn_nth_cons; assumption.
      + apply nth_error_None in Hn. rewrite contents_length in Hn by assumption. lia.
    - (* done *)
      inversion Hstep; subst h' t'; clear Hstep.
      split; [|split; [split; auto|left; reflexivity]]. split; [assumption|]. split; [assumption|]. unfold phase_ok. rewrite Hp. assumption.
  Qed.

  (* the other thread and the router's slice are not disturbed *)
  Lemma tinv_frame (h h' : heap) t u own :
    ginv h -> tinv h u own -> frame h h' t -> sep t u -> (private h t \/ shared t) ->
    tinv h' u own.
  Proof.
    intros (Hn0 & Hg & Hwg & Hcg) (Hwf & Hown & Hph) (Hlen & Hfr) Hsep Ht.
    assert (Harr : arr_of h' (s_arr (t_s u)) = arr_of h (s_arr (t_s u))).
    { apply Hfr; [apply Hwf|].
      destruct Hsep as [Hs|[Hs|Hne]]; [left; assumption| |right; congruence].
      destruct Ht as [Hpt|Hst]; [|left; assumption].
      right. unfold shared in Hs. rewrite Hs. cbn. unfold private in Hpt. lia. }
    split; [eapply wf_same_arr; eauto|]. split.
    - destruct Hown as [Hs|(Hp1 & Hp2)]; [left; assumption|right; unfold private; lia].
    - unfold phase_ok in *. destruct (t_ph u) as [todo|i acc|acc|]; auto.
      + destruct Hph as (pre & H1 & H2). exists pre. rewrite (contents_same_arr h h') by assumption. auto.
      + rewrite (contents_same_arr h h') by assumption. assumption.
  Qed.

  Lemma ginv_frame (h h' : heap) t :
    ginv h -> frame h h' t -> (private h t \/ shared t) -> ginv h'.
  Proof.
    intros (Hn0 & Hg & Hwg & Hcg) (Hlen & Hfr) Ht.
    assert (Harr : arr_of h' (s_arr g) = arr_of h (s_arr g)).
    { apply Hfr; [lia|]. destruct Ht as [Hp|Hs]; [right|left; assumption]. unfold private in Hp. lia. }
    split; [lia|]. split; [assumption|]. split; [eapply wf_same_arr; eauto|].
    rewrite (contents_same_arr h h') by assumption. assumption.
  Qed.

  Definition cinv (st : cstate) (la lb : list mw) : Prop :=
    ginv (c_h st) /\ tinv (c_h st) (c_a st) la /\ tinv (c_h st) (c_b st) lb /\ sep (c_a st) (c_b st).

  Lemma own_cases h t own : tinv h t own -> private h t \/ shared t.
  Proof. intros (_ & [Hs|Hp] & _); auto. Qed.

  Lemma sep_sym a b : sep a b -> sep b a.
  Proof. unfold sep. intuition. Qed.

  (* one step of either thread keeps everything *)
  Lemma step_pair h t u lt lu h' t' :
    ginv h -> tinv h t lt -> tinv h u lu -> sep t u ->
    step_thread grow h t = (h', t') ->
    ginv h' /\ tinv h' t' lt /\ tinv h' u lu /\ sep t' u.
  Proof.
    intros Hg Ht Hu Hsep Hstep.
    destruct (step_self h t lt h' t' Hg Ht Hstep) as (Ht' & Hfr & Hwhere).
    pose proof (own_cases _ _ _ Ht) as Hoc.
    split; [eapply ginv_frame; eauto|]. split; [assumption|]. split; [eapply tinv_frame; eauto|].
    destruct Hwhere as [Hs|[(Ha & _ & _)|(Ha & _)]].
    - unfold sep, shared in *. rewrite Hs. assumption.
    - unfold sep, shared in *. destruct Hsep as [Hs|[Hs|Hne]]; [|right; left; assumption|right; right; congruence].
      (* t was shared and its array did not change: then it did not append in place, contradiction handled by private *)
      destruct Hu as (Hwu & [Hsu|Hpu] & _); [right; left; assumption|].
      right; right. rewrite Ha, Hs. cbn. destruct Hg as (_ & Hlt & _). unfold private in Hpu. lia.
    - destruct Hu as (Hwu & Hou & _). right. destruct Hou as [Hsu|Hpu]; [left; assumption|right].
      rewrite Ha. destruct Hwu as (Hlt & _). lia.
  Qed.

  Lemma cstep_inv st la lb w : cinv st la lb -> cinv (cstep grow st w) la lb.
  Proof.
    intros (Hg & Ha & Hb & Hsep). unfold cstep. destruct w.
    - destruct (step_thread grow (c_h st) (c_a st)) as [h' a'] eqn:Hs.
      destruct (step_pair _ _ _ _ _ _ _ Hg Ha Hb Hsep Hs) as (X1 & X2 & X3 & X4). unfold cinv; cbn. auto.
    - destruct (step_thread grow (c_h st) (c_b st)) as [h' b'] eqn:Hs.
      destruct (step_pair _ _ _ _ _ _ _ Hg Hb Ha (sep_sym _ _ Hsep) Hs) as (X1 & X2 & X3 & X4). unfold cinv; cbn.
      auto using sep_sym.
  Qed.

  Lemma crun_inv sched : forall st la lb, cinv st la lb -> cinv (crun grow st sched) la lb.
  Proof. induction sched as [|w r IH]; intros st la lb Hi; simpl; auto using cstep_inv. Qed.
End Indep.

(* ---------- progress: a call that gets enough turns finishes ---------- *)
Definition remaining (t : thread) : nat :=
  match t_ph t with
  | Appending todo => length todo + 1 + (s_len (t_s t) + length todo) + 1
  | Reading i _ => i + 1
  | Done _ | Crashed => 0
  end.

Lemma step_measure grow (h : heap (A:=mw)) t h' t' :
  wf h (t_s t) -> step_thread grow h t = (h', t') -> remaining t' <= pred (remaining t).
Proof.
  intros Hwf Hstep. unfold step_thread in Hstep. unfold remaining at 2.
  destruct (t_ph t) as [[|x todo]|[|j] acc|acc|] eqn:Hp.
  - inversion Hstep; subst. unfold remaining; cbn. lia.
  - destruct (append1 zero_mw grow h (t_s t) x) as [h1 s1] eqn:Happ. inversion Hstep; subst.
    pose proof (append_list_spec zero_mw grow h (t_s t) [x] Hwf) as Hs.
    unfold append1 in Happ. rewrite Happ in Hs. cbn [fst snd length] in Hs. destruct Hs as (_ & _ & Hl).
    unfold remaining; cbn [t_ph t_s length]. lia.
  - inversion Hstep; subst. unfold remaining; cbn. lia.
  - destruct (index h (t_s t) j); inversion Hstep; subst; unfold remaining; cbn; lia.
  - inversion Hstep; subst. unfold remaining. rewrite Hp. lia.
  - inversion Hstep; subst. unfold remaining. rewrite Hp. lia.
Qed.

Lemma remaining_zero t : remaining t = 0 -> (exists acc, t_ph t = Done acc) \/ t_ph t = Crashed.
Proof. unfold remaining. destruct (t_ph t) as [todo|i acc|acc|]; intros Hz; try lia; eauto. Qed.

Section Progress.
  Variable grow : nat -> nat -> nat.
  Variable g : slice.
  Variable G : list mw.
  Variable n0 : nat.

  Lemma crun_progress sched : forall st la lb,
    cinv g G n0 st la lb ->
    remaining (c_a (crun grow st sched)) <= remaining (c_a st) - count_occ bool_dec sched true /\
    remaining (c_b (crun grow st sched)) <= remaining (c_b st) - count_occ bool_dec sched false.
  Proof.
    induction sched as [|w r IH]; intros st la lb Hinv; cbn [crun count_occ]; [lia|].
    pose proof (cstep_inv grow g G n0 st la lb w Hinv) as Hinv'.
    destruct (IH _ _ _ Hinv') as (Ha & Hb).
    destruct Hinv as (_ & (Hwa & _) & (Hwb & _) & _).
    unfold cstep in *. destruct w; cbn [bool_dec].
    - destruct (step_thread grow (c_h st) (c_a st)) as [h' a'] eqn:Hs.
      pose proof (step_measure _ _ _ _ _ Hwa Hs). cbn [c_a c_b] in *.
      destruct (bool_dec true true); [|congruence]. destruct (bool_dec true false); [congruence|]. lia.
    - destruct (step_thread grow (c_h st) (c_b st)) as [h' b'] eqn:Hs.
      pose proof (step_measure _ _ _ _ _ Hwb Hs). cbn [c_a c_b] in *.
      destruct (bool_dec false true); [congruence|]. destruct (bool_dec false false); [|congruence]. lia.
  Qed.
End Progress.

(* ---------- the theorems ---------- *)
Lemma start_inv (h : heap (A:=mw)) (g : slice) fa fb :
  wf h g ->
  cinv g (contents h g) (length h) (mkC h (start true g fa) (start true g fb)) (map mk_rt fa) (map mk_rt fb).
Proof.
  intros Hwf. pose proof Hwf as (H1 & H2 & H3).
  assert (Hwc : wf h (clip g)) by (unfold wf, clip; cbn [s_arr s_off s_len s_cap]; repeat split; auto; lia).
  unfold cinv, start; cbn [c_h c_a c_b]. split; [|split; [|split]].
  - unfold ginv. auto.
  - split; [assumption|]. split; [left; reflexivity|]. unfold phase_ok; cbn [t_ph t_s].
    exists []. rewrite app_nil_r. auto.
  - split; [assumption|]. split; [left; reflexivity|]. unfold phase_ok; cbn [t_ph t_s].
    exists []. rewrite app_nil_r. auto.
  - left. reflexivity.
Qed.

Theorem routes_independent_slices :
  forall (grow : nat -> nat -> nat) (h : heap (A:=mw)) (g : slice), wf h g ->
  forall (fa fb : list mwid) (sched : list bool),
    let st := crun grow (mkC h (start true g fa) (start true g fb)) sched in
    t_ph (c_a st) <> Crashed /\ t_ph (c_b st) <> Crashed /\
    (forall acc, t_ph (c_a st) = Done acc -> acc = contents h g ++ map mk_rt fa) /\
    (forall acc, t_ph (c_b st) = Done acc -> acc = contents h g ++ map mk_rt fb) /\
    (cost (s_len g) fa <= count_occ bool_dec sched true -> exists acc, t_ph (c_a st) = Done acc) /\
    (cost (s_len g) fb <= count_occ bool_dec sched false -> exists acc, t_ph (c_b st) = Done acc).
Proof.
  intros grow h g Hwf fa fb sched st.
  pose proof (start_inv h g fa fb Hwf) as Hi0.
  pose proof (crun_inv grow g _ _ sched _ _ _ Hi0) as Hi. fold st in Hi.
  pose proof (crun_progress grow g _ _ sched _ _ _ Hi0) as (Hpa & Hpb). fold st in Hpa, Hpb.
  destruct Hi as (_ & (_ & _ & Hpha) & (_ & _ & Hphb) & _). unfold phase_ok in Hpha, Hphb.
  assert (Hna : t_ph (c_a st) <> Crashed) by (intros E; rewrite E in Hpha; exact Hpha).
  assert (Hnb : t_ph (c_b st) <> Crashed) by (intros E; rewrite E in Hphb; exact Hphb).
  split; [assumption|]. split; [assumption|]. split; [|split; [|split]].
  - intros acc E. rewrite E in Hpha. assumption.
  - intros acc E. rewrite E in Hphb. assumption.
  - intros Hc. unfold start, remaining, cost in *; cbn [c_a t_ph t_s clip s_len] in Hpa. rewrite map_length in Hpa.
    destruct (remaining_zero (c_a st)) as [Hd|Hd]; [unfold remaining; lia|assumption|contradiction].
  - intros Hc. unfold start, remaining, cost in *; cbn [c_b t_ph t_s clip s_len] in Hpb. rewrite map_length in Hpb.
    destruct (remaining_zero (c_b st)) as [Hd|Hd]; [unfold remaining; lia|assumption|contradiction].
Qed.

(* the router's slice as New builds it *)
Theorem routes_independent_router :
  forall (grow : nat -> nat -> nat) (gopts : list gopt) (h : heap (A:=mw)) (g : slice),
    apply_globs grow heap0 nil_slice gopts = (h, g, true) ->
    forall (fa fb : list mwid) (sched : list bool),
      let st := crun grow (mkC h (start true g fa) (start true g fb)) sched in
      t_ph (c_a st) <> Crashed /\ t_ph (c_b st) <> Crashed /\
      (forall acc, t_ph (c_a st) = Done acc -> acc = contents h g ++ map mk_rt fa) /\
      (forall acc, t_ph (c_b st) = Done acc -> acc = contents h g ++ map mk_rt fb) /\
      (cost (s_len g) fa <= count_occ bool_dec sched true -> exists acc, t_ph (c_a st) = Done acc) /\
      (cost (s_len g) fb <= count_occ bool_dec sched false -> exists acc, t_ph (c_b st) = Done acc).
Proof.
  intros grow gopts h g Hg. apply routes_independent_slices.
  destruct (apply_globs_spec grow gopts heap0 nil_slice [] h g true wf_heap0 eq_refl Hg) as (Hwf & _). assumption.
Qed.

(* what the composed chains are, for any handler type *)
Lemma chains_of_own {H} (wrap : mwid -> H -> H) (base : H) (G : list (mwid * N)) (fs : list mwid) :
  chains_of wrap base (map mk_glob G ++ map mk_rt fs) =
    (fold_right wrap base fs, fold_right wrap base (scoped G KRoute ++ fs)).
Proof.
  unfold chains_of. f_equal.
  - fold (rsel). rewrite filter_app, filter_rsel_globs. cbn [app]. rewrite filter_rsel_rts. reflexivity.
  - fold (sel RouteHandler). rewrite filter_app, map_app. change RouteHandler with (scope_const KRoute) at 1.
    rewrite filter_sel_globs, filter_sel_rts. reflexivity.
Qed.

(* ---------- without the clip ---------- *)
Definition w_gopts : list gopt := [GMw [Some (User 1); Some (User 2); Some (User 3)]].
Definition w_sched : list bool := [true; false; true; true; true; true; true; true].

Theorem routes_independent_unclipped_refuted :
  exists (gopts : list gopt) (h : heap (A:=mw)) (g : slice) (fa fb : list mwid) (sched : list bool) (acc : list mw),
    apply_globs grow_double heap0 nil_slice gopts = (h, g, true) /\
    t_ph (c_a (crun grow_double (mkC h (start false g fa) (start false g fb)) sched)) = Done acc /\
    acc = contents h g ++ map mk_rt fb /\ acc <> contents h g ++ map mk_rt fa.
Proof.
  destruct (apply_globs grow_double heap0 nil_slice w_gopts) as [[h g] ok] eqn:Hg.
  vm_compute in Hg. inversion Hg; subst h g ok; clear Hg.
  eexists w_gopts, _, _, [User 10], [User 20], w_sched, _.
  split; [vm_compute; reflexivity|]. split; [vm_compute; reflexivity|]. split; [vm_compute; reflexivity|].
  vm_compute. discriminate.
Qed.

(* ---------- DefaultOptions ---------- *)
Theorem default_options_prepend :
  forall (grow : nat -> nat -> nat) (h : heap (A:=mw)) (s : slice) (h' : heap (A:=mw)) (s' : slice) (ok : bool),
    wf h s -> apply_glob grow h s GDefault = (h', s', ok) ->
    ok = true /\ wf h' s' /\
    contents h' s' = mkMw Recovery RouteHandler true :: mkMw Logger AllHandlers true :: contents h s.
Proof.
  intros grow h s h' s' ok Hwf Hrun. cbn [apply_glob] in Hrun.
  set (h1 := h ++ [default_lit]) in *. set (lit := mkSlice (length h) 0 2 2) in *.
  destruct (append_list zero_mw grow h1 lit (contents h1 s)) as [h2 s2] eqn:Happ.
  inversion Hrun; subst h' s' ok; clear Hrun.
  assert (Hwl : wf h1 lit).
  { unfold wf, lit, h1; cbn [s_arr s_off s_len s_cap]. rewrite arr_app_new, app_length. cbn. lia. }
  pose proof (append_list_spec zero_mw grow h1 lit (contents h1 s) Hwl) as Hs.
  rewrite Happ in Hs. cbn [fst snd] in Hs. destruct Hs as (Hwf2 & Hc2 & _).
  split; [reflexivity|]. split; [assumption|]. rewrite Hc2.
  assert (Hl : contents h1 lit = default_lit).
  { unfold contents, lit, h1; cbn [s_arr s_off s_len]. rewrite arr_app_new. reflexivity. }
  rewrite Hl. destruct Hwf as (Hlt & _). rewrite (contents_same_arr h h1 s) by (apply arr_app_old; assumption).
  reflexivity.
Qed.
