(* C13, tie A: the hand-written composition model is equal, for all inputs, to the functions regenerated from
   fox.go / route.go on this run (GenMw.v, by harness/cmd/mwgen).  Statements only, each closed by [exact]. *)
From FoxBase Require Import Bytes.
From FoxC13 Require Import GoSlice Types Spec Model ProofsSlice ProofsChain ProofsRun MwSem GenMw BridgeMw.

(* applyMiddleware: every heap, scope mask, slice (well-formed or not: an index out of range is None on both sides), base *)
Theorem gen_applyMiddleware_eq :
  forall (H : Type) (wrap : mwid -> H -> H) (hp : @heap mw) (scope : N) (s : slice) (base : H),
    gen_applyMiddleware H wrap hp scope s base = apply_middleware H wrap hp s scope base.
Proof. exact gen_applyMiddleware_eq_l. Qed.
Print Assumptions gen_applyMiddleware_eq.

(* non-vacuity: three entries, the mask selects the first and the last; the first registered ends up outermost *)
Example gen_applyMiddleware_example :
  gen_applyMiddleware trace twrap
    [[]; [mkMw (User 1) AllHandlers true; mkMw (User 2) RouteHandler true; mkMw (User 3) (N.lor NoRouteHandler OptionsHandler) true]]
    OptionsHandler (mkSlice 1 0 3 3) [Run 9]
  = Some [Enter (User 1); Enter (User 3); Run 9; Exit (User 3); Exit (User 1)]
  /\ gen_applyMiddleware trace twrap [[]; [mkMw (User 1) AllHandlers true]] OptionsHandler (mkSlice 1 0 2 2) [Run 9] = None.
Proof. vm_compute. split; reflexivity. Qed.

(* applyRouteMiddleware: (hself, hall) *)
Theorem gen_applyRouteMiddleware_eq :
  forall (H : Type) (wrap : mwid -> H -> H) (hp : @heap mw) (s : slice) (base : H),
    gen_applyRouteMiddleware H wrap hp s base = apply_route_middleware H wrap hp s base.
Proof. exact gen_applyRouteMiddleware_eq_l. Qed.
Print Assumptions gen_applyRouteMiddleware_eq.

Example gen_applyRouteMiddleware_example :
  gen_applyRouteMiddleware trace twrap
    [[]; [mkMw (User 1) AllHandlers true; mkMw (User 2) NoRouteHandler true; mkMw (User 3) RouteHandler false; mkMw (User 4) RouteHandler false]]
    (mkSlice 1 0 4 4) [Run 9]
  = Some ([Enter (User 3); Enter (User 4); Run 9; Exit (User 4); Exit (User 3)],
          [Enter (User 1); Enter (User 3); Enter (User 4); Run 9; Exit (User 4); Exit (User 3); Exit (User 1)]).
Proof. vm_compute. reflexivity. Qed.

(* fox.New: defaults, option loop, then which scope constant and which base handler each of the four special
   handlers is composed with (generated) = Model.new *)
Theorem gen_new_eq :
  forall (H : Type) (wrap : mwid -> H -> H) (special custom : kind -> H) (grow : nat -> nat -> nat) (nil_h : H) (opts : list gopt),
    new H wrap special custom grow opts = (new_heap grow opts, gen_new H wrap special custom grow nil_h opts).
Proof. exact gen_new_eq_l. Qed.
Print Assumptions gen_new_eq.

(* non-vacuity: one middleware per special scope; each chain carries exactly its own (handlers as traces, the four
   built-in handlers made distinguishable: Run 20 + kind) *)
Example gen_new_example :
  let sp k := match k with KNoRoute => [Run 21] | KNoMethod => [Run 22] | KRedirect => [Run 23] | KOptions => [Run 24] | KRoute => [Run 25] end in
  match gen_new trace twrap sp base_trace (fun _ n => n) []
          [GMwFor NoRouteHandler [Some (User 1)]; GMwFor NoMethodHandler [Some (User 2)]; GMwFor RedirectHandler [Some (User 3)];
           GMwFor OptionsHandler [Some (User 4)]; GCustomH KNoMethod] with
  | Ok r => (r_noRoute _ r, r_noMethod _ r, r_tsr _ r, r_auto _ r) =
            ([Enter (User 1); Run 21; Exit (User 1)], [Enter (User 2); Run 2; Exit (User 2)],
             [Enter (User 3); Run 23; Exit (User 3)], [Enter (User 4); Run 24; Exit (User 4)])
  | _ => False
  end
  /\ gen_new trace twrap sp base_trace (fun _ n => n) [] [GMw [Some (User 1); None]] = Err ErrInvalidConfig.
Proof. vm_compute. split; reflexivity. Qed.

(* Router.NewRoute: hbase, the clipped copy of the router's slice, option loop, applyRouteMiddleware into hself / hall *)
Theorem gen_new_route_eq :
  forall (H : Type) (wrap : mwid -> H -> H) (route_h : nat -> H) (grow : nat -> nat -> nat) (nil_h : H)
         (h : @heap mw) (r : router H) (hid : nat) (ms : list (option mwid)) (ts : list tsopt),
    new_route H wrap route_h grow h r hid ms ts =
      (new_route_heap H grow h r ms, gen_new_route H wrap route_h grow nil_h h r hid ms ts).
Proof. exact gen_new_route_eq_l. Qed.
Print Assumptions gen_new_route_eq.

Example gen_new_route_example :
  let hp := [[]; [mkMw (User 1) AllHandlers true; mkMw (User 2) NoRouteHandler true; zero_mw]] in
  let r := mkRouter trace (mkSlice 1 0 2 3) [] [] [] [] cfg0 in
  match gen_new_route trace twrap troute (fun _ n => n) [] hp r 7 [Some (User 5)] [] with
  | Ok rt => (rt_hbase _ rt, rt_hself _ rt, rt_hall _ rt, s_arr (rt_mws _ rt)) =
             ([Run 7], [Enter (User 5); Run 7; Exit (User 5)],
              [Enter (User 1); Enter (User 5); Run 7; Exit (User 5); Exit (User 1)], 2)    (* a fresh array: the copy was clipped *)
  | _ => False
  end.
Proof. vm_compute. reflexivity. Qed.

(* Route.Handle runs hbase, Route.HandleMiddleware runs hself; and that is what the model's two operations show *)
Theorem gen_route_handle_eq :
  forall (H : Type) (hp : @heap mw) (rt : route H),
    gen_Route_Handle H (rrec_of H hp rt) = rt_hbase H rt /\ gen_Route_HandleMiddleware H (rrec_of H hp rt) = rt_hself H rt.
Proof. exact gen_route_handle_eq_l. Qed.
Print Assumptions gen_route_handle_eq.

Theorem gen_run_route_handle :
  forall (H : Type) (wrap : mwid -> H -> H) (route_h : nat -> H) (grow : nat -> nat -> nat) (st : state H) (key : nat),
    run_op H wrap route_h grow st (ORouteHandle key) =
      (st, match lookup H key (st_tab H st) with
           | Some rt => MH H (gen_Route_Handle H (rrec_of H (st_h H st) rt)) None | None => MNoRoute H end) /\
    run_op H wrap route_h grow st (ORouteHandleMw key) =
      (st, match lookup H key (st_tab H st) with
           | Some rt => MH H (gen_Route_HandleMiddleware H (rrec_of H (st_h H st) rt)) None | None => MNoRoute H end).
Proof. exact gen_run_route_handle_l. Qed.
Print Assumptions gen_run_route_handle.

Example gen_route_handle_example :
  let rt := mkRoute trace nil_slice [Run 1] [Enter (User 2); Run 1; Exit (User 2)] [] (false, false) in
  (gen_Route_Handle trace (rrec_of trace [[]] rt), gen_Route_HandleMiddleware trace (rrec_of trace [[]] rt))
  = ([Run 1], [Enter (User 2); Run 1; Exit (User 2)]).
Proof. vm_compute. reflexivity. Qed.

(* chain_exact_special restated over the generated New: whatever the options are, each of the four special handlers is
   wrapped by exactly the middleware whose scope includes its kind, in registration order, around the right base handler *)
Theorem gen_chain_exact_special :
  forall (H : Type) (wrap : mwid -> H -> H) (special custom : kind -> H) (grow : nat -> nat -> nat) (nil_h : H) (gopts : list gopt),
    match spec_globals gopts [] with
    | None => gen_new H wrap special custom grow nil_h gopts = Err ErrInvalidConfig
    | Some G => exists s,
        gen_new H wrap special custom grow nil_h gopts =
          Ok (mkRouter H s (fold_right wrap (base_h H special custom gopts KNoRoute) (scoped G KNoRoute))
                           (fold_right wrap (base_h H special custom gopts KNoMethod) (scoped G KNoMethod))
                           (fold_right wrap (special KRedirect) (scoped G KRedirect))
                           (fold_right wrap (base_h H special custom gopts KOptions) (scoped G KOptions))
                           (cfg_of gopts))
        /\ wf (new_heap grow gopts) s /\ contents (new_heap grow gopts) s = map mk_glob G
    end.
Proof. exact gen_chain_exact_special_l. Qed.
Print Assumptions gen_chain_exact_special.

(* chain_exact_route restated over the generated NewRoute and accessors: Handle = the bare handler, HandleMiddleware =
   the route's own middleware only, hall = scoped globals outside the route's own *)
Theorem gen_chain_exact_route :
  forall (H : Type) (wrap : mwid -> H -> H) (route_h : nat -> H) (grow : nat -> nat -> nat) (nil_h : H)
         (h : @heap mw) (r : router H) (G : list (mwid * N)) (hid : nat) (ms : list (option mwid)) (ts : list tsopt),
    wf h (r_mws H r) -> contents h (r_mws H r) = map mk_glob G ->
    if has_nil ms then gen_new_route H wrap route_h grow nil_h h r hid ms ts = Err ErrInvalidConfig
    else exists st, gen_NewRoute H wrap nil_h (model_ropts H grow ms) h (r_mws H r) (route_h hid) = Ok st /\
           gen_Route_Handle H st = route_h hid /\
           gen_Route_HandleMiddleware H st = fold_right wrap (route_h hid) (somes ms) /\
           rr_hall st = fold_right wrap (route_h hid) (scoped G KRoute ++ somes ms).
Proof. exact gen_chain_exact_route_l. Qed.
Print Assumptions gen_chain_exact_route.

Example gen_chain_exact_route_example :
  let hp := [[]; [mkMw (User 1) AllHandlers true; mkMw (User 2) NoRouteHandler true]] in
  let r := mkRouter trace (mkSlice 1 0 2 2) [] [] [] [] cfg0 in
  wf hp (r_mws _ r) /\ contents hp (r_mws _ r) = map mk_glob [(User 1, AllHandlers); (User 2, NoRouteHandler)] /\
  has_nil [Some (User 5); Some (User 6)] = false.
Proof. vm_compute. repeat split; lia. Qed.
