(* C13 correspondence: functions evaluated by the case files the harness writes. *)
From FoxBase Require Import Bytes.
From FoxC13 Require Import GoSlice Types Spec Model Conc.

Inductive mwclass := CRecovery | CLogger | CUser.
Definition class_of (f : mwid) : mwclass := match f with Recovery => CRecovery | Logger => CLogger | User _ => CUser end.
Definition mwclass_eqb (a b : mwclass) : bool :=
  match a, b with CRecovery, CRecovery | CLogger, CLogger | CUser, CUser => true | _, _ => false end.

(* one observed entry of router.mws (through the verif hook): which function, scope, g *)
Definition omw := (mwclass * N * bool)%type.
Definition omw_eqb (a b : omw) : bool :=
  let '(c, s, g) := a in let '(c', s', g') := b in mwclass_eqb c c' && N.eqb s s' && Bool.eqb g g'.

(* for a successful Handle/Update: does the route's slice share the router's array, its len, is cap = len *)
Definition alias := option (bool * nat * bool).

Inductive case :=
| CSeq (gopts : list gopt) (newerr : option err) (mws : list omw) (ops : list (op * obs * alias))
| CRace (gopts : list gopt) (fa fb : list mwid) (race : bool) (ta tb : obs).

(* Recovery and Logger emit no events in the real router *)
Definition is_user_ev (e : ev) : bool :=
  match e with Enter (User _) | Exit (User _) | Run _ => true | _ => false end.
Definition erase_obs (o : obs) : obs :=
  match o with
  | ObsTrace t seen => let t' := filter is_user_ev t in ObsTrace t' (match t' with [] => None | _ => seen end)
  | o => o
  end.

Definition grow_c := grow_double.

Definition alias_agrees (m : mobs trace) (a : alias) : bool :=
  match m, a with
  | MErr _ None sh l c, Some (sh', l', cl') => Bool.eqb sh sh' && Nat.eqb l l' && (if sh then Bool.eqb (Nat.eqb c l) cl' else true)
  | MErr _ None _ _ _, None => false
  | _, None => true
  | _, Some _ => false
  end.

Fixpoint ops_agree (ms : list (mobs trace)) (os : list (op * obs * alias)) : bool :=
  match ms, os with
  | [], [] => true
  | m :: mr, (_, o, a) :: orest =>
      negb (has_panic m) && obs_eqb (erase_obs (pobs m)) o && alias_agrees m a && ops_agree mr orest
  | _, _ => false
  end.

Definition race_ops (fa fb : list mwid) : list op :=
  [OHandle 0 10 (map Some fa) []; OHandle 1 11 (map Some fb) []; OServe SExact 0; OServe SExact 1].

(* the model's prediction for a data race between two concurrent NewRoute calls: both
   would have to append in place into the router's array *)
Definition model_race (r : router trace) (fa fb : list mwid) : bool :=
  let s0 := clip (r_mws trace r) in
  (s_len s0 <? s_cap s0) && negb (Nat.eqb (List.length fa) 0) && negb (Nat.eqb (List.length fb) 0).

Definition model_agrees (c : case) : bool :=
  match c with
  | CSeq gopts newerr mws ops =>
      match run_traces grow_c gopts (map (fun x => fst (fst x)) ops) with
      | MNewErr _ e => opt_eqb err_eqb newerr (Some e)
      | MNewPanic _ => false
      | MRun _ r h ms =>
          opt_eqb err_eqb newerr None &&
          list_eqb omw_eqb mws (map (fun e => (class_of (m_f e), m_scope e, m_g e)) (contents h (r_mws trace r))) &&
          ops_agree ms ops
      end
  | CRace gopts fa fb race ta tb =>
      match run_traces grow_c gopts (race_ops fa fb) with
      | MRun _ r h [_; _; ma; mb] =>
          Bool.eqb race (model_race r fa fb) && obs_eqb (erase_obs (pobs ma)) ta && obs_eqb (erase_obs (pobs mb)) tb
      | _ => false
      end
  end.

Definition spec_ok (c : case) : bool :=
  match c with
  | CSeq gopts newerr mws ops =>
      match spec_run gopts (map (fun x => fst (fst x)) ops) with
      | RNewErr e => opt_eqb err_eqb newerr (Some e)
      | RPanic => false
      | RRun os =>
          opt_eqb err_eqb newerr None &&
          list_eqb obs_eqb (map erase_obs os) (map (fun x => snd (fst x)) ops) &&
          match spec_globals gopts [] with
          | Some G => list_eqb omw_eqb mws (map (fun p => (class_of (fst p), snd p, true)) G)
          | None => false
          end
      end
  | CRace gopts fa fb race ta tb =>
      match spec_run gopts (race_ops fa fb) with
      | RRun [_; _; sa; sb] => negb race && obs_eqb (erase_obs sa) ta && obs_eqb (erase_obs sb) tb
      | _ => false
      end
  end.

Definition mismatches (cs : list case) : list nat := true_idx (map (fun c => negb (model_agrees c)) cs).
Definition spec_violations (cs : list case) : list nat := true_idx (map (fun c => negb (spec_ok c)) cs).
Definition fuel_outs (cs : list case) : list nat := [].   (* the model uses no fuel *)
