(* Concrete instances (non-vacuity) of the C18 theorems, decided by computation. *)
From FoxBase Require Import Bytes.
From FoxC18 Require Import Cidr Iana Types GoStd ParseIP Spec Entries Strategies GenRanges Model Corr.
Open Scope N_scope.

Definition ex_rq : request :=
  {| xff := [S2B "9.9.9.9, 1.1.1.1:80"; S2B " 2001:db8::1 ,bogus, 192.168.1.1"];
     forwarded := [S2B "for=""[2606:4700::1111]:443"";proto=https, For=10.0.0.1"; S2B "by=1.2.3.4;for=_hidden, for=172.16.0.9"];
     single := [S2B "3.3.3.3"; S2B "4.4.4.4"];
     remote := S2B "[fe80::1%eth0]:1234" |}.

Definition a4 (a b c d : N) : addr := ((V4, ip4 a b c d), []).

Lemma ex_entries_xff :
  spec_entries addr parse_ip_addr false (xff ex_rq) =
  [Some (a4 9 9 9 9); Some (a4 1 1 1 1); Some ((V6, ip6 [0x2001; 0xdb8; 0; 0; 0; 0; 0; 1]), []); None; Some (a4 192 168 1 1)].
Proof. vm_compute. reflexivity. Qed.

Lemma ex_entries_fwd :
  spec_entries addr parse_ip_addr true (forwarded ex_rq) =
  [Some ((V6, ip6 [0x2606; 0x4700; 0; 0; 0; 0; 0; 0x1111]), []); Some (a4 10 0 0 1); None; Some (a4 172 16 0 9)].
Proof. vm_compute. reflexivity. Qed.

Lemma ex_count_2 : resolve ex_rq (RTrustedCount false 2) = Err [ECountInvalid].
Proof. vm_compute. reflexivity. Qed.
Lemma ex_count_3 : resolve ex_rq (RTrustedCount false 3) = Ok ((V6, ip6 [0x2001; 0xdb8; 0; 0; 0; 0; 0; 1]), []).
Proof. vm_compute. reflexivity. Qed.
Lemma ex_count_6 : resolve ex_rq (RTrustedCount false 6) = Err [ECountFewer].
Proof. vm_compute. reflexivity. Qed.
Lemma ex_rnp : resolve ex_rq (RRightNonPrivate false []) = Ok (a4 1 1 1 1).
Proof. vm_compute. reflexivity. Qed.
Lemma ex_rnp_fwd : resolve ex_rq (RRightNonPrivate true [(OLoopback, true)]) = Ok (a4 172 16 0 9).
Proof. vm_compute. reflexivity. Qed.
Lemma ex_range_invalid :
  resolve ex_rq (RTrustedRange false (Some [(V4, ip4 192 168 0 0, 16)])) = Err [ERangeNoValid].
Proof. vm_compute. reflexivity. Qed.
Lemma ex_range_fwd :
  resolve ex_rq (RTrustedRange true (Some [(V4, ip4 172 16 0 0, 12)])) = Err [ERangeNoValid].
Proof. vm_compute. reflexivity. Qed.
Lemma ex_leftmost_1 : resolve ex_rq (RLeftmost true 1 []) = Ok ((V6, ip6 [0x2606; 0x4700; 0; 0; 0; 0; 0; 0x1111]), []).
Proof. vm_compute. reflexivity. Qed.
Lemma ex_leftmost_limit :
  resolve {| xff := [S2B "10.0.0.1, 10.0.0.2, 8.8.8.8"]; forwarded := []; single := []; remote := [] |} (RLeftmost false 2 [])
  = Err [ELeftmost].
Proof. vm_compute. reflexivity. Qed.
Lemma ex_single : resolve ex_rq RSingle = Ok (a4 4 4 4 4).
Proof. vm_compute. reflexivity. Qed.
Lemma ex_single_last_invalid :
  resolve {| xff := []; forwarded := []; single := [S2B "3.3.3.3"; S2B "nope"]; remote := [] |} RSingle = Err [EInvalidIP].
Proof. vm_compute. reflexivity. Qed.
Lemma ex_remote : resolve ex_rq RRemoteAddr = Ok ((V6, ip6 [0xfe80; 0; 0; 0; 0; 0; 0; 1]), S2B "eth0").
Proof. vm_compute. reflexivity. Qed.
Lemma ex_chain :
  resolve ex_rq (RChain [RTrustedCount false 2; RTrustedRange true None; RSingle; RRemoteAddr]) = Ok (a4 4 4 4 4).
Proof. vm_compute. reflexivity. Qed.
Lemma ex_chain_errors :
  resolve ex_rq (RChain [RTrustedCount false 2; RChain [RTrustedRange true None; RTrustedCount true 9]])
  = Err [ECountInvalid; ERangeResolver; ECountFewer].
Proof. vm_compute. reflexivity. Qed.
(* the pre-fix witnesses of the empty-chain defect *)
Lemma ex_chain_empty : resolve ex_rq (RChain []) = Err [EChainEmpty].
Proof. vm_compute. reflexivity. Qed.
Lemma ex_chain_nested_empty :
  resolve {| xff := []; forwarded := []; single := []; remote := S2B "1.2.3.4:1" |} (RChain [RChain []; RRemoteAddr])
  = Ok (a4 1 2 3 4).
Proof. vm_compute. reflexivity. Qed.

(* the lazy iterators really stop early: a consumer that stops at the first element sees one element *)
Lemma ex_lazy :
  backward_ip_addr_seq addr parse_ip_addr false (xff ex_rq) (list (option (option addr)))
                       (fun e st => (e :: st, false)) [] = ([Some (Some (a4 192 168 1 1))], false).
Proof. vm_compute. reflexivity. Qed.

Lemma ex_attack_lines :
  attack_lines [S2B "6.6.6.6"] (Some (S2B "127.0.0.1, 7.7.7.7")) [S2B "5.5.5.5, 10.0.0.1"; S2B "10.0.0.2"]
  = [S2B "6.6.6.6"; S2B "127.0.0.1, 7.7.7.7,5.5.5.5, 10.0.0.1"; S2B "10.0.0.2"].
Proof. vm_compute. reflexivity. Qed.
