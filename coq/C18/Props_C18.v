(* C18 property theorems: statements only, each closed by [exact]. *)
From FoxBase Require Import Bytes.
From FoxC18 Require Import Cidr Iana Types GoStd ParseIP Spec Entries Strategies GenRanges Model Corr
  Ranges EntriesProofs StrategiesProofs ModelProofs Examples.
Open Scope N_scope.

(* ================= the ranges trusted by default contain no globally routable address ================= *)

Theorem cidr_subset_sound :
  forall c1 c2, cidr_subset c1 c2 = true -> forall a, cidr_in c1 a -> cidr_in c2 a.
Proof. exact Cidr.cidr_subset_sound. Qed.
Print Assumptions cidr_subset_sound.

(* every address (all 2^32 / 2^128 of them) of every entry of the four tables regenerated
   from clientip.go lies in a block of the IANA special-purpose registries *)
Theorem default_ranges_not_global :
  forall t, In t [privateAndLocalRanges; privateRange; loopbackRanges; linkLocalRanges] ->
  forall c, In c t -> forall a, cidr_in c a -> special_purpose a.
Proof. exact default_ranges_not_global_lemma. Qed.
Print Assumptions default_ranges_not_global.

Example default_ranges_nonvacuous :
  In (V4, ip4 10 0 0 0, 8) privateAndLocalRanges /\ cidr_in (V4, ip4 10 0 0 0, 8) (V4, ip4 10 255 3 7)
  /\ In (V6, ip6 [0xfe80;0;0;0;0;0;0;0], 10) linkLocalRanges
  /\ cidr_in (V6, ip6 [0xfe80;0;0;0;0;0;0;0], 10) (V6, ip6 [0xfe80;0;0;0;0;0;0xab;1]).
Proof. exact Ranges.default_ranges_nonvacuous. Qed.
Print Assumptions default_ranges_nonvacuous.

(* the typo the pinned tree carried (192.18.0.0/15 for 198.18.0.0/15) does not pass the audit *)
Example typo_block_rejected : covered (V4, ip4 192 18 0 0, 15) = false.
Proof. exact typo_block_not_covered. Qed.
Print Assumptions typo_block_rejected.

Example typo_witness_is_global :
  special_purposeb (V4, ip4 192 18 0 1) = false /\ cidr_in (V4, ip4 192 18 0 0, 15) (V4, ip4 192 18 0 1).
Proof. exact typo_witness_global. Qed.
Print Assumptions typo_witness_is_global.

(* ================= header iteration ================= *)

(* the forward iterator enumerates the flattened entry list, the backward iterator its
   reverse, element by element and stopping when the consumer stops *)
Theorem entries_backward_is_rev_forward :
  forall (A : Type) (parse : bytes -> pres A), (forall s, parse s <> PPanic) ->
  forall fwd values,
    seq_is (ip_addr_seq A parse fwd values) (map Some (spec_entries A parse fwd values))
    /\ seq_is (backward_ip_addr_seq A parse fwd values) (map Some (rev (spec_entries A parse fwd values))).
Proof. exact (fun A parse np fwd values =>
                conj (ip_addr_seq_is A parse np fwd values) (backward_ip_addr_seq_is A parse np fwd values)). Qed.
Print Assumptions entries_backward_is_rev_forward.

Theorem split_iterators_spec :
  forall sep s, seq_is (split_seq sep s) (split_on sep s) /\ seq_is (bsplit_seq sep s) (rev (split_on sep s)).
Proof. exact (fun sep s => conj (split_seq_is sep s) (bsplit_seq_is sep s)). Qed.
Print Assumptions split_iterators_spec.

Theorem take_at_spec :
  forall (E : Type) (q : seq E) l n, seq_is q l ->
    seq_is (take q n) (firstn (N.to_nat n) l) /\ at_ q n = nth_error l (N.to_nat n).
Proof. exact (fun E q l n H => conj (take_is q l n H) (at_is q l n H)). Qed.
Print Assumptions take_at_spec.

(* the entry list is compositional in the header lines and at a comma inside a line *)
Theorem entries_app :
  forall (A : Type) (parse : bytes -> pres A) fwd l1 l2 t l0 rest,
    spec_entries A parse fwd (l1 ++ l2) = spec_entries A parse fwd l1 ++ spec_entries A parse fwd l2
    /\ spec_entries A parse fwd ((t ++ ","%char :: l0) :: rest)
       = spec_entries A parse fwd [t] ++ spec_entries A parse fwd (l0 :: rest).
Proof. exact (fun A parse fwd l1 l2 t l0 rest =>
                conj (spec_entries_app A parse fwd l1 l2) (spec_entries_text A parse fwd t l0 rest)). Qed.
Print Assumptions entries_app.

Example entries_example :
  spec_entries addr parse_ip_addr false (xff ex_rq) =
  [Some (a4 9 9 9 9); Some (a4 1 1 1 1); Some ((V6, ip6 [0x2001; 0xdb8; 0; 0; 0; 0; 0; 1]), []); None; Some (a4 192 168 1 1)]
  /\ spec_entries addr parse_ip_addr true (forwarded ex_rq) =
  [Some ((V6, ip6 [0x2606; 0x4700; 0; 0; 0; 0; 0; 0x1111]), []); Some (a4 10 0 0 1); None; Some (a4 172 16 0 9)].
Proof. exact (conj ex_entries_xff ex_entries_fwd). Qed.
Print Assumptions entries_example.

Example iterators_are_lazy :
  backward_ip_addr_seq addr parse_ip_addr false (xff ex_rq) (list (option (option addr)))
                       (fun e st => (e :: st, false)) [] = ([Some (Some (a4 192 168 1 1))], false).
Proof. exact ex_lazy. Qed.
Print Assumptions iterators_are_lazy.

(* ================= each strategy returns exactly the designated entry ================= *)
(* over an arbitrary address type, an arbitrary non-panicking ParseIPAddr and an arbitrary range test *)

Theorem trusted_count_nth :
  forall (A : Type) (parse : bytes -> pres A), (forall s, parse s <> PPanic) ->
  forall fwd values n, 0 < n ->
    rightmost_trusted_count A parse fwd values n =
    match nth_error (rev (spec_entries A parse fwd values)) (N.to_nat n - 1) with
    | Some (Some a) => Ok a
    | Some None => Err [ECountInvalid]
    | None => Err [ECountFewer]
    end.
Proof. exact StrategiesProofs.trusted_count_nth. Qed.
Print Assumptions trusted_count_nth.

Example trusted_count_examples :
  resolve ex_rq (RTrustedCount false 2) = Err [ECountInvalid]
  /\ resolve ex_rq (RTrustedCount false 3) = Ok ((V6, ip6 [0x2001; 0xdb8; 0; 0; 0; 0; 0; 1]), [])
  /\ resolve ex_rq (RTrustedCount false 6) = Err [ECountFewer].
Proof. exact (conj ex_count_2 (conj ex_count_3 ex_count_6)). Qed.
Print Assumptions trusted_count_examples.

Theorem rightmost_non_private_spec :
  forall (A : Type) (parse : bytes -> pres A), (forall s, parse s <> PPanic) ->
  forall fwd values trusted,
    rightmost_non_private A parse fwd values trusted =
    match find (untrusted_addr A trusted) (rev (spec_entries A parse fwd values)) with
    | Some (Some a) => Ok a
    | _ => Err [ERightNonPrivate]
    end.
Proof. exact StrategiesProofs.rightmost_non_private_spec. Qed.
Print Assumptions rightmost_non_private_spec.

Example rightmost_non_private_examples :
  resolve ex_rq (RRightNonPrivate false []) = Ok (a4 1 1 1 1)
  /\ resolve ex_rq (RRightNonPrivate true [(OLoopback, true)]) = Ok (a4 172 16 0 9).
Proof. exact (conj ex_rnp ex_rnp_fwd). Qed.
Print Assumptions rightmost_non_private_examples.

Theorem trusted_range_spec :
  forall (A : Type) (parse : bytes -> pres A), (forall s, parse s <> PPanic) ->
  forall fwd values trusted,
    rightmost_trusted_range A parse fwd values (Some trusted) =
    match find (fun e => negb (trusted_addr A trusted e)) (rev (spec_entries A parse fwd values)) with
    | Some (Some a) => Ok a
    | _ => Err [ERangeNoValid]
    end.
Proof. exact StrategiesProofs.trusted_range_spec. Qed.
Print Assumptions trusted_range_spec.

Example trusted_range_examples :
  resolve ex_rq (RTrustedRange false (Some [(V4, ip4 192 168 0 0, 16)])) = Err [ERangeNoValid]
  /\ resolve ex_rq (RTrustedRange true (Some [(V4, ip4 172 16 0 0, 12)])) = Err [ERangeNoValid].
Proof. exact (conj ex_range_invalid ex_range_fwd). Qed.
Print Assumptions trusted_range_examples.

Theorem leftmost_spec :
  forall (A : Type) (parse : bytes -> pres A), (forall s, parse s <> PPanic) ->
  forall fwd values limit blacklisted,
    leftmost_non_private A parse fwd values limit blacklisted =
    match find (untrusted_addr A blacklisted) (firstn (N.to_nat limit) (spec_entries A parse fwd values)) with
    | Some (Some a) => Ok a
    | _ => Err [ELeftmost]
    end.
Proof. exact StrategiesProofs.leftmost_first_limit. Qed.
Print Assumptions leftmost_spec.

Example leftmost_examples :
  resolve ex_rq (RLeftmost true 1 []) = Ok ((V6, ip6 [0x2606; 0x4700; 0; 0; 0; 0; 0; 0x1111]), [])
  /\ resolve {| xff := [S2B "10.0.0.1, 10.0.0.2, 8.8.8.8"]; forwarded := []; single := []; remote := [] |}
             (RLeftmost false 2 []) = Err [ELeftmost].
Proof. exact (conj ex_leftmost_1 ex_leftmost_limit). Qed.
Print Assumptions leftmost_examples.

Theorem single_header_last :
  forall (A : Type) (parse : bytes -> pres A) matches,
    single_ip_header A parse matches =
    match rev matches with
    | [] => Err [ESingleNotFound]
    | [] :: _ => Err [ESingleNotFound]
    | l :: _ => match parse l with
                | POk a => Ok a
                | PInvalid => Err [EInvalidIP]
                | PUnspec => Err [EUnspecifiedIP]
                | PPanic => Panic
                end
    end.
Proof. exact StrategiesProofs.single_header_last. Qed.
Print Assumptions single_header_last.

Example single_header_examples :
  resolve ex_rq RSingle = Ok (a4 4 4 4 4)
  /\ resolve {| xff := []; forwarded := []; single := [S2B "3.3.3.3"; S2B "nope"]; remote := [] |} RSingle
     = Err [EInvalidIP].
Proof. exact (conj ex_single ex_single_last_invalid). Qed.
Print Assumptions single_header_examples.

Theorem chain_first_success :
  forall (A : Type) pre (s : unit -> result A) post a,
    Forall (fun p : unit -> result A => exists e, p tt = Err e) pre ->
    s tt = Ok a -> chain A (pre ++ s :: post) = Ok a.
Proof. exact StrategiesProofs.chain_first_success. Qed.
Print Assumptions chain_first_success.

Theorem chain_all_errors :
  forall (A : Type) subs,
    Forall (fun p : unit -> result A => exists e, p tt = Err e) subs ->
    exists es, chain A subs = Err es.
Proof. exact StrategiesProofs.chain_all_errors. Qed.
Print Assumptions chain_all_errors.

Example chain_examples :
  resolve ex_rq (RChain [RTrustedCount false 2; RTrustedRange true None; RSingle; RRemoteAddr]) = Ok (a4 4 4 4 4)
  /\ resolve ex_rq (RChain [RTrustedCount false 2; RChain [RTrustedRange true None; RTrustedCount true 9]])
     = Err [ECountInvalid; ERangeResolver; ECountFewer].
Proof. exact (conj ex_chain ex_chain_errors). Qed.
Print Assumptions chain_examples.

(* a chain returns an address or an error - for every chain, the empty one and chains with
   empty chains inside included (the defect fixed by a2abf08: Chain{}.ClientIP returned (nil, nil)) *)
Theorem chain_result :
  forall rq subs, (exists a, resolve rq (RChain subs) = Ok a) \/ (exists e, resolve rq (RChain subs) = Err e).
Proof. exact ModelProofs.chain_result. Qed.
Print Assumptions chain_result.

Example chain_empty_examples :
  resolve ex_rq (RChain []) = Err [EChainEmpty]
  /\ resolve {| xff := []; forwarded := []; single := []; remote := S2B "1.2.3.4:1" |} (RChain [RChain []; RRemoteAddr])
     = Ok (a4 1 2 3 4).
Proof. exact (conj ex_chain_empty ex_chain_nested_empty). Qed.
Print Assumptions chain_empty_examples.

(* ================= the concrete model ================= *)

Theorem parse_ip_addr_no_panic : forall s, parse_ip_addr s <> PPanic.
Proof. exact EntriesProofs.parse_ip_addr_no_panic. Qed.
Print Assumptions parse_ip_addr_no_panic.

(* every resolver, every request: no panic (all index expressions of the model are in range) *)
Theorem resolve_never_panics : forall rq r, resolve rq r <> Panic.
Proof. exact ModelProofs.resolve_never_panics. Qed.
Print Assumptions resolve_never_panics.

(* ... and the outcome is an address or an error, never (nil, nil) *)
Theorem resolve_result :
  forall rq r, (exists a, resolve rq r = Ok a) \/ (exists e, resolve rq r = Err e).
Proof. exact ModelProofs.resolve_result. Qed.
Print Assumptions resolve_result.

(* the model computes the specification function the correspondence files evaluate, for every
   configuration the constructors accept (trusted count > 0) *)
Theorem resolve_refines_spec :
  forall rq r, wf_resolver r = true -> resolve rq r = spec_resolve rq r.
Proof. exact ModelProofs.resolve_refines_spec. Qed.
Print Assumptions resolve_refines_spec.

(* an address is returned only when it is the designated one; when an error is designated an
   error is returned - never a fallback address *)
Theorem error_never_fallback :
  forall rq r, wf_resolver r = true ->
    (forall a, resolve rq r = Ok a <-> spec_resolve rq r = Ok a)
    /\ (forall e, spec_resolve rq r = Err e -> resolve rq r = Err e).
Proof. exact ModelProofs.error_never_fallback. Qed.
Print Assumptions error_never_fallback.

(* ================= anti-spoofing ================= *)
(* for every attacker prefix (extra header lines and/or text prepended to the first genuine line
   up to a comma) the rightmost strategies return the same result whenever the designated entry
   lies in the untouched suffix *)

Theorem rightmost_prefix_independent_generic :
  forall (A : Type) (parse : bytes -> pres A), (forall s, parse s <> PPanic) ->
  forall fwd extra text lines,
    (forall n, designated_within_count A (spec_entries A parse fwd lines) n = true ->
       rightmost_trusted_count A parse fwd (attack_lines extra text lines) n =
       rightmost_trusted_count A parse fwd lines n)
    /\ (forall trusted, designated_within_non_private A trusted (spec_entries A parse fwd lines) = true ->
       rightmost_non_private A parse fwd (attack_lines extra text lines) trusted =
       rightmost_non_private A parse fwd lines trusted)
    /\ (forall trusted, designated_within_range A trusted (spec_entries A parse fwd lines) = true ->
       rightmost_trusted_range A parse fwd (attack_lines extra text lines) (Some trusted) =
       rightmost_trusted_range A parse fwd lines (Some trusted)).
Proof. exact (fun A parse np fwd extra text lines =>
   conj (fun n => trusted_count_prefix_independent A parse np fwd extra text lines n)
  (conj (fun tr => non_private_prefix_independent_lines A parse np fwd extra text lines tr)
        (fun tr => trusted_range_prefix_independent A parse np fwd extra text lines tr))). Qed.
Print Assumptions rightmost_prefix_independent_generic.

Theorem rightmost_prefix_independent :
  forall rq hdr extra text r,
    rightmost r = true -> reads r = Some hdr -> designated_in_suffix rq r = Some true ->
    resolve (attacked rq hdr extra text) r = resolve rq r.
Proof. exact ModelProofs.rightmost_prefix_independent. Qed.
Print Assumptions rightmost_prefix_independent.

Example rightmost_prefix_independent_nonvacuous :
  let rq := {| xff := [S2B "5.5.5.5, 10.0.0.1"]; forwarded := []; single := []; remote := S2B "10.0.0.9:1" |} in
  let r := RRightNonPrivate false [] in
  rightmost r = true /\ reads r = Some 0 /\ designated_in_suffix rq r = Some true
  /\ resolve (attacked rq 0 [S2B "6.6.6.6"] (Some (S2B "127.0.0.1, 7.7.7.7"))) r = Ok ((V4, ip4 5 5 5 5), []).
Proof. exact rightmost_prefix_independent_example. Qed.
Print Assumptions rightmost_prefix_independent_nonvacuous.
