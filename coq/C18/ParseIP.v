(* Model of clientip.ParseIPAddr, trimMatchedEnds (clientip.go:350-379, 430-453)
   and netutil.SplitHostZone. *)
From FoxBase Require Import Bytes.
From FoxC18 Require Import Cidr Types GoStd.

(* trimMatchedEnds(s, chars); None = panic (explicit or index out of range) *)
Definition trim_matched_ends (s chars : bytes) : option bytes :=
  if negb ((List.length chars =? 1)%nat || (List.length chars =? 2)%nat) then None
  else
    match nth_error chars 0 with
    | None => None
    | Some first =>
      match (if (1 <? List.length chars)%nat then nth_error chars 1 else Some first) with
      | None => None
      | Some last =>
        if (List.length s <? 2)%nat then Some s
        else match nth_error s 0 with
             | None => None
             | Some c0 =>
               if negb (Ascii.eqb c0 first) then Some s
               else match nth_error s (List.length s - 1) with
                    | None => None
                    | Some cl =>
                      if negb (Ascii.eqb cl last) then Some s
                      else slice 1 (List.length s - 1) s
                    end
             end
      end
    end.

(* netutil.SplitHostZone: split at the last '%' when its index is > 0 *)
Definition split_host_zone (s : bytes) : bytes * bytes :=
  match last_index_of "%" s with
  | Some (S i) => (firstn (S i) s, skipn (S (S i)) s)
  | _ => (s, [])
  end.

Definition parse_ip_addr (ip : bytes) : pres addr :=
  let ip1 := match net_split_host ip with Some host => host | None => ip end in
  match trim_matched_ends ip1 (S2B "[]") with
  | None => PPanic
  | Some ip2 =>
    let '(ipStr, zone) := split_host_zone ip2 in
    match net_parse_ip ipStr with
    | None => PInvalid
    | Some a => if is_unspecified a then PUnspec else POk (a, zone)
    end
  end.
