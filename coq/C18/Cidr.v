(* CIDR blocks over addresses represented as N (32 bits for IPv4, 128 for IPv6)
   and a verified inclusion test. *)
From Coq Require Import NArith List Bool Lia.
Import ListNotations.
Open Scope N_scope.

Inductive fam := V4 | V6.

Definition fam_eqb (a b : fam) : bool :=
  match a, b with V4, V4 | V6, V6 => true | _, _ => false end.

Lemma fam_eqb_eq a b : fam_eqb a b = true <-> a = b.
Proof. destruct a, b; simpl; split; congruence. Qed.

Definition bits (f : fam) : N := match f with V4 => 32 | V6 => 128 end.

(* (family, network address, prefix length) *)
Definition cidr := (fam * N * N)%type.
(* (family, address) *)
Definition ipaddr := (fam * N)%type.

Definition ip4 (a b c d : N) : N := ((a * 256 + b) * 256 + c) * 256 + d.
Definition ip6 (groups : list N) : N := fold_left (fun acc g => acc * 65536 + g) groups 0.

(* membership as IPNet.Contains computes it for a canonical mask: the leading
   [len] bits of the address equal those of the network address *)
Definition cidr_inb (c : cidr) (a : ipaddr) : bool :=
  let '(f, b, l) := c in
  let '(fa, x) := a in
  fam_eqb f fa && (N.shiftr x (bits f - l) =? N.shiftr b (bits f - l)).

Definition addr_wf (a : ipaddr) : Prop := snd a < 2 ^ bits (fst a).

Definition cidr_in (c : cidr) (a : ipaddr) : Prop := addr_wf a /\ cidr_inb c a = true.

Definition cidr_subset (c1 c2 : cidr) : bool :=
  let '(f1, b1, l1) := c1 in
  let '(f2, b2, l2) := c2 in
  fam_eqb f1 f2 && (l2 <=? l1) && (l1 <=? bits f1)
  && (N.shiftr b1 (bits f1 - l2) =? N.shiftr b2 (bits f1 - l2)).

Definition in_ranges (rs : list cidr) (a : ipaddr) : bool := existsb (fun c => cidr_inb c a) rs.

Lemma cidr_subset_sound c1 c2 :
  cidr_subset c1 c2 = true -> forall a, cidr_in c1 a -> cidr_in c2 a.
Proof.
  destruct c1 as [[f1 b1] l1], c2 as [[f2 b2] l2]; unfold cidr_subset.
  intros Hs [fa x] [Hwf Hin]. split; [exact Hwf|].
  repeat rewrite andb_true_iff in Hs. destruct Hs as [[[Hf Hl] Hb] Hp].
  apply fam_eqb_eq in Hf; subst f2.
  apply N.leb_le in Hl, Hb. apply N.eqb_eq in Hp.
  unfold cidr_inb in *. apply andb_true_iff in Hin. destruct Hin as [Hfa Hx].
  rewrite Hfa; simpl. apply N.eqb_eq in Hx. apply N.eqb_eq.
  replace (bits f1 - l2) with ((bits f1 - l1) + (l1 - l2)) by lia.
  rewrite <- !N.shiftr_shiftr. rewrite Hx. rewrite !N.shiftr_shiftr.
  replace ((bits f1 - l1) + (l1 - l2)) with (bits f1 - l2) by lia. exact Hp.
Qed.

(* the inclusion test is not vacuous: it is also complete on well-formed blocks
   in the sense that a block is included in itself *)
Lemma cidr_subset_refl f b l : l <= bits f -> cidr_subset (f, b, l) (f, b, l) = true.
Proof.
  intros H. unfold cidr_subset. destruct f; simpl in *;
  rewrite N.leb_refl, N.eqb_refl; simpl; rewrite andb_true_r; apply N.leb_le; exact H.
Qed.
